(* Table/ChangesIter.v — one change iterator against the tables it is refreshed from:
   the ordering invariant (oinv), the replay/convergence invariant (cinv), their
   preservation by consume (the loop inside the sequence returned by Next) and by
   refresh against a later table. No database histories yet (Table/ChangesProofs.v). *)
From SV Require Import Base.Bytes Base.OrdMap KeyEnc.Model KeyEnc.Proofs
                       Table.Model Table.InvDefs Table.Inv Table.ChangesStream.
From Coq Require Import ZifyN ZifyNat ZifyBool.
Open Scope N_scope.
#[local] Opaque rev_key.

Definition pk (o : object) : bytes := p_id (o_data o).

(* ---- "B is a later-or-equal state of the same table history as A": whatever B holds with a
        revision A had already assigned, A holds too --------------------------------------- *)
Definition tab_le (A B : table) : Prop :=
  t_rev A <= t_rev B /\
  (forall o, live B o -> o_rev o <= t_rev A -> live A o) /\
  (forall o, dead B o -> o_rev o <= t_rev A -> dead A o).

Lemma tab_le_refl A : tab_le A A.
Proof. repeat split; auto. lia. Qed.

Lemma tab_le_trans A B C : tab_le A B -> tab_le B C -> tab_le A C.
Proof.
  intros [R1 [L1 D1]] [R2 [L2 D2]]. repeat split; [lia| |].
  - intros o H Hr. apply L1; auto. apply L2; auto. lia.
  - intros o H Hr. apply D1; auto. apply D2; auto. lia.
Qed.

(* ---- replaying delivered changes: update sets the object, delete removes it ----------------- *)
Definition absmap := omap (N * N).
Definition apply_change (m : absmap) (c : object * bool) : absmap :=
  if snd c then om_delete (pk (fst c)) m
  else om_insert (pk (fst c)) (p_val (o_data (fst c)), o_rev (fst c)) m.
Definition replay (l : list (object * bool)) : absmap := fold_left apply_change l [].
(* the objects and revisions of a table: primary key -> (value, revision) *)
Definition abs_of (t : table) : absmap :=
  map (fun kv => (fst kv, (p_val (o_data (snd kv)), o_rev (snd kv)))) (t_primary t).

Lemma apply_change_sorted m c : om_sorted m -> om_sorted (apply_change m c).
Proof. unfold apply_change. destruct (snd c); [apply om_delete_sorted|apply om_insert_sorted]. Qed.

Lemma fold_apply_sorted l : forall m, om_sorted m -> om_sorted (fold_left apply_change l m).
Proof. induction l as [|c r IH]; intros m H; simpl; auto. apply IH. now apply apply_change_sorted. Qed.

Lemma replay_sorted l : om_sorted (replay l).
Proof. apply fold_apply_sorted. exact I. Qed.

Lemma replay_snoc l c : replay (l ++ [c]) = apply_change (replay l) c.
Proof. unfold replay. now rewrite fold_left_app. Qed.

Section MapVals.
Context {V W : Type} (f : V -> W).
Let mv (m : omap V) : omap W := map (fun kv => (fst kv, f (snd kv))) m.

Lemma mv_above k m : om_above k m -> om_above k (mv m).
Proof. unfold om_above, mv. intros H. apply Forall_map. eapply Forall_impl; [|exact H]. auto. Qed.

Lemma mv_sorted m : om_sorted m -> om_sorted (mv m).
Proof.
  induction m as [|[k v] r IH]; simpl; auto. intros [Ha Hs]. split; [now apply mv_above|auto].
Qed.

Lemma mv_get k m : om_get k (mv m) = option_map f (om_get k m).
Proof.
  induction m as [|[k' v] r IH]; simpl; auto.
  destruct (bytes_eqb k k'); auto. destruct (bytes_ltb k k'); auto.
Qed.
End MapVals.

Lemma abs_of_sorted t : TInv t -> om_sorted (abs_of t).
Proof. intros HI. unfold abs_of. apply (mv_sorted (fun o => (p_val (o_data o), o_rev o))). apply HI. Qed.

Lemma abs_of_get t k : om_get k (abs_of t) =
  option_map (fun o => (p_val (o_data o), o_rev o)) (om_get k (t_primary t)).
Proof. unfold abs_of. apply (mv_get (fun o => (p_val (o_data o), o_rev o))). Qed.

(* ---- facts about live / dead under TInv --------------------------------------------------- *)
Lemma live_pk_fun t o1 o2 : TInv t -> live t o1 -> live t o2 -> pk o1 = pk o2 -> o1 = o2.
Proof.
  intros HI H1 H2 E. unfold live, pk in *. rewrite E in H1.
  eapply om_in_fun; eauto. apply HI.
Qed.

Lemma dead_pk_fun t o1 o2 : TInv t -> dead t o1 -> dead t o2 -> pk o1 = pk o2 -> o1 = o2.
Proof.
  intros HI H1 H2 E. unfold dead, pk in *. rewrite E in H1.
  eapply om_in_fun; eauto. apply HI.
Qed.

Lemma live_dead_pk t o1 o2 : TInv t -> live t o1 -> dead t o2 -> pk o1 <> pk o2.
Proof.
  intros HI H1 H2 E. pose proof (dead_not_live_key t HI _ H2) as Hn.
  apply (live_get t HI) in H1. unfold pk in E. rewrite E in H1. congruence.
Qed.

(* ---- the pending stream, one element at a time ------------------------------------------------ *)
Lemma pend_spec_tail G o b r R D : TInv G -> pend_spec ((o, b) :: r) G R D ->
  (if b then dead G o /\ D < o_rev o else live G o /\ R < o_rev o) /\
  (forall c, In c r -> o_rev o < crev c) /\
  pend_spec r G (if b then R else o_rev o) (if b then o_rev o else D).
Proof.
  intros HI [Ha Hm]. cbn [map] in Ha. apply asc_cons_inv in Ha. destruct Ha as [Ha Hlt].
  assert (Hh := proj1 (Hm o b) (or_introl eq_refl)).
  assert (Hr : forall c, In c r -> o_rev o < crev c).
  { intros c Hc. apply Hlt. now apply in_map. }
  split; [exact Hh|]. split; [exact Hr|]. split; [exact Ha|].
  intros o' b'. split.
  - intros Hin. pose proof (Hr _ Hin) as Hl. unfold crev in Hl. cbn [fst] in Hl.
    pose proof (proj1 (Hm o' b') (or_intror Hin)) as Hs.
    destruct b, b'; intuition lia.
  - intros Hs.
    assert (Hin : In (o', b') ((o, b) :: r)).
    { apply Hm. destruct b, b'; intuition lia. }
    destruct Hin as [E|Hin]; auto. injection E as -> ->. destruct b'; lia.
Qed.

Lemma pend_spec_nil G R D : pend_spec [] G R D ->
  (forall o, live G o -> o_rev o <= R) /\ (forall o, dead G o -> o_rev o <= D).
Proof.
  intros [_ Hm]. split; intros o Ho.
  - destruct (N.le_gt_cases (o_rev o) R); auto. exfalso. apply (Hm o false). auto.
  - destruct (N.le_gt_cases (o_rev o) D); auto. exfalso. apply (Hm o true). auto.
Qed.

(* ---- iterator state after handing out one element (the loop body of the sequence) ----------- *)
Definition advance (it : iter) (c : object * bool) (r : list (object * bool)) : iter :=
  if snd c then mkI (it_tab it) (it_rev it) (o_rev (fst c)) (Some r) (it_watchrev it) true
  else mkI (it_tab it) (o_rev (fst c)) (it_delrev it) (Some r) (it_watchrev it) true.
(* the loop ended *)
Definition drained (it : iter) : iter :=
  mkI (it_tab it) (it_rev it) (it_delrev it) None (it_watchrev it) false.
(* Next: refresh and hand out a sequence *)
Definition next_iter (S : table) (it : iter) : iter :=
  mkI (it_tab it) (it_rev it) (it_delrev it) (it_pending (refresh S it)) (t_rev S) true.

(* ---- ordering invariant: G = the table the iterator was last refreshed from (at creation: the
        creating transaction's table), acc = everything delivered so far ------------------------ *)
Record oinv (G : table) (it : iter) (acc : list (object * bool)) : Prop := mkOinv {
  oi_tinv : TInv G;
  oi_room : rev_room G;
  oi_asc : asc (map crev acc);
  oi_le : forall c, In c acc -> crev c <= t_rev G;
  (* nothing delivered so far is at or above a live object / retained deletion still to come *)
  oi_live : forall o c, live G o -> it_rev it < o_rev o -> In c acc -> crev c < o_rev o;
  oi_dead : forall o c, dead G o -> it_delrev it < o_rev o -> In c acc -> crev c < o_rev o;
  oi_rroom : it_rev it + 1 < B64 /\ it_delrev it + 1 < B64;
  oi_dle : it_delrev it <= t_rev G;
  (* a held sequence is exactly the undelivered rest of G's merged stream *)
  oi_pend : it_seq it = true -> forall l, it_pending it = Some l -> pend_spec l G (it_rev it) (it_delrev it);
  oi_watch : it_seq it = true \/ it_pending it = None -> it_watchrev it = t_rev G;
  (* exhausted: nothing of G is left to deliver *)
  oi_done : it_pending it = None ->
            (forall o, live G o -> o_rev o <= it_rev it) /\ (forall o, dead G o -> o_rev o <= it_delrev it)
}.

(* replay invariant *)
Record cinv (G : table) (it : iter) (acc : list (object * bool)) : Prop := mkCinv {
  ci_rle : it_rev it <= t_rev G;
  (* replay agrees with G on every object at or below the update cursor *)
  ci_a1 : forall o, live G o -> o_rev o <= it_rev it ->
          om_get (pk o) (replay acc) = Some (p_val (o_data o), o_rev o);
  (* whatever else replay holds will be overwritten or deleted by a change still to come *)
  ci_a2 : forall k v r, om_get k (replay acc) = Some (v, r) ->
          (exists o, live G o /\ pk o = k /\ ((p_val (o_data o) = v /\ o_rev o = r) \/ it_rev it < o_rev o)) \/
          (exists o, dead G o /\ pk o = k /\ it_delrev it < o_rev o)
}.

Lemma advance_fields it c r :
  it_tab (advance it c r) = it_tab it /\ it_pending (advance it c r) = Some r /\
  it_seq (advance it c r) = true /\ it_watchrev (advance it c r) = it_watchrev it /\
  it_rev (advance it c r) = (if snd c then it_rev it else o_rev (fst c)) /\
  it_delrev (advance it c r) = (if snd c then o_rev (fst c) else it_delrev it).
Proof. unfold advance. destruct (snd c); repeat split. Qed.

Lemma oinv_advance G it acc o b r :
  oinv G it acc -> it_pending it = Some ((o, b) :: r) -> it_seq it = true ->
  oinv G (advance it (o, b) r) (acc ++ [(o, b)]).
Proof.
  intros HO Hp Hs. destruct HO as [HI HR Ha Hle Hl Hd Hrr Hdle Hpend Hw Hdone].
  destruct (pend_spec_tail G o b r _ _ HI (Hpend Hs _ Hp)) as [Hh [Hr Ht]].
  pose proof (proj1 (Hpend Hs _ Hp)) as Hasc0.
  assert (Hmem := proj2 (Hpend Hs _ Hp)).
  destruct (advance_fields it (o, b) r) as [_ [F2 [F3 [F4 [F5 F6]]]]]. cbn [fst snd] in F5, F6.
  assert (Hob : o_rev o <= t_rev G).
  { destruct b; destruct Hh as [Hh _]; [apply (dead_rev G HI) in Hh|apply (live_rev G HI) in Hh]; lia. }
  assert (Hacc : forall c, In c acc -> crev c < o_rev o).
  { intros c Hc. destruct b; destruct Hh as [Hh1 Hh2]; eauto. }
  constructor; auto.
  - rewrite map_app. apply asc_app. split; [auto|]. split; [simpl; auto|].
    intros x y Hx [<-|[]]. apply in_map_iff in Hx. destruct Hx as [c [<- Hc]]. unfold crev at 2. simpl. auto.
  - intros c Hc. apply in_app_iff in Hc. destruct Hc as [Hc|[<-|[]]]; auto.
  - intros o' c Hlive Hlt Hc. rewrite F5 in Hlt. apply in_app_iff in Hc.
    destruct b.
    + destruct Hc as [Hc|[<-|[]]]; [eauto|]. unfold crev; cbn [fst].
      assert (Hin : In (o', false) ((o, true) :: r)) by (apply Hmem; auto).
      destruct Hin as [E|Hin]; [discriminate|]. apply (Hr _ Hin).
    + destruct Hc as [Hc|[<-|[]]]; [|unfold crev; cbn [fst]; lia].
      apply (Hl o' c Hlive); auto. destruct Hh. lia.
  - intros o' c Hdead Hlt Hc. rewrite F6 in Hlt. apply in_app_iff in Hc.
    destruct b.
    + destruct Hc as [Hc|[<-|[]]]; [|unfold crev; cbn [fst]; lia].
      apply (Hd o' c Hdead); auto. destruct Hh. lia.
    + destruct Hc as [Hc|[<-|[]]]; [eauto|]. unfold crev; cbn [fst].
      assert (Hin : In (o', true) ((o, false) :: r)) by (apply Hmem; auto).
      destruct Hin as [E|Hin]; [discriminate|]. apply (Hr _ Hin).
  - rewrite F5, F6. unfold rev_room, B64 in *. destruct b; lia.
  - rewrite F6. destruct b; auto.
  - intros _ l Hl'. rewrite F2 in Hl'. injection Hl' as <-. rewrite F5, F6. exact Ht.
  - intros _. rewrite F4. apply Hw. auto.
  - rewrite F2. discriminate.
Qed.

Lemma cinv_advance G it acc o b r :
  oinv G it acc -> it_pending it = Some ((o, b) :: r) -> it_seq it = true ->
  cinv G it acc -> cinv G (advance it (o, b) r) (acc ++ [(o, b)]).
Proof.
  intros HO Hp Hs [Hrle A1 A2]. destruct HO as [HI HR Ha Hle Hl Hd Hrr Hdle Hpend Hw Hdone].
  destruct (pend_spec_tail G o b r _ _ HI (Hpend Hs _ Hp)) as [Hh [Hr Ht]].
  assert (Hmem := proj2 (Hpend Hs _ Hp)).
  destruct (advance_fields it (o, b) r) as [_ [_ [_ [_ [F5 F6]]]]]. cbn [fst snd] in F5, F6.
  pose proof (replay_sorted acc) as Hsort.
  constructor.
  - rewrite F5. destruct b; auto. destruct Hh as [Hh _]. apply (live_rev G HI) in Hh. lia.
  - intros o' Hlive Hle'. rewrite F5 in Hle'. rewrite replay_snoc. unfold apply_change. cbn [fst snd].
    destruct b.
    + destruct Hh as [Hh _]. rewrite om_get_delete_other; auto.
      apply (live_dead_pk G o' o HI); auto.
    + destruct Hh as [Hh Hlt].
      destruct (bytes_eq_dec (pk o') (pk o)) as [E|Hne].
      * assert (o' = o) by (eapply live_pk_fun; eauto). subst o'. rewrite om_get_insert_same. reflexivity.
      * rewrite om_get_insert_other; auto. apply A1; auto.
        destruct (N.le_gt_cases (o_rev o') (it_rev it)) as [|Hgt]; auto. exfalso.
        assert (Hin : In (o', false) ((o, false) :: r)) by (apply Hmem; auto).
        destruct Hin as [E|Hin]; [injection E as ->; congruence|].
        pose proof (Hr _ Hin) as Hx. unfold crev in Hx. cbn [fst] in Hx. lia.
  - intros k v rr Hg. rewrite replay_snoc in Hg. unfold apply_change in Hg. cbn [fst snd] in Hg.
    rewrite F5, F6. destruct b.
    + destruct Hh as [Hh Hlt].
      destruct (bytes_eq_dec k (pk o)) as [->|Hne]; [rewrite om_get_delete_same in Hg; auto; discriminate|].
      rewrite om_get_delete_other in Hg; auto.
      destruct (A2 _ _ _ Hg) as [H|[o' [Hd' [Hk Hgt]]]]; [left; exact H|]. right. exists o'. repeat split; auto.
      assert (Hin : In (o', true) ((o, true) :: r)) by (apply Hmem; auto).
      destruct Hin as [E|Hin]; [injection E as ->; congruence|].
      pose proof (Hr _ Hin) as Hx. unfold crev in Hx. cbn [fst] in Hx. exact Hx.
    + destruct Hh as [Hh Hlt].
      destruct (bytes_eq_dec k (pk o)) as [->|Hne].
      * rewrite om_get_insert_same in Hg. injection Hg as <- <-. left. exists o. auto.
      * rewrite om_get_insert_other in Hg; auto.
        destruct (A2 _ _ _ Hg) as [[o' [Hl' [Hk [Hsame|Hgt]]]]|H]; [left; exists o'; auto| |right; exact H].
        left. exists o'. repeat split; auto. right.
        assert (Hin : In (o', false) ((o, false) :: r)) by (apply Hmem; auto).
        destruct Hin as [E|Hin]; [injection E as ->; congruence|].
        pose proof (Hr _ Hin) as Hx. unfold crev in Hx. cbn [fst] in Hx. exact Hx.
Qed.

Lemma oinv_drained G it acc :
  oinv G it acc -> it_pending it = Some [] -> it_seq it = true -> oinv G (drained it) acc.
Proof.
  intros [HI HR Ha Hle Hl Hd Hrr Hdle Hpend Hw Hdone] Hp Hs.
  constructor; auto; cbn [drained it_seq it_pending it_rev it_delrev it_watchrev].
  - discriminate.
  - intros _. apply pend_spec_nil. apply Hpend; auto.
Qed.

Lemma cinv_drained G it acc : cinv G it acc -> cinv G (drained it) acc.
Proof. intros [H1 H2 H3]. constructor; auto. Qed.

(* ---- consume ------------------------------------------------------------------------------------ *)
Lemma consume_cons take o del r it d iid :
  consume take ((o, del) :: r) it d iid =
  let it1 := advance it (o, del) r in
  let d1 := if del then gc_trigger (set_wm d (assoc_set iid (o_rev o) (d_wm d))) else d in
  match take with
  | Some (S O) => ([(o, del)], it1, d1)
  | Some (S n) => let '(out, it2, d2) := consume (Some n) r it1 d1 iid in ((o, del) :: out, it2, d2)
  | Some O => ([], it, d)
  | None => let '(out, it2, d2) := consume None r it1 d1 iid in ((o, del) :: out, it2, d2)
  end.
Proof. unfold advance. cbn [consume fst snd]. destruct del; reflexivity. Qed.

Lemma consume_inv G l : forall take it d iid acc out it' d',
  oinv G it acc -> it_pending it = Some l -> it_seq it = true ->
  consume take l it d iid = (out, it', d') ->
  oinv G it' (acc ++ out) /\ (cinv G it acc -> cinv G it' (acc ++ out)) /\
  it_tab it' = it_tab it /\ (take = None -> it_pending it' = None) /\ it_delrev it <= it_delrev it'.
Proof.
  induction l as [|[o del] r IH]; intros take it d iid acc out it' d' HO Hp Hs Hc.
  - cbn [consume] in Hc. injection Hc as <- <- <-. rewrite app_nil_r.
    split; [now apply oinv_drained|]. split; [apply cinv_drained|]. split; [reflexivity|].
    split; [reflexivity|]. cbn. lia.
  - rewrite consume_cons in Hc. cbv zeta in Hc.
    pose proof (oinv_advance G it acc o del r HO Hp Hs) as HO1.
    pose proof (cinv_advance G it acc o del r HO Hp Hs) as HC1.
    destruct (advance_fields it (o, del) r) as [F1 [F2 [F3 [_ [_ F6]]]]]. cbn [fst snd] in F6.
    assert (Hm1 : it_delrev it <= it_delrev (advance it (o, del) r)).
    { rewrite F6. destruct del; [|lia].
      destruct (pend_spec_tail G o true r _ _ (oi_tinv _ _ _ HO) (oi_pend _ _ _ HO Hs _ Hp)) as [[_ Hh] _]. lia. }
    set (it1 := advance it (o, del) r) in *.
    set (d1 := if del then gc_trigger (set_wm d (assoc_set iid (o_rev o) (d_wm d))) else d) in *.
    destruct take as [[|[|n]]|].
    + injection Hc as <- <- <-. rewrite app_nil_r. split; [|split; [|split; [|split]]]; auto; [discriminate|lia].
    + injection Hc as <- <- <-. split; [|split; [|split; [|split]]]; auto. discriminate.
    + destruct (consume (Some (S n)) r it1 d1 iid) as [[out2 it2] d2] eqn:E.
      injection Hc as <- <- <-.
      destruct (IH _ _ _ _ _ _ _ _ HO1 F2 F3 E) as [H1 [H2 [H3 [_ H5]]]].
      replace (acc ++ (o, del) :: out2) with ((acc ++ [(o, del)]) ++ out2) by (rewrite <- app_assoc; reflexivity).
      split; [|split; [|split; [|split]]]; auto; [congruence|discriminate|lia].
    + destruct (consume None r it1 d1 iid) as [[out2 it2] d2] eqn:E.
      injection Hc as <- <- <-.
      destruct (IH _ _ _ _ _ _ _ _ HO1 F2 F3 E) as [H1 [H2 [H3 [H4 H5]]]].
      replace (acc ++ (o, del) :: out2) with ((acc ++ [(o, del)]) ++ out2) by (rewrite <- app_assoc; reflexivity).
      split; [|split; [|split; [|split]]]; auto; [congruence|lia].
Qed.

(* consume only moves the tracker's watermark and pokes the collector *)
Lemma gc_trigger_frame d :
  d_root (gc_trigger d) = d_root d /\ d_txn (gc_trigger d) = d_txn d /\ d_snaps (gc_trigger d) = d_snaps d /\
  d_iters (gc_trigger d) = d_iters d /\ d_wm (gc_trigger d) = d_wm d /\
  d_closedw (gc_trigger d) = d_closedw d /\ d_nextw (gc_trigger d) = d_nextw d.
Proof. unfold gc_trigger, gc_settle. cbn. destruct (d_gc d); repeat split. Qed.

Lemma consume_frame l : forall take it d iid,
  let d' := snd (consume take l it d iid) in
  d_root d' = d_root d /\ d_txn d' = d_txn d /\ d_snaps d' = d_snaps d /\ d_iters d' = d_iters d /\
  d_closedw d' = d_closedw d /\ d_nextw d' = d_nextw d.
Proof.
  induction l as [|[o del] r IH]; intros take it d iid; [cbn; repeat split|].
  rewrite consume_cons. cbv zeta.
  set (d1 := if del then gc_trigger (set_wm d (assoc_set iid (o_rev o) (d_wm d))) else d).
  assert (H1 : d_root d1 = d_root d /\ d_txn d1 = d_txn d /\ d_snaps d1 = d_snaps d /\ d_iters d1 = d_iters d /\
               d_closedw d1 = d_closedw d /\ d_nextw d1 = d_nextw d).
  { unfold d1. destruct del; [|repeat split].
    destruct (gc_trigger_frame (set_wm d (assoc_set iid (o_rev o) (d_wm d)))) as [A [B [C [D [_ [E F]]]]]].
    rewrite A, B, C, D, E, F. repeat split. }
  destruct take as [[|[|n]]|]; cbn [snd]; auto; [repeat split| |].
  - specialize (IH (Some (S n)) (advance it (o, del) r) d1 iid).
    destruct (consume (Some (S n)) r (advance it (o, del) r) d1 iid) as [[x y] z]. cbn [snd] in *.
    destruct IH as [A [B [C [D [E F]]]]], H1 as [A1 [B1 [C1 [D1 [E1 F1]]]]]. repeat split; congruence.
  - specialize (IH None (advance it (o, del) r) d1 iid).
    destruct (consume None r (advance it (o, del) r) d1 iid) as [[x y] z]. cbn [snd] in *.
    destruct IH as [A [B [C [D [E F]]]]], H1 as [A1 [B1 [C1 [D1 [E1 F1]]]]]. repeat split; congruence.
Qed.

(* ---- refresh against a later table ------------------------------------------------------------- *)
Lemma oinv_refresh G S it acc :
  oinv G it acc -> tab_le G S -> TInv S -> rev_room S -> oinv S (next_iter S it) acc.
Proof.
  intros [HI HR Ha Hle Hl Hd Hrr Hdle Hpend Hw Hdone] [Lr [Ll Ld]] HIS HRS.
  destruct (refresh_spec S it HIS (rev_room_bound _ HRS) (proj1 Hrr) (proj2 Hrr)) as [l [El [Hps _]]].
  constructor; auto; cbn [next_iter it_rev it_delrev it_seq it_pending it_watchrev].
  - intros c Hc. specialize (Hle _ Hc). lia.
  - intros o c Hlive Hlt Hc. destruct (N.le_gt_cases (o_rev o) (t_rev G)) as [Hb|Hb].
    + eapply Hl; eauto.
    + specialize (Hle _ Hc). lia.
  - intros o c Hdead Hlt Hc. destruct (N.le_gt_cases (o_rev o) (t_rev G)) as [Hb|Hb].
    + eapply Hd; eauto.
    + specialize (Hle _ Hc). lia.
  - lia.
  - intros _ l' E. rewrite El in E. injection E as <-. exact Hps.
  - rewrite El. discriminate.
Qed.

(* C08's obligation towards the iterator: every key the iterator may hold (live in A, or deleted in
   A above its delete cursor D) that is not live in B has a retained deletion above D in B *)
Definition has_live (t : table) (k : bytes) : Prop := exists o, live t o /\ pk o = k.
Definition has_dead_above (t : table) (k : bytes) (D : N) : Prop :=
  exists o, dead t o /\ pk o = k /\ D < o_rev o.
Definition retained (A B : table) (D : N) : Prop :=
  forall k, has_live A k \/ has_dead_above A k D -> ~ has_live B k -> has_dead_above B k D.

Lemma has_live_dec t k : TInv t -> has_live t k \/ ~ has_live t k.
Proof.
  intros HI. destruct (om_get k (t_primary t)) as [o|] eqn:E.
  - left. destruct (get_live t HI _ _ E) as [E1 H]. exists o. auto.
  - right. intros [o [H <-]]. apply (live_get t HI) in H. unfold pk in E. congruence.
Qed.

Lemma cinv_refresh G S it acc :
  oinv G it acc -> cinv G it acc -> tab_le G S -> TInv S -> retained G S (it_delrev it) ->
  cinv S (next_iter S it) acc.
Proof.
  intros HO [Hrle A1 A2] [Lr [Ll Ld]] HIS Hret. pose proof (oi_tinv _ _ _ HO) as HI.
  constructor; cbn [next_iter it_rev it_delrev].
  - lia.
  - intros o Hlive Hle. apply A1; auto. apply Ll; auto. lia.
  - intros k v r Hg.
    assert (Hseen : has_live G k \/ has_dead_above G k (it_delrev it)).
    { destruct (A2 _ _ _ Hg) as [[o [H1 [H2 _]]]|[o [H1 [H2 H3]]]]; [left|right]; exists o; auto. }
    destruct (has_live_dec S k HIS) as [[o' [Hl' Hk']]|Hnl].
    + left. exists o'. split; auto. split; auto.
      destruct (N.le_gt_cases (o_rev o') (t_rev G)) as [Hb|Hb]; [|right; lia].
      pose proof (Ll _ Hl' Hb) as HlG.
      destruct (A2 _ _ _ Hg) as [[o [H1 [H2 H3]]]|[o [H1 [H2 H3]]]].
      * assert (o = o') by (eapply live_pk_fun; eauto; congruence). subst o'. exact H3.
      * exfalso. apply (live_dead_pk G o' o HI); auto. congruence.
    + right. destruct (Hret k Hseen Hnl) as [o' [H1 [H2 H3]]]. exists o'. auto.
Qed.

(* ---- exhausted iterator: replay is the table ----------------------------------------------------- *)
Theorem drained_replay_is_table G it acc :
  oinv G it acc -> cinv G it acc -> it_pending it = None -> replay acc = abs_of G.
Proof.
  intros HO [Hrle A1 A2] Hp. pose proof (oi_tinv _ _ _ HO) as HI.
  destruct (oi_done _ _ _ HO Hp) as [Dl Dd].
  apply om_ext; [apply replay_sorted|now apply abs_of_sorted|].
  intros k. rewrite abs_of_get.
  destruct (om_get k (t_primary G)) as [o|] eqn:E; cbn [option_map].
  - destruct (get_live G HI _ _ E) as [Ek Hl]. rewrite <- Ek. apply A1; auto.
  - destruct (om_get k (replay acc)) as [[v r]|] eqn:Eg; auto. exfalso.
    destruct (A2 _ _ _ Eg) as [[o [H1 [H2 _]]]|[o [H1 [H2 H3]]]].
    + apply (live_get G HI) in H1. unfold pk in H2. rewrite H2 in H1. congruence.
    + specialize (Dd _ H1). lia.
Qed.

(* partially consumed: replay is right for every object at or below the update cursor, and the held
   sequence is exactly the rest (oi_pend); stated for direct use *)
Theorem partial_replay_agrees G it acc o :
  cinv G it acc -> live G o -> o_rev o <= it_rev it ->
  om_get (pk o) (replay acc) = Some (p_val (o_data o), o_rev o).
Proof. intros HC. apply (ci_a1 _ _ _ HC). Qed.

Theorem partial_rest_is_exact G it acc l o b :
  oinv G it acc -> it_seq it = true -> it_pending it = Some l ->
  (In (o, b) l <-> (if b then dead G o /\ it_delrev it < o_rev o else live G o /\ it_rev it < o_rev o)).
Proof. intros HO Hs Hp. apply (oi_pend _ _ _ HO Hs _ Hp). Qed.
