(* Table/ChangesProofs.v — change iterators along arbitrary runs of the database model (C07):
   strictly increasing delivery, convergence of the replay to the snapshot, only committed
   changes, the watch channel; the K4 exclusion as a refutation. The graveyard retention that
   the convergence theorem assumes per Next (`retained`) is discharged in Table/ChangesRet.v. *)
From SV Require Import Base.Bytes Base.OrdMap KeyEnc.Model KeyEnc.Proofs
                       Table.Model Table.InvDefs Table.Proofs Table.Inv
                       Table.ChangesStream Table.ChangesIter.
From Coq Require Import ZifyN ZifyNat ZifyBool.
Open Scope N_scope.
#[local] Opaque rev_key.

(* ---- association lists ------------------------------------------------------------------------- *)
Lemma assoc_set_same {A} k (v : A) l : assoc k (assoc_set k v l) = Some v.
Proof. unfold assoc_set. cbn [assoc]. now rewrite N.eqb_refl. Qed.

Lemma assoc_filter_other {A} k k' (l : list (N * A)) : k <> k' ->
  assoc k (filter (fun kv => negb (fst kv =? k')) l) = assoc k l.
Proof.
  intros Hne. induction l as [|[a b] r IH]; simpl; auto.
  destruct (N.eqb_spec a k'); simpl.
  - destruct (N.eqb_spec k a); [congruence|]. exact IH.
  - destruct (N.eqb_spec k a); auto.
Qed.

Lemma assoc_filter_same {A} k (l : list (N * A)) :
  assoc k (filter (fun kv => negb (fst kv =? k)) l) = None.
Proof.
  induction l as [|[a b] r IH]; simpl; auto.
  destruct (N.eqb_spec a k); simpl; auto. destruct (N.eqb_spec k a); [congruence|]. exact IH.
Qed.

(* ---- which operations can touch iterator iid ----------------------------------------------------- *)
Definition touches (iid : N) (o : op) : bool :=
  match o with
  | OChanges i _ | ONext i _ _ | OResume i _ | OClose i => i =? iid
  | _ => false
  end.

Lemma with_locked_iters d tab f a b : d_iters (fst (with_locked d tab f a b)) = d_iters d.
Proof.
  unfold with_locked. destruct (d_txn d) as [[es old]|]; auto.
  destruct (nth_error es tab) as [[t [|]]|]; auto. destruct (f t); auto.
Qed.

Lemma step_iters_frame d o iid : touches iid o = false ->
  assoc iid (d_iters (fst (step d o))) = assoc iid (d_iters d).
Proof.
  intros Ht. destruct o; cbn [step touches] in *; try (rewrite with_locked_iters; reflexivity); try reflexivity.
  - destruct (d_txn d); reflexivity.
  - destruct (d_txn d) as [[es old]|] eqn:E; auto.
    destruct (nth_error es tab) as [[t [|]]|] eqn:E2; try (rewrite with_locked_iters; reflexivity).
    destruct (t_primary t); reflexivity.
  - destruct (d_txn d) as [[es old]|]; reflexivity.
  - destruct (d_txn d); reflexivity.
  - destruct (src_root d s); [|reflexivity]. destruct (nth_error l tab); reflexivity.
  - (* OChanges *)
    destruct (d_txn d) as [[es old]|]; [|reflexivity].
    destruct (nth_error es tab) as [[t [|]]|]; try reflexivity. destruct (nth_error old tab); [|reflexivity].
    cbn [fst set_iters d_iters set_wm set_txn]. apply assoc_set_other. intros ->. now rewrite N.eqb_refl in Ht.
  - (* ONext *)
    destruct (assoc iid0 (d_iters d)) as [it|]; [|reflexivity].
    destruct (src_committed d s) as [rt|]; [|reflexivity].
    destruct (nth_error rt (it_tab it)) as [t|]; [|reflexivity].
    destruct (nth_error (d_root d) (it_tab it)) as [cur|]; [|reflexivity].
    match goal with |- context [if ?c then _ else _] => destruct c end; [reflexivity|].
    match goal with |- context [consume ?a ?b ?c ?dd ?e] =>
      pose proof (consume_frame b a c dd e) as Hc; destruct (consume a b c dd e) as [[x y] z] end.
    cbn [snd fst set_iters d_iters] in *. destruct Hc as [_ [_ [_ [Hc _]]]].
    rewrite assoc_set_other, Hc; auto. intros ->. now rewrite N.eqb_refl in Ht.
  - (* OResume *)
    destruct (assoc iid0 (d_iters d)) as [it|]; [|reflexivity].
    destruct (it_pending it) as [l|]; [|reflexivity]. destruct (it_seq it); [|reflexivity].
    match goal with |- context [consume ?a ?b ?c ?dd ?e] =>
      pose proof (consume_frame b a c dd e) as Hc; destruct (consume a b c dd e) as [[x y] z] end.
    cbn [snd fst set_iters d_iters] in *. destruct Hc as [_ [_ [_ [Hc _]]]].
    rewrite assoc_set_other, Hc; auto. intros ->. now rewrite N.eqb_refl in Ht.
  - (* OClose *)
    destruct (assoc iid0 (d_iters d)) as [it|]; [|reflexivity]. destruct (d_txn d); [reflexivity|].
    cbn [fst]. destruct (gc_trigger_frame (set_iters (set_root d (upd_nth (it_tab it)
      (fun t => mkT (t_rev t) (t_primary t) (t_revidx t) (t_grave t) (t_graverev t) (t_u t) (t_n t) (t_lu t) (t_ln t)
                    (filter (fun x => negb (x =? iid0)) (t_trackers t)) (t_init t)) (d_root d)))
      (filter (fun kv => negb (fst kv =? iid0)) (d_iters (set_root d (upd_nth (it_tab it)
      (fun t => mkT (t_rev t) (t_primary t) (t_revidx t) (t_grave t) (t_graverev t) (t_u t) (t_n t) (t_lu t) (t_ln t)
                    (filter (fun x => negb (x =? iid0)) (t_trackers t)) (t_init t)) (d_root d))))))) as [_ [_ [_ [Hc _]]]].
    rewrite Hc. cbn [set_iters d_iters set_root]. apply assoc_filter_other. intros ->. now rewrite N.eqb_refl in Ht.
  - destruct (d_gc d); reflexivity.
  - destruct (d_gc d); try reflexivity. destruct (d_txn d); [reflexivity|].
    cbn [fst]. unfold gc_settle. cbn. destruct (d_gcchan d); reflexivity.
  - match goal with |- context [with_locked d tab ?f ?a ?b] =>
      pose proof (with_locked_iters d tab f a b) as Hw; destruct (with_locked d tab f a b) as [d' x] end.
    cbn [fst d_iters] in *. now rewrite Hw.
Qed.

(* ---- Next / Resume of iterator iid, decomposed ---------------------------------------------------- *)
Definition out_changes (x : out) : list (object * bool) :=
  match x with OutChanges l _ => l | _ => [] end.

(* the committed table a Next of iid refreshes from; None: Next does not refresh (returns the open
   watch channel, or the call is not applicable) *)
Definition next_source (d : db) (iid : N) (s : source) : option table :=
  match assoc iid (d_iters d), src_committed d s with
  | Some it, Some r =>
    match nth_error r (it_tab it), nth_error (d_root d) (it_tab it) with
    | Some t, Some cur =>
      if match it_pending it with None => N.eqb (t_rev cur) (it_watchrev it) | Some _ => false end
      then None else Some t
    | _, _ => None
    end
  | _, _ => None
  end.

Lemma next_iter_pending S it : exists l, it_pending (next_iter S it) = Some l.
Proof. cbn. eexists; reflexivity. Qed.

Lemma step_next_some d iid s take it S :
  assoc iid (d_iters d) = Some it -> next_source d iid s = Some S ->
  forall l, it_pending (next_iter S it) = Some l ->
  step d (ONext iid s take) =
    (let '(out, it2, d2) := consume take l (next_iter S it) d iid in
     (set_iters d2 (assoc_set iid it2 (d_iters d2)), OutChanges out true)).
Proof.
  intros Hi Hn l Hl. unfold next_source in Hn. cbn [step]. rewrite Hi in *.
  destruct (src_committed d s) as [r|]; [|discriminate].
  destruct (nth_error r (it_tab it)) as [t|]; [|discriminate].
  destruct (nth_error (d_root d) (it_tab it)) as [cur|]; [|discriminate].
  match goal with |- context [if ?c then _ else _] => destruct c end; [discriminate|].
  injection Hn as ->. cbn in Hl. injection Hl as <-. reflexivity.
Qed.

Lemma step_next_none d iid s take :
  next_source d iid s = None ->
  fst (step d (ONext iid s take)) = d /\ out_changes (snd (step d (ONext iid s take))) = [].
Proof.
  intros Hn. unfold next_source in Hn. cbn [step].
  destruct (assoc iid (d_iters d)) as [it|]; [|auto].
  destruct (src_committed d s) as [r|]; [|auto].
  destruct (nth_error r (it_tab it)) as [t|]; [|auto].
  destruct (nth_error (d_root d) (it_tab it)) as [cur|]; [|auto].
  match goal with |- context [if ?c then _ else _] => destruct c end; [auto|discriminate].
Qed.

(* ---- ghost state of iterator iid along a run: the table last refreshed from, everything delivered - *)
Definition ghost := (table * list (object * bool))%type.

Definition gstep (iid : N) (g : ghost) (d : db) (o : op) : ghost :=
  match o with
  | ONext i s _ =>
    if i =? iid then (match next_source d iid s with Some T => T | None => fst g end,
                      snd g ++ out_changes (snd (step d o)))
    else g
  | OResume i _ => if i =? iid then (fst g, snd g ++ out_changes (snd (step d o))) else g
  | _ => g
  end.

Fixpoint grun (iid : N) (g : ghost) (d : db) (ops : list op) : ghost :=
  match ops with
  | [] => g
  | o :: r => grun iid (gstep iid g d o) (fst (step d o)) r
  end.

(* everything iterator iid is handed along a run *)
Fixpoint delivered (iid : N) (d : db) (ops : list op) : list (object * bool) :=
  match ops with
  | [] => []
  | o :: r =>
    (match o with
     | ONext i _ _ | OResume i _ => if i =? iid then out_changes (snd (step d o)) else []
     | _ => []
     end) ++ delivered iid (fst (step d o)) r
  end.

Lemma grun_delivered iid ops : forall g d, snd (grun iid g d ops) = snd g ++ delivered iid d ops.
Proof.
  induction ops as [|o r IH]; intros g d; cbn [grun delivered]; [now rewrite app_nil_r|].
  rewrite IH. rewrite app_assoc. f_equal.
  destruct o; cbn [gstep]; try (now rewrite app_nil_r);
    destruct (iid0 =? iid); cbn [snd]; auto; now rewrite app_nil_r.
Qed.

(* what the user of the iterator owes at each step (c = true: also what convergence needs):
   the iterator id is not re-used for a new iterator, and every snapshot handed to Next is a
   later-or-equal state (tab_le) of the one handed before, with the table invariant and revision
   room; for convergence the graveyard of that snapshot has retained what the iterator may still
   need (C08, discharged in Table/ChangesRet.v) *)
Definition good_step (c : bool) (iid : N) (G : table) (d : db) (o : op) : Prop :=
  match o with
  | OChanges i _ => i <> iid
  | ONext i s _ => i = iid -> forall S it, next_source d iid s = Some S -> assoc iid (d_iters d) = Some it ->
                   tab_le G S /\ TInv S /\ rev_room S /\ (c = true -> retained G S (it_delrev it))
  | _ => True
  end.

Fixpoint good_run (c : bool) (iid : N) (g : ghost) (d : db) (ops : list op) : Prop :=
  match ops with
  | [] => True
  | o :: r => good_step c iid (fst g) d o /\ good_run c iid (gstep iid g d o) (fst (step d o)) r
  end.

Lemma good_run_weaken iid ops : forall g d, good_run true iid g d ops -> good_run false iid g d ops.
Proof.
  induction ops as [|o r IH]; intros g d; cbn [good_run]; auto. intros [H1 H2]. split; auto.
  destruct o; cbn [good_step] in *; auto. intros E S it Hn Hi. destruct (H1 E S it Hn Hi) as [A [B [C _]]].
  split; [|split; [|split]]; auto. discriminate.
Qed.

(* ---- the state invariant and its preservation ------------------------------------------------------ *)
Definition sinv (c : bool) (iid : N) (g : ghost) (d : db) : Prop :=
  asc (map crev (snd g)) /\
  forall it, assoc iid (d_iters d) = Some it ->
             oinv (fst g) it (snd g) /\ (c = true -> cinv (fst g) it (snd g)).

Lemma sinv_step c iid g d o :
  sinv c iid g d -> good_step c iid (fst g) d o -> sinv c iid (gstep iid g d o) (fst (step d o)).
Proof.
  intros [Ha Hinv] Hg. unfold sinv.
  destruct (touches iid o) eqn:Ht.
  2:{ (* the iterator is not involved *)
    assert (gstep iid g d o = g) as ->.
    { destruct o; cbn [gstep touches] in *; auto; now rewrite Ht. }
    split; auto. intros it Hi. rewrite step_iters_frame in Hi; auto. }
  destruct o; cbn [touches] in Ht; try discriminate; apply N.eqb_eq in Ht; subst iid0.
  - (* OChanges iid: excluded *) cbn [good_step] in Hg. congruence.
  - (* ONext *)
    cbn [gstep]. rewrite N.eqb_refl. cbn [good_step] in Hg. specialize (Hg eq_refl).
    destruct (next_source d iid s) as [S|] eqn:Hn.
    + destruct (assoc iid (d_iters d)) as [it|] eqn:Hi.
      2:{ unfold next_source in Hn. rewrite Hi in Hn. discriminate. }
      destruct (Hg S it eq_refl eq_refl) as [Hle [HIS [HRS Hret]]].
      destruct (Hinv it eq_refl) as [HO HC].
      destruct (next_iter_pending S it) as [l Hl].
      rewrite (step_next_some d iid s take it S Hi Hn l Hl).
      pose proof (oinv_refresh _ _ _ _ HO Hle HIS HRS) as HO1.
      destruct (consume take l (next_iter S it) d iid) as [[out it2] d2] eqn:Ec.
      destruct (consume_inv S l take _ d iid (snd g) out it2 d2 HO1 Hl eq_refl Ec) as [HO2 [HC2 _]].
      cbn [fst snd out_changes set_iters d_iters]. split; [apply (oi_asc _ _ _ HO2)|].
      intros it' Hi'. rewrite assoc_set_same in Hi'. injection Hi' as <-. split; auto.
      intros Hc. apply HC2. apply (cinv_refresh (fst g)); auto.
    + destruct (step_next_none d iid s take Hn) as [-> ->]. rewrite app_nil_r. cbn [fst snd].
      split; auto.
  - (* OResume *)
    cbn [gstep]. rewrite N.eqb_refl. cbn [step].
    destruct (assoc iid (d_iters d)) as [it|] eqn:Hi.
    2:{ cbn [fst snd out_changes]. rewrite app_nil_r. split; auto. intros it Hi'. congruence. }
    destruct (Hinv it eq_refl) as [HO HC].
    destruct (it_pending it) as [l|] eqn:Hp.
    2:{ cbn [fst snd out_changes]. rewrite app_nil_r. split; auto. intros it' Hi'.
        assert (it' = it) by congruence. subst it'. auto. }
    destruct (it_seq it) eqn:Hs.
    2:{ cbn [fst snd out_changes]. rewrite app_nil_r. split; auto. intros it' Hi'.
        assert (it' = it) by congruence. subst it'. auto. }
    destruct (consume take l it d iid) as [[out it2] d2] eqn:Ec.
    destruct (consume_inv (fst g) l take _ d iid (snd g) out it2 d2 HO Hp Hs Ec) as [HO2 [HC2 _]].
    cbn [fst snd out_changes set_iters d_iters]. split; [apply (oi_asc _ _ _ HO2)|].
    intros it' Hi'. rewrite assoc_set_same in Hi'. injection Hi' as <-. split; auto.
  - (* OClose *)
    cbn [gstep step]. destruct (assoc iid (d_iters d)) as [it|] eqn:Hi.
    2:{ split; auto. intros it Hi'. cbn [fst] in Hi'. congruence. }
    destruct (d_txn d).
    { split; auto. intros it' Hi'. cbn [fst] in Hi'. assert (it' = it) by congruence. subst. auto. }
    split; auto. intros it' Hi'. exfalso. cbn [fst] in Hi'.
    match type of Hi' with context [gc_trigger ?x] => destruct (gc_trigger_frame x) as [_ [_ [_ [Hc _]]]] end.
    rewrite Hc in Hi'. cbn [set_iters d_iters set_root] in Hi'. rewrite assoc_filter_same in Hi'. discriminate.
Qed.

Theorem sinv_run c iid ops : forall g d,
  sinv c iid g d -> good_run c iid g d ops -> sinv c iid (grun iid g d ops) (fst (run d ops)).
Proof.
  induction ops as [|o r IH]; intros g d Hs Hg; cbn [grun run]; auto.
  destruct Hg as [Hg1 Hg2]. pose proof (sinv_step c iid g d o Hs Hg1) as H1.
  specialize (IH _ _ H1 Hg2).
  destruct (step d o) as [d1 x]. cbn [fst] in *. destruct (run d1 r) as [d2 xs]. exact IH.
Qed.

(* ---- the state right after Changes ------------------------------------------------------------------- *)
(* OChanges succeeded on transaction table t0 *)
Definition created (d : db) (iid : N) (tab : nat) (t0 : table) : Prop :=
  exists es old told, d_txn d = Some (es, old) /\ nth_error es tab = Some (t0, true) /\
                      nth_error old tab = Some told.

Lemma sinv_created c d iid tab t0 :
  created d iid tab t0 -> TInv t0 -> rev_room t0 ->
  sinv c iid (t0, []) (fst (step d (OChanges iid tab))).
Proof.
  intros [es [old [told [Ht [He Ho]]]]] HI HR. unfold sinv. cbn [step]. rewrite Ht, He, Ho.
  cbn [fst snd set_iters d_iters]. split; [exact I|].
  intros it Hi. rewrite assoc_set_same in Hi. injection Hi as <-.
  split.
  - constructor; cbn [refresh it_rev it_delrev it_seq it_pending it_watchrev map]; auto.
    + exact I.
    + intros c0 [].
    + intros o c0 _ _ [].
    + intros o c0 _ _ [].
    + unfold rev_room, B64 in *. lia.
    + lia.
    + discriminate.
    + intros [H|H]; discriminate.
    + discriminate.
  - intros _. constructor; cbn [refresh it_rev it_delrev].
    + lia.
    + intros o Hl Hle. apply (live_rev t0 HI) in Hl. lia.
    + intros k v r Hg. cbn in Hg. discriminate.
Qed.

(* ---- C07: strictly increasing revisions -------------------------------------------------------------- *)
Theorem changes_strictly_increasing d iid tab t0 ops :
  created d iid tab t0 -> TInv t0 -> rev_room t0 ->
  let d0 := fst (step d (OChanges iid tab)) in
  good_run false iid (t0, []) d0 ops ->
  asc (map crev (delivered iid d0 ops)).
Proof.
  intros Hc HI HR d0 Hg.
  pose proof (sinv_run false iid ops _ _ (sinv_created false d iid tab t0 Hc HI HR) Hg) as [Ha _].
  rewrite grun_delivered in Ha. exact Ha.
Qed.

(* from any state satisfying the invariant (e.g. in the middle of a run) *)
Theorem delivery_strictly_increasing c iid g d ops :
  sinv c iid g d -> good_run c iid g d ops -> asc (map crev (snd g ++ delivered iid d ops)).
Proof.
  intros Hs Hg. pose proof (sinv_run c iid ops _ _ Hs Hg) as [Ha _].
  now rewrite grun_delivered in Ha.
Qed.

(* ---- C07: convergence ------------------------------------------------------------------------------------ *)
(* whenever the iterator is exhausted (the sequence returned by the last refreshing Next has been
   consumed to its end, directly or through resumed partial consumption), replaying everything
   delivered since creation yields exactly the objects and revisions of the table that Next
   refreshed from *)
Theorem changes_converge d iid tab t0 ops :
  created d iid tab t0 -> TInv t0 -> rev_room t0 ->
  let d0 := fst (step d (OChanges iid tab)) in
  good_run true iid (t0, []) d0 ops ->
  forall it, assoc iid (d_iters (fst (run d0 ops))) = Some it -> it_pending it = None ->
  replay (delivered iid d0 ops) = abs_of (fst (grun iid (t0, []) d0 ops)).
Proof.
  intros Hc HI HR d0 Hg it Hi Hp.
  pose proof (sinv_run true iid ops _ _ (sinv_created true d iid tab t0 Hc HI HR) Hg) as [_ Hs].
  destruct (Hs it Hi) as [HO HC]. specialize (HC eq_refl).
  rewrite grun_delivered in HO, HC. cbn [snd app] in HO, HC.
  exact (drained_replay_is_table _ _ _ HO HC Hp).
Qed.

Lemma grun_snoc iid ops o : forall g d,
  grun iid g d (ops ++ [o]) = gstep iid (grun iid g d ops) (fst (run d ops)) o.
Proof.
  induction ops as [|o1 r IH]; intros g d; cbn [grun app run]; auto.
  rewrite IH. destruct (step d o1) as [dd x]. cbn [fst]. destruct (run dd r); reflexivity.
Qed.

Lemma consume_none_pending l iid : forall it d out it' d',
  consume None l it d iid = (out, it', d') -> it_pending it' = None.
Proof.
  induction l as [|[o del] r IH]; intros it d out it' d' Ec.
  - cbn in Ec. injection Ec as _ <- _. reflexivity.
  - rewrite consume_cons in Ec. cbv zeta in Ec.
    match type of Ec with context [consume None r ?a ?b iid] =>
      destruct (consume None r a b iid) as [[o2 i2] dd2] eqn:E2 end.
    injection Ec as _ <- _. eapply IH; eauto.
Qed.

(* the run ends with a Next consumed to completion against table S: replay = S *)
Theorem changes_converge_next d iid tab t0 ops s S :
  created d iid tab t0 -> TInv t0 -> rev_room t0 ->
  let d0 := fst (step d (OChanges iid tab)) in
  good_run true iid (t0, []) d0 (ops ++ [ONext iid s None]) ->
  next_source (fst (run d0 ops)) iid s = Some S ->
  replay (delivered iid d0 (ops ++ [ONext iid s None])) = abs_of S.
Proof.
  intros Hc HI HR d0 Hg Hn.
  pose proof (sinv_run true iid _ _ _ (sinv_created true d iid tab t0 Hc HI HR) Hg) as [_ Hs].
  fold d0 in Hs.
  rewrite run_app, run_single, grun_snoc in Hs.
  pose proof (grun_delivered iid (ops ++ [ONext iid s None]) (t0, []) d0) as Hd.
  rewrite grun_snoc in Hd. cbn [snd app] in Hd. rewrite <- Hd. clear Hd.
  set (d1 := fst (run d0 ops)) in *. set (g1 := grun iid (t0, []) d0 ops) in *.
  destruct (assoc iid (d_iters d1)) as [it|] eqn:Hi.
  2:{ unfold next_source in Hn. rewrite Hi in Hn. discriminate. }
  destruct (next_iter_pending S it) as [l Hl].
  cbn [gstep] in *. rewrite N.eqb_refl, Hn in *.
  rewrite (step_next_some d1 iid s None it S Hi Hn l Hl) in *.
  destruct (consume None l (next_iter S it) d1 iid) as [[out it2] d2] eqn:Ec.
  cbn [fst snd set_iters d_iters out_changes] in *.
  destruct (Hs it2 (assoc_set_same _ _ _)) as [HO HC]. specialize (HC eq_refl).
  exact (drained_replay_is_table _ _ _ HO HC (consume_none_pending _ _ _ _ _ _ _ Ec)).
Qed.

(* ---- C07: only committed changes ------------------------------------------------------------------------ *)
(* what a sequence hands out is a prefix of the pending stream *)
Lemma consume_out_prefix l iid : forall take it d out it' d',
  consume take l it d iid = (out, it', d') -> exists rest, l = out ++ rest.
Proof.
  induction l as [|[o del] r IH]; intros take it d out it' d' Ec.
  - cbn in Ec. injection Ec as <- _ _. exists []. reflexivity.
  - rewrite consume_cons in Ec. cbv zeta in Ec. destruct take as [[|[|n]]|].
    + injection Ec as <- _ _. eexists; reflexivity.
    + injection Ec as <- _ _. exists r. reflexivity.
    + match type of Ec with context [consume ?t r ?a ?b iid] =>
        destruct (consume t r a b iid) as [[o2 i2] dd2] eqn:E2 end.
      injection Ec as <- _ _. destruct (IH _ _ _ _ _ _ E2) as [rest ->]. exists rest. reflexivity.
    + match type of Ec with context [consume ?t r ?a ?b iid] =>
        destruct (consume t r a b iid) as [[o2 i2] dd2] eqn:E2 end.
      injection Ec as <- _ _. destruct (IH _ _ _ _ _ _ E2) as [rest ->]. exists rest. reflexivity.
Qed.

(* every change handed out by Next is in the COMMITTED root of the source (src_committed: for a
   write transaction its base snapshot): an update is a live object there, a deletion a retained
   deleted object, beyond the iterator's cursors *)
Theorem next_delivers_committed d iid s take it S d' l w :
  assoc iid (d_iters d) = Some it -> next_source d iid s = Some S ->
  TInv S -> rev_bound S -> it_rev it + 1 < B64 -> it_delrev it + 1 < B64 ->
  step d (ONext iid s take) = (d', OutChanges l w) ->
  forall o b, In (o, b) l ->
    if b then dead S o /\ it_delrev it < o_rev o else live S o /\ it_rev it < o_rev o.
Proof.
  intros Hi Hn HI HB HR HD Hst o b Hin.
  destruct (refresh_spec S it HI HB HR HD) as [p [Ep [[_ Hm] _]]].
  assert (Hl : it_pending (next_iter S it) = Some p) by exact Ep.
  rewrite (step_next_some d iid s take it S Hi Hn p Hl) in Hst.
  destruct (consume take p (next_iter S it) d iid) as [[out it2] d2] eqn:Ec.
  injection Hst as _ <- _. destruct (consume_out_prefix _ _ _ _ _ _ _ _ Ec) as [rest ->].
  apply Hm. apply in_app_iff. now left.
Qed.

Lemma gc_trigger_set_txn d x : gc_trigger (set_txn d x) = set_txn (gc_trigger d) x.
Proof. unfold gc_trigger, gc_settle, set_txn. cbn. destruct (d_gc d); reflexivity. Qed.

Lemma consume_set_txn l iid x : forall take it d,
  consume take l it (set_txn d x) iid =
  let '(out, it', d') := consume take l it d iid in (out, it', set_txn d' x).
Proof.
  induction l as [|[o del] r IH]; intros take it d; [reflexivity|].
  rewrite !consume_cons. cbv zeta.
  assert (E : (if del then gc_trigger (set_wm (set_txn d x) (assoc_set iid (o_rev o) (d_wm (set_txn d x)))) else set_txn d x)
              = set_txn (if del then gc_trigger (set_wm d (assoc_set iid (o_rev o) (d_wm d))) else d) x).
  { destruct del; auto. rewrite <- gc_trigger_set_txn. reflexivity. }
  rewrite E. destruct take as [[|[|n]]|]; try reflexivity.
  - rewrite IH. match goal with |- context [consume ?t r ?a ?b iid] => destruct (consume t r a b iid) as [[o2 i2] dd2] end.
    reflexivity.
  - rewrite IH. match goal with |- context [consume ?t r ?a ?b iid] => destruct (consume t r a b iid) as [[o2 i2] dd2] end.
    reflexivity.
Qed.

(* Next never looks at the open write transaction's own (uncommitted) entries: replacing them by
   anything changes neither what is delivered nor the iterator, watermarks or collector state *)
Theorem next_ignores_uncommitted d iid s take es es' old :
  d_txn d = Some (es, old) ->
  step (set_txn d (Some (es', old))) (ONext iid s take) =
  (set_txn (fst (step d (ONext iid s take))) (Some (es', old)), snd (step d (ONext iid s take))).
Proof.
  intros Ht. cbn [step].
  assert (Hs : src_committed (set_txn d (Some (es', old))) s = src_committed d s).
  { destruct s; cbn; auto. now rewrite Ht. }
  rewrite Hs. cbn [set_txn d_iters d_root].
  assert (Hid : set_txn d (Some (es', old)) = set_txn d (Some (es', old))) by reflexivity.
  destruct (assoc iid (d_iters d)) as [it|]; [|cbn; f_equal; destruct d; cbn in *; now rewrite Ht].
  destruct (src_committed d s) as [r|]; [|cbn; f_equal; destruct d; cbn in *; now rewrite Ht].
  destruct (nth_error r (it_tab it)) as [t|]; [|cbn; f_equal; destruct d; cbn in *; now rewrite Ht].
  destruct (nth_error (d_root d) (it_tab it)) as [cur|]; [|cbn; f_equal; destruct d; cbn in *; now rewrite Ht].
  match goal with |- context [if ?c then _ else _] => destruct c end;
    [cbn; f_equal; destruct d; cbn in *; now rewrite Ht|].
  fold (set_txn d (Some (es', old))). rewrite consume_set_txn.
  match goal with |- context [consume ?t ?l ?a d iid] => destruct (consume t l a d iid) as [[o2 i2] dd2] end.
  reflexivity.
Qed.

(* ---- C07: the watch channel ------------------------------------------------------------------------------- *)
(* exhausted iterator: Next reports pending changes (closed channel) exactly when the table's
   committed revision differs from the revision of the state it last refreshed from, i.e. as soon
   as a commit that changed the table has been published; otherwise (open channel) nothing is
   delivered and nothing changes *)
Theorem next_watch_closed_iff_changed d iid s take it r t cur :
  assoc iid (d_iters d) = Some it -> src_committed d s = Some r ->
  nth_error r (it_tab it) = Some t -> nth_error (d_root d) (it_tab it) = Some cur ->
  it_pending it = None ->
  (t_rev cur <> it_watchrev it <-> exists l, snd (step d (ONext iid s take)) = OutChanges l true) /\
  (t_rev cur = it_watchrev it <-> step d (ONext iid s take) = (d, OutChanges [] false)).
Proof.
  intros Hi Hs Ht Hc Hp. cbn [step]. rewrite Hi, Hs, Ht, Hc, Hp.
  destruct (N.eqb_spec (t_rev cur) (it_watchrev it)) as [E|E].
  - split; split; auto; try congruence. intros [l Hl]. cbn in Hl. discriminate.
  - split; split; try congruence.
    + intros _. match goal with |- context [consume ?a ?b ?c ?dd ?e] => destruct (consume a b c dd e) as [[x y] z] end.
      cbn. eexists; reflexivity.
    + match goal with |- context [consume ?a ?b ?c ?dd ?e] => destruct (consume a b c dd e) as [[x y] z] end.
      intros H. discriminate.
Qed.

(* along a good run the watched revision of an exhausted iterator is the revision of the table it
   last refreshed from *)
Theorem exhausted_watches_last_source c iid g d it :
  sinv c iid g d -> assoc iid (d_iters d) = Some it -> it_pending it = None ->
  it_watchrev it = t_rev (fst g).
Proof. intros [_ H] Hi Hp. destruct (H it Hi) as [HO _]. apply (oi_watch _ _ _ HO). now right. Qed.

(* ---- known finding K4: Changes after a delete in the same transaction, then Next(that transaction) ----- *)
Definition k4_ops : list op :=
  [OBegin [0%nat]; OInsert 0 (mkP [97] 1 [] [] [] []); OCommit 0;
   OBegin [0%nat]; ODelete 0 [97]; OChanges 1 0; ONext 1 STxn None; OCommit 1; ONext 1 SFresh None].

Theorem changes_after_delete_refuted :
  exists ops, let d := fst (run (init_db 1) ops) in
    (exists it, assoc 1 (d_iters d) = Some it /\ it_pending it = None) /\
    om_get [97] (replay (delivered 1 (init_db 1) ops)) = Some (1, 1) /\
    (forall t, nth_error (d_root d) 0 = Some t -> t_primary t = [] /\ abs_of t = []).
Proof.
  exists k4_ops. vm_compute. split; [eexists; split; reflexivity|]. split; [reflexivity|].
  intros t H. injection H as <-. split; reflexivity.
Qed.

(* ---- C07: partially consumed sequences lose nothing ---------------------------------------------------------- *)
(* at any point of a run (sequences broken off after any number of elements, resumed or replaced by
   a new Next): replay is right for every object of the last source table at or below the update
   cursor, and a held sequence is exactly the undelivered rest of that table's changes *)
Theorem changes_partial d iid tab t0 ops :
  created d iid tab t0 -> TInv t0 -> rev_room t0 ->
  let d0 := fst (step d (OChanges iid tab)) in
  good_run true iid (t0, []) d0 ops ->
  forall it, assoc iid (d_iters (fst (run d0 ops))) = Some it ->
  let G := fst (grun iid (t0, []) d0 ops) in
  (forall o, live G o -> o_rev o <= it_rev it ->
             om_get (pk o) (replay (delivered iid d0 ops)) = Some (p_val (o_data o), o_rev o)) /\
  (it_seq it = true -> forall l, it_pending it = Some l -> forall o b,
     In (o, b) l <-> (if b then dead G o /\ it_delrev it < o_rev o else live G o /\ it_rev it < o_rev o)).
Proof.
  intros Hc HI HR d0 Hg it Hi G.
  pose proof (sinv_run true iid ops _ _ (sinv_created true d iid tab t0 Hc HI HR) Hg) as [_ Hs].
  destruct (Hs it Hi) as [HO HC]. specialize (HC eq_refl).
  rewrite grun_delivered in HO, HC. cbn [snd app] in HO, HC. split.
  - intros o. apply (ci_a1 _ _ _ HC).
  - intros Hq l Hp o b. apply (oi_pend _ _ _ HO Hq _ Hp).
Qed.
