(* Table/ChangesSnap.v — Next on retained snapshots (C07 + C08): any monotone choice of snapshots.
   Every snapshot (OSnap / the ReadTxn returned by OCommit) taken while the iterator's tracker is
   registered in the committed root is stamped with the position of the operation that took it; a
   Next with a fresh read transaction (or the current write transaction) has the position of the
   Next itself. Side condition (`mfriendly`): the snapshot passed to Next is stamped (taken at or
   after the creating transaction committed) and its position is not below that of the snapshot
   passed to the previous refreshing Next. Under it the retention invariant extends to all stamped
   snapshots (SInv): pairwise, later ones retain what earlier ones may make the iterator hold. *)
From SV Require Import Base.Bytes Base.OrdMap KeyEnc.Model KeyEnc.Proofs
                       Table.Model Table.InvDefs Table.Proofs Table.GcProofs Table.Inv Table.Inv2
                       Table.ChangesStream Table.ChangesIter Table.ChangesProofs Table.ChangesRet
                       Table.ChangesHist Table.ChangesFromInit.
From Coq Require Import ZifyN ZifyNat ZifyBool.
Open Scope N_scope.
#[local] Opaque rev_key.

Lemma assoc_In {A} k (v : A) l : assoc k l = Some v -> In (k, v) l.
Proof.
  induction l as [|[a b] r IH]; simpl; [discriminate|].
  destruct (N.eqb_spec k a) as [->|Hne]; [intros H; injection H as ->; now left|auto].
Qed.

Lemma ok_snap d sid r n t : tables_ok d -> assoc sid (d_snaps d) = Some r -> nth_error r n = Some t ->
  TInv t /\ rev_room t.
Proof.
  intros [[_ [_ H1]] [_ [_ H2]]] Ha Hn. apply assoc_In in Ha. apply nth_error_In in Hn.
  specialize (H1 _ _ Ha). specialize (H2 _ _ Ha). rewrite Forall_forall in H1, H2. auto.
Qed.

(* which operations change the retained snapshots *)
Lemma step_snaps_frame d o : match o with OSnap _ | OCommit _ => False | _ => True end ->
  d_snaps (fst (step d o)) = d_snaps d.
Proof.
  intros Hk. destruct (is_write o) eqn:Hw.
  { now destruct (step_write_spec d o Hw) as [_ [_ [_ [_ [A _]]]]]. }
  destruct o; cbn [is_write] in Hw; try discriminate; try contradiction; cbn [step].
  - destruct (d_txn d); reflexivity.
  - destruct (d_txn d); reflexivity.
  - destruct (src_root d s); [|reflexivity]. destruct (nth_error l tab); reflexivity.
  - destruct (d_txn d) as [[es old]|]; [|reflexivity].
    destruct (nth_error es tab) as [[t [|]]|]; try reflexivity. destruct (nth_error old tab); reflexivity.
  - destruct (assoc iid (d_iters d)) as [it|]; [|reflexivity].
    destruct (src_committed d s) as [rt|]; [|reflexivity].
    destruct (nth_error rt (it_tab it)) as [t|]; [|reflexivity].
    destruct (nth_error (d_root d) (it_tab it)) as [cur|]; [|reflexivity].
    match goal with |- context [if ?c then _ else _] => destruct c end; [reflexivity|].
    match goal with |- context [consume ?a ?b ?c ?dd ?e] =>
      pose proof (consume_snaps a b c dd e) as Hc; destruct (consume a b c dd e) as [[x y] z] end.
    cbn [snd fst set_iters d_snaps] in *. exact Hc.
  - destruct (assoc iid (d_iters d)) as [it|]; [|reflexivity].
    destruct (it_pending it) as [l|]; [|reflexivity]. destruct (it_seq it); [|reflexivity].
    match goal with |- context [consume ?a ?b ?c ?dd ?e] =>
      pose proof (consume_snaps a b c dd e) as Hc; destruct (consume a b c dd e) as [[x y] z] end.
    cbn [snd fst set_iters d_snaps] in *. exact Hc.
  - destruct (assoc iid (d_iters d)) as [it|]; [|reflexivity]. destruct (d_txn d); [reflexivity|].
    cbn [fst]. now rewrite gc_trigger_snaps.
  - destruct (d_gc d); reflexivity.
  - destruct (d_gc d); try reflexivity. destruct (d_txn d); [reflexivity|].
    cbn [fst]. unfold gc_settle. cbn. destruct (d_gcchan d); reflexivity.
Qed.

Section Snap.
Variables (iid : N) (tab : nat).

(* ---- positions ------------------------------------------------------------------------------------------ *)
Record mg := mkMg {
  mg_now : nat;                    (* position of the next operation of the run *)
  mg_stamps : list (N * nat);      (* snapshot id -> position of the operation that took it *)
  mg_last : nat                    (* position of the snapshot handed to the last refreshing Next *)
}.
Definition mg0 : mg := mkMg 0 [] 0.

Definition unstamp (sid : N) (l : list (N * nat)) : list (N * nat) :=
  filter (fun kv => negb (fst kv =? sid)) l.

(* position of the snapshot a Next is called with; None: an unstamped snapshot *)
Definition src_pos (m : mg) (s : source) : option nat :=
  match s with
  | SFresh | STxn => Some (mg_now m)
  | SSnap sid => assoc sid (mg_stamps m)
  end.

Definition mstep (m : mg) (d : db) (o : op) : mg :=
  let d' := fst (step d o) in
  let stamp sid := if reg_rootb iid tab d' then assoc_set sid (mg_now m) (mg_stamps m)
                   else unstamp sid (mg_stamps m) in
  mkMg (S (mg_now m))
       (match o with
        | OSnap sid => stamp sid
        | OCommit sid => match d_txn d with Some _ => stamp sid | None => mg_stamps m end
        | _ => mg_stamps m
        end)
       (match o with
        | ONext i s _ =>
          if i =? iid then
            match next_source d iid s, src_pos m s with
            | Some _, Some p => p
            | _, _ => mg_last m
            end
          else mg_last m
        | _ => mg_last m
        end).

(* the side condition: any monotone choice of snapshots *)
Definition mfriendly (m : mg) (d : db) (o : op) : Prop :=
  match o with
  | OChanges i _ => i <> iid
  | ONext i s _ => i = iid -> reg_root iid tab d /\
                   exists p, src_pos m s = Some p /\ (mg_last m <= p)%nat
  | OAbort => assoc iid (d_iters d) <> None -> reg_root iid tab d
  | _ => True
  end.

Fixpoint mfriendly_run (m : mg) (d : db) (ops : list op) : Prop :=
  match ops with
  | [] => True
  | o :: r => mfriendly m d o /\ mfriendly_run (mstep m d o) (fst (step d o)) r
  end.

(* the table of snapshot sid *)
Definition snap_tab (d : db) (sid : N) : option table :=
  match assoc sid (d_snaps d) with Some r => nth_error r tab | None => None end.

(* ---- RInv: reading it, re-anchoring it ------------------------------------------------------------------- *)
Lemma RInv_committed A d it cur : RInv iid tab A d -> assoc iid (d_iters d) = Some it ->
  nth_error (d_root d) tab = Some cur -> reg iid cur ->
  it_delrev it <= t_rev A /\ TInv A /\ tab_le A cur /\ retained A cur (it_delrev it).
Proof.
  intros HR Hi Hc Hr. destruct (HR it Hi) as [cur' [Hc' [R1 R2 R3 R3' R4 R5]]].
  assert (cur' = cur) by congruence. subst cur'.
  destruct R5 as [[_ [P2 [P3 _]]]|[Q _]]; [auto|contradiction].
Qed.

Lemma RInv_swap A B d : RInv iid tab A d -> reg_root iid tab d -> TInv B ->
  (forall it cur, assoc iid (d_iters d) = Some it -> nth_error (d_root d) tab = Some cur ->
                  it_delrev it <= t_rev B /\ tab_le B cur /\ retained B cur (it_delrev it)) ->
  RInv iid tab B d.
Proof.
  intros HR [cur0 [Hc0 Hr0]] HB Hall it Hi. destruct (HR it Hi) as [cur [Hc [R1 R2 R3 R3' R4 R5]]].
  assert (cur0 = cur) by congruence. subst cur0. destruct (Hall it cur Hi Hc) as [A1 [A2 A3]].
  exists cur. split; auto. constructor; auto.
  destruct R5 as [[P1 [_ [_ P4]]]|[Q _]]; [|contradiction]. left. auto.
Qed.

(* the effect of a Next / Resume of iid on the database, as far as RInv is concerned *)
Record bumped (d d' : db) (it it2 : iter) : Prop := mkBumped {
  bu_it : assoc iid (d_iters d') = Some it2;
  bu_tab : it_tab it2 = it_tab it;
  bu_root : d_root d' = d_root d;
  bu_txn : d_txn d' = d_txn d;
  bu_snaps : d_snaps d' = d_snaps d;
  bu_gc : forall keys, d_gc d' = GGate2 keys -> d_gc d = GGate2 keys;
  bu_wm : assoc iid (d_wm d) = Some (it_delrev it) -> assoc iid (d_wm d') = Some (it_delrev it2);
  bu_mono : it_delrev it <= it_delrev it2
}.

Lemma RInv_bump A d d' it it2 : assoc iid (d_iters d) = Some it -> bumped d d' it it2 ->
  it_delrev it2 <= t_rev A -> reg_root iid tab d -> tables_ok d ->
  RInv iid tab A d -> RInv iid tab A d'.
Proof.
  intros Hi [B1 B2 B3 B4 _ B6 B7 B8] Hle [cur0 [Hc0 Hr0]] HOK HR it' Hi'.
  rewrite B1 in Hi'. injection Hi' as <-.
  destruct (HR it Hi) as [cur [Hc [R1 R2 R3 R3' R4 R5]]]. assert (cur0 = cur) by congruence. subst cur0.
  destruct (ok_root _ _ _ HOK Hc) as [HIc _].
  exists cur. split; [now rewrite B3|]. constructor; auto.
  - congruence.
  - intros keys ks H H1 k Hk. apply B6 in H. destruct (R4 _ _ H H1 _ Hk) as [r [X [Y Z]]]. exists r. repeat split; auto. lia.
  - destruct R5 as [[P1 [P2 [P3 P4]]]|[Q _]]; [|contradiction].
    left. split; [exact P1|]. split; [exact P2|].
    split; [apply (retained_raise A cur (it_delrev it)); auto|].
    intros es old te H H0. rewrite B4 in H. destruct (P4 _ _ _ H H0) as [X [Y Z]].
    split; [exact X|]. split; [exact Y|].
    apply (retained_raise cur te (it_delrev it)); auto. destruct P2 as [W _]. lia.
Qed.

Lemma bumped_resume G d take it acc l :
  assoc iid (d_iters d) = Some it -> oinv G it acc -> it_pending it = Some l -> it_seq it = true ->
  exists it2, bumped d (fst (step d (OResume iid take))) it it2 /\ it_delrev it2 <= t_rev G.
Proof.
  intros Hi HO Hp Hs. cbn [step]. rewrite Hi, Hp, Hs.
  destruct (consume take l it d iid) as [[out it2] d2] eqn:Ec. cbn [fst].
  destruct (consume_inv G l take it d iid acc out it2 d2 HO Hp Hs Ec) as [HO2 [_ [Htab [_ Hmono]]]].
  pose proof (consume_frame l take it d iid) as Hf. pose proof (consume_gate2 l take it d iid) as Hg.
  destruct (consume_wm l iid take it d out it2 d2 Ec) as [_ Hw]. rewrite Ec in Hf, Hg. cbn [snd] in Hf, Hg.
  destruct Hf as [F1 [F2 [F3 _]]].
  exists it2. split; [|exact (oi_dle _ _ _ HO2)].
  constructor; cbn [set_iters d_iters d_root d_txn d_snaps d_gc d_wm]; auto. apply assoc_set_same.
Qed.

Lemma bumped_next G d s take it acc T :
  assoc iid (d_iters d) = Some it -> oinv G it acc -> next_source d iid s = Some T ->
  tab_le G T -> TInv T -> rev_room T ->
  exists it2, bumped d (fst (step d (ONext iid s take))) it it2 /\ it_delrev it2 <= t_rev T.
Proof.
  intros Hi HO Hn Hle HI HR.
  destruct (next_iter_pending T it) as [l Hl].
  rewrite (step_next_some d iid s take it T Hi Hn l Hl).
  pose proof (oinv_refresh _ _ _ _ HO Hle HI HR) as HO1.
  destruct (consume take l (next_iter T it) d iid) as [[out it2] d2] eqn:Ec. cbn [fst].
  destruct (consume_inv T l take _ d iid acc out it2 d2 HO1 Hl eq_refl Ec) as [HO2 [_ [Htab [_ Hmono]]]].
  pose proof (consume_frame l take (next_iter T it) d iid) as Hf.
  pose proof (consume_gate2 l take (next_iter T it) d iid) as Hg.
  destruct (consume_wm l iid take _ d out it2 d2 Ec) as [_ Hw]. rewrite Ec in Hf, Hg. cbn [snd] in Hf, Hg.
  destruct Hf as [F1 [F2 [F3 _]]]. cbn [next_iter it_delrev it_tab] in Hmono, Hw, Htab.
  exists it2. split; [|exact (oi_dle _ _ _ HO2)].
  constructor; cbn [set_iters d_iters d_root d_txn d_snaps d_gc d_wm]; auto. apply assoc_set_same.
Qed.

(* every operation except a Next / Resume of iid keeps RInv for ANY anchor table *)
Definition is_self (o : op) : bool :=
  match o with ONext i _ _ | OResume i _ => i =? iid | _ => false end.

Lemma RInv_passive A d o : is_self o = false -> wf d -> tables_ok d -> tables_ok (fst (step d o)) ->
  friendly iid tab d o -> RInv iid tab A d -> RInv iid tab A (fst (step d o)).
Proof.
  intros Hs HW HOK HOK' Hf HR.
  destruct (is_write o) eqn:Hw; [now apply RInv_write|].
  destruct o; cbn [is_write is_self] in Hw, Hs; try discriminate.
  - now apply RInv_begin.
  - now apply RInv_commit.
  - now apply RInv_abort.
  - cbn [step fst]. apply (RInv_frame iid tab A d); auto. now left.
  - cbn [step]. destruct (src_root d s); [|exact HR]. destruct (nth_error l tab0); exact HR.
  - cbn [friendly] in Hf. now apply RInv_changes.
  - apply RInv_other; auto.
  - apply RInv_other; auto.
  - destruct (N.eqb_spec iid0 iid) as [->|Hne]; [|now apply RInv_close].
    cbn [step]. destruct (assoc iid (d_iters d)) as [it|] eqn:Hi; [|exact HR].
    destruct (d_txn d); [exact HR|]. cbn [fst]. intros it' Hi'. exfalso.
    match type of Hi' with context [gc_trigger ?x] => destruct (gc_trigger_frame x) as [_ [_ [_ [Hc _]]]] end.
    rewrite Hc in Hi'. cbn [set_iters d_iters set_root] in Hi'. rewrite assoc_filter_same in Hi'. discriminate.
  - now apply RInv_scan.
  - now apply RInv_apply.
Qed.

(* ---- the snapshot invariant ---------------------------------------------------------------------------------- *)
Definition stamped (m : mg) (d : db) (sid : N) (p : nat) (X : table) : Prop :=
  assoc sid (mg_stamps m) = Some p /\ snap_tab d sid = Some X.

Record SInv (G : table) (m : mg) (d : db) : Prop := mkSInv {
  si_last : (mg_last m <= mg_now m)%nat;
  si_lt : forall sid p, assoc sid (mg_stamps m) = Some p -> (p < mg_now m)%nat;
  (* a stamped snapshot not older than the last one used is a later state than G, retains what G may
     make the iterator hold, and the committed root (and open transaction) retain what IT may *)
  si_one : forall it sid p X, assoc iid (d_iters d) = Some it -> stamped m d sid p X ->
           (mg_last m <= p)%nat ->
           RInv iid tab X d /\ tab_le G X /\ retained G X (it_delrev it);
  (* pairwise, in the order taken *)
  si_two : forall it sid1 p1 X1 sid2 p2 X2, assoc iid (d_iters d) = Some it ->
           stamped m d sid1 p1 X1 -> stamped m d sid2 p2 X2 ->
           (mg_last m <= p1)%nat -> (p1 <= p2)%nat ->
           tab_le X1 X2 /\ retained X1 X2 (it_delrev it)
}.

Lemma SInv_frame G m d m' d' :
  mg_stamps m' = mg_stamps m -> mg_last m' = mg_last m -> mg_now m' = S (mg_now m) ->
  d_snaps d' = d_snaps d ->
  (assoc iid (d_iters d') = assoc iid (d_iters d) \/ assoc iid (d_iters d') = None) ->
  (forall X, RInv iid tab X d -> RInv iid tab X d') ->
  SInv G m d -> SInv G m' d'.
Proof.
  intros E1 E2 E3 E4 E5 HX [S1 S2 S3 S4].
  assert (Hst : forall sid p X, stamped m' d' sid p X -> stamped m d sid p X).
  { unfold stamped, snap_tab. rewrite E1, E4. auto. }
  constructor.
  - rewrite E2, E3. lia.
  - intros sid p H. rewrite E1 in H. rewrite E3. specialize (S2 _ _ H). lia.
  - intros it sid p X Hi Hs Hl. destruct E5 as [E5|E5]; [|congruence]. rewrite E5 in Hi. rewrite E2 in Hl.
    destruct (S3 it sid p X Hi (Hst _ _ _ Hs) Hl) as [A [B C]]. auto.
  - intros it sid1 p1 X1 sid2 p2 X2 Hi H1 H2 Hl Hp. destruct E5 as [E5|E5]; [|congruence].
    rewrite E5 in Hi. rewrite E2 in Hl. eapply S4; eauto.
Qed.

Lemma assoc_unstamp_same sid (l : list (N * nat)) : assoc sid (unstamp sid l) = None.
Proof. apply assoc_filter_same. Qed.
Lemma assoc_unstamp_other sid sid' (l : list (N * nat)) : sid' <> sid -> assoc sid' (unstamp sid l) = assoc sid' l.
Proof. intros H. now apply assoc_filter_other. Qed.

(* a snapshot of the (new) committed root is taken *)
Lemma SInv_add G m d d' sid r' (regd : bool) :
  d_snaps d' = assoc_set sid r' (d_snaps d) -> r' = d_root d' ->
  assoc iid (d_iters d') = assoc iid (d_iters d) ->
  (regd = true -> reg_root iid tab d') ->
  RInv iid tab G d' -> (forall X, RInv iid tab X d -> RInv iid tab X d') ->
  tables_ok d' ->
  SInv G m d ->
  SInv G (mkMg (S (mg_now m))
               (if regd then assoc_set sid (mg_now m) (mg_stamps m) else unstamp sid (mg_stamps m))
               (mg_last m)) d'.
Proof.
  intros Es Er Ei Hreg HRG HX HOK [S1 S2 S3 S4].
  (* stamped entries other than sid are the old ones *)
  assert (Hold : forall sid' p X, sid' <> sid ->
            stamped (mkMg (S (mg_now m)) (if regd then assoc_set sid (mg_now m) (mg_stamps m) else unstamp sid (mg_stamps m)) (mg_last m)) d' sid' p X ->
            stamped m d sid' p X).
  { intros sid' p X Hne [H1 H2]. cbn [mg_stamps] in H1. unfold snap_tab in *. rewrite Es in H2.
    rewrite assoc_set_other in H2 by auto. split; auto.
    destruct regd; [now rewrite assoc_set_other in H1|now rewrite assoc_unstamp_other in H1]. }
  (* the entry sid, if stamped, is the new root at position now *)
  assert (Hnew : forall p X,
            stamped (mkMg (S (mg_now m)) (if regd then assoc_set sid (mg_now m) (mg_stamps m) else unstamp sid (mg_stamps m)) (mg_last m)) d' sid p X ->
            regd = true /\ p = mg_now m /\ nth_error (d_root d') tab = Some X).
  { intros p X [H1 H2]. cbn [mg_stamps] in H1. unfold snap_tab in H2. rewrite Es, assoc_set_same, Er in H2.
    destruct regd; [rewrite assoc_set_same in H1; injection H1 as <-; auto|].
    rewrite assoc_unstamp_same in H1. discriminate. }
  (* facts about the new root *)
  assert (Hcur : forall it X, assoc iid (d_iters d') = Some it -> regd = true -> nth_error (d_root d') tab = Some X ->
            RInv iid tab X d' /\ tab_le G X /\ retained G X (it_delrev it) /\
            forall Y, RInv iid tab Y d -> tab_le Y X /\ retained Y X (it_delrev it)).
  { intros it X Hi Hr Hc. destruct (Hreg Hr) as [cur [Hc' Hrc]]. assert (cur = X) by congruence. subst cur.
    destruct (RInv_committed G d' it X HRG Hi Hc Hrc) as [A1 [A2 [A3 A4]]].
    destruct (ok_root _ _ _ HOK Hc) as [HIX _].
    split; [|split; [exact A3|split; [exact A4|]]].
    - apply (RInv_swap G X d'); auto. intros it' cur' Hi' Hc''.
      assert (it' = it) by congruence. assert (cur' = X) by congruence. subst.
      split; [destruct A3; lia|]. split; [apply tab_le_refl|apply retained_refl].
    - intros Y HY. destruct (RInv_committed Y d' it X (HX _ HY) Hi Hc Hrc) as [_ [_ [B3 B4]]]. auto. }
  constructor; cbn [mg_now mg_stamps mg_last].
  - lia.
  - intros sid' p H. destruct regd.
    + destruct (N.eq_dec sid' sid) as [->|Hne]; [rewrite assoc_set_same in H; injection H as <-; lia|].
      rewrite assoc_set_other in H by auto. specialize (S2 _ _ H). lia.
    + destruct (N.eq_dec sid' sid) as [->|Hne]; [rewrite assoc_unstamp_same in H; discriminate|].
      rewrite assoc_unstamp_other in H by auto. specialize (S2 _ _ H). lia.
  - intros it sid' p X Hi Hs Hl. destruct (N.eq_dec sid' sid) as [->|Hne].
    + destruct (Hnew _ _ Hs) as [Hr [-> Hc]]. destruct (Hcur it X Hi Hr Hc) as [A [B [C _]]]. auto.
    + rewrite Ei in Hi. destruct (S3 it sid' p X Hi (Hold _ _ _ Hne Hs) Hl) as [A [B C]]. auto.
  - intros it sid1 p1 X1 sid2 p2 X2 Hi H1 H2 Hl Hp.
    destruct (N.eq_dec sid1 sid) as [->|Hne1], (N.eq_dec sid2 sid) as [->|Hne2].
    + destruct (Hnew _ _ H1) as [_ [_ Hc1]], (Hnew _ _ H2) as [_ [_ Hc2]].
      assert (X1 = X2) by congruence. subst. split; [apply tab_le_refl|apply retained_refl].
    + exfalso. destruct (Hnew _ _ H1) as [_ [-> _]]. destruct (Hold _ _ _ Hne2 H2) as [Hq _].
      specialize (S2 _ _ Hq). lia.
    + destruct (Hnew _ _ H2) as [Hr [_ Hc]]. destruct (Hcur it X2 Hi Hr Hc) as [_ [_ [_ D]]].
      rewrite Ei in Hi. destruct (S3 it sid1 p1 X1 Hi (Hold _ _ _ Hne1 H1) Hl) as [A _]. auto.
    + rewrite Ei in Hi. eapply S4; eauto.
Qed.

(* a Next / Resume of iid: cursor and watermark move up, the anchor moves to A (position q) *)
Lemma SInv_bumped G A m d d' it it2 q :
  assoc iid (d_iters d) = Some it -> bumped d d' it it2 -> it_delrev it2 <= t_rev A -> TInv A ->
  reg_root iid tab d -> tables_ok d -> SInv G m d ->
  (mg_last m <= q)%nat -> (q <= mg_now m)%nat ->
  (forall sid p X, stamped m d sid p X -> (q <= p)%nat -> tab_le A X /\ retained A X (it_delrev it)) ->
  SInv A (mkMg (S (mg_now m)) (mg_stamps m) q) d'.
Proof.
  intros Hi HB Hle HIA Hreg HOK [S1 S2 S3 S4] Hq1 Hq2 HA.
  pose proof HB as [B1 B2 B3 B4 B5 B6 B7 B8].
  assert (Hst : forall sid p X, stamped (mkMg (S (mg_now m)) (mg_stamps m) q) d' sid p X -> stamped m d sid p X).
  { unfold stamped, snap_tab. cbn [mg_stamps]. rewrite B5. auto. }
  constructor; cbn [mg_now mg_stamps mg_last].
  - lia.
  - intros sid p H. specialize (S2 _ _ H). lia.
  - intros it' sid p X Hi' Hs Hl. rewrite B1 in Hi'. injection Hi' as <-. apply Hst in Hs.
    assert (Hl0 : (mg_last m <= p)%nat) by (clear - Hq1 Hl; lia).
    destruct (S3 it sid p X Hi Hs Hl0) as [R _]. destruct (HA _ _ _ Hs Hl) as [L Rt].
    split; [|split; [exact L|]].
    + apply (RInv_bump X d d' it it2); auto. destruct L as [L0 _]. clear - L0 Hle. lia.
    + apply (retained_raise A X (it_delrev it)); auto.
  - intros it' sid1 p1 X1 sid2 p2 X2 Hi' H1 H2 Hl Hp. rewrite B1 in Hi'. injection Hi' as <-.
    apply Hst in H1, H2. assert (Hl0 : (mg_last m <= p1)%nat) by (clear - Hq1 Hl; lia).
    destruct (S4 it _ _ _ _ _ _ Hi H1 H2 Hl0 Hp) as [L Rt].
    split; [exact L|]. destruct (HA _ _ _ H1 Hl) as [[LA _] _].
    assert (HI1 : TInv X1).
    { destruct H1 as [_ H1]. unfold snap_tab in H1. destruct (assoc sid1 (d_snaps d)) as [r|] eqn:E; [|discriminate].
      exact (proj1 (ok_snap _ _ _ _ _ HOK E H1)). }
    apply (retained_raise X1 X2 (it_delrev it)); auto. clear - LA Hle. lia.
Qed.

Lemma RInv_tab G d it : RInv iid tab G d -> assoc iid (d_iters d) = Some it -> it_tab it = tab.
Proof. intros HR Hi. destruct (HR it Hi) as [cur [_ [R1 _]]]. exact R1. Qed.

Lemma RInv_seq_reg G d it : RInv iid tab G d -> assoc iid (d_iters d) = Some it -> it_seq it = true ->
  reg_root iid tab d.
Proof.
  intros HR Hi Hs. destruct (HR it Hi) as [cur [Hc [_ _ _ _ _ R5]]].
  destruct R5 as [[P1 _]|[_ [Q _]]]; [exists cur; auto|congruence].
Qed.

Lemma mfriendly_friendly m d o : mfriendly m d o ->
  (forall sid take, o <> ONext iid (SSnap sid) take) -> friendly iid tab d o.
Proof.
  destruct o; cbn [mfriendly friendly]; auto. intros H Hn E. subst. destruct (H eq_refl) as [Hr _].
  split; auto. destruct s; auto. exfalso. eapply Hn; reflexivity.
Qed.

Lemma gstep_passive g d o : is_self o = false -> gstep iid g d o = g.
Proof. destruct o; cbn [gstep is_self]; auto; intros ->; reflexivity. Qed.

Lemma mstep_plain m d o :
  match o with OSnap _ | OCommit _ => False | _ => True end -> is_self o = false ->
  mg_stamps (mstep m d o) = mg_stamps m /\ mg_last (mstep m d o) = mg_last m /\
  mg_now (mstep m d o) = S (mg_now m).
Proof. destruct o; cbn [mstep is_self mg_stamps mg_last mg_now]; try contradiction; auto; intros _ ->; auto. Qed.

(* ---- one step ------------------------------------------------------------------------------------------------------ *)
Lemma iters_passive d o : is_self o = false -> friendly iid tab d o ->
  assoc iid (d_iters (fst (step d o))) = assoc iid (d_iters d) \/ assoc iid (d_iters (fst (step d o))) = None.
Proof.
  intros Hs Hf. destruct (touches iid o) eqn:Ht; [|left; now apply step_iters_frame].
  destruct o; cbn [touches is_self friendly] in *; try discriminate; try congruence.
  - apply N.eqb_eq in Ht. congruence.
  - apply N.eqb_eq in Ht. subst. cbn [step].
    destruct (assoc iid (d_iters d)) as [it|] eqn:Hi; [|left; exact Hi].
    destruct (d_txn d); [left; exact Hi|]. right. cbn [fst].
    match goal with |- context [gc_trigger ?x] => destruct (gc_trigger_frame x) as [_ [_ [_ [Hc _]]]] end.
    rewrite Hc. cbn [set_iters d_iters set_root]. apply assoc_filter_same.
Qed.

Lemma SInv_same G m d m' : mg_stamps m' = mg_stamps m -> mg_last m' = mg_last m -> mg_now m' = S (mg_now m) ->
  SInv G m d -> SInv G m' d.
Proof. intros E1 E2 E3. apply (SInv_frame G m d m' d); auto. Qed.

Lemma SInv_passive G m d o : is_self o = false -> wf d -> tables_ok d -> tables_ok (fst (step d o)) ->
  friendly iid tab d o -> RInv iid tab G (fst (step d o)) ->
  SInv G m d -> SInv G (mstep m d o) (fst (step d o)).
Proof.
  intros Hs HW HOK HOK' Hf HR1 HSI.
  assert (HX : forall X, RInv iid tab X d -> RInv iid tab X (fst (step d o))).
  { intros X HX. now apply RInv_passive. }
  assert (Hplain : match o with OSnap _ | OCommit _ => False | _ => True end -> SInv G (mstep m d o) (fst (step d o))).
  { intros Hp. destruct (mstep_plain m d o Hp Hs) as [E1 [E2 E3]].
    apply (SInv_frame G m d); auto; [now apply step_snaps_frame|now apply iters_passive]. }
  destruct o; try (apply Hplain; exact I).
  - (* OCommit *)
    unfold mstep. cbn [step] in *.
    destruct (d_txn d) as [[es old]|] eqn:Et; [|apply (SInv_same G m); auto]. cbn [fst] in *.
    match goal with |- context [reg_rootb iid tab ?dd] => set (d' := dd) in * end.
    apply (SInv_add G m d d' sid (d_root d') (reg_rootb iid tab d')); auto. apply reg_rootb_ok.
  - (* OSnap *)
    unfold mstep. cbn [step fst] in *.
    match goal with |- context [reg_rootb iid tab ?dd] => set (d' := dd) in * end.
    apply (SInv_add G m d d' sid (d_root d') (reg_rootb iid tab d')); auto. apply reg_rootb_ok.
Qed.

Lemma SInv_next_fresh g m d s take : (s = SFresh \/ s = STxn) -> tables_ok d ->
  sinv true iid g d -> RInv iid tab (fst g) d -> SInv (fst g) m d ->
  friendly iid tab d (ONext iid s take) -> good_step true iid (fst g) d (ONext iid s take) ->
  SInv (fst (gstep iid g d (ONext iid s take))) (mstep m d (ONext iid s take)) (fst (step d (ONext iid s take))).
Proof.
  intros Hs HOK [_ HS'] HR HSI Hf HG. unfold mstep. cbn [gstep]. rewrite !N.eqb_refl. cbn [fst].
  assert (Hp : src_pos m s = Some (mg_now m)) by (destruct Hs as [->| ->]; reflexivity). rewrite Hp.
  destruct (next_source d iid s) as [T|] eqn:Hn.
  2:{ destruct (step_next_none d iid s take Hn) as [-> _]. apply (SInv_same (fst g) m); auto. }
  destruct (assoc iid (d_iters d)) as [it|] eqn:Hi.
  2:{ unfold next_source in Hn. rewrite Hi in Hn. discriminate. }
  destruct (HS' it eq_refl) as [HO _]. cbn [good_step] in HG.
  destruct (HG eq_refl T it Hn Hi) as [HleT [HIT [HRoT _]]].
  cbn [friendly] in Hf. destruct (Hf eq_refl) as [_ Hreg].
  destruct (bumped_next (fst g) d s take it (snd g) T Hi HO Hn HleT HIT HRoT) as [it2 [HB HD]].
  apply (SInv_bumped (fst g) T m d _ it it2 (mg_now m)); auto.
  - apply (si_last _ _ _ HSI).
  - intros sid p X [Hst _] Hpp. pose proof (si_lt _ _ _ HSI _ _ Hst). lia.
Qed.

Lemma SInv_resume g m d take : tables_ok d ->
  sinv true iid g d -> RInv iid tab (fst g) d -> SInv (fst g) m d ->
  SInv (fst g) (mstep m d (OResume iid take)) (fst (step d (OResume iid take))).
Proof.
  intros HOK [_ HS'] HR HSI. unfold mstep.
  assert (Hno : fst (step d (OResume iid take)) = d ->
                SInv (fst g) (mkMg (S (mg_now m)) (mg_stamps m) (mg_last m)) (fst (step d (OResume iid take)))).
  { intros ->. apply (SInv_same (fst g) m); auto. }
  destruct (assoc iid (d_iters d)) as [it|] eqn:Hi; [|apply Hno; cbn [step]; now rewrite Hi].
  destruct (it_pending it) as [l|] eqn:Hp; [|apply Hno; cbn [step]; now rewrite Hi, Hp].
  destruct (it_seq it) eqn:Hs; [|apply Hno; cbn [step]; now rewrite Hi, Hp, Hs].
  destruct (HS' it eq_refl) as [HO _].
  destruct (bumped_resume (fst g) d take it (snd g) l Hi HO Hp Hs) as [it2 [HB HD]].
  apply (SInv_bumped (fst g) (fst g) m d _ it it2 (mg_last m)); auto.
  - apply (oi_tinv _ _ _ HO).
  - eapply RInv_seq_reg; eauto.
  - apply (si_last _ _ _ HSI).
  - intros sid p X Hst Hpp. destruct (si_one _ _ _ HSI it sid p X Hi Hst Hpp) as [_ [A B]]. auto.
Qed.

Lemma MInv_step g m d o : wf d -> tables_ok d -> tables_ok (fst (step d o)) ->
  sinv true iid g d -> RInv iid tab (fst g) d -> SInv (fst g) m d -> mfriendly m d o ->
  RInv iid tab (fst (gstep iid g d o)) (fst (step d o)) /\
  SInv (fst (gstep iid g d o)) (mstep m d o) (fst (step d o)) /\
  good_step true iid (fst g) d o.
Proof.
  intros HW HOK HOK' HS HR HSI Hf. pose proof HS as [_ HS'].
  (* Next of iid on a retained snapshot *)
  assert (Hsnapcase : forall sid take, o = ONext iid (SSnap sid) take ->
            RInv iid tab (fst (gstep iid g d o)) (fst (step d o)) /\
            SInv (fst (gstep iid g d o)) (mstep m d o) (fst (step d o)) /\ good_step true iid (fst g) d o).
  { intros sid take ->. unfold mstep. cbn [gstep src_pos]. rewrite !N.eqb_refl. cbn [fst mfriendly] in *.
    destruct (Hf eq_refl) as [Hreg [p [Hp Hlp]]]. cbn [src_pos] in Hp. rewrite Hp.
    destruct (next_source d iid (SSnap sid)) as [T|] eqn:Hn.
    2:{ destruct (step_next_none d iid (SSnap sid) take Hn) as [-> _].
        split; [exact HR|]. split; [apply (SInv_same (fst g) m); auto|]. cbn [good_step]. intros _ T it Hn'. congruence. }
    destruct (assoc iid (d_iters d)) as [it|] eqn:Hi.
    2:{ unfold next_source in Hn. rewrite Hi in Hn. discriminate. }
    destruct (HS' it eq_refl) as [HO _].
    assert (Hst : stamped m d sid p T).
    { split; auto. unfold next_source in Hn. rewrite Hi in Hn. cbn [src_committed] in Hn.
      unfold snap_tab. destruct (assoc sid (d_snaps d)) as [r|]; [|discriminate].
      rewrite (RInv_tab _ _ _ HR Hi) in Hn.
      destruct (nth_error r tab) as [t|]; [|discriminate].
      destruct (nth_error (d_root d) tab); [|discriminate].
      match type of Hn with (if ?c then _ else _) = _ => destruct c end; congruence. }
    destruct (si_one _ _ _ HSI it sid p T Hi Hst Hlp) as [HRT [HleT HretT]].
    assert (HokT : TInv T /\ rev_room T).
    { destruct Hst as [_ H1]. unfold snap_tab in H1. destruct (assoc sid (d_snaps d)) as [r|] eqn:E; [|discriminate].
      exact (ok_snap _ _ _ _ _ HOK E H1). }
    destruct HokT as [HIT HRoT].
    destruct (bumped_next (fst g) d (SSnap sid) take it (snd g) T Hi HO Hn HleT HIT HRoT) as [it2 [HB HD]].
    split; [eapply RInv_bump; eauto|]. split.
    - apply (SInv_bumped (fst g) T m d _ it it2 p); auto.
      + pose proof (si_lt _ _ _ HSI _ _ Hp). lia.
      + intros sid' p' X Hs' Hpp. eapply (si_two _ _ _ HSI); eauto.
    - cbn [good_step]. intros _ T' it' Hn' Hi'. rewrite Hn in Hn'. injection Hn' as <-.
      rewrite Hi in Hi'. injection Hi' as <-. auto. }
  destruct (is_self o) eqn:Hself.
  - destruct o; cbn [is_self] in Hself; try discriminate; apply N.eqb_eq in Hself; subst iid0.
    + (* ONext iid *)
      destruct s as [|sid|]; [|eapply Hsnapcase; reflexivity|].
      * assert (Hfr : friendly iid tab d (ONext iid STxn take)).
        { eapply mfriendly_friendly; [exact Hf|]. intros ? ? E. discriminate. }
        destruct (RInv_step iid tab g d _ HW HOK HOK' HS HR Hfr) as [HR1 HG]. split; [exact HR1|]. split; [|exact HG].
        apply SInv_next_fresh; auto.
      * assert (Hfr : friendly iid tab d (ONext iid SFresh take)).
        { eapply mfriendly_friendly; [exact Hf|]. intros ? ? E. discriminate. }
        destruct (RInv_step iid tab g d _ HW HOK HOK' HS HR Hfr) as [HR1 HG]. split; [exact HR1|]. split; [|exact HG].
        apply SInv_next_fresh; auto.
    + (* OResume iid *)
      destruct (RInv_step iid tab g d _ HW HOK HOK' HS HR I) as [HR1 HG]. split; [exact HR1|]. split; [|exact HG].
      cbn [gstep]. rewrite N.eqb_refl. cbn [fst]. now apply SInv_resume.
  - assert (Hfr : friendly iid tab d o).
    { eapply mfriendly_friendly; [exact Hf|]. intros ? ? ->. cbn in Hself. now rewrite N.eqb_refl in Hself. }
    destruct (RInv_step iid tab g d _ HW HOK HOK' HS HR Hfr) as [HR1 HG]. split; [exact HR1|]. split; [|exact HG].
    rewrite gstep_passive in * by auto. now apply SInv_passive.
Qed.

(* ---- runs ------------------------------------------------------------------------------------------------------------- *)
Fixpoint mrun (m : mg) (d : db) (ops : list op) : mg :=
  match ops with
  | [] => m
  | o :: r => mrun (mstep m d o) (fst (step d o)) r
  end.

Theorem mono_run ops : forall g m d,
  wf d -> sinv true iid g d -> RInv iid tab (fst g) d -> SInv (fst g) m d ->
  ok_run d ops -> mfriendly_run m d ops ->
  good_run true iid g d ops /\
  RInv iid tab (fst (grun iid g d ops)) (fst (run d ops)) /\
  SInv (fst (grun iid g d ops)) (mrun m d ops) (fst (run d ops)).
Proof.
  induction ops as [|o r IH]; intros g m d HW HS HR HSI HOK HF; cbn [good_run grun run mrun]; [auto|].
  destruct HOK as [HOK HOKr], HF as [HF HFr].
  destruct (MInv_step g m d o HW HOK (ok_run_head _ _ HOKr) HS HR HSI HF) as [HR1 [HSI1 HG]].
  pose proof (sinv_step true iid g d o HS HG) as HS1.
  pose proof (wf_step d o HW HOK) as HW1.
  destruct (IH _ _ _ HW1 HS1 HR1 HSI1 HOKr HFr) as [A [B C]].
  destruct (step d o) as [d1 x]. cbn [fst] in *. destruct (run d1 r) as [d2 xs]. cbn [fst] in *. auto.
Qed.

Lemma SInv_created G d : SInv G mg0 d.
Proof.
  constructor; cbn [mg0 mg_last mg_now mg_stamps]; auto.
  - intros sid p H. discriminate.
  - intros it sid p X _ [H _]. discriminate.
  - intros it sid1 p1 X1 sid2 p2 X2 _ [H _]. discriminate.
Qed.

(* ---- from the initial database, any monotone choice of snapshots ------------------------------------------------------ *)
Section FromInitMono.
Variables (n : nat) (pre : list op) (t0 : table) (ops : list op).
Let d := fst (run (init_db n) pre).
Let d0 := fst (step d (OChanges iid tab)).
Hypothesis Hroom : room_run (init_db n) (pre ++ OChanges iid tab :: ops).
Hypothesis Hcreated : created d iid tab t0.
Hypothesis Hfresh : forall cur, nth_error (d_root d) tab = Some cur -> ~ reg iid cur.
Hypothesis Hmono : mfriendly_run mg0 d0 ops.

Lemma mono_facts : good_run true iid (t0, []) d0 ops /\ TInv t0 /\ rev_room t0 /\
  RInv iid tab (fst (grun iid (t0, []) d0 ops)) (fst (run d0 ops)).
Proof.
  destruct (from_init_facts n pre iid tab ops Hroom) as [HW [HOK HOKr]]. fold d in HW, HOK. fold d0 in HOKr.
  destruct Hcreated as [es [old [told [Ht [He Ho]]]]].
  destruct (ok_entry _ _ _ _ _ _ HOK Ht He) as [HI0 HR0].
  assert (Hc : created d iid tab t0) by (exists es, old, told; auto).
  destruct (mono_run ops (t0, []) mg0 d0 (wf_step d _ HW HOK) (sinv_created true d iid tab t0 Hc HI0 HR0)
                     (RInv_created iid tab d t0 Hc HW HOK Hfresh) (SInv_created _ _) HOKr Hmono) as [A [B _]].
  auto.
Qed.

Theorem init_strictly_increasing_mono : asc (map crev (delivered iid d0 ops)).
Proof.
  destruct mono_facts as [A [B [C _]]].
  apply (changes_strictly_increasing d iid tab t0 ops Hcreated B C). now apply good_run_weaken.
Qed.

Theorem init_converge_mono : forall it,
  assoc iid (d_iters (fst (run d0 ops))) = Some it -> it_pending it = None ->
  replay (delivered iid d0 ops) = abs_of (fst (grun iid (t0, []) d0 ops)).
Proof. destruct mono_facts as [A [B [C _]]]. exact (changes_converge d iid tab t0 ops Hcreated B C A). Qed.

(* C08 along such runs: the committed root retains what the last snapshot used may make the iterator hold *)
Theorem init_retention_mono : forall it cur,
  assoc iid (d_iters (fst (run d0 ops))) = Some it ->
  nth_error (d_root (fst (run d0 ops))) tab = Some cur -> reg iid cur ->
  retained (fst (grun iid (t0, []) d0 ops)) cur (it_delrev it) /\
  assoc iid (d_wm (fst (run d0 ops))) = Some (it_delrev it).
Proof.
  destruct mono_facts as [_ [_ [_ R]]]. intros it cur Hi Hc Hr.
  destruct (R it Hi) as [cur' [Hc' [R1 R2 R3 R3' R4 R5]]]. assert (cur' = cur) by congruence. subst cur'.
  split; auto. destruct R5 as [[_ [_ [P3 _]]]|[Q _]]; [exact P3|contradiction].
Qed.
End FromInitMono.
End Snap.

Theorem init_converge_next_mono iid tab n pre t0 ops s S :
  let d := fst (run (init_db n) pre) in
  let d0 := fst (step d (OChanges iid tab)) in
  room_run (init_db n) (pre ++ OChanges iid tab :: ops ++ [ONext iid s None]) ->
  created d iid tab t0 ->
  (forall cur, nth_error (d_root d) tab = Some cur -> ~ reg iid cur) ->
  mfriendly_run iid tab (mg0) d0 (ops ++ [ONext iid s None]) ->
  next_source (fst (run d0 ops)) iid s = Some S ->
  replay (delivered iid d0 (ops ++ [ONext iid s None])) = abs_of S.
Proof.
  intros d d0 Hroom Hc Hf Hm Hn.
  destruct (mono_facts iid tab n pre t0 _ Hroom Hc Hf Hm) as [A [B [C _]]].
  exact (changes_converge_next d iid tab t0 ops s S Hc B C A Hn).
Qed.

(* ---- boolean checker and a concrete run with retained snapshots ------------------------------------------------------------ *)
Definition mfriendlyb (iid : N) (tab : nat) (m : mg) (d : db) (o : op) : bool :=
  match o with
  | OChanges i _ => negb (i =? iid)
  | ONext i s _ => negb (i =? iid) ||
                   (reg_rootb iid tab d &&
                    match src_pos m s with Some p => Nat.leb (mg_last m) p | None => false end)
  | OAbort => reg_rootb iid tab d
  | _ => true
  end.

Lemma mfriendlyb_ok iid tab m d o : mfriendlyb iid tab m d o = true -> mfriendly iid tab m d o.
Proof.
  destruct o; cbn [mfriendlyb mfriendly]; auto.
  - intros H _. now apply reg_rootb_ok.
  - intros H. now apply negb_true_iff, N.eqb_neq in H.
  - intros H E. subst. rewrite N.eqb_refl in H. cbn in H. apply andb_true_iff in H. destruct H as [A B].
    split; [now apply reg_rootb_ok|]. destruct (src_pos m s) as [p|]; [|discriminate].
    exists p. split; auto. now apply Nat.leb_le.
Qed.

Fixpoint mfriendly_runb (iid : N) (tab : nat) (m : mg) (d : db) (ops : list op) : bool :=
  match ops with
  | [] => true
  | o :: r => mfriendlyb iid tab m d o && mfriendly_runb iid tab (mstep iid tab m d o) (fst (step d o)) r
  end.

Lemma mfriendly_runb_ok iid tab ops : forall m d,
  mfriendly_runb iid tab m d ops = true -> mfriendly_run iid tab m d ops.
Proof.
  induction ops as [|o r IH]; intros m d H; cbn [mfriendly_runb mfriendly_run] in *; auto.
  apply andb_true_iff in H. destruct H as [A B]. split; [now apply mfriendlyb_ok|auto].
Qed.

(* Next on the ReadTxn returned by the creating Commit (partially consumed), a retained snapshot taken
   before a delete / re-insert / re-delete of the same key, a collection scan and apply in between,
   Next on that old snapshot, then on a later one, then on a fresh transaction *)
Definition sx_ops : list op :=
  [OCommit 1; ONext 7 (SSnap 1) (Some 1%nat);
   OBegin [0%nat]; ODelete 0 [97]; OInsert 0 (mkP [98] 5 [] [] [] []); OCommit 2;
   OBegin [0%nat]; OInsert 0 ex_a; OCommit 3; OSnap 4; OGcScan;
   OBegin [0%nat]; ODelete 0 [97]; OCommit 5;
   ONext 7 (SSnap 2) None; OGcApply; ONext 7 (SSnap 4) None; OGcScan; OGcApply;
   ONext 7 (SSnap 5) (Some 0%nat)].

Example mono_hypotheses_satisfiable :
  let d := fst (run (init_db 1) ex_pre) in
  let d0 := fst (step d (OChanges 7 0)) in
  let all := sx_ops ++ [ONext 7 SFresh None] in
  room_run (init_db 1) (ex_pre ++ OChanges 7 0 :: all) /\
  (exists t0, created d 7 0 t0) /\
  (forall cur, nth_error (d_root d) 0 = Some cur -> ~ reg 7 cur) /\
  mfriendly_run 7 0 mg0 d0 all /\
  (exists S, next_source (fst (run d0 sx_ops)) 7 SFresh = Some S) /\
  map (fun c => (p_id (o_data (fst c)), o_rev (fst c), snd c)) (delivered 7 d0 all) =
    [([97], 1, false); ([97], 3, true); ([98], 4, false); ([97], 5, false); ([97], 6, true)] /\
  replay (delivered 7 d0 all) = [([98], (5, 4))].
Proof.
  cbv zeta. split; [apply room_runb_ok; vm_compute; reflexivity|].
  split; [vm_compute; do 4 eexists; split; [reflexivity|split; reflexivity]|].
  split; [intros cur H; vm_compute in H; injection H as <-; vm_compute; tauto|].
  split; [apply mfriendly_runb_ok; vm_compute; reflexivity|].
  split; [vm_compute; eexists; reflexivity|].
  split; vm_compute; reflexivity.
Qed.
