(* Table/Model.v — executable model of statedb's table layer (L2/L3/L5) for a single
   goroutine: indexes (part_index.go), write operations (write_txn.go modify/delete),
   queries (table.go), transactions (db.go WriteTxn, write_txn.go Commit/Abort),
   change iterators (iterator.go, deletetracker.go), graveyard GC (graveyard.go) and
   table initializers (table.go). The radix trees underneath are abstracted to the
   ordered-map specification Base/OrdMap.v (justified by property C11). No proofs here. *)
From SV Require Export Base.Bytes Base.OrdMap KeyEnc.Model.
Open Scope N_scope.

(* ---- objects: the harness' test object {ID; Val; U keys; N keys} -------------------- *)
(* LPM keys (lpm_index.go): canonical form = the first plen bits of the data *)
Definition lkey := list bool.
Record payload := mkP { p_id : bytes; p_val : N; p_u : list bytes; p_n : list bytes;
                        p_lu : list lkey; p_ln : list lkey }.
(* write_txn.go `object{data, revision}`; object{} has revision 0 *)
Record object := mkO { o_data : payload; o_rev : N }.
Definition noobj : object := mkO (mkP [] 0 [] [] [] []) 0.

Definition idx := omap object.

(* index/keyset.go KeySet: Foreach = the list in order; Exists (after fix 00118b6: the empty set has no members) *)
Definition ks_exists (ks : list bytes) (k : bytes) : bool := existsb (bytes_eqb k) ks.
(* the pre-fix Exists: a nil head compares equal to the empty key *)
Definition ks_exists_old (ks : list bytes) (k : bytes) : bool :=
  match ks with [] => bytes_eqb [] k | _ => existsb (bytes_eqb k) ks end.

Definition rev_key (r : N) : bytes := be64 r.

(* stored key of a secondary index entry: unique -> the key; non-unique -> composite (part_index.go reindex) *)
Definition ikey (unique : bool) (idKey k : bytes) : bytes := if unique then k else nuk idKey k.

(* part_index.go partIndexTxn.reindex *)
Definition reindex_with (exists_fn : list bytes -> bytes -> bool)
    (unique : bool) (keys : payload -> list bytes) (idKey : bytes) (old new : object) (t : idx) : idx :=
  let newKeys := if o_rev new =? 0 then [] else keys (o_data new) in
  let t1 := fold_left (fun t k => om_insert (ikey unique idKey k) new t) newKeys t in
  if o_rev old =? 0 then t1
  else fold_left (fun t k => if exists_fn newKeys k then t else om_delete (ikey unique idKey k) t)
                 (keys (o_data old)) t1.
Definition reindex := reindex_with ks_exists.
Definition reindex_old := reindex_with ks_exists_old.

(* ---- LPM indexes (lpm_index.go), the trie abstracted to an association list in trie
        iteration order = lexicographic order on bit strings (justified by property C13) ------ *)
Fixpoint bits_ltb (a b : lkey) : bool :=
  match a, b with
  | [], [] => false
  | [], _ :: _ => true
  | _ :: _, [] => false
  | x :: xs, y :: ys => if Bool.eqb x y then bits_ltb xs ys else negb x   (* false < true *)
  end.
Fixpoint bits_eqb (a b : lkey) : bool :=
  match a, b with
  | [], [] => true
  | x :: xs, y :: ys => Bool.eqb x y && bits_eqb xs ys
  | _, _ => false
  end.
Fixpoint bits_prefix (p q : lkey) : bool :=   (* p is a prefix of q *)
  match p, q with
  | [], _ => true
  | x :: xs, y :: ys => Bool.eqb x y && bits_prefix xs ys
  | _ :: _, [] => false
  end.
Fixpoint byte_bits (n : nat) (b : N) : list bool :=   (* the n low bits of b, most significant first *)
  match n with O => [] | S n' => N.testbit b (N.of_nat n') :: byte_bits n' b end.
(* lpm/key.go EncodeLPMKey in canonical form: the first plen bits of data *)
Definition key_bits (data : bytes) (plen : N) : lkey :=
  firstn (N.to_nat plen) (flat_map (byte_bits 8) data).

(* lpmEntry: head :: tail, ascending primary key *)
Definition lentry := list (bytes * object).
Definition lidx := list (lkey * lentry).

Fixpoint l_get (k : lkey) (m : lidx) : option lentry :=     (* Txn.LookupExact *)
  match m with
  | [] => None
  | (k', e) :: r => if bits_eqb k k' then Some e else if bits_ltb k k' then None else l_get k r
  end.
Fixpoint l_insert (k : lkey) (e : lentry) (m : lidx) : lidx :=   (* Txn.Insert *)
  match m with
  | [] => [(k, e)]
  | (k', e') :: r => if bits_eqb k k' then (k, e) :: r
                     else if bits_ltb k k' then (k, e) :: (k', e') :: r
                     else (k', e') :: l_insert k e r
  end.
Fixpoint l_delete (k : lkey) (m : lidx) : lidx :=           (* Txn.Delete *)
  match m with
  | [] => []
  | (k', e') :: r => if bits_eqb k k' then r
                     else if bits_ltb k k' then (k', e') :: r
                     else (k', e') :: l_delete k r
  end.
(* Lookup: the longest stored prefix covering q (prefixes of q appear in increasing length) *)
Definition l_lookup (q : lkey) (m : lidx) : option lentry :=
  fold_left (fun best ke => if bits_prefix (fst ke) q then Some (snd ke) else best) m None.
Definition l_prefix (q : lkey) (m : lidx) : lidx := filter (fun ke => bits_prefix q (fst ke)) m.
Fixpoint l_lower_bound (q : lkey) (m : lidx) : lidx :=
  match m with
  | [] => []
  | (k', e') :: r => if bits_ltb k' q then l_lower_bound q r else (k', e') :: r
  end.

(* lpmEntry.upsert (after fix 9ab81d8: copies, no aliasing) / delete *)
Fixpoint e_upsert (pk : bytes) (o : object) (e : lentry) : lentry :=
  match e with
  | [] => [(pk, o)]
  | (pk', o') :: r => if bytes_eqb pk pk' then (pk, o) :: r
                      else if bytes_ltb pk pk' then (pk, o) :: (pk', o') :: r
                      else (pk', o') :: e_upsert pk o r
  end.
Definition e_delete (pk : bytes) (e : lentry) : lentry := filter (fun x => negb (bytes_eqb pk (fst x))) e.

(* lpmIndexTxn.insertKey / removeKey *)
Definition l_insert_key (unique : bool) (pk : bytes) (k : lkey) (o : object) (m : lidx) : lidx :=
  if unique then l_insert k [(pk, o)] m     (* the head is replaced whatever its primary key *)
  else l_insert k (e_upsert pk o (match l_get k m with Some e => e | None => [] end)) m.
Definition l_remove_key (pk : bytes) (k : lkey) (m : lidx) : lidx :=
  match l_get k m with
  | None => m
  | Some [(pk', _)] => if bytes_eqb pk' pk then l_delete k m else m
  | Some e => if existsb (fun x => bytes_eqb pk (fst x)) e
              then match e_delete pk e with [] => l_delete k m | e' => l_insert k e' m end
              else m
  end.
Definition lks_exists (ks : list lkey) (k : lkey) : bool := existsb (bits_eqb k) ks.
(* lpmIndexTxn.reindex *)
Definition l_reindex (unique : bool) (keys : payload -> list lkey) (pk : bytes) (old new : object) (m : lidx) : lidx :=
  let newKeys := if o_rev new =? 0 then [] else keys (o_data new) in
  let m1 := fold_left (fun m k => l_insert_key unique pk k new m) newKeys m in
  if o_rev old =? 0 then m1
  else fold_left (fun m k => if lks_exists newKeys k then m else l_remove_key pk k m) (keys (o_data old)) m1.
Definition l_objs (m : lidx) : list object := flat_map (fun ke => map snd (snd ke)) m.

(* ---- table entry (types.go tableEntry) ------------------------------------------------ *)
Record table := mkT {
  t_rev : N;
  t_primary : idx; t_revidx : idx; t_grave : idx; t_graverev : idx;
  t_u : idx;                     (* unique secondary index, multi-key *)
  t_n : idx;                     (* non-unique secondary index, multi-key *)
  t_lu : lidx;                   (* unique LPM index *)
  t_ln : lidx;                   (* non-unique LPM index *)
  t_trackers : list N;           (* registered delete trackers (deleteTrackers tree keys) *)
  t_init : option (N * list N)   (* tableInitialization {watch; pending}; None = nil *)
}.
Definition empty_table : table := mkT 0 [] [] [] [] [] [] [] [] [] None.

Inductive werr := EOk | ENotFound | ERevMismatch | ENotLocked | EClosed.

(* merge function used by the harness for Modify: new payload, Val := old.Val + new.Val *)
Definition merge_payload (old new : payload) : payload :=
  mkP (p_id new) (p_val old + p_val new) (p_u new) (p_n new) (p_lu new) (p_ln new).

(* write_txn.go modify (insert / Modify / CompareAndSwap); guard 0 = unguarded *)
Definition modify_with (rx : bool -> (payload -> list bytes) -> bytes -> object -> object -> idx -> idx)
    (guard : N) (merge : bool) (newData : payload) (t : table) : table * (option object * werr) :=
  let revision := t_rev t + 1 in
  let idKey := p_id newData in
  let old := om_get idKey (t_primary t) in
  let obj := match merge, old with
             | true, Some o => mkO (merge_payload (o_data o) newData) revision
             | _, _ => mkO newData revision
             end in
  let proceed :=
    let oldobj := match old with Some o => o | None => noobj end in
    let revidx0 := match old with Some o => om_delete (rev_key (o_rev o)) (t_revidx t) | None => t_revidx t end in
    let '(grave, graverev) :=
      match old with
      | Some _ => (t_grave t, t_graverev t)
      | None => match om_get idKey (t_grave t) with
                | Some g => (om_delete idKey (t_grave t), om_delete (rev_key (o_rev g)) (t_graverev t))
                | None => (t_grave t, t_graverev t)
                end
      end in
    (mkT revision (om_insert idKey obj (t_primary t)) (om_insert (rev_key revision) obj revidx0)
         grave graverev
         (rx true p_u idKey oldobj obj (t_u t))
         (rx false p_n idKey oldobj obj (t_n t))
         (l_reindex true p_lu idKey oldobj obj (t_lu t))
         (l_reindex false p_ln idKey oldobj obj (t_ln t))
         (t_trackers t) (t_init t),
     (old, EOk)) in
  if 0 <? guard then
    match old with
    | None => (t, (None, ENotFound))
    | Some o => if o_rev o =? guard then proceed else (t, (Some o, ERevMismatch))
    end
  else proceed.
Definition modify := modify_with reindex.

(* write_txn.go delete (Delete / CompareAndDelete) *)
Definition delete_with (rx : bool -> (payload -> list bytes) -> bytes -> object -> object -> idx -> idx)
    (guard : N) (idKey : bytes) (t : table) : table * (option object * werr) :=
  match om_get idKey (t_primary t) with
  | None => (t, (None, EOk))
  | Some o =>
    if (0 <? guard) && negb (o_rev o =? guard) then (t, (Some o, ERevMismatch))
    else
      let revision := t_rev t + 1 in
      let dead := mkO (o_data o) revision in
      let has_trackers := match t_trackers t with [] => false | _ => true end in
      (mkT revision (om_delete idKey (t_primary t)) (om_delete (rev_key (o_rev o)) (t_revidx t))
           (if has_trackers then om_insert idKey dead (t_grave t) else t_grave t)
           (if has_trackers then om_insert (rev_key revision) dead (t_graverev t) else t_graverev t)
           (rx true p_u idKey o noobj (t_u t))
           (rx false p_n idKey o noobj (t_n t))
           (l_reindex true p_lu idKey o noobj (t_lu t))
           (l_reindex false p_ln idKey o noobj (t_ln t))
           (t_trackers t) (t_init t),
       (Some o, EOk))
  end.
Definition delete := delete_with reindex.

(* table.go DeleteAll: iterate a frozen All() and delete each *)
Definition delete_all (t : table) : table :=
  fold_left (fun t kv => fst (delete 0 (p_id (o_data (snd kv))) t)) (t_primary t) t.

(* ---- queries ---------------------------------------------------------------------------- *)
Inductive ikind := IPrimary | IRevision | IU | INn.
Definition index_of (k : ikind) (t : table) : idx :=
  match k with IPrimary => t_primary t | IRevision => t_revidx t | IU => t_u t | INn => t_n t end.
Definition is_unique (k : ikind) : bool := match k with INn => false | _ => true end.

Definition vals (m : idx) : list object := map snd m.

(* de-duplication on the encoded primary key (the `visited` set of the non-unique iterators) *)
Fixpoint dedup_primary (seen : list bytes) (l : list (bytes * object)) : list (bytes * object) :=
  match l with
  | [] => []
  | (k, o) :: r =>
    match encodedPrimary k with
    | Some ep => if existsb (bytes_eqb ep) seen then dedup_primary seen r
                 else (k, o) :: dedup_primary (ep :: seen) r
    | None => dedup_primary seen r   (* the code would panic; excluded by the K2 guard *)
    end
  end.

Definition zlen (s : bytes) : Z := Z.of_nat (length s).

(* part_index.go partGet *)
Definition q_get (k : ikind) (key : bytes) (t : table) : option object :=
  if is_unique k then om_get key (index_of k t)
  else let sk := enc key in
       match filter (fun kv => Z.eqb (secondaryLen (fst kv)) (zlen sk)) (om_prefix sk (index_of k t)) with
       | kv :: _ => Some (snd kv)
       | [] => None
       end.
(* part_index.go partList + nonUniquePartIterator (List) *)
Definition q_list (k : ikind) (key : bytes) (t : table) : list object :=
  if is_unique k then match om_get key (index_of k t) with Some o => [o] | None => [] end
  else let sk := enc key in
       vals (filter (fun kv => Z.eqb (secondaryLen (fst kv)) (zlen sk)) (om_prefix sk (index_of k t))).
(* partPrefix + nonUniquePartIterator (prefixSearch) *)
Definition q_prefix (k : ikind) (key : bytes) (t : table) : list object :=
  if is_unique k then vals (om_prefix key (index_of k t))
  else let sk := enc key in
       vals (dedup_primary [] (filter (fun kv => negb (Z.ltb (secondaryLen (fst kv)) (zlen sk)))
                                       (om_prefix sk (index_of k t)))).
(* partLowerBound + nonUniqueLowerBoundPartIterator *)
Definition q_lower_bound (k : ikind) (key : bytes) (t : table) : list object :=
  if is_unique k then vals (om_lower_bound key (index_of k t))
  else let sk := enc key in
       vals (dedup_primary [] (filter (fun kv => match encodedSecondary (fst kv) with
                                                 | Some es => negb (bytes_ltb es sk)
                                                 | None => false end)
                                       (om_lower_bound sk (index_of k t)))).
Definition q_all (t : table) : list object := vals (t_primary t).
Definition q_num (t : table) : N := N.of_nat (length (t_revidx t)).
Definition q_grave_num (t : table) : N := N.of_nat (length (t_grave t)).

(* table.go Initialized / PendingInitializers: (initialized, pending, watch: None = the static closed channel) *)
Definition q_init (t : table) : bool * list N * option N :=
  match t_init t with
  | Some (w, []) => (true, [], None)
  | Some (w, p) => (false, p, Some w)
  | None => (true, [], None)
  end.

(* ---- change iterators (iterator.go) ------------------------------------------------------ *)
Record iter := mkI {
  it_tab : nat; it_rev : N; it_delrev : N;
  it_pending : option (list (object * bool));   (* Some = it.iter <> nil: the rest of the merged stream; bool = deleted *)
  it_watchrev : N;                              (* table revision of the version whose revision-index root watch is held *)
  it_seq : bool                                 (* a sequence returned by Next is still held (suspended) by the consumer *)
}.

(* dualIterator.next over the two streams; deletes (left) win ties *)
Fixpoint merge_streams (fuel : nat) (dels upds : list object) : list (object * bool) :=
  match fuel with
  | O => []
  | S f =>
    match dels, upds with
    | [], [] => []
    | d :: dr, [] => (d, true) :: merge_streams f dr []
    | [], u :: ur => (u, false) :: merge_streams f [] ur
    | d :: dr, u :: ur => if o_rev d <=? o_rev u then (d, true) :: merge_streams f dr upds
                          else (u, false) :: merge_streams f dels ur
    end
  end.

(* changeIterator.refresh against the committed root entry `t` *)
Definition refresh (t : table) (it : iter) : iter :=
  let upds := vals (om_lower_bound (rev_key (it_rev it + 1)) (t_revidx t)) in
  let dels := vals (om_lower_bound (rev_key (it_delrev it + 1)) (t_graverev t)) in
  mkI (it_tab it) (it_rev it) (it_delrev it)
      (Some (merge_streams (length upds + length dels) dels upds)) (t_rev t) (it_seq it).

(* ---- the database, single goroutine ------------------------------------------------------- *)
Inductive gcphase := GIdle | GGate1 | GGate2 (keys : list (list bytes)).

Record db := mkD {
  d_root : list table;
  d_txn : option (list (table * bool) * list table);   (* entries with locked flag, oldRoot *)
  d_snaps : list (N * list table);
  d_iters : list (N * iter);
  d_wm : list (N * N);           (* tracker id -> dt.revision *)
  d_gcchan : bool; d_gc : gcphase;
  d_closedw : list N; d_nextw : N
}.
Definition init_db (ntab : nat) : db :=
  mkD (repeat empty_table ntab) None [] [] [] false GIdle [] 0.

Fixpoint upd_nth {A} (n : nat) (f : A -> A) (l : list A) : list A :=
  match l, n with
  | [], _ => []
  | x :: r, O => f x :: r
  | x :: r, S n' => x :: upd_nth n' f r
  end.
Fixpoint assoc {A} (k : N) (l : list (N * A)) : option A :=
  match l with [] => None | (k', v) :: r => if k =? k' then Some v else assoc k r end.
Definition assoc_set {A} (k : N) (v : A) (l : list (N * A)) : list (N * A) :=
  (k, v) :: filter (fun kv => negb (fst kv =? k)) l.

(* where a query / Next reads from *)
Inductive source := STxn | SSnap (id : N) | SFresh.
(* root() of the source *)
Definition src_root (d : db) (s : source) : option (list table) :=
  match s with
  | STxn => match d_txn d with Some (es, _) => Some (map fst es) | None => None end
  | SSnap id => assoc id (d_snaps d)
  | SFresh => Some (d_root d)
  end.
(* committedRoot() of the source *)
Definition src_committed (d : db) (s : source) : option (list table) :=
  match s with
  | STxn => match d_txn d with Some (_, old) => Some old | None => None end
  | SSnap id => assoc id (d_snaps d)
  | SFresh => Some (d_root d)
  end.

Inductive query :=
| QGet (k : ikind) (key : bytes) | QList (k : ikind) (key : bytes) | QPrefix (k : ikind) (key : bytes)
| QLowerBound (k : ikind) (key : bytes) | QAll | QNum | QRev | QGraveNum | QInit
| QLGet (unique : bool) (k : lkey) | QLList (unique : bool) (k : lkey)
| QLPrefix (unique : bool) (k : lkey) | QLLowerBound (unique : bool) (k : lkey).

Inductive out :=
| OutNone                                  (* op not applicable in this state (generator bug) *)
| OutUnit
| OutWrite (old : option object) (e : werr)
| OutErr (e : werr)
| OutObjs (l : list object)
| OutGet (o : option object)
| OutNum (n : N)
| OutInit (initialized : bool) (pending : list N) (watch_closed : bool)
| OutChanges (l : list (object * bool)) (watch_closed : bool)
| OutBool (b : bool)
| OutPanic.

Definition run_query (d : db) (tab : nat) (q : query) (t : table) : out :=
  match q with
  | QGet k key => OutGet (q_get k key t)
  | QList k key => OutObjs (q_list k key t)
  | QPrefix k key => OutObjs (q_prefix k key t)
  | QLowerBound k key => OutObjs (q_lower_bound k key t)
  | QAll => OutObjs (q_all t)
  | QNum => OutNum (q_num t)
  | QRev => OutNum (t_rev t)
  | QGraveNum => OutNum (q_grave_num t)
  (* Get/List through an LPM index are specified (C13) for full-length keys (16 bits in the harness' schema) *)
  | QLGet u k => if negb (Nat.eqb (length k) 16) then OutNone else
                 OutGet (match l_lookup k (if u then t_lu t else t_ln t) with
                         | Some ((_, o) :: _) => Some o | _ => None end)
  | QLList u k => if negb (Nat.eqb (length k) 16) then OutNone else
                  OutObjs (match l_lookup k (if u then t_lu t else t_ln t) with
                           | Some e => map snd e | None => [] end)
  | QLPrefix u k => OutObjs (l_objs (l_prefix k (if u then t_lu t else t_ln t)))
  | QLLowerBound u k => OutObjs (l_objs (l_lower_bound k (if u then t_lu t else t_ln t)))
  | QInit => let '(i, p, w) := q_init t in
             OutInit i p (match w with None => true | Some w => existsb (N.eqb w) (d_closedw d) end)
  end.

(* graveyard worker: receive from gcTrigger when idle *)
Definition gc_settle (d : db) : db :=
  match d_gc d, d_gcchan d with
  | GIdle, true => mkD (d_root d) (d_txn d) (d_snaps d) (d_iters d) (d_wm d) false GGate1 (d_closedw d) (d_nextw d)
  | _, _ => d
  end.
Definition gc_trigger (d : db) : db :=
  gc_settle (mkD (d_root d) (d_txn d) (d_snaps d) (d_iters d) (d_wm d) true (d_gc d) (d_closedw d) (d_nextw d)).

(* graveyard.go scan of one table: low watermark and dead keys *)
Definition gc_low (wm : list (N * N)) (t : table) : N :=
  fold_left (fun low id => match assoc id wm with Some r => N.min low r | None => low end) (t_trackers t) (t_rev t).
Fixpoint take_while_rev (low : N) (l : list (bytes * object)) : list bytes :=
  match l with
  | [] => []
  | (k, o) :: r => if low <? o_rev o then [] else k :: take_while_rev low r
  end.
Definition gc_scan_table (wm : list (N * N)) (t : table) : list bytes :=
  take_while_rev (gc_low wm t) (t_graverev t).
(* graveyard.go apply for one table *)
Definition gc_apply_table (keys : list bytes) (t : table) : table :=
  fold_left (fun t key =>
    match om_get key (t_graverev t) with
    | Some old => mkT (t_rev t) (t_primary t) (t_revidx t)
                      (om_delete (p_id (o_data old)) (t_grave t)) (om_delete key (t_graverev t))
                      (t_u t) (t_n t) (t_lu t) (t_ln t) (t_trackers t) (t_init t)
    | None => t
    end) keys t.

Fixpoint zip_with {A B C} (f : A -> B -> C) (l1 : list A) (l2 : list B) : list C :=
  match l1, l2 with a :: r1, b :: r2 => f a b :: zip_with f r1 r2 | _, _ => [] end.

Definition set_root (d : db) (r : list table) : db :=
  mkD r (d_txn d) (d_snaps d) (d_iters d) (d_wm d) (d_gcchan d) (d_gc d) (d_closedw d) (d_nextw d).
Definition set_txn (d : db) (x : option (list (table * bool) * list table)) : db :=
  mkD (d_root d) x (d_snaps d) (d_iters d) (d_wm d) (d_gcchan d) (d_gc d) (d_closedw d) (d_nextw d).
Definition set_iters (d : db) (x : list (N * iter)) : db :=
  mkD (d_root d) (d_txn d) (d_snaps d) x (d_wm d) (d_gcchan d) (d_gc d) (d_closedw d) (d_nextw d).
Definition set_wm (d : db) (x : list (N * N)) : db :=
  mkD (d_root d) (d_txn d) (d_snaps d) (d_iters d) x (d_gcchan d) (d_gc d) (d_closedw d) (d_nextw d).
Definition set_gc (d : db) (x : gcphase) : db :=
  mkD (d_root d) (d_txn d) (d_snaps d) (d_iters d) (d_wm d) (d_gcchan d) x (d_closedw d) (d_nextw d).
Definition set_snaps (d : db) (x : list (N * list table)) : db :=
  mkD (d_root d) (d_txn d) x (d_iters d) (d_wm d) (d_gcchan d) (d_gc d) (d_closedw d) (d_nextw d).

(* a write on table `tab` of the open transaction *)
Definition with_locked (d : db) (tab : nat) (f : table -> table * out) (closed_out notlocked_out : out) : db * out :=
  match d_txn d with
  | None => (d, closed_out)
  | Some (es, old) =>
    match nth_error es tab with
    | Some (t, true) => let '(t', o) := f t in
                        (set_txn d (Some (upd_nth tab (fun _ => (t', true)) es, old)), o)
    | Some (_, false) => (d, notlocked_out)
    | None => (d, OutNone)
    end
  end.

Inductive op :=
| OBegin (tabs : list nat)
| OInsert (tab : nat) (p : payload)
| OModify (tab : nat) (p : payload)
| OCas (tab : nat) (guard : N) (p : payload)
| ODelete (tab : nat) (id : bytes)
| OCad (tab : nat) (guard : N) (id : bytes)
| ODeleteAll (tab : nat)
| OCommit (sid : N)                 (* the ReadTxn returned by Commit is kept as snapshot sid *)
| OAbort
| OSnap (sid : N)
| OQuery (s : source) (tab : nat) (q : query)
| OChanges (iid : N) (tab : nat)
| ONext (iid : N) (s : source) (take : option nat)
| OResume (iid : N) (take : option nat)
| OClose (iid : N)
| OGcScan | OGcApply
| ORegInit (tab : nat) (name : N)
| OInitDone (tab : nat) (name : N).

(* consume `take` elements (None = run the loop to completion) of the iterator's pending stream *)
Fixpoint consume (take : option nat) (l : list (object * bool)) (it : iter) (d : db) (iid : N)
  : list (object * bool) * iter * db :=
  match l with
  | [] => ([], mkI (it_tab it) (it_rev it) (it_delrev it) None (it_watchrev it) false, d)   (* loop ended: it.iter = nil *)
  | (o, del) :: r =>
    let it1 := if del then mkI (it_tab it) (it_rev it) (o_rev o) (Some r) (it_watchrev it) true
               else mkI (it_tab it) (o_rev o) (it_delrev it) (Some r) (it_watchrev it) true in
    let d1 := if del then gc_trigger (set_wm d (assoc_set iid (o_rev o) (d_wm d))) else d in   (* dt.mark *)
    match take with
    | Some (S O) => ([(o, del)], it1, d1)                                  (* consumer breaks after this element *)
    | Some (S n) => let '(out, it2, d2) := consume (Some n) r it1 d1 iid in ((o, del) :: out, it2, d2)
    | Some O => ([], it, d)
    | None => let '(out, it2, d2) := consume None r it1 d1 iid in ((o, del) :: out, it2, d2)
    end
  end.

Definition wr (x : table * (option object * werr)) : table * out :=
  let '(t, (old, e)) := x in (t, OutWrite old e).

Definition step (d : db) (o : op) : db * out :=
  match o with
  | OBegin tabs =>
    match d_txn d with
    | Some _ => (d, OutNone)
    | None => let es := map (fun t => (t, false)) (d_root d) in
              let es' := fold_left (fun es i => upd_nth i (fun e => (fst e, true)) es) tabs es in
              (set_txn d (Some (es', d_root d)), OutUnit)
    end
  | OInsert tab p => with_locked d tab (fun t => wr (modify 0 false p t)) (OutWrite None EClosed) (OutWrite None ENotLocked)
  | OModify tab p => with_locked d tab (fun t => wr (modify 0 true p t)) (OutWrite None EClosed) (OutWrite None ENotLocked)
  | OCas tab g p => with_locked d tab (fun t => wr (modify g false p t)) (OutWrite None EClosed) (OutWrite None ENotLocked)
  | ODelete tab id => with_locked d tab (fun t => wr (delete 0 id t)) (OutWrite None EClosed) (OutWrite None ENotLocked)
  | OCad tab g id => with_locked d tab (fun t => wr (delete g id t)) (OutWrite None EClosed) (OutWrite None ENotLocked)
  | ODeleteAll tab =>
    (* DeleteAll iterates All() first: on an unlocked but empty table nothing is attempted *)
    match d_txn d with
    | Some (es, _) => match nth_error es tab with
                      | Some (t, false) => match t_primary t with
                                           | [] => (d, OutErr EOk)
                                           | _ => (d, OutErr ENotLocked) end
                      | _ => with_locked d tab (fun t => (delete_all t, OutErr EOk)) OutNone (OutErr ENotLocked)
                      end
    | None => (d, OutNone)
    end
  | OCommit sid =>
    match d_txn d with
    | None => (d, OutNone)
    | Some (es, _) =>
      (* write_txn.go Commit: locked entries replace the current root's; pending-empty init closes its watch *)
      let closing := flat_map (fun e => match e with
                                        | (t, true) => match t_init t with Some (w, []) => [w] | _ => [] end
                                        | _ => [] end) es in
      let fin (t : table) := match t_init t with
                             | Some (w, []) => mkT (t_rev t) (t_primary t) (t_revidx t) (t_grave t) (t_graverev t)
                                                   (t_u t) (t_n t) (t_lu t) (t_ln t) (t_trackers t) None
                             | _ => t end in
      let root := zip_with (fun e cur => match e with (t, true) => fin t | (_, false) => cur end) es (d_root d) in
      let d1 := mkD root None (assoc_set sid root (d_snaps d)) (d_iters d) (d_wm d) (d_gcchan d) (d_gc d)
                    (closing ++ d_closedw d) (d_nextw d) in
      (d1, OutUnit)
    end
  | OAbort => match d_txn d with None => (d, OutNone) | Some _ => (set_txn d None, OutUnit) end
  | OSnap sid => (set_snaps d (assoc_set sid (d_root d) (d_snaps d)), OutUnit)
  | OQuery s tab q =>
    match src_root d s with
    | Some r => match nth_error r tab with Some t => (d, run_query d tab q t) | None => (d, OutNone) end
    | None => (d, OutNone)
    end
  | OChanges iid tab =>
    (* table.go Changes: register the delete tracker in the transaction, watermark = the txn's table revision *)
    match d_txn d with
    | None => (d, OutErr EClosed)
    | Some (es, old) =>
      match nth_error es tab, nth_error old tab with
      | Some (t, true), Some told =>
        let t' := mkT (t_rev t) (t_primary t) (t_revidx t) (t_grave t) (t_graverev t) (t_u t) (t_n t) (t_lu t) (t_ln t)
                      (t_trackers t ++ [iid]) (t_init t) in
        let it := refresh told (mkI tab 0 (t_rev t) None 0 false) in
        let d1 := set_txn d (Some (upd_nth tab (fun _ => (t', true)) es, old)) in
        let d2 := set_wm d1 (assoc_set iid (t_rev t) (d_wm d1)) in
        (set_iters d2 (assoc_set iid it (d_iters d2)), OutErr EOk)
      | Some (_, false), _ => (d, OutErr ENotLocked)
      | _, _ => (d, OutNone)
      end
    end
  | ONext iid s take =>
    match assoc iid (d_iters d), src_committed d s with
    | Some it, Some r =>
      match nth_error r (it_tab it), nth_error (d_root d) (it_tab it) with
      | Some t, Some cur =>
        let idle := match it_pending it with
                    | None => N.eqb (t_rev cur) (it_watchrev it)    (* it.watch still open *)
                    | Some _ => false end in
        if idle then (d, OutChanges [] false)
        else let it0 := refresh t it in
             let it1 := mkI (it_tab it0) (it_rev it0) (it_delrev it0) (it_pending it0) (it_watchrev it0) true in
             let l := match it_pending it1 with Some l => l | None => [] end in
             let '(delivered, it2, d2) := consume take l it1 d iid in
             (set_iters d2 (assoc_set iid it2 (d_iters d2)), OutChanges delivered true)
      | _, _ => (d, OutNone)
      end
    | _, _ => (d, OutNone)
    end
  | OResume iid take =>
    match assoc iid (d_iters d) with
    | Some it =>
      match it_pending it, it_seq it with
      | Some l, true => let '(delivered, it2, d2) := consume take l it d iid in
                        (set_iters d2 (assoc_set iid it2 (d_iters d2)), OutChanges delivered true)
      | _, _ => (d, OutChanges [] true)      (* no suspended sequence / `if it.iter == nil { return }` *)
      end
    | None => (d, OutNone)
    end
  | OClose iid =>
    (* changeIterator.Close -> deleteTracker.close: own WriteTxn removing the tracker, Commit, trigger GC *)
    match assoc iid (d_iters d), d_txn d with
    | Some it, None =>
      let root := upd_nth (it_tab it) (fun t => mkT (t_rev t) (t_primary t) (t_revidx t) (t_grave t) (t_graverev t)
                                                   (t_u t) (t_n t) (t_lu t) (t_ln t) (filter (fun x => negb (x =? iid)) (t_trackers t)) (t_init t))
                          (d_root d) in
      let d1 := set_root d root in
      let d2 := set_iters d1 (filter (fun kv => negb (fst kv =? iid)) (d_iters d1)) in
      (gc_trigger d2, OutUnit)
    | _, _ => (d, OutNone)
    end
  | OGcScan =>
    match d_gc d with
    | GGate1 => (set_gc d (GGate2 (map (gc_scan_table (d_wm d)) (d_root d))), OutBool true)
    | _ => (d, OutBool false)
    end
  | OGcApply =>
    match d_gc d, d_txn d with
    | GGate2 keys, None =>
      let root := zip_with gc_apply_table keys (d_root d) in
      (gc_settle (set_gc (set_root d root) GIdle), OutBool true)
    | _, _ => (d, OutBool false)
    end
  | ORegInit tab name =>
    let '(d', o) := with_locked d tab (fun t =>
      match t_init t with
      | None => (mkT (t_rev t) (t_primary t) (t_revidx t) (t_grave t) (t_graverev t) (t_u t) (t_n t) (t_lu t) (t_ln t) (t_trackers t)
                     (Some (d_nextw d, [name])), OutUnit)
      | Some (w, p) => if existsb (N.eqb name) p then (t, OutPanic)
                       else (mkT (t_rev t) (t_primary t) (t_revidx t) (t_grave t) (t_graverev t) (t_u t) (t_n t) (t_lu t) (t_ln t) (t_trackers t)
                                 (Some (w, p ++ [name])), OutUnit)
      end) OutNone OutPanic in
    (mkD (d_root d') (d_txn d') (d_snaps d') (d_iters d') (d_wm d') (d_gcchan d') (d_gc d') (d_closedw d') (d_nextw d' + 1), o)
  | OInitDone tab name =>
    with_locked d tab (fun t =>
      match t_init t with
      | Some (w, p) => (mkT (t_rev t) (t_primary t) (t_revidx t) (t_grave t) (t_graverev t) (t_u t) (t_n t) (t_lu t) (t_ln t) (t_trackers t)
                            (Some (w, filter (fun n => negb (n =? name)) p)), OutUnit)
      | None => (t, OutUnit)
      end) OutNone OutPanic
  end.

Fixpoint run (d : db) (ops : list op) : db * list out :=
  match ops with
  | [] => (d, [])
  | o :: r => let '(d1, x) := step d o in let '(d2, xs) := run d1 r in (d2, x :: xs)
  end.
