(* Table/ChangesStream.v — the two revision-ordered streams a change iterator merges
   (iterator.go changeIterator.refresh, dualIterator.next): what LowerBound on the revision
   index / graveyard-revision index returns under the table invariant, and what the merge
   of the two streams is. *)
From SV Require Import Base.Bytes Base.OrdMap KeyEnc.Model KeyEnc.Proofs
                       Table.Model Table.InvDefs Table.Inv.
From Coq Require Import ZifyN ZifyNat ZifyBool Permutation.
Open Scope N_scope.
#[local] Opaque rev_key.

(* one more revision can be assigned without leaving uint64 (rev_key (r + 1) stays injective) *)
Definition rev_room (t : table) : Prop := t_rev t < 18446744073709551615.

Lemma rev_room_bound t : rev_room t -> rev_bound t.
Proof. unfold rev_room, rev_bound. lia. Qed.

(* strictly ascending list of revisions *)
Fixpoint asc (l : list N) : Prop :=
  match l with
  | [] => True
  | x :: r => Forall (N.lt x) r /\ asc r
  end.

Lemma asc_app l1 : forall l2, asc (l1 ++ l2) <->
  asc l1 /\ asc l2 /\ forall x y, In x l1 -> In y l2 -> x < y.
Proof.
  induction l1 as [|a l1 IH]; intros l2; simpl.
  - split; [intros H; repeat split; auto; intros x y []|tauto].
  - rewrite IH, Forall_app. split.
    + intros [[F1 F2] [A1 [A2 H]]]. repeat split; auto.
      intros x y [<-|Hx] Hy; [|auto]. rewrite Forall_forall in F2. auto.
    + intros [[F1 A1] [A2 H]]. repeat split; auto.
      apply Forall_forall. intros y Hy. apply H; auto.
Qed.

Lemma asc_NoDup l : asc l -> NoDup l.
Proof.
  induction l as [|x r IH]; simpl; [constructor|]. intros [F A]. constructor; auto.
  intros Hin. rewrite Forall_forall in F. specialize (F _ Hin). lia.
Qed.

(* ---- an index keyed by the revision of its objects -------------------------------------- *)
Definition revkeyed (m : idx) : Prop :=
  forall k o, In (k, o) m -> k = rev_key (o_rev o) /\ o_rev o < B64.

Lemma revkeyed_tail kv m : revkeyed (kv :: m) -> revkeyed m.
Proof. intros H k o Hin. apply H. now right. Qed.

Lemma revkeyed_asc m : om_sorted m -> revkeyed m -> asc (map o_rev (vals m)).
Proof.
  induction m as [|[k o] r IH]; simpl; auto. intros [Ha Hs] Hk. split.
  - apply Forall_forall. intros x Hx. unfold vals in Hx. rewrite map_map in Hx.
    apply in_map_iff in Hx. destruct Hx as [[k' o'] [<- Hin]]. simpl.
    destruct (Hk k o (or_introl eq_refl)) as [-> Hb].
    destruct (Hk k' o' (or_intror Hin)) as [-> Hb'].
    pose proof (om_above_in _ _ _ _ Ha Hin) as Hl. now apply rev_key_mono in Hl.
  - apply IH; auto. eapply revkeyed_tail; eauto.
Qed.

Lemma lower_bound_revkeyed k m : om_sorted m -> revkeyed m -> revkeyed (om_lower_bound k m).
Proof. intros Hs Hk k' o Hin. apply om_lower_bound_spec in Hin; auto. apply Hk. tauto. Qed.

(* LowerBound(rev_key r) on a revision-keyed index: exactly the entries with revision >= r,
   in strictly ascending revision order *)
Lemma rev_stream_spec m r : om_sorted m -> revkeyed m -> r < B64 ->
  asc (map o_rev (vals (om_lower_bound (rev_key r) m))) /\
  forall o, In o (vals (om_lower_bound (rev_key r) m)) <-> In (rev_key (o_rev o), o) m /\ r <= o_rev o.
Proof.
  intros Hs Hk Hr. split.
  - apply revkeyed_asc; [now apply om_lower_bound_sorted|now apply lower_bound_revkeyed].
  - intros o. unfold vals. rewrite in_map_iff. split.
    + intros [[k o'] [E Hin]]. simpl in E. subst o'. apply om_lower_bound_spec in Hin; auto.
      destruct Hin as [Hin Hl]. destruct (Hk _ _ Hin) as [-> Hb]. split; auto. simpl in Hl.
      destruct (N.lt_ge_cases (o_rev o) r) as [Hlt|]; auto.
      apply rev_key_mono in Hlt; auto. apply bytes_ltb_spec in Hlt. congruence.
    + intros [Hin Hle]. exists (rev_key (o_rev o), o). split; auto.
      apply om_lower_bound_spec; auto. split; auto. simpl.
      destruct (bytes_ltb (rev_key (o_rev o)) (rev_key r)) eqn:E; auto.
      apply bytes_ltb_spec in E. destruct (Hk _ _ Hin) as [_ Hb]. apply rev_key_mono in E; auto. lia.
Qed.

(* ---- the two streams of a table ----------------------------------------------------------- *)
Definition upd_stream (t : table) (r : N) : list object := vals (om_lower_bound (rev_key r) (t_revidx t)).
Definition del_stream (t : table) (r : N) : list object := vals (om_lower_bound (rev_key r) (t_graverev t)).

Section Streams.
Variable t : table.
Hypothesis HI : TInv t.
Hypothesis HB : rev_bound t.

Lemma revidx_revkeyed : revkeyed (t_revidx t).
Proof.
  intros k o Hin. apply (ti_revidx t HI) in Hin. destruct Hin as [-> Hl]. split; auto.
  pose proof (live_rev t HI _ Hl). unfold rev_bound, B64 in *. lia.
Qed.

Lemma graverev_revkeyed : revkeyed (t_graverev t).
Proof.
  intros k o Hin. apply (ti_graverev t HI) in Hin. destruct Hin as [-> Hl]. split; auto.
  pose proof (dead_rev t HI _ Hl). unfold rev_bound, B64 in *. lia.
Qed.

(* LowerBound(ByRevision(r)): exactly the live objects with revision >= r, strictly ascending *)
Theorem upd_stream_spec r : r < B64 ->
  asc (map o_rev (upd_stream t r)) /\ forall o, In o (upd_stream t r) <-> live t o /\ r <= o_rev o.
Proof.
  intros Hr. destruct (rev_stream_spec (t_revidx t) r (ti_sorted_revidx t HI) revidx_revkeyed Hr) as [H1 H2].
  split; auto. intros o. unfold upd_stream. rewrite H2, (ti_revidx t HI). tauto.
Qed.

(* deleteTracker.deleted(r): exactly the retained deleted objects with deletion revision >= r *)
Theorem del_stream_spec r : r < B64 ->
  asc (map o_rev (del_stream t r)) /\ forall o, In o (del_stream t r) <-> dead t o /\ r <= o_rev o.
Proof.
  intros Hr. destruct (rev_stream_spec (t_graverev t) r (ti_sorted_graverev t HI) graverev_revkeyed Hr) as [H1 H2].
  split; auto. intros o. unfold del_stream. rewrite H2, (ti_graverev t HI). tauto.
Qed.
End Streams.

(* ---- dualIterator: merge of the two streams ----------------------------------------------- *)
Definition crev (c : object * bool) : N := o_rev (fst c).
Definition tag (b : bool) (l : list object) : list (object * bool) := map (fun o => (o, b)) l.

Lemma merge_nil_r f : forall dels, (length dels <= f)%nat -> merge_streams f dels [] = tag true dels.
Proof.
  induction f as [|f IH]; intros [|d dr] H; simpl in *; auto; [lia|]. f_equal. apply IH. lia.
Qed.

Lemma merge_nil_l f : forall upds, (length upds <= f)%nat -> merge_streams f [] upds = tag false upds.
Proof.
  induction f as [|f IH]; intros [|d dr] H; simpl in *; auto; [lia|]. f_equal. apply IH. lia.
Qed.

Lemma in_tag o b b' l : In (o, b) (tag b' l) <-> b = b' /\ In o l.
Proof.
  unfold tag. rewrite in_map_iff. split.
  - intros [x [E H]]. injection E as -> ->. auto.
  - intros [-> H]. exists o; auto.
Qed.

(* with enough fuel the merge is a permutation of the tagged union *)
Lemma merge_perm f : forall dels upds, (length dels + length upds <= f)%nat ->
  Permutation (merge_streams f dels upds) (tag true dels ++ tag false upds).
Proof.
  induction f as [|f IH]; intros dels upds H.
  - destruct dels, upds; simpl in *; try lia. constructor.
  - destruct dels as [|d dr], upds as [|u ur]; cbn [merge_streams].
    + constructor.
    + simpl. constructor. rewrite merge_nil_l by (simpl in H; lia). reflexivity.
    + simpl. constructor. rewrite merge_nil_r by (simpl in H; lia). now rewrite app_nil_r.
    + destruct (o_rev d <=? o_rev u).
      * simpl. constructor. apply IH. simpl in *. lia.
      * etransitivity; [apply perm_skip; apply (IH (d :: dr) ur); simpl in *; lia|].
        simpl. change ((u, false) :: (d, true) :: tag true dr ++ tag false ur)
          with ((u, false) :: ((d, true) :: tag true dr) ++ tag false ur).
        apply Permutation_middle.
Qed.

Lemma merge_in f dels upds o b : (length dels + length upds <= f)%nat ->
  (In (o, b) (merge_streams f dels upds) <-> if b then In o dels else In o upds).
Proof.
  intros H. pose proof (merge_perm f dels upds H) as P. split.
  - intros Hin. apply (Permutation_in _ P) in Hin. apply in_app_iff in Hin.
    destruct Hin as [Hin|Hin]; apply in_tag in Hin; destruct Hin as [-> Hin]; auto.
  - intros Hin. apply (Permutation_in _ (Permutation_sym P)). apply in_app_iff.
    destruct b; [left|right]; apply in_tag; auto.
Qed.

Lemma asc_cons_inv x l : asc (x :: l) -> asc l /\ forall y, In y l -> x < y.
Proof. simpl. intros [F A]. split; auto. now rewrite Forall_forall in F. Qed.

(* two strictly ascending streams with disjoint revisions merge into a strictly ascending one *)
Lemma merge_asc f : forall dels upds, (length dels + length upds <= f)%nat ->
  asc (map o_rev dels) -> asc (map o_rev upds) ->
  (forall d u, In d dels -> In u upds -> o_rev d <> o_rev u) ->
  asc (map crev (merge_streams f dels upds)).
Proof.
  induction f as [|f IH]; intros dels upds H Ad Au Hx.
  - destruct dels, upds; simpl in *; try lia; auto.
  - assert (Hhd : forall (c : object * bool) dels' upds', (length dels' + length upds' <= f)%nat ->
              (forall o, In o dels' -> crev c < o_rev o) -> (forall o, In o upds' -> crev c < o_rev o) ->
              Forall (N.lt (crev c)) (map crev (merge_streams f dels' upds'))).
    { intros c dels' upds' Hl H1 H2. apply Forall_forall. intros x Hx'. apply in_map_iff in Hx'.
      destruct Hx' as [[o b] [<- Hin]]. apply merge_in in Hin; auto. unfold crev at 2. simpl.
      destruct b; auto. }
    destruct dels as [|d dr], upds as [|u ur]; cbn [merge_streams].
    + exact I.
    + simpl in Au, H. destruct Au as [Fu Au]. cbn [map asc]. split.
      * apply (Hhd (u, false)); [simpl; lia|intros o []|]. intros o Ho. rewrite Forall_forall in Fu.
        apply Fu. now apply in_map.
      * apply IH; [simpl; lia|exact I|exact Au|intros ? ? []].
    + simpl in Ad, H. destruct Ad as [Fd Ad]. cbn [map asc]. split.
      * apply (Hhd (d, true)); [simpl; lia| |intros o []]. intros o Ho. rewrite Forall_forall in Fd.
        apply Fd. now apply in_map.
      * apply IH; [simpl; lia|exact Ad|exact I|intros ? ? ? []].
    + pose proof Ad as Ad0. pose proof Au as Au0.
      simpl in Ad, Au, H. destruct Ad as [Fd Ad], Au as [Fu Au]. rewrite Forall_forall in Fd, Fu.
      assert (Hne : o_rev d <> o_rev u) by (apply Hx; now left).
      destruct (N.leb_spec (o_rev d) (o_rev u)) as [Hle|Hgt]; cbn [map asc]; split.
      * apply (Hhd (d, true)); [simpl; lia| |].
        -- intros o Ho. apply Fd. now apply in_map.
        -- intros o [<-|Ho]; unfold crev; simpl; [lia|].
           assert (o_rev u < o_rev o) by (apply Fu; now apply in_map). lia.
      * apply IH; auto; [simpl; lia|]. intros d' u' Hd' Hu'. apply Hx; auto. now right.
      * apply (Hhd (u, false)); [simpl; lia| |].
        -- intros o [<-|Ho]; unfold crev; simpl; [lia|].
           assert (o_rev d < o_rev o) by (apply Fd; now apply in_map). lia.
        -- intros o Ho. apply Fu. now apply in_map.
      * apply IH; auto; [simpl; lia|]. intros d' u' Hd' Hu'. apply Hx; auto. now right.
Qed.

(* ---- what refresh computes: the pending stream against a committed table --------------------- *)
(* l holds, strictly ascending, exactly the retained deletions above D and the live objects above R *)
Definition pend_spec (l : list (object * bool)) (G : table) (R D : N) : Prop :=
  asc (map crev l) /\
  forall o b, In (o, b) l <-> (if b then dead G o /\ D < o_rev o else live G o /\ R < o_rev o).

Theorem refresh_spec S it : TInv S -> rev_bound S ->
  it_rev it + 1 < B64 -> it_delrev it + 1 < B64 ->
  exists l, it_pending (refresh S it) = Some l /\ pend_spec l S (it_rev it) (it_delrev it) /\
    Permutation l (tag true (del_stream S (it_delrev it + 1)) ++ tag false (upd_stream S (it_rev it + 1))).
Proof.
  intros HI HB HR HD. unfold refresh. cbn [it_pending].
  fold (upd_stream S (it_rev it + 1)). fold (del_stream S (it_delrev it + 1)).
  destruct (upd_stream_spec S HI HB _ HR) as [Au Iu]. destruct (del_stream_spec S HI HB _ HD) as [Ad Id].
  set (upds := upd_stream S (it_rev it + 1)) in *. set (dels := del_stream S (it_delrev it + 1)) in *.
  assert (Hf : (length dels + length upds <= length upds + length dels)%nat) by lia.
  eexists. split; [reflexivity|]. split; [|now apply merge_perm]. split.
  - apply merge_asc; auto. intros d u Hd Hu. apply Id in Hd. apply Iu in Hu.
    intros E. apply (ti_rev_distinct_cross S HI u d); [tauto|tauto|now symmetry].
  - intros o b. rewrite merge_in by auto. destruct b; [rewrite Id|rewrite Iu]; split; intros [H1 H2]; split; auto; lia.
Qed.
