(* Table/AgreeLpm.v — LPM indexes (lpm_index.go model in Table/Model.v):
   A. the reindex step preserves agreement with the set of live objects
      (l_reindex_agree_n, l_reindex_agree_u', l_reindex_agree_u);
   B. Lookup / Prefix / LowerBound are exact on an index that agrees
      (l_lookup_exact, l_prefix_exact, l_lower_bound_exact). *)
From SV Require Import Base.Bytes Base.OrdMap KeyEnc.Model Table.Model Table.InvDefs Table.AgreeDefs.
From Coq Require Import Sorted ZifyN ZifyNat ZifyBool.
Open Scope N_scope.

(* ---- 1. the order on bit strings ------------------------------------------------------ *)
Lemma bits_eqb_spec a : forall b, bits_eqb a b = true <-> a = b.
Proof.
  induction a as [|x xs IH]; intros [|y ys]; cbn [bits_eqb];
    try (split; [discriminate|congruence]); [tauto|].
  rewrite andb_true_iff, Bool.eqb_true_iff, IH.
  split; [intros [-> ->]; reflexivity|intros H; injection H; auto].
Qed.

Lemma bits_eqb_refl a : bits_eqb a a = true.
Proof. now apply bits_eqb_spec. Qed.

Lemma bits_ltb_irrefl a : bits_ltb a a = false.
Proof. induction a as [|x xs IH]; cbn [bits_ltb]; auto. now rewrite Bool.eqb_reflx. Qed.

Lemma bits_ltb_trans a : forall b c, bits_ltb a b = true -> bits_ltb b c = true -> bits_ltb a c = true.
Proof.
  induction a as [|x xs IH]; intros [|y ys] [|z zs]; cbn [bits_ltb]; auto; try discriminate.
  destruct x, y, z; cbn [Bool.eqb negb]; auto; try discriminate; apply IH.
Qed.

Lemma bits_cmp_cases k : forall k',
  (bits_eqb k k' = true /\ k = k') \/
  (bits_eqb k k' = false /\ bits_ltb k k' = true) \/
  (bits_eqb k k' = false /\ bits_ltb k k' = false /\ bits_ltb k' k = true).
Proof.
  induction k as [|x xs IH]; intros [|y ys]; cbn [bits_eqb bits_ltb].
  - left; auto.
  - right; left; auto.
  - right; right; auto.
  - destruct (IH ys) as [[E ->]|[[E L]|[E [L L']]]]; destruct x, y; cbn [Bool.eqb negb andb];
      rewrite ?E, ?L, ?L', ?bits_ltb_irrefl;
      first [left; split; reflexivity
            |right; left; split; reflexivity
            |right; right; repeat split; reflexivity].
Qed.

Lemma bits_ltb_neq a b : bits_ltb a b = true -> a <> b.
Proof. intros H ->. rewrite bits_ltb_irrefl in H. discriminate. Qed.

Lemma bits_ltb_asym a b : bits_ltb a b = true -> bits_ltb b a = false.
Proof.
  intros H. destruct (bits_ltb b a) eqn:E; auto.
  pose proof (bits_ltb_trans _ _ _ H E) as T. rewrite bits_ltb_irrefl in T. discriminate.
Qed.

Lemma lkey_eq_dec (a b : lkey) : {a = b} + {a <> b}.
Proof. apply list_eq_dec. apply Bool.bool_dec. Qed.

Lemma bytes_eq_dec (a b : bytes) : {a = b} + {a <> b}.
Proof. apply list_eq_dec. apply N.eq_dec. Qed.

Lemma lks_exists_In ks k : lks_exists ks k = true <-> In k ks.
Proof.
  unfold lks_exists. rewrite existsb_exists. split.
  - intros [x [Hx E]]. apply bits_eqb_spec in E. now subst.
  - intros H. exists k. split; auto. apply bits_eqb_refl.
Qed.

(* ---- 2. l_get / l_insert / l_delete on sorted indexes (cf. Base/OrdMap.v) -------------- *)
Definition labove (k : lkey) (m : lidx) : Prop := Forall (fun ke => bits_ltb k (fst ke) = true) m.

Lemma labove_weaken k k' m : bits_ltb k k' = true -> labove k' m -> labove k m.
Proof.
  unfold labove. intros H. apply Forall_impl. intros a Ha. eapply bits_ltb_trans; eauto.
Qed.

Lemma labove_In k m k' e : labove k m -> In (k', e) m -> bits_ltb k k' = true.
Proof. unfold labove. rewrite Forall_forall. intros H Hi. exact (H _ Hi). Qed.

Lemma l_get_above k m : labove k m -> l_get k m = None.
Proof.
  destruct m as [|[k' e] r]; cbn [l_get]; auto. intros H. inversion H as [|x l Hx Hl]; subst.
  cbn [fst] in Hx.
  destruct (bits_cmp_cases k k') as [[E ->]|[[E L]|[E [L L']]]]; rewrite E.
  - rewrite bits_ltb_irrefl in Hx. discriminate.
  - now rewrite L.
  - congruence.
Qed.

Lemma labove_insert k0 k e m : bits_ltb k0 k = true -> labove k0 m -> labove k0 (l_insert k e m).
Proof.
  intros Hk. induction m as [|[k' e'] r IH]; cbn [l_insert]; intros H.
  - repeat constructor; auto.
  - inversion H as [|x l Hx Hl]; subst. destruct (bits_eqb k k'); [constructor; auto|].
    destruct (bits_ltb k k'); constructor; auto. now apply IH.
Qed.

Lemma l_insert_sorted k e m : lsorted m -> lsorted (l_insert k e m).
Proof.
  induction m as [|[k' e'] r IH]; cbn [l_insert lsorted]; intros H.
  - split; [constructor|exact I].
  - destruct H as [Ha Hs].
    destruct (bits_cmp_cases k k') as [[E ->]|[[E L]|[E [L L']]]]; rewrite E; try rewrite L; cbn [lsorted].
    + auto.
    + split; auto. constructor; auto. eapply labove_weaken; eauto.
    + split; auto. now apply labove_insert.
Qed.

Lemma labove_delete k0 k m : labove k0 m -> labove k0 (l_delete k m).
Proof.
  induction m as [|[k' e'] r IH]; cbn [l_delete]; intros H; auto.
  inversion H as [|x l Hx Hl]; subst.
  destruct (bits_eqb k k'); auto. destruct (bits_ltb k k'); constructor; auto. now apply IH.
Qed.

Lemma l_delete_sorted k m : lsorted m -> lsorted (l_delete k m).
Proof.
  induction m as [|[k' e'] r IH]; cbn [l_delete lsorted]; intros H; auto. destruct H as [Ha Hs].
  destruct (bits_eqb k k'); auto. destruct (bits_ltb k k'); cbn [lsorted]; auto.
  split; auto. now apply labove_delete.
Qed.

Lemma l_get_insert_same k e m : l_get k (l_insert k e m) = Some e.
Proof.
  induction m as [|[k' e'] r IH]; cbn [l_insert l_get].
  - now rewrite bits_eqb_refl.
  - destruct (bits_eqb k k') eqn:E; cbn [l_get]; [now rewrite bits_eqb_refl|].
    destruct (bits_ltb k k') eqn:L; cbn [l_get]; [now rewrite bits_eqb_refl|]. now rewrite E, L.
Qed.

Lemma l_get_insert_other k k2 e m : k2 <> k -> lsorted m -> l_get k2 (l_insert k e m) = l_get k2 m.
Proof.
  intros Hne. induction m as [|[k' e'] r IH]; cbn [l_insert l_get lsorted]; intros Hs.
  - destruct (bits_cmp_cases k2 k) as [[E ->]|[[E L]|[E [L _]]]]; try congruence; rewrite E, L; auto.
  - destruct Hs as [Ha Hs].
    destruct (bits_cmp_cases k k') as [[E ->]|[[E L]|[E [L L']]]]; rewrite E; try rewrite L; cbn [l_get].
    + destruct (bits_cmp_cases k2 k') as [[E2 ->]|[[E2 L2]|[E2 [L2 _]]]]; try congruence; rewrite E2, L2; auto.
    + destruct (bits_cmp_cases k2 k) as [[E2 ->]|[[E2 L2]|[E2 [L2 L2']]]]; try congruence; rewrite E2, L2; auto.
      * pose proof (bits_ltb_trans _ _ _ L2 L) as T.
        destruct (bits_cmp_cases k2 k') as [[E3 ->]|[[E3 L3]|[E3 [L3 _]]]]; rewrite E3; try rewrite L3; auto.
        -- rewrite bits_ltb_irrefl in T. discriminate.
        -- congruence.
    + destruct (bits_eqb k2 k'); auto. destruct (bits_ltb k2 k'); auto.
Qed.

Lemma l_get_delete_same k m : lsorted m -> l_get k (l_delete k m) = None.
Proof.
  induction m as [|[k' e'] r IH]; cbn [l_delete l_get lsorted]; intros Hs; auto. destruct Hs as [Ha Hs].
  destruct (bits_cmp_cases k k') as [[E ->]|[[E L]|[E [L L']]]]; rewrite E; try rewrite L; cbn [l_get].
  - now apply l_get_above.
  - now rewrite E, L.
  - rewrite E, L. auto.
Qed.

Lemma l_get_delete_other k k2 m : k2 <> k -> lsorted m -> l_get k2 (l_delete k m) = l_get k2 m.
Proof.
  intros Hne. induction m as [|[k' e'] r IH]; cbn [l_delete l_get lsorted]; intros Hs; auto.
  destruct Hs as [Ha Hs].
  destruct (bits_cmp_cases k k') as [[E ->]|[[E L]|[E [L L']]]]; rewrite E; try rewrite L; cbn [l_get]; auto.
  - destruct (bits_cmp_cases k2 k') as [[E2 ->]|[[E2 L2]|[E2 [L2 L2']]]]; try congruence; rewrite E2, L2; auto.
    apply l_get_above. eapply labove_weaken; eauto.
  - destruct (bits_eqb k2 k'); auto. destruct (bits_ltb k2 k'); auto.
Qed.

Lemma l_get_In k e m : lsorted m -> (In (k, e) m <-> l_get k m = Some e).
Proof.
  induction m as [|[k' e'] r IH]; cbn [l_get lsorted In]; intros Hs.
  - split; [tauto|discriminate].
  - destruct Hs as [Ha Hs].
    destruct (bits_cmp_cases k k') as [[E ->]|[[E L]|[E [L L']]]]; rewrite E; try rewrite L.
    + split.
      * intros [H|H]; [congruence|]. pose proof (labove_In _ _ _ _ Ha H) as T.
        rewrite bits_ltb_irrefl in T. discriminate.
      * intros H. left. congruence.
    + split; [|discriminate]. intros [H|H].
      * injection H as -> ->. rewrite bits_eqb_refl in E. discriminate.
      * pose proof (labove_In _ _ _ _ Ha H) as T. pose proof (bits_ltb_trans _ _ _ L T) as T2.
        rewrite bits_ltb_irrefl in T2. discriminate.
    + rewrite <- IH by auto. split; [|auto]. intros [H|H]; auto.
      injection H as -> ->. rewrite bits_eqb_refl in E. discriminate.
Qed.

(* the entry stored under k, [] if none *)
Definition l_ent (k : lkey) (m : lidx) : lentry := match l_get k m with Some e => e | None => [] end.

Lemma l_ent_insert_same k e m : l_ent k (l_insert k e m) = e.
Proof. unfold l_ent. now rewrite l_get_insert_same. Qed.
Lemma l_ent_insert_other k k2 e m : k2 <> k -> lsorted m -> l_ent k2 (l_insert k e m) = l_ent k2 m.
Proof. intros H Hs. unfold l_ent. now rewrite l_get_insert_other. Qed.
Lemma l_ent_delete_same k m : lsorted m -> l_ent k (l_delete k m) = [].
Proof. intros Hs. unfold l_ent. now rewrite l_get_delete_same. Qed.
Lemma l_ent_delete_other k k2 m : k2 <> k -> lsorted m -> l_ent k2 (l_delete k m) = l_ent k2 m.
Proof. intros H Hs. unfold l_ent. now rewrite l_get_delete_other. Qed.

(* ---- 3. entries: e_upsert is om_insert, e_delete a filter ------------------------------ *)
Lemma e_upsert_om pk o e : e_upsert pk o e = om_insert pk o e.
Proof.
  induction e as [|[pk' o'] r IH]; cbn [e_upsert om_insert]; [reflexivity|].
  destruct (bytes_eqb pk pk'); [reflexivity|]. destruct (bytes_ltb pk pk'); [reflexivity|]. now rewrite IH.
Qed.

Lemma esorted_om e : esorted e <-> om_sorted e.
Proof.
  induction e as [|[pk o] r IH]; cbn [esorted om_sorted]; [tauto|].
  rewrite IH. unfold om_above. rewrite !Forall_forall.
  split; intros [H1 H2]; split; auto; intros x Hx; apply bytes_ltb_spec; auto.
Qed.

Lemma om_get_In {V} (k : bytes) (v : V) m : om_sorted m -> (In (k, v) m <-> om_get k m = Some v).
Proof.
  induction m as [|[k' v'] r IH]; cbn [om_get om_sorted In]; intros Hs.
  - split; [tauto|discriminate].
  - destruct Hs as [Ha Hs]. unfold om_above in Ha. rewrite Forall_forall in Ha.
    destruct (bytes_cmp_cases k k') as [[E ->]|[[E [L Hl]]|[E [L Hl]]]]; rewrite E; try rewrite L.
    + split.
      * intros [H|H]; [congruence|]. apply Ha in H. cbn [fst] in H. now apply lex_lt_irrefl in H.
      * intros H. left. congruence.
    + split; [|discriminate]. intros [H|H].
      * injection H as -> ->. now apply lex_lt_irrefl in Hl.
      * apply Ha in H. cbn [fst] in H. exfalso. eapply lex_lt_asym; eauto.
    + rewrite <- IH by auto. split; [|auto]. intros [H|H]; auto.
      injection H as -> ->. now apply lex_lt_irrefl in Hl.
Qed.

Lemma e_upsert_In pk o e pk' o' : esorted e ->
  (In (pk', o') (e_upsert pk o e) <-> (pk' = pk /\ o' = o) \/ (In (pk', o') e /\ pk' <> pk)).
Proof.
  intros Hs. apply esorted_om in Hs. rewrite e_upsert_om.
  rewrite om_get_In by now apply om_insert_sorted.
  destruct (bytes_eq_dec pk' pk) as [->|Hne].
  - rewrite om_get_insert_same. split.
    + intros H. left. split; congruence.
    + intros [[_ ->]|[_ H]]; [reflexivity|congruence].
  - rewrite om_get_insert_other by auto. rewrite <- om_get_In by auto. tauto.
Qed.

Lemma e_upsert_sorted pk o e : esorted e -> esorted (e_upsert pk o e).
Proof. intros Hs. rewrite e_upsert_om. apply esorted_om. apply om_insert_sorted. now apply esorted_om. Qed.

Lemma e_upsert_nonempty pk o e : e_upsert pk o e <> [].
Proof.
  destruct e as [|[pk' o'] r]; cbn [e_upsert]; [discriminate|].
  destruct (bytes_eqb pk pk'); [discriminate|]. destruct (bytes_ltb pk pk'); discriminate.
Qed.

Lemma esorted_filter f e : esorted e -> esorted (filter f e).
Proof.
  induction e as [|[pk o] r IH]; cbn [esorted filter]; auto. intros [Ha Hs].
  destruct (f (pk, o)); cbn [esorted]; auto. split; auto.
  rewrite Forall_forall in *. intros x Hx. apply filter_In in Hx. now apply Ha.
Qed.

Lemma e_delete_In pk e pk' o' : In (pk', o') (e_delete pk e) <-> In (pk', o') e /\ pk' <> pk.
Proof.
  unfold e_delete. rewrite filter_In. cbn [fst]. rewrite negb_true_iff.
  split; intros [H1 H2]; split; auto.
  - intros ->. rewrite bytes_eqb_refl in H2. discriminate.
  - destruct (bytes_eqb pk pk') eqn:E; auto. apply bytes_eqb_spec in E. congruence.
Qed.

Lemma esorted_fun e pk o1 o2 : esorted e -> In (pk, o1) e -> In (pk, o2) e -> o1 = o2.
Proof.
  intros Hs H1 H2. apply esorted_om in Hs.
  apply (om_get_In pk o1 e Hs) in H1. apply (om_get_In pk o2 e Hs) in H2. congruence.
Qed.

Lemma e_exists_In pk e : existsb (fun x : bytes * object => bytes_eqb pk (fst x)) e = true <-> exists o, In (pk, o) e.
Proof.
  rewrite existsb_exists. split.
  - intros [[pk' o] [Hi E]]. cbn [fst] in E. apply bytes_eqb_spec in E. subst. now exists o.
  - intros [o Hi]. exists (pk, o). split; auto. apply bytes_eqb_refl.
Qed.

(* ---- 4. the relation stored by an index; well-formed indexes ---------------------------- *)
Definition lrel (m : lidx) (k : lkey) (pk : bytes) (o : object) : Prop :=
  exists e, In (k, e) m /\ In (pk, o) e.
Definition LWf (m : lidx) : Prop :=
  lsorted m /\ forall k e, In (k, e) m -> e <> [] /\ esorted e.

Lemma l_agree_on_LWf L keys m :
  l_agree_on L keys m <->
  (LWf m /\ forall k pk o, lrel m k pk o <-> (In k (keys (o_data o)) /\ pk = p_id (o_data o) /\ L o)).
Proof. unfold l_agree_on, LWf, lrel. tauto. Qed.

Lemma lrel_ent m k pk o : lsorted m -> (lrel m k pk o <-> In (pk, o) (l_ent k m)).
Proof.
  intros Hs. unfold lrel, l_ent. split.
  - intros [e [H1 H2]]. apply l_get_In in H1; auto. now rewrite H1.
  - destruct (l_get k m) as [e|] eqn:G; [|intros []]. intros H. exists e. split; auto. now apply l_get_In.
Qed.

Lemma LWf_ent m k : LWf m -> esorted (l_ent k m).
Proof.
  intros [Hs He]. unfold l_ent. destruct (l_get k m) as [e|] eqn:G; [|exact I].
  apply l_get_In in G; auto. now apply He in G.
Qed.

Lemma LWf_insert k e m : LWf m -> e <> [] -> esorted e -> LWf (l_insert k e m).
Proof.
  intros [Hs He] Hn Hes. split; [now apply l_insert_sorted|].
  intros k' e' Hi. apply l_get_In in Hi; [|now apply l_insert_sorted].
  destruct (lkey_eq_dec k' k) as [->|Hne].
  - rewrite l_get_insert_same in Hi. injection Hi as <-. auto.
  - rewrite l_get_insert_other in Hi by auto. apply l_get_In in Hi; eauto.
Qed.

Lemma LWf_delete k m : LWf m -> LWf (l_delete k m).
Proof.
  intros [Hs He]. split; [now apply l_delete_sorted|].
  intros k' e' Hi. apply l_get_In in Hi; [|now apply l_delete_sorted].
  destruct (lkey_eq_dec k' k) as [->|Hne].
  - rewrite l_get_delete_same in Hi by auto. discriminate.
  - rewrite l_get_delete_other in Hi by auto. apply l_get_In in Hi; eauto.
Qed.

(* insertKey, non-unique: upsert into the entry under k *)
Lemma ik_n pk k o m : LWf m ->
  LWf (l_insert_key false pk k o m) /\
  forall k' pk' o', lrel (l_insert_key false pk k o m) k' pk' o' <->
     (k' = k /\ pk' = pk /\ o' = o) \/ (lrel m k' pk' o' /\ ~ (k' = k /\ pk' = pk)).
Proof.
  intros Hw. pose proof (LWf_ent m k Hw) as He. unfold l_insert_key. fold (l_ent k m).
  assert (Hw' : LWf (l_insert k (e_upsert pk o (l_ent k m)) m)).
  { apply LWf_insert; auto; [apply e_upsert_nonempty|now apply e_upsert_sorted]. }
  split; auto. intros k' pk' o'. destruct Hw as [Hs _]. destruct Hw' as [Hs' _].
  rewrite !lrel_ent by auto.
  destruct (lkey_eq_dec k' k) as [->|Hne].
  - rewrite l_ent_insert_same. rewrite e_upsert_In by auto. tauto.
  - rewrite l_ent_insert_other by auto. tauto.
Qed.

(* insertKey, unique: the entry under k is replaced *)
Lemma ik_u pk k o m : LWf m ->
  LWf (l_insert_key true pk k o m) /\
  forall k' pk' o', lrel (l_insert_key true pk k o m) k' pk' o' <->
     (k' = k /\ pk' = pk /\ o' = o) \/ (lrel m k' pk' o' /\ k' <> k).
Proof.
  intros Hw. unfold l_insert_key.
  assert (Hw' : LWf (l_insert k [(pk, o)] m)).
  { apply LWf_insert; auto; [discriminate|]. cbn [esorted]. split; [constructor|exact I]. }
  split; auto. intros k' pk' o'. destruct Hw as [Hs _]. destruct Hw' as [Hs' _].
  rewrite !lrel_ent by auto.
  destruct (lkey_eq_dec k' k) as [->|Hne].
  - rewrite l_ent_insert_same. cbn [In]. split.
    + intros [H|[]]. left. injection H as -> ->. auto.
    + intros [[_ [-> ->]]|[_ H]]; [auto|congruence].
  - rewrite l_ent_insert_other by auto. tauto.
Qed.

(* removeKey *)
Definition rk_spec (pk : bytes) (k : lkey) (m m' : lidx) : Prop :=
  LWf m' /\
  forall k' pk' o', lrel m' k' pk' o' <-> lrel m k' pk' o' /\ ~ (k' = k /\ pk' = pk).

Lemma rk_same pk k m : LWf m -> (forall o', ~ In (pk, o') (l_ent k m)) -> rk_spec pk k m m.
Proof.
  intros Hw Hn. split; auto. intros k' pk' o'. split; [|tauto]. intros H. split; auto.
  intros [-> ->]. apply lrel_ent in H; [|apply Hw]. exact (Hn _ H).
Qed.

Lemma rk_delete pk k m : LWf m -> (forall pk' o', In (pk', o') (l_ent k m) -> pk' = pk) ->
  rk_spec pk k m (l_delete k m).
Proof.
  intros Hw Ha. pose proof (LWf_delete k m Hw) as Hw'. split; auto.
  intros k' pk' o'. destruct Hw as [Hs _]. destruct Hw' as [Hs' _]. rewrite !lrel_ent by auto.
  destruct (lkey_eq_dec k' k) as [->|Hne].
  - rewrite l_ent_delete_same by auto. cbn [In]. split; [tauto|]. intros [H Hn]. apply Hn. split; auto.
    eapply Ha; eauto.
  - rewrite l_ent_delete_other by auto. tauto.
Qed.

Lemma rk_replace pk k m : LWf m -> e_delete pk (l_ent k m) <> [] ->
  rk_spec pk k m (l_insert k (e_delete pk (l_ent k m)) m).
Proof.
  intros Hw Hn. pose proof (LWf_ent m k Hw) as He.
  assert (Hw' : LWf (l_insert k (e_delete pk (l_ent k m)) m)).
  { apply LWf_insert; auto. unfold e_delete. now apply esorted_filter. }
  split; auto. intros k' pk' o'. destruct Hw as [Hs _]. destruct Hw' as [Hs' _]. rewrite !lrel_ent by auto.
  destruct (lkey_eq_dec k' k) as [->|Hne].
  - rewrite l_ent_insert_same. rewrite e_delete_In. tauto.
  - rewrite l_ent_insert_other by auto. tauto.
Qed.

Lemma rk_general pk k m e : LWf m -> l_ent k m = e ->
  rk_spec pk k m
    (if existsb (fun x : bytes * object => bytes_eqb pk (fst x)) e
     then match e_delete pk e with [] => l_delete k m | e' => l_insert k e' m end
     else m).
Proof.
  intros Hw <-. destruct (existsb _ (l_ent k m)) eqn:X.
  - destruct (e_delete pk (l_ent k m)) as [|x r] eqn:D.
    + apply rk_delete; auto. intros pk' o' Hi. destruct (bytes_eq_dec pk' pk) as [|Hne]; auto.
      assert (Hd : In (pk', o') (e_delete pk (l_ent k m))) by (apply e_delete_In; auto).
      rewrite D in Hd. destruct Hd.
    + rewrite <- D. apply rk_replace; auto. rewrite D. discriminate.
  - apply rk_same; auto. intros o' Hi.
    assert (Hx : existsb (fun x : bytes * object => bytes_eqb pk (fst x)) (l_ent k m) = true)
      by (apply e_exists_In; eauto).
    congruence.
Qed.

Lemma rk pk k m : LWf m -> rk_spec pk k m (l_remove_key pk k m).
Proof.
  intros Hw. unfold l_remove_key. destruct (l_get k m) as [e|] eqn:G.
  - assert (He : l_ent k m = e) by (unfold l_ent; now rewrite G).
    destruct e as [|[pk0 o0] [|x r]].
    + exact (rk_general pk k m [] Hw He).
    + destruct (bytes_eqb pk0 pk) eqn:E.
      * apply bytes_eqb_spec in E. subst pk0. apply rk_delete; auto. rewrite He.
        intros pk' o' [H|[]]. congruence.
      * apply rk_same; auto. rewrite He. intros o' [H|[]]. injection H as -> _.
        rewrite bytes_eqb_refl in E. discriminate.
    + exact (rk_general pk k m _ Hw He).
  - apply rk_same; auto. unfold l_ent. rewrite G. intros o' [].
Qed.

(* ---- 5. the two folds of l_reindex ------------------------------------------------------ *)
Lemma fold_ik_n pk o ks : forall m, LWf m ->
  LWf (fold_left (fun m k => l_insert_key false pk k o m) ks m) /\
  forall k' pk' o', lrel (fold_left (fun m k => l_insert_key false pk k o m) ks m) k' pk' o' <->
    (In k' ks /\ pk' = pk /\ o' = o) \/ (lrel m k' pk' o' /\ ~ (In k' ks /\ pk' = pk)).
Proof.
  induction ks as [|k ks IH]; intros m Hw; cbn [fold_left In].
  - split; auto. intros; tauto.
  - destruct (ik_n pk k o m Hw) as [Hw1 H1]. destruct (IH _ Hw1) as [Hw2 H2]. split; auto.
    intros k' pk' o'. rewrite H2, H1.
    assert (Hsym : k = k' <-> k' = k) by (split; congruence). rewrite Hsym.
    destruct (in_dec lkey_eq_dec k' ks); destruct (lkey_eq_dec k' k); destruct (bytes_eq_dec pk' pk); tauto.
Qed.

Lemma fold_ik_u pk o ks : forall m, LWf m ->
  LWf (fold_left (fun m k => l_insert_key true pk k o m) ks m) /\
  forall k' pk' o', lrel (fold_left (fun m k => l_insert_key true pk k o m) ks m) k' pk' o' <->
    (In k' ks /\ pk' = pk /\ o' = o) \/ (lrel m k' pk' o' /\ ~ In k' ks).
Proof.
  induction ks as [|k ks IH]; intros m Hw; cbn [fold_left In].
  - split; auto. intros; tauto.
  - destruct (ik_u pk k o m Hw) as [Hw1 H1]. destruct (IH _ Hw1) as [Hw2 H2]. split; auto.
    intros k' pk' o'. rewrite H2, H1.
    assert (Hsym : k = k' <-> k' = k) by (split; congruence). rewrite Hsym.
    destruct (in_dec lkey_eq_dec k' ks); destruct (lkey_eq_dec k' k); tauto.
Qed.

Lemma fold_rk pk nk ks : forall m, LWf m ->
  LWf (fold_left (fun m k => if lks_exists nk k then m else l_remove_key pk k m) ks m) /\
  forall k' pk' o',
    lrel (fold_left (fun m k => if lks_exists nk k then m else l_remove_key pk k m) ks m) k' pk' o' <->
    lrel m k' pk' o' /\ ~ (In k' ks /\ ~ In k' nk /\ pk' = pk).
Proof.
  induction ks as [|k ks IH]; intros m Hw; cbn [fold_left In].
  - split; auto. intros; tauto.
  - assert (Hsym : forall k', k = k' <-> k' = k) by (intros; split; congruence).
    destruct (lks_exists nk k) eqn:X.
    + apply lks_exists_In in X. destruct (IH _ Hw) as [Hw2 H2]. split; auto.
      intros k' pk' o'. rewrite H2, Hsym. split; intros [H Hn]; split; auto.
      * intros [[->|Hi] [Hnk Hp]]; tauto.
      * tauto.
    + assert (Hnk : ~ In k nk) by (intros Hi; apply lks_exists_In in Hi; congruence).
      destruct (rk pk k m Hw) as [Hw1 H1]. destruct (IH _ Hw1) as [Hw2 H2]. split; auto.
      intros k' pk' o'. rewrite H2, H1, Hsym.
      destruct (lkey_eq_dec k' k) as [->|Hne]; tauto.
Qed.

(* ---- 6. A: the reindex step preserves agreement ----------------------------------------- *)
Theorem l_reindex_agree_n L L' keys idKey old new m :
  step_ok L L' idKey old new -> l_agree_on L keys m ->
  l_agree_on L' keys (l_reindex false keys idKey old new m).
Proof.
  intros [So Sonly Sn Sl] Ha. apply l_agree_on_LWf in Ha. destruct Ha as [Hw Hr]. apply l_agree_on_LWf.
  unfold l_reindex.
  set (nk := if o_rev new =? 0 then [] else keys (o_data new)).
  assert (Hnk : forall k, In k nk <-> (o_rev new <> 0 /\ In k (keys (o_data new)))).
  { intros k. subst nk. destruct (N.eqb_spec (o_rev new) 0) as [E|E]; cbn [In]; tauto. }
  clearbody nk.
  destruct (fold_ik_n idKey new nk m Hw) as [Hw1 H1].
  destruct (N.eqb_spec (o_rev old) 0) as [Eo|Eo].
  - split; auto. intros k pk o. rewrite H1, Hr, Sl. split.
    + intros [[Hi [-> ->]]|[[Hk [-> Hl]] Hno]].
      * apply Hnk in Hi. destruct Hi as [Hn Hk]. split; auto. split; [symmetry; auto|]. left; auto.
      * split; auto. split; auto. right. split; auto. intros Hid. destruct (Sonly _ Hl Hid). tauto.
    + intros [Hk [-> [[Hn ->]|[Hl Hid]]]].
      * left. split; [apply Hnk; auto|]. split; auto.
      * right. split; auto. intros [_ Hp]. auto.
  - destruct (fold_rk idKey nk (keys (o_data old)) _ Hw1) as [Hw2 H2]. split; auto.
    destruct (So Eo) as [Lold Pold].
    intros k pk o. rewrite H2, H1, Hr, Sl. split.
    + intros [[[Hi [-> ->]]|[[Hk [-> Hl]] Hno]] Hrm].
      * apply Hnk in Hi. destruct Hi as [Hn Hk]. split; auto. split; [symmetry; auto|]. left; auto.
      * split; auto. split; auto. right. split; auto. intros Hid.
        destruct (Sonly _ Hl Hid) as [_ ->].
        destruct (in_dec lkey_eq_dec k nk) as [Hi|Hi]; [apply Hno|apply Hrm]; auto.
    + intros [Hk [-> [[Hn ->]|[Hl Hid]]]].
      * assert (Hi : In k nk) by (apply Hnk; auto). split; [|tauto].
        left. split; auto.
      * split; [|tauto]. right. split; auto. tauto.
Qed.

Theorem l_reindex_agree_u' L L' keys idKey old new m :
  step_ok L L' idKey old new ->
  (o_rev new <> 0 -> forall o k, L' o -> In k (keys (o_data new)) -> In k (keys (o_data o)) -> o = new) ->
  l_agree_on L keys m -> l_agree_on L' keys (l_reindex true keys idKey old new m).
Proof.
  intros [So Sonly Sn Sl] Hu Ha. apply l_agree_on_LWf in Ha. destruct Ha as [Hw Hr]. apply l_agree_on_LWf.
  unfold l_reindex.
  set (nk := if o_rev new =? 0 then [] else keys (o_data new)).
  assert (Hnk : forall k, In k nk <-> (o_rev new <> 0 /\ In k (keys (o_data new)))).
  { intros k. subst nk. destruct (N.eqb_spec (o_rev new) 0) as [E|E]; cbn [In]; tauto. }
  clearbody nk.
  (* keys of the new object are not keys of the other objects that stay *)
  assert (Hfresh : forall k o, In k nk -> L o -> p_id (o_data o) <> idKey -> ~ In k (keys (o_data o))).
  { intros k o Hi Hl Hid Hk. apply Hnk in Hi. destruct Hi as [Hn Hkn].
    assert (o = new) by (apply (Hu Hn o k); auto; apply Sl; auto). subst o. auto. }
  destruct (fold_ik_u idKey new nk m Hw) as [Hw1 H1].
  destruct (N.eqb_spec (o_rev old) 0) as [Eo|Eo].
  - split; auto. intros k pk o. rewrite H1, Hr, Sl. split.
    + intros [[Hi [-> ->]]|[[Hk [-> Hl]] Hno]].
      * apply Hnk in Hi. destruct Hi as [Hn Hk]. split; auto. split; [symmetry; auto|]. left; auto.
      * split; auto. split; auto. right. split; auto. intros Hid. destruct (Sonly _ Hl Hid). tauto.
    + intros [Hk [-> [[Hn ->]|[Hl Hid]]]].
      * left. split; [apply Hnk; auto|]. split; auto.
      * right. split; auto. intros Hi. exact (Hfresh _ _ Hi Hl Hid Hk).
  - destruct (fold_rk idKey nk (keys (o_data old)) _ Hw1) as [Hw2 H2]. split; auto.
    destruct (So Eo) as [Lold Pold].
    intros k pk o. rewrite H2, H1, Hr, Sl. split.
    + intros [[[Hi [-> ->]]|[[Hk [-> Hl]] Hno]] Hrm].
      * apply Hnk in Hi. destruct Hi as [Hn Hk]. split; auto. split; [symmetry; auto|]. left; auto.
      * split; auto. split; auto. right. split; auto. intros Hid.
        destruct (Sonly _ Hl Hid) as [_ ->]. apply Hrm; auto.
    + intros [Hk [-> [[Hn ->]|[Hl Hid]]]].
      * assert (Hi : In k nk) by (apply Hnk; auto). split; [|tauto].
        left. split; auto.
      * split; [|tauto]. right. split; auto. intros Hi. exact (Hfresh _ _ Hi Hl Hid Hk).
Qed.

Theorem l_reindex_agree_u L L' keys idKey old new m :
  step_ok L L' idKey old new -> wf_on L' keys -> l_agree_on L keys m ->
  l_agree_on L' keys (l_reindex true keys idKey old new m).
Proof.
  intros Hs Hwf. apply l_reindex_agree_u'; auto.
  intros Hn o k Hl Hk1 Hk2. apply (Hwf o new k); auto. apply (so_live _ _ _ _ _ Hs). auto.
Qed.

(* ---- 7. B: query exactness ---------------------------------------------------------------- *)
Definition by_pk (a b : object) : Prop := lex_lt (p_id (o_data a)) (p_id (o_data b)).

Lemma bits_prefix_len a : forall b q,
  bits_prefix a q = true -> bits_prefix b q = true -> bits_ltb a b = true -> (length a <= length b)%nat.
Proof.
  induction a as [|x xs IH]; intros [|y ys] [|z zs]; cbn [bits_prefix bits_ltb length];
    try discriminate; try lia.
  rewrite !andb_true_iff, !Bool.eqb_true_iff. intros [-> H1] [-> H2]. rewrite Bool.eqb_reflx.
  intros H3. specialize (IH _ _ H1 H2 H3). lia.
Qed.

(* the fold of l_lookup returns the last stored prefix of q *)
Lemma l_lookup_fold q m : lsorted m -> forall acc,
  match fold_left (fun best (ke : lkey * lentry) => if bits_prefix (fst ke) q then Some (snd ke) else best) m acc with
  | Some e =>
      (exists k, In (k, e) m /\ bits_prefix k q = true /\
         forall k' e', In (k', e') m -> bits_prefix k' q = true -> k' = k \/ bits_ltb k' k = true) \/
      (acc = Some e /\ forall k' e', In (k', e') m -> bits_prefix k' q = false)
  | None => acc = None /\ forall k' e', In (k', e') m -> bits_prefix k' q = false
  end.
Proof.
  induction m as [|[k0 e0] r IH]; cbn [fold_left lsorted]; intros Hs acc.
  - destruct acc as [e|]; [right|]; split; auto; intros k' e' [].
  - destruct Hs as [Ha Hs]. cbn [fst snd]. specialize (IH Hs).
    destruct (bits_prefix k0 q) eqn:P.
    + specialize (IH (Some e0)).
      destruct (fold_left _ r (Some e0)) as [e|]; [|destruct IH; discriminate].
      left. destruct IH as [[k [Hi [Hp Hmax]]]|[He Hnone]].
      * exists k. split; [right; auto|]. split; auto. intros k' e' [H|H] Hp'.
        -- injection H as <- <-. right. eapply labove_In; eauto.
        -- eauto.
      * injection He as <-. exists k0. split; [left; auto|]. split; auto. intros k' e' [H|H] Hp'.
        -- injection H as <- <-. auto.
        -- rewrite (Hnone _ _ H) in Hp'. discriminate.
    + specialize (IH acc). destruct (fold_left _ r acc) as [e|].
      * destruct IH as [[k [Hi [Hp Hmax]]]|[He Hnone]].
        -- left. exists k. split; [right; auto|]. split; auto. intros k' e' [H|H] Hp'.
           ++ injection H as <- <-. congruence.
           ++ eauto.
        -- right. split; auto. intros k' e' [H|H]; [injection H as <- <-; auto|eauto].
      * destruct IH as [He Hnone]. split; auto. intros k' e' [H|H]; [injection H as <- <-; auto|eauto].
Qed.

Lemma esorted_by_pk e : esorted e -> (forall pk o, In (pk, o) e -> pk = p_id (o_data o)) ->
  StronglySorted by_pk (map snd e).
Proof.
  induction e as [|[pk o] r IH]; cbn [esorted map snd]; intros Hs Hp; [constructor|].
  destruct Hs as [Ha Hs]. constructor.
  - apply IH; auto. intros pk' o' Hi. apply Hp. right; auto.
  - rewrite Forall_forall in *. intros o' Hi. apply in_map_iff in Hi. destruct Hi as [[pk' o''] [E Hi]].
    cbn [snd] in E. subst o''. unfold by_pk.
    rewrite <- (Hp pk o) by (left; auto). rewrite <- (Hp pk' o') by (right; auto).
    apply bytes_ltb_spec. exact (Ha _ Hi).
Qed.

Theorem l_lookup_exact L keys m q : l_agree_on L keys m ->
  match l_lookup q m with
  | Some e => exists k, bits_prefix k q = true /\
                (forall k' o, L o -> In k' (keys (o_data o)) -> bits_prefix k' q = true -> (length k' <= length k)%nat) /\
                e <> [] /\ StronglySorted by_pk (map snd e) /\
                (forall o, In o (map snd e) <-> (L o /\ In k (keys (o_data o))))
  | None => forall o k, L o -> In k (keys (o_data o)) -> bits_prefix k q = false
  end.
Proof.
  intros Ha. apply l_agree_on_LWf in Ha. destruct Ha as [[Hs He] Hr].
  pose proof (l_lookup_fold q m Hs None) as Hf. unfold l_lookup.
  destruct (fold_left _ m None) as [e|].
  - destruct Hf as [[k [Hi [Hp Hmax]]]|[Hx _]]; [|discriminate].
    exists k. split; auto. destruct (He _ _ Hi) as [Hne Hes].
    assert (Hpk : forall pk o, In (pk, o) e -> In k (keys (o_data o)) /\ pk = p_id (o_data o) /\ L o).
    { intros pk o Hio. apply Hr. exists e. auto. }
    split; [|split; [|split]]; auto.
    + intros k' o Hl Hk Hp'.
      assert (Hrel : lrel m k' (p_id (o_data o)) o) by (apply Hr; auto).
      destruct Hrel as [e' [Hi' _]]. destruct (Hmax _ _ Hi' Hp') as [->|Hlt]; [lia|].
      eapply bits_prefix_len; eauto.
    + apply esorted_by_pk; auto. intros pk o Hio. now apply Hpk in Hio.
    + intros o. split.
      * intros Hio. apply in_map_iff in Hio. destruct Hio as [[pk o'] [E Hio]]. cbn [snd] in E. subst o'.
        apply Hpk in Hio. tauto.
      * intros [Hl Hk]. assert (Hrel : lrel m k (p_id (o_data o)) o) by (apply Hr; auto).
        destruct Hrel as [e' [Hi' Hio]].
        apply l_get_In in Hi; auto. apply l_get_In in Hi'; auto. assert (e' = e) by congruence. subst e'.
        apply in_map_iff. exists (p_id (o_data o), o). auto.
  - destruct Hf as [_ Hnone]. intros o k Hl Hk.
    assert (Hrel : lrel m k (p_id (o_data o)) o) by (apply Hr; auto).
    destruct Hrel as [e' [Hi' _]]. eauto.
Qed.

Definition l_flat (m : lidx) : list (lkey * bytes * object) :=
  flat_map (fun ke => map (fun x => (fst ke, fst x, snd x)) (snd ke)) m.

Lemma l_objs_flat m : l_objs m = map snd (l_flat m).
Proof.
  unfold l_objs, l_flat. induction m as [|[k e] r IH]; cbn [flat_map map fst snd]; auto.
  rewrite map_app, map_map, IH. cbn [snd]. reflexivity.
Qed.

Definition flat_lt (a b : lkey * bytes * object) : Prop :=
  bits_ltb (fst (fst a)) (fst (fst b)) = true \/
  (fst (fst a) = fst (fst b) /\ lex_lt (snd (fst a)) (snd (fst b))).

Lemma l_flat_In m k pk o : In (k, pk, o) (l_flat m) <-> lrel m k pk o.
Proof.
  unfold l_flat, lrel. rewrite in_flat_map. split.
  - intros [[k' e] [Hi Hx]]. cbn [fst snd] in Hx. apply in_map_iff in Hx.
    destruct Hx as [[pk' o'] [E Hx]]. cbn [fst snd] in E. injection E as -> -> ->. eauto.
  - intros [e [Hi Hx]]. exists (k, e). split; auto. cbn [fst snd]. apply in_map_iff.
    exists (pk, o). auto.
Qed.

Lemma SSorted_app {A} (R : A -> A -> Prop) a : forall b,
  StronglySorted R a -> StronglySorted R b -> (forall x y, In x a -> In y b -> R x y) ->
  StronglySorted R (a ++ b).
Proof.
  induction a as [|x a IH]; intros b Ha Hb Hab; cbn [app]; auto.
  inversion Ha as [|x' a' Hsa Hfa]; subst. constructor.
  - apply IH; auto. intros; apply Hab; auto. now right.
  - apply Forall_app. split; auto. apply Forall_forall. intros y Hy. apply Hab; auto. now left.
Qed.

Lemma l_flat_sorted m : LWf m -> StronglySorted flat_lt (l_flat m).
Proof.
  induction m as [|[k e] r IH]; intros [Hs He]; [constructor|].
  cbn [lsorted] in Hs. destruct Hs as [Ha Hs].
  change (l_flat ((k, e) :: r)) with (map (fun x : bytes * object => (k, fst x, snd x)) e ++ l_flat r).
  apply SSorted_app.
  - destruct (He k e (or_introl eq_refl)) as [_ Hes]. clear - Hes.
    induction e as [|[pk o] e IHe]; cbn [map esorted] in *; [constructor|].
    destruct Hes as [Hab Hes]. constructor; auto.
    rewrite Forall_forall in *. intros y Hy. apply in_map_iff in Hy. destruct Hy as [[pk' o'] [<- Hy]].
    right. cbn [fst snd]. split; auto. apply bytes_ltb_spec. exact (Hab _ Hy).
  - apply IH. split; auto. intros k' e' Hi. apply (He k' e'). now right.
  - intros x [[k' pk'] o'] Hx Hy. apply in_map_iff in Hx. destruct Hx as [[pk o] [<- Hx]].
    apply l_flat_In in Hy. destruct Hy as [e' [Hi _]]. left. cbn [fst snd].
    eapply labove_In; eauto.
Qed.

Lemma LWf_filter f m : LWf m -> LWf (filter f m).
Proof.
  intros [Hs He]. split.
  - clear He. induction m as [|[k e] r IH]; cbn [filter lsorted] in *; auto. destruct Hs as [Ha Hs].
    destruct (f (k, e)); cbn [lsorted]; auto. split; auto.
    rewrite Forall_forall in *. intros x Hx. apply filter_In in Hx. now apply Ha.
  - intros k e Hi. apply filter_In in Hi. apply (He k e). tauto.
Qed.

Lemma l_lower_bound_In q m : lsorted m ->
  forall k e, In (k, e) (l_lower_bound q m) <-> In (k, e) m /\ bits_ltb k q = false.
Proof.
  induction m as [|[k' e'] r IH]; cbn [l_lower_bound lsorted]; intros Hs k e; [cbn [In]; tauto|].
  destruct Hs as [Ha Hs]. destruct (bits_ltb k' q) eqn:Lq.
  - rewrite IH by auto. cbn [In]. split; [tauto|]. intros [[H|H] H2]; [|auto].
    injection H as -> ->. congruence.
  - cbn [In]. split; [|tauto]. intros [H|H]; [injection H as -> ->; auto|]. split; auto.
    pose proof (labove_In _ _ _ _ Ha H) as T. destruct (bits_ltb k q) eqn:L2; auto.
    pose proof (bits_ltb_trans _ _ _ T L2). congruence.
Qed.

Lemma LWf_lower_bound q m : LWf m -> LWf (l_lower_bound q m).
Proof.
  intros [Hs He]. split.
  - clear He. induction m as [|[k e] r IH]; cbn [l_lower_bound lsorted] in *; auto. destruct Hs as [Ha Hs].
    destruct (bits_ltb k q); cbn [lsorted]; auto.
  - intros k e Hi. apply l_lower_bound_In in Hi; auto. apply (He k e). tauto.
Qed.

Theorem l_prefix_exact L keys m q : l_agree_on L keys m ->
  StronglySorted flat_lt (l_flat (l_prefix q m)) /\
  forall k pk o, In (k, pk, o) (l_flat (l_prefix q m)) <->
    (bits_prefix q k = true /\ In k (keys (o_data o)) /\ pk = p_id (o_data o) /\ L o).
Proof.
  intros Ha. apply l_agree_on_LWf in Ha. destruct Ha as [Hw Hr]. split.
  - apply l_flat_sorted. unfold l_prefix. now apply LWf_filter.
  - intros k pk o. rewrite l_flat_In, <- Hr. unfold lrel, l_prefix. split.
    + intros [e [Hi Hx]]. apply filter_In in Hi. cbn [fst] in Hi. destruct Hi as [Hi Hp]. eauto.
    + intros [Hp [e [Hi Hx]]]. exists e. split; auto. apply filter_In. auto.
Qed.

Theorem l_lower_bound_exact L keys m q : l_agree_on L keys m ->
  StronglySorted flat_lt (l_flat (l_lower_bound q m)) /\
  forall k pk o, In (k, pk, o) (l_flat (l_lower_bound q m)) <->
    (bits_ltb k q = false /\ In k (keys (o_data o)) /\ pk = p_id (o_data o) /\ L o).
Proof.
  intros Ha. apply l_agree_on_LWf in Ha. destruct Ha as [Hw Hr]. split.
  - apply l_flat_sorted. now apply LWf_lower_bound.
  - intros k pk o. rewrite l_flat_In, <- Hr. unfold lrel. destruct Hw as [Hs _]. split.
    + intros [e [Hi Hx]]. apply l_lower_bound_In in Hi; auto. destruct Hi as [Hi Hp]. eauto.
    + intros [Hp [e [Hi Hx]]]. exists e. split; auto. apply l_lower_bound_In; auto.
Qed.

Print Assumptions l_reindex_agree_n.
Print Assumptions l_reindex_agree_u'.
Print Assumptions l_reindex_agree_u.
Print Assumptions l_lookup_exact.
Print Assumptions l_prefix_exact.
Print Assumptions l_lower_bound_exact.
