(* Table/ClientsRun4.v — part H3: the observer, composed with the C07 convergence theorem: whenever the observer
   is in its select, what the returned callbacks have reported replays to the observed table of the current root. *)
From Coq Require Import List NArith Bool Lia.
Import ListNotations.
From SV Require Import Base.Bytes Base.OrdMap KeyEnc.Model Table.Model Table.Proofs Table.InvDefs Table.Inv Table.Inv2
                       Table.GcProofs Table.ChangesStream Table.ChangesIter Table.ChangesProofs Table.ChangesRet
                       Table.ChangesHist Table.ChangesFromInit Table.AgreeN Table.Clients Table.ClientsProofs
                       Table.ClientsProofs2 Table.ClientsRun Table.ClientsRun3.
From Coq Require Import ZifyN ZifyNat ZifyBool.
Local Open Scope N_scope.

(* an exhausted iterator whose watch channel is that of the committed table's current revision has been refreshed
   from a table with the same live objects as the committed one (the committed table may since have lost graveyard
   entries, trackers, initializers: nothing `abs_of` reads) *)
Lemma exhausted_same_table iid tab G cur it acc d :
  oinv G it acc -> rinv iid tab G d it cur -> TInv cur -> reg iid cur ->
  it_pending it = None -> t_rev cur = it_watchrev it -> abs_of G = abs_of cur.
Proof.
  intros HO HR HIc Hreg Hp Hw.
  pose proof (oi_tinv _ _ _ HO) as HIG.
  pose proof (oi_watch _ _ _ HO (or_intror Hp)) as HwG.
  destruct (oi_done _ _ _ HO Hp) as [_ Hdd].
  destruct (ri_phase _ _ _ _ _ _ HR) as [[_ [[_ [L1 D1]] [Hret _]]]|[Hn _]]; [|contradiction].
  assert (Hrev : t_rev cur = t_rev G) by congruence.
  assert (A : forall o, live cur o -> live G o).
  { intros o Ho. apply L1; auto. destruct (ti_primary cur HIc _ _ Ho) as [_ Hb]. lia. }
  assert (B : forall o, live G o -> live cur o).
  { intros o Ho. destruct (has_live_dec cur (pk o) HIc) as [[o2 [Ho2 Hk]]|Hnl].
    - pose proof (live_pk_fun G o2 o HIG (A _ Ho2) Ho Hk). now subst.
    - exfalso. destruct (Hret (pk o)) as [o' [Hd [_ Hlt]]]; auto.
      { left. exists o. auto. }
      assert (Hd' : dead G o').
      { apply D1; auto. destruct (ti_grave cur HIc _ _ Hd) as [_ [Hb _]]. lia. }
      specialize (Hdd _ Hd'). lia. }
  apply om_ext; [now apply abs_of_sorted|now apply abs_of_sorted|]. intros k. rewrite !abs_of_get. f_equal.
  destruct (om_get k (t_primary G)) as [o|] eqn:E1; destruct (om_get k (t_primary cur)) as [o2|] eqn:E2; auto.
  - apply (om_get_In _ _ _ (ti_sorted_primary G HIG)) in E1. apply (om_get_In _ _ _ (ti_sorted_primary cur HIc)) in E2.
    destruct (ti_primary G HIG _ _ E1) as [K1 _]. destruct (ti_primary cur HIc _ _ E2) as [K2 _].
    f_equal. apply (live_pk_fun G o o2 HIG); unfold live; [now rewrite <- K1|apply A; unfold live; now rewrite <- K2|].
    unfold pk. congruence.
  - apply (om_get_In _ _ _ (ti_sorted_primary G HIG)) in E1. destruct (ti_primary G HIG _ _ E1) as [K1 _].
    assert (Hl : live cur o) by (apply B; unfold live; now rewrite <- K1).
    unfold live in Hl. rewrite <- K1 in Hl. apply (om_get_In _ _ _ (ti_sorted_primary cur HIc)) in Hl. congruence.
  - apply (om_get_In _ _ _ (ti_sorted_primary cur HIc)) in E2. destruct (ti_primary cur HIc _ _ E2) as [K2 _].
    assert (Hl : live G o2) by (apply A; unfold live; now rewrite <- K2).
    unfold live in Hl. rewrite <- K2 in Hl. apply (om_get_In _ _ _ (ti_sorted_primary G HIG)) in Hl. congruence.
Qed.

Lemma ok_run_end ops : forall d, ok_run d ops -> tables_ok (fst (run d ops)).
Proof.
  intros d H. rewrite <- (app_nil_r ops) in H. destruct (ok_run_app _ _ _ H) as [_ [K _]]. exact K.
Qed.

(* H3. `ops` split at the observer's OChanges. Residual hypotheses of C07_from_init (revision room, the usage
   conditions `friendly`, not registered before) on the flattened operations, plus: the observer's delete
   tracker is (still) registered in the observed table of the root. *)
Theorem observer_converges n cs s outs pre tab post os wr t0 :
  forallb (cop_ok' n) cs = true ->
  crun (init_csys n 0) cs = (s, outs, pre ++ OChanges observe_iid tab :: post) ->
  forallb (fun o => negb (touches observe_iid o)) pre = true ->
  cs_o s = Some os -> ov_phase os = OWait wr ->
  let dc := fst (run (init_db n) pre) in
  let d0 := fst (step dc (OChanges observe_iid tab)) in
  room_run (init_db n) (pre ++ OChanges observe_iid tab :: post) ->
  created dc observe_iid tab t0 ->
  (forall cur, nth_error (d_root dc) tab = Some cur -> ~ reg observe_iid cur) ->
  friendly_run observe_iid tab d0 post ->
  (forall cur, nth_error (d_root (cs_db s)) tab = Some cur -> reg observe_iid cur) ->
  tab = ov_tab os /\
  exists cur, nth_error (d_root (cs_db s)) tab = Some cur /\ t_rev cur = wr /\
              replay (reported outs) = abs_of cur.
Proof.
  intros Hc Hrun Hpre Eo Eph dc d0 Hroom Hcr Hfresh Hfr Hreg.
  destruct (observer_run_invariant n cs s outs _ os Hc Hrun Eo) as [Hdb K]. cbv zeta in K. rewrite Eph in K.
  destruct K as [Hdlv [it [cur [Hit [Htab [Hp [Hw [Hcur Hrev]]]]]]]].
  assert (Hdb' : cs_db s = fst (run d0 post)).
  { rewrite Hdb, run_app. change (OChanges observe_iid tab :: post) with ([OChanges observe_iid tab] ++ post).
    rewrite run_app, run_single. reflexivity. }
  rewrite delivered_split in Hdlv by exact Hpre. fold dc d0 in Hdlv.
  destruct (from_init_facts n pre observe_iid tab post Hroom) as [A [B C]]. fold dc d0 in A, B, C.
  destruct (discharged_facts observe_iid tab dc t0 post Hcr A Hfresh (conj B C) Hfr) as [Hg [R [HI0 HR0]]]. fold d0 in Hg, R.
  pose proof (sinv_run true observe_iid post _ _ (sinv_created true dc observe_iid tab t0 Hcr HI0 HR0) Hg) as [_ Hs].
  fold d0 in Hs. rewrite <- Hdb' in Hs, R.
  destruct (Hs it Hit) as [HO _]. destruct (R it Hit) as [cur' [Hc' HR]].
  pose proof (ri_tab _ _ _ _ _ _ HR) as Ht. assert (Etab : tab = ov_tab os) by congruence.
  split; [exact Etab|]. rewrite <- Etab in Hcur. assert (cur' = cur) by congruence. subst cur'.
  exists cur. split; [exact Hcur|]. split; [exact Hrev|].
  rewrite <- Hdlv.
  pose proof (init_converge n pre observe_iid tab t0 post Hroom Hcr Hfresh Hfr it) as Hconv.
  fold dc d0 in Hconv. rewrite <- Hdb' in Hconv. rewrite (Hconv Hit Hp).
  eapply exhausted_same_table; eauto.
  - pose proof (ok_run_end _ _ C) as [T _]. rewrite <- Hdb' in T. destruct T as [T _].
    rewrite Forall_forall in T. apply T. eapply nth_error_In; eauto.
  - congruence.
Qed.

(* the hypotheses are satisfiable: the run hx_run of Table/ClientsRun3.v, split at the observer's OChanges *)
Example observer_converges_nonvacuous :
  let r := crun (init_csys 1 0) hx_run in
  let flat := snd r in let s := fst (fst r) in
  let pre := firstn 4 flat in let post := skipn 5 flat in
  let dc := fst (run (init_db 1) pre) in
  let d0 := fst (step dc (OChanges observe_iid 0)) in
  forallb (cop_ok' 1) hx_run = true /\
  flat = pre ++ OChanges observe_iid 0 :: post /\
  forallb (fun o => negb (touches observe_iid o)) pre = true /\
  option_map ov_phase (cs_o s) = Some (OWait 3) /\
  room_run (init_db 1) (pre ++ OChanges observe_iid 0 :: post) /\
  (exists t0, created dc observe_iid 0 t0) /\
  (forall cur, nth_error (d_root dc) 0 = Some cur -> ~ reg observe_iid cur) /\
  friendly_run observe_iid 0 d0 post /\
  (forall cur, nth_error (d_root (cs_db s)) 0 = Some cur -> reg observe_iid cur) /\
  replay (reported (snd (fst r))) = [([98], (2, 2))] /\
  map abs_of (d_root (cs_db s)) = [[([98], (2, 2))]].
Proof.
  cbv zeta. split; [vm_compute; reflexivity|]. split; [vm_compute; reflexivity|]. split; [vm_compute; reflexivity|].
  split; [vm_compute; reflexivity|].
  split; [apply room_runb_ok; vm_compute; reflexivity|].
  split; [vm_compute; do 4 eexists; split; [reflexivity|split; reflexivity]|].
  split; [intros cur H; vm_compute in H; injection H as <-; vm_compute; tauto|].
  split; [apply friendly_runb_ok; vm_compute; reflexivity|].
  split; [intros cur H; vm_compute in H; injection H as <-; vm_compute; tauto|].
  split; vm_compute; reflexivity.
Qed.
