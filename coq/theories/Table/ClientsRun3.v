(* Table/ClientsRun3.v — part H: the observer (observable.go), at the level of one run of its goroutine and at
   the level of whole runs of the system. *)
From Coq Require Import List NArith Bool Lia.
Import ListNotations.
From SV Require Import Base.Bytes Base.OrdMap KeyEnc.Model Table.Model Table.Proofs Table.InvDefs Table.Inv Table.Inv2
                       Table.GcProofs Table.ChangesStream Table.ChangesIter Table.ChangesProofs Table.ChangesRet
                       Table.ChangesHist Table.ChangesFromInit Table.Clients Table.ClientsProofs Table.ClientsProofs2
                       Table.ClientsRun.
Local Open Scope N_scope.

(* ==== H1. one run of the goroutine always reaches a callback or the select ==================================== *)
Definition in_seq (it : iter) : bool :=
  it_seq it && match it_pending it with Some _ => true | None => false end.
Definition idle (it : iter) (cur : table) : bool :=
  match it_pending it with None => t_rev cur =? it_watchrev it | Some _ => false end.
(* how many turns are needed at most before the goroutine stops: finish the sequence in flight (2), refresh (1),
   find the watch channel open (0) *)
Definition rank (it : iter) (cur : table) : nat := if in_seq it then 2 else if idle it cur then 0 else 1.

Definition drained_at (it : iter) (wr : N) : iter := mkI (it_tab it) (it_rev it) (it_delrev it) None wr false.

Lemma consume1_frame o del r it d iid :
  let '(out, it1, d1) := consume (Some 1%nat) ((o, del) :: r) it d iid in
  out = [(o, del)] /\ it_tab it1 = it_tab it /\ d_root d1 = d_root d /\ d_txn d1 = d_txn d.
Proof.
  cbn [consume]. split; [reflexivity|]. split; [destruct del; reflexivity|].
  destruct del; [|auto]. destruct (gc_trigger_frame (set_wm d (assoc_set iid (o_rev o) (d_wm d)))) as [A [B _]]. auto.
Qed.

Lemma step_resume1 d iid it : assoc iid (d_iters d) = Some it -> in_seq it = true ->
  (exists c d1 it1, step d (OResume iid (Some 1%nat)) = (d1, OutChanges [c] true) /\
                    d_root d1 = d_root d /\ d_txn d1 = d_txn d /\
                    assoc iid (d_iters d1) = Some it1 /\ it_tab it1 = it_tab it) \/
  step d (OResume iid (Some 1%nat)) =
    (set_iters d (assoc_set iid (drained_at it (it_watchrev it)) (d_iters d)), OutChanges [] true).
Proof.
  intros Hit Hs. unfold in_seq in Hs. apply andb_true_iff in Hs. destruct Hs as [Hs Hp].
  cbn [step]. rewrite Hit, Hs. destruct (it_pending it) as [l|]; [|discriminate].
  destruct l as [|[o del] r]; [right; reflexivity|left].
  pose proof (consume1_frame o del r it d iid) as Hc.
  destruct (consume (Some 1%nat) ((o, del) :: r) it d iid) as [[out it1] d1]. destruct Hc as [-> [A [B C]]].
  exists (o, del), (set_iters d1 (assoc_set iid it1 (d_iters d1))), it1.
  cbn [set_iters d_root d_txn d_iters]. rewrite assoc_set_same. auto.
Qed.

Lemma step_next1 d iid it cur : assoc iid (d_iters d) = Some it -> nth_error (d_root d) (it_tab it) = Some cur ->
  if idle it cur then step d (ONext iid SFresh (Some 1%nat)) = (d, OutChanges [] false)
  else
    (exists c d1 it1, step d (ONext iid SFresh (Some 1%nat)) = (d1, OutChanges [c] true) /\
                      d_root d1 = d_root d /\ d_txn d1 = d_txn d /\
                      assoc iid (d_iters d1) = Some it1 /\ it_tab it1 = it_tab it) \/
    step d (ONext iid SFresh (Some 1%nat)) =
      (set_iters d (assoc_set iid (drained_at it (t_rev cur)) (d_iters d)), OutChanges [] true).
Proof.
  intros Hit Hc. cbn [step src_committed]. rewrite Hit, Hc. fold (idle it cur).
  destruct (idle it cur); [reflexivity|].
  cbn [refresh it_tab it_rev it_delrev it_pending it_watchrev it_seq].
  match goal with |- context [consume _ ?l ?i d iid] => set (l0 := l) end.
  destruct l0 as [|[o del] r]; [right; reflexivity|left].
  match goal with |- context [consume _ _ ?i d iid] =>
    pose proof (consume1_frame o del r i d iid) as Hf;
    destruct (consume (Some 1%nat) ((o, del) :: r) i d iid) as [[out it1] d1] end.
  destruct Hf as [-> [A [B C]]]. cbn [it_tab] in A.
  exists (o, del), (set_iters d1 (assoc_set iid it1 (d_iters d1))), it1.
  cbn [set_iters d_root d_txn d_iters]. rewrite assoc_set_same. auto.
Qed.

Lemma observe_run_ends fuel : forall os d acc it cur,
  assoc (ov_iid os) (d_iters d) = Some it -> nth_error (d_root d) (it_tab it) = Some cur ->
  (rank it cur < fuel)%nat ->
  let r := observe_run fuel os d acc in
  exists ops1 it',
    snd r = acc ++ ops1 /\ d_root (fst (fst r)) = d_root d /\ d_txn (fst (fst r)) = d_txn d /\
    assoc (ov_iid os) (d_iters (fst (fst r))) = Some it' /\ it_tab it' = it_tab it /\
    ((exists c, snd (fst r) = oset os (OHold c) /\ delivered (ov_iid os) d ops1 = [c]) \/
     (snd (fst r) = oset os (OWait (it_watchrev it')) /\ delivered (ov_iid os) d ops1 = [] /\
      it_pending it' = None /\ t_rev cur = it_watchrev it')).
Proof.
  induction fuel as [|f IH]; intros os d acc it cur Hit Hc Hr; [lia|].
  cbv zeta. cbn [observe_run]. rewrite Hit. fold (in_seq it). unfold rank in Hr.
  destruct (in_seq it) eqn:Eb.
  - (* a sequence is in flight: Resume *)
    destruct (step_resume1 d (ov_iid os) it Hit Eb) as [[c [d1 [it1 [E [R [T [A Ht]]]]]]]|E]; rewrite E.
    + exists [OResume (ov_iid os) (Some 1%nat)], it1. cbn [fst snd]. repeat (split; [assumption || reflexivity|]).
      left. exists c. split; [reflexivity|]. cbn [delivered]. rewrite N.eqb_refl, E. reflexivity.
    + set (d1 := set_iters d (assoc_set (ov_iid os) (drained_at it (it_watchrev it)) (d_iters d))).
      assert (Hit1 : assoc (ov_iid os) (d_iters d1) = Some (drained_at it (it_watchrev it))) by apply assoc_set_same.
      destruct (IH os d1 (acc ++ [OResume (ov_iid os) (Some 1%nat)]) _ cur Hit1 Hc) as [ops1 [it' [H1 [H2 [H3 [H4 [H5 H6]]]]]]].
      { unfold rank. cbn. destruct (t_rev cur =? it_watchrev it); lia. }
      exists (OResume (ov_iid os) (Some 1%nat) :: ops1), it'.
      rewrite H1, <- app_assoc. split; [reflexivity|]. split; [exact H2|]. split; [exact H3|]. split; [exact H4|].
      split; [exact H5|]. cbn [delivered]. rewrite N.eqb_refl, E. cbn [fst snd out_changes app]. exact H6.
  - (* Next on a fresh read transaction *)
    pose proof (step_next1 d (ov_iid os) it cur Hit Hc) as Hn. destruct (idle it cur) eqn:Ei.
    + rewrite Hn, Hit. exists [ONext (ov_iid os) SFresh (Some 1%nat)], it. cbn [fst snd].
      repeat (split; [assumption || reflexivity|]). right. split; [reflexivity|].
      split; [cbn [delivered]; rewrite N.eqb_refl, Hn; reflexivity|].
      unfold idle in Ei. destruct (it_pending it); [discriminate|]. apply N.eqb_eq in Ei. auto.
    + destruct Hn as [[c [d1 [it1 [E [R [T [A Ht]]]]]]]|E]; rewrite E.
      * exists [ONext (ov_iid os) SFresh (Some 1%nat)], it1. cbn [fst snd]. repeat (split; [assumption || reflexivity|]).
        left. exists c. split; [reflexivity|]. cbn [delivered]. rewrite N.eqb_refl, E. reflexivity.
      * set (d1 := set_iters d (assoc_set (ov_iid os) (drained_at it (t_rev cur)) (d_iters d))).
        assert (Hit1 : assoc (ov_iid os) (d_iters d1) = Some (drained_at it (t_rev cur))) by apply assoc_set_same.
        destruct (IH os d1 (acc ++ [ONext (ov_iid os) SFresh (Some 1%nat)]) _ cur Hit1 Hc) as [ops1 [it' [H1 [H2 [H3 [H4 [H5 H6]]]]]]].
        { unfold rank. cbn. rewrite N.eqb_refl. lia. }
        exists (ONext (ov_iid os) SFresh (Some 1%nat) :: ops1), it'.
        rewrite H1, <- app_assoc. split; [reflexivity|]. split; [exact H2|]. split; [exact H3|]. split; [exact H4|].
        split; [exact H5|]. cbn [delivered]. rewrite N.eqb_refl, E. cbn [fst snd out_changes app]. exact H6.
Qed.

(* with the fuel of the model: four turns are more than enough *)
Corollary observe_run4_ends os d acc it cur :
  assoc (ov_iid os) (d_iters d) = Some it -> nth_error (d_root d) (it_tab it) = Some cur ->
  let r := observe_run 4 os d acc in
  exists ops1 it',
    snd r = acc ++ ops1 /\ d_root (fst (fst r)) = d_root d /\ d_txn (fst (fst r)) = d_txn d /\
    assoc (ov_iid os) (d_iters (fst (fst r))) = Some it' /\ it_tab it' = it_tab it /\
    ((exists c, snd (fst r) = oset os (OHold c) /\ delivered (ov_iid os) d ops1 = [c]) \/
     (snd (fst r) = oset os (OWait (it_watchrev it')) /\ delivered (ov_iid os) d ops1 = [] /\
      it_pending it' = None /\ t_rev cur = it_watchrev it')).
Proof.
  intros Hit Hc. apply observe_run_ends; auto. unfold rank. destruct (in_seq it); [lia|]. destruct (idle it cur); lia.
Qed.

(* ==== H2. run level ============================================================================================ *)
Lemma run_iters_frame iid l : forall d, forallb (fun o => negb (touches iid o)) l = true ->
  assoc iid (d_iters (fst (run d l))) = assoc iid (d_iters d).
Proof.
  induction l as [|o r IH]; intros d H; cbn [run]; [reflexivity|].
  cbn [forallb] in H. apply andb_true_iff in H. destruct H as [Ho Hr]. apply negb_true_iff in Ho.
  specialize (IH (fst (step d o)) Hr). rewrite (step_iters_frame d o iid Ho) in IH.
  destruct (step d o) as [d1 x]. cbn [fst] in *. destruct (run d1 r) as [d2 xs]. exact IH.
Qed.

(* the registration leg creates the iterator, on its table *)
Lemma reg_leg_iter n d tab iid sid : LInv n d -> d_txn d = None -> (tab < n)%nat ->
  exists it, assoc iid (d_iters (fst (run d [OBegin [tab]; OChanges iid tab; OCommit sid]))) = Some it /\ it_tab it = tab.
Proof.
  intros L Htx Htab. destruct (LInv_root n d tab L Htab) as [t Ht].
  change [OBegin [tab]; OChanges iid tab; OCommit sid] with ([OBegin [tab]] ++ [OChanges iid tab] ++ [OCommit sid]).
  rewrite !run_app, !run_single.
  rewrite (step_iters_frame _ (OCommit sid) iid eq_refl).
  assert (Hb : fst (step d (OBegin [tab])) =
               set_txn d (Some (upd_nth tab (fun e => (fst e, true)) (map (fun t => (t, false)) (d_root d)), d_root d))).
  { cbn [step]. rewrite Htx. reflexivity. }
  rewrite Hb. cbn [step set_txn d_txn].
  rewrite (nth_error_upd_nth_same (fun e => (fst e, true)) _ tab (t, false)) by (rewrite nth_error_map, Ht; reflexivity).
  cbn [fst]. rewrite Ht. cbn [fst set_iters d_iters]. rewrite assoc_set_same. eexists. split; [reflexivity|reflexivity].
Qed.

(* an iteration of the loop does not touch any other iterator *)
Lemma derive_iter_untouched tr ds d d' ds' ops j : derive_iter tr ds d = (d', ds', ops) -> dv_iid ds <> j ->
  forallb (fun o => negb (touches j o)) ops = true.
Proof.
  intros H Hj. destruct (derive_iter_shape _ _ _ _ _ _ H) as [[_ [_ [-> _]]]|
    [x [l [w [d2 [o2 [o3 [marked [initw [H1 [H2 [H3 [H4 [H5 ->]]]]]]]]]]]]]]; [reflexivity|].
  rewrite !forallb_app. cbn [forallb touches]. apply N.eqb_neq in Hj. rewrite Hj. cbn [negb andb].
  pose proof (apply_changes_dwrite tr (dv_out ds) l (fst (run d [OBegin [dv_out ds]; ONext (dv_iid ds) STxn None]))) as Hw.
  rewrite H2 in Hw. cbn [snd] in Hw. rewrite (dwrite_untouched _ _ _ Hw). cbn [andb].
  destruct (init_ops_cases _ _ _ _ _ H3) as [[_ [_ ->]]|[[_ [_ ->]]|[_ [_ [-> _]]]]]; reflexivity.
Qed.

(* what the harness has been told: the changes of the callbacks that have returned, in order *)
Definition reported (outs : list cout) : list (object * bool) :=
  flat_map (fun x => match x with CoDelivered _ (Some c) _ => [c] | _ => [] end) outs.

Lemma reported_app a b : reported (a ++ b) = reported a ++ reported b.
Proof. apply flat_map_app. Qed.

(* the harness never uses the observer's iterator id, and observes a table that exists *)
Definition cop_ok' (n : nat) (c : cop) : bool :=
  match c with
  | CUser o => negb (touches observe_iid o)
  | CObserveStart tab => Nat.ltb tab n
  | _ => true
  end.

Definition obs_state (strong : bool) (d : db) (os : ostate) (dlv rep : list (object * bool)) : Prop :=
  match ov_phase os with
  | OReg => dlv = [] /\ rep = []
  | OHold c => (exists it, assoc observe_iid (d_iters d) = Some it /\ it_tab it = ov_tab os) /\ dlv = rep ++ [c]
  | OWait wr => (exists it cur, assoc observe_iid (d_iters d) = Some it /\ it_tab it = ov_tab os /\
                                it_pending it = None /\ it_watchrev it = wr /\
                                nth_error (d_root d) (ov_tab os) = Some cur /\ (strong = true -> t_rev cur = wr)) /\
                dlv = rep
  | ODone => exists tl, dlv = rep ++ tl /\ (length tl <= 1)%nat
  end.

Record HInv (n : nat) (strong : bool) (s : csys) (outs : list cout) (ops : list op) : Prop := mkHInv {
  h_db : cs_db s = fst (run (init_db n) ops);
  h_d : forall ds, cs_d s = Some ds -> dv_iid ds = derive_iid;
  h_none : cs_o s = None -> delivered observe_iid (init_db n) ops = [] /\ reported outs = [];
  h_o : forall os, cs_o s = Some os -> ov_iid os = observe_iid /\ (ov_tab os < n)%nat /\
        obs_state strong (cs_db s) os (delivered observe_iid (init_db n) ops) (reported outs)
}.

Lemma HInv_LInv n b s outs ops : HInv n b s outs ops -> LInv n (cs_db s).
Proof. intros H. rewrite (h_db _ _ _ _ _ H). apply LInv_run, LInv_init. Qed.

Lemma obs_state_quiet n d l os dlv rep :
  LInv n (fst (run d l)) -> (ov_tab os < n)%nat ->
  forallb (fun o => negb (touches observe_iid o)) l = true ->
  obs_state true d os dlv rep -> obs_state false (fst (run d l)) os dlv rep.
Proof.
  intros L Ht Hq. unfold obs_state. rewrite (run_iters_frame _ _ d Hq). destruct (ov_phase os); auto.
  intros [[it [cur [A [B [C [D [E F]]]]]]] G]. split; [|exact G].
  destruct (LInv_root n _ _ L Ht) as [cur' Hc]. exists it, cur'. repeat (split; [assumption|]). discriminate.
Qed.

(* a leg that does not use the observer's iterator and reports nothing *)
Lemma HInv_quiet n s outs ops d' l sd x :
  HInv n true s outs ops -> d' = fst (run (cs_db s) l) ->
  forallb (fun o => negb (touches observe_iid o)) l = true ->
  (forall ds, sd = Some ds -> dv_iid ds = derive_iid) ->
  reported [x] = [] ->
  HInv n false (mkCS d' sd (cs_o s) (cs_mode s)) (outs ++ [x]) (ops ++ l).
Proof.
  intros [I1 I2 I3 I4] -> Hq Hsd Hx.
  assert (Hdb : fst (run (cs_db s) l) = fst (run (init_db n) (ops ++ l))) by (rewrite run_app, <- I1; reflexivity).
  assert (Hdl : delivered observe_iid (init_db n) (ops ++ l) = delivered observe_iid (init_db n) ops).
  { rewrite delivered_app, <- I1, (delivered_untouched _ _ _ Hq), app_nil_r. reflexivity. }
  constructor; cbn [cs_db cs_d cs_o cs_mode]; auto; rewrite Hdl, reported_app, Hx, app_nil_r; auto.
  intros os Eo. destruct (I4 _ Eo) as [A [B C]]. split; [exact A|]. split; [exact B|].
  eapply obs_state_quiet; eauto. rewrite Hdb. apply LInv_run, LInv_init.
Qed.

Lemma HInv_weaken n s outs ops : HInv n true s outs ops -> HInv n false s outs ops.
Proof.
  intros [I1 I2 I3 I4]. constructor; auto. intros os Eo. destruct (I4 _ Eo) as [A [B C]]. split; [exact A|].
  split; [exact B|]. revert C. unfold obs_state. destruct (ov_phase os); auto.
  intros [[it [cur [C1 [C2 [C3 [C4 [C5 C6]]]]]]] G]. split; [|exact G]. exists it, cur. repeat (split; [assumption|]).
  discriminate.
Qed.

Lemma HInv_nothing' n s outs ops x :
  HInv n true s outs ops -> reported [x] = [] ->
  HInv n false (mkCS (cs_db s) (cs_d s) (cs_o s) (cs_mode s)) (outs ++ [x]) (ops ++ []).
Proof.
  intros HI Hx. exact (HInv_quiet n s outs ops (cs_db s) [] (cs_d s) x HI eq_refl eq_refl (h_d _ _ _ _ _ HI) Hx).
Qed.

Lemma HInv_nothing n s outs ops x :
  HInv n true s outs ops -> reported [x] = [] -> HInv n false s (outs ++ [x]) (ops ++ []).
Proof. intros HI Hx. pose proof (HInv_nothing' n s outs ops x HI Hx) as H. destruct s; exact H. Qed.

(* one run of the goroutine, from a state in which its iterator exists *)
Lemma HInv_observe_run n s outs ops acc os d d' os' ops' x rep_x :
  HInv n true s outs ops -> cs_o s = Some os -> d = fst (run (cs_db s) acc) ->
  delivered observe_iid (cs_db s) acc = [] ->
  (exists it, assoc observe_iid (d_iters d) = Some it /\ it_tab it = ov_tab os) ->
  reported [x] = rep_x ->
  delivered observe_iid (init_db n) ops = reported outs ++ rep_x ->
  forall ph, observe_run 4 (oset os ph) d acc = (d', os', ops') ->
  HInv n true (mkCS d' (cs_d s) (Some os') (cs_mode s)) (outs ++ [x]) (ops ++ ops').
Proof.
  intros HI Eo Hd Hacc [it [Hit Htab]] Hx Hdlv ph H.
  pose proof HI as [I1 I2 I3 I4]. destruct (I4 _ Eo) as [Hid [Hlt _]].
  assert (L : LInv n d) by (rewrite Hd, I1, <- run_app; apply LInv_run, LInv_init).
  destruct (LInv_root n d (ov_tab os) L Hlt) as [cur Hc].
  destruct (observe_run4_ends (oset os ph) d acc it cur) as [ops1 [it' [H1 [H2 [H3 [H4 [H5 H6]]]]]]].
  { cbn [oset ov_iid]. rewrite Hid. exact Hit. }
  { rewrite Htab. exact Hc. }
  rewrite H in *. cbn [fst snd oset ov_iid ov_tab] in *. subst ops'. rewrite Hid in *.
  assert (Hdb : d' = fst (run (init_db n) (ops ++ acc ++ ops1))).
  { rewrite run_app, <- I1. eapply observe_run_run'; eauto. }
  assert (Hdl : delivered observe_iid (init_db n) (ops ++ acc ++ ops1) =
                reported outs ++ rep_x ++ delivered observe_iid d ops1).
  { rewrite delivered_app, <- I1, delivered_app, Hacc, <- Hd, Hdlv, <- app_assoc. reflexivity. }
  constructor; cbn [cs_db cs_d cs_o cs_mode]; auto; [discriminate|].
  intros os0 E0. injection E0 as <-. rewrite Hdl, reported_app, Hx.
  destruct H6 as [[c [-> Hdc]]|[-> [Hdc [Hp Hw]]]]; cbn [oset ov_iid ov_tab]; (split; [exact Hid|]); (split; [exact Hlt|]);
    unfold obs_state; cbn [oset ov_phase ov_tab]; rewrite Hdc.
  - split; [exists it'; split; [exact H4|congruence]|]. now rewrite app_assoc.
  - split; [|now rewrite app_nil_r]. exists it', cur. rewrite H2. repeat (split; [assumption || congruence|]). auto.
Qed.

Lemma HInv_cstep0 n s outs ops c s' x ops1 :
  HInv n true s outs ops -> cop_ok' n c = true -> cstep0 s c = (s', x, ops1) ->
  HInv n false s' (outs ++ [x]) (ops ++ ops1).
Proof.
  intros HI Hc. pose proof HI as [I1 I2 I3 I4]. destruct c; cbn [cstep0 cop_ok'] in *.
  - (* CUser *)
    destruct (step (cs_db s) o) as [d' y] eqn:E. intros H; injection H as <- <- <-.
    eapply HInv_quiet; eauto.
    + rewrite run_single, E. reflexivity.
    + cbn [forallb]. now rewrite Hc.
  - (* CDeriveStart *)
    destruct (cs_d s) eqn:Ed; [intros H; injection H as <- <- <-; now apply HInv_nothing|].
    destruct (d_txn (cs_db s)); intros H; injection H as <- <- <-; [now apply HInv_nothing|].
    eapply HInv_quiet; eauto. intros ds E. injection E as <-. reflexivity.
  - (* CDeriveGo *)
    destruct (cs_d s) as [ds|] eqn:Ed; [|intros H; injection H as <- <- <-; now apply HInv_nothing].
    pose proof (I2 _ eq_refl) as Di.
    destruct (derive_go (tr_std (cs_mode s)) ds (cs_db s)) as [[[d' ds'] opsg] ran] eqn:E.
    intros H; injection H as <- <- <-.
    assert (Hq : forallb (fun o => negb (touches observe_iid o)) opsg = true /\ dv_iid ds' = derive_iid).
    { revert E. unfold derive_go. destruct (d_txn (cs_db s)); [intros E; injection E as <- <- <- <-; auto|].
      destruct (negb (d_ready ds (cs_db s))); [intros E; injection E as <- <- <- <-; auto|].
      assert (Hiter : forall d1 ds1 o1, derive_iter (tr_std (cs_mode s)) ds (cs_db s) = (d1, ds1, o1) ->
                forallb (fun o => negb (touches observe_iid o)) o1 = true /\ dv_iid ds1 = derive_iid).
      { intros d1 ds1 o1 E. split; [eapply derive_iter_untouched; eauto; rewrite Di; discriminate|].
        destruct (derive_iter_ids (tr_std (cs_mode s)) ds (cs_db s)) as [_ [B _]]. rewrite E in B. cbn [fst snd] in B.
        congruence. }
      destruct (dv_phase ds).
      - intros E; injection E as <- <- <- <-. unfold derive_reg_ops. rewrite Di. split; reflexivity || exact Di.
      - destruct (derive_iter (tr_std (cs_mode s)) ds (cs_db s)) as [[a b] e] eqn:E. intros H; injection H as <- <- <- <-. eauto.
      - destruct (derive_iter (tr_std (cs_mode s)) ds (cs_db s)) as [[a b] e] eqn:E. intros H; injection H as <- <- <- <-. eauto. }
    destruct Hq as [Hq Hi]. eapply HInv_quiet; eauto.
    + eapply derive_go_run; eauto.
    + intros ds0 E0. injection E0 as <-. exact Hi.
  - (* CDeriveStat *)
    destruct (cs_d s); intros H; injection H as <- <- <-; now apply HInv_nothing.
  - (* CObserveStart *)
    destruct (cs_o s) eqn:Eo; intros H; injection H as <- <- <-; [now apply HInv_nothing|].
    destruct (I3 eq_refl) as [A B]. apply Nat.ltb_lt in Hc.
    constructor; cbn [cs_db cs_d cs_o cs_mode]; rewrite ?app_nil_r; auto; [discriminate|].
    intros os E. injection E as <-. cbn. rewrite reported_app, A, B. auto.
  - (* CObserveGo *)
    destruct (cs_o s) as [os|] eqn:Eo; [|intros H; injection H as <- <- <-; now apply HInv_nothing].
    destruct (I4 _ eq_refl) as [Hid [Hlt Hst]].
    destruct (observe_go os (cs_db s)) as [[[[d' os'] opsg] c] ran] eqn:E.
    intros H; injection H as <- <- <-. revert E. unfold observe_go.
    destruct (d_txn (cs_db s)) eqn:Etx.
    { intros E; injection E as <- <- <- <- <-. rewrite <- Eo. apply (HInv_nothing' n s outs ops); auto. }
    unfold obs_state in Hst. destruct (ov_phase os) eqn:Eph.
    + (* registration *)
      destruct (observe_run 4 os (fst (run (cs_db s) (observe_reg_ops os))) (observe_reg_ops os)) as [[a b] e] eqn:E.
      intros H; injection H as <- <- <- <- <-. apply HInv_weaken.
      assert (Hos : os = oset os OReg) by (unfold oset; rewrite <- Eph; destruct os; reflexivity).
      rewrite Hos in E.
      eapply (HInv_observe_run n s outs ops (observe_reg_ops os) os _ a b e _ []); eauto.
      * unfold observe_reg_ops. rewrite Hid.
        apply (reg_leg_iter n (cs_db s) (ov_tab os) observe_iid (ov_sid os)); auto. eapply HInv_LInv; eauto.
      * destruct Hst as [-> ->]. reflexivity.
    + (* the callback returns *)
      destruct (observe_run 4 (oset os (OWait 0)) (cs_db s) []) as [[a b] e] eqn:E.
      intros H; injection H as <- <- <- <- <-. apply HInv_weaken.
      destruct Hst as [Hit Hd].
      eapply (HInv_observe_run n s outs ops [] os _ a b e _ [c0]); eauto.
    + intros E; injection E as <- <- <- <- <-. rewrite <- Eo. apply (HInv_nothing' n s outs ops); auto.
    + intros E; injection E as <- <- <- <- <-. rewrite <- Eo. apply (HInv_nothing' n s outs ops); auto.
  - (* CObserveCancel *)
    destruct (cs_o s) as [os|] eqn:Eo; [|intros H; injection H as <- <- <-; now apply HInv_nothing].
    destruct (I4 _ eq_refl) as [Hid [Hlt Hst]].
    destruct (observe_cancel os (cs_db s)) as [[[d' os'] opsg] ran] eqn:E.
    intros H; injection H as <- <- <-. revert E. unfold observe_cancel.
    destruct (d_txn (cs_db s)) eqn:Etx.
    { intros E; injection E as <- <- <- <-. rewrite <- Eo. apply (HInv_nothing' n s outs ops); auto. }
    assert (Hclose : forall tl, delivered observe_iid (init_db n) ops = reported outs ++ tl -> (length tl <= 1)%nat ->
              HInv n false (mkCS (fst (run (cs_db s) [OClose (ov_iid os)])) (cs_d s) (Some (oset os ODone)) (cs_mode s))
                   (outs ++ [CoRan true false]) (ops ++ [OClose (ov_iid os)])).
    { intros tl Htl Hlen. constructor; cbn [cs_db cs_d cs_o cs_mode]; auto.
      - rewrite run_app, <- I1. reflexivity.
      - discriminate.
      - intros os0 E0. injection E0 as <-. cbn [oset ov_iid ov_tab]. split; [exact Hid|]. split; [exact Hlt|].
        unfold obs_state. cbn [oset ov_phase]. exists tl. split; [|exact Hlen].
        rewrite delivered_app, reported_app. cbn [delivered reported flat_map]. rewrite !app_nil_r. exact Htl. }
    unfold obs_state in Hst. destruct (ov_phase os) eqn:Eph; intros E; injection E as <- <- <- <-;
      try (rewrite <- Eo; apply (HInv_nothing' n s outs ops); now auto).
    + destruct Hst as [_ Hd]. apply (Hclose [c]); auto.
    + destruct Hst as [_ Hd]. apply (Hclose []); auto. now rewrite app_nil_r.
  - (* CObserveStat *)
    destruct (cs_o s); intros H; injection H as <- <- <-; now apply HInv_nothing.
Qed.

(* the eager wake-up re-establishes: a waiting observer waits on the watch channel of the CURRENT table revision *)
Lemma HInv_wake n s outs ops os d' os' o2 :
  HInv n false s outs ops -> cs_o s = Some os -> observe_wake os (cs_db s) = (d', os', o2) ->
  HInv n true (mkCS d' (cs_d s) (Some os') (cs_mode s)) outs (ops ++ o2).
Proof.
  intros HI Eo. pose proof HI as [I1 I2 I3 I4]. destruct (I4 _ Eo) as [Hid [Hlt Hst]].
  unfold observe_wake, o_woken. unfold obs_state in Hst. destruct (ov_phase os) eqn:Eph.
  1,2,4: intros H; injection H as <- <- <-; rewrite app_nil_r; constructor; cbn [cs_db cs_d cs_o cs_mode]; auto;
    try discriminate; intros os0 E0; injection E0 as <-; split; [exact Hid|]; split; [exact Hlt|];
    unfold obs_state; rewrite Eph; exact Hst.
  destruct Hst as [[it [cur [A [B [C [D [E F]]]]]]] G]. rewrite E.
  destruct (t_rev cur =? watchrev) eqn:Er; cbn [negb].
  - intros H; injection H as <- <- <-; rewrite app_nil_r; constructor; cbn [cs_db cs_d cs_o cs_mode]; auto;
      try discriminate. intros os0 E0; injection E0 as <-; split; [exact Hid|]; split; [exact Hlt|].
    unfold obs_state; rewrite Eph. split; [|exact G]. exists it, cur. repeat (split; [assumption|]).
    intros _. now apply N.eqb_eq.
  - intros H.
    assert (Hos : os = oset os (OWait watchrev)) by (unfold oset; rewrite <- Eph; destruct os; reflexivity).
    rewrite Hos in H.
    assert (HI' : HInv n true (mkCS (cs_db s) (cs_d s) (Some (oset os ODone)) (cs_mode s)) outs ops).
    { constructor; cbn [cs_db cs_d cs_o cs_mode]; auto; [discriminate|]. intros os0 E0. injection E0 as <-.
      cbn [oset ov_iid ov_tab]. split; [exact Hid|]. split; [exact Hlt|]. unfold obs_state. cbn [oset ov_phase].
      exists []. rewrite app_nil_r. split; [exact G|cbn; lia]. }
    (* reuse HInv_observe_run through a state whose observer component is irrelevant to it *)
    pose proof (HInv_observe_run n _ outs ops [] (oset os ODone) (cs_db s) d' os' o2 (CoStat false) [] HI' eq_refl eq_refl eq_refl) as K.
    cbn [cs_db cs_d cs_mode oset ov_iid ov_tab ov_sid] in K.
    assert (K' : HInv n true (mkCS d' (cs_d s) (Some os') (cs_mode s)) (outs ++ [CoStat false]) (ops ++ o2)).
    { apply (K (ex_intro _ it (conj A B)) eq_refl) with (ph := OWait watchrev); [now rewrite app_nil_r|].
      exact H. }
    destruct K' as [K1 K2 K3 K4]. constructor; auto.
    + intros E0; discriminate.
    + intros os0 E0. specialize (K4 _ E0). rewrite reported_app in K4. cbn [reported flat_map] in K4.
      rewrite app_nil_r in K4. exact K4.
Qed.

Lemma HInv_cstep n s outs ops c s' x ops1 :
  HInv n true s outs ops -> cop_ok' n c = true -> cstep s c = (s', x, ops1) ->
  HInv n true s' (outs ++ [x]) (ops ++ ops1).
Proof.
  intros HI Hc. unfold cstep. destruct (cstep0 s c) as [[s1 y] o1] eqn:E0.
  pose proof (HInv_cstep0 n s outs ops c s1 y o1 HI Hc E0) as H1.
  destruct (cs_o s1) as [os|] eqn:Eo.
  - destruct (observe_wake os (cs_db s1)) as [[d' os'] o2] eqn:Ew. intros H; injection H as <- <- <-.
    rewrite app_assoc. eapply HInv_wake; eauto.
  - intros H; injection H as <- <- <-. destruct H1 as [K1 K2 K3 K4]. constructor; auto.
    intros os E. congruence.
Qed.

Lemma HInv_crun n cs : forall s outs ops s' outs1 ops1,
  HInv n true s outs ops -> forallb (cop_ok' n) cs = true -> crun s cs = (s', outs1, ops1) ->
  HInv n true s' (outs ++ outs1) (ops ++ ops1).
Proof.
  induction cs as [|c r IH]; intros s outs ops s' outs1 ops1 HI Hc; cbn [crun].
  - intros H; injection H as <- <- <-. now rewrite !app_nil_r.
  - cbn [forallb] in Hc. apply andb_true_iff in Hc. destruct Hc as [Hc Hr].
    destruct (cstep s c) as [[s1 x] o1] eqn:E1. destruct (crun s1 r) as [[s2 xs] o2] eqn:E2.
    intros H; injection H as <- <- <-. rewrite app_assoc. change (x :: xs) with ([x] ++ xs). rewrite app_assoc.
    eapply IH; eauto. eapply HInv_cstep; eauto.
Qed.

Lemma HInv_init n : HInv n true (init_csys n 0) [] [].
Proof. constructor; cbn; auto; discriminate. Qed.

Definition held (os : ostate) : list (object * bool) := match ov_phase os with OHold c => [c] | _ => [] end.

(* H, main statement. In every run in which the harness does not use the observer's iterator id (Derive may run):
   - everything the observer's iterator has been handed has been reported by a returned callback, in order,
     except the change of the callback in progress; after cancellation at most that one change is missing;
   - (H1, run level) once released the goroutine is always inside a callback or in the select, never where the
     fuel-exhaustion / not-applicable branches of observe_run would leave it; and when it is in the select, it
     waits on the watch channel of the observed table's CURRENT revision with its iterator exhausted. *)
Theorem observer_run_invariant n cs s outs ops os :
  forallb (cop_ok' n) cs = true -> crun (init_csys n 0) cs = (s, outs, ops) -> cs_o s = Some os ->
  cs_db s = fst (run (init_db n) ops) /\
  let dlv := delivered observe_iid (init_db n) ops in
  match ov_phase os with
  | OReg => dlv = [] /\ reported outs = []
  | OHold c => dlv = reported outs ++ [c] /\
               exists it, assoc observe_iid (d_iters (cs_db s)) = Some it /\ it_tab it = ov_tab os
  | OWait wr => dlv = reported outs /\
                exists it cur, assoc observe_iid (d_iters (cs_db s)) = Some it /\ it_tab it = ov_tab os /\
                               it_pending it = None /\ it_watchrev it = wr /\
                               nth_error (d_root (cs_db s)) (ov_tab os) = Some cur /\ t_rev cur = wr
  | ODone => exists tl, dlv = reported outs ++ tl /\ (length tl <= 1)%nat
  end.
Proof.
  intros Hc H Eo. pose proof (HInv_crun n cs _ [] [] _ _ _ (HInv_init n) Hc H) as [I1 _ _ I4]. cbn [app] in *.
  split; [exact I1|]. destruct (I4 _ Eo) as [_ [_ Hst]]. unfold obs_state in Hst. cbv zeta.
  destruct (ov_phase os); auto.
  - destruct Hst as [A B]. auto.
  - destruct Hst as [[it [cur [A [B [C [D [E F]]]]]]] G]. split; [exact G|]. exists it, cur. auto 10.
Qed.

Corollary observer_reports_what_was_delivered n cs s outs ops os :
  forallb (cop_ok' n) cs = true -> crun (init_csys n 0) cs = (s, outs, ops) -> cs_o s = Some os ->
  ov_phase os <> ODone ->
  reported outs ++ held os = delivered observe_iid (init_db n) ops.
Proof.
  intros Hc H Eo Hd. destruct (observer_run_invariant n cs s outs ops os Hc H Eo) as [_ K]. cbv zeta in K.
  unfold held. destruct (ov_phase os).
  - destruct K as [-> ->]. reflexivity.
  - destruct K as [-> _]. reflexivity.
  - destruct K as [-> _]. now rewrite app_nil_r.
  - congruence.
Qed.

(* H1 for one release of the goroutine (`ogo`): it always ends inside a callback or in the select on the watch
   channel of the current revision, with its iterator exhausted; the branches of observe_run that return the
   phase they were given (out of fuel, operation not applicable) are not taken *)
Theorem observe_go_ends n os d d' os' ops c :
  LInv n d -> (ov_tab os < n)%nat ->
  (ov_phase os <> OReg -> exists it, assoc (ov_iid os) (d_iters d) = Some it /\ it_tab it = ov_tab os) ->
  observe_go os d = (d', os', ops, c, true) ->
  (exists c', ov_phase os' = OHold c') \/
  (exists it' cur, ov_phase os' = OWait (it_watchrev it') /\ assoc (ov_iid os) (d_iters d') = Some it' /\
                   it_pending it' = None /\ nth_error (d_root d') (ov_tab os) = Some cur /\
                   t_rev cur = it_watchrev it').
Proof.
  intros L Hlt Hit. unfold observe_go. destruct (d_txn d) eqn:Etx; [intros H; discriminate|].
  assert (Hrun : forall d1 acc ph a b e, LInv n d1 ->
            (exists it, assoc (ov_iid os) (d_iters d1) = Some it /\ it_tab it = ov_tab os) ->
            observe_run 4 (oset os ph) d1 acc = (a, b, e) ->
            (exists c', ov_phase b = OHold c') \/
            (exists it' cur, ov_phase b = OWait (it_watchrev it') /\ assoc (ov_iid os) (d_iters a) = Some it' /\
                             it_pending it' = None /\ nth_error (d_root a) (ov_tab os) = Some cur /\
                             t_rev cur = it_watchrev it')).
  { intros d1 acc ph a b e L1 [it [A B]] E. destruct (LInv_root n d1 (ov_tab os) L1 Hlt) as [cur Hc].
    destruct (observe_run4_ends (oset os ph) d1 acc it cur) as [ops1 [it' [H1 [H2 [H3 [H4 [H5 H6]]]]]]]; auto.
    { rewrite B. exact Hc. }
    rewrite E in *. cbn [fst snd oset ov_iid] in *.
    destruct H6 as [[c' [-> _]]|[-> [_ [Hp Hw]]]]; [left; eexists; reflexivity|right].
    exists it', cur. cbn [oset ov_phase]. rewrite H2. auto. }
  destruct (ov_phase os) eqn:Eph.
  - destruct (observe_run 4 os (fst (run d (observe_reg_ops os))) (observe_reg_ops os)) as [[a b] e] eqn:E.
    intros H; injection H as <- <- <- <- . 
    assert (Hos : os = oset os OReg) by (unfold oset; rewrite <- Eph; destruct os; reflexivity).
    pose proof (Hrun (fst (run d (observe_reg_ops os))) (observe_reg_ops os) OReg a b e) as K. rewrite <- Hos in K.
    apply K; [apply LInv_run; exact L| |exact E].
    unfold observe_reg_ops. apply reg_leg_iter with (n := n); auto.
  - destruct (observe_run 4 (oset os (OWait 0)) d []) as [[a b] e] eqn:E.
    intros H; injection H as <- <- <- <-. eapply Hrun; eauto. apply Hit. discriminate.
  - intros H; discriminate.
  - intros H; discriminate.
Qed.

(* ... and in a run of the system every release is of that kind *)
Corollary observer_release_ends n cs s outs ops os d' os' opsg c :
  forallb (cop_ok' n) cs = true -> crun (init_csys n 0) cs = (s, outs, ops) -> cs_o s = Some os ->
  observe_go os (cs_db s) = (d', os', opsg, c, true) ->
  (exists c', ov_phase os' = OHold c') \/
  (exists it' cur, ov_phase os' = OWait (it_watchrev it') /\ assoc observe_iid (d_iters d') = Some it' /\
                   it_pending it' = None /\ nth_error (d_root d') (ov_tab os) = Some cur /\
                   t_rev cur = it_watchrev it').
Proof.
  intros Hc H Eo Hgo. pose proof (HInv_crun n cs _ [] [] _ _ _ (HInv_init n) Hc H) as HI. cbn [app] in HI.
  destruct (h_o _ _ _ _ _ HI _ Eo) as [Hid [Hlt Hst]]. rewrite <- Hid.
  eapply (observe_go_ends n os (cs_db s)); eauto; [eapply HInv_LInv; eauto|].
  intros Hne. unfold obs_state in Hst. rewrite Hid. destruct (ov_phase os) eqn:Eph; try congruence.
  - destruct Hst as [A _]. exact A.
  - destruct Hst as [[it [cur [A [B _]]]] _]. eauto.
  - revert Hgo. unfold observe_go. rewrite Eph. destruct (d_txn (cs_db s)); discriminate.
Qed.

(* ==== the hypotheses are satisfiable ============================================================================ *)
(* insert a; the observer registers and is handed a (held in its callback), is released (a reported, Resume finds
   the sequence finished, Next finds the watch open: select); insert b and delete a in one transaction: the
   observer wakes up at the commit and is handed b; released: handed the deletion of a; released: select *)
Definition hx_run : list cop :=
  [CUser (OBegin [0%nat]); CUser (OInsert 0 (cx_pa 1)); CUser (OCommit 1); CObserveStart 0; CObserveGo; CObserveGo;
   CUser (OBegin [0%nat]); CUser (OInsert 0 (cx_pb 2)); CUser (ODelete 0 [97]); CUser (OCommit 2); CObserveGo; CObserveGo].
Definition hx_view (l : list (object * bool)) := map (fun c => (pk (fst c), o_rev (fst c), snd c)) l.

Example observer_run_invariant_nonvacuous :
  forallb (cop_ok' 1) hx_run = true /\
  (* at the end: in the select on revision 3, everything delivered has been reported *)
  (let r := crun (init_csys 1 0) hx_run in
   option_map ov_phase (cs_o (fst (fst r))) = Some (OWait 3) /\
   hx_view (reported (snd (fst r))) = [([97], 1, false); ([98], 2, false); ([97], 3, true)] /\
   hx_view (delivered observe_iid (init_db 1) (snd r)) = [([97], 1, false); ([98], 2, false); ([97], 3, true)] /\
   length (snd r) = 17%nat) /\
  (* one step earlier: inside the callback for the deletion of a, not yet reported *)
  (let r := crun (init_csys 1 0) (firstn 11 hx_run) in
   option_map (fun os => hx_view (held os)) (cs_o (fst (fst r))) = Some [([97], 3, true)] /\
   hx_view (reported (snd (fst r))) = [([97], 1, false); ([98], 2, false)] /\
   hx_view (delivered observe_iid (init_db 1) (snd r)) = [([97], 1, false); ([98], 2, false); ([97], 3, true)]) /\
  (* cancelled inside that callback: exactly that change is missing from the report *)
  (let r := crun (init_csys 1 0) (firstn 11 hx_run ++ [CObserveCancel]) in
   option_map ov_phase (cs_o (fst (fst r))) = Some ODone /\
   hx_view (reported (snd (fst r))) = [([97], 1, false); ([98], 2, false)] /\
   hx_view (delivered observe_iid (init_db 1) (snd r)) = [([97], 1, false); ([98], 2, false); ([97], 3, true)]).
Proof. vm_compute. repeat split; reflexivity. Qed.

Example observe_go_ends_nonvacuous :
  let s := fst (fst (crun (init_csys 1 0) (firstn 11 hx_run))) in
  match cs_o s with
  | Some os => (ov_tab os < 1)%nat /\ ov_phase os <> OReg /\
               (exists it, assoc (ov_iid os) (d_iters (cs_db s)) = Some it /\ it_tab it = ov_tab os) /\
               snd (observe_go os (cs_db s)) = true /\
               ov_phase (snd (fst (fst (fst (observe_go os (cs_db s)))))) = OWait 3 /\
               snd (fst (fst (observe_go os (cs_db s)))) = [OResume observe_iid (Some 1%nat); ONext observe_iid SFresh (Some 1%nat)]
  | None => False
  end.
Proof.
  vm_compute. split; [lia|]. split; [discriminate|]. split; [eexists; split; reflexivity|]. repeat split; reflexivity.
Qed.
