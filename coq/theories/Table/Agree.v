(* Table/Agree.v — the Agree invariant (Table/InvDefs.v: every secondary index — unique,
   non-unique, unique LPM, non-unique LPM — describes exactly the live objects) is preserved by
   every write operation of the table: insert / Modify / CompareAndSwap (modify), Delete /
   CompareAndDelete (delete), DeleteAll, including the rejected ones (identity).
   The part-index side is Table/AgreeN.v, the LPM side Table/AgreeLpm.v. *)
From SV Require Import Base.Bytes Base.OrdMap KeyEnc.Model Table.Model Table.InvDefs Table.Proofs
  Table.AgreeDefs Table.AgreeLpm Table.AgreeN.
From Coq Require Import ZifyN ZifyNat ZifyBool.
Open Scope N_scope.

Lemma Agree_empty : Agree empty_table.
Proof.
  unfold Agree, u_agree, n_agree, l_agree, live. cbn. repeat split; auto; try tauto;
    try (intros [x [_ [_ []]]]); match goal with H : exists _, False /\ _ |- _ => destruct H as [? [[] _]] end.
Qed.

Lemma new_object_id m p t : p_id (o_data (new_object m p t)) = p_id p.
Proof. unfold new_object. destruct m; [destruct (om_get (p_id p) (t_primary t))|]; reflexivity. Qed.
Lemma new_object_rev m p t : o_rev (new_object m p t) <> 0.
Proof. unfold new_object. destruct m; [destruct (om_get (p_id p) (t_primary t))|]; cbn [o_rev]; lia. Qed.

(* the five indexes after a write that went through *)
Lemma modify_ok_indexes g m p t t' old e : modify g m p t = (t', (old, e)) -> e = EOk ->
  let id := p_id p in let oo := old_object id t in let no := new_object m p t in
  t_primary t' = om_insert id no (t_primary t) /\
  t_u t' = reindex true p_u id oo no (t_u t) /\
  t_n t' = reindex false p_n id oo no (t_n t) /\
  t_lu t' = l_reindex true p_lu id oo no (t_lu t) /\
  t_ln t' = l_reindex false p_ln id oo no (t_ln t).
Proof.
  unfold modify, modify_with, new_object, old_object. intros H He; subst e. cbn zeta.
  destruct (0 <? g).
  - destruct (om_get (p_id p) (t_primary t)) as [o|] eqn:E; [|discriminate].
    destruct (o_rev o =? g); [|discriminate].
    destruct (om_get (p_id p) (t_grave t)); injection H as <- <-; cbn; destruct m; auto 10.
  - destruct (om_get (p_id p) (t_primary t)) as [o|] eqn:E;
      [|destruct (om_get (p_id p) (t_grave t))]; injection H as <- <-; cbn; destruct m; auto 10.
Qed.

Lemma delete_ok_indexes g id t : 
  (fst (delete g id t) = t) \/
  (let t' := fst (delete g id t) in let oo := old_object id t in
   t_primary t' = om_delete id (t_primary t) /\
   t_u t' = reindex true p_u id oo noobj (t_u t) /\
   t_n t' = reindex false p_n id oo noobj (t_n t) /\
   t_lu t' = l_reindex true p_lu id oo noobj (t_lu t) /\
   t_ln t' = l_reindex false p_ln id oo noobj (t_ln t)).
Proof.
  unfold delete, delete_with, old_object.
  destruct (om_get id (t_primary t)) as [o|] eqn:E; [|left; reflexivity].
  destruct ((0 <? g) && negb (o_rev o =? g)); [left; reflexivity|]. right. cbn. auto 10.
Qed.

(* ---- one step on all four secondary indexes -------------------------------------------------- *)
Lemma Agree_step t t' id oo no :
  step_ok (live t) (live t') id oo no ->
  (o_rev no <> 0 -> forall o k, live t' o -> In k (p_u (o_data no)) -> In k (p_u (o_data o)) -> o = no) ->
  (o_rev no <> 0 -> forall o k, live t' o -> In k (p_lu (o_data no)) -> In k (p_lu (o_data o)) -> o = no) ->
  t_u t' = reindex true p_u id oo no (t_u t) ->
  t_n t' = reindex false p_n id oo no (t_n t) ->
  t_lu t' = l_reindex true p_lu id oo no (t_lu t) ->
  t_ln t' = l_reindex false p_ln id oo no (t_ln t) ->
  Agree t -> Agree t'.
Proof.
  intros S Wu Wl Eu En Elu Eln [Au [An [Alu Aln]]].
  unfold Agree. rewrite u_agree_unfold, n_agree_unfold, !l_agree_unfold in *.
  rewrite Eu, En, Elu, Eln. split; [|split; [|split]].
  - now apply (reindex_agree_u' (live t)).
  - now apply (reindex_agree_n (live t)).
  - now apply (l_reindex_agree_u' (live t)).
  - now apply (l_reindex_agree_n (live t)).
Qed.

(* the new object's unique keys are not keys of another object that stays live *)
Definition new_respects {A} (keys : payload -> list A) (no : object) (t : table) : Prop :=
  forall o k, live t o -> p_id (o_data o) <> p_id (o_data no) -> In k (keys (o_data no)) -> ~ In k (keys (o_data o)).

(* ---- GOAL 2: modify ------------------------------------------------------------------------------ *)
Theorem modify_agree' g m p t : TInv t -> Agree t ->
  new_respects p_u (new_object m p t) t -> new_respects p_lu (new_object m p t) t ->
  Agree (fst (modify g m p t)).
Proof.
  intros I A Ru Rl. destruct (modify g m p t) as [t' [old e]] eqn:H. cbn [fst].
  assert (He : e = EOk \/ e <> EOk) by (destruct e; auto; right; discriminate).
  destruct He as [He|He]; [|now rewrite (modify_rejected_identity _ _ _ _ _ _ _ H He)].
  destruct (modify_ok_indexes _ _ _ _ _ _ _ H He) as [Ep [Eu [En [Elu Eln]]]].
  pose proof (insert_step_ok t t' (p_id p) (new_object m p t) I Ep (new_object_id m p t) (new_object_rev m p t)) as S.
  eapply Agree_step; eauto.
  - intros _ o k HL K1 K2. apply (so_live _ _ _ _ _ S) in HL. destruct HL as [[_ ->]|[HL Hne]]; auto.
    exfalso. apply (Ru o k HL); auto. now rewrite new_object_id.
  - intros _ o k HL K1 K2. apply (so_live _ _ _ _ _ S) in HL. destruct HL as [[_ ->]|[HL Hne]]; auto.
    exfalso. apply (Rl o k HL); auto. now rewrite new_object_id.
Qed.

(* the same with the documented well-formedness of the resulting table as hypothesis *)
Theorem modify_agree g m p t : TInv t -> Agree t ->
  u_wf (fst (modify g m p t)) -> lu_wf (fst (modify g m p t)) ->
  Agree (fst (modify g m p t)).
Proof.
  intros I A Wu Wl. destruct (modify g m p t) as [t' [old e]] eqn:H. cbn [fst] in *.
  assert (He : e = EOk \/ e <> EOk) by (destruct e; auto; right; discriminate).
  destruct He as [He|He]; [|now rewrite (modify_rejected_identity _ _ _ _ _ _ _ H He)].
  destruct (modify_ok_indexes _ _ _ _ _ _ _ H He) as [Ep [Eu [En [Elu Eln]]]].
  pose proof (insert_step_ok t t' (p_id p) (new_object m p t) I Ep (new_object_id m p t) (new_object_rev m p t)) as S.
  assert (HLn : live t' (new_object m p t)).
  { apply (so_live _ _ _ _ _ S). left. split; auto. apply new_object_rev. }
  eapply Agree_step; eauto.
Qed.

(* ---- GOAL 2: delete (no well-formedness needed: nothing is inserted) ------------------------------ *)
Theorem delete_agree g id t : TInv t -> Agree t -> Agree (fst (delete g id t)).
Proof.
  intros I A. destruct (delete_ok_indexes g id t) as [->|H]; auto. cbn zeta in H.
  destruct H as [Ep [Eu [En [Elu Eln]]]].
  pose proof (delete_step_ok t (fst (delete g id t)) id I Ep) as S.
  eapply Agree_step; eauto; cbn; congruence.
Qed.

(* deleting can only shrink the set of live objects, so well-formedness and the key-length
   guard survive *)
Lemma delete_live_sub g id t o : TInv t -> live (fst (delete g id t)) o -> live t o.
Proof.
  intros I. destruct (delete_ok_indexes g id t) as [->|H]; auto. cbn zeta in H. destruct H as [Ep _].
  unfold live. rewrite Ep. rewrite om_In_delete by apply (ti_sorted_primary _ I). tauto.
Qed.

Lemma delete_pk_short g id t : TInv t -> pk_short t -> pk_short (fst (delete g id t)).
Proof. intros I H o HL. apply H. eapply delete_live_sub; eauto. Qed.
Lemma delete_u_wf g id t : TInv t -> u_wf t -> u_wf (fst (delete g id t)).
Proof. intros I H o1 o2 k H1 H2. apply H; eapply delete_live_sub; eauto. Qed.
Lemma delete_lu_wf g id t : TInv t -> lu_wf t -> lu_wf (fst (delete g id t)).
Proof. intros I H o1 o2 k H1 H2. apply H; eapply delete_live_sub; eauto. Qed.

(* an agreeing unique index certifies u_wf *)
Lemma Agree_u_wf t : Agree t -> u_wf t.
Proof. intros [Au _]. apply u_wf_unfold. eapply u_agree_on_wf. apply u_agree_unfold. exact Au. Qed.
