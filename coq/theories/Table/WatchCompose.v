(* Table/WatchCompose.v — C06 composed: table model (Table/Model.v) + radix-tree model (Part/Model.v).

   "The channel returned by a watch query is closed no later than the return of the Commit that changes the
    query's result."

   The table model abstracts every part index to the ordered map it denotes (idx = omap object); the tree model
   stores numbers. They are connected by a value code `code : object -> N` (the tree stores the object; only
   its identity matters): the tree T of an index represents the index map m when abs_tree T = cmap code m.
   `code` must tell apart the two objects bound to the same key before and after (e.g. code = o_rev: a
   revision is assigned once, Table/InvDefs.v ti_rev_distinct_live).

   changed_result_closes_query_channel (ONE write transaction, any number of writes, then Commit = Notify):
     result of Q on t  <>  result of Q on t' = twrun t ws
     ==> the channel Q's handle has on the tree of the queried index of t is in the set closed by the
         Notify of the part.Txn that turned that tree into the tree of t'.
   changed_result_closes_query_channel_chain: the same over any chain of committed transactions between
     the tree the handle was taken on and the tree of t' (some Notify of the chain closes it).
   write_txn_tree_ops: the tree operations that realise a table write transaction on an index exist. *)
From SV Require Import Base.Bytes Base.OrdMap.
From SV Require Import Part.Model Part.Refine Part.Watch Part.Fresh Part.Footprint.
From SV Require Import Table.Model Table.WatchFootprint.
From Coq Require Import ZifyN ZifyNat ZifyBool.
Open Scope N_scope.

Section Code.
Variable code : object -> N.

(* the map of numbers a tree holding the index denotes *)
Definition cmap (m : idx) : omap N := map (fun kv => (fst kv, code (snd kv))) m.

Lemma cmap_get K m : om_get K (cmap m) = option_map code (om_get K m).
Proof.
  induction m as [|[k o] r IH]; cbn [cmap map om_get fst snd]; auto.
  destruct (bytes_eqb K k); auto. destruct (bytes_ltb K k); auto.
Qed.

Lemma cmap_insert K o m : cmap (om_insert K o m) = om_insert K (code o) (cmap m).
Proof.
  induction m as [|[k o'] r IH]; cbn [cmap map om_insert fst snd]; auto.
  destruct (bytes_eqb K k); auto. destruct (bytes_ltb K k); auto.
  cbn [map fst snd]. f_equal. exact IH.
Qed.

Lemma cmap_delete K m : cmap (om_delete K m) = om_delete K (cmap m).
Proof.
  induction m as [|[k o'] r IH]; cbn [cmap map om_delete fst snd]; auto.
  destruct (bytes_eqb K k); auto. destruct (bytes_ltb K k); auto.
  cbn [map fst snd]. f_equal. exact IH.
Qed.

Lemma cmap_sorted m : om_sorted m -> om_sorted (cmap m).
Proof.
  induction m as [|[k o] r IH]; cbn [cmap map om_sorted fst snd]; auto.
  intros [Ha Hs]. split; auto. unfold om_above in *. rewrite Forall_map. exact Ha.
Qed.

(* the tree operation realising an index operation of the table model *)
Definition iop_wop (x : iop) : wop :=
  match x with IIns K o => WIns K (code o) | IDel K => WDel K end.

Lemma cmap_iops ops : forall m, cmap (fold_left iapply ops m) = fold_left mstep (map iop_wop ops) (cmap m).
Proof.
  induction ops as [|x ops IH]; intros m; cbn [fold_left map]; auto.
  rewrite IH. f_equal. destruct x; cbn [iapply iop_wop mstep]; [apply cmap_insert|apply cmap_delete].
Qed.

(* the code tells apart the objects bound to the same key in the two maps *)
Definition code_separates (m m' : idx) : Prop :=
  forall K o o', om_get K m = Some o -> om_get K m' = Some o' -> code o = code o' -> o = o'.

Lemma binding_change_cmap m m' K : code_separates m m' ->
  binding_change (om_get K m) (om_get K m') -> om_get K (cmap m') <> om_get K (cmap m).
Proof.
  intros Hs B. rewrite !cmap_get.
  destruct (om_get K m) as [o|] eqn:G; destruct (om_get K m') as [o'|] eqn:G'; inversion B; subst;
    cbn [option_map]; try discriminate.
  intros E. injection E as E. symmetry in E. apply (Hs K o o' G G') in E. congruence.
Qed.

(* ---- ONE write transaction ---------------------------------------------------------------------------------- *)
(* t: the table a reader queried (Q, answer + handle h on the tree T of the index Q reads); ws: the writes of the
   next write transaction on the table; ops: the operations of the index's part.Txn during that transaction, which
   commits a tree denoting the index of t' = twrun t ws. If Q's answer on t' differs, h's channel is closed by the
   Notify of that part.Txn, i.e. by the Commit of the write transaction. *)
Theorem changed_result_closes_query_channel d d' tab tab' q ik h t ws T next ops :
  q_handle q = Some (ik, h) -> idx_sorted t ->
  tree_inv T next -> abs_tree T = cmap (index_of ik t) ->
  let xe := fold_left wstep ops (tree_txn T next) in
  abs_tree (snd (txn_commit xe)) = cmap (index_of ik (twrun t ws)) ->
  code_separates (index_of ik t) (index_of ik (twrun t ws)) ->
  run_query d tab q t <> run_query d' tab' q (twrun t ws) ->
  In (h_chan T h) (snd (txn_notify (fst (txn_commit xe)))).     (* write_txn.go Commit: tx.Commit(), then tx.Notify() *)
Proof.
  intros Hq S HI Ea. cbv zeta. intros Ea' Hs Hd. rewrite notify_after_commit.
  destruct (write_txn_result_change d d' tab tab' q ik h t ws Hq S Hd) as [K [F [C B]]].
  apply (changed_key_closes_handle T next ops h HI). exists K. split; [exact C|].
  rewrite Ea, Ea'. now apply binding_change_cmap.
Qed.

(* such operations exist: every write transaction of the table model acts on each index as a sequence of tree
   Inserts and Deletes *)
Theorem write_txn_tree_ops t ws ik : exists ops, forall T next,
  tree_ok T -> abs_tree T = cmap (index_of ik t) ->
  abs_tree (snd (txn_commit (fold_left wstep ops (tree_txn T next)))) = cmap (index_of ik (twrun t ws)).
Proof.
  destruct (twrun_iops ws t ik) as [iops E]. exists (map iop_wop iops). intros T next Hok Ea.
  destruct (tree_txn_ok T next Hok) as [Tok Ta].
  destruct (history_refines (map iop_wop iops) _ Tok) as [Xok Xa].
  destruct (txn_commit_ok _ Xok) as (_ & Ca & _).
  rewrite Ca, Xa, Ta, Ea, E. symmetry. apply cmap_iops.
Qed.

(* ---- any history of committed transactions ------------------------------------------------------------------- *)
(* t, t': ANY two tables with sorted indexes (e.g. the table a reader queried and the committed table any number of
   write transactions later); txns: the chain of part.Txns committed on the index's tree in between *)
Theorem changed_result_closes_query_channel_chain d d' tab tab' q ik h t t' T next txns :
  q_handle q = Some (ik, h) -> om_sorted (index_of ik t) -> om_sorted (index_of ik t') ->
  tree_inv T next -> abs_tree T = cmap (index_of ik t) ->
  abs_tree (fst (chain_end T next txns)) = cmap (index_of ik t') ->
  code_separates (index_of ik t) (index_of ik t') ->
  run_query d tab q t <> run_query d' tab' q t' ->
  exists cl, In cl (chain_closed T next txns) /\ In (h_chan T h) cl.
Proof.
  intros Hq S S' HI Ea Ea' Hs Hd.
  destruct (query_result_change d d' tab tab' q ik h t t' Hq S S' Hd) as [K [F [C B]]].
  apply (chain_changed_key_closes_handle txns T next h HI). exists K. split; [exact C|].
  rewrite Ea, Ea'. now apply binding_change_cmap.
Qed.
End Code.

(* ---- an injective code exists: with it no separation hypothesis is needed --------------------------------------- *)
Definition pairN (a b : N) : N := 2 ^ a * (2 * b + 1).
Lemma pairN_lt a a' b b' : a < a' -> pairN a b <> pairN a' b'.
Proof.
  unfold pairN. intros L E. replace a' with (a + N.succ (a' - a - 1)) in E by lia.
  rewrite N.pow_add_r, N.pow_succ_r', <- N.mul_assoc in E.
  apply N.mul_cancel_l in E; [|apply N.pow_nonzero; lia].
  set (d := 2 ^ (a' - a - 1)) in *. nia.
Qed.
Lemma pairN_inj a b a' b' : pairN a b = pairN a' b' -> a = a' /\ b = b'.
Proof.
  intros E. destruct (N.lt_trichotomy a a') as [L|[->|L]].
  - exfalso. exact (pairN_lt _ _ _ _ L E).
  - split; auto. unfold pairN in E. apply N.mul_cancel_l in E; [lia|apply N.pow_nonzero; lia].
  - exfalso. symmetry in E. exact (pairN_lt _ _ _ _ L E).
Qed.
Lemma pairN_pos a b : pairN a b <> 0.
Proof. unfold pairN. apply N.neq_mul_0. split; [apply N.pow_nonzero; lia|lia]. Qed.
Fixpoint listN {A} (f : A -> N) (l : list A) : N :=
  match l with [] => 0 | x :: r => pairN (f x) (listN f r) end.
Lemma listN_inj {A} (f : A -> N) : (forall a b, f a = f b -> a = b) ->
  forall l l', listN f l = listN f l' -> l = l'.
Proof.
  intros Hf. induction l as [|x l IH]; intros [|y l'] E; cbn [listN] in E; auto.
  - symmetry in E. now apply pairN_pos in E.
  - now apply pairN_pos in E.
  - apply pairN_inj in E. destruct E as [E1 E2]. f_equal; auto.
Qed.
Definition boolN (b : bool) : N := if b then 1 else 0.
Lemma boolN_inj a b : boolN a = boolN b -> a = b.
Proof. destruct a, b; cbn; intros H; auto; discriminate. Qed.
Definition idN (n : N) : N := n.
Lemma idN_inj a b : idN a = idN b -> a = b.
Proof. auto. Qed.

Definition payload_code (p : payload) : N :=
  pairN (listN idN (p_id p)) (pairN (p_val p) (pairN (listN (listN idN) (p_u p)) (pairN (listN (listN idN) (p_n p))
        (pairN (listN (listN boolN) (p_lu p)) (listN (listN boolN) (p_ln p)))))).
Definition obj_code (o : object) : N := pairN (payload_code (o_data o)) (o_rev o).

Lemma obj_code_inj a b : obj_code a = obj_code b -> a = b.
Proof.
  destruct a as [[i1 v1 u1 n1 lu1 ln1] r1], b as [[i2 v2 u2 n2 lu2 ln2] r2].
  unfold obj_code, payload_code. cbn [o_data o_rev p_id p_val p_u p_n p_lu p_ln]. intros E.
  apply pairN_inj in E. destruct E as [E ->].
  apply pairN_inj in E. destruct E as [E1 E].
  apply pairN_inj in E. destruct E as [-> E].
  apply pairN_inj in E. destruct E as [E3 E].
  apply pairN_inj in E. destruct E as [E4 E].
  apply pairN_inj in E. destruct E as [E5 E6].
  apply (listN_inj idN idN_inj) in E1.
  apply (listN_inj _ (listN_inj idN idN_inj)) in E3, E4.
  apply (listN_inj _ (listN_inj boolN boolN_inj)) in E5, E6.
  subst. reflexivity.
Qed.

Lemma obj_code_separates m m' : code_separates obj_code m m'.
Proof. intros K o o' _ _. apply obj_code_inj. Qed.

(* the composed theorems for the injective representation of objects as tree values: no side condition on the code *)
Corollary changed_result_closes_query_channel_inj d d' tab tab' q ik h t ws T next ops :
  q_handle q = Some (ik, h) -> idx_sorted t ->
  tree_inv T next -> abs_tree T = cmap obj_code (index_of ik t) ->
  let xe := fold_left wstep ops (tree_txn T next) in
  abs_tree (snd (txn_commit xe)) = cmap obj_code (index_of ik (twrun t ws)) ->
  run_query d tab q t <> run_query d' tab' q (twrun t ws) ->
  In (h_chan T h) (snd (txn_notify (fst (txn_commit xe)))).
Proof.
  intros Hq S HI Ea. cbv zeta. intros Ea' Hd.
  exact (changed_result_closes_query_channel obj_code d d' tab tab' q ik h t ws T next ops Hq S HI Ea Ea'
           (obj_code_separates _ _) Hd).
Qed.

Corollary changed_result_closes_query_channel_chain_inj d d' tab tab' q ik h t t' T next txns :
  q_handle q = Some (ik, h) -> om_sorted (index_of ik t) -> om_sorted (index_of ik t') ->
  tree_inv T next -> abs_tree T = cmap obj_code (index_of ik t) ->
  abs_tree (fst (chain_end T next txns)) = cmap obj_code (index_of ik t') ->
  run_query d tab q t <> run_query d' tab' q t' ->
  exists cl, In cl (chain_closed T next txns) /\ In (h_chan T h) cl.
Proof.
  intros Hq S S' HI Ea Ea' Hd.
  exact (changed_result_closes_query_channel_chain obj_code d d' tab tab' q ik h t t' T next txns Hq S S' HI Ea Ea'
           (obj_code_separates _ _) Hd).
Qed.

(* ---- non-vacuity ------------------------------------------------------------------------------------------------ *)
(* a table with a non-unique index: objects a (keys "x"), b (key "y"); a reader lists key "y" -> [b], handle =
   Prefix(enc "y") on the tree of the non-unique index. The next write transaction updates a so that it gains the key
   "y": a NEWLY QUALIFIES. The footprint key nuk "a" "y" is new in the index, the answer changes, and the Notify of
   the tree transaction closes the channel the reader holds. *)
(* ex_a1, ex_b, ex_a2, ex_t, ex_ws, ex_q: Table/WatchFootprint.v *)
(* the tree of the non-unique index of ex_t, built by one earlier tree transaction *)
Definition ex_T : tree :=
  snd (txn_commit (fold_left wstep (map (iop_wop o_rev) [IIns (nuk [97] [120]) (mkO ex_a1 1); IIns (nuk [98] [121]) (mkO ex_b 2)])
                             (tree_txn (fst (tree_new false 1)) 2))).
Definition ex_ops : list wop := map (iop_wop o_rev) [IIns (nuk [97] [120]) (mkO ex_a2 3); IIns (nuk [97] [121]) (mkO ex_a2 3)].

Example compose_nonvacuous :
  q_handle ex_q = Some (INn, HPrefix (enc [121])) /\
  idx_sorted ex_t /\ tree_inv ex_T 10 /\
  abs_tree ex_T = cmap o_rev (index_of INn ex_t) /\
  abs_tree (snd (txn_commit (fold_left wstep ex_ops (tree_txn ex_T 10)))) = cmap o_rev (index_of INn (twrun ex_t ex_ws)) /\
  code_separates o_rev (index_of INn ex_t) (index_of INn (twrun ex_t ex_ws)) /\
  q_list INn [121] ex_t = [mkO ex_b 2] /\
  q_list INn [121] (twrun ex_t ex_ws) = [mkO ex_a2 3; mkO ex_b 2] /\
  (* the footprint key of the newly qualifying object: absent before, bound after *)
  fp ex_q (nuk [97] [121]) = true /\
  om_get (nuk [97] [121]) (index_of INn ex_t) = None /\
  om_get (nuk [97] [121]) (index_of INn (twrun ex_t ex_ws)) = Some (mkO ex_a2 3) /\
  (* the channel the reader holds, and the set the commit closes *)
  h_chan ex_T (HPrefix (enc [121])) = 4 /\
  In 4 (snd (txn_notify (fst (txn_commit (fold_left wstep ex_ops (tree_txn ex_T 10)))))).
Proof.
  split; [reflexivity|]. split; [apply twrun_sorted, idx_sorted_empty|]. split.
  - assert (I0 : tree_inv (fst (tree_new false 1)) 2) by (apply (tree_inv_new false 1); lia).
    eapply tree_inv_mono; [|exact (proj1 (commit_tree_inv _ 2 _ I0))]. vm_compute. discriminate.
  - split; [vm_compute; reflexivity|]. split; [vm_compute; reflexivity|]. split.
    + intros K o o' G G'. apply om_get_Some_In in G, G'. vm_compute in G, G'.
      destruct G as [G|[G|[]]]; destruct G' as [G'|[G'|[G'|[]]]];
        inversion G; subst; inversion G'; subst; cbn [o_rev]; intros R; try discriminate R; reflexivity.
    + vm_compute. repeat split; auto.
Qed.

Print Assumptions changed_result_closes_query_channel.
Print Assumptions changed_result_closes_query_channel_chain.
Print Assumptions changed_result_closes_query_channel_chain_inj.
Print Assumptions write_txn_tree_ops.
