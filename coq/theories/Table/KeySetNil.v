(* Table/KeySetNil.v — index/keyset.go and index/string.go at the level where Go distinguishes a nil Key from the
   empty one. Table/Model.v takes an object's keys in an index as a `list bytes`; this file justifies that for key
   sets built the usual way (index.String on each string, NewKeySet on the slice), and refutes it for NewKeySet as it
   was before 4c2d0ee (D17). *)
From Coq Require Import List.
Import ListNotations.
From SV Require Import Base.Bytes.

Definition gokey := option bytes.                                   (* None = a nil Key *)
Definition key_bytes (k : gokey) : bytes := match k with Some b => b | None => [] end.

(* index.String: unsafe.Slice(unsafe.StringData(s), len(s)) - nil for the empty string *)
Definition index_string (s : bytes) : gokey := match s with [] => None | _ => Some s end.

(* KeySet{head, tail}; Foreach returns at once when head == nil *)
Record keyset := mkKS { ks_head : gokey; ks_tail : list gokey; ks_some : bool (* false: KeySet{} *) }.
Definition foreach (ks : keyset) : list bytes :=
  if ks_some ks then match ks_head ks with
                     | None => []
                     | Some h => h :: map key_bytes (ks_tail ks) end
  else [].
(* NewKeySet before the fix: KeySet{keys[0], keys[1:]} *)
Definition new_keyset_old (keys : list gokey) : keyset :=
  match keys with [] => mkKS None [] false | k :: r => mkKS k r true end.
(* NewKeySet as it is: a nil first key is the empty key *)
Definition new_keyset (keys : list gokey) : keyset :=
  match keys with [] => mkKS None [] false | k :: r => mkKS (Some (key_bytes k)) r true end.

Lemma key_bytes_index_string s : key_bytes (index_string s) = s.
Proof. destruct s; reflexivity. Qed.

(* the keys an index sees for an object are exactly the strings given, in order, whatever they are *)
Theorem keyset_holds_its_keys ss : foreach (new_keyset (map index_string ss)) = ss.
Proof.
  destruct ss as [|s r]; [reflexivity|]. cbn [map new_keyset foreach ks_some ks_head ks_tail].
  rewrite key_bytes_index_string. f_equal. rewrite map_map.
  induction r as [|x r IH]; [reflexivity|]. cbn [map]. now rewrite key_bytes_index_string, IH.
Qed.

(* ... which was false: a set starting with the empty string held nothing *)
Theorem keyset_nil_head_refuted :
  exists ss, ss = [[]; [120]]%N /\ foreach (new_keyset_old (map index_string ss)) = [].
Proof. eexists. split; reflexivity. Qed.
