(* Table/Refuted.v — statements that are FALSE for the faithful model of an earlier version
   of the code (kept as regression witnesses of the fixes in /repo). *)
From SV Require Import Base.Bytes Base.OrdMap KeyEnc.Model Table.Model Table.InvDefs.
Open Scope N_scope.

(* index/keyset.go before fix 00118b6: KeySet{}.Exists(emptyKey) = true (the nil head compares
   equal to the empty key). Deleting an object whose non-unique key set is {""} then finds
   its only old key "in" the (empty) new key set and leaves the index entry behind. *)
Definition rk_payload : payload := mkP [97] 1 [] [[]] [] [].
Definition rk_table : table := fst (modify 0 false rk_payload empty_table).
Definition rk_obj : object := mkO rk_payload 1.

Lemma rk_table_n : t_n rk_table = [(nuk [97] [], rk_obj)] /\ t_primary rk_table = [([97], rk_obj)].
Proof. vm_compute. split; reflexivity. Qed.

Lemma rk_table_agree : n_agree rk_table.
Proof.
  destruct rk_table_n as [Hn Hp]. unfold n_agree, live. rewrite Hn, Hp. split.
  - simpl. split; [constructor|exact I].
  - intros K o. split.
    + intros [H|[]]. injection H as <- <-. exists []. cbn. auto.
    + intros [k [Hk [HK [HL|[]]]]]. injection HL as Hid <-. cbn in Hk. destruct Hk as [<-|[]]. left. now rewrite HK.
Qed.

Lemma rk_deleted :
  t_n (fst (delete_with reindex_old 0 [97] rk_table)) = [(nuk [97] [], rk_obj)] /\
  t_primary (fst (delete_with reindex_old 0 [97] rk_table)) = [].
Proof. vm_compute. split; reflexivity. Qed.

(* the stale entry remains although no object is live any more *)
Theorem reindex_empty_key_refuted :
  exists t id, n_agree t /\ ~ n_agree (fst (delete_with reindex_old 0 id t)).
Proof.
  exists rk_table, [97]. split; [exact rk_table_agree|].
  destruct rk_deleted as [Hn Hp]. unfold n_agree, live. rewrite Hn, Hp. intros [_ H].
  destruct (proj1 (H (nuk [97] []) rk_obj) (or_introl eq_refl)) as [k [_ [_ []]]].
Qed.

(* ... and a query observes it: List("") on the non-unique index still returns the deleted object *)
Theorem reindex_empty_key_stale_list :
  q_list INn [] (fst (delete_with reindex_old 0 [97] rk_table)) = [rk_obj] /\
  q_all (fst (delete_with reindex_old 0 [97] rk_table)) = [].
Proof. vm_compute. split; reflexivity. Qed.

(* the fixed Exists does not have the problem on the same witness *)
Example reindex_empty_key_fixed :
  t_n (fst (delete 0 [97] rk_table)) = [] /\ q_list INn [] (fst (delete 0 [97] rk_table)) = [].
Proof. vm_compute. split; reflexivity. Qed.

Print Assumptions reindex_empty_key_refuted.
Print Assumptions reindex_empty_key_stale_list.
