(* Table/ClientsRun8.v — C19 at run level, the converse bookkeeping: from Derive's start until the loop's marking
   leg, the derived table carries the pending initializer derive_name, in the committed root and in any open
   transaction; hence the derived table reports itself initialized only after the marking leg
   (whose properties Table/ClientsRun7.v derive_init_handover states). *)
From Coq Require Import List NArith Bool Lia.
Import ListNotations.
From SV Require Import Base.Bytes Base.OrdMap KeyEnc.Model Table.Model Table.Proofs Table.InvDefs Table.Inv Table.Inv2
                       Table.GcProofs Table.ChangesStream Table.ChangesIter Table.ChangesProofs Table.ChangesRet
                       Table.ChangesHist Table.ChangesFromInit Table.Clients Table.ClientsProofs Table.ClientsProofs2
                       Table.ClientsRun Table.ClientsRun2 Table.ClientsRun5 Table.ClientsRun7.
Local Open Scope N_scope.

(* ==== the frame on t_init ====================================================================================== *)
Lemma modify_init g m p t : t_init (fst (modify g m p t)) = t_init t.
Proof.
  unfold modify, modify_with.
  repeat match goal with |- context [match ?x with _ => _ end] => destruct x end; reflexivity.
Qed.
Lemma delete_init g id t : t_init (fst (delete g id t)) = t_init t.
Proof.
  unfold delete, delete_with.
  repeat match goal with |- context [match ?x with _ => _ end] => destruct x end; reflexivity.
Qed.
Lemma delete_all_init t : t_init (delete_all t) = t_init t.
Proof.
  unfold delete_all. generalize (t_primary t) as l. intros l. revert t.
  induction l as [|kv r IH]; intros t; cbn [fold_left]; [reflexivity|]. rewrite IH. apply delete_init.
Qed.

(* the table has the pending initializer derive_name *)
Definition pend (t : table) : Prop := exists w p, t_init t = Some (w, p) /\ In derive_name p.
Lemma pend_init t t' : t_init t' = t_init t -> pend t -> pend t'.
Proof. intros E [w [p [A B]]]. exists w, p. split; congruence. Qed.

Lemma pend_not_initialized t : pend t -> fst (fst (q_init t)) = false.
Proof. intros [w [p [A B]]]. unfold q_init. rewrite A. destruct p; [destruct B|reflexivity]. Qed.

Definition ientry (out : nat) (d : db) : Prop :=
  (forall t, nth_error (d_root d) out = Some t -> pend t) /\
  (forall es old te b, d_txn d = Some (es, old) -> nth_error es out = Some (te, b) -> pend te).

(* the one operation that can complete the initializer *)
Definition noinitdone (out : nat) (o : op) : bool :=
  match o with OInitDone t nm => negb (Nat.eqb t out && (nm =? derive_name)) | _ => true end.

Lemma ientry_same out d d' : d_root d' = d_root d -> d_txn d' = d_txn d -> ientry out d -> ientry out d'.
Proof. intros R T [P1 P2]. split; [rewrite R; exact P1|rewrite T; exact P2]. Qed.

Lemma ientry_upd out d es old tab t t' :
  d_txn d = Some (es, old) -> nth_error es tab = Some (t, true) -> (tab = out -> pend t -> pend t') ->
  ientry out d -> ientry out (set_txn d (Some (upd_nth tab (fun _ => (t', true)) es, old))).
Proof.
  intros Ht Hn Hp [P1 P2]. split; [exact P1|]. cbn [set_txn d_txn]. intros es' old' te b E H. injection E as <- _.
  destruct (Nat.eq_dec tab out) as [->|Hne].
  - rewrite (nth_error_upd_nth_same _ _ _ _ Hn) in H. injection H as <- _. eauto.
  - rewrite nth_error_upd_nth_other in H by exact Hne. eauto.
Qed.

Lemma ientry_with_locked out d tab f a b :
  (tab = out -> forall t, pend t -> pend (fst (f t))) -> ientry out d -> ientry out (fst (with_locked d tab f a b)).
Proof.
  intros Hf HP. destruct (with_locked_cases d tab f a b) as [->|[es [old [t [E1 [E2 ->]]]]]]; [exact HP|].
  eapply ientry_upd; eauto.
Qed.

Lemma step_ientry out d o : noinitdone out o = true -> ientry out d -> ientry out (fst (step d o)).
Proof.
  intros Hno HP.
  destruct o; cbn [step];
    try (apply ientry_with_locked; [|exact HP]; intros _ t; apply pend_init; rewrite fst_wr;
         first [apply modify_init|apply delete_init]).
  - (* OBegin *)
    destruct (d_txn d) eqn:Et; [exact HP|]. cbn [fst]. destruct HP as [P1 P2]. split; [exact P1|].
    cbn [set_txn d_txn]. intros es old te b E H. injection E as <- _.
    rewrite begin_entries, nth_error_map in H. destruct (nth_error (d_root d) out) as [t|] eqn:En; [|discriminate].
    cbn in H. injection H as <- _. auto.
  - (* ODeleteAll *)
    destruct (d_txn d) as [[es old]|] eqn:Et; [|exact HP].
    destruct (nth_error es tab) as [[t [|]]|] eqn:E2;
      try (apply ientry_with_locked; [|exact HP]; intros _ t0; apply pend_init; apply delete_all_init).
    destruct (t_primary t); exact HP.
  - (* OCommit *)
    destruct (d_txn d) as [[es old]|] eqn:Et; [|exact HP]. cbn [fst]. destruct HP as [P1 P2].
    split; cbn [d_root d_txn]; [|discriminate].
    intros t H. rewrite nth_error_zip_with in H.
    destruct (nth_error es out) as [[te b]|] eqn:En; [|discriminate].
    destruct (nth_error (d_root d) out) as [cur|] eqn:Ec; [|discriminate]. injection H as <-.
    destruct b; [|auto]. pose proof (P2 _ _ _ _ Et En) as K. destruct K as [w [p [A B]]].
    rewrite A. destruct p; [destruct B|]. exists w, (n :: p). auto.
  - (* OAbort *)
    destruct (d_txn d); [|exact HP]. cbn [fst]. destruct HP as [P1 _]. split; [exact P1|discriminate].
  - (* OSnap *) apply (ientry_same out d); auto.
  - (* OQuery *) destruct (src_root d s); [|exact HP]. destruct (nth_error l tab); exact HP.
  - (* OChanges *)
    destruct (d_txn d) as [[es old]|] eqn:Et; [|exact HP].
    destruct (nth_error es tab) as [[t [|]]|] eqn:E2; try exact HP.
    destruct (nth_error old tab); [|exact HP]. cbn [fst].
    match goal with |- ientry out (set_iters (set_wm ?dd _) _) => apply (ientry_same out dd); auto end.
    eapply ientry_upd; eauto.
  - (* ONext *)
    destruct (step_next_frame d iid s take) as [A B]. apply (ientry_same out d); auto.
  - (* OResume *)
    destruct (assoc iid (d_iters d)) as [it|]; [|exact HP].
    destruct (it_pending it) as [l|]; [|exact HP]. destruct (it_seq it); [|exact HP].
    match goal with |- context [consume ?a ?b ?c ?dd ?e] =>
      pose proof (consume_frame b a c dd e) as Hc; destruct (consume a b c dd e) as [[x y] z] end.
    cbn [fst snd] in *. destruct Hc as [A [B _]]. apply (ientry_same out d); auto.
  - (* OClose *)
    destruct (assoc iid (d_iters d)) as [it|]; [|exact HP]. destruct (d_txn d) eqn:Et; [exact HP|]. cbn [fst].
    match goal with |- ientry out (gc_trigger ?x) => destruct (gc_trigger_frame x) as [A [B _]] end.
    destruct HP as [P1 P2]. split.
    + rewrite A. cbn [set_iters set_root d_root]. intros t H.
      destruct (Nat.eq_dec (it_tab it) out) as [<-|Hn].
      * destruct (nth_error (d_root d) (it_tab it)) as [cur|] eqn:Ec.
        -- rewrite (nth_error_upd_nth_same _ _ _ _ Ec) in H. injection H as <-. eapply pend_init; [|eauto]. reflexivity.
        -- rewrite nth_error_upd_nth_none in H by exact Ec. congruence.
      * rewrite nth_error_upd_nth_other in H by exact Hn. auto.
    + rewrite B. cbn [set_iters set_root d_txn]. rewrite Et. discriminate.
  - (* OGcScan *) destruct (d_gc d); exact HP.
  - (* OGcApply *)
    destruct (d_gc d) eqn:Eg; try exact HP. destruct (d_txn d) eqn:Et; [exact HP|]. cbn [fst].
    destruct HP as [P1 P2]. split.
    + assert (R : d_root (gc_settle (set_gc (set_root d (zip_with gc_apply_table keys (d_root d))) GIdle)) =
                  zip_with gc_apply_table keys (d_root d)).
      { unfold gc_settle. cbn. destruct (d_gcchan d); reflexivity. }
      rewrite R. intros t H. rewrite nth_error_zip_with in H.
      destruct (nth_error keys out) as [ks|]; [|discriminate].
      destruct (nth_error (d_root d) out) as [cur|] eqn:Ec; [|discriminate]. injection H as <-.
      destruct (gc_apply_frame ks cur) as [_ [_ [_ [_ [_ [_ [_ [_ E]]]]]]]]. eapply pend_init; [exact E|auto].
    + assert (T : d_txn (gc_settle (set_gc (set_root d (zip_with gc_apply_table keys (d_root d))) GIdle)) = None).
      { unfold gc_settle. cbn. destruct (d_gcchan d); cbn; exact Et. }
      rewrite T. discriminate.
  - (* ORegInit: appends *)
    match goal with |- context [with_locked d tab ?f ?a ?b] =>
      assert (Hq : ientry out (fst (with_locked d tab f a b)));
      [apply ientry_with_locked; [|exact HP]|destruct (with_locked d tab f a b) as [d' x]] end.
    + intros _ t [w [p [A B]]]. rewrite A. destruct (existsb (N.eqb name) p); cbn [fst]; [exists w, p; auto|].
      exists w, (p ++ [name]). split; [reflexivity|]. apply in_or_app. auto.
    + cbn [fst] in *. exact Hq.
  - (* OInitDone: removes the given name only *)
    apply ientry_with_locked; [|exact HP]. intros -> t [w [p [A B]]]. rewrite A. cbn [fst].
    exists w, (filter (fun n => negb (n =? name)) p). split; [reflexivity|]. apply filter_In. split; [exact B|].
    cbn [noinitdone] in Hno. rewrite Nat.eqb_refl in Hno. cbn [andb] in Hno. rewrite N.eqb_sym. exact Hno.
Qed.

Lemma run_ientry out l : forall d, forallb (noinitdone out) l = true -> ientry out d -> ientry out (fst (run d l)).
Proof.
  induction l as [|o r IH]; intros d H HP; cbn [run]; [exact HP|].
  cbn [forallb] in H. apply andb_true_iff in H. destruct H as [Ho Hr].
  specialize (IH _ Hr (step_ientry out d o Ho HP)). destruct (step d o) as [d1 x]. cbn [fst] in *.
  destruct (run d1 r) as [d2 xs]. exact IH.
Qed.

(* Derive(): the registration of the initializer *)
Lemma start_leg_ientry n d out sid : LInv n d -> d_txn d = None -> (out < n)%nat ->
  ientry out (fst (run d [OBegin [out]; ORegInit out derive_name; OCommit sid])).
Proof.
  intros L Htx Hout. destruct (LInv_root n d out L Hout) as [t Ht].
  assert (Hb : fst (step d (OBegin [out])) =
               set_txn d (Some (upd_nth out (fun e => (fst e, true)) (map (fun t => (t, false)) (d_root d)), d_root d))).
  { cbn [step]. rewrite Htx. reflexivity. }
  assert (He : nth_error (upd_nth out (fun e => (fst e, true)) (map (fun t => (t, false)) (d_root d))) out = Some (t, true)).
  { rewrite (nth_error_upd_nth_same (fun e => (fst e, true)) _ out (t, false)) by (rewrite nth_error_map, Ht; reflexivity).
    reflexivity. }
  change [OBegin [out]; ORegInit out derive_name; OCommit sid] with ([OBegin [out]] ++ [ORegInit out derive_name] ++ [OCommit sid]).
  rewrite !run_app, !run_single, Hb.
  set (d1 := set_txn d (Some (upd_nth out (fun e => (fst e, true)) (map (fun t => (t, false)) (d_root d)), d_root d))).
  (* after the ORegInit: the locked entry has the pending initializer, the root is unchanged *)
  assert (H2 : exists es2 t2, d_txn (fst (step d1 (ORegInit out derive_name))) = Some (es2, d_root d) /\
                              nth_error es2 out = Some (t2, true) /\ pend t2 /\
                              d_root (fst (step d1 (ORegInit out derive_name))) = d_root d).
  { unfold d1. cbn [step with_locked set_txn d_txn]. rewrite He.
    destruct (t_init t) as [[w p]|] eqn:Ei; [destruct (existsb (N.eqb derive_name) p) eqn:Ex|]; cbn [fst set_txn d_txn d_root];
      eexists; eexists; (split; [reflexivity|]); (split; [rewrite (nth_error_upd_nth_same _ _ _ _ He); reflexivity|]); (split; [|reflexivity]).
    - exists w, p. split; [exact Ei|]. apply existsb_exists in Ex. destruct Ex as [y [Hy E]]. apply N.eqb_eq in E. now subst.
    - exists w, (p ++ [derive_name]). split; [reflexivity|]. apply in_or_app. right. left. reflexivity.
    - eexists; eexists. split; [reflexivity|]. left. reflexivity. }
  destruct H2 as [es2 [t2 [T2 [E2 [[w [p [A B]]] R2]]]]].
  revert T2 R2. generalize (fst (step d1 (ORegInit out derive_name))) as d2. intros d2 T2 R2.
  cbn [step]. rewrite T2. cbn [fst]. split; cbn [d_root d_txn]; [|discriminate].
  intros t' H. rewrite nth_error_zip_with, E2, R2, Ht in H. injection H as <-.
  rewrite A. destruct p; [destruct B|]. exists w, (n0 :: p). auto.
Qed.

(* ==== run level ================================================================================================ *)
(* the harness does not complete the derived table's initializer itself (and Derive is started on `out`) *)
Definition cop_okI0 (out : nat) (c : cop) : bool :=
  match c with
  | CUser o => noinitdone out o
  | CDeriveStart _ o => Nat.eqb o out
  | _ => true
  end.
Definition cop_okI (inn out : nat) (c : cop) : bool :=
  cop_okG inn out c && match c with CUser o => noinitdone out o | _ => true end.

Lemma cop_okI_okI0 inn out cs : forallb (cop_okI inn out) cs = true -> forallb (cop_okI0 out) cs = true.
Proof.
  intros H. rewrite forallb_forall in *. intros c Hc. specialize (H c Hc). unfold cop_okI in H.
  apply andb_true_iff in H. destruct H as [A B]. destruct c; cbn [cop_okI0 cop_okG] in *; auto.
  apply andb_true_iff in A. tauto.
Qed.
Lemma cop_okI_okG inn out cs : forallb (cop_okI inn out) cs = true -> forallb (cop_okG inn out) cs = true.
Proof.
  intros H. rewrite forallb_forall in *. intros c Hc. specialize (H c Hc). unfold cop_okI in H.
  apply andb_true_iff in H. tauto.
Qed.

Record IInv (n out : nat) (s : csys) : Prop := mkIInv {
  i_L : LInv n (cs_db s);
  i_d : forall ds, cs_d s = Some ds ->
        dv_out ds = out /\ dv_name ds = derive_name /\ (dv_marked ds = false -> ientry out (cs_db s))
}.

Lemma IInv_leg n out s d' l so :
  IInv n out s -> d' = fst (run (cs_db s) l) -> forallb (noinitdone out) l = true ->
  IInv n out (mkCS d' (cs_d s) so (cs_mode s)).
Proof.
  intros [L I] -> Hl. constructor; cbn [cs_db cs_d]; [now apply LInv_run|].
  intros ds E. destruct (I _ E) as [A [B C]]. split; [exact A|]. split; [exact B|]. intros Hm. apply run_ientry; auto.
Qed.

Lemma IInv_eta n out s : IInv n out s -> IInv n out (mkCS (cs_db s) (cs_d s) (cs_o s) (cs_mode s)).
Proof. intros H. apply (IInv_leg n out s (cs_db s) []); auto. Qed.

Lemma not_in_noinitdone out ops : (forall a b, ~ In (OInitDone a b) ops) -> forallb (noinitdone out) ops = true.
Proof.
  intros H. apply forallb_forall. intros o Ho. destruct o; try reflexivity. exfalso. exact (H _ _ Ho).
Qed.

(* a leg of the loop that leaves the flag unset issues no OInitDone *)
Lemma derive_go_unmarked out tr ds d d' ds' ops ran :
  derive_go tr ds d = (d', ds', ops, ran) ->
  dv_out ds' = dv_out ds /\ dv_name ds' = dv_name ds /\
  (dv_marked ds' = false -> dv_marked ds = false /\ forallb (noinitdone out) ops = true).
Proof.
  intros H. split; [|split; [exact (derive_go_name _ _ _ _ _ _ _ H)|]]; revert H; unfold derive_go;
    (destruct (d_txn d); [intros H; injection H as _ <- <- _; auto|]);
    (destruct (negb (d_ready ds d)); [intros H; injection H as _ <- <- _; auto|]).
  - assert (Hi : forall a b e, derive_iter tr ds d = (a, b, e) -> dv_out b = dv_out ds).
    { intros a b e E. destruct (derive_iter_ids tr ds d) as [A _]. rewrite E in A. exact A. }
    destruct (dv_phase ds).
    + intros H; injection H as _ <- _ _; reflexivity.
    + destruct (derive_iter tr ds d) as [[a b] e] eqn:E. intros H; injection H as _ <- _ _. eauto.
    + destruct (derive_iter tr ds d) as [[a b] e] eqn:E. intros H; injection H as _ <- _ _. eauto.
  - assert (Hi : forall a b e, derive_iter tr ds d = (a, b, e) -> dv_marked b = false ->
                 dv_marked ds = false /\ forallb (noinitdone out) e = true).
    { intros a b e E Hm. destruct (derive_no_initdone _ _ _ _ _ _ E (or_introl Hm)) as [K1 K2].
      split; [|now apply not_in_noinitdone]. destruct (dv_marked ds); [|reflexivity]. rewrite K1 in Hm; congruence. }
    destruct (dv_phase ds).
    + intros H; injection H as _ <- <- _. cbn. auto.
    + destruct (derive_iter tr ds d) as [[a b] e] eqn:E. intros H; injection H as _ <- <- _. eauto.
    + destruct (derive_iter tr ds d) as [[a b] e] eqn:E. intros H; injection H as _ <- <- _. eauto.
Qed.

Lemma observe_run_noinitdone out fuel os d acc : forallb (noinitdone out) acc = true ->
  forallb (noinitdone out) (snd (observe_run fuel os d acc)) = true.
Proof.
  intros Ha. destruct (observe_run_ops (noinitdone out) fuel os d acc eq_refl eq_refl) as [ops1 [H1 [H2 _]]].
  rewrite H1, forallb_app, Ha, H2. reflexivity.
Qed.

Lemma IInv_cstep0 n out s c s' x ops1 : (out < n)%nat ->
  IInv n out s -> cop_okI0 out c = true -> cstep0 s c = (s', x, ops1) -> IInv n out s'.
Proof.
  intros Hout HI Hc. pose proof HI as [L I]. destruct c; cbn [cstep0 cop_okI0] in *.
  - destruct (step (cs_db s) o) as [d' y] eqn:E. intros H; injection H as <- _ _.
    apply (IInv_leg n out s d' [o]); auto; [rewrite run_single, E; reflexivity|cbn [forallb]; now rewrite Hc].
  - apply Nat.eqb_eq in Hc. subst out0.
    destruct (cs_d s) eqn:Ed; [intros H; injection H as <- _ _; exact HI|].
    destruct (d_txn (cs_db s)) eqn:Etx; intros H; injection H as <- _ _; [exact HI|].
    constructor; [exact (LInv_run n (derive_start_ops (mkDS inn out derive_iid derive_name derive_sid false DReg)) _ L)|]. cbn [cs_db cs_d].
    intros ds E. injection E as <-. cbn [dv_out dv_name dv_marked]. split; [reflexivity|]. split; [reflexivity|]. intros _.
    exact (start_leg_ientry n (cs_db s) out derive_sid L Etx Hout).
  - destruct (cs_d s) as [ds|] eqn:Ed; [|intros H; injection H as <- _ _; exact HI].
    destruct (derive_go (tr_std (cs_mode s)) ds (cs_db s)) as [[[d' ds'] opsg] ran] eqn:E.
    intros H; injection H as <- _ _.
    destruct (derive_go_unmarked out _ _ _ _ _ _ _ E) as [A [B C]]. destruct (I _ eq_refl) as [I1 [I2 I3]].
    pose proof (derive_go_run _ _ _ _ _ _ _ E) as Hd.
    constructor; cbn [cs_db cs_d]; [rewrite Hd; now apply LInv_run|].
    intros ds0 E0. injection E0 as <-. split; [congruence|]. split; [congruence|].
    intros Hm. destruct (C Hm) as [C1 C2]. rewrite Hd. apply run_ientry; auto.
  - destruct (cs_d s) eqn:Ed; intros H; injection H as <- _ _; exact HI.
  - destruct (cs_o s); intros H; injection H as <- _ _; [exact HI|].
    constructor; cbn [cs_db cs_d]; auto.
  - destruct (cs_o s) as [os|]; [|intros H; injection H as <- _ _; exact HI].
    destruct (observe_go os (cs_db s)) as [[[[d' os'] opsg] c] ran] eqn:E. intros H; injection H as <- _ _.
    apply (IInv_leg n out s d' opsg); auto; [eapply observe_go_run; eauto|].
    revert E. unfold observe_go. destruct (d_txn (cs_db s)); [intros E; injection E as _ _ <- _ _; reflexivity|].
    destruct (ov_phase os).
    + pose proof (observe_run_noinitdone out 4 os (fst (run (cs_db s) (observe_reg_ops os))) (observe_reg_ops os) eq_refl) as K.
      destruct (observe_run 4 os (fst (run (cs_db s) (observe_reg_ops os))) (observe_reg_ops os)) as [[a b] e].
      intros E; injection E as _ _ <- _ _. exact K.
    + pose proof (observe_run_noinitdone out 4 (oset os (OWait 0)) (cs_db s) [] eq_refl) as K.
      destruct (observe_run 4 (oset os (OWait 0)) (cs_db s) []) as [[a b] e].
      intros E; injection E as _ _ <- _ _. exact K.
    + intros E; injection E as _ _ <- _ _; reflexivity.
    + intros E; injection E as _ _ <- _ _; reflexivity.
  - destruct (cs_o s) as [os|]; [|intros H; injection H as <- _ _; exact HI].
    destruct (observe_cancel os (cs_db s)) as [[[d' os'] opsg] ran] eqn:E. intros H; injection H as <- _ _.
    apply (IInv_leg n out s d' opsg); auto; [eapply observe_cancel_run; eauto|].
    revert E. unfold observe_cancel. destruct (d_txn (cs_db s)); [intros E; injection E as _ _ <- _; reflexivity|].
    destruct (ov_phase os); intros E; injection E as _ _ <- _; reflexivity.
  - destruct (cs_o s); intros H; injection H as <- _ _; exact HI.
Qed.

Lemma IInv_cstep n out s c s' x ops1 : (out < n)%nat ->
  IInv n out s -> cop_okI0 out c = true -> cstep s c = (s', x, ops1) -> IInv n out s'.
Proof.
  intros Hout HI Hc. unfold cstep. destruct (cstep0 s c) as [[s1 y] o1] eqn:E0.
  pose proof (IInv_cstep0 n out s c s1 y o1 Hout HI Hc E0) as H1.
  destruct (cs_o s1) as [os|]; [|intros H; injection H as <- _ _; exact H1].
  destruct (observe_wake os (cs_db s1)) as [[d' os'] o2] eqn:Ew. intros H; injection H as <- _ _.
  apply (IInv_leg n out s1 d' o2); auto; [eapply observe_wake_run; eauto|].
  revert Ew. unfold observe_wake. destruct (o_woken os (cs_db s1)); [|intros E; injection E as _ _ <-; reflexivity].
  pose proof (observe_run_noinitdone out 4 os (cs_db s1) [] eq_refl) as K. intros E. rewrite E in K. exact K.
Qed.

Lemma IInv_crun n out cs : (out < n)%nat -> forall s s' outs ops,
  IInv n out s -> forallb (cop_okI0 out) cs = true -> crun s cs = (s', outs, ops) -> IInv n out s'.
Proof.
  intros Hout. induction cs as [|c r IH]; intros s s' outs ops HI Hc; cbn [crun].
  - intros H; injection H as <- _ _. exact HI.
  - cbn [forallb] in Hc. apply andb_true_iff in Hc. destruct Hc as [Hc Hr].
    destruct (cstep s c) as [[s1 x] o1] eqn:E1. destruct (crun s1 r) as [[s2 xs] o2] eqn:E2.
    intros H; injection H as <- _ _. apply (IH s1 s2 xs o2); auto. eapply IInv_cstep; eauto.
Qed.

Lemma IInv_init n out : IInv n out (init_csys n 0).
Proof. constructor; [apply LInv_init|]. cbn. discriminate. Qed.

(* (i) until the loop's marking leg the derived table carries the pending initializer derive_name, in the root and
       in any open transaction: it is NOT initialized *)
Theorem derive_unmarked_not_initialized n out cs s outs ops ds :
  (out < n)%nat -> forallb (cop_okI0 out) cs = true -> crun (init_csys n 0) cs = (s, outs, ops) ->
  cs_d s = Some ds -> dv_marked ds = false ->
  (exists tout w p, nth_error (d_root (cs_db s)) out = Some tout /\ t_init tout = Some (w, p) /\ In derive_name p /\
                    fst (fst (q_init tout)) = false) /\
  (forall es old te b, d_txn (cs_db s) = Some (es, old) -> nth_error es out = Some (te, b) ->
     exists w p, t_init te = Some (w, p) /\ In derive_name p).
Proof.
  intros Hout Hc H Ed Hm. pose proof (IInv_crun n out cs Hout _ _ _ _ (IInv_init n out) Hc H) as [L I].
  destruct (I _ Ed) as [_ [_ K]]. destruct (K Hm) as [P1 P2]. split; [|exact P2].
  destruct (LInv_root n _ out L Hout) as [tout Ht]. pose proof (P1 _ Ht) as Hp. pose proof (pend_not_initialized _ Hp) as Hq.
  destruct Hp as [w [p [A B]]]. exists tout, w, p. auto.
Qed.

(* (ii) the derived table reports itself initialized only after the loop's marking leg *)
Corollary derive_initialized_only_after_mark n out cs s outs ops ds tout :
  (out < n)%nat -> forallb (cop_okI0 out) cs = true -> crun (init_csys n 0) cs = (s, outs, ops) ->
  cs_d s = Some ds -> nth_error (d_root (cs_db s)) out = Some tout -> fst (fst (q_init tout)) = true ->
  dv_marked ds = true.
Proof.
  intros Hout Hc H Ed Ht Hq. destruct (dv_marked ds) eqn:Hm; [reflexivity|].
  destruct (derive_unmarked_not_initialized n out cs s outs ops ds Hout Hc H Ed Hm) as [[t [w [p [A [_ [_ B]]]]]] _].
  congruence.
Qed.

(* the same under the condition of the other C19 run-level theorems *)
Corollary derive_initialized_only_after_mark' n inn out cs s outs ops ds tout :
  (out < n)%nat -> forallb (cop_okI inn out) cs = true -> crun (init_csys n 0) cs = (s, outs, ops) ->
  cs_d s = Some ds -> nth_error (d_root (cs_db s)) out = Some tout -> fst (fst (q_init tout)) = true ->
  dv_marked ds = true.
Proof. intros Hout Hc. apply derive_initialized_only_after_mark. exact Hout. eapply cop_okI_okI0; eauto. Qed.

(* satisfiable: cx_pre (ends right before the marking leg; its harness transactions register and complete
   ANOTHER initializer, 5, on the input table) and ix_run; after the marking leg the table is initialized *)
Example derive_unmarked_not_initialized_nonvacuous :
  forallb (cop_okI 0 1) cx_pre = true /\ forallb (cop_okI 0 1) ix_run = true /\
  (let s := fst (fst (crun (init_csys 2 0) cx_pre)) in
   option_map dv_marked (cs_d s) = Some false /\
   option_map t_init (nth_error (d_root (cs_db s)) 1) = Some (Some (1, [derive_name])) /\
   option_map (fun t => fst (fst (q_init t))) (nth_error (d_root (cs_db s)) 1) = Some false /\
   (let s' := fst (fst (cstep s CDeriveGo)) in
    option_map dv_marked (cs_d s') = Some true /\
    option_map (fun t => fst (fst (q_init t))) (nth_error (d_root (cs_db s')) 1) = Some true)) /\
  (let s := fst (fst (crun (init_csys 2 0) ix_run)) in
   option_map dv_marked (cs_d s) = Some false /\
   option_map (fun t => fst (fst (q_init t))) (nth_error (d_root (cs_db s)) 1) = Some false).
Proof. vm_compute. repeat split; reflexivity. Qed.
