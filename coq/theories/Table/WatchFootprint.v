(* Table/WatchFootprint.v — C06, the table-level step between "a query's result changed" and
   "a key of the index changed whose watch channel the query returned".

   part_index.go picks the channel of a watch query as follows (partGet / partList / partPrefix /
   lowerBound / all):  Get/List on a unique index -> tree.Get(key);  Get/List on a non-unique index
   and Prefix on any index -> tree.Prefix(search key), search key = the escaped key on a non-unique
   index;  LowerBound and All -> the tree's root channel.  The part.Tree side (Part/*.v, C12) says
   which KEYS of the tree close such a channel when they are inserted, replaced or deleted:
   Get(k): k;  Prefix(q): every key with prefix q;  root: every key.  This set is the handle's
   coverage [h_covers].

   Here: for every query kind of run_query on a part index
     - its FOOTPRINT [fp q] : the set of index keys the answer is a function of (exact, for arbitrary
       sorted index maps; contained in the coverage of the handle the code returns: fp_covered),
     - LOCALITY: two sorted index maps that bind every footprint key alike give the same answer
       (iq_local / query_result_local), and its constructive contrapositive: if the answers differ,
       some footprint key was inserted, removed or re-bound (iq_change / query_result_change),
     - the lifting to write transactions of the model (any sequence of Insert / Modify /
       CompareAndSwap / Delete / CompareAndDelete / DeleteAll on a table: [twrun]).
   The composition with the radix tree is Table/WatchCompose.v. *)
From SV Require Import Base.Bytes Base.OrdMap KeyEnc.Model KeyEnc.Proofs Table.Model Table.Proofs
  Table.InvDefs Table.Inv3 Table.AgreeN Table.Queries Table.AgreeRun.
(* handle, h_covers (and h_chan, used in Table/WatchCompose.v) *)
From SV Require Import Part.Footprint.
From Coq Require Import ZifyN ZifyNat ZifyBool.
Open Scope N_scope.

(* ---- sorted maps: restriction to a set of keys ------------------------------------------------ *)
Lemma option_ext {A} (a b : option A) : (forall v, a = Some v <-> b = Some v) -> a = b.
Proof.
  intros H. destruct a as [x|]; destruct b as [y|]; auto.
  - symmetry. apply H. reflexivity.
  - symmetry. apply H. reflexivity.
  - apply H. reflexivity.
Qed.

Lemma om_ext_In {V} (m1 m2 : omap V) : om_sorted m1 -> om_sorted m2 ->
  (forall kv, In kv m1 <-> In kv m2) -> m1 = m2.
Proof.
  intros S1 S2 H. apply om_ext; auto. intros k. apply option_ext. intros v.
  rewrite <- !om_get_In by assumption. apply H.
Qed.

Definition onkey {V} (f : bytes -> bool) (kv : bytes * V) : bool := f (fst kv).

(* the restriction of a sorted map to the keys satisfying f is a function of its bindings of those keys *)
Lemma filter_local {V} (f : bytes -> bool) (m m' : omap V) : om_sorted m -> om_sorted m' ->
  (forall K, f K = true -> om_get K m = om_get K m') ->
  filter (onkey f) m = filter (onkey f) m'.
Proof.
  intros S S' H. apply om_ext_In; try now apply om_filter_sorted.
  intros [K v]. rewrite !filter_In. unfold onkey. cbn [fst]. split; intros [Hin Hf]; split; auto.
  - apply om_get_In; auto. rewrite <- H by assumption. now apply om_get_In.
  - apply om_get_In; auto. rewrite H by assumption. now apply om_get_In.
Qed.

Lemma filter_filter {A} (f g : A -> bool) l : filter g (filter f l) = filter (fun x => f x && g x) l.
Proof.
  induction l as [|a l IH]; simpl; auto. destruct (f a); simpl; [|exact IH].
  destruct (g a); simpl; now rewrite IH.
Qed.

Lemma om_lower_bound_filter {V} k (m : omap V) : om_sorted m ->
  om_lower_bound k m = filter (onkey (fun K => negb (bytes_ltb K k))) m.
Proof.
  intros S. apply om_ext_In.
  - now apply om_lower_bound_sorted.
  - now apply om_filter_sorted.
  - intros kv. rewrite om_lower_bound_spec, filter_In by assumption. unfold onkey.
    rewrite negb_true_iff. tauto.
Qed.

Lemma om_get_Some_In {V} K (v : V) m : om_get K m = Some v -> In (K, v) m.
Proof.
  induction m as [|[k' v'] r IH]; simpl; [discriminate|].
  destruct (bytes_eqb K k') eqn:E.
  - intros H. injection H as ->. apply bytes_eqb_spec in E. subst. auto.
  - destruct (bytes_ltb K k'); [discriminate|]. auto.
Qed.

Lemma om_get_notin {V} K (m : omap V) : ~ In K (map fst m) -> om_get K m = None.
Proof.
  intros H. destruct (om_get K m) as [v|] eqn:E; auto. exfalso. apply H.
  apply om_get_Some_In in E. apply in_map_iff. exists (K, v). auto.
Qed.

(* ---- decidable equality of bindings (objects are finite data) ------------------------------------- *)
Lemma payload_eq_dec (a b : payload) : {a = b} + {a <> b}.
Proof.
  decide equality; try apply N.eq_dec;
    repeat (apply list_eq_dec; intros); try apply N.eq_dec; apply Bool.bool_dec.
Qed.
Lemma object_eq_dec (a b : object) : {a = b} + {a <> b}.
Proof. decide equality; [apply N.eq_dec|apply payload_eq_dec]. Qed.
Lemma binding_eq_dec (a b : option object) : {a = b} + {a <> b}.
Proof. decide equality. apply object_eq_dec. Qed.

(* two index maps agree on a (decidable) set of keys, or a key of the set is bound differently *)
Lemma agree_on_dec (f : bytes -> bool) (m m' : idx) :
  (forall K, f K = true -> om_get K m = om_get K m') \/
  (exists K, f K = true /\ om_get K m <> om_get K m').
Proof.
  assert (G : forall l : list bytes,
             (forall K, In K l -> f K = true -> om_get K m = om_get K m') \/
             (exists K, f K = true /\ om_get K m <> om_get K m')).
  { induction l as [|k l IH]; [left; intros K []|].
    destruct IH as [IH|IH]; [|right; exact IH].
    destruct (f k) eqn:Fk.
    - destruct (binding_eq_dec (om_get k m) (om_get k m')) as [E|E].
      + left. intros K [<-|Hin] HK; auto.
      + right. exists k. auto.
    - left. intros K [<-|Hin] HK; [congruence|auto]. }
  destruct (G (map fst m ++ map fst m')) as [H|H]; [left|right; exact H].
  intros K HK. destruct (in_dec (list_eq_dec N.eq_dec) K (map fst m ++ map fst m')) as [Hin|Hn]; auto.
  rewrite !om_get_notin; auto; intros Hc; apply Hn, in_or_app; auto.
Qed.

(* how a binding can differ: the key was inserted, removed, or re-bound to another object
   (another payload or another revision) *)
Inductive binding_change : option object -> option object -> Prop :=
| BInserted o : binding_change None (Some o)
| BRemoved o : binding_change (Some o) None
| BRebound o o' : o <> o' -> binding_change (Some o) (Some o').

Lemma binding_change_iff a b : a <> b <-> binding_change a b.
Proof.
  split.
  - intros H. destruct a as [o|]; destruct b as [o'|]; try constructor; [congruence|congruence].
  - intros H. destruct H; congruence.
Qed.

(* ---- the queries of run_query as functions of the index map they read ---------------------------- *)
Definition nu_list_f (sk K : bytes) : bool := has_prefix K sk && Z.eqb (secondaryLen K) (zlen sk).
Definition nu_prefix_f (sk K : bytes) : bool := has_prefix K sk && negb (Z.ltb (secondaryLen K) (zlen sk)).
Definition nu_lb_f (sk K : bytes) : bool :=
  negb (bytes_ltb K sk) && match encodedSecondary K with Some es => negb (bytes_ltb es sk) | None => false end.

Definition iq_get (unique : bool) (key : bytes) (m : idx) : option object :=
  if unique then om_get key m
  else let sk := enc key in
       match filter (fun kv => Z.eqb (secondaryLen (fst kv)) (zlen sk)) (om_prefix sk m) with
       | kv :: _ => Some (snd kv)
       | [] => None
       end.
Definition iq_list (unique : bool) (key : bytes) (m : idx) : list object :=
  if unique then match om_get key m with Some o => [o] | None => [] end
  else let sk := enc key in
       vals (filter (fun kv => Z.eqb (secondaryLen (fst kv)) (zlen sk)) (om_prefix sk m)).
Definition iq_prefix (unique : bool) (key : bytes) (m : idx) : list object :=
  if unique then vals (om_prefix key m)
  else let sk := enc key in
       vals (dedup_primary [] (filter (fun kv => negb (Z.ltb (secondaryLen (fst kv)) (zlen sk)))
                                       (om_prefix sk m))).
Definition iq_lower_bound (unique : bool) (key : bytes) (m : idx) : list object :=
  if unique then vals (om_lower_bound key m)
  else let sk := enc key in
       vals (dedup_primary [] (filter (fun kv => match encodedSecondary (fst kv) with
                                                 | Some es => negb (bytes_ltb es sk)
                                                 | None => false end)
                                       (om_lower_bound sk m))).

(* the watch queries through part indexes: the answer as a function of the index map *)
Definition iq (q : query) (m : idx) : out :=
  match q with
  | QGet k key => OutGet (iq_get (is_unique k) key m)
  | QList k key => OutObjs (iq_list (is_unique k) key m)
  | QPrefix k key => OutObjs (iq_prefix (is_unique k) key m)
  | QLowerBound k key => OutObjs (iq_lower_bound (is_unique k) key m)
  | QAll => OutObjs (vals m)
  | _ => OutNone
  end.

(* the handle part_index.go returns with the answer (Part/Footprint.v handle): the channel of tree.Get(key),
   of tree.Prefix(search key), or the root channel of the tree *)

(* which index a query reads, and which handle it returns on that index's tree
   (partGet, partList, partPrefix, partIndex.lowerBound, partIndex.all on the primary index) *)
Definition q_handle (q : query) : option (ikind * handle) :=
  match q with
  | QGet k key | QList k key => Some (k, if is_unique k then HGet key else HPrefix (enc key))
  | QPrefix k key => Some (k, HPrefix (if is_unique k then key else enc key))
  | QLowerBound k key => Some (k, HRoot)
  | QAll => Some (IPrimary, HRoot)
  | _ => None
  end.

(* h_covers h (Part/Footprint.v): the keys whose insertion, replacement or deletion closes the handle's
   channel: HGet k: k; HPrefix q: the keys with prefix q; HRoot: all *)

Lemma run_query_iq d tab q t ik h : q_handle q = Some (ik, h) -> run_query d tab q t = iq q (index_of ik t).
Proof.
  destruct q; cbn [q_handle]; intros H; try discriminate; injection H as <- _; reflexivity.
Qed.

(* ---- footprints ------------------------------------------------------------------------------------ *)
(* the set of index keys the answer depends on *)
Definition fp (q : query) (K : bytes) : bool :=
  match q with
  | QGet k key | QList k key => if is_unique k then bytes_eqb K key else nu_list_f (enc key) K
  | QPrefix k key => if is_unique k then has_prefix K key else nu_prefix_f (enc key) K
  | QLowerBound k key => if is_unique k then negb (bytes_ltb K key) else nu_lb_f (enc key) K
  | QAll => true
  | _ => false
  end.

(* the footprints named in the task: as predicates on index keys *)
Definition fp_get_unique (idKey k : bytes) : bytes -> Prop := fun K => K = ikey true idKey k.
Definition fp_nonunique (k : bytes) : bytes -> Prop := fun K => has_prefix K (enc k ++ [0]) = true.
Definition fp_prefix (unique : bool) (q : bytes) : bytes -> Prop :=
  fun K => has_prefix K (if unique then q else enc q) = true.
Definition fp_lb : bytes -> Prop := fun _ => True.
Definition fp_all : bytes -> Prop := fun _ => True.

(* the footprint of every query lies inside the coverage of the handle returned with it *)
Theorem fp_covered q ik h K : q_handle q = Some (ik, h) -> fp q K = true -> h_covers h K = true.
Proof.
  destruct q; cbn [q_handle fp]; intros H; try discriminate; injection H as <- <-;
    try (destruct (is_unique k); cbn [h_covers]; auto;
         unfold nu_list_f, nu_prefix_f; intros F; apply andb_true_iff in F; tauto); auto.
Qed.

(* unique index: Get/List depend on the key itself only (the footprint of the task) *)
Lemma fp_get_unique_spec k key K idKey : is_unique k = true ->
  (fp (QGet k key) K = true <-> fp_get_unique idKey key K) /\
  (fp (QList k key) K = true <-> fp_get_unique idKey key K).
Proof.
  intros U. cbn [fp]. rewrite U. unfold fp_get_unique, ikey.
  split; (split; [apply bytes_eqb_spec|intros ->; apply bytes_eqb_refl]).
Qed.

Lemma fp_prefix_spec k key K : fp (QPrefix k key) K = true -> fp_prefix (is_unique k) key K.
Proof.
  cbn [fp]. unfold fp_prefix. destruct (is_unique k); auto.
  unfold nu_prefix_f. intros F. apply andb_true_iff in F. tauto.
Qed.

(* non-unique index: on composite keys (every entry of a table's non-unique index is one:
   Table/InvDefs.v n_agree) the footprint of Get/List is "escaped key, then the separator" *)
Lemma app_has_prefix a : forall x, has_prefix (a ++ x) a = true.
Proof. induction a as [|c a IH]; intros x; simpl; [now destruct x|]. now rewrite N.eqb_refl, IH. Qed.

Lemma has_prefix_app_both a : forall b x y, length a = length b ->
  has_prefix (a ++ x) (b ++ y) = has_prefix a b && has_prefix x y.
Proof.
  induction a as [|c a IH]; intros [|d b] x y Hl; simpl in *; try discriminate.
  - reflexivity.
  - rewrite IH by lia. now rewrite andb_assoc.
Qed.

Lemma sep_prefix_eq a : forall b x, ~ In 0 a -> ~ In 0 b -> has_prefix (a ++ 0 :: x) (b ++ [0]) = true -> a = b.
Proof.
  induction a as [|c a IH]; intros [|d b] x Na Nb; cbn [app has_prefix]; intros H.
  - reflexivity.
  - apply andb_true_iff in H. destruct H as [H _]. apply N.eqb_eq in H. subst d. exfalso. apply Nb. simpl; auto.
  - apply andb_true_iff in H. destruct H as [H _]. apply N.eqb_eq in H. subst c. exfalso. apply Na. simpl; auto.
  - apply andb_true_iff in H. destruct H as [H1 H2]. apply N.eqb_eq in H1. subst d. f_equal.
    apply (IH b x); auto; intros Hc; [apply Na|apply Nb]; simpl; auto.
Qed.

Lemma fp_nonunique_spec key pk s : len (enc pk) < 65536 ->
  (nu_list_f (enc key) (nuk pk s) = true <-> fp_nonunique key (nuk pk s)).
Proof.
  intros Hl. destruct (nuk_split pk s Hl) as (_ & _ & Hs). unfold nu_list_f, fp_nonunique. rewrite Hs.
  unfold zlen. split.
  - intros F. apply andb_true_iff in F. destruct F as [Hp Hz]. apply Z.eqb_eq, Nat2Z.inj in Hz.
    unfold nuk in *. rewrite has_prefix_app_long in Hp by lia.
    apply has_prefix_same_length in Hp; auto. rewrite Hp. rewrite has_prefix_app_both by reflexivity.
    rewrite has_prefix_refl. cbn [app has_prefix]. now destruct (enc pk ++ be16 (len (enc pk) mod 65536)).
  - intros Hp. unfold nuk in *.
    assert (E : enc s = enc key) by (eapply sep_prefix_eq; [apply enc_no_zero|apply enc_no_zero|exact Hp]).
    rewrite E. rewrite app_has_prefix. rewrite Z.eqb_refl. reflexivity.
Qed.

(* ---- LOCALITY ---------------------------------------------------------------------------------------- *)
Section Locality.
Variables m m' : idx.
Hypothesis S : om_sorted m.
Hypothesis S' : om_sorted m'.

Lemma nu_list_filter sk (x : idx) :
  filter (fun kv => Z.eqb (secondaryLen (fst kv)) (zlen sk)) (om_prefix sk x) = filter (onkey (nu_list_f sk)) x.
Proof. unfold om_prefix. rewrite filter_filter. reflexivity. Qed.
Lemma nu_prefix_filter sk (x : idx) :
  filter (fun kv => negb (Z.ltb (secondaryLen (fst kv)) (zlen sk))) (om_prefix sk x) = filter (onkey (nu_prefix_f sk)) x.
Proof. unfold om_prefix. rewrite filter_filter. reflexivity. Qed.
Lemma nu_lb_filter sk (x : idx) : om_sorted x ->
  filter (fun kv => match encodedSecondary (fst kv) with Some es => negb (bytes_ltb es sk) | None => false end)
         (om_lower_bound sk x) = filter (onkey (nu_lb_f sk)) x.
Proof. intros Sx. rewrite om_lower_bound_filter by assumption. rewrite filter_filter. reflexivity. Qed.

Theorem iq_get_local k key : (forall K, fp (QGet k key) K = true -> om_get K m = om_get K m') ->
  iq_get (is_unique k) key m = iq_get (is_unique k) key m'.
Proof.
  cbn [fp]. unfold iq_get. destruct (is_unique k); intros H.
  - apply H. apply bytes_eqb_refl.
  - cbv zeta. rewrite !nu_list_filter. now rewrite (filter_local _ m m').
Qed.

Theorem iq_list_local k key : (forall K, fp (QList k key) K = true -> om_get K m = om_get K m') ->
  iq_list (is_unique k) key m = iq_list (is_unique k) key m'.
Proof.
  cbn [fp]. unfold iq_list. destruct (is_unique k); intros H.
  - rewrite (H key) by apply bytes_eqb_refl. reflexivity.
  - cbv zeta. rewrite !nu_list_filter. now rewrite (filter_local _ m m').
Qed.

Theorem iq_prefix_local k key : (forall K, fp (QPrefix k key) K = true -> om_get K m = om_get K m') ->
  iq_prefix (is_unique k) key m = iq_prefix (is_unique k) key m'.
Proof.
  cbn [fp]. unfold iq_prefix. destruct (is_unique k); intros H.
  - unfold om_prefix. change (fun kv : bytes * object => has_prefix (fst kv) key) with (@onkey object (fun K => has_prefix K key)).
    now rewrite (filter_local _ m m').
  - cbv zeta. rewrite !nu_prefix_filter. now rewrite (filter_local _ m m').
Qed.

Theorem iq_lower_bound_local k key : (forall K, fp (QLowerBound k key) K = true -> om_get K m = om_get K m') ->
  iq_lower_bound (is_unique k) key m = iq_lower_bound (is_unique k) key m'.
Proof.
  cbn [fp]. unfold iq_lower_bound. destruct (is_unique k); intros H.
  - rewrite !om_lower_bound_filter by assumption. now rewrite (filter_local _ m m').
  - cbv zeta. rewrite !nu_lb_filter by assumption. now rewrite (filter_local _ m m').
Qed.

Theorem iq_all_local : (forall K, om_get K m = om_get K m') -> vals m = vals m'.
Proof. intros H. now rewrite (om_ext m m' S S' H). Qed.

(* LOCALITY, all query kinds: index maps that bind the footprint keys alike (same presence, same object
   including its revision) give the same answer *)
Theorem iq_local q : (forall K, fp q K = true -> om_get K m = om_get K m') -> iq q m = iq q m'.
Proof.
  destruct q; cbn [iq]; intros H; auto.
  - f_equal. now apply iq_get_local.
  - f_equal. now apply iq_list_local.
  - f_equal. now apply iq_prefix_local.
  - f_equal. now apply iq_lower_bound_local.
  - f_equal. apply iq_all_local. intros K. now apply H.
Qed.

(* contrapositive, constructively: a changed answer exhibits a footprint key that was inserted, removed
   or re-bound *)
Theorem iq_change q : iq q m <> iq q m' ->
  exists K, fp q K = true /\ binding_change (om_get K m) (om_get K m').
Proof.
  intros H. destruct (agree_on_dec (fp q) m m') as [A|[K [F D]]].
  - exfalso. apply H. now apply iq_local.
  - exists K. split; auto. now apply binding_change_iff.
Qed.
End Locality.

(* in terms of the footprints named in the task (weaker hypotheses are implied by them):
   Get/List on a unique index *)
Corollary iq_get_unique_local m m' k key idKey : is_unique k = true ->
  (forall K, fp_get_unique idKey key K -> om_get K m = om_get K m') ->
  iq (QGet k key) m = iq (QGet k key) m' /\ iq (QList k key) m = iq (QList k key) m'.
Proof.
  intros U H. cbn [iq]. unfold iq_get, iq_list. rewrite U. rewrite (H key) by reflexivity. auto.
Qed.

(* Get/List on a non-unique index whose entries are composite keys *)
Definition composite_keys (m : idx) : Prop :=
  forall K o, In (K, o) m -> exists pk s, K = nuk pk s /\ len (enc pk) < 65536.

Corollary iq_nonunique_local m m' k key : is_unique k = false -> om_sorted m -> om_sorted m' ->
  composite_keys m -> composite_keys m' ->
  (forall K, fp_nonunique key K -> om_get K m = om_get K m') ->
  iq (QGet k key) m = iq (QGet k key) m' /\ iq (QList k key) m = iq (QList k key) m'.
Proof.
  intros U S S' C C' H.
  assert (A : forall K, nu_list_f (enc key) K = true -> om_get K m = om_get K m').
  { intros K F.
    destruct (om_get K m) as [o|] eqn:G.
    - pose proof (om_get_Some_In _ _ _ G) as Hin. destruct (C _ _ Hin) as (pk & s & -> & Hl).
      rewrite <- G. apply H. now apply fp_nonunique_spec.
    - destruct (om_get K m') as [o'|] eqn:G'; auto.
      pose proof (om_get_Some_In _ _ _ G') as Hin. destruct (C' _ _ Hin) as (pk & s & -> & Hl).
      rewrite <- G, <- G'. apply H. now apply fp_nonunique_spec. }
  split; apply iq_local; auto; cbn [fp]; rewrite U; exact A.
Qed.

(* Prefix on any index *)
Corollary iq_prefix_fp_local m m' k key : om_sorted m -> om_sorted m' ->
  (forall K, fp_prefix (is_unique k) key K -> om_get K m = om_get K m') ->
  iq (QPrefix k key) m = iq (QPrefix k key) m'.
Proof. intros S S' H. apply iq_local; auto. intros K F. apply H. now apply fp_prefix_spec. Qed.

(* LowerBound and All: the whole index *)
Corollary iq_lb_all_local m m' k key : om_sorted m -> om_sorted m' ->
  (forall K, fp_lb K -> om_get K m = om_get K m') ->
  iq (QLowerBound k key) m = iq (QLowerBound k key) m' /\ iq QAll m = iq QAll m'.
Proof. intros S S' H. split; apply iq_local; auto; intros K _; now apply H. Qed.

(* ---- on tables ---------------------------------------------------------------------------------------- *)
Theorem query_result_local d d' tab tab' q ik h t t' : q_handle q = Some (ik, h) ->
  om_sorted (index_of ik t) -> om_sorted (index_of ik t') ->
  (forall K, fp q K = true -> om_get K (index_of ik t) = om_get K (index_of ik t')) ->
  run_query d tab q t = run_query d' tab' q t'.
Proof.
  intros Hq S S' H. rewrite (run_query_iq d tab q t ik h Hq), (run_query_iq d' tab' q t' ik h Hq).
  now apply iq_local.
Qed.

Theorem query_result_change d d' tab tab' q ik h t t' : q_handle q = Some (ik, h) ->
  om_sorted (index_of ik t) -> om_sorted (index_of ik t') ->
  run_query d tab q t <> run_query d' tab' q t' ->
  exists K, fp q K = true /\ h_covers h K = true /\
            binding_change (om_get K (index_of ik t)) (om_get K (index_of ik t')).
Proof.
  intros Hq S S' H. rewrite (run_query_iq d tab q t ik h Hq), (run_query_iq d' tab' q t' ik h Hq) in H.
  destruct (iq_change _ _ S S' q H) as [K [F B]]. exists K. split; auto. split; auto.
  eapply fp_covered; eauto.
Qed.

(* LPM indexes (lpm_index.go) hand out ONE channel per index: the footprint of every query is the whole
   index, and locality is trivial: same index, same answer *)
Definition lq_index (q : query) : option bool :=
  match q with QLGet u _ | QLList u _ | QLPrefix u _ | QLLowerBound u _ => Some u | _ => None end.

Theorem lpm_query_result_local d d' tab tab' q u t t' : lq_index q = Some u ->
  lpm_idx u t = lpm_idx u t' -> run_query d tab q t = run_query d' tab' q t'.
Proof.
  unfold lpm_idx. destruct q; cbn [lq_index]; intros H; try discriminate; injection H as ->;
    intros E; cbn [run_query]; rewrite E; reflexivity.
Qed.

Theorem lpm_query_result_change d d' tab tab' q u t t' : lq_index q = Some u ->
  run_query d tab q t <> run_query d' tab' q t' -> lpm_idx u t <> lpm_idx u t'.
Proof. intros Hq H E. apply H. eapply lpm_query_result_local; eauto. Qed.

(* ---- write transactions --------------------------------------------------------------------------------- *)
(* the write operations of a WriteTxn on one (locked) table: Table/Model.v step, cases OInsert, OModify,
   OCas, ODelete, OCad, ODeleteAll *)
Inductive twrite :=
| TWInsert (p : payload) | TWModify (p : payload) | TWCas (guard : N) (p : payload)
| TWDelete (id : bytes) | TWCad (guard : N) (id : bytes) | TWDeleteAll.

Definition twapply (t : table) (w : twrite) : table :=
  match w with
  | TWInsert p => fst (modify 0 false p t)
  | TWModify p => fst (modify 0 true p t)
  | TWCas g p => fst (modify g false p t)
  | TWDelete id => fst (delete 0 id t)
  | TWCad g id => fst (delete g id t)
  | TWDeleteAll => delete_all t
  end.
Definition twrun (t : table) (ws : list twrite) : table := fold_left twapply ws t.

Definition twop (tab : nat) (w : twrite) : op :=
  match w with
  | TWInsert p => OInsert tab p | TWModify p => OModify tab p | TWCas g p => OCas tab g p
  | TWDelete id => ODelete tab id | TWCad g id => OCad tab g id | TWDeleteAll => ODeleteAll tab
  end.

(* twapply is what the model's step does to the locked table of the open write transaction *)
Lemma step_twrite d es old tab t w : d_txn d = Some (es, old) -> nth_error es tab = Some (t, true) ->
  d_txn (fst (step d (twop tab w))) = Some (upd_nth tab (fun _ => (twapply t w, true)) es, old).
Proof.
  intros Hx Hn. destruct w; cbn [twop step twapply]; unfold with_locked; rewrite Hx; try rewrite Hn.
  - unfold wr. destruct (modify 0 false p t) as [t' [o e]]. reflexivity.
  - unfold wr. destruct (modify 0 true p t) as [t' [o e]]. reflexivity.
  - unfold wr. destruct (modify guard false p t) as [t' [o e]]. reflexivity.
  - unfold wr. destruct (delete 0 id t) as [t' [o e]]. reflexivity.
  - unfold wr. destruct (delete guard id t) as [t' [o e]]. reflexivity.
  - reflexivity.
Qed.

Lemma run_twrites ws : forall d es old tab t, d_txn d = Some (es, old) -> nth_error es tab = Some (t, true) ->
  exists es', d_txn (fst (run d (map (twop tab) ws))) = Some (es', old) /\
              nth_error es' tab = Some (twrun t ws, true).
Proof.
  induction ws as [|w ws IH]; intros d es old tab t Hx Hn; cbn [map run twrun fold_left].
  - exists es. auto.
  - pose proof (step_twrite d es old tab t w Hx Hn) as H1.
    destruct (step d (twop tab w)) as [d1 x] eqn:Es. cbn [fst] in H1.
    assert (Hn1 : nth_error (upd_nth tab (fun _ => (twapply t w, true)) es) tab = Some (twapply t w, true)).
    { clear -Hn. revert tab Hn. induction es as [|e es IHes]; intros [|tab]; cbn; intros H; try discriminate; auto. }
    destruct (IH d1 _ old tab _ H1 Hn1) as [es' [A B]].
    destruct (run d1 (map (twop tab) ws)) as [d2 xs]. exists es'. auto.
Qed.

(* every part index of the table is a sorted map; kept by every write *)
Definition idx_sorted (t : table) : Prop := forall ik, om_sorted (index_of ik t).

Lemma idx_sorted_mk r p rv g gr u n lu ln tr ini :
  om_sorted p -> om_sorted rv -> om_sorted u -> om_sorted n -> idx_sorted (mkT r p rv g gr u n lu ln tr ini).
Proof. intros H1 H2 H3 H4 ik. destruct ik; assumption. Qed.

Lemma idx_sorted_empty : idx_sorted empty_table.
Proof. intros ik; destruct ik; exact I. Qed.

(* it is part of the invariants of every table reachable in the model (Table/AgreeRun.v) *)
Lemma TInv_Agree_idx_sorted t : TInv t -> Agree t -> idx_sorted t.
Proof.
  intros I [[Su _] [[Sn _] _]] ik. destruct ik; cbn [index_of]; auto.
  - apply (ti_sorted_primary _ I).
  - apply (ti_sorted_revidx _ I).
Qed.

Corollary reachable_idx_sorted n ops t :
  run_wf (init_db n) ops -> in_db (fst (run (init_db n) ops)) t -> idx_sorted t.
Proof. intros Hw Hin. destruct (reachable_agree n ops t Hw Hin). now apply TInv_Agree_idx_sorted. Qed.

Lemma modify_sorted g mg p t : idx_sorted t -> idx_sorted (fst (modify g mg p t)).
Proof.
  intros H. pose proof (H IPrimary) as Hp. pose proof (H IRevision) as Hr.
  pose proof (H IU) as Hu. pose proof (H INn) as Hn. cbn [index_of] in *.
  unfold modify, modify_with.
  destruct (0 <? g).
  - destruct (om_get (p_id p) (t_primary t)) as [o|]; [|exact H].
    destruct (o_rev o =? g); [|exact H].
    cbn [fst]. apply idx_sorted_mk.
    + now apply om_insert_sorted.
    + now apply om_insert_sorted, om_delete_sorted.
    + now apply reindex_sorted.
    + now apply reindex_sorted.
  - destruct (om_get (p_id p) (t_primary t)) as [o|].
    + cbn [fst]. apply idx_sorted_mk.
      * now apply om_insert_sorted.
      * now apply om_insert_sorted, om_delete_sorted.
      * now apply reindex_sorted.
      * now apply reindex_sorted.
    + destruct (om_get (p_id p) (t_grave t)); cbn [fst]; apply idx_sorted_mk;
        try (now apply om_insert_sorted); now apply reindex_sorted.
Qed.

Lemma delete_sorted g id t : idx_sorted t -> idx_sorted (fst (delete g id t)).
Proof.
  intros H. pose proof (H IPrimary) as Hp. pose proof (H IRevision) as Hr.
  pose proof (H IU) as Hu. pose proof (H INn) as Hn. cbn [index_of] in *.
  unfold delete, delete_with.
  destruct (om_get id (t_primary t)) as [o|]; [|exact H].
  destruct ((0 <? g) && negb (o_rev o =? g)); [exact H|].
  cbn [fst]. apply idx_sorted_mk; try (now apply om_delete_sorted); now apply reindex_sorted.
Qed.

Lemma delete_all_sorted t : idx_sorted t -> idx_sorted (delete_all t).
Proof.
  unfold delete_all. generalize (t_primary t) as l. intros l. revert t.
  induction l as [|kv l IH]; intros t H; cbn [fold_left]; auto. apply IH. now apply delete_sorted.
Qed.

Lemma twapply_sorted t w : idx_sorted t -> idx_sorted (twapply t w).
Proof.
  destruct w; cbn [twapply]; auto using modify_sorted, delete_sorted, delete_all_sorted.
Qed.

Lemma twrun_sorted ws : forall t, idx_sorted t -> idx_sorted (twrun t ws).
Proof.
  induction ws as [|w ws IH]; intros t H; cbn [twrun fold_left]; auto.
  apply IH. now apply twapply_sorted.
Qed.

(* (4) a write transaction that changes the answer of a query changes the binding of a key in the query's
   footprint — a key covered by the handle returned with the answer — in the index the query reads *)
Theorem write_txn_result_change d d' tab tab' q ik h t ws : q_handle q = Some (ik, h) -> idx_sorted t ->
  run_query d tab q t <> run_query d' tab' q (twrun t ws) ->
  exists K, fp q K = true /\ h_covers h K = true /\
            binding_change (om_get K (index_of ik t)) (om_get K (index_of ik (twrun t ws))).
Proof.
  intros Hq S H. eapply query_result_change; eauto. now apply twrun_sorted.
Qed.

(* the LPM side: the index as a whole changed *)
Theorem write_txn_lpm_result_change d d' tab tab' q u t ws : lq_index q = Some u ->
  run_query d tab q t <> run_query d' tab' q (twrun t ws) -> lpm_idx u t <> lpm_idx u (twrun t ws).
Proof. apply lpm_query_result_change. Qed.

(* ---- what a write transaction does to one index: a sequence of tree inserts and deletes ------------------ *)
Inductive iop := IIns (K : bytes) (o : object) | IDel (K : bytes).
Definition iapply (m : idx) (x : iop) : idx :=
  match x with IIns K o => om_insert K o m | IDel K => om_delete K m end.

Lemma fold_insert_iops (f : bytes -> bytes) (v : object) ks : forall m,
  fold_left (fun t k => om_insert (f k) v t) ks m = fold_left iapply (map (fun k => IIns (f k) v) ks) m.
Proof. induction ks as [|k ks IH]; intros m; cbn [fold_left map]; auto. Qed.

Lemma fold_delete_iops (f : bytes -> bytes) (c : bytes -> bool) ks : forall m : idx,
  fold_left (fun t k => if c k then t else om_delete (f k) t) ks m =
  fold_left iapply (map (fun k => IDel (f k)) (filter (fun k => negb (c k)) ks)) m.
Proof.
  induction ks as [|k ks IH]; intros m; cbn [fold_left map filter]; auto.
  destruct (c k); cbn [negb map fold_left iapply]; now rewrite IH.
Qed.

Lemma reindex_iops unique keys idKey old new : exists ops, forall m,
  reindex unique keys idKey old new m = fold_left iapply ops m.
Proof.
  unfold reindex, reindex_with.
  set (nk := if o_rev new =? 0 then [] else keys (o_data new)).
  destruct (o_rev old =? 0).
  - eexists. intros m. apply (fold_insert_iops (ikey unique idKey)).
  - eexists. intros m. rewrite (fold_delete_iops (ikey unique idKey) (ks_exists nk)).
    rewrite (fold_insert_iops (ikey unique idKey)). rewrite <- fold_left_app. reflexivity.
Qed.

Lemma iops_nil (m : idx) : m = fold_left iapply [] m.
Proof. reflexivity. Qed.

Lemma modify_iops g mg p t ik : exists ops,
  index_of ik (fst (modify g mg p t)) = fold_left iapply ops (index_of ik t).
Proof.
  assert (R : forall (o1 : object) k1 (o2 : option object) (m : idx), exists ops,
             om_insert k1 o1 (match o2 with Some o => om_delete (rev_key (o_rev o)) m | None => m end) =
             fold_left iapply ops m).
  { intros o1 k1 [o|] m; [exists [IDel (rev_key (o_rev o)); IIns k1 o1]|exists [IIns k1 o1]]; reflexivity. }
  assert (P : forall o1 k1 (m : idx), exists ops, om_insert k1 o1 m = fold_left iapply ops m)
    by (intros o1 k1 m; exists [IIns k1 o1]; reflexivity).
  unfold modify, modify_with.
  destruct (0 <? g).
  - destruct (om_get (p_id p) (t_primary t)) as [o|] eqn:Eo; [|exists []; reflexivity].
    destruct (o_rev o =? g); [|exists []; reflexivity].
    cbn [fst]. destruct ik; cbn [index_of t_primary t_revidx t_u t_n].
    + apply P.
    + apply (R _ _ (Some o)).
    + destruct (reindex_iops true p_u (p_id p) o
                 (match mg with true => mkO (merge_payload (o_data o) p) (t_rev t + 1) | false => mkO p (t_rev t + 1) end))
        as [ops H]. exists ops. rewrite <- H. destruct mg; reflexivity.
    + destruct (reindex_iops false p_n (p_id p) o
                 (match mg with true => mkO (merge_payload (o_data o) p) (t_rev t + 1) | false => mkO p (t_rev t + 1) end))
        as [ops H]. exists ops. rewrite <- H. destruct mg; reflexivity.
  - destruct (om_get (p_id p) (t_primary t)) as [o|] eqn:Eo.
    + cbn [fst]. destruct ik; cbn [index_of t_primary t_revidx t_u t_n].
      * apply P.
      * apply (R _ _ (Some o)).
      * destruct (reindex_iops true p_u (p_id p) o
                 (match mg with true => mkO (merge_payload (o_data o) p) (t_rev t + 1) | false => mkO p (t_rev t + 1) end))
          as [ops H]. exists ops. rewrite <- H. destruct mg; reflexivity.
      * destruct (reindex_iops false p_n (p_id p) o
                 (match mg with true => mkO (merge_payload (o_data o) p) (t_rev t + 1) | false => mkO p (t_rev t + 1) end))
          as [ops H]. exists ops. rewrite <- H. destruct mg; reflexivity.
    + destruct (om_get (p_id p) (t_grave t)); cbn [fst]; destruct ik; cbn [index_of t_primary t_revidx t_u t_n];
        try apply P;
        try (destruct (reindex_iops true p_u (p_id p) noobj (mkO p (t_rev t + 1))) as [ops H]; exists ops; rewrite <- H;
             destruct mg; reflexivity);
        (destruct (reindex_iops false p_n (p_id p) noobj (mkO p (t_rev t + 1))) as [ops H]; exists ops; rewrite <- H;
             destruct mg; reflexivity).
Qed.

Lemma delete_iops g id t ik : exists ops,
  index_of ik (fst (delete g id t)) = fold_left iapply ops (index_of ik t).
Proof.
  unfold delete, delete_with.
  destruct (om_get id (t_primary t)) as [o|]; [|exists []; reflexivity].
  destruct ((0 <? g) && negb (o_rev o =? g)); [exists []; reflexivity|].
  cbn [fst]. destruct ik; cbn [index_of t_primary t_revidx t_u t_n].
  - exists [IDel id]. reflexivity.
  - exists [IDel (rev_key (o_rev o))]. reflexivity.
  - destruct (reindex_iops true p_u id o noobj) as [ops H]. exists ops. now rewrite <- H.
  - destruct (reindex_iops false p_n id o noobj) as [ops H]. exists ops. now rewrite <- H.
Qed.

Lemma delete_all_iops t ik : exists ops, index_of ik (delete_all t) = fold_left iapply ops (index_of ik t).
Proof.
  unfold delete_all. generalize (t_primary t) as l. intros l. revert t.
  induction l as [|kv l IH]; intros t; cbn [fold_left]; [exists []; reflexivity|].
  destruct (IH (fst (delete 0 (p_id (o_data (snd kv))) t))) as [ops2 H2].
  destruct (delete_iops 0 (p_id (o_data (snd kv))) t ik) as [ops1 H1].
  exists (ops1 ++ ops2). rewrite fold_left_app, <- H1. exact H2.
Qed.

Lemma twapply_iops t w ik : exists ops, index_of ik (twapply t w) = fold_left iapply ops (index_of ik t).
Proof.
  destruct w; cbn [twapply]; auto using modify_iops, delete_iops, delete_all_iops.
Qed.

(* each index of the table after a write transaction is the index before it, after a sequence of
   tree Inserts and Deletes: the operations of ONE part.Txn on that index's tree *)
Theorem twrun_iops ws : forall t ik, exists ops, index_of ik (twrun t ws) = fold_left iapply ops (index_of ik t).
Proof.
  induction ws as [|w ws IH]; intros t ik; cbn [twrun fold_left]; [exists []; reflexivity|].
  destruct (twapply_iops t w ik) as [ops1 H1]. destruct (IH (twapply t w) ik) as [ops2 H2].
  exists (ops1 ++ ops2). rewrite fold_left_app, <- H1. exact H2.
Qed.

(* ---- non-vacuity ------------------------------------------------------------------------------------------- *)
(* objects a (non-unique key "x"), b (key "y"), c (key "z"); a2 = a updated to the keys "x" and "y" *)
Definition ex_a1 : payload := mkP [97] 1 [] [[120]] [] [].
Definition ex_b : payload := mkP [98] 2 [] [[121]] [] [].
Definition ex_c : payload := mkP [99] 5 [] [[122]] [] [].
Definition ex_a2 : payload := mkP [97] 3 [] [[120]; [121]] [] [].
Definition ex_t : table := twrun empty_table [TWInsert ex_a1; TWInsert ex_b].
Definition ex_ws : list twrite := [TWInsert ex_a2].
Definition ex_q : query := QList INn [121].

(* locality: inserting c changes the non-unique index, but no key of the footprint of List("y"): same answer *)
Example locality_nonvacuous :
  let t2 := twrun ex_t [TWInsert ex_c] in
  q_handle ex_q = Some (INn, HPrefix (enc [121])) /\
  idx_sorted ex_t /\ idx_sorted t2 /\ index_of INn ex_t <> index_of INn t2 /\
  (forall K, fp ex_q K = true -> om_get K (index_of INn ex_t) = om_get K (index_of INn t2)) /\
  run_query (init_db 1) 0 ex_q ex_t = run_query (init_db 1) 0 ex_q t2.
Proof.
  cbv zeta.
  assert (S1 : idx_sorted ex_t) by apply twrun_sorted, idx_sorted_empty.
  assert (S2 : idx_sorted (twrun ex_t [TWInsert ex_c])) by now apply twrun_sorted.
  assert (E : index_of INn (twrun ex_t [TWInsert ex_c]) = om_insert (nuk [99] [122]) (mkO ex_c 3) (index_of INn ex_t))
    by (vm_compute; reflexivity).
  assert (A : forall K, fp ex_q K = true ->
                om_get K (index_of INn ex_t) = om_get K (index_of INn (twrun ex_t [TWInsert ex_c]))).
  { intros K F. rewrite E. symmetry. apply om_get_insert_other; [|apply (S1 INn)].
    intros ->. vm_compute in F. discriminate. }
  split; [reflexivity|]. split; [exact S1|]. split; [exact S2|]. split; [vm_compute; discriminate|].
  split; [exact A|].
  exact (query_result_local _ _ _ _ ex_q INn _ ex_t _ eq_refl (S1 INn) (S2 INn) A).
Qed.

(* change: updating a so that it gains the key "y" (a newly qualifies) changes the answer of List("y"), and the
   footprint key exhibited is the new composite key of a under "y" *)
Example change_nonvacuous :
  idx_sorted ex_t /\
  run_query (init_db 1) 0 ex_q ex_t = OutObjs [mkO ex_b 2] /\
  run_query (init_db 1) 0 ex_q (twrun ex_t ex_ws) = OutObjs [mkO ex_a2 3; mkO ex_b 2] /\
  fp ex_q (nuk [97] [121]) = true /\ h_covers (HPrefix (enc [121])) (nuk [97] [121]) = true /\
  binding_change (om_get (nuk [97] [121]) (index_of INn ex_t))
                 (om_get (nuk [97] [121]) (index_of INn (twrun ex_t ex_ws))).
Proof.
  split; [apply twrun_sorted, idx_sorted_empty|]. vm_compute. repeat split; auto. constructor.
Qed.

Print Assumptions query_result_local.
Print Assumptions write_txn_result_change.
Print Assumptions twrun_iops.
