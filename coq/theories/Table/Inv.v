(* Table/Inv.v — the core table invariant TInv (Table/InvDefs.v): it holds for the empty
   table and is preserved by every table transformer of the model (modify, delete,
   delete_all, gc_apply_table, tracker / initializer field updates), as long as the
   resulting revision stays below 2^64 (rev_bound; rev_key = be64 is injective only there).
   Also: membership lemmas for the ordered-map specification. *)
From SV Require Import Base.Bytes Base.OrdMap KeyEnc.Model KeyEnc.Proofs
                       Table.Model Table.InvDefs Table.Proofs Table.GcProofs.
From Coq Require Import ZifyN ZifyNat ZifyBool.
Open Scope N_scope.

(* ---- ordered maps: membership <-> lookup ---------------------------------------------- *)
Lemma bytes_eq_dec (a b : bytes) : {a = b} + {a <> b}.
Proof.
  destruct (bytes_eqb a b) eqn:E; [left; now apply bytes_eqb_spec|].
  right; intros ->. rewrite bytes_eqb_refl in E. discriminate.
Qed.

Section OM.
Context {V : Type}.
Implicit Types m : omap V.

Lemma om_above_in k m k' v : om_above k m -> In (k', v) m -> lex_lt k k'.
Proof. unfold om_above. rewrite Forall_forall. intros H Hin. exact (H _ Hin). Qed.

Lemma om_in_get k v m : om_sorted m -> (In (k, v) m <-> om_get k m = Some v).
Proof.
  induction m as [|[k' v'] r IH]; simpl; intros Hs.
  - split; [tauto|discriminate].
  - destruct Hs as [Ha Hs]. specialize (IH Hs).
    destruct (bytes_cmp_cases k k') as [[E ->]|[[E [L Hl]]|[E [L Hl]]]]; rewrite E; try rewrite L.
    + split.
      * intros [H|H]; [congruence|]. exfalso. apply (lex_lt_irrefl k'). eapply om_above_in; eauto.
      * intros H; left; congruence.
    + split; [|discriminate]. intros [H|H].
      * injection H as -> _. now apply lex_lt_irrefl in Hl.
      * exfalso. pose proof (om_above_in _ _ _ _ Ha H) as H2. eapply lex_lt_asym; eauto.
    + rewrite <- IH. split; [|auto]. intros [H|H]; auto. injection H as -> _. now apply lex_lt_irrefl in Hl.
Qed.

Lemma om_in_fun k v1 v2 m : om_sorted m -> In (k, v1) m -> In (k, v2) m -> v1 = v2.
Proof. intros Hs H1 H2. apply om_in_get in H1, H2; auto. congruence. Qed.

Lemma om_get_none_notin k m : om_sorted m -> om_get k m = None -> forall v, ~ In (k, v) m.
Proof. intros Hs H v Hin. apply om_in_get in Hin; auto. congruence. Qed.

Lemma om_in_insert k v k' v' m : om_sorted m ->
  (In (k', v') (om_insert k v m) <-> (k' = k /\ v' = v) \/ (k' <> k /\ In (k', v') m)).
Proof.
  intros Hs. rewrite om_in_get by now apply om_insert_sorted.
  destruct (bytes_eq_dec k' k) as [->|Hne].
  - rewrite om_get_insert_same. split.
    + intros H; injection H as ->; auto.
    + intros [[_ ->]|[H _]]; congruence.
  - rewrite om_get_insert_other by auto. rewrite <- om_in_get by auto. tauto.
Qed.

Lemma om_in_delete k k' v' m : om_sorted m ->
  (In (k', v') (om_delete k m) <-> k' <> k /\ In (k', v') m).
Proof.
  intros Hs. rewrite om_in_get by now apply om_delete_sorted.
  destruct (bytes_eq_dec k' k) as [->|Hne].
  - rewrite om_get_delete_same by auto. split; [discriminate|tauto].
  - rewrite om_get_delete_other by auto. rewrite <- om_in_get by auto. tauto.
Qed.

Lemma om_insert_delete k v m : om_sorted m -> om_insert k v (om_delete k m) = om_insert k v m.
Proof.
  intros Hs. apply om_ext; try apply om_insert_sorted; auto using om_delete_sorted.
  intros k2. destruct (bytes_eq_dec k2 k) as [->|Hne].
  - now rewrite !om_get_insert_same.
  - rewrite !om_get_insert_other by auto using om_delete_sorted. now apply om_get_delete_other.
Qed.

Lemma om_delete_absent k m : om_sorted m -> om_get k m = None -> om_delete k m = m.
Proof.
  intros Hs Hn. apply om_ext; auto using om_delete_sorted.
  intros k2. destruct (bytes_eq_dec k2 k) as [->|Hne].
  - rewrite om_get_delete_same by auto. now rewrite Hn.
  - now apply om_get_delete_other.
Qed.
End OM.

(* ---- rev_key ---------------------------------------------------------------------------- *)
Definition B64 : N := 18446744073709551616.

Lemma rev_key_inj a b : a < B64 -> b < B64 -> rev_key a = rev_key b -> a = b.
Proof. unfold rev_key, B64. apply be64_inj. Qed.

Lemma rev_key_mono a b : a < B64 -> b < B64 -> (a < b <-> lex_lt (rev_key a) (rev_key b)).
Proof. unfold rev_key, B64. apply be64_mono. Qed.

(* ---- TInv only looks at five fields ------------------------------------------------------ *)
Definition core_eq (t t' : table) : Prop :=
  t_rev t' = t_rev t /\ t_primary t' = t_primary t /\ t_revidx t' = t_revidx t /\
  t_grave t' = t_grave t /\ t_graverev t' = t_graverev t.

Lemma TInv_ext t t' : core_eq t t' -> TInv t -> TInv t'.
Proof.
  intros [E1 [E2 [E3 [E4 E5]]]] [].
  constructor; unfold live, dead in *; rewrite ?E1, ?E2, ?E3, ?E4, ?E5; auto.
Qed.

(* the five core fields replaced, everything else kept *)
Definition set5 (t : table) (r : N) (pr ri gr gri : idx) : table :=
  mkT r pr ri gr gri (t_u t) (t_n t) (t_lu t) (t_ln t) (t_trackers t) (t_init t).

Theorem TInv_empty : TInv empty_table.
Proof.
  constructor; unfold live, dead; simpl; auto; tauto.
Qed.

(* ---- elementary, invariant-preserving moves ----------------------------------------------- *)
Section Moves.
Variable t : table.
Hypothesis HI : TInv t.

Lemma live_get o : live t o <-> om_get (p_id (o_data o)) (t_primary t) = Some o.
Proof. unfold live. apply om_in_get. apply HI. Qed.

Lemma dead_get o : dead t o <-> om_get (p_id (o_data o)) (t_grave t) = Some o.
Proof. unfold dead. apply om_in_get. apply HI. Qed.

Lemma get_live id o : om_get id (t_primary t) = Some o -> p_id (o_data o) = id /\ live t o.
Proof.
  intros H. apply om_in_get in H; [|apply HI]. destruct (ti_primary t HI _ _ H) as [E _].
  unfold live. rewrite <- E. auto.
Qed.

Lemma get_dead id o : om_get id (t_grave t) = Some o -> p_id (o_data o) = id /\ dead t o.
Proof.
  intros H. apply om_in_get in H; [|apply HI]. destruct (ti_grave t HI _ _ H) as [E _].
  unfold dead. rewrite <- E. auto.
Qed.

Lemma live_rev o : live t o -> 1 <= o_rev o <= t_rev t.
Proof. intros H. now destruct (ti_primary t HI _ _ H). Qed.

Lemma dead_rev o : dead t o -> 1 <= o_rev o <= t_rev t.
Proof. intros H. now destruct (ti_grave t HI _ _ H) as [_ [H1 _]]. Qed.

Lemma dead_not_live_key o : dead t o -> om_get (p_id (o_data o)) (t_primary t) = None.
Proof. intros H. now destruct (ti_grave t HI _ _ H) as [_ [_ H1]]. Qed.

(* revision bump: nothing else changes *)
Lemma TInv_bump t' : t_rev t <= t_rev t' -> t_primary t' = t_primary t -> t_revidx t' = t_revidx t ->
  t_grave t' = t_grave t -> t_graverev t' = t_graverev t -> TInv t'.
Proof.
  intros Hr E2 E3 E4 E5. destruct HI.
  constructor; unfold live, dead in *; rewrite ?E2, ?E3, ?E4, ?E5; auto.
  - intros k o H. destruct (ti_primary _ _ H). split; auto. lia.
  - intros k o H. destruct (ti_grave _ _ H) as [H1 [H2 H3]]. repeat split; auto; lia.
Qed.

(* a live object leaves the live indexes *)
Lemma TInv_unlive t' id o0 : rev_bound t -> om_get id (t_primary t) = Some o0 ->
  t_rev t' = t_rev t -> t_primary t' = om_delete id (t_primary t) ->
  t_revidx t' = om_delete (rev_key (o_rev o0)) (t_revidx t) ->
  t_grave t' = t_grave t -> t_graverev t' = t_graverev t ->
  TInv t' /\ om_get id (t_primary t') = None /\
  (forall o, live t' o <-> (live t o /\ o <> o0)).
Proof.
  intros Hb Hg E1 E2 E3 E4 E5. unfold rev_bound in Hb. fold B64 in Hb.
  destruct (get_live _ _ Hg) as [Hid Hl0].
  assert (Hlive : forall o, live t' o <-> (live t o /\ o <> o0)).
  { intros o. unfold live. rewrite E2, om_in_delete by apply HI. split.
    - intros [Hne Hin]. split; auto. intros ->. congruence.
    - intros [Hin Hne]. split; auto. intros He. apply Hne.
      rewrite He in Hin. apply om_in_get in Hin; [|apply HI]. congruence. }
  split; [|split; auto].
  2:{ rewrite E2. apply om_get_delete_same. apply HI. }
  constructor; fold (live t') in *; fold (dead t') in *.
  - rewrite E2. apply om_delete_sorted, HI.
  - rewrite E3. apply om_delete_sorted, HI.
  - rewrite E4. apply HI.
  - rewrite E5. apply HI.
  - intros k o. rewrite E1, E2, om_in_delete by apply HI. intros [_ H]. now apply (ti_primary t HI).
  - intros k o. rewrite E3, om_in_delete by apply HI. rewrite (ti_revidx t HI), Hlive. split.
    + intros [Hne [-> Hl]]. repeat split; auto. intros ->. congruence.
    + intros [-> [Hl Hne]]. repeat split; auto. intros He.
      apply rev_key_inj in He; [|pose proof (live_rev _ Hl); lia|pose proof (live_rev _ Hl0); lia].
      apply Hne. now apply (ti_rev_distinct_live t HI).
  - intros k o. rewrite E1, E2, E4. intros H. destruct (ti_grave t HI _ _ H) as [H1 [H2 H3]].
    repeat split; auto; try lia.
    destruct (bytes_eq_dec k id) as [->|Hne]; [apply om_get_delete_same, HI|].
    rewrite om_get_delete_other by (auto; apply HI). auto.
  - intros k o. unfold dead. rewrite E4, E5. apply (ti_graverev t HI).
  - intros o1 o2 H1 H2. apply Hlive in H1, H2. apply (ti_rev_distinct_live t HI); tauto.
  - unfold dead. rewrite E4. apply (ti_rev_distinct_dead t HI).
  - intros o1 o2 H1 H2. apply Hlive in H1. unfold dead in H2. rewrite E4 in H2.
    apply (ti_rev_distinct_cross t HI); tauto.
Qed.

(* a retained-deleted object leaves the graveyard *)
Lemma TInv_ungrave t' id g : rev_bound t -> om_get id (t_grave t) = Some g ->
  t_rev t' = t_rev t -> t_primary t' = t_primary t -> t_revidx t' = t_revidx t ->
  t_grave t' = om_delete id (t_grave t) ->
  t_graverev t' = om_delete (rev_key (o_rev g)) (t_graverev t) ->
  TInv t' /\ om_get id (t_grave t') = None /\
  (forall o, dead t' o <-> (dead t o /\ o <> g)).
Proof.
  intros Hb Hg E1 E2 E3 E4 E5. unfold rev_bound in Hb. fold B64 in Hb.
  destruct (get_dead _ _ Hg) as [Hid Hd0].
  assert (Hdead : forall o, dead t' o <-> (dead t o /\ o <> g)).
  { intros o. unfold dead. rewrite E4, om_in_delete by apply HI. split.
    - intros [Hne Hin]. split; auto. intros ->. congruence.
    - intros [Hin Hne]. split; auto. intros He. apply Hne.
      rewrite He in Hin. apply om_in_get in Hin; [|apply HI]. congruence. }
  split; [|split; auto].
  2:{ rewrite E4. apply om_get_delete_same. apply HI. }
  constructor; fold (live t') in *; fold (dead t') in *.
  - rewrite E2. apply HI.
  - rewrite E3. apply HI.
  - rewrite E4. apply om_delete_sorted, HI.
  - rewrite E5. apply om_delete_sorted, HI.
  - intros k o. rewrite E1, E2. apply (ti_primary t HI).
  - intros k o. unfold live. rewrite E2, E3. apply (ti_revidx t HI).
  - intros k o. rewrite E1, E2, E4, om_in_delete by apply HI. intros [_ H]. now apply (ti_grave t HI).
  - intros k o. rewrite E5, om_in_delete by apply HI. rewrite (ti_graverev t HI), Hdead. split.
    + intros [Hne [-> Hl]]. repeat split; auto. intros ->. congruence.
    + intros [-> [Hl Hne]]. repeat split; auto. intros He.
      apply rev_key_inj in He; [|pose proof (dead_rev _ Hl); lia|pose proof (dead_rev _ Hd0); lia].
      apply Hne. now apply (ti_rev_distinct_dead t HI).
  - unfold live. rewrite E2. apply (ti_rev_distinct_live t HI).
  - intros o1 o2 H1 H2. apply Hdead in H1, H2. apply (ti_rev_distinct_dead t HI); tauto.
  - intros o1 o2 H1 H2. apply Hdead in H2. unfold live in H1. rewrite E2 in H1.
    apply (ti_rev_distinct_cross t HI); tauto.
Qed.

(* an object with a brand-new revision (larger than all assigned so far) and a key that is
   neither live nor in the graveyard enters the live indexes *)
Lemma TInv_add_live t' obj : rev_bound t' ->
  om_get (p_id (o_data obj)) (t_primary t) = None -> om_get (p_id (o_data obj)) (t_grave t) = None ->
  t_rev t < o_rev obj -> t_rev t' = o_rev obj ->
  t_primary t' = om_insert (p_id (o_data obj)) obj (t_primary t) ->
  t_revidx t' = om_insert (rev_key (o_rev obj)) obj (t_revidx t) ->
  t_grave t' = t_grave t -> t_graverev t' = t_graverev t ->
  TInv t'.
Proof.
  intros Hb Hn1 Hn2 Hlt E1 E2 E3 E4 E5. unfold rev_bound in Hb. fold B64 in Hb.
  set (id := p_id (o_data obj)) in *.
  assert (Hlive : forall o, live t' o <-> (o = obj \/ live t o)).
  { intros o. unfold live. rewrite E2, om_in_insert by apply HI. split.
    - intros [[_ ->]|[_ H]]; auto.
    - intros [->|H]; [left; auto|]. right. split; auto. intros He. fold (live t o) in H.
      apply live_get in H. unfold id in *. congruence. }
  constructor; fold (live t') in *; fold (dead t') in *.
  - rewrite E2. apply om_insert_sorted, HI.
  - rewrite E3. apply om_insert_sorted, HI.
  - rewrite E4. apply HI.
  - rewrite E5. apply HI.
  - intros k o. rewrite E1, E2, om_in_insert by apply HI. intros [[-> ->]|[_ H]].
    + split; auto. lia.
    + destruct (ti_primary t HI _ _ H). split; auto. lia.
  - intros k o. rewrite E3, om_in_insert by apply HI. rewrite (ti_revidx t HI), Hlive. split.
    + intros [[-> ->]|[_ [-> H]]]; auto.
    + intros [-> [->|H]]; [left; auto|]. right. repeat split; auto. intros He.
      apply rev_key_inj in He; pose proof (live_rev _ H); lia.
  - intros k o. rewrite E1, E2, E4. intros H. destruct (ti_grave t HI _ _ H) as [H1 [H2 H3]].
    repeat split; auto; try lia.
    rewrite om_get_insert_other; auto; [|apply HI]. intros ->.
    apply om_in_get in H; [|apply HI]. fold id in H. congruence.
  - intros k o. unfold dead. rewrite E4, E5. apply (ti_graverev t HI).
  - intros o1 o2 H1 H2 He. apply Hlive in H1, H2. destruct H1 as [->|H1], H2 as [->|H2]; auto.
    + pose proof (live_rev _ H2). lia.
    + pose proof (live_rev _ H1). lia.
    + now apply (ti_rev_distinct_live t HI).
  - unfold dead. rewrite E4. apply (ti_rev_distinct_dead t HI).
  - intros o1 o2 H1 H2. apply Hlive in H1. unfold dead in H2. rewrite E4 in H2. fold (dead t o2) in H2.
    destruct H1 as [->|H1]; [pose proof (dead_rev _ H2); lia|].
    now apply (ti_rev_distinct_cross t HI).
Qed.

(* the mirror image: a deleted object with a brand-new revision enters the graveyard *)
Lemma TInv_add_dead t' obj : rev_bound t' ->
  om_get (p_id (o_data obj)) (t_primary t) = None -> om_get (p_id (o_data obj)) (t_grave t) = None ->
  t_rev t < o_rev obj -> t_rev t' = o_rev obj ->
  t_primary t' = t_primary t -> t_revidx t' = t_revidx t ->
  t_grave t' = om_insert (p_id (o_data obj)) obj (t_grave t) ->
  t_graverev t' = om_insert (rev_key (o_rev obj)) obj (t_graverev t) ->
  TInv t'.
Proof.
  intros Hb Hn1 Hn2 Hlt E1 E2 E3 E4 E5. unfold rev_bound in Hb. fold B64 in Hb.
  set (id := p_id (o_data obj)) in *.
  assert (Hdead : forall o, dead t' o <-> (o = obj \/ dead t o)).
  { intros o. unfold dead. rewrite E4, om_in_insert by apply HI. split.
    - intros [[_ ->]|[_ H]]; auto.
    - intros [->|H]; [left; auto|]. right. split; auto. intros He. fold (dead t o) in H.
      apply dead_get in H. unfold id in *. congruence. }
  constructor; fold (live t') in *; fold (dead t') in *.
  - rewrite E2. apply HI.
  - rewrite E3. apply HI.
  - rewrite E4. apply om_insert_sorted, HI.
  - rewrite E5. apply om_insert_sorted, HI.
  - intros k o. rewrite E1, E2. intros H. destruct (ti_primary t HI _ _ H). split; auto. lia.
  - intros k o. unfold live. rewrite E2, E3. apply (ti_revidx t HI).
  - intros k o. rewrite E1, E2, E4, om_in_insert by apply HI. intros [[-> ->]|[_ H]].
    + repeat split; auto; lia.
    + destruct (ti_grave t HI _ _ H) as [H1 [H2 H3]]. repeat split; auto; lia.
  - intros k o. rewrite E5, om_in_insert by apply HI. rewrite (ti_graverev t HI), Hdead. split.
    + intros [[-> ->]|[_ [-> H]]]; auto.
    + intros [-> [->|H]]; [left; auto|]. right. repeat split; auto. intros He.
      apply rev_key_inj in He; pose proof (dead_rev _ H); lia.
  - unfold live. rewrite E2. apply (ti_rev_distinct_live t HI).
  - intros o1 o2 H1 H2 He. apply Hdead in H1, H2. destruct H1 as [->|H1], H2 as [->|H2]; auto.
    + pose proof (dead_rev _ H2). lia.
    + pose proof (dead_rev _ H1). lia.
    + now apply (ti_rev_distinct_dead t HI).
  - intros o1 o2 H1 H2. apply Hdead in H2. unfold live in H1. rewrite E2 in H1. fold (live t o1) in H1.
    destruct H2 as [->|H2]; [pose proof (live_rev _ H1); lia|].
    now apply (ti_rev_distinct_cross t HI).
Qed.
End Moves.

(* ---- modify --------------------------------------------------------------------------------- *)
Lemma new_object_id m p t : p_id (o_data (new_object m p t)) = p_id p.
Proof. unfold new_object. destruct m; [destruct (om_get (p_id p) (t_primary t))|]; reflexivity. Qed.

Lemma new_object_rev m p t : o_rev (new_object m p t) = t_rev t + 1.
Proof. unfold new_object. destruct m; [destruct (om_get (p_id p) (t_primary t))|]; reflexivity. Qed.

(* all five core fields of the result of a successful insert / Modify / CompareAndSwap *)
Lemma modify_ok_core g m p t t' old e : modify g m p t = (t', (old, e)) -> e = EOk ->
  old = om_get (p_id p) (t_primary t) /\
  t_rev t' = t_rev t + 1 /\
  t_primary t' = om_insert (p_id p) (new_object m p t) (t_primary t) /\
  t_revidx t' = om_insert (rev_key (t_rev t + 1)) (new_object m p t)
                  (match old with Some o => om_delete (rev_key (o_rev o)) (t_revidx t) | None => t_revidx t end) /\
  t_grave t' = match old, om_get (p_id p) (t_grave t) with
               | None, Some g => om_delete (p_id p) (t_grave t) | _, _ => t_grave t end /\
  t_graverev t' = match old, om_get (p_id p) (t_grave t) with
                  | None, Some g => om_delete (rev_key (o_rev g)) (t_graverev t) | _, _ => t_graverev t end.
Proof.
  unfold modify, modify_with, new_object. intros H He; subst e.
  destruct (0 <? g).
  - destruct (om_get (p_id p) (t_primary t)) as [o|] eqn:E; [|discriminate].
    destruct (o_rev o =? g); [|discriminate].
    injection H as <- <-; simpl; destruct m; repeat split; auto;
      destruct (om_get (p_id p) (t_grave t)); auto.
  - destruct (om_get (p_id p) (t_primary t)) as [o|] eqn:E;
      [|destruct (om_get (p_id p) (t_grave t))]; injection H as <- <-; simpl; destruct m; repeat split; auto;
      destruct (om_get (p_id p) (t_grave t)); auto.
Qed.

Lemma live_key_not_dead t id o : TInv t -> om_get id (t_primary t) = Some o -> om_get id (t_grave t) = None.
Proof.
  intros HI H. destruct (om_get id (t_grave t)) as [g|] eqn:E; auto.
  apply om_in_get in E; [|apply HI]. destruct (ti_grave t HI _ _ E) as [_ [_ H3]]. congruence.
Qed.

Lemma TInv_modify_ok g m p t t' old e : TInv t -> modify g m p t = (t', (old, e)) -> e = EOk ->
  rev_bound t' -> TInv t'.
Proof.
  intros HI H He Hb.
  destruct (modify_ok_core _ _ _ _ _ _ _ H He) as [Ho [E1 [E2 [E3 [E4 E5]]]]].
  assert (Hbt : rev_bound t) by (unfold rev_bound in *; lia).
  set (obj := new_object m p t) in *.
  assert (Hid : p_id (o_data obj) = p_id p) by apply new_object_id.
  assert (Hrev : o_rev obj = t_rev t + 1) by apply new_object_rev.
  destruct old as [o0|]; symmetry in Ho.
  - (* replace a live object *)
    pose proof (live_key_not_dead _ _ _ HI Ho) as Hng.
    set (t1 := set5 t (t_rev t) (om_delete (p_id p) (t_primary t)) (om_delete (rev_key (o_rev o0)) (t_revidx t))
                    (t_grave t) (t_graverev t)).
    destruct (TInv_unlive t HI t1 (p_id p) o0 Hbt Ho eq_refl eq_refl eq_refl eq_refl eq_refl) as [HI1 [Hn1 _]].
    apply (TInv_add_live t1 HI1 t' obj); rewrite ?Hid; auto.
    + rewrite Hrev. simpl. lia.
    + rewrite Hrev. auto.
    + rewrite E2. simpl. symmetry. apply om_insert_delete, HI.
    + rewrite E3, Hrev. reflexivity.
  - destruct (om_get (p_id p) (t_grave t)) as [gr|] eqn:Eg.
    + (* re-insert of a key held in the graveyard *)
      set (t1 := set5 t (t_rev t) (t_primary t) (t_revidx t) (om_delete (p_id p) (t_grave t))
                      (om_delete (rev_key (o_rev gr)) (t_graverev t))).
      destruct (TInv_ungrave t HI t1 (p_id p) gr Hbt Eg eq_refl eq_refl eq_refl eq_refl eq_refl) as [HI1 [Hn1 _]].
      apply (TInv_add_live t1 HI1 t' obj); rewrite ?Hid; auto.
      * rewrite Hrev. simpl. lia.
      * rewrite Hrev. auto.
      * rewrite E3, Hrev. reflexivity.
    + (* fresh key *)
      apply (TInv_add_live t HI t' obj); rewrite ?Hid; auto.
      * rewrite Hrev. lia.
      * rewrite Hrev. auto.
      * rewrite E3, Hrev. reflexivity.
Qed.

Theorem TInv_modify g m p t : TInv t -> rev_bound (fst (modify g m p t)) -> TInv (fst (modify g m p t)).
Proof.
  intros HI Hb. destruct (modify g m p t) as [t' [old e]] eqn:H. simpl in *.
  destruct e; try (rewrite (modify_rejected_identity _ _ _ _ _ _ _ H); [exact HI|discriminate]).
  eapply TInv_modify_ok; eauto.
Qed.

(* ---- delete --------------------------------------------------------------------------------- *)
Definition has_trackers (t : table) : bool := match t_trackers t with [] => false | _ => true end.

Lemma delete_ok_core g id t t' old e o : delete g id t = (t', (old, e)) ->
  om_get id (t_primary t) = Some o -> (0 <? g) && negb (o_rev o =? g) = false ->
  old = Some o /\ e = EOk /\
  t_rev t' = t_rev t + 1 /\
  t_primary t' = om_delete id (t_primary t) /\
  t_revidx t' = om_delete (rev_key (o_rev o)) (t_revidx t) /\
  t_grave t' = (if has_trackers t then om_insert id (mkO (o_data o) (t_rev t + 1)) (t_grave t) else t_grave t) /\
  t_graverev t' = (if has_trackers t then om_insert (rev_key (t_rev t + 1)) (mkO (o_data o) (t_rev t + 1)) (t_graverev t)
                   else t_graverev t) /\
  t_trackers t' = t_trackers t /\ t_init t' = t_init t.
Proof.
  unfold delete, delete_with, has_trackers. intros H Hg Hc. rewrite Hg, Hc in H.
  injection H as <- <- <-. simpl. repeat split; auto.
Qed.

Lemma delete_cases g id t :
  fst (delete g id t) = t \/
  exists o, om_get id (t_primary t) = Some o /\ (0 <? g) && negb (o_rev o =? g) = false.
Proof.
  unfold delete, delete_with. destruct (om_get id (t_primary t)) as [o|]; auto.
  destruct ((0 <? g) && negb (o_rev o =? g)) eqn:E; auto. right. exists o. auto.
Qed.

Theorem TInv_delete g id t : TInv t -> rev_bound (fst (delete g id t)) -> TInv (fst (delete g id t)).
Proof.
  intros HI Hb. destruct (delete_cases g id t) as [->|[o [Ho Hc]]]; auto.
  destruct (delete g id t) as [t' [old e]] eqn:H. simpl in *.
  destruct (delete_ok_core _ _ _ _ _ _ _ H Ho Hc) as [_ [_ [E1 [E2 [E3 [E4 [E5 _]]]]]]].
  assert (Hbt : rev_bound t) by (unfold rev_bound in *; lia).
  pose proof (live_key_not_dead _ _ _ HI Ho) as Hng.
  destruct (get_live t HI _ _ Ho) as [Hid _].
  set (t1 := set5 t (t_rev t) (om_delete id (t_primary t)) (om_delete (rev_key (o_rev o)) (t_revidx t))
                  (t_grave t) (t_graverev t)).
  destruct (TInv_unlive t HI t1 id o Hbt Ho eq_refl eq_refl eq_refl eq_refl eq_refl) as [HI1 [Hn1 _]].
  destruct (has_trackers t).
  - apply (TInv_add_dead t1 HI1 t' (mkO (o_data o) (t_rev t + 1))); cbn [o_data o_rev]; rewrite ?Hid; auto.
    simpl. lia.
  - apply (TInv_bump t1 HI1 t'); auto. simpl. lia.
Qed.

(* ---- delete_all ------------------------------------------------------------------------------ *)
Lemma fold_delete_rev_mono (l : list (bytes * object)) : forall t,
  t_rev t <= t_rev (fold_left (fun t kv => fst (delete 0 (p_id (o_data (snd kv))) t)) l t).
Proof.
  induction l as [|kv r IH]; intros t; simpl; [lia|].
  etransitivity; [|apply IH]. apply delete_rev_mono.
Qed.

Lemma TInv_fold_delete (l : list (bytes * object)) : forall t, TInv t ->
  rev_bound (fold_left (fun t kv => fst (delete 0 (p_id (o_data (snd kv))) t)) l t) ->
  TInv (fold_left (fun t kv => fst (delete 0 (p_id (o_data (snd kv))) t)) l t).
Proof.
  induction l as [|kv r IH]; intros t HI Hb; simpl in *; auto.
  apply IH; auto. apply TInv_delete; auto.
  pose proof (fold_delete_rev_mono r (fst (delete 0 (p_id (o_data (snd kv))) t))). unfold rev_bound in *. lia.
Qed.

Theorem TInv_delete_all t : TInv t -> rev_bound (delete_all t) -> TInv (delete_all t).
Proof. unfold delete_all. apply TInv_fold_delete. Qed.

Lemma delete_all_rev_mono t : t_rev t <= t_rev (delete_all t).
Proof. unfold delete_all. apply fold_delete_rev_mono. Qed.

(* ---- graveyard collection --------------------------------------------------------------------- *)
Theorem TInv_gc_apply keys : forall t, TInv t -> rev_bound t -> TInv (gc_apply_table keys t).
Proof.
  unfold gc_apply_table. induction keys as [|k r IH]; intros t HI Hb; simpl; auto.
  destruct (om_get k (t_graverev t)) as [old|] eqn:E; [|apply IH; auto].
  apply IH; [|exact Hb].
  apply om_in_get in E; [|apply HI]. apply (ti_graverev t HI) in E. destruct E as [-> Hd].
  apply (dead_get t HI) in Hd.
  match goal with |- TInv ?x => set (t1 := x) end.
  now destruct (TInv_ungrave t HI t1 _ old Hb Hd eq_refl eq_refl eq_refl eq_refl eq_refl).
Qed.

(* ---- tracker / initializer field updates ------------------------------------------------------- *)
Definition set_meta (t : table) (trk : list N) (ini : option (N * list N)) : table :=
  mkT (t_rev t) (t_primary t) (t_revidx t) (t_grave t) (t_graverev t) (t_u t) (t_n t) (t_lu t) (t_ln t) trk ini.

Theorem TInv_set_meta t trk ini : TInv t -> TInv (set_meta t trk ini).
Proof. apply TInv_ext. repeat split. Qed.
