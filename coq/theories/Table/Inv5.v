(* Table/Inv5.v — table initialization along histories (C19): init watch channels are fresh
   and owned by one table, a watch closes at most once and only in a Commit whose new root
   shows the table initialized; Initialized is monotone except through RegisterInitializer. *)
From SV Require Import Base.Bytes Base.OrdMap KeyEnc.Model Table.Model Table.InvDefs
                       Table.Proofs Table.GcProofs Table.Inv Table.Inv2 Table.Inv3.
From Coq Require Import ZifyN ZifyNat ZifyBool.
Open Scope N_scope.

Definition init_watch (t : table) : option N :=
  match t_init t with Some (w, _) => Some w | None => None end.
Definition initialized (t : table) : bool := fst (fst (q_init t)).

(* ---- table updates and t_init ------------------------------------------------------------------- *)
Lemma modify_init g m p t : t_init (fst (modify g m p t)) = t_init t.
Proof.
  destruct (modify g m p t) as [t' [old e]] eqn:Hm. simpl.
  destruct e; try (rewrite (modify_rejected_identity _ _ _ _ _ _ _ Hm); [reflexivity|discriminate]).
  now destruct (modify_ok_spec _ _ _ _ _ _ _ Hm eq_refl) as [_ [_ [_ [_ R]]]].
Qed.

Lemma delete_init g id t : t_init (fst (delete g id t)) = t_init t.
Proof.
  destruct (delete_cases g id t) as [->|[o [Ho Hc]]]; auto.
  destruct (delete g id t) as [t' [old e]] eqn:H. simpl.
  now destruct (delete_ok_core _ _ _ _ _ _ _ H Ho Hc) as [_ [_ [_ [_ [_ [_ [_ [_ R]]]]]]]].
Qed.

Lemma delete_all_init t : t_init (delete_all t) = t_init t.
Proof.
  unfold delete_all. generalize (t_primary t) as l. intros l. revert t.
  induction l as [|kv r IH]; intros t; simpl; auto. rewrite IH. apply delete_init.
Qed.

Lemma tupd_init t t' : tupd t t' ->
  t_init t' = t_init t \/ exists w p name, t_init t = Some (w, p) /\ t_init t' = Some (w, filter (fun n => negb (n =? name)) p).
Proof.
  intros H; inversion H; subst; auto using modify_init, delete_init, delete_all_init.
  right. exists w, p, name. auto.
Qed.

Lemma tupd_init_watch t t' : tupd t t' -> init_watch t' = init_watch t.
Proof.
  intros H. unfold init_watch. destruct (tupd_init _ _ H) as [->|[w [p [name [-> ->]]]]]; reflexivity.
Qed.

Lemma tupd_initialized t t' : tupd t t' -> initialized t = true -> initialized t' = true.
Proof.
  intros H. unfold initialized, q_init. destruct (tupd_init _ _ H) as [->|[w [p [name [-> ->]]]]]; auto.
  destruct p as [|n p]; simpl; auto. discriminate.
Qed.

Lemma gc_apply_init keys t : t_init (gc_apply_table keys t) = t_init t.
Proof. apply (gc_apply_frame keys t). Qed.

(* ---- watch ids of a list of tables ---------------------------------------------------------------- *)
(* every watch id handed out is below the counter, not yet closed, and owned by one table *)
Definition wl_ok (nextw : N) (closed : list N) (l : list (option N)) : Prop :=
  (forall i w, nth_error l i = Some (Some w) -> w < nextw /\ ~ In w closed) /\
  (forall i j w, nth_error l i = Some (Some w) -> nth_error l j = Some (Some w) -> i = j).

Definition watches (ts : list table) : list (option N) := map init_watch ts.

Definition WInv (d : db) : Prop :=
  (forall w, In w (d_closedw d) -> w < d_nextw d) /\
  NoDup (d_closedw d) /\
  wl_ok (d_nextw d) (d_closedw d) (watches (d_root d)) /\
  (forall es old, d_txn d = Some (es, old) -> wl_ok (d_nextw d) (d_closedw d) (watches (map fst es))).

Lemma wl_ok_sub nextw nextw' closed l l' : nextw <= nextw' ->
  (forall i w, nth_error l' i = Some (Some w) -> nth_error l i = Some (Some w)) ->
  wl_ok nextw closed l -> wl_ok nextw' closed l'.
Proof.
  intros Hn Hs [H1 H2]. split.
  - intros i w Hi. destruct (H1 i w (Hs _ _ Hi)). split; auto. lia.
  - intros i j w Hi Hj. apply (H2 i j w); auto.
Qed.

Lemma NoDup_app_ok {A} (l1 l2 : list A) : NoDup l1 -> NoDup l2 -> (forall x, In x l1 -> ~ In x l2) -> NoDup (l1 ++ l2).
Proof.
  induction l1 as [|a r IH]; simpl; auto. intros H1 H2 H. inversion H1; subst. constructor.
  - rewrite in_app_iff. intros [Hc|Hc]; [auto|]. apply (H a); auto.
  - apply IH; auto.
Qed.

Lemma map_upd_nth_same {A B} (g : A -> B) (f : A -> A) : forall n l,
  (forall x, nth_error l n = Some x -> g (f x) = g x) -> map g (upd_nth n f l) = map g l.
Proof.
  induction n as [|n IH]; intros [|y r] H; simpl; auto.
  - f_equal. apply H. reflexivity.
  - f_equal. apply IH. intros x Hx. apply H. exact Hx.
Qed.

Lemma nth_error_watches ts i : nth_error (watches ts) i = option_map init_watch (nth_error ts i).
Proof. unfold watches. apply nth_error_map. Qed.

(* ---- which watches a Commit closes ------------------------------------------------------------------ *)
Lemma in_commit_closing es w : In w (commit_closing es) <->
  exists i t, nth_error es i = Some (t, true) /\ t_init t = Some (w, []).
Proof.
  induction es as [|[t b] r IH]; simpl.
  - split; [tauto|]. intros [[|i] [t [H _]]]; discriminate.
  - rewrite in_app_iff, IH. split.
    + intros [H|[i [t' [H1 H2]]]].
      * destruct b; [|destruct H]. destruct (t_init t) as [[w' [|n p]]|] eqn:E; try destruct H as [<-|[]]; try destruct H.
        exists O, t. auto.
      * exists (S i), t'. auto.
    + intros [[|i] [t' [H1 H2]]]; simpl in H1.
      * injection H1 as -> ->. left. rewrite H2. left; reflexivity.
      * right. exists i, t'. auto.
Qed.

Lemma commit_closing_nodup es :
  (forall i j w, nth_error (watches (map fst es)) i = Some (Some w) ->
                 nth_error (watches (map fst es)) j = Some (Some w) -> i = j) ->
  NoDup (commit_closing es).
Proof.
  induction es as [|[t b] r IH]; intros Hd; simpl; [constructor|].
  assert (Hr : NoDup (commit_closing r)).
  { apply IH. intros i j w Hi Hj. specialize (Hd (S i) (S j) w Hi Hj). now injection Hd. }
  destruct b; auto. destruct (t_init t) as [[w [|n p]]|] eqn:E; auto. simpl. constructor; auto.
  intros Hin. apply in_commit_closing in Hin. destruct Hin as [i [t' [H1 H2]]].
  assert (H0 : O = S i); [|discriminate].
  apply (Hd O (S i) w); simpl.
  - unfold init_watch. now rewrite E.
  - rewrite nth_error_watches, nth_error_map, H1. simpl. unfold init_watch. now rewrite H2.
Qed.

Lemma fin_table_init t : t_init (fin_table t) = match t_init t with Some (w, []) => None | x => x end.
Proof. unfold fin_table. destruct (t_init t) as [[w [|n p]]|] eqn:E; simpl; auto. Qed.

(* an entry of the new root, its transaction entry and watch *)
Lemma commit_root_watch d es old i t' w : TxnInv d -> d_txn d = Some (es, old) ->
  nth_error (commit_root es (d_root d)) i = Some t' -> init_watch t' = Some w ->
  exists te b, nth_error es i = Some (te, b) /\ init_watch te = Some w /\
               ~ (b = true /\ t_init te = Some (w, [])).
Proof.
  intros HT E1 Hn Hw. destruct (HT _ _ E1) as [_ HF]. pose proof (Forall2_nth_error _ _ _ HF i) as Hi.
  unfold commit_root in Hn. rewrite nth_error_zip_with in Hn.
  destruct (nth_error es i) as [[te b]|]; [|discriminate].
  destruct (nth_error (d_root d) i) as [cur|]; [|destruct Hi]. destruct Hi as [_ R2]. simpl in R2.
  exists te, b. split; auto. destruct b; injection Hn as <-.
  - unfold init_watch in *. rewrite fin_table_init in Hw.
    destruct (t_init te) as [[w' [|n p]]|]; try discriminate; injection Hw as ->. split; auto.
    intros [_ H]. discriminate.
  - rewrite R2 by reflexivity. split; auto. intros [H _]. discriminate.
Qed.

Theorem WInv_init n : WInv (init_db n).
Proof.
  unfold WInv, init_db. cbn [d_closedw d_nextw d_root d_txn].
  assert (Hw : forall i w, nth_error (watches (repeat empty_table n)) i = Some (Some w) -> False).
  { intros i w H. rewrite nth_error_watches in H. destruct (nth_error (repeat empty_table n) i) eqn:E; [|discriminate].
    apply nth_error_In, repeat_spec in E. subst. discriminate. }
  split; [intros w []|]. split; [constructor|]. split; [split|discriminate].
  - intros i w H. destruct (Hw _ _ H).
  - intros i j w H. destruct (Hw _ _ H).
Qed.

Theorem WInv_step d o : TxnInv d -> WInv d -> WInv (fst (step d o)).
Proof.
  intros HT [HC [HN [HR HX]]]. pose proof (step_shape d o) as Sh. set (d' := fst (step d o)) in *. unfold WInv.
  inversion Sh as [E|es E1 E2 E|es old tab t t' E1 E2 Hu _ _ E|tab name es old t t' _ E1 E2 Hu E|tab name _ E
                   |sid es old _ E1 E|E|sid E|iid tab E1 E|keys Eg E1 E];
    apply (core5_inv d') in E; destruct E as [Er [Et [_ [Ec En]]]]; rewrite Er, Et, Ec, En.
  - auto.
  - (split; [|split; [|split]]); auto. intros es' old' He. injection He as <- <-. now rewrite E2.
  - (split; [|split; [|split]]); auto. intros es' old' He. injection He as <- <-.
    unfold watches. rewrite map_map. rewrite map_upd_nth_same; [rewrite <- map_map; eapply HX; eauto|].
    intros x Hx. rewrite E2 in Hx. injection Hx as <-. simpl. now apply tupd_init_watch.
  - (* RegisterInitializer *)
    split; [intros w Hw; specialize (HC w Hw); lia|]. split; auto. split.
    + eapply wl_ok_sub; [|intros i w H; exact H|exact HR]. lia.
    + intros es' old' He. injection He as <- <-. specialize (HX _ _ E1).
      inversion Hu as [t0|t0 nm Hi|t0 w p nm Hi]; subst.
      * eapply wl_ok_sub; [| |exact HX]; [lia|]. intros i w.
        unfold watches. rewrite map_map, map_upd_nth_same; [rewrite <- map_map; auto|].
        intros x Hx. rewrite E2 in Hx. now injection Hx as <-.
      * (* a fresh watch *)
        destruct HX as [X1 X2].
        assert (Hnth : forall i, nth_error (watches (map fst (upd_nth tab (fun _ => (set_meta t (t_trackers t) (Some (d_nextw d, [nm])), true)) es))) i =
                                 if Nat.eqb i tab then Some (Some (d_nextw d)) else nth_error (watches (map fst es)) i).
        { intros i. rewrite !nth_error_watches, !nth_error_map. destruct (Nat.eqb_spec i tab) as [->|Hne].
          - rewrite (nth_error_upd_nth_same _ _ _ _ E2). reflexivity.
          - rewrite nth_error_upd_nth_other by congruence. reflexivity. }
        split.
        -- intros i w. rewrite Hnth. destruct (Nat.eqb i tab).
           ++ intros H; injection H as <-. split; [lia|]. intros Hc. specialize (HC _ Hc). lia.
           ++ intros H. destruct (X1 i w H). split; auto. lia.
        -- intros i j w. rewrite !Hnth. destruct (Nat.eqb_spec i tab) as [->|Hi'], (Nat.eqb_spec j tab) as [->|Hj']; auto.
           ++ intros H1 H2. injection H1 as <-. destruct (X1 j _ H2). lia.
           ++ intros H1 H2. injection H2 as <-. destruct (X1 i _ H1). lia.
           ++ apply X2.
      * eapply wl_ok_sub; [| |exact HX]; [lia|]. intros i w'.
        unfold watches. rewrite map_map, map_upd_nth_same; [rewrite <- map_map; auto|].
        intros x Hx. rewrite E2 in Hx. injection Hx as <-. simpl. unfold init_watch. simpl. now rewrite Hi.
  - split; [intros w Hw; specialize (HC w Hw); lia|]. split; auto. split.
    + eapply wl_ok_sub; [|intros i w H; exact H|exact HR]. lia.
    + intros es' old' He. eapply wl_ok_sub; [|intros i w H; exact H|eapply HX; eauto]. lia.
  - (* Commit *)
    specialize (HX _ _ E1). destruct HX as [X1 X2].
    assert (Hcl : forall w, In w (commit_closing es) -> w < d_nextw d /\ ~ In w (d_closedw d)).
    { intros w Hw. apply in_commit_closing in Hw. destruct Hw as [i [te [H1 H2]]].
      apply (X1 i w). rewrite nth_error_watches, nth_error_map, H1. simpl. unfold init_watch. now rewrite H2. }
    split; [|split; [|split]].
    + intros w Hw. apply in_app_iff in Hw. destruct Hw as [Hw|Hw]; auto. apply (Hcl w Hw).
    + apply NoDup_app_ok; auto; [now apply commit_closing_nodup|]. intros w Hw. apply (Hcl w Hw).
    + split.
      * intros i w Hi. rewrite nth_error_watches in Hi.
        destruct (nth_error (commit_root es (d_root d)) i) as [t'|] eqn:Hn; [|discriminate]. simpl in Hi.
        injection Hi as Hi. destruct (commit_root_watch d es old i t' w HT E1 Hn Hi) as [te [b [H1 [H2 H3]]]].
        assert (Hw : nth_error (watches (map fst es)) i = Some (Some w))
          by (rewrite nth_error_watches, nth_error_map, H1; simpl; now rewrite H2).
        destruct (X1 i w Hw) as [Y1 Y2]. split; auto. intros Hin. apply in_app_iff in Hin.
        destruct Hin as [Hin|Hin]; auto. apply in_commit_closing in Hin. destruct Hin as [j [tj [J1 J2]]].
        assert (Hj : nth_error (watches (map fst es)) j = Some (Some w))
          by (rewrite nth_error_watches, nth_error_map, J1; simpl; unfold init_watch; now rewrite J2).
        pose proof (X2 i j w Hw Hj) as ->. rewrite J1 in H1. injection H1 as <- <-. apply H3. auto.
      * intros i j w Hi Hj. rewrite nth_error_watches in Hi, Hj.
        destruct (nth_error (commit_root es (d_root d)) i) as [ti|] eqn:Hni; [|discriminate].
        destruct (nth_error (commit_root es (d_root d)) j) as [tj|] eqn:Hnj; [|discriminate]. simpl in Hi, Hj.
        injection Hi as Hi. injection Hj as Hj.
        destruct (commit_root_watch d es old i ti w HT E1 Hni Hi) as [te [b [H1 [H2 _]]]].
        destruct (commit_root_watch d es old j tj w HT E1 Hnj Hj) as [te' [b' [H1' [H2' _]]]].
        apply (X2 i j w); rewrite nth_error_watches, nth_error_map.
        -- rewrite H1. simpl. now rewrite H2.
        -- rewrite H1'. simpl. now rewrite H2'.
    + discriminate.
  - (split; [|split; [|split]]); auto. discriminate.
  - auto.
  - (split; [|split; [|split]]); auto; [|discriminate].
    unfold watches. rewrite map_upd_nth_same; auto.
  - (split; [|split; [|split]]); auto; [|discriminate].
    eapply wl_ok_sub; [| |exact HR]; [lia|]. intros i w. rewrite !nth_error_watches, nth_error_zip_with.
    destruct (nth_error keys i), (nth_error (d_root d) i); simpl; try discriminate.
    unfold init_watch. now rewrite gc_apply_init.
Qed.

Theorem WInv_run ops : forall d, TxnInv d -> WInv d -> WInv (fst (run d ops)).
Proof.
  induction ops as [|o r IH]; intros d HT HW; [exact HW|]. rewrite run_cons_fst.
  apply IH; [now apply TxnInv_step|now apply WInv_step].
Qed.

Corollary WInv_reachable n ops : WInv (fst (run (init_db n) ops)).
Proof. apply WInv_run; [apply TxnInv_init|apply WInv_init]. Qed.

(* ---- the closed-watch set ------------------------------------------------------------------------------ *)
(* it only grows, and only in a Commit (by the watches of the locked tables whose initializers are all done) *)
Theorem closedw_step d o :
  d_closedw (fst (step d o)) = d_closedw d \/
  exists sid es old, o = OCommit sid /\ d_txn d = Some (es, old) /\
                     d_closedw (fst (step d o)) = commit_closing es ++ d_closedw d.
Proof.
  pose proof (step_shape d o) as Sh. set (d' := fst (step d o)) in *.
  inversion Sh as [E|es E1 E2 E|es old tab t t' E1 E2 Hu _ _ E|tab name es old t t' _ E1 E2 Hu E|tab name _ E
                   |sid es old Eo E1 E|E|sid E|iid tab E1 E|keys Eg E1 E];
    apply (core5_inv d') in E; destruct E as [_ [_ [_ [Ec _]]]]; auto.
  right. exists sid, es, old. auto.
Qed.

Theorem closedw_grows_run ops : forall d w, In w (d_closedw d) -> In w (d_closedw (fst (run d ops))).
Proof.
  induction ops as [|o r IH]; intros d w Hw; [exact Hw|]. rewrite run_cons_fst. apply IH.
  destruct (closedw_step d o) as [->|[sid [es [old [_ [_ ->]]]]]]; auto. apply in_app_iff. auto.
Qed.

(* a watch closed by a Commit: it was open before (closes at most once), it belonged to a locked table
   of the transaction whose initializers are all done, and the NEW root already shows that table
   initialized (a fresh snapshot taken after observing the close sees Initialized = true) *)
Theorem commit_closes_after_visible d sid es old w : TxnInv d -> WInv d -> d_txn d = Some (es, old) ->
  let d' := fst (step d (OCommit sid)) in
  In w (d_closedw d') -> ~ In w (d_closedw d) ->
  exists i t t', nth_error es i = Some (t, true) /\ t_init t = Some (w, []) /\
                 nth_error (d_root d') i = Some t' /\ t_init t' = None /\
                 snd (step d' (OQuery SFresh i QInit)) = OutInit true [] true.
Proof.
  intros HT HW E1 d' Hin Hnot. subst d'. simpl in *. rewrite E1 in *. simpl in *.
  apply in_app_iff in Hin. destruct Hin as [Hin|Hin]; [|contradiction].
  apply (in_commit_closing es w) in Hin. destruct Hin as [i [t [H1 H2]]].
  destruct (HT _ _ E1) as [_ HF]. pose proof (Forall2_nth_error _ _ _ HF i) as Hi. rewrite H1 in Hi.
  destruct (nth_error (d_root d) i) as [cur|] eqn:Hc; [|destruct Hi].
  exists i, t, (fin_table t).
  assert (Hn : nth_error (zip_with (fun e cur => match e with (t, true) => fin_table t | (_, false) => cur end) es (d_root d)) i
               = Some (fin_table t)) by (rewrite nth_error_zip_with, H1, Hc; reflexivity).
  assert (Hf : t_init (fin_table t) = None) by (rewrite fin_table_init, H2; reflexivity).
  repeat split; auto.
  unfold fin_table in Hn. unfold set_meta in Hn. rewrite Hn. simpl. unfold q_init. fold (set_meta t (t_trackers t) None).
  change (match t_init t with Some (w0, []) => set_meta t (t_trackers t) None | _ => t end) with (fin_table t).
  now rewrite Hf.
Qed.

(* the watches a Commit closes were all open, and are pairwise distinct *)
Theorem commit_closes_once d sid es old : TxnInv d -> WInv d -> d_txn d = Some (es, old) ->
  NoDup (d_closedw (fst (step d (OCommit sid)))) /\
  forall w, In w (commit_closing es) -> ~ In w (d_closedw d).
Proof.
  intros HT HW E1. split; [apply (WInv_step d (OCommit sid) HT HW)|].
  intros w Hw. destruct HW as [_ [_ [_ HX]]]. destruct (HX _ _ E1) as [X1 _].
  apply in_commit_closing in Hw. destruct Hw as [i [te [H1 H2]]].
  apply (X1 i w). rewrite nth_error_watches, nth_error_map, H1. simpl. unfold init_watch. now rewrite H2.
Qed.

(* ---- Initialized is monotone ---------------------------------------------------------------------------- *)
(* committed states: a table that shows initialized stays so, unless a Commit publishes a locked table
   entry with pending initializers (which only RegisterInitializer creates, see below) *)
Theorem initialized_monotone_step d o i t t' : TxnInv d ->
  nth_error (d_root d) i = Some t -> initialized t = true ->
  nth_error (d_root (fst (step d o))) i = Some t' ->
  initialized t' = true \/
  exists sid es old te w p, o = OCommit sid /\ d_txn d = Some (es, old) /\ nth_error es i = Some (te, true) /\
                            t_init te = Some (w, p) /\ p <> [].
Proof.
  intros HT. pose proof (step_shape d o) as Sh. set (d' := fst (step d o)) in *.
  inversion Sh as [E|es E1 E2 E|es old tab t0 t0' E1 E2 Hu _ _ E|tab name es old t0 t0' _ E1 E2 Hu E|tab name _ E
                   |sid es old Eo E1 E|E|sid E|iid tab E1 E|keys Eg E1 E];
    apply (core5_inv d') in E; destruct E as [Er _]; rewrite Er; intros H1 Hi H2;
    try (rewrite H1 in H2; injection H2 as <-; auto; fail).
  - (* commit *)
    destruct (HT _ _ E1) as [_ HF]. pose proof (Forall2_nth_error _ _ _ HF i) as Hf.
    unfold commit_root in H2. rewrite nth_error_zip_with, H1 in H2. rewrite H1 in Hf.
    destruct (nth_error es i) as [[te [|]]|] eqn:Ee; try discriminate; injection H2 as <-.
    + unfold initialized, q_init. rewrite fin_table_init.
      destruct (t_init te) as [[w [|n p]]|] eqn:Ei; auto.
      right. exists sid, es, old, te, w, (n :: p). repeat split; auto. discriminate.
    + auto.
  - (* close *)
    destruct (Nat.eq_dec tab i) as [->|Hne].
    + rewrite (nth_error_upd_nth_same _ _ _ _ H1) in H2. injection H2 as <-. auto.
    + rewrite nth_error_upd_nth_other in H2 by auto. rewrite H1 in H2; injection H2 as <-; auto.
  - (* gc *)
    rewrite nth_error_zip_with, H1 in H2. destruct (nth_error keys i); try discriminate. injection H2 as <-.
    left. unfold initialized, q_init. now rewrite gc_apply_init.
Qed.

(* inside a write transaction only RegisterInitializer on that table makes a table entry uninitialized *)
Theorem txn_uninit_only_by_reginit d o es old i t b es' old' t' b' :
  d_txn d = Some (es, old) -> nth_error es i = Some (t, b) -> initialized t = true ->
  d_txn (fst (step d o)) = Some (es', old') -> nth_error es' i = Some (t', b') ->
  initialized t' = true \/ exists name, o = ORegInit i name.
Proof.
  intros D1 D2 Hi. pose proof (step_shape d o) as Sh. set (d' := fst (step d o)) in *.
  inversion Sh as [E|es0 E1 E2 E|es0 old0 tab t0 t0' E1 E2 Hu _ _ E|tab name es0 old0 t0 t0' Eo E1 E2 Hu E|tab name _ E
                   |sid es0 old0 Eo E1 E|E|sid E|iid tab E1 E|keys Eg E1 E];
    apply (core5_inv d') in E; destruct E as [_ [Et _]]; rewrite Et; try discriminate; try congruence.
  - rewrite D1. intros H; injection H as <- <-. intros H. rewrite D2 in H. injection H as <- <-. auto.
  - rewrite D1 in E1. injection E1 as <- <-. intros H; injection H as <- <-.
    destruct (Nat.eq_dec tab i) as [->|Hne].
    + rewrite (nth_error_upd_nth_same _ _ _ _ E2). intros H; injection H as <- <-.
      rewrite D2 in E2. injection E2 as <- _. left. eapply tupd_initialized; eauto.
    + rewrite nth_error_upd_nth_other by auto. rewrite D2. intros H; injection H as <- <-. auto.
  - rewrite D1 in E1. injection E1 as <- <-. intros H; injection H as <- <-.
    destruct (Nat.eq_dec tab i) as [->|Hne]; [right; eauto|].
    rewrite nth_error_upd_nth_other by auto. rewrite D2. intros H; injection H as <- <-. auto.
  - rewrite D1. intros H; injection H as <- <-. intros H. rewrite D2 in H. injection H as <- <-. auto.
  - rewrite D1. intros H; injection H as <- <-. intros H. rewrite D2 in H. injection H as <- <-. auto.
Qed.

Theorem reachable_watch_facts n ops :
  WInv (fst (run (init_db n) ops)) /\ TxnInv (fst (run (init_db n) ops)) /\
  NoDup (d_closedw (fst (run (init_db n) ops))).
Proof.
  pose proof (WInv_reachable n ops) as H.
  exact (conj H (conj (TxnInv_run ops _ (TxnInv_init n)) (proj1 (proj2 H)))).
Qed.
