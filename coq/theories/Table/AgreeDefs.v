(* Table/AgreeDefs.v — vocabulary shared by Table/AgreeN.v (part indexes), Table/AgreeLpm.v
   (LPM indexes), Table/Agree.v (the Agree invariant) and Table/Queries.v: the agreement
   predicates of Table/InvDefs.v abstracted over the set of live objects, and the abstract
   description of one write step (modify / delete) as seen by a secondary index. No proofs
   except the unfolding lemmas relating them to InvDefs. *)
From SV Require Import Base.Bytes Base.OrdMap KeyEnc.Model Table.Model Table.InvDefs.
Open Scope N_scope.

(* unique part index *)
Definition u_agree_on (L : object -> Prop) (keys : payload -> list bytes) (m : idx) : Prop :=
  om_sorted m /\ forall K o, In (K, o) m <-> (In K (keys (o_data o)) /\ L o).
(* non-unique part index (composite keys) *)
Definition n_agree_on (L : object -> Prop) (keys : payload -> list bytes) (m : idx) : Prop :=
  om_sorted m /\
  forall K o, In (K, o) m <-> (exists k, In k (keys (o_data o)) /\ K = nuk (p_id (o_data o)) k /\ L o).
(* LPM index *)
Definition l_agree_on (L : object -> Prop) (keys : payload -> list lkey) (m : lidx) : Prop :=
  lsorted m /\
  (forall k e, In (k, e) m -> e <> [] /\ esorted e) /\
  forall k pk o, (exists e, In (k, e) m /\ In (pk, o) e) <->
                 (In k (keys (o_data o)) /\ pk = p_id (o_data o) /\ L o).
(* keys of a unique index are not shared by two different objects of L *)
Definition wf_on {A} (L : object -> Prop) (keys : payload -> list A) : Prop :=
  forall o1 o2 k, L o1 -> L o2 -> In k (keys (o_data o1)) -> In k (keys (o_data o2)) -> o1 = o2.

(* One write step as seen by `reindex idKey old new`: L = live objects before, L' = after.
   old = the previous object under idKey (noobj, revision 0, if there was none),
   new = the object now stored under idKey (noobj, revision 0, for a delete). *)
Record step_ok (L L' : object -> Prop) (idKey : bytes) (old new : object) : Prop := mkStep {
  so_old : o_rev old <> 0 -> L old /\ p_id (o_data old) = idKey;
  so_only : forall o, L o -> p_id (o_data o) = idKey -> o_rev old <> 0 /\ o = old;
  so_new : o_rev new <> 0 -> p_id (o_data new) = idKey;
  so_live : forall o, L' o <-> ((o_rev new <> 0 /\ o = new) \/ (L o /\ p_id (o_data o) <> idKey))
}.

Lemma u_agree_unfold t : u_agree t <-> u_agree_on (live t) p_u (t_u t).
Proof. reflexivity. Qed.
Lemma n_agree_unfold t : n_agree t <-> n_agree_on (live t) p_n (t_n t).
Proof. reflexivity. Qed.
Lemma l_agree_unfold u keys m t : l_agree u keys m t <-> l_agree_on (live t) keys m.
Proof. reflexivity. Qed.
Lemma u_wf_unfold t : u_wf t <-> wf_on (live t) p_u.
Proof. reflexivity. Qed.
Lemma lu_wf_unfold t : lu_wf t <-> wf_on (live t) p_lu.
Proof. reflexivity. Qed.
