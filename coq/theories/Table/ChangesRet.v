(* Table/ChangesRet.v — graveyard retention at table level (C08): how the write operations,
   tracker registration and graveyard collection act on `tab_le` (later state of the same
   history) and on `retained` (what an iterator may still need is in the graveyard).
   Database histories: Table/ChangesHist.v. *)
From SV Require Import Base.Bytes Base.OrdMap KeyEnc.Model KeyEnc.Proofs
                       Table.Model Table.InvDefs Table.Proofs Table.GcProofs Table.Inv
                       Table.ChangesStream Table.ChangesIter.
From Coq Require Import ZifyN ZifyNat ZifyBool.
Open Scope N_scope.
#[local] Opaque rev_key.

(* ---- tables that differ only outside revision / primary / graveyard ------------------------------ *)
Definition sem_eq (t t' : table) : Prop :=
  t_rev t' = t_rev t /\ t_primary t' = t_primary t /\ t_grave t' = t_grave t.

Lemma sem_eq_refl t : sem_eq t t.
Proof. repeat split. Qed.

Lemma tab_le_sem_r A B B' : sem_eq B B' -> tab_le A B -> tab_le A B'.
Proof. intros [E1 [E2 E3]]. unfold tab_le, live, dead. now rewrite E1, E2, E3. Qed.

Lemma tab_le_sem_l A A' B : sem_eq A A' -> tab_le A B -> tab_le A' B.
Proof. intros [E1 [E2 E3]]. unfold tab_le, live, dead. now rewrite E1, E2, E3. Qed.

Lemma retained_sem_r A B B' D : sem_eq B B' -> retained A B D -> retained A B' D.
Proof. intros [E1 [E2 E3]]. unfold retained, has_live, has_dead_above, live, dead. now rewrite E2, E3. Qed.

Lemma retained_sem_l A A' B D : sem_eq A A' -> retained A B D -> retained A' B D.
Proof. intros [E1 [E2 E3]]. unfold retained, has_live, has_dead_above, live, dead. now rewrite E2, E3. Qed.

Lemma retained_refl A D : retained A A D.
Proof. intros k [H|H] Hn; [contradiction|exact H]. Qed.

Lemma retained_trans A B C D : TInv B -> retained A B D -> retained B C D -> retained A C D.
Proof.
  intros HB H1 H2 k Hs Hn. destruct (has_live_dec B k HB) as [Hl|Hl].
  - apply H2; auto.
  - apply H2; auto.
Qed.

(* the delete cursor moves up (never beyond the revision of the state it was taken from) *)
Lemma retained_raise A B D D' : TInv A -> tab_le A B -> D <= D' -> D' <= t_rev A ->
  retained A B D -> retained A B D'.
Proof.
  intros HA [_ [_ Ld]] Hle Hr H k Hs Hn.
  assert (Hs0 : has_live A k \/ has_dead_above A k D).
  { destruct Hs as [Hs|[o [H1 [H2 H3]]]]; [now left|right]. exists o. repeat split; auto. lia. }
  destruct (H k Hs0 Hn) as [g [G1 [G2 G3]]]. exists g. repeat split; auto.
  destruct (N.le_gt_cases (o_rev g) (t_rev A)) as [Hb|Hb]; [|lia].
  pose proof (Ld _ G1 Hb) as GA.
  destruct Hs as [[o [H1 H2]]|[o [H1 [H2 H3]]]].
  - exfalso. apply (live_dead_pk A o g HA); auto. congruence.
  - assert (o = g) by (eapply dead_pk_fun; eauto; congruence). subst o. exact H3.
Qed.

(* ---- one table transformer step: trackers kept, later state, retention kept while some tracker is
        registered -------------------------------------------------------------------------------- *)
Definition tstep (t t' : table) : Prop :=
  t_trackers t' = t_trackers t /\ tab_le t t' /\
  forall A D, t_trackers t <> [] -> D <= t_rev t -> retained A t D -> retained A t' D.

Lemma tstep_refl t : tstep t t.
Proof. split; [reflexivity|]. split; [apply tab_le_refl|auto]. Qed.

Lemma tstep_trans t1 t2 t3 : tstep t1 t2 -> tstep t2 t3 -> tstep t1 t3.
Proof.
  intros [E1 [L1 R1]] [E2 [L2 R2]]. split; [congruence|]. split; [eapply tab_le_trans; eauto|].
  intros A D Hn Hd Hr. apply R2; [congruence|destruct L1; lia|]. apply R1; auto.
Qed.

Lemma tstep_sem t t' : sem_eq t t' -> t_trackers t' = t_trackers t -> tstep t t'.
Proof.
  intros Hs Ht. split; auto. split; [eapply tab_le_sem_r; eauto; apply tab_le_refl|].
  intros A D _ _ H. eapply retained_sem_r; eauto.
Qed.

(* insert / Modify / CompareAndSwap *)
Lemma tstep_modify g m p t : TInv t -> tstep t (fst (modify g m p t)).
Proof.
  intros HI. destruct (modify g m p t) as [t' [old e]] eqn:H. cbn [fst].
  destruct e; try (rewrite (modify_rejected_identity _ _ _ _ _ _ _ H); [apply tstep_refl|discriminate]).
  destruct (modify_ok_core _ _ _ _ _ _ _ H eq_refl) as [Ho [E1 [E2 [_ [E4 _]]]]].
  destruct (modify_ok_spec _ _ _ _ _ _ _ H eq_refl) as [_ [_ [_ [Etr _]]]].
  set (obj := new_object m p t) in *.
  assert (Hid : p_id (o_data obj) = p_id p) by apply new_object_id.
  assert (Hrev : o_rev obj = t_rev t + 1) by apply new_object_rev.
  assert (Hlive : forall o, live t' o <-> (o = obj \/ (pk o <> p_id p /\ live t o))).
  { intros o. unfold live. rewrite E2, om_in_insert by apply HI. unfold pk. split.
    - intros [[_ ->]|[H1 H2]]; auto.
    - intros [->|[H1 H2]]; [left; split; auto|right; auto]. }
  assert (Hdead1 : forall o, dead t' o -> dead t o).
  { intros o. unfold dead. rewrite E4. destruct old; [auto|].
    destruct (om_get (p_id p) (t_grave t)); auto. rewrite om_in_delete by apply HI. tauto. }
  assert (Hdead2 : forall o, dead t o -> pk o <> p_id p -> dead t' o).
  { intros o Hd Hne. unfold dead. rewrite E4. destruct old; [auto|].
    destruct (om_get (p_id p) (t_grave t)); auto. rewrite om_in_delete by apply HI. split; auto. }
  split; [exact Etr|]. split.
  - split; [lia|]. split; auto.
    intros o Hl Hr. apply Hlive in Hl. destruct Hl as [->|[_ Hl]]; auto. lia.
  - intros A D _ _ Hret k Hs Hn.
    destruct (bytes_eq_dec k (p_id p)) as [->|Hne].
    + exfalso. apply Hn. exists obj. split; [apply Hlive; now left|exact Hid].
    + assert (Hn0 : ~ has_live t k).
      { intros [o [H1 H2]]. apply Hn. exists o. split; auto. apply Hlive. right. split; auto. congruence. }
      destruct (Hret k Hs Hn0) as [g0 [G1 [G2 G3]]]. exists g0. repeat split; auto.
      apply Hdead2; auto. congruence.
Qed.

(* Delete / CompareAndDelete *)
Lemma tstep_delete g id t : TInv t -> tstep t (fst (delete g id t)).
Proof.
  intros HI. destruct (delete_cases g id t) as [->|[o [Ho Hc]]]; [apply tstep_refl|].
  destruct (delete g id t) as [t' [old e]] eqn:H. cbn [fst].
  destruct (delete_ok_core _ _ _ _ _ _ _ H Ho Hc) as [_ [_ [E1 [E2 [_ [E4 [_ [Etr _]]]]]]]].
  destruct (get_live t HI _ _ Ho) as [Hid Hlo].
  set (dd := mkO (o_data o) (t_rev t + 1)) in *.
  assert (Hlive : forall o', live t' o' <-> (pk o' <> id /\ live t o')).
  { intros o'. unfold live. rewrite E2, om_in_delete by apply HI. reflexivity. }
  split; [exact Etr|]. split.
  - split; [lia|]. split.
    + intros o' Hl _. apply Hlive in Hl. tauto.
    + intros o' Hd Hr. unfold dead in *. rewrite E4 in Hd. destruct (has_trackers t); auto.
      apply om_in_insert in Hd; [|apply HI]. destruct Hd as [[_ ->]|[_ Hd]]; auto. cbn in Hr. lia.
  - intros A D Hne HD Hret k Hs Hn.
    assert (Htr : has_trackers t = true) by (unfold has_trackers; destruct (t_trackers t); congruence).
    rewrite Htr in E4.
    destruct (bytes_eq_dec k id) as [->|Hk].
    + exists dd. split; [|split; [exact Hid|cbn; lia]].
      unfold dead. rewrite E4. apply om_in_insert; [apply HI|]. left. split; auto.
    + assert (Hn0 : ~ has_live t k).
      { intros [o' [H1 H2]]. apply Hn. exists o'. split; auto. apply Hlive. split; auto. congruence. }
      destruct (Hret k Hs Hn0) as [g0 [G1 [G2 G3]]]. exists g0. repeat split; auto.
      unfold dead. rewrite E4. apply om_in_insert; [apply HI|]. right. split; [unfold pk in G2; congruence|exact G1].
Qed.

(* DeleteAll *)
Lemma tstep_fold_delete (l : list (bytes * object)) : forall t, TInv t ->
  rev_bound (fold_left (fun t kv => fst (delete 0 (p_id (o_data (snd kv))) t)) l t) ->
  tstep t (fold_left (fun t kv => fst (delete 0 (p_id (o_data (snd kv))) t)) l t).
Proof.
  induction l as [|kv r IH]; intros t HI Hb; cbn [fold_left] in *; [apply tstep_refl|].
  eapply tstep_trans; [apply tstep_delete; auto|]. apply IH; auto. apply TInv_delete; auto.
  pose proof (fold_delete_rev_mono r (fst (delete 0 (p_id (o_data (snd kv))) t))). unfold rev_bound in *. lia.
Qed.

Lemma tstep_delete_all t : TInv t -> rev_bound (delete_all t) -> tstep t (delete_all t).
Proof. unfold delete_all. apply tstep_fold_delete. Qed.

(* no tracker registered: a delete retains nothing *)
Theorem delete_without_trackers_retains_nothing g id t :
  t_trackers t = [] ->
  t_grave (fst (delete g id t)) = t_grave t /\ t_graverev (fst (delete g id t)) = t_graverev t.
Proof.
  intros Hn. unfold delete, delete_with. destruct (om_get id (t_primary t)) as [o|]; auto.
  destruct ((0 <? g) && negb (o_rev o =? g)); auto. cbn. now rewrite Hn.
Qed.

(* retained objects are never visible: no live object shares the key of a retained deletion, and
   the object counts only the revision index *)
Theorem retained_not_visible t o : TInv t -> dead t o ->
  om_get (pk o) (t_primary t) = None /\ (forall o', In o' (q_all t) -> pk o' <> pk o) /\
  ~ In o (q_all t).
Proof.
  intros HI Hd. pose proof (dead_not_live_key t HI _ Hd) as Hn. split; [exact Hn|].
  assert (H : forall o', In o' (q_all t) -> pk o' <> pk o).
  { intros o' Hin E. unfold q_all, vals in Hin. apply in_map_iff in Hin. destruct Hin as [[k x] [<- Hin]].
    cbn [snd] in *. destruct (ti_primary t HI _ _ Hin) as [-> _].
    apply om_in_get in Hin; [|apply HI]. unfold pk in *. rewrite E in Hin. congruence. }
  split; auto. intros Hin. exact (H _ Hin eq_refl).
Qed.

(* ---- graveyard collection ---------------------------------------------------------------------------- *)
Lemma om_delete_incl {V} k (m : omap V) x : In x (om_delete k m) -> In x m.
Proof.
  induction m as [|[k' v'] r IH]; simpl; auto.
  destruct (bytes_eqb k k'); auto. destruct (bytes_ltb k k'); auto.
  intros [H|H]; auto.
Qed.

Definition gc_apply1 (t : table) (key : bytes) : table :=
  match om_get key (t_graverev t) with
  | Some old => mkT (t_rev t) (t_primary t) (t_revidx t)
                    (om_delete (p_id (o_data old)) (t_grave t)) (om_delete key (t_graverev t))
                    (t_u t) (t_n t) (t_lu t) (t_ln t) (t_trackers t) (t_init t)
  | None => t
  end.

Lemma gc_apply_cons k ks t : gc_apply_table (k :: ks) t = gc_apply_table ks (gc_apply1 t k).
Proof. reflexivity. Qed.

Lemma gc_apply1_TInv t k : TInv t -> rev_bound t -> TInv (gc_apply1 t k).
Proof. intros HI HB. exact (TInv_gc_apply [k] t HI HB). Qed.

Lemma gc_apply1_frame t k :
  t_rev (gc_apply1 t k) = t_rev t /\ t_primary (gc_apply1 t k) = t_primary t /\
  t_trackers (gc_apply1 t k) = t_trackers t.
Proof. unfold gc_apply1. destruct (om_get k (t_graverev t)); repeat split. Qed.

(* collection only removes graveyard entries *)
Lemma gc_apply_dead_sub ks : forall t o, dead (gc_apply_table ks t) o -> dead t o.
Proof.
  induction ks as [|k r IH]; intros t o Hd; auto. rewrite gc_apply_cons in Hd. apply IH in Hd.
  unfold gc_apply1, dead in *. destruct (om_get k (t_graverev t)); auto. cbn in Hd.
  eapply om_delete_incl; eauto.
Qed.

(* a scanned key list below watermark D never removes a deletion above D — whatever happened to the
   table between scan and apply (the revision key of a re-deleted object is new) *)
Lemma gc_apply_keeps D ks : forall t o, TInv t -> rev_bound t ->
  (forall k, In k ks -> exists r, r < B64 /\ k = rev_key r /\ r <= D) ->
  dead t o -> D < o_rev o -> dead (gc_apply_table ks t) o.
Proof.
  induction ks as [|k r IH]; intros t o HI HB Hks Hd Hlt; auto.
  rewrite gc_apply_cons. apply IH; auto.
  - now apply gc_apply1_TInv.
  - unfold rev_bound. destruct (gc_apply1_frame t k) as [-> _]. exact HB.
  - intros k' Hk'. apply Hks. now right.
  - unfold gc_apply1. destruct (om_get k (t_graverev t)) as [old|] eqn:E; auto.
    unfold dead. cbn [t_grave]. apply om_in_delete; [apply HI|]. split; auto.
    apply om_in_get in E; [|apply HI]. apply (ti_graverev t HI) in E. destruct E as [Ek Hold].
    intros Epk. assert (o = old) by (eapply dead_pk_fun; eauto). subst old.
    destruct (Hks k (or_introl eq_refl)) as [r0 [Hr0 [Ek0 Hle]]].
    rewrite Ek in Ek0. apply rev_key_inj in Ek0; auto; [lia|].
    pose proof (dead_rev t HI _ Hd). unfold rev_bound, B64 in *. lia.
Qed.

Lemma gc_apply_sem_live ks t :
  t_rev (gc_apply_table ks t) = t_rev t /\ t_primary (gc_apply_table ks t) = t_primary t /\
  t_trackers (gc_apply_table ks t) = t_trackers t.
Proof. destruct (gc_apply_frame ks t) as [A [B [_ [_ [_ [_ [_ [C _]]]]]]]]. auto. Qed.

Lemma tab_le_gc_apply ks A t : tab_le A t -> tab_le A (gc_apply_table ks t).
Proof.
  intros [R [L Dd]]. destruct (gc_apply_sem_live ks t) as [E1 [E2 _]].
  split; [lia|]. split.
  - intros o Hl. unfold live in Hl. rewrite E2 in Hl. auto.
  - intros o Hd. apply gc_apply_dead_sub in Hd. auto.
Qed.

Lemma retained_gc_apply ks A t D : TInv t -> rev_bound t ->
  (forall k, In k ks -> exists r, r < B64 /\ k = rev_key r /\ r <= D) ->
  retained A t D -> retained A (gc_apply_table ks t) D.
Proof.
  intros HI HB Hks Hret k Hs Hn. destruct (gc_apply_sem_live ks t) as [_ [E2 _]].
  assert (Hn0 : ~ has_live t k).
  { intros [o [H1 H2]]. apply Hn. exists o. split; auto. unfold live. now rewrite E2. }
  destruct (Hret k Hs Hn0) as [g0 [G1 [G2 G3]]]. exists g0. repeat split; auto.
  eapply gc_apply_keeps; eauto.
Qed.

(* ---- collectable: once every registered tracker has caught up, one scan + apply empties the graveyard *)
Lemma gc_low_ge wm ids x : forall low, x <= low ->
  (forall id r, In id ids -> assoc id wm = Some r -> x <= r) ->
  x <= fold_left (fun low id => match assoc id wm with Some r => N.min low r | None => low end) ids low.
Proof.
  induction ids as [|i l IH]; intros low Hl Hall; cbn [fold_left]; auto.
  apply IH; [|intros id r Hin; apply Hall; now right].
  destruct (assoc i wm) as [r|] eqn:E; auto. specialize (Hall i r (or_introl eq_refl) E). lia.
Qed.

Lemma take_while_all low (m : idx) : (forall k o, In (k, o) m -> o_rev o <= low) ->
  take_while_rev low m = map fst m.
Proof.
  induction m as [|[k o] r IH]; intros H; cbn [take_while_rev map fst]; auto.
  destruct (N.ltb_spec low (o_rev o)) as [Hlt|_].
  - specialize (H k o (or_introl eq_refl)). lia.
  - f_equal. apply IH. intros k' o' Hin. apply (H k' o'). now right.
Qed.

Lemma gc_apply_all_keys (m : idx) : forall t, t_graverev t = m -> t_graverev (gc_apply_table (map fst m) t) = [].
Proof.
  induction m as [|[k v] r IH]; intros t E; cbn [map fst]; [exact E|].
  rewrite gc_apply_cons. apply IH. unfold gc_apply1. rewrite E. cbn [om_get].
  rewrite bytes_eqb_refl. cbn [t_graverev om_delete]. now rewrite bytes_eqb_refl.
Qed.

Theorem gc_collects_caught_up wm t : TInv t -> rev_bound t ->
  (forall o id r, dead t o -> In id (t_trackers t) -> assoc id wm = Some r -> o_rev o <= r) ->
  let t' := gc_apply_table (gc_scan_table wm t) t in
  t_grave t' = [] /\ t_graverev t' = [].
Proof.
  intros HI HB Hall t'.
  assert (Hscan : gc_scan_table wm t = map fst (t_graverev t)).
  { unfold gc_scan_table. apply take_while_all. intros k o Hin.
    apply (ti_graverev t HI) in Hin. destruct Hin as [_ Hd].
    unfold gc_low. apply gc_low_ge; [apply (dead_rev t HI _ Hd)|].
    intros id r Hid Hr. eapply Hall; eauto. }
  assert (Hgr : t_graverev t' = []) by (unfold t'; rewrite Hscan; now apply gc_apply_all_keys).
  split; auto.
  assert (HI' : TInv t') by (apply TInv_gc_apply; auto).
  destruct (t_grave t') as [|[k o] r] eqn:Eg; auto. exfalso.
  assert (Hin : In (k, o) (t_grave t')) by (rewrite Eg; now left).
  destruct (ti_grave t' HI' _ _ Hin) as [Ek _].
  assert (Hd : dead t' o) by (unfold dead; now rewrite <- Ek).
  assert (Hx : In (rev_key (o_rev o), o) (t_graverev t')) by (apply (ti_graverev t' HI'); auto).
  rewrite Hgr in Hx. exact Hx.
Qed.

(* with no tracker registered at all, every retained deletion is collectable *)
Corollary gc_collects_without_trackers wm t : TInv t -> rev_bound t -> t_trackers t = [] ->
  let t' := gc_apply_table (gc_scan_table wm t) t in t_grave t' = [] /\ t_graverev t' = [].
Proof. intros HI HB Hn. apply gc_collects_caught_up; auto. intros o id r _ Hin. rewrite Hn in Hin. destruct Hin. Qed.

(* the object count (NumObjects = length of the revision index) is the number of live objects *)
Lemma sorted_keys_NoDup {V} (m : omap V) : om_sorted m -> NoDup (map fst m).
Proof.
  induction m as [|[k v] r IH]; simpl; [constructor|]. intros [Ha Hs]. constructor; auto.
  intros Hin. apply in_map_iff in Hin. destruct Hin as [[k' v'] [E Hin]]. cbn in E. subst k'.
  apply (lex_lt_irrefl k). eapply om_above_in; eauto.
Qed.

Theorem q_num_counts_live t : TInv t -> q_num t = N.of_nat (length (t_primary t)) /\
  forall o, In o (q_all t) <-> live t o.
Proof.
  intros HI.
  assert (Hp : forall o, In o (vals (t_primary t)) <-> live t o).
  { intros o. unfold vals. rewrite in_map_iff. split.
    - intros [[k x] [<- Hin]]. cbn [snd]. destruct (ti_primary t HI _ _ Hin) as [-> _]. exact Hin.
    - intros H. exists (p_id (o_data o), o). auto. }
  assert (Hr : forall o, In o (vals (t_revidx t)) <-> live t o).
  { intros o. unfold vals. rewrite in_map_iff. split.
    - intros [[k x] [<- Hin]]. cbn [snd]. apply (ti_revidx t HI) in Hin. tauto.
    - intros H. exists (rev_key (o_rev o), o). split; auto. apply (ti_revidx t HI). auto. }
  assert (Np : NoDup (vals (t_primary t))).
  { apply (NoDup_map_inv (fun o => p_id (o_data o))). unfold vals. rewrite map_map.
    erewrite map_ext_in; [apply sorted_keys_NoDup, HI|].
    intros [k o] Hin. cbn. destruct (ti_primary t HI _ _ Hin) as [-> _]. reflexivity. }
  assert (Nr : NoDup (vals (t_revidx t))).
  { apply (NoDup_map_inv (fun o => rev_key (o_rev o))). unfold vals. rewrite map_map.
    erewrite map_ext_in; [apply sorted_keys_NoDup, HI|].
    intros [k o] Hin. cbn. apply (ti_revidx t HI) in Hin. destruct Hin as [-> _]. reflexivity. }
  split; [|exact Hp]. unfold q_num. f_equal.
  assert (L1 : (length (vals (t_revidx t)) <= length (vals (t_primary t)))%nat).
  { apply NoDup_incl_length; auto. intros o Ho. apply Hp. now apply Hr. }
  assert (L2 : (length (vals (t_primary t)) <= length (vals (t_revidx t)))%nat).
  { apply NoDup_incl_length; auto. intros o Ho. apply Hr. now apply Hp. }
  unfold vals in L1, L2. rewrite !map_length in L1, L2. lia.
Qed.
