(* Table/Proofs.v — first layer of facts about the table model: results and frame
   conditions of the write operations, revision arithmetic, transaction frame. *)
From SV Require Import Base.Bytes Base.OrdMap KeyEnc.Model Table.Model.
From Coq Require Import ZifyN ZifyNat ZifyBool.
Open Scope N_scope.

(* ---- write operations: results, rejected = identity -------------------------------- *)
Lemma modify_result g m p t t' old e : modify g m p t = (t', (old, e)) ->
  old = om_get (p_id p) (t_primary t) \/ (e = ENotFound /\ old = None).
Proof.
  unfold modify, modify_with. destruct (0 <? g).
  - destruct (om_get (p_id p) (t_primary t)) as [o|] eqn:E.
    + destruct (o_rev o =? g).
      * destruct (om_get (p_id p) (t_grave t)); intros H; injection H as <- <- <-; auto.
      * intros H; injection H as <- <- <-; auto.
    + intros H; injection H as <- <- <-; auto.
  - destruct (om_get (p_id p) (t_primary t)) as [o|] eqn:E;
      [|destruct (om_get (p_id p) (t_grave t))]; intros H; injection H as <- <- <-; auto.
Qed.

Lemma modify_rejected_identity g m p t t' old e :
  modify g m p t = (t', (old, e)) -> e <> EOk -> t' = t.
Proof.
  unfold modify, modify_with. destruct (0 <? g).
  - destruct (om_get (p_id p) (t_primary t)) as [o|] eqn:E.
    + destruct (o_rev o =? g).
      * destruct (om_get (p_id p) (t_grave t)); intros H; injection H as <- <- <-; congruence.
      * intros H; injection H as <- <- <-; auto.
    + intros H; injection H as <- <- <-; auto.
  - destruct (om_get (p_id p) (t_primary t)) as [o|] eqn:E;
      [|destruct (om_get (p_id p) (t_grave t))]; intros H; injection H as <- <- <-; congruence.
Qed.

(* the documented errors of CompareAndSwap, for a real guard (> 0) *)
Lemma modify_guard_spec g m p t t' old e : 0 < g -> modify g m p t = (t', (old, e)) ->
  match om_get (p_id p) (t_primary t) with
  | None => e = ENotFound /\ old = None
  | Some o => old = Some o /\ (if o_rev o =? g then e = EOk else e = ERevMismatch)
  end.
Proof.
  intros Hg. unfold modify, modify_with. destruct (N.ltb_spec 0 g) as [_|Hc]; [|lia].
  destruct (om_get (p_id p) (t_primary t)) as [o|] eqn:E.
  - destruct (o_rev o =? g).
    + destruct (om_get (p_id p) (t_grave t)); intros H; injection H as <- <- <-; auto.
    + intros H; injection H as <- <- <-; auto.
  - intros H; injection H as <- <- <-; auto.
Qed.

Definition new_object (m : bool) (p : payload) (t : table) : object :=
  match m, om_get (p_id p) (t_primary t) with
  | true, Some o => mkO (merge_payload (o_data o) p) (t_rev t + 1)
  | _, _ => mkO p (t_rev t + 1)
  end.

(* a successful insert/modify/CAS acts on the primary map as a keyed-map insert and is
   assigned the next revision *)
Lemma modify_ok_spec g m p t t' old e : modify g m p t = (t', (old, e)) -> e = EOk ->
  t_rev t' = t_rev t + 1 /\
  t_primary t' = om_insert (p_id p) (new_object m p t) (t_primary t) /\
  o_rev (new_object m p t) = t_rev t' /\
  t_trackers t' = t_trackers t /\ t_init t' = t_init t.
Proof.
  unfold modify, modify_with, new_object. intros H He; subst e.
  destruct (0 <? g).
  - destruct (om_get (p_id p) (t_primary t)) as [o|] eqn:E; [|discriminate].
    destruct (o_rev o =? g); [|discriminate].
    destruct (om_get (p_id p) (t_grave t)); injection H as <- <-; simpl; destruct m; auto.
  - destruct (om_get (p_id p) (t_primary t)) as [o|] eqn:E;
      [|destruct (om_get (p_id p) (t_grave t))]; injection H as <- <-; simpl; destruct m; auto.
Qed.

Lemma delete_spec g id t t' old e : delete g id t = (t', (old, e)) ->
  old = om_get id (t_primary t) /\
  match om_get id (t_primary t) with
  | None => e = EOk /\ t' = t                                   (* no-op delete *)
  | Some o =>
    if (0 <? g) && negb (o_rev o =? g)
    then e = ERevMismatch /\ t' = t                             (* rejected: nothing changes *)
    else e = EOk /\ t_rev t' = t_rev t + 1 /\ t_primary t' = om_delete id (t_primary t)
  end.
Proof.
  unfold delete, delete_with. destruct (om_get id (t_primary t)) as [o|] eqn:E.
  - destruct ((0 <? g) && negb (o_rev o =? g)); intros H; injection H as <- <- <-; simpl; auto.
  - intros H; injection H as <- <- <-; auto.
Qed.

(* ---- revisions ---------------------------------------------------------------------------- *)
Lemma modify_rev_mono g m p t : t_rev t <= t_rev (fst (modify g m p t)).
Proof.
  destruct (modify g m p t) as [t' [old e]] eqn:H. simpl.
  destruct e; try (rewrite (modify_rejected_identity _ _ _ _ _ _ _ H); [lia|discriminate]).
  destruct (modify_ok_spec _ _ _ _ _ _ _ H eq_refl) as [-> _]. lia.
Qed.

Lemma delete_rev_mono g id t : t_rev t <= t_rev (fst (delete g id t)).
Proof.
  destruct (delete g id t) as [t' [old e]] eqn:H. simpl.
  destruct (delete_spec _ _ _ _ _ _ H) as [_ Hs].
  destruct (om_get id (t_primary t)) as [o|]; [|destruct Hs as [_ ->]; lia].
  destruct ((0 <? g) && negb (o_rev o =? g)); [destruct Hs as [_ ->]; lia|].
  destruct Hs as [_ [-> _]]. lia.
Qed.

(* ---- transactions: nothing a write transaction does touches the committed root until
        Commit, and Abort discards it ------------------------------------------------------- *)
Definition txn_local (o : op) : bool :=
  match o with
  | OInsert _ _ | OModify _ _ | OCas _ _ _ | ODelete _ _ | OCad _ _ _ | ODeleteAll _
  | OQuery _ _ _ | ORegInit _ _ | OInitDone _ _ | OChanges _ _ => true
  | _ => false
  end.

Lemma with_locked_root d tab f a b : d_root (fst (with_locked d tab f a b)) = d_root d.
Proof.
  unfold with_locked. destruct (d_txn d) as [[es old]|]; auto.
  destruct (nth_error es tab) as [[t [|]]|]; auto. destruct (f t); auto.
Qed.

Lemma step_txn_local_root d o : txn_local o = true -> d_root (fst (step d o)) = d_root d.
Proof.
  destruct o; simpl; try discriminate; intros _; try apply with_locked_root.
  - (* ODeleteAll *)
    destruct (d_txn d) as [[es old]|] eqn:E; auto.
    destruct (nth_error es tab) as [[t [|]]|] eqn:E2; try apply with_locked_root.
    destruct (t_primary t); auto.
  - (* OQuery *)
    destruct (src_root d s); auto. destruct (nth_error l tab); auto.
  - (* OChanges *)
    destruct (d_txn d) as [[es old]|]; auto.
    destruct (nth_error es tab) as [[t [|]]|]; auto. destruct (nth_error old tab); auto.
  - (* ORegInit *)
    destruct (with_locked d tab _ OutNone OutPanic) as [d' o] eqn:E. simpl.
    change d' with (fst (d', o)). rewrite <- E. apply with_locked_root.
Qed.

Theorem txn_writes_invisible d ops :
  forallb txn_local ops = true -> d_root (fst (run d ops)) = d_root d.
Proof.
  revert d. induction ops as [|o r IH]; intros d H; simpl; auto.
  apply andb_true_iff in H. destruct H as [Ho Hr].
  destruct (step d o) as [d1 x] eqn:E. destruct (run d1 r) as [d2 xs] eqn:E2. simpl.
  change d2 with (fst (d2, xs)). rewrite <- E2, IH by auto.
  change d1 with (fst (d1, x)). rewrite <- E. now apply step_txn_local_root.
Qed.

Lemma run_app d l1 l2 : fst (run d (l1 ++ l2)) = fst (run (fst (run d l1)) l2).
Proof.
  revert d. induction l1 as [|o l IH]; intros d; simpl; auto.
  destruct (step d o) as [d1 x]. specialize (IH d1).
  destruct (run d1 (l ++ l2)) as [da xa], (run d1 l) as [db xb]. simpl in *. exact IH.
Qed.

Lemma run_single d o : fst (run d [o]) = fst (step d o).
Proof. simpl. destruct (step d o); reflexivity. Qed.

(* Abort after any sequence of transaction-local operations leaves the committed root as it was *)
Theorem abort_restores_root d tabs ops :
  d_txn d = None -> forallb txn_local ops = true ->
  let d' := fst (run d (OBegin tabs :: ops ++ [OAbort])) in
  d_root d' = d_root d /\ d_txn d' = None.
Proof.
  intros Hn Hl. cbn zeta.
  change (OBegin tabs :: ops ++ [OAbort]) with ([OBegin tabs] ++ (ops ++ [OAbort])).
  rewrite run_app, run_app, run_single, run_single.
  assert (Hb : d_root (fst (step d (OBegin tabs))) = d_root d) by (simpl; rewrite Hn; reflexivity).
  set (d0 := fst (step d (OBegin tabs))) in *.
  pose proof (txn_writes_invisible d0 ops Hl) as Hr.
  set (d1 := fst (run d0 ops)) in *.
  simpl. destruct (d_txn d1) eqn:E; simpl.
  - split; [congruence|reflexivity].
  - split; [congruence|exact E].
Qed.

(* ---- snapshots are values: no later step changes a retained snapshot --------------------- *)
Definition reassigns (o : op) (sid : N) : bool :=
  match o with OCommit s | OSnap s => s =? sid | _ => false end.

Lemma assoc_set_other {A} k k' (v : A) l : k <> k' -> assoc k (assoc_set k' v l) = assoc k l.
Proof.
  intros Hne. unfold assoc_set. simpl. destruct (N.eqb_spec k k'); [congruence|].
  induction l as [|[a b] r IH]; simpl; auto.
  destruct (N.eqb_spec a k'); simpl.
  - destruct (N.eqb_spec k a); [congruence|]. exact IH.
  - destruct (N.eqb_spec k a); auto.
Qed.

Lemma with_locked_snaps d tab f a b : d_snaps (fst (with_locked d tab f a b)) = d_snaps d.
Proof.
  unfold with_locked. destruct (d_txn d) as [[es old]|]; auto.
  destruct (nth_error es tab) as [[t [|]]|]; auto. destruct (f t); auto.
Qed.

Lemma gc_trigger_snaps d : d_snaps (gc_trigger d) = d_snaps d.
Proof. unfold gc_trigger, gc_settle. simpl. destruct (d_gc d); reflexivity. Qed.

Lemma consume_snaps take l : forall it d iid, d_snaps (snd (consume take l it d iid)) = d_snaps d.
Proof.
  revert take. induction l as [|[o del] r IH]; intros take it d iid; simpl; auto.
  assert (Hd : forall b : bool, d_snaps (if b then gc_trigger (set_wm d (assoc_set iid (o_rev o) (d_wm d))) else d) = d_snaps d).
  { intros [|]; [rewrite gc_trigger_snaps|]; reflexivity. }
  destruct take as [[|[|n]]|]; simpl.
  - reflexivity.
  - apply Hd.
  - match goal with |- context [consume ?t r ?i ?dd iid] => specialize (IH t i dd iid);
      destruct (consume t r i dd iid) as [[x y] z] end. simpl in *. rewrite IH. apply Hd.
  - match goal with |- context [consume ?t r ?i ?dd iid] => specialize (IH t i dd iid);
      destruct (consume t r i dd iid) as [[x y] z] end. simpl in *. rewrite IH. apply Hd.
Qed.

Theorem step_keeps_snapshot d o sid r :
  assoc sid (d_snaps d) = Some r -> reassigns o sid = false ->
  assoc sid (d_snaps (fst (step d o))) = Some r.
Proof.
  intros Hs Hr. destruct o; cbn [step reassigns] in *;
    try (rewrite with_locked_snaps; exact Hs); try exact Hs.
  - (* OBegin *) destruct (d_txn d); exact Hs.
  - (* ODeleteAll *)
    destruct (d_txn d) as [[es old]|] eqn:E; auto.
    destruct (nth_error es tab) as [[t [|]]|] eqn:E2; try (rewrite with_locked_snaps; exact Hs).
    destruct (t_primary t); exact Hs.
  - (* OCommit *)
    destruct (d_txn d) as [[es old]|]; [|exact Hs]. cbn [fst d_snaps].
    rewrite assoc_set_other; auto. intros ->. now rewrite N.eqb_refl in Hr.
  - (* OAbort *) destruct (d_txn d); exact Hs.
  - (* OSnap *) cbn [fst set_snaps d_snaps]. rewrite assoc_set_other; auto. intros ->. now rewrite N.eqb_refl in Hr.
  - (* OQuery *) destruct (src_root d s); [|exact Hs]. destruct (nth_error l tab); exact Hs.
  - (* OChanges *)
    destruct (d_txn d) as [[es old]|]; [|exact Hs].
    destruct (nth_error es tab) as [[t [|]]|]; try exact Hs. destruct (nth_error old tab); exact Hs.
  - (* ONext *)
    destruct (assoc iid (d_iters d)) as [it|]; [|exact Hs].
    destruct (src_committed d s) as [rt|]; [|exact Hs].
    destruct (nth_error rt (it_tab it)) as [t|]; [|exact Hs].
    destruct (nth_error (d_root d) (it_tab it)) as [cur|]; [|exact Hs].
    match goal with |- context [if ?c then _ else _] => destruct c end; [exact Hs|].
    match goal with |- context [consume ?a ?b ?c ?dd ?e] =>
      pose proof (consume_snaps a b c dd e) as Hc; destruct (consume a b c dd e) as [[x y] z] end.
    simpl in *. now rewrite Hc.
  - (* OResume *)
    destruct (assoc iid (d_iters d)) as [it|]; [|exact Hs].
    destruct (it_pending it) as [l|]; [|exact Hs]. destruct (it_seq it); [|exact Hs].
    match goal with |- context [consume ?a ?b ?c ?dd ?e] =>
      pose proof (consume_snaps a b c dd e) as Hc; destruct (consume a b c dd e) as [[x y] z] end.
    simpl in *. now rewrite Hc.
  - (* OClose *)
    destruct (assoc iid (d_iters d)) as [it|]; [|exact Hs]. destruct (d_txn d); [exact Hs|].
    simpl. rewrite gc_trigger_snaps. exact Hs.
  - (* OGcScan *) destruct (d_gc d); exact Hs.
  - (* OGcApply *)
    destruct (d_gc d); try exact Hs. destruct (d_txn d); [exact Hs|].
    simpl. unfold gc_settle. simpl. destruct (d_gcchan d); exact Hs.
  - (* ORegInit *)
    match goal with |- context [with_locked d tab ?f ?a ?b] =>
      pose proof (with_locked_snaps d tab f a b) as Hw; destruct (with_locked d tab f a b) as [d' x] end.
    simpl in *. now rewrite Hw.
Qed.

Theorem run_keeps_snapshot ops : forall d sid r,
  assoc sid (d_snaps d) = Some r -> forallb (fun o => negb (reassigns o sid)) ops = true ->
  assoc sid (d_snaps (fst (run d ops))) = Some r.
Proof.
  induction ops as [|o l IH]; intros d sid r Hs Hr; simpl; auto.
  simpl in Hr. apply andb_true_iff in Hr. destruct Hr as [Ho Hl].
  pose proof (step_keeps_snapshot d o sid r Hs) as H1.
  destruct (step d o) as [d1 x]. simpl in H1.
  specialize (IH d1 sid r (H1 ltac:(now destruct (reassigns o sid))) Hl).
  destruct (run d1 l) as [d2 xs]. exact IH.
Qed.
