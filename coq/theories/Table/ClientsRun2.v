(* Table/ClientsRun2.v — part G: corollary of the run-level loop invariant (Table/ClientsRun.v) and the C07
   convergence theorem: right after a CDeriveGo whose iteration's Next refreshed, the derived table has exactly
   the contents of the input table in the current root. *)
From Coq Require Import List NArith Bool Lia.
Import ListNotations.
From SV Require Import Base.Bytes Base.OrdMap KeyEnc.Model Table.Model Table.Proofs Table.InvDefs Table.Inv Table.Inv2
                       Table.GcProofs Table.ChangesStream Table.ChangesIter Table.ChangesProofs Table.ChangesRet
                       Table.ChangesHist Table.ChangesFromInit Table.Clients Table.ClientsProofs Table.ClientsProofs2
                       Table.ClientsRun.
Local Open Scope N_scope.

Lemma friendly_run_app iid tab l1 : forall d l2,
  friendly_run iid tab d (l1 ++ l2) <-> friendly_run iid tab d l1 /\ friendly_run iid tab (fst (run d l1)) l2.
Proof.
  induction l1 as [|o r IH]; intros d l2; cbn [app friendly_run run fst]; [tauto|].
  rewrite IH. destruct (step d o) as [d1 x]. cbn [fst]. destruct (run d1 r) as [d2 xs]. cbn [fst]. tauto.
Qed.

Lemma room_run_app l1 : forall d l2, room_run d (l1 ++ l2) -> room_run d l1 /\ room_run (fst (run d l1)) l2.
Proof.
  induction l1 as [|o r IH]; intros d l2 H; cbn [app room_run run fst] in *.
  - split; auto. split; auto. destruct l2; cbn in H; tauto.
  - destruct H as [H1 H2]. destruct (IH _ _ H2) as [A B]. split; [split; auto|].
    destruct (step d o) as [d1 x]. cbn [fst] in *. destruct (run d1 r); exact B.
Qed.

(* the iterator of a run that satisfies the C07 hypotheses stays on its table *)
Lemma init_iter_tab n pre iid tab t0 ops it :
  let d := fst (run (init_db n) pre) in
  let d0 := fst (step d (OChanges iid tab)) in
  room_run (init_db n) (pre ++ OChanges iid tab :: ops) ->
  created d iid tab t0 ->
  (forall cur, nth_error (d_root d) tab = Some cur -> ~ reg iid cur) ->
  friendly_run iid tab d0 ops ->
  assoc iid (d_iters (fst (run d0 ops))) = Some it -> it_tab it = tab.
Proof.
  intros d d0 Hroom Hc Hf Hfr Hit.
  destruct (from_init_facts n pre iid tab ops Hroom) as [A [B C]].
  destruct (discharged_facts iid tab d t0 ops Hc A Hf (conj B C) Hfr) as [_ [R _]].
  destruct (R it Hit) as [cur [_ HR]]. exact (ri_tab _ _ _ _ _ _ HR).
Qed.

(* the observer's wake-up does not write any table *)
Lemma observe_wake_nowrite i os d d' os' ops :
  observe_wake os d = (d', os', ops) -> d' = fst (run d ops) /\ forallb (nowrite i) ops = true.
Proof.
  intros H. split; [eapply observe_wake_run; eauto|]. revert H. unfold observe_wake.
  destruct (o_woken os d); [|intros H; injection H as <- <- <-; reflexivity].
  intros H. destruct (observe_run_ops (nowrite i) 4 os d [] eq_refl eq_refl) as [ops1 [H1 [H2 _]]].
  rewrite H in H1. cbn [snd app] in H1. subst ops. exact H2.
Qed.

Theorem derive_run_converges n inn out cs s outs pre post ds S t0 s' x ops1 :
  (out < n)%nat -> inn <> out -> forallb (cop_ok out) cs = true ->
  crun (init_csys n 0) cs = (s, outs, pre ++ OChanges derive_iid inn :: post) ->
  forallb (fun o => negb (touches derive_iid o)) pre = true ->
  (* the loop is about to run an iteration whose Next refreshes from S *)
  cs_d s = Some ds -> dv_in ds = inn -> dv_phase ds <> DReg ->
  d_txn (cs_db s) = None -> d_ready ds (cs_db s) = true ->
  next_source (fst (step (cs_db s) (OBegin [out]))) derive_iid STxn = Some S ->
  (* the hypotheses of C07_from_init_converges, on the flattened operations *)
  let dc := fst (run (init_db n) pre) in
  let d0 := fst (step dc (OChanges derive_iid inn)) in
  room_run (init_db n) (pre ++ OChanges derive_iid inn :: (post ++ [OBegin [out]]) ++ [ONext derive_iid STxn None]) ->
  created dc derive_iid inn t0 ->
  (forall cur, nth_error (d_root dc) inn = Some cur -> ~ reg derive_iid cur) ->
  friendly_run derive_iid inn d0 ((post ++ [OBegin [out]]) ++ [ONext derive_iid STxn None]) ->
  (* the step *)
  cstep s CDeriveGo = (s', x, ops1) ->
  exists tin' tout', nth_error (d_root (cs_db s')) inn = Some tin' /\ nth_error (d_root (cs_db s')) out = Some tout' /\
                     contents tout' = contents tin' /\ contents tin' = contents S.
Proof.
  intros Hout Hio Hc Hrun Hpre Hds Hin Hph Htx Hrdy HS dc d0 Hroom Hcr Hfresh Hfr Hstep.
  pose proof (RInvF_crun n out cs Hout _ [] _ _ _ (RInvF_init n out Hout) Hc Hrun) as HI. cbn [app] in HI.
  destruct (derive_run_invariant_split n out cs s outs pre inn post Hout Hc Hrun Hpre) as [Hdb [tout [T1 [T2 T3]]]].
  fold dc d0 in Hdb, T3.
  destruct (rf_d _ _ _ _ HI _ Hds) as [Do Di]. pose proof (rf_mode _ _ _ _ HI) as Hmode.
  revert Hstep. unfold cstep. cbn [cstep0]. rewrite Hds. unfold derive_go. rewrite Htx, Hrdy. cbn [negb].
  destruct (derive_iter (tr_std (cs_mode s)) ds (cs_db s)) as [[d' ds'] ops_i] eqn:E.
  assert (Hgo : (match dv_phase ds with
                 | DReg => (fst (run (cs_db s) (derive_reg_ops ds)), set_phase ds (dv_marked ds) DReady, derive_reg_ops ds, true)
                 | _ => (d', ds', ops_i, true) end) = (d', ds', ops_i, true)).
  { destruct (dv_phase ds); [congruence| |]; reflexivity. }
  rewrite Hgo. clear Hgo. cbn [cs_o cs_db cs_d cs_mode].
  rewrite Hmode, Hdb in E. rewrite Hdb in Htx, T1, HS.
  assert (Hit : exists it, assoc derive_iid (d_iters (fst (run d0 post))) = Some it).
  { destruct (next_source_begin _ _ _ _ Htx HS) as [it [A _]]. eauto. }
  destruct Hit as [it Hit].
  assert (Htab : it_tab it = inn).
  { rewrite <- app_assoc in Hroom, Hfr. apply friendly_run_app in Hfr. destruct Hfr as [Hfr _].
    rewrite app_comm_cons, app_assoc in Hroom. apply room_run_app in Hroom. destruct Hroom as [Hroom _].
    eapply (init_iter_tab n pre derive_iid inn t0 post it); eauto. }
  destruct (derive_mirror_equals_input n pre t0 post ds tout d' ds' ops_i S it) as [tin' [tout' [A [B C]]]];
    rewrite ?Do, ?Di, ?Hin; auto; try congruence.
  destruct (derive_mirror_step ds d0 post tout d' ds' ops_i) as [_ [Tn _]]; rewrite ?Do, ?Di; auto.
  assert (HSin : contents tin' = contents S).
  { destruct (next_source_begin _ _ _ _ Htx HS) as [it' [A' B']]. rewrite Hit in A'. injection A' as <-.
    destruct (derive_mirror_step ds d0 post tout d' ds' ops_i) as [_ [_ [_ F]]]; rewrite ?Do, ?Di; auto.
    rewrite Hin, Do in *. rewrite F in A by exact Hio. rewrite Htab in B'. congruence. }
  (* the observer's wake-up after the iteration *)
  assert (Hfin : forall d'' o2, d'' = fst (run d' o2) -> forallb (nowrite inn) o2 = true -> forallb (nowrite out) o2 = true ->
            exists tin2 tout2, nth_error (d_root d'') inn = Some tin2 /\ nth_error (d_root d'') out = Some tout2 /\
                               contents tout2 = contents tin2 /\ contents tin2 = contents S).
  { intros d'' o2 -> W1 W2.
    assert (L : LInv n (fst (run d' o2))).
    { apply LInv_run. destruct (derive_mirror_step ds d0 post tout d' ds' ops_i) as [-> _]; rewrite ?Do, ?Di; auto.
      unfold d0, dc. rewrite <- run_single, <- !run_app. apply LInv_run, LInv_init. }
    assert (Hinn : (inn < n)%nat).
    { destruct L as [L _]. rewrite <- L. apply nth_error_some_length in A. 
      assert (L' : LInv n d').
      { destruct (derive_mirror_step ds d0 post tout d' ds' ops_i) as [-> _]; rewrite ?Do, ?Di; auto.
        unfold d0, dc. rewrite <- run_single, <- !run_app. apply LInv_run, LInv_init. }
      destruct L' as [L' _]. lia. }
    destruct (LInv_root n _ inn L Hinn) as [tin2 E1]. destruct (LInv_root n _ out L Hout) as [tout2 E2].
    assert (P1 : pentry inn (t_primary tin') d').
    { split; [intros t Ht; congruence|rewrite Tn; discriminate]. }
    assert (P2 : pentry out (t_primary tout') d').
    { split; [intros t Ht; congruence|rewrite Tn; discriminate]. }
    destruct (run_pentry inn _ o2 d' W1 P1) as [Q1 _]. destruct (run_pentry out _ o2 d' W2 P2) as [Q2 _].
    exists tin2, tout2. split; [exact E1|]. split; [exact E2|]. unfold contents in *.
    rewrite (Q1 _ E1), (Q2 _ E2). auto. }
  destruct (cs_o s) as [os|].
  - destruct (observe_wake os d') as [[d'' os'] o2] eqn:Ew. intros H; injection H as <- _ _. cbn [cs_db].
    destruct (observe_wake_nowrite inn os d' d'' os' o2 Ew) as [Hd W1].
    destruct (observe_wake_nowrite out os d' d'' os' o2 Ew) as [_ W2]. eapply Hfin; eauto.
  - intros H; injection H as <- _ _. cbn [cs_db]. apply (Hfin d' []); reflexivity.
Qed.

(* the hypotheses are satisfiable: the run cx_pre of Table/ClientsProofs.v (its last harness transaction inserts b,
   deletes a and finishes the input table's initializer); the CDeriveGo that follows mirrors both changes *)
Example derive_run_converges_nonvacuous :
  let r := crun (init_csys 2 0) cx_pre in
  let flat := snd r in let s := fst (fst r) in
  let pre := firstn 8 flat in let post := skipn 9 flat in
  let dc := fst (run (init_db 2) pre) in
  let d0 := fst (step dc (OChanges derive_iid 0)) in
  forallb (cop_ok 1) cx_pre = true /\
  flat = pre ++ OChanges derive_iid 0 :: post /\
  forallb (fun o => negb (touches derive_iid o)) pre = true /\
  cs_d s = Some cx_ds /\ d_txn (cs_db s) = None /\ d_ready cx_ds (cs_db s) = true /\
  (exists S, next_source (fst (step (cs_db s) (OBegin [1%nat]))) derive_iid STxn = Some S /\ contents S = [([98], 2)]) /\
  room_run (init_db 2) (pre ++ OChanges derive_iid 0 :: (post ++ [OBegin [1%nat]]) ++ [ONext derive_iid STxn None]) /\
  (exists t0, created dc derive_iid 0 t0) /\
  (forall cur, nth_error (d_root dc) 0 = Some cur -> ~ reg derive_iid cur) /\
  friendly_run derive_iid 0 d0 ((post ++ [OBegin [1%nat]]) ++ [ONext derive_iid STxn None]) /\
  map contents (d_root (cs_db s)) = [[([98], 2)]; [([97], 1)]] /\
  map contents (d_root (cs_db (fst (fst (cstep s CDeriveGo))))) = [[([98], 2)]; [([98], 2)]].
Proof.
  cbv zeta. split; [vm_compute; reflexivity|]. split; [vm_compute; reflexivity|]. split; [vm_compute; reflexivity|].
  split; [vm_compute; reflexivity|]. split; [vm_compute; reflexivity|]. split; [vm_compute; reflexivity|].
  split; [eexists; split; vm_compute; reflexivity|].
  split; [apply room_runb_ok; vm_compute; reflexivity|].
  split; [vm_compute; do 4 eexists; split; [reflexivity|split; reflexivity]|].
  split; [intros cur H; vm_compute in H; injection H as <-; vm_compute; tauto|].
  split; [apply friendly_runb_ok; vm_compute; reflexivity|].
  split; vm_compute; reflexivity.
Qed.
