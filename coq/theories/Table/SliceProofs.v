(* Table/SliceProofs.v — property C01 at memory level: the Go code shares slice backing
   arrays between snapshots. Over the slice heap of Base/Slice.v:
   A. lpmEntry.upsert / lpmEntry.delete (lpm_index.go), current version (copies) and
      pre-fix version 9ab81d8^ (in place), plus the seeded S-C13-3 variant (slices.Delete):
      refinement to e_upsert / e_delete of Table/Model.v (all versions: the in-place ones are
      correct in the writer's own view), frame for the current version, refutation by witness
      of the frame property for the in-place versions;
   B. tableInitialization.pending (table.go RegisterInitializer + mark-done closure), and the
      seeded S-C19-1 variant;
   C. the root slice in Commit (write_txn.go), and the seeded S-C05-1 variant.
   Modelling notes: searchTail is the binary search of slices.BinarySearchFunc (on explicit fuel);
   Go panics (index out of range, RegisterInitializer of a registered name) are outside the
   model; pointer elements of dbRoot are numbers and the `locked` flag of the pointee is a
   function on them; the growth policy of append / slices.Clone is an arbitrary `extra`.
   Not proved here: that S-C05-1 is harmless whenever the append works in place (only the
   instance commit_root_bad_hidden_with_spare_capacity is shown). *)
From SV Require Import Base.Bytes Base.OrdMap KeyEnc.Model Table.Model Table.InvDefs Base.Slice.
From Coq Require Import Arith Lia.
Local Open Scope nat_scope.

(* ======================================================================================= *)
(* A.0  pure facts: e_upsert / e_delete as "position of the first key >= pk", and the binary
        search of searchTail (slices.BinarySearchFunc) finds that position on a sorted tail.   *)

Definition eobj := (bytes * object)%type.            (* lpmEntryObject{primary, obj} *)
Definition ezero : eobj := ([], noobj).              (* lpmEntryObject{} *)

(* number of leading elements with primary < pk *)
Fixpoint lin_idx (d : list eobj) (pk : bytes) : nat :=
  match d with
  | [] => 0
  | x :: r => if bytes_ltb (fst x) pk then S (lin_idx r pk) else 0
  end.
Definition found_at (d : list eobj) (pk : bytes) (i : nat) : bool :=
  (i <? length d) && bytes_eqb (fst (nth i d ezero)) pk.

(* slices.BinarySearchFunc(tail, key, cmp(a.primary, key)):
     i, j := 0, n; for i < j { h := (i+j)/2; if cmp(x[h]) < 0 { i = h+1 } else { j = h } }
     return i, i < n && cmp(x[i]) == 0 *)
Fixpoint bsearch (fuel : nat) (d : list eobj) (pk : bytes) (i j : nat) : nat :=
  match fuel with
  | O => i
  | S f => if i <? j
           then let m := (i + j) / 2 in
                if bytes_ltb (fst (nth m d ezero)) pk then bsearch f d pk (m + 1) j
                else bsearch f d pk i m
           else i
  end.
Definition search_tail (d : list eobj) (pk : bytes) : nat * bool :=
  let i := bsearch (length d) d pk 0 (length d) in (i, found_at d pk i).

Lemma lin_idx_le d pk : lin_idx d pk <= length d.
Proof. induction d as [|x r IH]; cbn [lin_idx length]; [lia|]. destruct (bytes_ltb _ _); lia. Qed.

Lemma lin_idx_below d pk : forall i, i < lin_idx d pk -> bytes_ltb (fst (nth i d ezero)) pk = true.
Proof.
  induction d as [|x r IH]; cbn [lin_idx]; intros i Hi; [lia|].
  destruct (bytes_ltb (fst x) pk) eqn:E; [|lia]. destruct i as [|i]; cbn [nth]; auto. apply IH. lia.
Qed.

Lemma esorted_tail x r : esorted (x :: r) -> esorted r.
Proof. destruct x. cbn [esorted]. tauto. Qed.

Lemma esorted_head_lt x r y : esorted (x :: r) -> In y r -> lex_lt (fst x) (fst y).
Proof.
  destruct x as [pk o]. cbn [esorted fst]. intros [H _] Hy. rewrite Forall_forall in H.
  apply bytes_ltb_spec. now apply H.
Qed.

Lemma ltb_false_ge a b : bytes_ltb a b = false -> a = b \/ lex_lt b a.
Proof.
  intros H. destruct (lex_lt_total a b) as [L|[L|L]]; auto.
  apply bytes_ltb_spec in L. congruence.
Qed.

(* on a sorted list no element at or after lin_idx is < pk *)
Lemma lin_idx_above (d : list eobj) pk : esorted d -> forall i, lin_idx d pk <= i -> i < length d ->
  bytes_ltb (fst (nth i d ezero)) pk = false.
Proof.
  induction d as [|x r IH]; cbn [lin_idx length]; intros Hs i Hi Hl; [lia|].
  destruct (bytes_ltb (fst x) pk) eqn:E.
  - destruct i as [|i]; [lia|]. cbn [nth]. apply IH; [now apply esorted_tail in Hs|lia|lia].
  - destruct i as [|i]; cbn [nth]; auto.
    destruct (bytes_ltb (fst (nth i r ezero)) pk) eqn:E2; auto. exfalso.
    assert (Hin : In (nth i r ezero) r) by (apply nth_In; lia).
    pose proof (esorted_head_lt _ _ _ Hs Hin) as L1. apply bytes_ltb_spec in E2.
    pose proof (lex_lt_trans _ _ _ L1 E2) as L2. apply bytes_ltb_spec in L2. congruence.
Qed.

Ltac Zify.zify_post_hook ::= Z.div_mod_to_equations.

Lemma bsearch_lin (d : list eobj) pk : esorted d -> forall fuel i j,
  j - i <= fuel -> i <= lin_idx d pk -> lin_idx d pk <= j -> j <= length d ->
  bsearch fuel d pk i j = lin_idx d pk.
Proof.
  intros Hs. induction fuel as [|f IH]; intros i j Hf Hi Hj Hl; cbn [bsearch]; cbv zeta; [lia|].
  destruct (Nat.ltb_spec i j) as [L|L]; [|lia].
  assert (Hm : i <= (i + j) / 2 < j) by (split; [apply Nat.div_le_lower_bound|apply Nat.div_lt_upper_bound]; lia).
  match goal with |- context[if ?c then _ else _] => destruct c eqn:E end.
  - apply IH; try lia.
    destruct (Nat.le_gt_cases (lin_idx d pk) ((i + j) / 2)) as [G|G]; [|lia].
    rewrite (lin_idx_above d pk Hs _ G) in E by lia. discriminate.
  - apply IH; try lia.
    destruct (Nat.le_gt_cases (lin_idx d pk) ((i + j) / 2)) as [G|G]; [lia|].
    rewrite (lin_idx_below d pk _ G) in E. discriminate.
Qed.

Lemma search_tail_lin (d : list eobj) pk : esorted d -> search_tail d pk = (lin_idx d pk, found_at d pk (lin_idx d pk)).
Proof.
  intros Hs. unfold search_tail. rewrite bsearch_lin; auto; try lia. apply lin_idx_le.
Qed.

(* e_upsert in positional form (no sortedness needed: it scans exactly like lin_idx) *)
Lemma e_upsert_pos pk o (d : list eobj) :
  e_upsert pk o d =
  let i := lin_idx d pk in
  if found_at d pk i then firstn i d ++ (pk, o) :: skipn (S i) d
  else firstn i d ++ (pk, o) :: skipn i d.
Proof.
  cbv zeta. induction d as [|[pk' o'] r IH]; cbn [e_upsert lin_idx fst]; [reflexivity|].
  unfold found_at in *.
  destruct (bytes_cmp_cases pk pk') as [[E ->]|[[E [L Hl]]|[E [L Hl]]]]; rewrite E; try rewrite L.
  - rewrite bytes_ltb_irrefl. cbn [length nth fst Nat.ltb Nat.leb andb firstn skipn app].
    rewrite bytes_eqb_refl. reflexivity.
  - replace (bytes_ltb pk' pk) with false
      by (symmetry; destruct (bytes_ltb pk' pk) eqn:X; auto; apply bytes_ltb_spec in X; exfalso; eapply lex_lt_asym; eauto).
    cbn [length nth fst Nat.ltb Nat.leb andb firstn skipn app].
    replace (bytes_eqb pk' pk) with false; [reflexivity|].
    symmetry. destruct (bytes_eqb pk' pk) eqn:X; auto. apply bytes_eqb_spec in X. subst. now rewrite bytes_eqb_refl in E.
  - replace (bytes_ltb pk' pk) with true by (symmetry; now apply bytes_ltb_spec).
    rewrite IH. cbn [length nth firstn skipn app].
    change (S (lin_idx r pk) <? S (length r)) with (lin_idx r pk <? length r).
    destruct (_ && _); reflexivity.
Qed.

Lemma filter_all_above pk (r : list eobj) :
  Forall (fun x => lex_lt pk (fst x)) r -> filter (fun x => negb (bytes_eqb pk (fst x))) r = r.
Proof.
  induction 1 as [|x r Hx _ IH]; cbn [filter]; auto.
  replace (bytes_eqb pk (fst x)) with false; [cbn [negb]; now rewrite IH|].
  symmetry. destruct (bytes_eqb pk (fst x)) eqn:X; auto. apply bytes_eqb_spec in X.
  rewrite X in Hx. now apply lex_lt_irrefl in Hx.
Qed.

Lemma esorted_above x r : esorted (x :: r) -> Forall (fun y => lex_lt (fst x) (fst y)) r.
Proof. intros Hs. apply Forall_forall. intros y Hy. eapply esorted_head_lt; eauto. Qed.

(* e_delete in positional form on a sorted list *)
Lemma e_delete_pos pk (d : list eobj) : esorted d ->
  e_delete pk d =
  let i := lin_idx d pk in if found_at d pk i then firstn i d ++ skipn (S i) d else d.
Proof.
  cbv zeta. unfold e_delete, found_at.
  induction d as [|[pk' o'] r IH]; intros Hs; cbn [filter lin_idx fst]; [reflexivity|].
  pose proof (esorted_above _ _ Hs) as Ha. cbn [fst] in Ha.
  destruct (bytes_cmp_cases pk pk') as [[E ->]|[[E [L Hl]]|[E [L Hl]]]]; rewrite E; cbn [negb].
  - rewrite bytes_ltb_irrefl. cbn [length nth fst Nat.ltb Nat.leb andb firstn skipn app].
    rewrite bytes_eqb_refl. now apply filter_all_above.
  - replace (bytes_ltb pk' pk) with false
      by (symmetry; destruct (bytes_ltb pk' pk) eqn:X; auto; apply bytes_ltb_spec in X; exfalso; eapply lex_lt_asym; eauto).
    cbn [length nth fst Nat.ltb Nat.leb andb].
    replace (bytes_eqb pk' pk) with false.
    + f_equal. apply filter_all_above. eapply Forall_impl; [|exact Ha].
      intros y Hy. cbn beta in *. eapply lex_lt_trans; eauto.
    + symmetry. destruct (bytes_eqb pk' pk) eqn:X; auto. apply bytes_eqb_spec in X. subst. now rewrite bytes_eqb_refl in E.
  - replace (bytes_ltb pk' pk) with true by (symmetry; now apply bytes_ltb_spec).
    rewrite IH by (now apply esorted_tail in Hs). cbn [length nth firstn skipn app].
    change (S (lin_idx r pk) <? S (length r)) with (lin_idx r pk <? length r).
    destruct (_ && _); reflexivity.
Qed.
(* ======================================================================================= *)
(* A.1  memory-level entries *)
Notation eheap := (@heap eobj).

(* lpmEntry{head, tail, used}: the head is stored by value, the tail is a slice header *)
Record mentry := mkME { me_used : bool; me_head : eobj; me_tail : slice }.
Definition me_den (h : eheap) (e : mentry) : lentry :=
  if me_used e then me_head e :: sl_den h (me_tail e) else [].
(* the tail header exists in h; an unused entry has an empty tail (it is the zero lpmEntry or
   the result of deleting the last object) *)
Definition me_wf (h : eheap) (e : mentry) : Prop :=
  sl_wf h (me_tail e) /\ (me_used e = false -> s_len (me_tail e) = 0).

(* generic helpers ------------------------------------------------------------------------ *)
Section Helpers.
Context {A : Type}.
Variable z : A.
Notation hp := (@heap A).

(* h' differs from h only inside array a (and possibly by new arrays): every slice header of h
   is still well-formed, and reads the same unless it lives in array a *)
Definition pres (a : nat) (h h' : hp) : Prop :=
  forall s, sl_wf h s -> sl_wf h' s /\ ((s_arr s <> a \/ s_len s = 0) -> sl_den h' s = sl_den h s).

Lemma pres_refl a h : pres a h h.
Proof. intros s W. auto. Qed.
Lemma pres_trans a h1 h2 h3 : pres a h1 h2 -> pres a h2 h3 -> pres a h1 h3.
Proof.
  intros P1 P2 s W. destruct (P1 s W) as [W2 D2]. destruct (P2 s W2) as [W3 D3]. split; auto.
  intros C. rewrite D3, D2; auto.
Qed.

Lemma wr_frame_arr (h : hp) a o data s : s_arr s <> a \/ s_len s = 0 ->
  sl_den (write_range h a o data) s = sl_den h s.
Proof.
  intros C. apply write_range_frame. unfold overlapb.
  destruct (Nat.eqb_spec (s_arr s) a) as [E|E]; cbn [andb]; auto.
  apply Nat.ltb_ge. destruct C as [C|C]; [congruence|lia].
Qed.

Lemma pres_write (h : hp) a o data : pres a h (write_range h a o data).
Proof. intros s W. split; [now apply write_range_wf|]. apply wr_frame_arr. Qed.

Lemma pres_alloc a (h : hp) arr : pres a h (h ++ [arr]).
Proof. intros s W. split; [now apply alloc_wf|]. intros _. now apply alloc_frame. Qed.

Lemma pres_copy (h : hp) dst src : pres (s_arr dst) h (sl_copy h dst src).
Proof. apply pres_write. Qed.
Lemma pres_index_set (h : hp) s i x : pres (s_arr s) h (sl_index_set h s i x).
Proof. unfold sl_index_set. destruct (i <? s_len s); [apply pres_write|apply pres_refl]. Qed.

Lemma wf_fresh (h : hp) s : sl_wf h s -> s_arr s <> length h \/ s_len s = 0.
Proof.
  intros W. destruct (Nat.eq_dec (s_arr s) (length h)) as [E|E]; auto.
  right. destruct (sl_wf_unallocated h s W); lia.
Qed.

(* anything that only touches the fresh array leaves every slice header of h alone *)
Lemma pres_fresh_frame (h h' : hp) s : pres (length h) h h' -> sl_wf h s -> sl_den h' s = sl_den h s.
Proof. intros P W. destruct (P s W) as [_ D]. apply D. now apply wf_fresh. Qed.

(* copy(nt[lo:hi], src) seen through nt *)
Lemma copy_into (h : hp) nt src lo hi : sl_wf h nt -> sl_wf h src -> lo <= hi -> hi <= s_len nt ->
  sl_den (sl_copy h (sl_reslice nt lo hi) src) nt =
  write_list (sl_den h nt) lo (firstn (Nat.min (hi - lo) (s_len src)) (sl_den h src)).
Proof.
  intros Wn Ws H1 H2. unfold sl_copy. cbn [sl_reslice s_arr s_off s_len].
  apply write_range_self; auto. rewrite firstn_length, sl_den_length by auto. lia.
Qed.

Lemma wl_rep_0 m (data : list A) : length data <= m ->
  write_list (repeat z m) 0 data = data ++ repeat z (m - length data).
Proof.
  intros L. replace m with (length data + (m - length data)) at 1 by lia.
  rewrite repeat_app. apply write_list_app_0. now rewrite repeat_length.
Qed.

Lemma wl_app_at (l1 : list A) m p data : p = length l1 -> length data <= m ->
  write_list (l1 ++ repeat z m) p data = l1 ++ data ++ repeat z (m - length data).
Proof.
  intros -> L. rewrite <- (Nat.add_0_r (length l1)). rewrite write_list_app_r. now rewrite wl_rep_0.
Qed.

Lemma write_list_one (l : list A) : forall i x, i < length l ->
  write_list l i [x] = firstn i l ++ x :: skipn (S i) l.
Proof.
  induction l as [|y l IH]; intros [|i] x L; cbn [length] in L; try lia.
  - cbn [write_list firstn skipn app]. now rewrite write_list_nil_data.
  - cbn [write_list firstn app]. rewrite IH by lia. reflexivity.
Qed.

Lemma nth0_skipn1 (l : list A) : l <> [] -> nth 0 l z :: skipn 1 l = l.
Proof. destruct l; [congruence|reflexivity]. Qed.
End Helpers.

(* ======================================================================================= *)
(* A.2  lpmEntry.upsert / delete, current version (/repo HEAD: always a fresh tail array)   *)
Definition upsert_new (h : eheap) (e : mentry) (pk : bytes) (o : object) : eheap * mentry :=
  if negb (me_used e) then (h, mkME true (pk, o) (me_tail e))           (* !e.used *)
  else
    let hd := me_head e in let t := me_tail e in let n := s_len t in
    if bytes_eqb pk (fst hd) then (h, mkME true (fst hd, o) t)           (* case 0: e.head.obj = obj *)
    else if bytes_ltb pk (fst hd) then                                   (* case -1 *)
      let (h1, nt) := sl_make ezero h (n + 1) 0 in                       (* make([]T, len+1) *)
      let h2 := sl_index_set h1 nt 0 hd in                               (* newTail[0] = oldHead *)
      let h3 := sl_copy h2 (sl_reslice nt 1 (n + 1)) t in                (* copy(newTail[1:], e.tail) *)
      (h3, mkME true (pk, o) nt)
    else
      let (idx, found) := search_tail (sl_den h t) pk in
      if found then
        let (h1, nt) := sl_make ezero h n 0 in                           (* make([]T, len) *)
        let h2 := sl_copy h1 nt t in                                     (* copy(newTail, e.tail) *)
        let h3 := sl_index_set h2 nt idx (fst (sl_get ezero h2 nt idx), o) in  (* newTail[idx].obj = obj *)
        (h3, mkME true hd nt)
      else
        let (h1, nt) := sl_make ezero h (n + 1) 0 in
        let h2 := sl_copy h1 nt (sl_reslice t 0 idx) in                  (* copy(newTail, e.tail[:idx]) *)
        let h3 := sl_index_set h2 nt idx (pk, o) in                      (* newTail[idx] = {pk, obj} *)
        let h4 := sl_copy h3 (sl_reslice nt (idx + 1) (n + 1)) (sl_reslice t idx n) in
        (h4, mkME true hd nt).

Definition delete_new (h : eheap) (e : mentry) (pk : bytes) : eheap * mentry :=
  if negb (me_used e) then (h, e)
  else
    let hd := me_head e in let t := me_tail e in let n := s_len t in
    if bytes_eqb pk (fst hd) then
      if n =? 0 then (h, mkME false ezero t)                             (* head = {}, used = false *)
      else
        let (h1, nt) := sl_make ezero h (n - 1) 0 in
        let h2 := sl_copy h1 nt (sl_reslice t 1 n) in                    (* copy(newTail, e.tail[1:]) *)
        (h2, mkME true (sl_get ezero h t 0) nt)                          (* e.head = e.tail[0] *)
    else if bytes_ltb pk (fst hd) then (h, e)
    else
      let (idx, found) := search_tail (sl_den h t) pk in
      if negb found then (h, e)
      else
        let (h1, nt) := sl_make ezero h (n - 1) 0 in
        let h2 := sl_copy h1 nt (sl_reslice t 0 idx) in                  (* copy(newTail, e.tail[:idx]) *)
        let h3 := sl_copy h2 (sl_reslice nt idx (n - 1)) (sl_reslice t (idx + 1) n) in
        (h3, mkME true hd nt).

(* every heap produced by the current versions differs from the input heap only by a fresh array *)
Lemma make_pres (h : eheap) n : pres (length h) h (fst (sl_make ezero h n 0)).
Proof. apply pres_alloc. Qed.

Lemma pres_copy_step a (h0 h : eheap) dst src : pres a h0 h -> s_arr dst = a -> pres a h0 (sl_copy h dst src).
Proof. intros P <-. eapply pres_trans; [exact P|apply pres_copy]. Qed.
Lemma pres_index_set_step a (h0 h : eheap) s i x : pres a h0 h -> s_arr s = a -> pres a h0 (sl_index_set h s i x).
Proof. intros P <-. eapply pres_trans; [exact P|apply pres_index_set]. Qed.
Lemma pres_alloc_step a (h0 h : eheap) arr : pres a h0 h -> pres a h0 (h ++ [arr]).
Proof. intros P. eapply pres_trans; [exact P|apply pres_alloc]. Qed.
Ltac pres_tac := unfold sl_make; cbn [fst];
  repeat first [ apply pres_refl | apply pres_alloc_step
               | (apply pres_copy_step; [|reflexivity]) | (apply pres_index_set_step; [|reflexivity]) ].

Lemma upsert_new_pres h e pk o : pres (length h) h (fst (upsert_new h e pk o)).
Proof.
  unfold upsert_new. destruct (negb (me_used e)); [apply pres_refl|]. cbv zeta.
  destruct (bytes_eqb pk (fst (me_head e))); [apply pres_refl|].
  destruct (bytes_ltb pk (fst (me_head e))); [pres_tac|].
  destruct (search_tail _ _) as [idx found]. destruct found; pres_tac.
Qed.

Lemma delete_new_pres h e pk : pres (length h) h (fst (delete_new h e pk)).
Proof.
  unfold delete_new. destruct (negb (me_used e)); [apply pres_refl|]. cbv zeta.
  destruct (bytes_eqb pk (fst (me_head e))).
  - destruct (_ =? 0); pres_tac.
  - destruct (bytes_ltb pk (fst (me_head e))); [apply pres_refl|].
    destruct (search_tail _ _) as [idx found]. destruct found; cbn [negb]; pres_tac.
Qed.

(* (b) FRAME, current version: every slice header / entry value that exists before the call reads
   the same after it — this is what keeps the entries reachable from earlier snapshots frozen *)
Theorem upsert_new_frame_slice h e pk o s : sl_wf h s ->
  sl_den (fst (upsert_new h e pk o)) s = sl_den h s.
Proof. intros W. eapply pres_fresh_frame; eauto. apply upsert_new_pres. Qed.
Theorem upsert_new_frame h e pk o e' : me_wf h e' ->
  me_den (fst (upsert_new h e pk o)) e' = me_den h e'.
Proof. intros [W _]. unfold me_den. now rewrite upsert_new_frame_slice. Qed.
Theorem delete_new_frame_slice h e pk s : sl_wf h s ->
  sl_den (fst (delete_new h e pk)) s = sl_den h s.
Proof. intros W. eapply pres_fresh_frame; eauto. apply delete_new_pres. Qed.
Theorem delete_new_frame h e pk e' : me_wf h e' ->
  me_den (fst (delete_new h e pk)) e' = me_den h e'.
Proof. intros [W _]. unfold me_den. now rewrite delete_new_frame_slice. Qed.
(* ======================================================================================= *)
(* A.3  what the copying code builds in the fresh array *)
Lemma pres_src (h h' : eheap) s : pres (length h) h h' -> sl_wf h s -> sl_wf h' s /\ sl_den h' s = sl_den h s.
Proof. intros P W. split; [now apply P|now apply pres_fresh_frame]. Qed.

Lemma fresh_setup (h : eheap) m :
  let h1 := h ++ [repeat ezero (m + 0)] in let nt := mkS (length h) 0 m (m + 0) in
  sl_wf h1 nt /\ sl_den h1 nt = repeat ezero m /\ pres (length h) h h1.
Proof.
  cbv zeta. split; [apply (sl_make_wf ezero h m 0)|]. split; [apply (sl_make_den ezero h m 0)|apply pres_alloc].
Qed.

Lemma build_front (h : eheap) t hd n : sl_wf h t -> n = s_len t ->
  let h1 := h ++ [repeat ezero (n + 1 + 0)] in
  let nt := mkS (length h) 0 (n + 1) (n + 1 + 0) in
  let h2 := sl_index_set h1 nt 0 hd in
  let h3 := sl_copy h2 (sl_reslice nt 1 (n + 1)) t in
  sl_den h3 nt = hd :: sl_den h t.
Proof.
  intros Wt En h1 nt h2 h3.
  destruct (fresh_setup h (n + 1)) as [W1 [D1 P1]]. fold h1 nt in W1, D1, P1.
  assert (Ld : length (sl_den h t) = n) by (rewrite sl_den_length; auto).
  assert (P2 : pres (length h) h h2) by (apply pres_index_set_step; auto).
  assert (W2 : sl_wf h2 nt) by (apply sl_index_set_wf; auto).
  assert (D2 : sl_den h2 nt = [hd] ++ repeat ezero n).
  { unfold h2. rewrite sl_index_set_self by (auto; cbn [nt s_len]; lia). rewrite D1.
    rewrite wl_rep_0 by (cbn [length]; lia). cbn [length]. do 2 f_equal. lia. }
  destruct (pres_src h h2 t P2 Wt) as [Wt2 Dt2].
  unfold h3. rewrite copy_into by (auto; cbn [nt s_len]; lia). rewrite D2, Dt2.
  replace (Nat.min (n + 1 - 1) (s_len t)) with n by lia.
  rewrite firstn_all2 by lia.
  rewrite wl_app_at by (cbn [length]; lia). rewrite Ld, Nat.sub_diag. cbn [repeat app].
  now rewrite app_nil_r.
Qed.

Lemma build_set (h : eheap) t idx o n : sl_wf h t -> n = s_len t -> idx < n ->
  let h1 := h ++ [repeat ezero (n + 0)] in
  let nt := mkS (length h) 0 n (n + 0) in
  let h2 := sl_copy h1 nt t in
  let h3 := sl_index_set h2 nt idx (fst (sl_get ezero h2 nt idx), o) in
  sl_den h3 nt = firstn idx (sl_den h t) ++ (fst (nth idx (sl_den h t) ezero), o) :: skipn (S idx) (sl_den h t).
Proof.
  intros Wt En Hi h1 nt h2 h3.
  destruct (fresh_setup h n) as [W1 [D1 P1]]. fold h1 nt in W1, D1, P1.
  assert (Ld : length (sl_den h t) = n) by (rewrite sl_den_length; auto).
  destruct (pres_src h h1 t P1 Wt) as [Wt1 Dt1].
  assert (W2 : sl_wf h2 nt) by (apply sl_copy_wf; auto).
  assert (D2 : sl_den h2 nt = sl_den h t).
  { unfold h2. rewrite sl_copy_self_full by (auto; cbn [nt s_len]; lia). exact Dt1. }
  unfold h3. rewrite sl_index_set_self by (auto; cbn [nt s_len]; lia).
  unfold sl_get. rewrite D2. apply write_list_one. lia.
Qed.

Lemma build_ins (h : eheap) t idx x n : sl_wf h t -> n = s_len t -> idx <= n ->
  let h1 := h ++ [repeat ezero (n + 1 + 0)] in
  let nt := mkS (length h) 0 (n + 1) (n + 1 + 0) in
  let h2 := sl_copy h1 nt (sl_reslice t 0 idx) in
  let h3 := sl_index_set h2 nt idx x in
  let h4 := sl_copy h3 (sl_reslice nt (idx + 1) (n + 1)) (sl_reslice t idx n) in
  sl_den h4 nt = firstn idx (sl_den h t) ++ x :: skipn idx (sl_den h t).
Proof.
  intros Wt En Hi h1 nt h2 h3 h4.
  destruct (fresh_setup h (n + 1)) as [W1 [D1 P1]]. fold h1 nt in W1, D1, P1.
  assert (Ld : length (sl_den h t) = n) by (rewrite sl_den_length; auto).
  assert (Wa : sl_wf h (sl_reslice t 0 idx)) by (apply sl_reslice_wf; auto; destruct Wt; lia).
  assert (Wb : sl_wf h (sl_reslice t idx n)) by (apply sl_reslice_wf; auto; destruct Wt; lia).
  assert (Da : sl_den h (sl_reslice t 0 idx) = firstn idx (sl_den h t))
    by (rewrite sl_reslice_den by lia; now rewrite Nat.sub_0_r).
  assert (Db : sl_den h (sl_reslice t idx n) = skipn idx (sl_den h t)).
  { rewrite sl_reslice_den by lia. apply firstn_all2. rewrite skipn_length. lia. }
  assert (La : length (firstn idx (sl_den h t)) = idx) by (rewrite firstn_length; lia).
  assert (Lb : length (skipn idx (sl_den h t)) = n - idx) by (rewrite skipn_length; lia).
  (* step 1 *)
  destruct (pres_src h h1 _ P1 Wa) as [Wa1 Da1].
  assert (P2 : pres (length h) h h2) by (apply pres_copy_step; auto).
  assert (W2 : sl_wf h2 nt) by (apply sl_copy_wf; auto).
  assert (D2 : sl_den h2 nt = firstn idx (sl_den h t) ++ repeat ezero (n + 1 - idx)).
  { unfold h2. rewrite sl_copy_self by auto. rewrite D1, Da1, Da.
    cbn [nt sl_reslice s_len]. replace (Nat.min (n + 1) (idx - 0)) with idx by lia.
    rewrite firstn_all2 by lia. rewrite wl_rep_0 by lia. now rewrite La. }
  (* step 2 *)
  assert (P3 : pres (length h) h h3) by (apply pres_index_set_step; auto).
  assert (W3 : sl_wf h3 nt) by (apply sl_index_set_wf; auto).
  assert (D3 : sl_den h3 nt = (firstn idx (sl_den h t) ++ [x]) ++ repeat ezero (n - idx)).
  { unfold h3. rewrite sl_index_set_self by (auto; cbn [nt s_len]; lia). rewrite D2.
    rewrite wl_app_at by (cbn [length]; lia). cbn [length]. rewrite <- app_assoc. do 3 f_equal. lia. }
  (* step 3 *)
  destruct (pres_src h h3 _ P3 Wb) as [Wb3 Db3].
  unfold h4. rewrite copy_into by (auto; cbn [nt s_len]; lia). rewrite D3, Db3, Db.
  cbn [sl_reslice s_len]. replace (Nat.min (n + 1 - (idx + 1)) (n - idx)) with (n - idx) by lia.
  rewrite (firstn_all2 (skipn idx (sl_den h t))) by lia.
  rewrite wl_app_at by (rewrite ?app_length; cbn [length]; lia).
  rewrite Lb, Nat.sub_diag. cbn [repeat]. rewrite app_nil_r, <- app_assoc. reflexivity.
Qed.

Lemma build_del_front (h : eheap) t n : sl_wf h t -> n = s_len t -> 0 < n ->
  let h1 := h ++ [repeat ezero (n - 1 + 0)] in
  let nt := mkS (length h) 0 (n - 1) (n - 1 + 0) in
  let h2 := sl_copy h1 nt (sl_reslice t 1 n) in
  sl_den h2 nt = skipn 1 (sl_den h t).
Proof.
  intros Wt En Hn h1 nt h2.
  destruct (fresh_setup h (n - 1)) as [W1 [D1 P1]]. fold h1 nt in W1, D1, P1.
  assert (Ld : length (sl_den h t) = n) by (rewrite sl_den_length; auto).
  assert (Wb : sl_wf h (sl_reslice t 1 n)) by (apply sl_reslice_wf; auto; destruct Wt; lia).
  assert (Db : sl_den h (sl_reslice t 1 n) = skipn 1 (sl_den h t)).
  { rewrite sl_reslice_den by lia. apply firstn_all2. rewrite skipn_length. lia. }
  destruct (pres_src h h1 _ P1 Wb) as [Wb1 Db1].
  unfold h2. rewrite sl_copy_self_full by (auto; cbn [nt sl_reslice s_len]; lia).
  now rewrite Db1.
Qed.

Lemma build_del_at (h : eheap) t idx n : sl_wf h t -> n = s_len t -> idx < n ->
  let h1 := h ++ [repeat ezero (n - 1 + 0)] in
  let nt := mkS (length h) 0 (n - 1) (n - 1 + 0) in
  let h2 := sl_copy h1 nt (sl_reslice t 0 idx) in
  let h3 := sl_copy h2 (sl_reslice nt idx (n - 1)) (sl_reslice t (idx + 1) n) in
  sl_den h3 nt = firstn idx (sl_den h t) ++ skipn (S idx) (sl_den h t).
Proof.
  intros Wt En Hi h1 nt h2 h3.
  destruct (fresh_setup h (n - 1)) as [W1 [D1 P1]]. fold h1 nt in W1, D1, P1.
  assert (Ld : length (sl_den h t) = n) by (rewrite sl_den_length; auto).
  assert (Wa : sl_wf h (sl_reslice t 0 idx)) by (apply sl_reslice_wf; auto; destruct Wt; lia).
  assert (Wb : sl_wf h (sl_reslice t (idx + 1) n)) by (apply sl_reslice_wf; auto; destruct Wt; lia).
  assert (Da : sl_den h (sl_reslice t 0 idx) = firstn idx (sl_den h t))
    by (rewrite sl_reslice_den by lia; now rewrite Nat.sub_0_r).
  assert (Db : sl_den h (sl_reslice t (idx + 1) n) = skipn (S idx) (sl_den h t)).
  { rewrite sl_reslice_den by lia. rewrite Nat.add_1_r. apply firstn_all2. rewrite skipn_length. lia. }
  assert (La : length (firstn idx (sl_den h t)) = idx) by (rewrite firstn_length; lia).
  assert (Lb : length (skipn (S idx) (sl_den h t)) = n - 1 - idx) by (rewrite skipn_length; lia).
  destruct (pres_src h h1 _ P1 Wa) as [Wa1 Da1].
  assert (P2 : pres (length h) h h2) by (apply pres_copy_step; auto).
  assert (W2 : sl_wf h2 nt) by (apply sl_copy_wf; auto).
  assert (D2 : sl_den h2 nt = firstn idx (sl_den h t) ++ repeat ezero (n - 1 - idx)).
  { unfold h2. rewrite sl_copy_self by auto. rewrite D1, Da1, Da.
    cbn [nt sl_reslice s_len]. replace (Nat.min (n - 1) (idx - 0)) with idx by lia.
    rewrite firstn_all2 by lia. rewrite wl_rep_0 by lia. now rewrite La. }
  destruct (pres_src h h2 _ P2 Wb) as [Wb2 Db2].
  unfold h3. rewrite copy_into by (auto; cbn [nt s_len]; lia). rewrite D2, Db2, Db.
  cbn [sl_reslice s_len]. replace (Nat.min (n - 1 - idx) (n - (idx + 1))) with (n - 1 - idx) by lia.
  rewrite (firstn_all2 (skipn (S idx) (sl_den h t))) by lia.
  rewrite wl_app_at by lia. rewrite Lb, Nat.sub_diag. cbn [repeat]. now rewrite app_nil_r.
Qed.
(* ======================================================================================= *)
(* A.4  (a) REFINEMENT, current version *)
Lemma found_at_true (d : list eobj) pk i : found_at d pk i = true -> i < length d /\ fst (nth i d ezero) = pk.
Proof.
  unfold found_at. intros H. apply andb_true_iff in H. destruct H as [H1 H2].
  apply Nat.ltb_lt in H1. apply bytes_eqb_spec in H2. auto.
Qed.

Theorem upsert_new_refines h e pk o : me_wf h e -> esorted (me_den h e) ->
  me_den (fst (upsert_new h e pk o)) (snd (upsert_new h e pk o)) = e_upsert pk o (me_den h e).
Proof.
  intros [Wt Hu] Hs. unfold upsert_new, me_den in *. destruct (me_used e) eqn:U; cbn [negb].
  - cbv zeta. destruct (me_head e) as [pk' o'] eqn:Hh. cbn [fst e_upsert].
    assert (Ld : length (sl_den h (me_tail e)) = s_len (me_tail e)) by now apply sl_den_length.
    destruct (bytes_cmp_cases pk pk') as [[E ->]|[[E [L Hl]]|[E [L Hl]]]]; rewrite E; try rewrite L.
    + reflexivity.
    + unfold sl_make. cbv beta iota. cbn [fst snd me_used me_head me_tail]. f_equal.
      exact (build_front h (me_tail e) (pk', o') _ Wt eq_refl).
    + apply esorted_tail in Hs. rewrite search_tail_lin by auto. rewrite e_upsert_pos. cbv zeta.
      destruct (found_at (sl_den h (me_tail e)) pk (lin_idx (sl_den h (me_tail e)) pk)) eqn:F.
      * apply found_at_true in F. destruct F as [F1 F2].
        unfold sl_make. cbv beta iota. cbn [fst snd me_used me_head me_tail]. f_equal.
        assert (Hlt : lin_idx (sl_den h (me_tail e)) pk < s_len (me_tail e)) by lia.
        pose proof (build_set h (me_tail e) _ o _ Wt eq_refl Hlt) as B. cbv zeta in B.
        rewrite B, F2. reflexivity.
      * unfold sl_make. cbv beta iota. cbn [fst snd me_used me_head me_tail]. f_equal.
        pose proof (lin_idx_le (sl_den h (me_tail e)) pk) as Hle. rewrite Ld in Hle.
        exact (build_ins h (me_tail e) _ (pk, o) _ Wt eq_refl Hle).
  - cbn [fst snd me_used me_head me_tail e_upsert]. now rewrite sl_den_nil by auto.
Qed.

Theorem delete_new_refines h e pk : me_wf h e -> esorted (me_den h e) ->
  me_den (fst (delete_new h e pk)) (snd (delete_new h e pk)) = e_delete pk (me_den h e).
Proof.
  intros [Wt Hu] Hs. unfold delete_new. unfold me_den at 2. unfold me_den in Hs.
  destruct (me_used e) eqn:U; cbn [negb].
  - cbv zeta. destruct (me_head e) as [pk' o'] eqn:Hh. cbn [fst].
    assert (Ld : length (sl_den h (me_tail e)) = s_len (me_tail e)) by now apply sl_den_length.
    rewrite e_delete_pos by auto. cbv zeta. unfold found_at. cbn [lin_idx fst].
    destruct (bytes_cmp_cases pk pk') as [[E ->]|[[E [L Hl]]|[E [L Hl]]]]; rewrite E; try rewrite L.
    + rewrite bytes_ltb_irrefl. cbn [length nth fst Nat.ltb Nat.leb andb firstn skipn app].
      rewrite bytes_eqb_refl.
      destruct (Nat.eqb_spec (s_len (me_tail e)) 0) as [Z|Z].
      * unfold me_den. cbn [fst snd me_used]. symmetry. now apply sl_den_nil.
      * unfold sl_make. cbv beta iota. unfold me_den. cbn [fst snd me_used me_head me_tail].
        rewrite (build_del_front h (me_tail e) _ Wt eq_refl) by lia.
        unfold sl_get. apply nth0_skipn1. intros X. rewrite X in Ld. cbn in Ld. lia.
    + replace (bytes_ltb pk' pk) with false
        by (symmetry; destruct (bytes_ltb pk' pk) eqn:X; auto; apply bytes_ltb_spec in X; exfalso; eapply lex_lt_asym; eauto).
      cbn [length nth fst Nat.ltb Nat.leb andb].
      replace (bytes_eqb pk' pk) with false.
      * unfold me_den. cbn [fst snd]. now rewrite U, Hh.
      * symmetry. destruct (bytes_eqb pk' pk) eqn:X; auto. apply bytes_eqb_spec in X. subst. now rewrite bytes_eqb_refl in E.
    + replace (bytes_ltb pk' pk) with true by (symmetry; now apply bytes_ltb_spec).
      apply esorted_tail in Hs. rewrite search_tail_lin by auto.
      cbn [length nth firstn skipn app].
      change (S (lin_idx (sl_den h (me_tail e)) pk) <? S (length (sl_den h (me_tail e))))
        with (lin_idx (sl_den h (me_tail e)) pk <? length (sl_den h (me_tail e))).
      fold (found_at (sl_den h (me_tail e)) pk (lin_idx (sl_den h (me_tail e)) pk)).
      destruct (found_at (sl_den h (me_tail e)) pk (lin_idx (sl_den h (me_tail e)) pk)) eqn:F; cbn [negb].
      * apply found_at_true in F. destruct F as [F1 F2].
        unfold sl_make. cbv beta iota. unfold me_den. cbn [fst snd me_used me_head me_tail]. f_equal.
        assert (Hlt : lin_idx (sl_den h (me_tail e)) pk < s_len (me_tail e)) by lia.
        exact (build_del_at h (me_tail e) _ _ Wt eq_refl Hlt).
      * unfold me_den. cbn [fst snd]. now rewrite U, Hh.
  - cbn [fst snd]. unfold me_den. now rewrite U.
Qed.
(* ======================================================================================= *)
(* A.5  the in-place versions: lpmEntry.upsert before fix 9ab81d8 (defect D1) and the seeded
        lpmEntry.delete of S-C13-3 (slices.Delete). `extra` = spare cells chosen by append's
        growth policy when it has to reallocate. *)
Definition upsert_old (extra : nat) (h : eheap) (e : mentry) (pk : bytes) (o : object) : eheap * mentry :=
  if negb (me_used e) then (h, mkME true (pk, o) (me_tail e))
  else
    let hd := me_head e in let t := me_tail e in
    if bytes_eqb pk (fst hd) then (h, mkME true (fst hd, o) t)
    else if bytes_ltb pk (fst hd) then
      let (h1, t1) := sl_append ezero h t ezero extra in                 (* e.tail = append(e.tail, {}) *)
      let h2 := sl_copy h1 (sl_reslice t1 1 (s_len t1)) (sl_reslice t1 0 (s_len t1 - 1)) in
                                                                         (* copy(e.tail[1:], e.tail[:len-1]) *)
      let h3 := sl_index_set h2 t1 0 hd in                               (* e.tail[0] = oldHead *)
      (h3, mkME true (pk, o) t1)
    else
      let (idx, found) := search_tail (sl_den h t) pk in
      if found then                                                      (* e.tail[idx].obj = obj  IN PLACE *)
        (sl_index_set h t idx (fst (sl_get ezero h t idx), o), mkME true hd t)
      else
        let (h1, t1) := sl_append ezero h t ezero extra in
        let h2 := sl_copy h1 (sl_reslice t1 (idx + 1) (s_len t1)) (sl_reslice t1 idx (s_len t1)) in
                                                                         (* copy(e.tail[idx+1:], e.tail[idx:]) *)
        let h3 := sl_index_set h2 t1 idx (pk, o) in                      (* e.tail[idx] = entry *)
        (h3, mkME true hd t1).

(* S-C13-3: `e.tail = slices.Delete(e.tail, idx, idx+1)` in the tail branch *)
Definition delete_inplace (h : eheap) (e : mentry) (pk : bytes) : eheap * mentry :=
  if negb (me_used e) then (h, e)
  else
    let hd := me_head e in let t := me_tail e in let n := s_len t in
    if bytes_eqb pk (fst hd) then
      if n =? 0 then (h, mkME false ezero t)
      else
        let (h1, nt) := sl_make ezero h (n - 1) 0 in
        let h2 := sl_copy h1 nt (sl_reslice t 1 n) in
        (h2, mkME true (sl_get ezero h t 0) nt)
    else if bytes_ltb pk (fst hd) then (h, e)
    else
      let (idx, found) := search_tail (sl_den h t) pk in
      if negb found then (h, e)
      else
        let (h1, t1) := sl_delete_inplace ezero h t idx (idx + 1) in
        (h1, mkME true hd t1).

(* witnesses: one prefix holding the objects 10 < 20 < 30 < 40 (head 10 by value, tail array
   [20 30 40]); an older snapshot (or, if the writer aborts, the committed state itself) holds
   the SAME entry value, i.e. the same tail header *)
Definition wobj (id val : N) : eobj := ([id], mkO (mkP [id] val [] [] [] []) val).
Definition w_heap : eheap := [[wobj 20 1; wobj 30 1; wobj 40 1]].
Definition w_entry : mentry := mkME true (wobj 10 1) (mkS 0 0 3 3).

Lemma w_entry_ok : me_wf w_heap w_entry /\ esorted (me_den w_heap w_entry).
Proof. split; [split; [split; cbn; lia|discriminate]|]. cbn. repeat split; repeat constructor. Qed.

(* (c) REFUTATION, pre-fix upsert: updating the 2nd object writes through to every holder of the
   old entry value, whatever the growth policy *)
Theorem upsert_old_alias_refuted :
  exists (h : eheap) (e : mentry) (k : bytes) (o : object) (e_other : mentry),
    me_wf h e /\ me_wf h e_other /\ esorted (me_den h e) /\
    forall extra, me_den h e_other <> me_den (fst (upsert_old extra h e k o)) e_other.
Proof.
  exists w_heap, w_entry, [20%N], (snd (wobj 20 2)), w_entry.
  destruct w_entry_ok as [W S]. split; [exact W|]. split; [exact W|]. split; [exact S|].
  intros extra. vm_compute. discriminate.
Qed.

(* the insert path: the tail array has a spare cell (left by append's growth policy in an earlier
   upsert); inserting 30 appends in place and shifts inside the shared array, so the holder of
   the old entry value (same header, len 2) reads [10 20 30] instead of [10 20 40] *)
Theorem upsert_old_insert_alias_refuted :
  exists (h : eheap) (e : mentry) (k : bytes) (o : object) (e_other : mentry),
    me_wf h e /\ me_wf h e_other /\ esorted (me_den h e) /\
    forall extra, me_den h e_other <> me_den (fst (upsert_old extra h e k o)) e_other.
Proof.
  exists [[wobj 20 1; wobj 40 1; ezero]], (mkME true (wobj 10 1) (mkS 0 0 2 3)), [30%N], (snd (wobj 30 1)),
         (mkME true (wobj 10 1) (mkS 0 0 2 3)).
  split; [split; [split; cbn; lia|discriminate]|].
  split; [split; [split; cbn; lia|discriminate]|].
  split; [cbn; repeat split; repeat constructor|].
  intros extra. vm_compute. discriminate.
Qed.

(* S-C13-3 REFUTATION: deleting a tail object shifts and zeroes inside the shared array: the old
   holder now reads [10 30 40 <zero>] instead of [10 20 30 40] *)
Theorem delete_inplace_alias_refuted :
  exists (h : eheap) (e : mentry) (k : bytes) (e_other : mentry),
    me_wf h e /\ me_wf h e_other /\ esorted (me_den h e) /\
    me_den h e_other <> me_den (fst (delete_inplace h e k)) e_other /\
    me_den (fst (delete_inplace h e k)) e_other = [wobj 10 1; wobj 30 1; wobj 40 1; ezero].
Proof.
  exists w_heap, w_entry, [20%N], w_entry.
  destruct w_entry_ok as [W S]. split; [exact W|]. split; [exact W|]. split; [exact S|].
  split; [vm_compute; discriminate|vm_compute; reflexivity].
Qed.

(* the same witnesses are harmless for the current versions (instances of the frame theorems) *)
Example upsert_new_witness_frozen :
  me_den (fst (upsert_new w_heap w_entry [20%N] (snd (wobj 20 2)))) w_entry = me_den w_heap w_entry.
Proof. apply upsert_new_frame. apply w_entry_ok. Qed.
Example delete_new_witness_frozen :
  me_den (fst (delete_new w_heap w_entry [20%N])) w_entry = me_den w_heap w_entry.
Proof. apply delete_new_frame. apply w_entry_ok. Qed.
(* ======================================================================================= *)
(* A.6  the in-place versions are correct in the WRITER's view (they refine the model too): the
        defect is invisible to the transaction that performs the write, only other holders of
        the array see it — which is why only the aliasing refutations above distinguish them. *)
Lemma build_old_ins (h1 : eheap) t1 (d : list eobj) idx x shi n :
  sl_wf h1 t1 -> sl_den h1 t1 = d ++ [ezero] -> s_len t1 = n + 1 -> n = length d ->
  idx <= n -> n <= shi -> shi <= n + 1 ->
  let h2 := sl_copy h1 (sl_reslice t1 (idx + 1) (n + 1)) (sl_reslice t1 idx shi) in
  let h3 := sl_index_set h2 t1 idx x in
  sl_den h3 t1 = firstn idx d ++ x :: skipn idx d.
Proof.
  intros W1 D1 L1 En Hi S1 S2 h2 h3.
  assert (Ws : sl_wf h1 (sl_reslice t1 idx shi)) by (apply sl_reslice_wf; auto; destruct W1; lia).
  assert (Ds : firstn (n - idx) (sl_den h1 (sl_reslice t1 idx shi)) = skipn idx d).
  { rewrite sl_reslice_den by lia. rewrite firstn_firstn. replace (Nat.min (n - idx) (shi - idx)) with (n - idx) by lia.
    rewrite D1, skipn_app. replace (idx - length d) with 0 by lia. cbn [skipn].
    rewrite firstn_app, skipn_length. replace (n - idx - (length d - idx)) with 0 by lia. cbn [firstn].
    rewrite app_nil_r. apply firstn_all2. rewrite skipn_length. lia. }
  assert (W2 : sl_wf h2 t1) by (apply sl_copy_wf; auto).
  assert (D2 : sl_den h2 t1 = firstn (idx + 1) (d ++ [ezero]) ++ skipn idx d).
  { unfold h2. rewrite copy_into by (auto; lia). cbn [sl_reslice s_len].
    replace (Nat.min (n + 1 - (idx + 1)) (shi - idx)) with (n - idx) by lia. rewrite Ds, D1.
    apply write_list_suffix. rewrite skipn_length, app_length. cbn [length]. lia. }
  assert (LA : length (firstn (idx + 1) (d ++ [ezero])) = idx + 1)
    by (rewrite firstn_length, app_length; cbn [length]; lia).
  unfold h3. rewrite sl_index_set_self by (auto; lia). rewrite D2.
  rewrite write_list_one by (rewrite app_length; lia). f_equal; [|f_equal].
  - rewrite firstn_app, LA. replace (idx - (idx + 1)) with 0 by lia. cbn [firstn]. rewrite app_nil_r.
    rewrite firstn_firstn. replace (Nat.min idx (idx + 1)) with idx by lia.
    rewrite firstn_app. replace (idx - length d) with 0 by lia. cbn [firstn]. now rewrite app_nil_r.
  - rewrite skipn_app, LA. replace (S idx - (idx + 1)) with 0 by lia. rewrite skipn_O.
    rewrite (skipn_all2 (firstn (idx + 1) (d ++ [ezero]))) by lia. reflexivity.
Qed.

Lemma append_zero_facts extra (h : eheap) t : sl_wf h t ->
  let r := sl_append ezero h t ezero extra in
  sl_wf (fst r) (snd r) /\ sl_den (fst r) (snd r) = sl_den h t ++ [ezero] /\ s_len (snd r) = s_len t + 1.
Proof.
  intros W. cbv zeta. unfold sl_append. split; [now apply sl_append_list_wf|]. split; [now apply sl_append_list_den|].
  unfold sl_append_list. destruct (_ <=? _); reflexivity.
Qed.

Theorem upsert_old_refines extra h e pk o : me_wf h e -> esorted (me_den h e) ->
  me_den (fst (upsert_old extra h e pk o)) (snd (upsert_old extra h e pk o)) = e_upsert pk o (me_den h e).
Proof.
  intros [Wt Hu] Hs. unfold upsert_old, me_den in *. destruct (me_used e) eqn:U; cbn [negb].
  - cbv zeta. destruct (me_head e) as [pk' o'] eqn:Hh. cbn [fst e_upsert].
    assert (Ld : length (sl_den h (me_tail e)) = s_len (me_tail e)) by now apply sl_den_length.
    destruct (bytes_cmp_cases pk pk') as [[E ->]|[[E [L Hl]]|[E [L Hl]]]]; rewrite E; try rewrite L.
    + reflexivity.
    + destruct (append_zero_facts extra h (me_tail e) Wt) as [W1 [D1 L1]].
      destruct (sl_append ezero h (me_tail e) ezero extra) as [h1 t1]. cbn [fst snd] in *.
      cbn [fst snd me_used me_head me_tail]. f_equal. rewrite L1.
      assert (S1 : s_len (me_tail e) <= s_len (me_tail e) + 1 - 1) by lia.
      assert (S2 : s_len (me_tail e) + 1 - 1 <= s_len (me_tail e) + 1) by lia.
      exact (build_old_ins h1 t1 _ 0 (pk', o') _ (s_len (me_tail e)) W1 D1 L1 (eq_sym Ld)
               (Nat.le_0_l _) S1 S2).
    + apply esorted_tail in Hs. rewrite search_tail_lin by auto. rewrite e_upsert_pos. cbv zeta.
      destruct (found_at (sl_den h (me_tail e)) pk (lin_idx (sl_den h (me_tail e)) pk)) eqn:F.
      * apply found_at_true in F. destruct F as [F1 F2].
        cbn [fst snd me_used me_head me_tail]. f_equal.
        rewrite sl_index_set_self by (auto; lia). unfold sl_get. rewrite F2.
        apply write_list_one. lia.
      * destruct (append_zero_facts extra h (me_tail e) Wt) as [W1 [D1 L1]].
        destruct (sl_append ezero h (me_tail e) ezero extra) as [h1 t1]. cbn [fst snd] in *.
        cbn [fst snd me_used me_head me_tail]. f_equal. rewrite L1.
        pose proof (lin_idx_le (sl_den h (me_tail e)) pk) as Hle. rewrite Ld in Hle.
        assert (S1 : s_len (me_tail e) <= s_len (me_tail e) + 1) by lia.
        exact (build_old_ins h1 t1 _ _ (pk, o) _ (s_len (me_tail e)) W1 D1 L1 (eq_sym Ld)
                 Hle S1 (le_n _)).
  - cbn [fst snd me_used me_head me_tail e_upsert]. now rewrite sl_den_nil by auto.
Qed.

Theorem delete_inplace_refines h e pk : me_wf h e -> esorted (me_den h e) ->
  me_den (fst (delete_inplace h e pk)) (snd (delete_inplace h e pk)) = e_delete pk (me_den h e).
Proof.
  intros [Wt Hu] Hs. unfold delete_inplace. unfold me_den at 2. unfold me_den in Hs.
  destruct (me_used e) eqn:U; cbn [negb].
  - cbv zeta. destruct (me_head e) as [pk' o'] eqn:Hh. cbn [fst].
    assert (Ld : length (sl_den h (me_tail e)) = s_len (me_tail e)) by now apply sl_den_length.
    rewrite e_delete_pos by auto. cbv zeta. unfold found_at. cbn [lin_idx fst].
    destruct (bytes_cmp_cases pk pk') as [[E ->]|[[E [L Hl]]|[E [L Hl]]]]; rewrite E; try rewrite L.
    + rewrite bytes_ltb_irrefl. cbn [length nth fst Nat.ltb Nat.leb andb firstn skipn app].
      rewrite bytes_eqb_refl.
      destruct (Nat.eqb_spec (s_len (me_tail e)) 0) as [Z|Z].
      * unfold me_den. cbn [fst snd me_used]. symmetry. now apply sl_den_nil.
      * unfold sl_make. cbv beta iota. unfold me_den. cbn [fst snd me_used me_head me_tail].
        rewrite (build_del_front h (me_tail e) _ Wt eq_refl) by lia.
        unfold sl_get. apply nth0_skipn1. intros X. rewrite X in Ld. cbn in Ld. lia.
    + replace (bytes_ltb pk' pk) with false
        by (symmetry; destruct (bytes_ltb pk' pk) eqn:X; auto; apply bytes_ltb_spec in X; exfalso; eapply lex_lt_asym; eauto).
      cbn [length nth fst Nat.ltb Nat.leb andb].
      replace (bytes_eqb pk' pk) with false.
      * unfold me_den. cbn [fst snd]. now rewrite U, Hh.
      * symmetry. destruct (bytes_eqb pk' pk) eqn:X; auto. apply bytes_eqb_spec in X. subst. now rewrite bytes_eqb_refl in E.
    + replace (bytes_ltb pk' pk) with true by (symmetry; now apply bytes_ltb_spec).
      apply esorted_tail in Hs. rewrite search_tail_lin by auto.
      cbn [length nth firstn skipn app].
      change (S (lin_idx (sl_den h (me_tail e)) pk) <? S (length (sl_den h (me_tail e))))
        with (lin_idx (sl_den h (me_tail e)) pk <? length (sl_den h (me_tail e))).
      fold (found_at (sl_den h (me_tail e)) pk (lin_idx (sl_den h (me_tail e)) pk)).
      destruct (found_at (sl_den h (me_tail e)) pk (lin_idx (sl_den h (me_tail e)) pk)) eqn:F; cbn [negb].
      * apply found_at_true in F. destruct F as [F1 F2].
        assert (S1 : lin_idx (sl_den h (me_tail e)) pk <= lin_idx (sl_den h (me_tail e)) pk + 1) by lia.
        assert (S2 : lin_idx (sl_den h (me_tail e)) pk + 1 <= s_len (me_tail e)) by lia.
        pose proof (sl_delete_inplace_den ezero h (me_tail e) (lin_idx (sl_den h (me_tail e)) pk)
                      (lin_idx (sl_den h (me_tail e)) pk + 1) Wt S1 S2) as D.
        destruct (sl_delete_inplace ezero h (me_tail e) _ _) as [h1 t1]. cbn [fst snd] in D.
        unfold me_den. cbn [fst snd me_used me_head me_tail]. f_equal. rewrite D.
        now rewrite Nat.add_1_r.
      * unfold me_den. cbn [fst snd]. now rewrite U, Hh.
  - cbn [fst snd]. unfold me_den. now rewrite U.
Qed.

(* ======================================================================================= *)
(* B.  tableInitialization.pending ([]string) — table.go RegisterInitializer and the mark-done
       closure it returns. `table.init == nil` is None. The extras are the spare cells chosen by
       the growth policy of slices.Clone / append. *)
Notation sheap := (@heap bytes).
Definition szero : bytes := [].                      (* "" *)

Section Generic.
Context {A : Type}.
Variable z : A.
Notation hp := (@heap A).

Lemma pres_append (h : hp) s xs extra : pres (s_arr s) h (fst (sl_append_list z h s xs extra)).
Proof. unfold sl_append_list. destruct (_ <=? _); cbn [fst]; [apply pres_write|apply pres_alloc]. Qed.
Lemma pres_deletefunc (h : hp) s del : pres (s_arr s) h (fst (sl_deletefunc_inplace z h s del)).
Proof. apply pres_write. Qed.
Lemma pres_delete_inplace (h : hp) s i j : pres (s_arr s) h (fst (sl_delete_inplace z h s i j)).
Proof. apply pres_write. Qed.

(* h' keeps every slice header of h intact *)
Definition stable (h h' : hp) : Prop := forall s, sl_wf h s -> sl_wf h' s /\ sl_den h' s = sl_den h s.
Lemma stable_refl h : stable h h.
Proof. intros s W; auto. Qed.
Lemma stable_trans h1 h2 h3 : stable h1 h2 -> stable h2 h3 -> stable h1 h3.
Proof.
  intros S1 S2 s W. destruct (S1 s W) as [W2 D2]. destruct (S2 s W2) as [W3 D3]. split; auto. congruence.
Qed.
Lemma pres_stable (h h' : hp) : pres (length h) h h' -> stable h h'.
Proof. intros P s W. split; [now apply P|now apply pres_fresh_frame]. Qed.
Lemma stable_alloc (h : hp) arr : stable h (h ++ [arr]).
Proof. intros s W. split; [now apply alloc_wf|now apply alloc_frame]. Qed.

(* clone, then any in-place work on the clone: invisible to the slice headers of h *)
Lemma clone_then (h : hp) p extra h' : pres (length h) (fst (sl_clone z h p extra)) h' -> stable h h'.
Proof.
  intros P. apply pres_stable. eapply pres_trans; [apply pres_alloc|exact P].
Qed.
End Generic.

Definition register_new (e1 e2 : nat) (h : sheap) (init : option slice) (name : bytes) : sheap * option slice :=
  match init with
  | None => let (h1, p1) := sl_append szero h sl_nil name e2 in (h1, Some p1)   (* fresh struct, append(nil, name) *)
  | Some p => let (h1, p1) := sl_clone szero h p e1 in                          (* init2.pending = slices.Clone(init2.pending) *)
              let (h2, p2) := sl_append szero h1 p1 name e2 in                  (* init.pending = append(init.pending, name) *)
              (h2, Some p2)
  end.

Definition contains (h : sheap) (p : slice) (name : bytes) : bool := existsb (bytes_eqb name) (sl_den h p).

Definition done_new (e1 : nat) (h : sheap) (init : option slice) (name : bytes) : sheap * option slice :=
  match init with
  | None => (h, None)
  | Some p => if contains h p name
              then let (h1, p1) := sl_clone szero h p e1 in
                   let (h2, p2) := sl_deletefunc_inplace szero h1 p1 (fun n => bytes_eqb n name) in
                   (h2, Some p2)              (* slices.DeleteFunc(slices.Clone(init.pending), n == name) *)
              else (h, init)
  end.

(* S-C19-1: no clone before append; fast path re-slices pending[:last] *)
Definition register_seeded (e2 : nat) (h : sheap) (init : option slice) (name : bytes) : sheap * option slice :=
  match init with
  | None => let (h1, p1) := sl_append szero h sl_nil name e2 in (h1, Some p1)
  | Some p => let (h1, p1) := sl_append szero h p name e2 in (h1, Some p1)
  end.
Definition done_seeded (e1 : nat) (h : sheap) (init : option slice) (name : bytes) : sheap * option slice :=
  match init with
  | None => (h, None)
  | Some p => if contains h p name
              then let last := s_len p - 1 in
                   if bytes_eqb (sl_get szero h p last) name
                   then (h, Some (sl_reslice p 0 last))                      (* init.pending = init.pending[:last] *)
                   else let (h1, p1) := sl_clone szero h p e1 in
                        let (h2, p2) := sl_deletefunc_inplace szero h1 p1 (fun n => bytes_eqb n name) in
                        (h2, Some p2)
              else (h, init)
  end.

Definition init_wf (h : sheap) (init : option slice) : Prop := forall p, init = Some p -> sl_wf h p.

(* FRAME + functional correctness of the current code *)
Lemma register_new_ok e1 e2 h init name : init_wf h init ->
  let r := register_new e1 e2 h init name in
  stable h (fst r) /\ init_wf (fst r) (snd r) /\
  exists p', snd r = Some p' /\
    sl_den (fst r) p' = (match init with Some p => sl_den h p | None => [] end) ++ [name].
Proof.
  intros Wi. cbv zeta. unfold register_new. destruct init as [p|].
  - specialize (Wi p eq_refl).
    destruct (sl_clone szero h p e1) as [h1 p1] eqn:C.
    assert (W1 : sl_wf h1 p1) by (pose proof (sl_clone_wf szero h p e1 Wi) as X; now rewrite C in X).
    assert (D1 : sl_den h1 p1 = sl_den h p) by (pose proof (sl_clone_den szero h p e1 Wi) as X; now rewrite C in X).
    assert (A1 : s_arr p1 = length h) by (unfold sl_clone in C; injection C as _ <-; reflexivity).
    unfold sl_append. pose proof (sl_append_list_wf szero h1 p1 [name] e2 W1) as W2.
    pose proof (sl_append_list_den szero h1 p1 [name] e2 W1) as D2.
    pose proof (pres_append szero h1 p1 [name] e2) as P2. rewrite A1 in P2.
    destruct (sl_append_list szero h1 p1 [name] e2) as [h2 p2]. cbn [fst snd] in *.
    split; [|split].
    + apply (clone_then szero h p e1). now rewrite C.
    + intros q Hq. injection Hq as <-. exact W2.
    + exists p2. split; auto. now rewrite D2, D1.
  - unfold sl_append.
    assert (W0 : sl_wf h sl_nil) by (split; cbn; lia).
    pose proof (sl_append_list_wf szero h sl_nil [name] e2 W0) as W2.
    pose proof (sl_append_list_den szero h sl_nil [name] e2 W0) as D2.
    assert (S2 : stable h (fst (sl_append_list szero h sl_nil [name] e2))) by (unfold sl_append_list; cbn; apply stable_alloc).
    destruct (sl_append_list szero h sl_nil [name] e2) as [h2 p2]. cbn [fst snd] in *.
    split; [exact S2|]. split.
    + intros q Hq. injection Hq as <-. exact W2.
    + exists p2. split; auto.
Qed.

Lemma done_new_ok e1 h init name : init_wf h init ->
  let r := done_new e1 h init name in
  stable h (fst r) /\ init_wf (fst r) (snd r) /\
  match init, snd r with
  | Some p, Some p' => sl_den (fst r) p' = filter (fun n => negb (bytes_eqb n name)) (sl_den h p)
  | None, None => True
  | _, _ => False
  end.
Proof.
  intros Wi. cbv zeta. unfold done_new. destruct init as [p|]; [|cbn; split; [apply stable_refl|split; auto]].
  specialize (Wi p eq_refl). destruct (contains h p name) eqn:Ct.
  - destruct (sl_clone szero h p e1) as [h1 p1] eqn:C.
    assert (W1 : sl_wf h1 p1) by (pose proof (sl_clone_wf szero h p e1 Wi) as X; now rewrite C in X).
    assert (D1 : sl_den h1 p1 = sl_den h p) by (pose proof (sl_clone_den szero h p e1 Wi) as X; now rewrite C in X).
    assert (A1 : s_arr p1 = length h) by (unfold sl_clone in C; injection C as _ <-; reflexivity).
    pose proof (sl_deletefunc_inplace_den szero h1 p1 (fun n => bytes_eqb n name) W1) as D2.
    pose proof (pres_deletefunc szero h1 p1 (fun n => bytes_eqb n name)) as P2. rewrite A1 in P2.
    assert (W2 : sl_wf (fst (sl_deletefunc_inplace szero h1 p1 (fun n => bytes_eqb n name)))
                       (snd (sl_deletefunc_inplace szero h1 p1 (fun n => bytes_eqb n name)))).
    { cbn [sl_deletefunc_inplace fst snd]. apply write_range_wf. destruct W1 as [Wa Wb].
      pose proof (filter_length_le (fun x => negb (bytes_eqb x name)) (sl_den h1 p1)) as F.
      rewrite sl_den_length in F by (split; auto). split; cbn [s_arr s_off s_len s_cap]; lia. }
    destruct (sl_deletefunc_inplace szero h1 p1 (fun n => bytes_eqb n name)) as [h2 p2]. cbn [fst snd] in *.
    split; [|split].
    + apply (clone_then szero h p e1). now rewrite C.
    + intros q Hq. injection Hq as <-. exact W2.
    + now rewrite D2, D1.
  - cbn [fst snd]. split; [apply stable_refl|]. split; [intros q Hq; injection Hq as <-; exact Wi|].
    symmetry. clear Wi. unfold contains in Ct. induction (sl_den h p) as [|x l IH]; cbn [filter existsb] in *; auto.
    apply orb_false_iff in Ct. destruct Ct as [C1 C2].
    replace (bytes_eqb x name) with false; [cbn [negb]; now rewrite IH|].
    symmetry. destruct (bytes_eqb x name) eqn:X; auto. apply bytes_eqb_spec in X. subst.
    now rewrite bytes_eqb_refl in C1.
Qed.

(* a transaction = any sequence of registrations and marks *)
Inductive iop := IReg (name : bytes) (e1 e2 : nat) | IDone (name : bytes) (e1 : nat).
Definition istep_new (st : sheap * option slice) (op : iop) : sheap * option slice :=
  match op with
  | IReg n e1 e2 => register_new e1 e2 (fst st) (snd st) n
  | IDone n e1 => done_new e1 (fst st) (snd st) n
  end.
Definition istep_seeded (st : sheap * option slice) (op : iop) : sheap * option slice :=
  match op with
  | IReg n _ e2 => register_seeded e2 (fst st) (snd st) n
  | IDone n e1 => done_seeded e1 (fst st) (snd st) n
  end.

Lemma istep_new_ok st op : init_wf (fst st) (snd st) ->
  stable (fst st) (fst (istep_new st op)) /\ init_wf (fst (istep_new st op)) (snd (istep_new st op)).
Proof.
  intros W. destruct op as [n e1 e2|n e1]; cbn [istep_new].
  - destruct (register_new_ok e1 e2 (fst st) (snd st) n W) as [S [W' _]]. auto.
  - destruct (done_new_ok e1 (fst st) (snd st) n W) as [S [W' _]]. auto.
Qed.

(* (d) FRAME: whatever a write transaction does with the initializers (and whether it then
   commits or aborts), every pending slice that existed before reads the same afterwards *)
Theorem init_pending_frame ops : forall h init s, init_wf h init -> sl_wf h s ->
  sl_den (fst (fold_left istep_new ops (h, init))) s = sl_den h s.
Proof.
  assert (G : forall l st, init_wf (fst st) (snd st) -> stable (fst st) (fst (fold_left istep_new l st))).
  { induction l as [|op r IH]; intros st W; cbn [fold_left]; [apply stable_refl|].
    destruct (istep_new_ok st op W) as [S W']. eapply stable_trans; [exact S|]. now apply IH. }
  intros h init s Wi Ws. now apply (G ops (h, init) Wi s).
Qed.

(* S-C19-1 REFUTATION (notes.md): committed pending [a b]; a transaction marks b done (fast path:
   re-slice, len 1 cap 2), registers c (append in place over b's cell) and ABORTS; the committed
   slice header now reads [a c] *)
Theorem init_pending_alias_refuted :
  exists (h : sheap) (p : slice) (a b c : bytes),
    sl_wf h p /\ sl_den h p = [a; b] /\
    forall e1 e2 e3,
      sl_den (fst (fold_left istep_seeded [IDone b e1; IReg c e2 e3] (h, Some p))) p = [a; c] /\ [a; c] <> [a; b].
Proof.
  exists [[[97%N]; [98%N]]], (mkS 0 0 2 2), [97%N], [98%N], [99%N].
  split; [split; cbn; lia|]. split; [reflexivity|].
  intros e1 e2 e3. split; [vm_compute; reflexivity|discriminate].
Qed.

(* the same transaction with the current code leaves the committed slice alone *)
Example init_pending_witness_frozen e1 e2 e3 :
  sl_den (fst (fold_left istep_new [IDone [98%N] e1; IReg [99%N] e2 e3] ([[[97%N]; [98%N]]], Some (mkS 0 0 2 2))))
         (mkS 0 0 2 2) = [[97%N]; [98%N]].
Proof.
  rewrite init_pending_frame; [reflexivity| |split; cbn; lia].
  intros p Hp. injection Hp as <-. split; cbn; lia.
Qed.
(* ======================================================================================= *)
(* C.  the root slice in Commit (write_txn.go). dbRoot = []*tableEntry: an element is a pointer,
       modelled as a number; `locked` is the flag of the pointed-to entry (true exactly for the
       transaction's own copies of the tables it locked). `entries` = txn.tableEntries =
       slices.Clone of the old root made in WriteTxn: the transaction's PRIVATE array; `cur` = the root
       loaded again under the root lock. *)
Notation rheap := (@heap nat).

(* for pos := range txn.tableEntries { table := txn.tableEntries[pos];
     if !table.locked { <target>[pos] = currentRoot[pos]; continue }; ... } *)
Definition root_loop (locked : nat -> bool) (entries target cur : slice) (k : nat) (h : rheap) : rheap :=
  fold_left (fun h pos => if locked (sl_get 0 h entries pos) then h
                          else sl_index_set h target pos (sl_get 0 h cur pos)) (seq 0 k) h.

(* if len(currentRoot) > len(root) { root = append(root, currentRoot[len(root):]...) } *)
Definition root_append (extra : nat) (h : rheap) (root cur : slice) : rheap * slice :=
  if s_len root <? s_len cur
  then sl_append_list 0 h root (sl_den h (sl_reslice cur (s_len root) (s_len cur))) extra
  else (h, root).

(* current code: root := txn.tableEntries; loop writes root[pos]; THEN append; db.root.Store(&root) *)
Definition commit_root_good (extra : nat) (locked : nat -> bool) (h : rheap) (entries cur : slice) : rheap * slice :=
  let root := entries in
  let h1 := root_loop locked entries root cur (s_len entries) h in
  root_append extra h1 root cur.

(* S-C05-1: append FIRST, and the loop writes through txn.tableEntries[pos] *)
Definition commit_root_bad (extra : nat) (locked : nat -> bool) (h : rheap) (entries cur : slice) : rheap * slice :=
  let (h0, root) := root_append extra h entries cur in
  let h1 := root_loop locked entries entries cur (s_len entries) h0 in
  (h1, root).

(* what must be published at position pos < len(entries) *)
Definition root_want (locked : nat -> bool) (E C : list nat) (pos : nat) : nat :=
  if locked (nth pos E 0) then nth pos E 0 else nth pos C 0.

Lemma skipn_cons_nth (l : list nat) : forall k, k < length l -> skipn k l = nth k l 0 :: skipn (S k) l.
Proof.
  induction l as [|x l IH]; intros [|k] L; cbn [length] in L; try lia; [reflexivity|].
  cbn [skipn nth]. rewrite IH by lia. reflexivity.
Qed.

Lemma write_list_app_at (l1 l2 : list nat) k data : k = length l1 ->
  write_list (l1 ++ l2) k data = l1 ++ write_list l2 0 data.
Proof. intros ->. rewrite <- (Nat.add_0_r (length l1)). apply write_list_app_r. Qed.

Lemma root_loop_spec locked (h : rheap) entries cur : sl_wf h entries -> sl_wf h cur ->
  s_arr cur <> s_arr entries -> s_len entries <= s_len cur ->
  forall k, k <= s_len entries ->
  let hk := root_loop locked entries entries cur k h in
  pres (s_arr entries) h hk /\
  sl_den hk entries = map (root_want locked (sl_den h entries) (sl_den h cur)) (seq 0 k) ++ skipn k (sl_den h entries).
Proof.
  intros We Wc Hne Hlen. cbv zeta.
  assert (LE : length (sl_den h entries) = s_len entries) by now apply sl_den_length.
  induction k as [|k IH]; intros Hk.
  - cbn. split; [apply pres_refl|reflexivity].
  - destruct IH as [P D]; [lia|]. unfold root_loop in *. rewrite seq_S, fold_left_app. cbn [fold_left Nat.add].
    set (hk := fold_left _ (seq 0 k) h) in *.
    destruct (P entries We) as [Wek _]. destruct (P cur Wc) as [Wck Dck]. specialize (Dck (or_introl Hne)).
    assert (G : sl_get 0 hk entries k = nth k (sl_den h entries) 0).
    { unfold sl_get. rewrite D. rewrite app_nth2 by (rewrite map_length, seq_length; lia).
      rewrite map_length, seq_length, Nat.sub_diag. rewrite skipn_cons_nth by lia. reflexivity. }
    rewrite G. rewrite map_app. cbn [map]. rewrite <- app_assoc. cbn [app].
    unfold root_want at 2. destruct (locked (nth k (sl_den h entries) 0)) eqn:Lk.
    + split; [exact P|]. rewrite D. now rewrite skipn_cons_nth by lia.
    + split; [eapply pres_trans; [exact P|apply pres_index_set]|].
      rewrite sl_index_set_self by (auto; lia). rewrite D.
      rewrite write_list_app_at by (rewrite map_length, seq_length; lia). rewrite skipn_cons_nth by lia. cbn [write_list].
      rewrite write_list_nil_data. unfold sl_get. now rewrite Dck.
Qed.

(* (e) the current order publishes, at every position of the transaction's root, its own entry
   for a locked table and currentRoot[pos] for an unlocked one, followed by the tables
   registered meanwhile; and touches nothing outside the transaction's private array *)
Theorem commit_root_good_spec extra locked (h : rheap) entries cur :
  sl_wf h entries -> sl_wf h cur -> s_arr cur <> s_arr entries -> s_len entries <= s_len cur ->
  let r := commit_root_good extra locked h entries cur in
  sl_den (fst r) (snd r) =
    map (root_want locked (sl_den h entries) (sl_den h cur)) (seq 0 (s_len entries))
    ++ skipn (s_len entries) (sl_den h cur)
  /\ pres (s_arr entries) h (fst r).
Proof.
  intros We Wc Hne Hlen. cbv zeta. unfold commit_root_good. cbv zeta.
  destruct (root_loop_spec locked h entries cur We Wc Hne Hlen (s_len entries) (le_n _)) as [P D].
  set (h1 := root_loop locked entries entries cur (s_len entries) h) in *.
  assert (LE : length (sl_den h entries) = s_len entries) by now apply sl_den_length.
  assert (LC : length (sl_den h cur) = s_len cur) by now apply sl_den_length.
  rewrite skipn_all2 in D by lia. rewrite app_nil_r in D.
  destruct (P entries We) as [We1 _]. destruct (P cur Wc) as [Wc1 Dc1]. specialize (Dc1 (or_introl Hne)).
  unfold root_append. destruct (Nat.ltb_spec (s_len entries) (s_len cur)) as [L|L].
  - split.
    + rewrite sl_append_list_den by auto. rewrite D. f_equal.
      rewrite sl_reslice_den by lia. rewrite Dc1. apply firstn_all2. rewrite skipn_length. lia.
    + eapply pres_trans; [exact P|apply pres_append].
  - cbn [fst snd]. split; [|exact P]. rewrite D. rewrite skipn_all2 by lia. now rewrite app_nil_r.
Qed.

Corollary commit_root_good_unlocked extra locked (h : rheap) entries cur pos :
  sl_wf h entries -> sl_wf h cur -> s_arr cur <> s_arr entries -> s_len entries <= s_len cur ->
  pos < s_len entries -> locked (nth pos (sl_den h entries) 0) = false ->
  let r := commit_root_good extra locked h entries cur in
  nth pos (sl_den (fst r) (snd r)) 0 = nth pos (sl_den h cur) 0.
Proof.
  intros We Wc Hne Hlen Hp Hl. cbv zeta.
  destruct (commit_root_good_spec extra locked h entries cur We Wc Hne Hlen) as [D _]. rewrite D.
  rewrite app_nth1 by (rewrite map_length, seq_length; lia).
  rewrite (nth_indep _ 0 (root_want locked (sl_den h entries) (sl_den h cur) 0))
    by (rewrite map_length, seq_length; lia).
  rewrite map_nth, seq_nth by lia. cbn [Nat.add]. unfold root_want. now rewrite Hl.
Qed.

(* frame w.r.t. the published roots: they live in other arrays than the private clone *)
Corollary commit_root_good_frame extra locked (h : rheap) entries cur s :
  sl_wf h entries -> sl_wf h cur -> s_arr cur <> s_arr entries -> s_len entries <= s_len cur ->
  sl_wf h s -> s_arr s <> s_arr entries ->
  sl_den (fst (commit_root_good extra locked h entries cur)) s = sl_den h s.
Proof.
  intros We Wc Hne Hlen Ws Hs.
  destruct (commit_root_good_spec extra locked h entries cur We Wc Hne Hlen) as [_ P].
  destruct (P s Ws) as [_ F]. apply F. now left.
Qed.

(* S-C05-1 REFUTATION (notes.md). T1 starts on root [A0 B0] = pointers [1 2] (array 0) and locks A:
   its private clone (array 1, cap = len = 2) is [10 2]. Meanwhile table C is registered and a
   transaction on B commits: current root [1 3 4] (array 2). T1 commits: the append reallocates
   (array 3), the refresh of B goes to the abandoned array 1, and the published root carries the
   STALE B (2) instead of the current one (3) — for every growth policy. *)
Definition w_locked (p : nat) : bool := p =? 10.
Definition w_rheap : rheap := [[1; 2]; [10; 2]; [1; 3; 4]].
Definition w_entries : slice := mkS 1 0 2 2.
Definition w_cur : slice := mkS 2 0 3 3.

Theorem commit_root_bad_refuted :
  exists locked (h : rheap) entries cur pos,
    sl_wf h entries /\ sl_wf h cur /\ s_arr cur <> s_arr entries /\ s_len entries <= s_len cur /\
    pos < s_len entries /\ locked (nth pos (sl_den h entries) 0) = false /\
    forall extra,
      let r := commit_root_bad extra locked h entries cur in
      nth pos (sl_den (fst r) (snd r)) 0 <> nth pos (sl_den h cur) 0 /\
      sl_den (fst r) (snd r) = [10; 2; 4] /\
      sl_den (fst (commit_root_good extra locked h entries cur)) (snd (commit_root_good extra locked h entries cur)) = [10; 3; 4].
Proof.
  exists w_locked, w_rheap, w_entries, w_cur, 1.
  split; [split; cbn; lia|]. split; [split; cbn; lia|]. split; [cbn; lia|]. split; [cbn; lia|].
  split; [cbn; lia|]. split; [reflexivity|].
  intros extra. cbv zeta. split; [vm_compute; discriminate|]. split; vm_compute; reflexivity.
Qed.

(* with a spare cell in the private clone (cap 3: Go's size classes for 5, 7, 9 tables) the append
   works in place, root still aliases txn.tableEntries and the seeded order is harmless *)
Example commit_root_bad_hidden_with_spare_capacity extra :
  let r := commit_root_bad extra w_locked [[1; 2]; [10; 2; 0]; [1; 3; 4]] (mkS 1 0 2 3) w_cur in
  sl_den (fst r) (snd r) = [10; 3; 4].
Proof. vm_compute. reflexivity. Qed.

(* ======================================================================================= *)
(* summary statements quoted by Properties/C01.v *)
Theorem lpm_entry_ops_refine h e pk o : me_wf h e -> esorted (me_den h e) ->
  me_den (fst (upsert_new h e pk o)) (snd (upsert_new h e pk o)) = e_upsert pk o (me_den h e) /\
  me_den (fst (delete_new h e pk)) (snd (delete_new h e pk)) = e_delete pk (me_den h e).
Proof. intros W S. split; [now apply upsert_new_refines|now apply delete_new_refines]. Qed.

Theorem commit_root_append_ok extra locked (h : rheap) entries cur :
  sl_wf h entries -> sl_wf h cur -> s_arr cur <> s_arr entries -> s_len entries <= s_len cur ->
  let r := commit_root_good extra locked h entries cur in
  (forall pos, pos < s_len entries -> locked (nth pos (sl_den h entries) 0) = false ->
     nth pos (sl_den (fst r) (snd r)) 0 = nth pos (sl_den h cur) 0) /\
  (forall pos, pos < s_len entries -> locked (nth pos (sl_den h entries) 0) = true ->
     nth pos (sl_den (fst r) (snd r)) 0 = nth pos (sl_den h entries) 0) /\
  skipn (s_len entries) (sl_den (fst r) (snd r)) = skipn (s_len entries) (sl_den h cur) /\
  (forall s, sl_wf h s -> s_arr s <> s_arr entries -> sl_den (fst r) s = sl_den h s).
Proof.
  intros We Wc Hne Hlen. cbv zeta. split; [|split; [|split]].
  - intros pos Hp Hl. now apply commit_root_good_unlocked.
  - intros pos Hp Hl.
    destruct (commit_root_good_spec extra locked h entries cur We Wc Hne Hlen) as [D _]. rewrite D.
    rewrite app_nth1 by (rewrite map_length, seq_length; lia).
    rewrite (nth_indep _ 0 (root_want locked (sl_den h entries) (sl_den h cur) 0))
      by (rewrite map_length, seq_length; lia).
    rewrite map_nth, seq_nth by lia. cbn [Nat.add]. unfold root_want. now rewrite Hl.
  - destruct (commit_root_good_spec extra locked h entries cur We Wc Hne Hlen) as [D _]. rewrite D.
    rewrite skipn_app, map_length, seq_length, Nat.sub_diag. cbn [skipn].
    rewrite skipn_all2 by (rewrite map_length, seq_length; lia). reflexivity.
  - intros s Ws Hs. now apply commit_root_good_frame.
Qed.
