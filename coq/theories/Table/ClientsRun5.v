(* Table/ClientsRun5.v — part G, continued: the usage hypotheses of the C07 theorem (`created`, not registered
   before, `friendly_run`) discharged for runs of the system in which the harness obeys `uok`; what remains is
   revision room (no uint64 overflow) on the flattened operations. *)
From Coq Require Import List NArith Bool Lia.
Import ListNotations.
From SV Require Import Base.Bytes Base.OrdMap KeyEnc.Model Table.Model Table.Proofs Table.InvDefs Table.Inv Table.Inv2
                       Table.GcProofs Table.ChangesStream Table.ChangesIter Table.ChangesProofs Table.ChangesRet
                       Table.ChangesHist Table.ChangesFromInit Table.Clients Table.ClientsProofs Table.ClientsProofs2
                       Table.ClientsRun Table.ClientsRun2.
Local Open Scope N_scope.

(* ==== who is registered as a delete tracker of table i, in the root and in the open transaction =============== *)
Lemma modify_trackers g m p t : t_trackers (fst (modify g m p t)) = t_trackers t.
Proof.
  unfold modify, modify_with.
  repeat match goal with |- context [match ?x with _ => _ end] => destruct x end; reflexivity.
Qed.

Lemma delete_trackers g id t : t_trackers (fst (delete g id t)) = t_trackers t.
Proof.
  unfold delete, delete_with.
  repeat match goal with |- context [match ?x with _ => _ end] => destruct x end; reflexivity.
Qed.

Lemma delete_all_trackers t : t_trackers (delete_all t) = t_trackers t.
Proof.
  unfold delete_all. generalize (t_primary t) as l. intros l. revert t.
  induction l as [|kv r IH]; intros t; cbn [fold_left]; [reflexivity|]. rewrite IH. apply delete_trackers.
Qed.

Section Trackers.
Variables (i : nat) (P : list N -> Prop).

Definition tentryP (d : db) : Prop :=
  (forall t, nth_error (d_root d) i = Some t -> P (t_trackers t)) /\
  (forall es old te b, d_txn d = Some (es, old) -> nth_error es i = Some (te, b) -> P (t_trackers te)).

Lemma tentryP_same d d' : d_root d' = d_root d -> d_txn d' = d_txn d -> tentryP d -> tentryP d'.
Proof. intros R T [P1 P2]. split; [rewrite R; exact P1|rewrite T; exact P2]. Qed.

Lemma tentryP_upd d es old tab t t' :
  d_txn d = Some (es, old) -> nth_error es tab = Some (t, true) -> (P (t_trackers t) -> P (t_trackers t')) ->
  tentryP d -> tentryP (set_txn d (Some (upd_nth tab (fun _ => (t', true)) es, old))).
Proof.
  intros Ht Hn Hp [P1 P2]. split; [exact P1|]. cbn [set_txn d_txn]. intros es' old' te b E H. injection E as <- _.
  destruct (Nat.eq_dec tab i) as [->|Hne].
  - rewrite (nth_error_upd_nth_same _ _ _ _ Hn) in H. injection H as <- _. eauto.
  - rewrite nth_error_upd_nth_other in H by exact Hne. eauto.
Qed.

Lemma tentryP_with_locked d tab f a b :
  (forall t, t_trackers (fst (f t)) = t_trackers t) -> tentryP d -> tentryP (fst (with_locked d tab f a b)).
Proof.
  intros Hf HP. destruct (with_locked_cases d tab f a b) as [->|[es [old [t [E1 [E2 ->]]]]]]; [exact HP|].
  eapply tentryP_upd; eauto. now rewrite Hf.
Qed.

Lemma step_tentryP d o :
  (forall j tab l, o = OChanges j tab -> P l -> P (l ++ [j])) ->
  (forall j l, o = OClose j -> P l -> P (filter (fun x => negb (x =? j)) l)) ->
  tentryP d -> tentryP (fst (step d o)).
Proof.
  intros Hch Hcl HP.
  destruct o; cbn [step];
    try (apply tentryP_with_locked; [|exact HP]; intros t; rewrite fst_wr;
         first [apply modify_trackers|apply delete_trackers]).
  - (* OBegin *)
    destruct (d_txn d) eqn:Et; [exact HP|]. cbn [fst]. destruct HP as [P1 P2]. split; [exact P1|].
    cbn [set_txn d_txn]. intros es old te b E H. injection E as <- _.
    rewrite begin_entries, nth_error_map in H. destruct (nth_error (d_root d) i) as [t|] eqn:En; [|discriminate].
    cbn in H. injection H as <- _. auto.
  - (* ODeleteAll *)
    destruct (d_txn d) as [[es old]|] eqn:Et; [|exact HP].
    destruct (nth_error es tab) as [[t [|]]|] eqn:E2;
      try (apply tentryP_with_locked; [|exact HP]; intros t0; apply delete_all_trackers).
    destruct (t_primary t); exact HP.
  - (* OCommit *)
    destruct (d_txn d) as [[es old]|] eqn:Et; [|exact HP]. cbn [fst]. destruct HP as [P1 P2].
    split; cbn [d_root d_txn]; [|discriminate].
    intros t H. rewrite nth_error_zip_with in H.
    destruct (nth_error es i) as [[te b]|] eqn:En; [|discriminate].
    destruct (nth_error (d_root d) i) as [cur|] eqn:Ec; [|discriminate]. injection H as <-.
    destruct b; [|auto]. pose proof (P2 _ _ _ _ Et En) as K. destruct (t_init te) as [[w [|]]|]; exact K.
  - (* OAbort *)
    destruct (d_txn d); [|exact HP]. cbn [fst]. destruct HP as [P1 _]. split; [exact P1|discriminate].
  - (* OSnap *) apply (tentryP_same d); auto.
  - (* OQuery *) destruct (src_root d s); [|exact HP]. destruct (nth_error l tab); exact HP.
  - (* OChanges *)
    destruct (d_txn d) as [[es old]|] eqn:Et; [|exact HP].
    destruct (nth_error es tab) as [[t [|]]|] eqn:E2; try exact HP.
    destruct (nth_error old tab); [|exact HP]. cbn [fst].
    match goal with |- tentryP (set_iters (set_wm ?dd _) _) => apply (tentryP_same dd); auto end.
    eapply tentryP_upd; eauto.
  - (* ONext *)
    destruct (step_next_frame d iid s take) as [A B]. apply (tentryP_same d); auto.
  - (* OResume *)
    destruct (assoc iid (d_iters d)) as [it|]; [|exact HP].
    destruct (it_pending it) as [l|]; [|exact HP]. destruct (it_seq it); [|exact HP].
    match goal with |- context [consume ?a ?b ?c ?dd ?e] =>
      pose proof (consume_frame b a c dd e) as Hc; destruct (consume a b c dd e) as [[x y] z] end.
    cbn [fst snd] in *. destruct Hc as [A [B _]]. apply (tentryP_same d); auto.
  - (* OClose *)
    destruct (assoc iid (d_iters d)) as [it|]; [|exact HP]. destruct (d_txn d) eqn:Et; [exact HP|]. cbn [fst].
    match goal with |- tentryP (gc_trigger ?x) => destruct (gc_trigger_frame x) as [A [B _]] end.
    destruct HP as [P1 P2]. split.
    + rewrite A. cbn [set_iters set_root d_root]. intros t H.
      destruct (Nat.eq_dec (it_tab it) i) as [<-|Hn].
      * destruct (nth_error (d_root d) (it_tab it)) as [cur|] eqn:Ec.
        -- rewrite (nth_error_upd_nth_same _ _ _ _ Ec) in H. injection H as <-. cbn [t_trackers].
           eapply Hcl; [reflexivity|auto].
        -- rewrite nth_error_upd_nth_none in H by exact Ec. congruence.
      * rewrite nth_error_upd_nth_other in H by exact Hn. auto.
    + rewrite B. cbn [set_iters set_root d_txn]. rewrite Et. discriminate.
  - (* OGcScan *) destruct (d_gc d); exact HP.
  - (* OGcApply *)
    destruct (d_gc d) eqn:Eg; try exact HP. destruct (d_txn d) eqn:Et; [exact HP|]. cbn [fst].
    destruct HP as [P1 P2]. split.
    + assert (R : d_root (gc_settle (set_gc (set_root d (zip_with gc_apply_table keys (d_root d))) GIdle)) =
                  zip_with gc_apply_table keys (d_root d)).
      { unfold gc_settle. cbn. destruct (d_gcchan d); reflexivity. }
      rewrite R. intros t H. rewrite nth_error_zip_with in H.
      destruct (nth_error keys i) as [ks|]; [|discriminate].
      destruct (nth_error (d_root d) i) as [cur|] eqn:Ec; [|discriminate]. injection H as <-.
      destruct (gc_apply_frame ks cur) as [_ [_ [_ [_ [_ [_ [_ [E _]]]]]]]]. rewrite E. auto.
    + assert (T : d_txn (gc_settle (set_gc (set_root d (zip_with gc_apply_table keys (d_root d))) GIdle)) = None).
      { unfold gc_settle. cbn. destruct (d_gcchan d); cbn; exact Et. }
      rewrite T. discriminate.
  - (* ORegInit *)
    match goal with |- context [with_locked d tab ?f ?a ?b] =>
      assert (Hq : tentryP (fst (with_locked d tab f a b)));
      [apply tentryP_with_locked; [|exact HP]|destruct (with_locked d tab f a b) as [d' x]] end.
    + intros t. destruct (t_init t) as [[w p]|]; [destruct (existsb (N.eqb name) p)|]; reflexivity.
    + cbn [fst] in *. exact Hq.
  - (* OInitDone *)
    apply tentryP_with_locked; [|exact HP]. intros t. destruct (t_init t) as [[w p]|]; reflexivity.
Qed.
End Trackers.

Definition NTp (l : list N) : Prop := ~ In derive_iid l.
Definition TRp (l : list N) : Prop := In derive_iid l.
Definition untouched (l : list op) : bool := forallb (fun o => negb (touches derive_iid o)) l.

Lemma run_NT i l : forall d, untouched l = true -> tentryP i NTp d -> tentryP i NTp (fst (run d l)).
Proof.
  induction l as [|o r IH]; intros d H HP; cbn [run]; [exact HP|].
  unfold untouched in H. cbn [forallb] in H. apply andb_true_iff in H. destruct H as [Ho Hr].
  assert (H1 : tentryP i NTp (fst (step d o))).
  { apply step_tentryP; auto.
    - intros j tab l -> Hl Hin. apply in_app_or in Hin. destruct Hin as [Hin|[E|[]]]; [auto|].
      subst j. cbn [touches] in Ho. rewrite N.eqb_refl in Ho. discriminate.
    - intros j l _ Hl Hin. apply filter_In in Hin. destruct Hin; auto. }
  specialize (IH _ Hr H1). destruct (step d o) as [d1 x]. cbn [fst] in *. destruct (run d1 r) as [d2 xs]. exact IH.
Qed.

Lemma run_TR i l : forall d, untouched l = true -> tentryP i TRp d -> tentryP i TRp (fst (run d l)).
Proof.
  induction l as [|o r IH]; intros d H HP; cbn [run]; [exact HP|].
  unfold untouched in H. cbn [forallb] in H. apply andb_true_iff in H. destruct H as [Ho Hr].
  assert (H1 : tentryP i TRp (fst (step d o))).
  { apply step_tentryP; auto.
    - intros j tab l _ Hl. apply in_or_app. auto.
    - intros j l -> Hl. apply filter_In. split; [exact Hl|]. cbn [touches] in Ho. rewrite N.eqb_sym. exact Ho. }
  specialize (IH _ Hr H1). destruct (step d o) as [d1 x]. cbn [fst] in *. destruct (run d1 r) as [d2 xs]. exact IH.
Qed.

(* operations that are friendly to the loop's iterator in every state *)
Definition af (o : op) : bool :=
  match o with
  | OChanges i _ | ONext i _ _ => negb (i =? derive_iid)
  | OAbort => false
  | _ => true
  end.

Lemma af_friendly inn l : forall d, forallb af l = true -> friendly_run derive_iid inn d l.
Proof.
  induction l as [|o r IH]; intros d H; cbn [friendly_run]; [exact I|].
  cbn [forallb] in H. apply andb_true_iff in H. destruct H as [Ho Hr]. split; [|auto].
  destruct o; cbn [friendly af] in *; auto; try discriminate.
  - apply negb_true_iff, N.eqb_neq in Ho. exact Ho.
  - intros ->. rewrite N.eqb_refl in Ho. discriminate.
Qed.

Lemma user_friendly inn out d o : uok out o = true -> tentryP inn TRp d ->
  (exists cur, nth_error (d_root d) inn = Some cur) -> friendly derive_iid inn d o.
Proof.
  intros Hu [P1 _] [cur Hc]. unfold uok in Hu. apply andb_true_iff in Hu. destruct Hu as [_ Hu].
  destruct o; cbn [friendly touches] in *; auto.
  - intros _. exists cur. split; [exact Hc|]. exact (P1 _ Hc).
  - apply negb_true_iff, N.eqb_neq in Hu. exact Hu.
  - intros ->. rewrite N.eqb_refl in Hu. discriminate.
Qed.

(* the registration leg: the creating transaction's state, and the tracker in the committed root afterwards *)
Lemma reg_leg_tracker n d tab iid sid : LInv n d -> d_txn d = None -> (tab < n)%nat ->
  (exists t0, created (fst (step d (OBegin [tab]))) iid tab t0) /\
  d_root (fst (step d (OBegin [tab]))) = d_root d /\
  tentryP tab (fun l => In iid l) (fst (run d [OBegin [tab]; OChanges iid tab; OCommit sid])).
Proof.
  intros L Htx Htab. destruct (LInv_root n d tab L Htab) as [t Ht].
  assert (Hb : fst (step d (OBegin [tab])) =
               set_txn d (Some (upd_nth tab (fun e => (fst e, true)) (map (fun t => (t, false)) (d_root d)), d_root d))).
  { cbn [step]. rewrite Htx. reflexivity. }
  assert (He : nth_error (upd_nth tab (fun e => (fst e, true)) (map (fun t => (t, false)) (d_root d))) tab = Some (t, true)).
  { rewrite (nth_error_upd_nth_same (fun e => (fst e, true)) _ tab (t, false)) by (rewrite nth_error_map, Ht; reflexivity).
    reflexivity. }
  split; [|split].
  - exists t. rewrite Hb. exists (upd_nth tab (fun e => (fst e, true)) (map (fun t => (t, false)) (d_root d))), (d_root d), t.
    cbn [set_txn d_txn]. auto.
  - rewrite Hb. reflexivity.
  - change [OBegin [tab]; OChanges iid tab; OCommit sid] with ([OBegin [tab]] ++ [OChanges iid tab] ++ [OCommit sid]).
    rewrite !run_app, !run_single, Hb. cbn [step set_txn d_txn]. rewrite He, Ht. cbn [fst set_iters set_wm set_txn d_txn d_root].
    split; cbn [d_root d_txn]; [|discriminate].
    intros t' H. rewrite nth_error_zip_with in H.
    rewrite (nth_error_upd_nth_same _ _ _ _ He), Ht in H. injection H as <-.
    cbn [t_init t_trackers]. destruct (t_init t) as [[w [|]]|]; cbn [t_trackers]; apply in_or_app; right; left; reflexivity.
Qed.

(* ==== the run-level invariant ================================================================================== *)
Definition cop_okG (inn out : nat) (c : cop) : bool :=
  match c with
  | CUser o => uok out o
  | CDeriveStart i o => Nat.eqb i inn && Nat.eqb o out
  | _ => true
  end.

Lemma cop_okG_ok inn out cs : forallb (cop_okG inn out) cs = true -> forallb (cop_ok out) cs = true.
Proof.
  intros H. rewrite forallb_forall in *. intros c Hc. specialize (H c Hc). destruct c; cbn [cop_okG cop_ok] in *; auto.
  apply andb_true_iff in H. tauto.
Qed.

(* the loop has registered its iterator: the C07 usage hypotheses hold for the operations flattened so far *)
Definition registered (n inn : nat) (d : db) (ops : list op) : Prop :=
  exists pre post t0, ops = pre ++ OChanges derive_iid inn :: post /\ untouched pre = true /\
    created (fst (run (init_db n) pre)) derive_iid inn t0 /\
    (forall cur, nth_error (d_root (fst (run (init_db n) pre))) inn = Some cur -> ~ reg derive_iid cur) /\
    friendly_run derive_iid inn (fst (step (fst (run (init_db n) pre)) (OChanges derive_iid inn))) post /\
    tentryP inn TRp d.
Definition unregistered (inn : nat) (d : db) (ops : list op) : Prop := untouched ops = true /\ tentryP inn NTp d.

Definition is_reg (sd : option dstate) : bool :=
  match sd with Some ds => match dv_phase ds with DReg => false | _ => true end | None => false end.

Record GInv (n inn out : nat) (s : csys) (ops : list op) : Prop := mkGInv {
  g_db : cs_db s = fst (run (init_db n) ops);
  g_o : forall os, cs_o s = Some os -> ov_iid os = observe_iid;
  g_ids : forall ds, cs_d s = Some ds -> dv_in ds = inn /\ dv_out ds = out /\ dv_iid ds = derive_iid;
  g_st : if is_reg (cs_d s) then registered n inn (cs_db s) ops else unregistered inn (cs_db s) ops
}.

Lemma run_split_db n pre tab post :
  fst (run (init_db n) (pre ++ OChanges derive_iid tab :: post)) =
  fst (run (fst (step (fst (run (init_db n) pre)) (OChanges derive_iid tab))) post).
Proof.
  rewrite run_app. change (OChanges derive_iid tab :: post) with ([OChanges derive_iid tab] ++ post).
  rewrite run_app, run_single. reflexivity.
Qed.

(* a leg that does not use the loop's iterator and does not move the loop across its registration *)
Lemma GInv_leg n inn out s ops d' l sd so : (inn < n)%nat ->
  GInv n inn out s ops -> d' = fst (run (cs_db s) l) -> untouched l = true ->
  (tentryP inn TRp (cs_db s) -> friendly_run derive_iid inn (cs_db s) l) ->
  is_reg sd = is_reg (cs_d s) ->
  (forall ds, sd = Some ds -> dv_in ds = inn /\ dv_out ds = out /\ dv_iid ds = derive_iid) ->
  (forall os, so = Some os -> ov_iid os = observe_iid) ->
  GInv n inn out (mkCS d' sd so (cs_mode s)) (ops ++ l).
Proof.
  intros Hinn [I1 I2 I3 I4] -> Hu Hf Hr Hsd Hso. constructor; cbn [cs_db cs_d cs_o cs_mode]; auto.
  - rewrite run_app, <- I1. reflexivity.
  - rewrite Hr. destruct (is_reg (cs_d s)).
    + destruct I4 as [pre [post [t0 [E [U [C [F [R T]]]]]]]]. exists pre, (post ++ l), t0.
      split; [rewrite E, <- app_assoc; reflexivity|]. split; [exact U|]. split; [exact C|]. split; [exact F|].
      split; [|now apply run_TR].
      apply friendly_run_app. split; [exact R|]. rewrite <- run_split_db, <- E, <- I1. auto.
    + destruct I4 as [U T]. split; [|now apply run_NT]. unfold untouched in *. rewrite forallb_app, U, Hu. reflexivity.
Qed.

Definition qop (o : op) : bool := negb (touches derive_iid o) && af o.
Lemma qop_split l : forallb qop l = true -> untouched l = true /\ forallb af l = true.
Proof.
  induction l as [|o r IH]; cbn [forallb untouched]; [auto|]. unfold qop at 1. rewrite !andb_true_iff.
  intros [[A B] C]. destruct (IH C) as [D E]. unfold untouched in D. auto.
Qed.

Lemma GInv_qleg n inn out s ops d' l sd so : (inn < n)%nat ->
  GInv n inn out s ops -> d' = fst (run (cs_db s) l) -> forallb qop l = true ->
  is_reg sd = is_reg (cs_d s) ->
  (forall ds, sd = Some ds -> dv_in ds = inn /\ dv_out ds = out /\ dv_iid ds = derive_iid) ->
  (forall os, so = Some os -> ov_iid os = observe_iid) ->
  GInv n inn out (mkCS d' sd so (cs_mode s)) (ops ++ l).
Proof.
  intros Hinn HI Hd Hq. destruct (qop_split _ Hq) as [A B]. apply GInv_leg; auto. intros _. now apply af_friendly.
Qed.

Lemma GInv_same n inn out s ops sd so : (inn < n)%nat ->
  GInv n inn out s ops -> is_reg sd = is_reg (cs_d s) ->
  (forall ds, sd = Some ds -> dv_in ds = inn /\ dv_out ds = out /\ dv_iid ds = derive_iid) ->
  (forall os, so = Some os -> ov_iid os = observe_iid) ->
  GInv n inn out (mkCS (cs_db s) sd so (cs_mode s)) (ops ++ []).
Proof. intros Hinn HI. eapply GInv_qleg; eauto. Qed.

Lemma GInv_eta n inn out s ops : (inn < n)%nat -> GInv n inn out s ops -> GInv n inn out s (ops ++ []).
Proof.
  intros Hinn HI.
  pose proof (GInv_same n inn out s ops (cs_d s) (cs_o s) Hinn HI eq_refl (g_ids _ _ _ _ _ HI) (g_o _ _ _ _ _ HI)) as H.
  destruct s; exact H.
Qed.

Lemma GInv_observe_run n inn out s ops fuel os d acc d' os' ops' : (inn < n)%nat ->
  GInv n inn out s ops -> d = fst (run (cs_db s) acc) -> forallb qop acc = true ->
  ov_iid os = observe_iid -> observe_run fuel os d acc = (d', os', ops') ->
  GInv n inn out (mkCS d' (cs_d s) (Some os') (cs_mode s)) (ops ++ ops').
Proof.
  intros Hinn HI Hd Hacc Hid H.
  destruct (observe_run_ops qop fuel os d acc) as [ops1 [H1 [H2 [H3 _]]]]; [rewrite Hid; reflexivity|rewrite Hid; reflexivity|].
  rewrite H in H1, H3. cbn [fst snd] in H1, H3. subst ops'.
  eapply GInv_qleg; eauto.
  - eapply observe_run_run'; eauto.
  - rewrite forallb_app, Hacc, H2. reflexivity.
  - exact (g_ids _ _ _ _ _ HI).
  - intros os0 E. injection E as <-. congruence.
Qed.

(* the operations of an iteration after its Next *)
Lemma derive_iter_rest tr ds d d' ds' ops : derive_iter tr ds d = (d', ds', ops) -> dv_iid ds = derive_iid ->
  ops = [] \/ exists rest, ops = [OBegin [dv_out ds]; ONext derive_iid STxn None] ++ rest /\ forallb qop rest = true.
Proof.
  intros H Hi. destruct (derive_iter_shape _ _ _ _ _ _ H) as [[_ [_ [-> _]]]|
    [x [l [w [d2 [o2 [o3 [marked [initw [H1 [H2 [H3 [H4 [H5 ->]]]]]]]]]]]]]]; [auto|right].
  rewrite Hi. eexists. split; [reflexivity|]. rewrite !forallb_app.
  pose proof (apply_changes_dwrite tr (dv_out ds) l (fst (run d [OBegin [dv_out ds]; ONext (dv_iid ds) STxn None]))) as Hw.
  rewrite H2 in Hw. cbn [snd] in Hw.
  assert (Hq : forallb qop o2 = true).
  { rewrite forallb_forall in *. intros o Ho. specialize (Hw o Ho). destruct o; try discriminate; reflexivity. }
  rewrite Hq. cbn [andb].
  destruct (init_ops_cases _ _ _ _ _ H3) as [[_ [_ ->]]|[[_ [_ ->]]|[_ [_ [-> _]]]]]; reflexivity.
Qed.

Lemma GInv_cstep0 n inn out s ops c s' x ops1 : (inn < n)%nat ->
  GInv n inn out s ops -> cop_okG inn out c = true -> cstep0 s c = (s', x, ops1) -> GInv n inn out s' (ops ++ ops1).
Proof.
  intros Hinn HI Hc. pose proof HI as [I1 I2 I3 I4].
  assert (L : LInv n (cs_db s)) by (rewrite I1; apply LInv_run, LInv_init).
  destruct c; cbn [cstep0 cop_okG] in *.
  - (* CUser *)
    destruct (step (cs_db s) o) as [d' y] eqn:E. intros H; injection H as <- <- <-.
    eapply GInv_leg; eauto.
    + rewrite run_single, E. reflexivity.
    + unfold untouched. cbn [forallb]. unfold uok in Hc. apply andb_true_iff in Hc. destruct Hc as [_ ->]. reflexivity.
    + intros T. cbn [friendly_run]. split; [|exact I]. eapply user_friendly; eauto. now apply (LInv_root n).
  - (* CDeriveStart *)
    apply andb_true_iff in Hc. destruct Hc as [Hc1 Hc2]. apply Nat.eqb_eq in Hc1, Hc2. subst inn0 out0.
    destruct (cs_d s) eqn:Ed; [intros H; injection H as <- <- <-; now apply GInv_eta|].
    destruct (d_txn (cs_db s)); intros H; injection H as <- <- <-; [now apply GInv_eta|].
    eapply GInv_qleg; eauto; [rewrite Ed; reflexivity|intros ds E; injection E as <-; cbn; auto].
  - (* CDeriveGo *)
    destruct (cs_d s) as [ds|] eqn:Ed; [|intros H; injection H as <- <- <-; now apply GInv_eta].
    destruct (I3 _ eq_refl) as [Din [Do Di]].
    destruct (derive_go (tr_std (cs_mode s)) ds (cs_db s)) as [[[d' ds'] opsg] ran] eqn:E.
    intros H; injection H as <- <- <-. revert E. unfold derive_go.
    destruct (d_txn (cs_db s)) eqn:Et.
    { intros E; injection E as <- <- <- <-. eapply GInv_same; eauto. rewrite Ed. reflexivity. }
    destruct (negb (d_ready ds (cs_db s))).
    { intros E; injection E as <- <- <- <-. eapply GInv_same; eauto. rewrite Ed. reflexivity. }
    assert (Hiter : dv_phase ds <> DReg -> forall d1 ds1 o1, derive_iter (tr_std (cs_mode s)) ds (cs_db s) = (d1, ds1, o1) ->
              GInv n inn out (mkCS d1 (Some ds1) (cs_o s) (cs_mode s)) (ops ++ o1)).
    { intros Hph d1 ds1 o1 E.
      assert (Hids : dv_in ds1 = inn /\ dv_out ds1 = out /\ dv_iid ds1 = derive_iid).
      { destruct (derive_iter_ids (tr_std (cs_mode s)) ds (cs_db s)) as [A [B [C _]]]. rewrite E in A, B, C.
        cbn [fst snd] in A, B, C. repeat split; congruence. }
      assert (Hreg1 : is_reg (Some ds1) = true).
      { unfold derive_iter in E. destruct (run (cs_db s) [OBegin [dv_out ds]; ONext (dv_iid ds) STxn None]) as [dd outs].
        assert (Hd : (cs_db s, ds, @nil op) = (d1, ds1, o1) -> is_reg (Some ds1) = true).
        { intros K. injection K as _ <- _. cbn. destruct (dv_phase ds); congruence. }
        destruct outs as [|a [|b [|c0 outs]]]; try (exact (Hd E)); destruct b; try (exact (Hd E)).
        destruct (apply_changes (tr_std (cs_mode s)) (dv_out ds) dd l) as [d2 o2]. destruct (init_ops ds d2) as [[o3 mk] iw].
        assert (Hph1 : dv_phase ds1 = if watch_closed then DReady else DWait (match assoc (dv_iid ds) (d_iters (fst (run (fst (run d2 o3)) [OCommit (dv_sid ds)]))) with Some it => it_watchrev it | None => 0 end) iw).
        { remember (fst (run (fst (run d2 o3)) [OCommit (dv_sid ds)])) as d4. injection E as _ <- _. reflexivity. }
        cbn [is_reg]. rewrite Hph1. destruct watch_closed; reflexivity. }
      assert (Hreg0 : is_reg (cs_d s) = true) by (rewrite Ed; cbn; destruct (dv_phase ds); congruence).
      pose proof (derive_iter_run _ _ _ _ _ _ E) as Hd1.
      destruct (derive_iter_rest _ _ _ _ _ _ E Di) as [->|[rest [-> Hq]]].
      { subst d1. cbn [run fst]. eapply GInv_same; eauto; first [congruence|intros ds0 E0; injection E0 as <-; exact Hids]. }
      destruct (qop_split _ Hq) as [Ur Ar].
      constructor; cbn [cs_db cs_d cs_o cs_mode]; auto.
      - rewrite Hd1, (run_app (init_db n) ops), <- I1. reflexivity.
      - intros ds0 E0. injection E0 as <-. exact Hids.
      - rewrite Hreg1. rewrite <- Ed, Hreg0 in I4. destruct I4 as [pre [post [t0 [E0 [U [C [F [R T]]]]]]]].
        exists pre, (post ++ [OBegin [dv_out ds]; ONext derive_iid STxn None] ++ rest), t0.
        split; [rewrite E0, <- app_assoc; reflexivity|]. split; [exact U|]. split; [exact C|]. split; [exact F|].
        assert (Hroot : d_root (fst (step (cs_db s) (OBegin [dv_out ds]))) = d_root (cs_db s)).
        { cbn [step]. rewrite Et. reflexivity. }
        split.
        + apply friendly_run_app. split; [exact R|]. rewrite <- run_split_db, <- E0, <- I1.
          cbn [app friendly_run friendly]. split; [exact I|]. split.
          * intros _. split; [auto|]. destruct (LInv_root n _ inn L Hinn) as [cur Hcur].
            exists cur. rewrite Hroot. split; [exact Hcur|]. destruct T as [T1 _]. exact (T1 _ Hcur).
          * now apply af_friendly.
        + subst d1. change ([OBegin [dv_out ds]; ONext derive_iid STxn None] ++ rest)
            with ([OBegin [dv_out ds]] ++ [ONext derive_iid STxn None] ++ rest).
          rewrite !run_app, !run_single. apply run_TR; [exact Ur|].
          destruct (step_next_frame (fst (step (cs_db s) (OBegin [dv_out ds]))) derive_iid STxn None) as [A B].
          apply (tentryP_same inn TRp (fst (step (cs_db s) (OBegin [dv_out ds])))); auto.
          apply step_tentryP; auto; intros; discriminate. }
    destruct (dv_phase ds) eqn:Eph.
    + (* the registration leg *)
      intros E; injection E as <- <- <- <-.
      assert (Hreg0 : is_reg (cs_d s) = false) by (rewrite Ed; cbn; now rewrite Eph).
      rewrite <- Ed, Hreg0 in I4. destruct I4 as [U T].
      destruct (reg_leg_tracker n (cs_db s) inn derive_iid (dv_sid ds) L Et Hinn) as [[t0 Hcr] [Hroot Htr]].
      unfold derive_reg_ops. rewrite Din, Di.
      constructor; cbn [cs_db cs_d cs_o cs_mode]; auto.
      * rewrite run_app, <- I1. reflexivity.
      * intros ds0 E0. injection E0 as <-. cbn. auto.
      * cbn [is_reg set_phase dv_phase].
        exists (ops ++ [OBegin [inn]]), [OCommit (dv_sid ds)], t0.
        split; [rewrite <- app_assoc; reflexivity|].
        split; [unfold untouched in *; rewrite forallb_app, U; reflexivity|].
        rewrite run_app, <- I1, run_single.
        split; [exact Hcr|]. split; [|split; [cbn; auto|exact Htr]].
        intros cur Hcur. rewrite Hroot in Hcur. destruct T as [T1 _]. exact (T1 _ Hcur).
    + destruct (derive_iter (tr_std (cs_mode s)) ds (cs_db s)) as [[a b] e] eqn:E. intros H; injection H as <- <- <- <-.
      eapply Hiter; eauto. discriminate.
    + destruct (derive_iter (tr_std (cs_mode s)) ds (cs_db s)) as [[a b] e] eqn:E. intros H; injection H as <- <- <- <-.
      eapply Hiter; eauto. discriminate.
  - (* CDeriveStat *)
    destruct (cs_d s); intros H; injection H as <- <- <-; now apply GInv_eta.
  - (* CObserveStart *)
    destruct (cs_o s) eqn:Eo; intros H; injection H as <- <- <-; [now apply GInv_eta|].
    eapply GInv_same; eauto. intros os E. injection E as <-. reflexivity.
  - (* CObserveGo *)
    destruct (cs_o s) as [os|] eqn:Eo; [|intros H; injection H as <- <- <-; now apply GInv_eta].
    pose proof (I2 _ eq_refl) as Hid.
    destruct (observe_go os (cs_db s)) as [[[[d' os'] opsg] c] ran] eqn:E.
    intros H; injection H as <- <- <-. revert E. unfold observe_go.
    destruct (d_txn (cs_db s)).
    { intros E; injection E as <- <- <- <- <-. eapply GInv_same; eauto. }
    destruct (ov_phase os).
    + destruct (observe_run 4 os (fst (run (cs_db s) (observe_reg_ops os))) (observe_reg_ops os)) as [[a b] e] eqn:E.
      intros H; injection H as <- <- <- <- <-.
      eapply GInv_observe_run; eauto. unfold observe_reg_ops. rewrite Hid. reflexivity.
    + destruct (observe_run 4 (oset os (OWait 0)) (cs_db s) []) as [[a b] e] eqn:E.
      intros H; injection H as <- <- <- <- <-.
      eapply (GInv_observe_run n inn out s ops 4 (oset os (OWait 0)) (cs_db s) []); eauto.
    + intros E; injection E as <- <- <- <- <-. eapply GInv_same; eauto.
    + intros E; injection E as <- <- <- <- <-. eapply GInv_same; eauto.
  - (* CObserveCancel *)
    destruct (cs_o s) as [os|] eqn:Eo; [|intros H; injection H as <- <- <-; now apply GInv_eta].
    pose proof (I2 _ eq_refl) as Hid.
    destruct (observe_cancel os (cs_db s)) as [[[d' os'] opsg] ran] eqn:E.
    intros H; injection H as <- <- <-. revert E. unfold observe_cancel.
    destruct (d_txn (cs_db s)).
    { intros E; injection E as <- <- <- <-. eapply GInv_same; eauto. }
    destruct (ov_phase os); intros E; injection E as <- <- <- <-;
      try (eapply GInv_same; now eauto);
      (eapply GInv_qleg; eauto; [rewrite Hid; reflexivity|intros os0 E0; injection E0 as <-; exact Hid]).
  - (* CObserveStat *)
    destruct (cs_o s); intros H; injection H as <- <- <-; now apply GInv_eta.
Qed.

Lemma GInv_cstep n inn out s ops c s' x ops1 : (inn < n)%nat ->
  GInv n inn out s ops -> cop_okG inn out c = true -> cstep s c = (s', x, ops1) -> GInv n inn out s' (ops ++ ops1).
Proof.
  intros Hinn HI Hc. unfold cstep. destruct (cstep0 s c) as [[s1 y] o1] eqn:E0.
  pose proof (GInv_cstep0 n inn out s ops c s1 y o1 Hinn HI Hc E0) as H1.
  destruct (cs_o s1) as [os|] eqn:Eo; [|intros H; injection H as <- <- <-; exact H1].
  destruct (observe_wake os (cs_db s1)) as [[d' os'] o2] eqn:Ew. intros H; injection H as <- <- <-.
  rewrite app_assoc. revert Ew. unfold observe_wake. destruct (o_woken os (cs_db s1)).
  - intros Ew. eapply (GInv_observe_run n inn out s1 (ops ++ o1) 4 os (cs_db s1) []); eauto.
    exact (g_o _ _ _ _ _ H1 _ Eo).
  - intros Ew; injection Ew as <- <- <-. eapply GInv_same; eauto.
    + exact (g_ids _ _ _ _ _ H1).
    + intros os0 E. injection E as <-. exact (g_o _ _ _ _ _ H1 _ Eo).
Qed.

Lemma GInv_crun n inn out cs : (inn < n)%nat -> forall s ops s' outs ops1,
  GInv n inn out s ops -> forallb (cop_okG inn out) cs = true -> crun s cs = (s', outs, ops1) ->
  GInv n inn out s' (ops ++ ops1).
Proof.
  intros Hinn. induction cs as [|c r IH]; intros s ops s' outs ops1 HI Hc; cbn [crun].
  - intros H; injection H as <- <- <-. now apply GInv_eta.
  - cbn [forallb] in Hc. apply andb_true_iff in Hc. destruct Hc as [Hc Hr].
    destruct (cstep s c) as [[s1 x] o1] eqn:E1. destruct (crun s1 r) as [[s2 xs] o2] eqn:E2.
    intros H; injection H as <- <- <-. rewrite app_assoc.
    eapply IH; eauto. eapply GInv_cstep; eauto.
Qed.

Lemma GInv_init n inn out : GInv n inn out (init_csys n 0) [].
Proof.
  constructor; cbn; auto; try discriminate. split; [reflexivity|].
  split; cbn; [|discriminate]. intros t H. apply nth_error_In, repeat_spec in H. subst t. unfold NTp. cbn. tauto.
Qed.

(* the C07 usage hypotheses, for every run in which the harness obeys `uok` *)
Theorem derive_run_c07_hypotheses n inn out cs s outs ops ds :
  (inn < n)%nat -> forallb (cop_okG inn out) cs = true ->
  crun (init_csys n 0) cs = (s, outs, ops) -> cs_d s = Some ds -> dv_phase ds <> DReg ->
  exists pre post t0, ops = pre ++ OChanges derive_iid inn :: post /\
    forallb (fun o => negb (touches derive_iid o)) pre = true /\
    let dc := fst (run (init_db n) pre) in
    created dc derive_iid inn t0 /\
    (forall cur, nth_error (d_root dc) inn = Some cur -> ~ reg derive_iid cur) /\
    friendly_run derive_iid inn (fst (step dc (OChanges derive_iid inn))) post /\
    (* and the tracker is registered in the root: a Next of the loop's next iteration is friendly as well *)
    (d_txn (cs_db s) = None ->
     friendly_run derive_iid inn (fst (step dc (OChanges derive_iid inn)))
                  ((post ++ [OBegin [out]]) ++ [ONext derive_iid STxn None])).
Proof.
  intros Hinn Hc H Ed Hph. pose proof (GInv_crun n inn out cs Hinn _ [] _ _ _ (GInv_init n inn out) Hc H) as HI.
  cbn [app] in HI. destruct HI as [I1 _ _ I4]. rewrite Ed in I4. cbn [is_reg] in I4.
  destruct (dv_phase ds) eqn:Eph; [congruence| |];
    destruct I4 as [pre [post [t0 [E [U [C [F [R T]]]]]]]]; exists pre, post, t0; (split; [exact E|]); (split; [exact U|]);
    cbv zeta; (split; [exact C|]); (split; [exact F|]); (split; [exact R|]); intros Htx;
    rewrite <- app_assoc; apply friendly_run_app; (split; [exact R|]);
    rewrite <- run_split_db, <- E, <- I1; cbn [app friendly_run friendly]; (split; [exact I|]); (split; [|exact I]);
    intros _; (split; [auto|]);
    assert (L : LInv n (cs_db s)) by (rewrite I1; apply LInv_run, LInv_init);
    destruct (LInv_root n _ inn L Hinn) as [cur Hcur]; exists cur;
    (assert (Hroot : d_root (fst (step (cs_db s) (OBegin [out]))) = d_root (cs_db s)) by (cbn [step]; rewrite Htx; reflexivity));
    rewrite Hroot; (split; [exact Hcur|]); destruct T as [T1 _]; exact (T1 _ Hcur).
Qed.

(* G, with the usage hypotheses discharged: what remains is revision room on the flattened operations *)
Theorem derive_run_converges' n inn out cs s outs ops ds S s' x ops1 :
  (out < n)%nat -> (inn < n)%nat -> inn <> out -> forallb (cop_okG inn out) cs = true ->
  crun (init_csys n 0) cs = (s, outs, ops) ->
  cs_d s = Some ds -> dv_phase ds <> DReg -> d_txn (cs_db s) = None -> d_ready ds (cs_db s) = true ->
  next_source (fst (step (cs_db s) (OBegin [out]))) derive_iid STxn = Some S ->
  room_run (init_db n) (ops ++ [OBegin [out]; ONext derive_iid STxn None]) ->
  cstep s CDeriveGo = (s', x, ops1) ->
  exists tin' tout', nth_error (d_root (cs_db s')) inn = Some tin' /\ nth_error (d_root (cs_db s')) out = Some tout' /\
                     contents tout' = contents tin' /\ contents tin' = contents S.
Proof.
  intros Hout Hinn Hio Hc Hrun Ed Hph Htx Hrdy HS Hroom Hstep.
  destruct (derive_run_c07_hypotheses n inn out cs s outs ops ds Hinn Hc Hrun Ed Hph)
    as [pre [post [t0 [E [U [C [F [_ R]]]]]]]].
  pose proof (GInv_crun n inn out cs Hinn _ [] _ _ _ (GInv_init n inn out) Hc Hrun) as HI. cbn [app] in HI.
  destruct (g_ids _ _ _ _ _ HI _ Ed) as [Din _]. subst ops.
  assert (Hroom' : room_run (init_db n) (pre ++ OChanges derive_iid inn :: (post ++ [OBegin [out]]) ++ [ONext derive_iid STxn None])).
  { rewrite <- app_assoc in Hroom. cbn [app] in Hroom. rewrite <- app_assoc. cbn [app]. exact Hroom. }
  exact (derive_run_converges n inn out cs s outs pre post ds S t0 s' x ops1 Hout Hio (cop_okG_ok inn out cs Hc) Hrun U
           Ed Din Hph Htx Hrdy HS Hroom' C F (R Htx) Hstep).
Qed.

Example derive_run_converges'_nonvacuous :
  let r := crun (init_csys 2 0) cx_pre in
  let s := fst (fst r) in
  forallb (cop_okG 0 1) cx_pre = true /\
  cs_d s = Some cx_ds /\ d_txn (cs_db s) = None /\ d_ready cx_ds (cs_db s) = true /\
  (exists S, next_source (fst (step (cs_db s) (OBegin [1%nat]))) derive_iid STxn = Some S /\ contents S = [([98], 2)]) /\
  room_run (init_db 2) (snd r ++ [OBegin [1%nat]; ONext derive_iid STxn None]) /\
  map contents (d_root (cs_db (fst (fst (cstep s CDeriveGo))))) = [[([98], 2)]; [([98], 2)]].
Proof.
  cbv zeta. split; [vm_compute; reflexivity|]. split; [vm_compute; reflexivity|]. split; [vm_compute; reflexivity|].
  split; [vm_compute; reflexivity|]. split; [eexists; split; vm_compute; reflexivity|].
  split; [apply room_runb_ok; vm_compute; reflexivity|]. vm_compute; reflexivity.
Qed.
