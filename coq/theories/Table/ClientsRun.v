(* Table/ClientsRun.v — run-level theorems about the system of Table/Clients.v (`crun`):
   part F: the loop invariant of a MIRROR Derive over whole runs (any interleaving of harness operations that
           do not write the derived table and do not use the loop's iterator, of the loop itself, and of the
           observer): the derived table is the (key, value) projection of the replay of everything the loop's
           iterator has been handed.
   Parts G and H are in Table/ClientsRun2.v / ClientsRun3.v. *)
From Coq Require Import List NArith Bool Lia.
Import ListNotations.
From SV Require Import Base.Bytes Base.OrdMap KeyEnc.Model Table.Model Table.Proofs Table.InvDefs Table.Inv Table.Inv2
                       Table.GcProofs Table.ChangesStream Table.ChangesIter Table.ChangesProofs Table.ChangesRet
                       Table.ChangesHist Table.ChangesFromInit Table.Clients Table.ClientsProofs Table.ClientsProofs2.
Local Open Scope N_scope.

(* ==== lengths: every state reachable from init_db n has n tables, in the root, in the open transaction and in
        a pending collection (no hypothesis on revisions needed, unlike ChangesHist.wf) ========================= *)
Definition LInv (n : nat) (d : db) : Prop :=
  length (d_root d) = n /\
  (forall es old, d_txn d = Some (es, old) -> length es = n) /\
  (forall keys, d_gc d = GGate2 keys -> length keys = n).

Lemma with_locked_gc d tab f a b : d_gc (fst (with_locked d tab f a b)) = d_gc d.
Proof.
  unfold with_locked. destruct (d_txn d) as [[es old]|]; auto.
  destruct (nth_error es tab) as [[t [|]]|]; auto. destruct (f t); auto.
Qed.

Lemma step_gate2 d o keys : d_gc (fst (step d o)) = GGate2 keys ->
  d_gc d = GGate2 keys \/ keys = map (gc_scan_table (d_wm d)) (d_root d).
Proof.
  destruct o; cbn [step]; try (rewrite with_locked_gc; auto).
  - destruct (d_txn d); auto.
  - destruct (d_txn d) as [[es old]|]; auto.
    destruct (nth_error es tab) as [[t [|]]|]; try (rewrite with_locked_gc; auto).
    destruct (t_primary t); auto.
  - destruct (d_txn d) as [[es old]|]; auto.
  - destruct (d_txn d); auto.
  - auto.
  - destruct (src_root d s); auto. destruct (nth_error l tab); auto.
  - destruct (d_txn d) as [[es old]|]; auto.
    destruct (nth_error es tab) as [[t [|]]|]; auto. destruct (nth_error old tab); auto.
  - destruct (assoc iid (d_iters d)) as [it|]; auto.
    destruct (src_committed d s) as [rt|]; auto.
    destruct (nth_error rt (it_tab it)) as [t|]; auto.
    destruct (nth_error (d_root d) (it_tab it)) as [cur|]; auto.
    match goal with |- context [if ?c then _ else _] => destruct c end; auto.
    match goal with |- context [consume ?a ?b ?c ?dd ?e] =>
      pose proof (consume_gate2 b a c dd e keys) as Hg; destruct (consume a b c dd e) as [[x y] z] end.
    cbn [fst snd set_iters d_gc] in *. auto.
  - destruct (assoc iid (d_iters d)) as [it|]; auto.
    destruct (it_pending it) as [l|]; auto. destruct (it_seq it); auto.
    match goal with |- context [consume ?a ?b ?c ?dd ?e] =>
      pose proof (consume_gate2 b a c dd e keys) as Hg; destruct (consume a b c dd e) as [[x y] z] end.
    cbn [fst snd set_iters d_gc] in *. auto.
  - destruct (assoc iid (d_iters d)) as [it|]; auto. destruct (d_txn d); auto.
    cbn [fst]. intros H. apply gc_trigger_gate2 in H. cbn in H. auto.
  - destruct (d_gc d) eqn:Eg; cbn [fst]; try (rewrite Eg; auto).
    cbn [set_gc d_gc]. intros H. injection H as <-. auto.
  - destruct (d_gc d) eqn:Eg; cbn [fst]; try (rewrite Eg; auto). destruct (d_txn d); cbn [fst]; [rewrite Eg; auto|].
    cbn [fst]. unfold gc_settle. cbn. destruct (d_gcchan d); cbn; discriminate.
  - match goal with |- context [with_locked d tab ?f ?a ?b] =>
      pose proof (with_locked_gc d tab f a b) as Hw; destruct (with_locked d tab f a b) as [d' x] end.
    cbn [fst d_gc] in *. rewrite Hw. auto.
Qed.

Lemma LInv_init n : LInv n (init_db n).
Proof. split; [apply repeat_length|]. split; cbn; intros; discriminate. Qed.

Lemma LInv_step n d o : LInv n d -> LInv n (fst (step d o)).
Proof.
  intros [L1 [L2 L3]].
  assert (G : forall keys, d_gc (fst (step d o)) = GGate2 keys -> length keys = n).
  { intros keys H. destruct (step_gate2 _ _ _ H) as [H1| ->]; [eauto|now rewrite map_length]. }
  destruct (step_shape d o) as [H|es Ht Hm H|es old tab t t' Ht Hn Hu _ _ H|tab name es old t t' _ Ht Hn Hu H|tab name _ H
                               |sid es old _ Ht H|H|sid H|iid tab Ht H|keys Hg Ht H];
    apply core5_inv in H; destruct H as [R [T _]]; (split; [|split; [|exact G]]); rewrite ?R, ?T; auto.
  - intros es' old' E. injection E as <- _. rewrite <- L1, <- Hm. now rewrite map_length.
  - intros es' old' E. injection E as <- _. rewrite upd_nth_length. eauto.
  - intros es' old' E. injection E as <- _. rewrite upd_nth_length. eauto.
  - unfold commit_root. rewrite zip_with_length; auto. rewrite (L2 _ _ Ht). auto.
  - discriminate.
  - discriminate.
  - now rewrite upd_nth_length.
  - discriminate.
  - rewrite zip_with_length; auto. rewrite (L3 _ Hg). auto.
  - discriminate.
Qed.

Lemma LInv_run n ops : forall d, LInv n d -> LInv n (fst (run d ops)).
Proof.
  induction ops as [|o r IH]; intros d H; cbn [run]; [exact H|].
  specialize (IH _ (LInv_step n d o H)). destruct (step d o) as [d1 x]. cbn [fst] in *.
  destruct (run d1 r) as [d2 xs]. exact IH.
Qed.

Lemma LInv_root n d i : LInv n d -> (i < n)%nat -> exists t, nth_error (d_root d) i = Some t.
Proof.
  intros [L _] Hi. destruct (nth_error (d_root d) i) eqn:E; [eauto|]. apply nth_error_None in E. lia.
Qed.

(* ==== the frame: operations that are not writes of table `out` leave its primary index alone, in the root
        and in the open transaction ============================================================================== *)
Definition wtab (o : op) : option nat :=
  match o with
  | OInsert tab _ | OModify tab _ | OCas tab _ _ | ODelete tab _ | OCad tab _ _ | ODeleteAll tab => Some tab
  | _ => None
  end.
Definition nowrite (out : nat) (o : op) : bool :=
  match wtab o with Some tab => negb (Nat.eqb tab out) | None => true end.

Definition pentry (out : nat) (X : idx) (d : db) : Prop :=
  (forall t, nth_error (d_root d) out = Some t -> t_primary t = X) /\
  (forall es old te b, d_txn d = Some (es, old) -> nth_error es out = Some (te, b) -> t_primary te = X).

Lemma pentry_same out X d d' : d_root d' = d_root d -> d_txn d' = d_txn d -> pentry out X d -> pentry out X d'.
Proof. intros R T [P1 P2]. split; [rewrite R; exact P1|rewrite T; exact P2]. Qed.

Lemma pentry_upd out X d es old tab t t' :
  d_txn d = Some (es, old) -> nth_error es tab = Some (t, true) -> (tab = out -> t_primary t' = t_primary t) ->
  pentry out X d -> pentry out X (set_txn d (Some (upd_nth tab (fun _ => (t', true)) es, old))).
Proof.
  intros Ht Hn Hp [P1 P2]. split; [exact P1|]. cbn [set_txn d_txn]. intros es' old' te b E H. injection E as <- _.
  destruct (Nat.eq_dec tab out) as [->|Hne].
  - rewrite (nth_error_upd_nth_same _ _ _ _ Hn) in H. injection H as <- _. rewrite Hp by reflexivity. eauto.
  - rewrite nth_error_upd_nth_other in H by exact Hne. eauto.
Qed.

Lemma pentry_with_locked out X d tab f a b :
  (tab = out -> forall t, t_primary (fst (f t)) = t_primary t) ->
  pentry out X d -> pentry out X (fst (with_locked d tab f a b)).
Proof.
  intros Hf HP. destruct (with_locked_cases d tab f a b) as [->|[es [old [t [E1 [E2 ->]]]]]]; [exact HP|].
  eapply pentry_upd; eauto.
Qed.

Lemma step_pentry out X d o : nowrite out o = true -> pentry out X d -> pentry out X (fst (step d o)).
Proof.
  intros Hw HP.
  assert (Hne : forall tab, wtab o = Some tab -> tab = out -> forall P : Prop, P).
  { intros tab E -> P. unfold nowrite in Hw. rewrite E, Nat.eqb_refl in Hw. discriminate. }
  destruct o; cbn [step];
    try (apply pentry_with_locked; [|exact HP]; intros E; exact (Hne _ eq_refl E _)).
  - (* OBegin *)
    destruct (d_txn d) eqn:Et; [exact HP|]. cbn [fst]. destruct HP as [P1 P2]. split; [exact P1|].
    cbn [set_txn d_txn]. intros es old te b E H. injection E as <- _.
    rewrite begin_entries, nth_error_map in H. destruct (nth_error (d_root d) out) as [t|] eqn:En; [|discriminate].
    cbn in H. injection H as <- _. auto.
  - (* ODeleteAll *)
    destruct (d_txn d) as [[es old]|] eqn:Et; [|exact HP].
    destruct (nth_error es tab) as [[t [|]]|] eqn:E2;
      try (apply pentry_with_locked; [|exact HP]; intros E; exact (Hne _ eq_refl E _)).
    destruct (t_primary t); exact HP.
  - (* OCommit *)
    destruct (d_txn d) as [[es old]|] eqn:Et; [|exact HP]. cbn [fst]. destruct HP as [P1 P2].
    split; cbn [d_root d_txn]; [|discriminate].
    intros t H. rewrite nth_error_zip_with in H.
    destruct (nth_error es out) as [[te b]|] eqn:En; [|discriminate].
    destruct (nth_error (d_root d) out) as [cur|] eqn:Ec; [|discriminate]. injection H as <-.
    destruct b; [|auto]. rewrite <- (P2 _ _ _ _ Et En). destruct (t_init te) as [[w [|]]|]; reflexivity.
  - (* OAbort *)
    destruct (d_txn d); [|exact HP]. cbn [fst]. destruct HP as [P1 _]. split; [exact P1|discriminate].
  - (* OSnap *) apply (pentry_same out X d); auto.
  - (* OQuery *) destruct (src_root d s); [|exact HP]. destruct (nth_error l tab); exact HP.
  - (* OChanges *)
    destruct (d_txn d) as [[es old]|] eqn:Et; [|exact HP].
    destruct (nth_error es tab) as [[t [|]]|] eqn:E2; try exact HP.
    destruct (nth_error old tab); [|exact HP]. cbn [fst].
    match goal with |- pentry out X (set_iters (set_wm ?dd _) _) => apply (pentry_same out X dd); auto end.
    eapply pentry_upd; eauto.
  - (* ONext *)
    destruct (step_next_frame d iid s take) as [A B]. apply (pentry_same out X d); auto.
  - (* OResume *)
    destruct (assoc iid (d_iters d)) as [it|]; [|exact HP].
    destruct (it_pending it) as [l|]; [|exact HP]. destruct (it_seq it); [|exact HP].
    match goal with |- context [consume ?a ?b ?c ?dd ?e] =>
      pose proof (consume_frame b a c dd e) as Hc; destruct (consume a b c dd e) as [[x y] z] end.
    cbn [fst snd] in *. destruct Hc as [A [B _]]. apply (pentry_same out X d); auto.
  - (* OClose *)
    destruct (assoc iid (d_iters d)) as [it|]; [|exact HP]. destruct (d_txn d) eqn:Et; [exact HP|]. cbn [fst].
    match goal with |- pentry out X (gc_trigger ?x) => destruct (gc_trigger_frame x) as [A [B _]] end.
    destruct HP as [P1 P2]. split.
    + rewrite A. cbn [set_iters set_root d_root]. intros t H.
      destruct (Nat.eq_dec (it_tab it) out) as [<-|Hn].
      * destruct (nth_error (d_root d) (it_tab it)) as [cur|] eqn:Ec.
        -- rewrite (nth_error_upd_nth_same _ _ _ _ Ec) in H. injection H as <-. cbn [t_primary]. auto.
        -- rewrite nth_error_upd_nth_none in H by exact Ec. congruence.
      * rewrite nth_error_upd_nth_other in H by exact Hn. auto.
    + rewrite B. cbn [set_iters set_root d_txn]. rewrite Et. discriminate.
  - (* OGcScan *) destruct (d_gc d); exact HP.
  - (* OGcApply *)
    destruct (d_gc d) eqn:Eg; try exact HP. destruct (d_txn d) eqn:Et; [exact HP|]. cbn [fst].
    destruct HP as [P1 P2]. split.
    + assert (R : d_root (gc_settle (set_gc (set_root d (zip_with gc_apply_table keys (d_root d))) GIdle)) =
                  zip_with gc_apply_table keys (d_root d)).
      { unfold gc_settle. cbn. destruct (d_gcchan d); reflexivity. }
      rewrite R. intros t H. rewrite nth_error_zip_with in H.
      destruct (nth_error keys out) as [ks|]; [|discriminate].
      destruct (nth_error (d_root d) out) as [cur|] eqn:Ec; [|discriminate]. injection H as <-.
      destruct (gc_apply_frame ks cur) as [_ [E _]]. rewrite E. auto.
    + assert (T : d_txn (gc_settle (set_gc (set_root d (zip_with gc_apply_table keys (d_root d))) GIdle)) = None).
      { unfold gc_settle. cbn. destruct (d_gcchan d); cbn; exact Et. }
      rewrite T. discriminate.
  - (* ORegInit *)
    match goal with |- context [with_locked d tab ?f ?a ?b] =>
      assert (Hq : pentry out X (fst (with_locked d tab f a b)));
      [apply pentry_with_locked; [|exact HP]|destruct (with_locked d tab f a b) as [d' x]] end.
    + intros _ t. destruct (t_init t) as [[w p]|]; [destruct (existsb (N.eqb name) p)|]; reflexivity.
    + cbn [fst] in *. exact Hq.
  - (* OInitDone *)
    apply pentry_with_locked; [|exact HP]. intros _ t. destruct (t_init t) as [[w p]|]; reflexivity.
Qed.

Lemma run_pentry out X l : forall d, forallb (nowrite out) l = true -> pentry out X d -> pentry out X (fst (run d l)).
Proof.
  induction l as [|o r IH]; intros d H HP; cbn [run]; [exact HP|].
  cbn [forallb] in H. apply andb_true_iff in H. destruct H as [Ho Hr].
  specialize (IH _ Hr (step_pentry out X d o Ho HP)). destruct (step d o) as [d1 x]. cbn [fst] in *.
  destruct (run d1 r) as [d2 xs]. exact IH.
Qed.

(* ==== F. the invariant ========================================================================================= *)
(* (key, value) view of a primary index: contents t = cv (t_primary t) *)
Definition cv (X : idx) : list (bytes * N) := map (fun kv => (fst kv, p_val (o_data (snd kv)))) X.

(* "table `out` is, in the root and in the open transaction, the projection of the replay of dlv" *)
Definition FI (out : nat) (d : db) (dlv : list (object * bool)) : Prop :=
  exists X, pentry out X d /\ om_sorted X /\ cv X = cproj (replay dlv).

(* what the harness may do: anything but write operations on the derived table and operations on the loop's
   iterator id. (Locking the derived table, registering initializers on it, other iterators on it, snapshots,
   aborts, collection runs are all allowed.) *)
Definition uok (out : nat) (o : op) : bool := nowrite out o && negb (touches derive_iid o).

Definition cop_ok (out : nat) (c : cop) : bool :=
  match c with
  | CUser o => uok out o
  | CDeriveStart _ o => Nat.eqb o out
  | _ => true                                  (* the loop, and the observer on any table, the derived one included *)
  end.

Lemma uok_split out l : forallb (uok out) l = true ->
  forallb (nowrite out) l = true /\ forallb (fun o => negb (touches derive_iid o)) l = true.
Proof.
  induction l as [|o r IH]; cbn [forallb]; [auto|]. unfold uok at 1. rewrite !andb_true_iff.
  intros [[A B] C]. destruct (IH C). auto.
Qed.

Lemma FI_quiet out d dlv l : forallb (nowrite out) l = true -> FI out d dlv -> FI out (fst (run d l)) dlv.
Proof. intros H [X [P [S C]]]. exists X. split; [now apply run_pentry|auto]. Qed.

(* the operations one run of the observer goroutine executes *)
Lemma observe_run_ops (P : op -> bool) fuel : forall os d acc,
  P (OResume (ov_iid os) (Some 1%nat)) = true -> P (ONext (ov_iid os) SFresh (Some 1%nat)) = true ->
  exists ops1, snd (observe_run fuel os d acc) = acc ++ ops1 /\ forallb P ops1 = true /\
               ov_iid (snd (fst (observe_run fuel os d acc))) = ov_iid os /\
               ov_tab (snd (fst (observe_run fuel os d acc))) = ov_tab os.
Proof.
  induction fuel as [|f IH]; intros os d acc P1 P2; cbn [observe_run].
  - exists []. rewrite app_nil_r. cbn. auto.
  - set (b := match assoc (ov_iid os) (d_iters d) with
              | Some it => it_seq it && match it_pending it with Some _ => true | None => false end
              | None => false end).
    set (o := if b then OResume (ov_iid os) (Some 1%nat) else ONext (ov_iid os) SFresh (Some 1%nat)).
    assert (Po : P o = true) by (unfold o; destruct b; assumption).
    destruct (step d o) as [d1 out] eqn:E.
    assert (Hdef : forall ph, exists ops1, snd (d1, oset os ph, acc ++ [o]) = acc ++ ops1 /\ forallb P ops1 = true /\
               ov_iid (snd (fst (d1, oset os ph, acc ++ [o]))) = ov_iid os /\
               ov_tab (snd (fst (d1, oset os ph, acc ++ [o]))) = ov_tab os).
    { intros ph. exists [o]. cbn [fst snd forallb]. rewrite Po. auto. }
    assert (Hdef' : exists ops1, snd (d1, os, acc ++ [o]) = acc ++ ops1 /\ forallb P ops1 = true /\
               ov_iid (snd (fst (d1, os, acc ++ [o]))) = ov_iid os /\
               ov_tab (snd (fst (d1, os, acc ++ [o]))) = ov_tab os).
    { exists [o]. cbn [fst snd forallb]. rewrite Po. auto. }
    destruct out; try exact Hdef'.
    destruct l as [|c l]; [|apply Hdef].
    destruct watch_closed; [|apply Hdef].
    destruct (IH os d1 (acc ++ [o]) P1 P2) as [ops1 [H1 [H2 [H3 H4]]]].
    exists (o :: ops1). rewrite H1, <- app_assoc. cbn [forallb app]. rewrite Po, H2. auto.
Qed.

(* an iteration changes only the phase and the marked flag of the loop's state *)
Lemma derive_iter_ids tr ds d :
  let ds' := snd (fst (derive_iter tr ds d)) in
  dv_out ds' = dv_out ds /\ dv_iid ds' = dv_iid ds /\ dv_in ds' = dv_in ds /\ dv_name ds' = dv_name ds /\
  dv_sid ds' = dv_sid ds.
Proof.
  unfold derive_iter. destruct (run d [OBegin [dv_out ds]; ONext (dv_iid ds) STxn None]) as [d1 outs].
  destruct outs as [|x [|y [|z r]]]; try destruct y; cbn [fst snd]; try (repeat split; reflexivity).
  destruct (apply_changes tr (dv_out ds) d1 l) as [d2 o2]. destruct (init_ops ds d2) as [[o3 m] iw].
  cbn [fst snd set_phase dv_out dv_iid dv_in dv_name dv_sid]. repeat split; reflexivity.
Qed.

Record RInvF (n out : nat) (s : csys) (ops : list op) : Prop := mkRInvF {
  rf_db : cs_db s = fst (run (init_db n) ops);
  rf_mode : cs_mode s = 0;
  rf_d : forall ds, cs_d s = Some ds -> dv_out ds = out /\ dv_iid ds = derive_iid;
  rf_o : forall os, cs_o s = Some os -> ov_iid os = observe_iid;
  rf_fi : FI out (cs_db s) (delivered derive_iid (init_db n) ops)
}.

Lemma RInvF_leg n out s ops d' l sd so :
  RInvF n out s ops -> d' = fst (run (cs_db s) l) ->
  forallb (nowrite out) l = true -> delivered derive_iid (cs_db s) l = [] ->
  (forall ds, sd = Some ds -> dv_out ds = out /\ dv_iid ds = derive_iid) ->
  (forall os, so = Some os -> ov_iid os = observe_iid) ->
  RInvF n out (mkCS d' sd so (cs_mode s)) (ops ++ l).
Proof.
  intros [I1 I2 I3 I4 I5] -> Hw Hd Hsd Hso. constructor; cbn [cs_db cs_mode cs_d cs_o]; auto.
  - rewrite run_app, <- I1. reflexivity.
  - rewrite delivered_app, <- I1, Hd, app_nil_r. now apply FI_quiet.
Qed.

Lemma RInvF_uok n out s ops d' l sd so :
  RInvF n out s ops -> d' = fst (run (cs_db s) l) -> forallb (uok out) l = true ->
  (forall ds, sd = Some ds -> dv_out ds = out /\ dv_iid ds = derive_iid) ->
  (forall os, so = Some os -> ov_iid os = observe_iid) ->
  RInvF n out (mkCS d' sd so (cs_mode s)) (ops ++ l).
Proof.
  intros HI Hd Hu. destruct (uok_split _ _ Hu) as [A B].
  apply RInvF_leg; auto. now apply delivered_untouched.
Qed.

Lemma observe_uok out os : ov_iid os = observe_iid ->
  uok out (OResume (ov_iid os) (Some 1%nat)) = true /\ uok out (ONext (ov_iid os) SFresh (Some 1%nat)) = true.
Proof. intros ->. split; reflexivity. Qed.

(* one run of the observer goroutine, seen from the Derive invariant *)
Lemma RInvF_observe_run n out s ops fuel os d acc d' os' ops' sd :
  RInvF n out s ops -> d = fst (run (cs_db s) acc) -> forallb (uok out) acc = true ->
  ov_iid os = observe_iid -> observe_run fuel os d acc = (d', os', ops') ->
  (forall ds, sd = Some ds -> dv_out ds = out /\ dv_iid ds = derive_iid) ->
  RInvF n out (mkCS d' sd (Some os') (cs_mode s)) (ops ++ ops').
Proof.
  intros HI Hd Hacc Hid H Hsd. destruct (observe_uok out os Hid) as [U1 U2].
  destruct (observe_run_ops (uok out) fuel os d acc U1 U2) as [ops1 [H1 [H2 [H3 _]]]].
  rewrite H in H1, H3. cbn [fst snd] in H1, H3. subst ops'.
  eapply RInvF_uok; eauto.
  - eapply observe_run_run'; eauto.
  - rewrite forallb_app, Hacc, H2. reflexivity.
  - intros os0 E. injection E as <-. congruence.
Qed.

Lemma RInvF_same n out s ops sd so :
  RInvF n out s ops ->
  (forall ds, sd = Some ds -> dv_out ds = out /\ dv_iid ds = derive_iid) ->
  (forall os, so = Some os -> ov_iid os = observe_iid) ->
  RInvF n out (mkCS (cs_db s) sd so (cs_mode s)) (ops ++ []).
Proof. intros HI A B. eapply RInvF_uok; eauto. Qed.

Lemma RInvF_eta n out s ops : RInvF n out s ops -> RInvF n out s (ops ++ []).
Proof.
  intros HI. pose proof (RInvF_same n out s ops (cs_d s) (cs_o s) HI (rf_d _ _ _ _ HI) (rf_o _ _ _ _ HI)) as H.
  destruct s; exact H.
Qed.

Lemma RInvF_cstep0 n out s ops c s' x ops1 : (out < n)%nat ->
  RInvF n out s ops -> cop_ok out c = true -> cstep0 s c = (s', x, ops1) -> RInvF n out s' (ops ++ ops1).
Proof.
  intros Hout HI Hc. pose proof HI as [I1 I2 I3 I4 I5]. destruct c; cbn [cstep0 cop_ok] in *.
  - (* CUser *)
    destruct (step (cs_db s) o) as [d' y] eqn:E. intros H; injection H as <- <- <-.
    eapply RInvF_uok; eauto.
    + rewrite run_single, E. reflexivity.
    + cbn [forallb]. now rewrite Hc.
  - (* CDeriveStart *)
    apply Nat.eqb_eq in Hc. subst out0.
    destruct (cs_d s) eqn:Ed; [intros H; injection H as <- <- <-; now apply RInvF_eta|].
    destruct (d_txn (cs_db s)); intros H; injection H as <- <- <-; [now apply RInvF_eta|].
    eapply RInvF_uok; eauto.
    intros ds E. injection E as <-. cbn. auto.
  - (* CDeriveGo *)
    destruct (cs_d s) as [ds|] eqn:Ed; [|intros H; injection H as <- <- <-; now apply RInvF_eta].
    destruct (I3 _ eq_refl) as [Do Di].
    destruct (derive_go (tr_std (cs_mode s)) ds (cs_db s)) as [[[d' ds'] opsg] ran] eqn:E.
    intros H; injection H as <- <- <-. revert E. unfold derive_go.
    destruct (d_txn (cs_db s)) eqn:Et.
    { intros E; injection E as <- <- <- <-. eapply RInvF_same; eauto. }
    destruct (negb (d_ready ds (cs_db s))).
    { intros E; injection E as <- <- <- <-. eapply RInvF_same; eauto. }
    assert (Hiter : forall d1 ds1 o1, derive_iter (tr_std (cs_mode s)) ds (cs_db s) = (d1, ds1, o1) ->
              RInvF n out (mkCS d1 (Some ds1) (cs_o s) (cs_mode s)) (ops ++ o1)).
    { intros d1 ds1 o1 E. rewrite I2 in E.
      destruct I5 as [X [[P1 P2] [SX CX]]].
      destruct (LInv_root n (cs_db s) out) as [tout Htout]; [rewrite I1; apply LInv_run, LInv_init|exact Hout|].
      pose proof (P1 _ Htout) as EX.
      assert (Hds1 : dv_out ds1 = out /\ dv_iid ds1 = derive_iid).
      { destruct (derive_iter_ids (tr_std 0) ds (cs_db s)) as [A [B _]]. rewrite E in A, B. cbn [fst snd] in A, B.
        split; congruence. }
      rewrite I1 in Et, Htout, E.
      destruct (derive_mirror_step ds (init_db n) ops tout d1 ds1 o1 Et) as [A [B [[tout' [C1 [C2 C3]]] _]]]; auto.
      { rewrite Do. exact Htout. }
      { now rewrite EX. }
      { rewrite Di. unfold contents. rewrite EX. exact CX. }
      constructor; cbn [cs_db cs_mode cs_d cs_o]; auto.
      - intros ds0 E0. injection E0 as <-. exact Hds1.
      - exists (t_primary tout'). rewrite Di in C3. rewrite Do in C1. split; [|split; auto].
        split; [intros t Ht; congruence|]. rewrite B. discriminate. }
    destruct (dv_phase ds).
    + intros E; injection E as <- <- <- <-. eapply RInvF_leg; eauto.
      intros ds0 E0. injection E0 as <-. cbn. auto.
    + destruct (derive_iter (tr_std (cs_mode s)) ds (cs_db s)) as [[a b] e] eqn:E. intros H; injection H as <- <- <- <-.
      eapply Hiter; eauto.
    + destruct (derive_iter (tr_std (cs_mode s)) ds (cs_db s)) as [[a b] e] eqn:E. intros H; injection H as <- <- <- <-.
      eapply Hiter; eauto.
  - (* CDeriveStat *)
    destruct (cs_d s); intros H; injection H as <- <- <-; now apply RInvF_eta.
  - (* CObserveStart *)
    destruct (cs_o s) eqn:Eo; intros H; injection H as <- <- <-; [now apply RInvF_eta|].
    eapply RInvF_same; eauto. intros os E. injection E as <-. reflexivity.
  - (* CObserveGo *)
    destruct (cs_o s) as [os|] eqn:Eo; [|intros H; injection H as <- <- <-; now apply RInvF_eta].
    pose proof (I4 _ eq_refl) as Hid.
    destruct (observe_go os (cs_db s)) as [[[[d' os'] opsg] c] ran] eqn:E.
    intros H; injection H as <- <- <-. revert E. unfold observe_go.
    destruct (d_txn (cs_db s)).
    { intros E; injection E as <- <- <- <- <-. eapply RInvF_same; eauto. }
    destruct (ov_phase os).
    + destruct (observe_run 4 os (fst (run (cs_db s) (observe_reg_ops os))) (observe_reg_ops os)) as [[a b] e] eqn:E.
      intros H; injection H as <- <- <- <- <-.
      eapply RInvF_observe_run; eauto. unfold observe_reg_ops. rewrite Hid. reflexivity.
    + destruct (observe_run 4 (oset os (OWait 0)) (cs_db s) []) as [[a b] e] eqn:E.
      intros H; injection H as <- <- <- <- <-.
      change e with ([] ++ e) at 1. eapply (RInvF_observe_run n out s ops 4 (oset os (OWait 0)) (cs_db s) []); eauto.
    + intros E; injection E as <- <- <- <- <-. eapply RInvF_same; eauto.
    + intros E; injection E as <- <- <- <- <-. eapply RInvF_same; eauto.
  - (* CObserveCancel *)
    destruct (cs_o s) as [os|] eqn:Eo; [|intros H; injection H as <- <- <-; now apply RInvF_eta].
    pose proof (I4 _ eq_refl) as Hid.
    destruct (observe_cancel os (cs_db s)) as [[[d' os'] opsg] ran] eqn:E.
    intros H; injection H as <- <- <-. revert E. unfold observe_cancel.
    destruct (d_txn (cs_db s)).
    { intros E; injection E as <- <- <- <-. eapply RInvF_same; eauto. }
    destruct (ov_phase os); intros E; injection E as <- <- <- <-;
      try (eapply RInvF_same; now eauto);
      (eapply RInvF_uok; eauto; [rewrite Hid; reflexivity|intros os0 E0; injection E0 as <-; exact Hid]).
  - (* CObserveStat *)
    destruct (cs_o s); intros H; injection H as <- <- <-; now apply RInvF_eta.
Qed.

Lemma RInvF_cstep n out s ops c s' x ops1 : (out < n)%nat ->
  RInvF n out s ops -> cop_ok out c = true -> cstep s c = (s', x, ops1) -> RInvF n out s' (ops ++ ops1).
Proof.
  intros Hout HI Hc. unfold cstep. destruct (cstep0 s c) as [[s1 y] o1] eqn:E0.
  pose proof (RInvF_cstep0 n out s ops c s1 y o1 Hout HI Hc E0) as H1.
  destruct (cs_o s1) as [os|] eqn:Eo; [|intros H; injection H as <- <- <-; exact H1].
  destruct (observe_wake os (cs_db s1)) as [[d' os'] o2] eqn:Ew. intros H; injection H as <- <- <-.
  rewrite app_assoc. revert Ew. unfold observe_wake. destruct (o_woken os (cs_db s1)).
  - intros Ew. change o2 with ([] ++ o2).
    eapply (RInvF_observe_run n out s1 (ops ++ o1) 4 os (cs_db s1) []); eauto.
    + exact (rf_o _ _ _ _ H1 _ Eo).
    + exact (rf_d _ _ _ _ H1).
  - intros Ew; injection Ew as <- <- <-. eapply RInvF_same; eauto.
    + exact (rf_d _ _ _ _ H1).
    + intros os0 E. injection E as <-. exact (rf_o _ _ _ _ H1 _ Eo).
Qed.

Lemma RInvF_crun n out cs : (out < n)%nat -> forall s ops s' outs ops1,
  RInvF n out s ops -> forallb (cop_ok out) cs = true -> crun s cs = (s', outs, ops1) -> RInvF n out s' (ops ++ ops1).
Proof.
  intros Hout. induction cs as [|c r IH]; intros s ops s' outs ops1 HI Hc; cbn [crun].
  - intros H; injection H as <- <- <-. now apply RInvF_eta.
  - cbn [forallb] in Hc. apply andb_true_iff in Hc. destruct Hc as [Hc Hr].
    destruct (cstep s c) as [[s1 x] o1] eqn:E1. destruct (crun s1 r) as [[s2 xs] o2] eqn:E2.
    intros H; injection H as <- <- <-. rewrite app_assoc.
    eapply IH; eauto. eapply RInvF_cstep; eauto.
Qed.

Lemma RInvF_init n out : (out < n)%nat -> RInvF n out (init_csys n 0) [].
Proof.
  intros Hout. constructor; cbn; auto; try discriminate.
  exists []. split; [|split; [exact I|reflexivity]].
  split; cbn; [|discriminate]. intros t H. apply nth_error_In, repeat_spec in H. subst t. reflexivity.
Qed.

(* F, main statement. `ops` = the operations the run executed (crun_is_run: the database is `run (init_db n) ops`).
   The derived table is, at every point of the run (whatever the loop's phase, whether or not the harness holds
   a transaction, also before Derive has been started: then nothing has been delivered and the table is empty),
   the (key, value) projection of the replay of everything iterator derive_iid has been handed. *)
Theorem derive_run_invariant n out cs s outs ops :
  (out < n)%nat -> forallb (cop_ok out) cs = true ->
  crun (init_csys n 0) cs = (s, outs, ops) ->
  cs_db s = fst (run (init_db n) ops) /\
  exists tout, nth_error (d_root (cs_db s)) out = Some tout /\ om_sorted (t_primary tout) /\
               contents tout = cproj (replay (delivered derive_iid (init_db n) ops)).
Proof.
  intros Hout Hc H. pose proof (RInvF_crun n out cs Hout _ [] _ _ _ (RInvF_init n out Hout) Hc H) as [I1 _ _ _ I5].
  cbn [app] in *. split; [exact I1|].
  destruct (LInv_root n (cs_db s) out) as [tout Htout]; [rewrite I1; apply LInv_run, LInv_init|exact Hout|].
  destruct I5 as [X [[P1 _] [SX CX]]]. exists tout. split; [exact Htout|]. unfold contents. rewrite (P1 _ Htout). split; [exact SX|exact CX].
Qed.

(* the same, in the form "split at the loop's OChanges": before it nothing touches the iterator id, and what has
   been delivered is what has been delivered after it *)
Lemma delivered_split iid d pre tab post :
  forallb (fun o => negb (touches iid o)) pre = true ->
  delivered iid d (pre ++ OChanges iid tab :: post) =
  delivered iid (fst (step (fst (run d pre)) (OChanges iid tab))) post.
Proof.
  intros H. rewrite delivered_app, (delivered_untouched _ _ _ H). cbn [app delivered]. reflexivity.
Qed.

Corollary derive_run_invariant_split n out cs s outs pre tab post :
  (out < n)%nat -> forallb (cop_ok out) cs = true ->
  crun (init_csys n 0) cs = (s, outs, pre ++ OChanges derive_iid tab :: post) ->
  forallb (fun o => negb (touches derive_iid o)) pre = true ->
  let d0 := fst (step (fst (run (init_db n) pre)) (OChanges derive_iid tab)) in
  cs_db s = fst (run d0 post) /\
  exists tout, nth_error (d_root (cs_db s)) out = Some tout /\ om_sorted (t_primary tout) /\
               contents tout = cproj (replay (delivered derive_iid d0 post)).
Proof.
  intros Hout Hc H Hpre d0. destruct (derive_run_invariant n out cs s outs _ Hout Hc H) as [A [tout [B [C D]]]].
  split.
  - rewrite A, run_app. change (OChanges derive_iid tab :: post) with ([OChanges derive_iid tab] ++ post).
    rewrite run_app, run_single. reflexivity.
  - exists tout. split; [exact B|]. split; [exact C|]. rewrite D, delivered_split by exact Hpre. reflexivity.
Qed.

(* the hypotheses are satisfiable, and the run is not trivial: the harness locks the derived table and registers
   an initializer on it, aborts, snapshots, runs the collector; an observer watches the DERIVED table; the loop
   runs four times *)
Definition fx_run : list cop :=
  cx_pre ++ [CObserveStart 1; CObserveGo; CDeriveGo; CObserveGo; CDeriveGo;
             CUser (OBegin [1%nat; 0%nat]); CUser (ORegInit 1 7); CUser (OInsert 0 (cx_pa 9)); CUser OAbort;
             CUser (OSnap 3); CUser OGcScan; CUser OGcApply;
             CUser (OBegin [0%nat]); CUser (OInsert 0 (cx_pa 5)); CUser (OCommit 4); CDeriveGo; CObserveGo].

Example derive_run_invariant_nonvacuous :
  forallb (cop_ok 1) fx_run = true /\
  (let '(s, outs, ops) := crun (init_csys 2 0) fx_run in
   length ops = 49%nat /\
   map contents (d_root (cs_db s)) = [[([97], 5); ([98], 2)]; [([97], 5); ([98], 2)]] /\
   cproj (replay (delivered derive_iid (init_db 2) ops)) = [([97], 5); ([98], 2)] /\
   length (delivered derive_iid (init_db 2) ops) = 4%nat).
Proof. vm_compute. repeat split; reflexivity. Qed.
