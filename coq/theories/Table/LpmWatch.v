(* Table/LpmWatch.v — C06, the watch-channel mechanism of LPM indexes (lpm_index.go).

   An LPM index hands out ONE channel per committed index version: every query on `lpmIndex` returns
   `l.watch`, every query on an `lpmIndexTxn` (the same index inside an open WriteTxn) returns `l.index.watch`,
   the channel of the committed version the transaction started from.

   write_txn.go: `indexWriteTxn(meta, pos)` replaces the table's entry `indexes[pos]` by `indexEntry.txn()`;
   for an `lpmIndex` this creates an `lpmIndexTxn{index: l}` (created = true), for an `lpmIndexTxn` it returns
   itself.  It is called for the LPM (secondary) indexes exactly in the `for _, indexer := range meta.secondary()`
   loops of `modify` and `delete`, i.e. by a write operation that gets past its guard (Insert, Modify, a
   CompareAndSwap whose revision matches, a Delete / CompareAndDelete of an existing object whose revision
   matches): [tw_touches].  A failed CompareAndSwap / CompareAndDelete and a Delete of an absent object return
   before the loop: the index entry stays an `lpmIndex`.

   Commit: `idx.commit()` of an `lpmIndex` returns (l, nil): same version, same channel, nothing to notify;
   of an `lpmIndexTxn` it returns a NEW lpmIndex with `watch: make(chan struct{})` and itself as the
   tableIndexTxnNotify; `notify()` (after the root store) closes `l.index.watch`, the channel of the PREVIOUS
   version — unconditionally, whether or not the trie changed.   Abort drops the table entries: closes nothing.

   Model: [lver] a committed table version with the channels of its two LPM indexes; [ltxn] an open write
   transaction on it (current table, "index entries are lpmIndexTxn" flag); [lx_commit]/[lstep]/[lrun] commit,
   one transaction, a history of transactions, with the lists of channels closed by each transaction's notify.

   Proved: NO MISSED CHANGE over histories (lpm_watch_no_missed_change), also for a query made inside a write
   transaction (lpm_watch_inside_txn); an aborted transaction closes nothing and leaves version and channels
   as they were (lpm_abort_closes_nothing); a channel is closed only by a committed transaction that touched
   the index (lpm_closed_only_by_touching_commit); the channels of the current version are never closed, and no
   channel is closed twice (lpm_published_open, lpm_closed_nodup: close of a closed channel would panic). *)
From SV Require Import Base.Bytes Base.OrdMap KeyEnc.Model Table.Model Table.Queries Table.WatchFootprint.
From Coq Require Import ZifyN ZifyNat ZifyBool.
Open Scope N_scope.

(* ---- which write operations reach the reindex loop over the secondary indexes ------------------------ *)
Definition modify_proceeds (g : N) (id : bytes) (t : table) : bool :=
  if 0 <? g then match om_get id (t_primary t) with Some o => o_rev o =? g | None => false end else true.
Definition delete_proceeds (g : N) (id : bytes) (t : table) : bool :=
  match om_get id (t_primary t) with
  | None => false
  | Some o => negb ((0 <? g) && negb (o_rev o =? g))
  end.
Fixpoint delete_all_touches (l : list (bytes * object)) (t : table) : bool :=
  match l with
  | [] => false
  | kv :: r => let id := p_id (o_data (snd kv)) in
               delete_proceeds 0 id t || delete_all_touches r (fst (delete 0 id t))
  end.

Definition tw_touches (t : table) (w : twrite) : bool :=
  match w with
  | TWInsert p | TWModify p => true
  | TWCas g p => modify_proceeds g (p_id p) t
  | TWDelete id => delete_proceeds 0 id t
  | TWCad g id => delete_proceeds g id t
  | TWDeleteAll => delete_all_touches (t_primary t) t
  end.

Lemma modify_not_proceeds g mg p t : modify_proceeds g (p_id p) t = false -> fst (modify g mg p t) = t.
Proof.
  unfold modify_proceeds, modify, modify_with. destruct (0 <? g); [|discriminate].
  destruct (om_get (p_id p) (t_primary t)) as [o|]; [|reflexivity].
  intros E. rewrite E. reflexivity.
Qed.

Lemma delete_not_proceeds g id t : delete_proceeds g id t = false -> fst (delete g id t) = t.
Proof.
  unfold delete_proceeds, delete, delete_with.
  destruct (om_get id (t_primary t)) as [o|]; [|reflexivity].
  intros E. apply negb_false_iff in E. rewrite E. reflexivity.
Qed.

Lemma delete_all_not_touches l : forall t, delete_all_touches l t = false ->
  fold_left (fun t kv => fst (delete 0 (p_id (o_data (snd kv))) t)) l t = t.
Proof.
  induction l as [|kv l IH]; intros t H; cbn [fold_left delete_all_touches] in *; [reflexivity|].
  apply orb_false_iff in H. destruct H as [H1 H2].
  rewrite (delete_not_proceeds _ _ _ H1) in *. now apply IH.
Qed.

(* an operation that does not reach the loop leaves the whole table entry as it was *)
Lemma tw_not_touches t w : tw_touches t w = false -> twapply t w = t.
Proof.
  destruct w; cbn [tw_touches twapply]; try discriminate.
  - apply modify_not_proceeds.
  - apply delete_not_proceeds.
  - apply delete_not_proceeds.
  - apply delete_all_not_touches.
Qed.

(* ---- committed versions and open write transactions ------------------------------------------------------ *)
(* a committed table entry: the table (with its LPM indexes t_lu, t_ln) and the `watch` fields of the two
   lpmIndex values *)
Record lver := mkLV { lv_tab : table; lv_wu : N; lv_wn : N }.
Definition lv_chan (u : bool) (v : lver) : N := if u then lv_wu v else lv_wn v.

(* an open WriteTxn that has the table locked: the version it started from, the current table, and whether the
   entries of the LPM indexes are lpmIndexTxn (created by indexWriteTxn) or still the committed lpmIndex *)
Record ltxn := mkLX { lx_base : lver; lx_cur : table; lx_touched : bool }.

Definition lx_begin (v : lver) : ltxn := mkLX v (lv_tab v) false.
Definition lx_write (x : ltxn) (w : twrite) : ltxn :=
  mkLX (lx_base x) (twapply (lx_cur x) w) (lx_touched x || tw_touches (lx_cur x) w).
Definition lx_writes (x : ltxn) (ws : list twrite) : ltxn := fold_left lx_write ws x.

(* a query through LPM index u on the WriteTxn: answer from the current trie, channel `l.watch` (entry still an
   lpmIndex) or `l.index.watch` (entry an lpmIndexTxn): the committed version's channel either way *)
Definition lx_watch (u : bool) (x : ltxn) : N := lv_chan u (lx_base x).

(* Commit: (new committed version, allocator, channels closed by the notify() calls after the root store) *)
Definition lx_commit (next : N) (x : ltxn) : lver * N * list N :=
  if lx_touched x
  then (mkLV (lx_cur x) next (next + 1), next + 2, [lv_wu (lx_base x); lv_wn (lx_base x)])
  else (mkLV (lx_cur x) (lv_wu (lx_base x)) (lv_wn (lx_base x)), next, []).
(* Abort: the committed version stays, no notify *)
Definition lx_abort (next : N) (x : ltxn) : lver * N * list N := (lx_base x, next, []).

(* one write transaction: the writes, then Commit (true) or Abort (false) *)
Definition lstep (vn : lver * N) (tx : list twrite * bool) : lver * N * list N :=
  let x := lx_writes (lx_begin (fst vn)) (fst tx) in
  if snd tx then lx_commit (snd vn) x else lx_abort (snd vn) x.

(* a history of write transactions: final version and allocator; the closed lists, one per transaction *)
Fixpoint lrun (vn : lver * N) (txs : list (list twrite * bool)) : lver * N :=
  match txs with [] => vn | tx :: r => lrun (fst (lstep vn tx)) r end.
Fixpoint lclosed (vn : lver * N) (txs : list (list twrite * bool)) : list (list N) :=
  match txs with [] => [] | tx :: r => snd (lstep vn tx) :: lclosed (fst (lstep vn tx)) r end.

(* ---- the open transaction ------------------------------------------------------------------------------------ *)
Lemma lx_writes_base ws : forall x, lx_base (lx_writes x ws) = lx_base x.
Proof. induction ws as [|w ws IH]; intros x; cbn [lx_writes fold_left]; auto. fold (lx_writes (lx_write x w) ws). now rewrite IH. Qed.

Lemma lx_writes_cur ws : forall x, lx_cur (lx_writes x ws) = twrun (lx_cur x) ws.
Proof.
  induction ws as [|w ws IH]; intros x; cbn [lx_writes fold_left twrun]; auto.
  fold (lx_writes (lx_write x w) ws). fold (twrun (twapply (lx_cur x) w) ws). now rewrite IH.
Qed.

Lemma lx_writes_touched_mono ws : forall x, lx_touched x = true -> lx_touched (lx_writes x ws) = true.
Proof.
  induction ws as [|w ws IH]; intros x H; cbn [lx_writes fold_left]; auto.
  fold (lx_writes (lx_write x w) ws). apply IH. cbn [lx_write lx_touched]. now rewrite H.
Qed.

(* while the index entries are still the committed lpmIndex, the table entry is unchanged *)
Lemma lx_untouched_same ws : forall x, lx_touched (lx_writes x ws) = false -> lx_cur (lx_writes x ws) = lx_cur x.
Proof.
  induction ws as [|w ws IH]; intros x H; cbn [lx_writes fold_left] in *; auto.
  fold (lx_writes (lx_write x w) ws) in *.
  destruct (lx_touched (lx_write x w)) eqn:T.
  - rewrite (lx_writes_touched_mono ws _ T) in H. discriminate.
  - rewrite (IH _ H). cbn [lx_write lx_touched lx_cur] in *. apply orb_false_iff in T.
    apply tw_not_touches. tauto.
Qed.

(* a query made INSIDE the write transaction (after the writes ws1) returns the committed version's channel; if
   later writes ws2 of the same transaction change the query's answer, the transaction has created the
   lpmIndexTxn, and its Commit closes that channel *)
Theorem lpm_watch_inside_txn d d' tab tab' q u v next ws1 ws2 : lq_index q = Some u ->
  let x1 := lx_writes (lx_begin v) ws1 in
  let x2 := lx_writes x1 ws2 in
  run_query d tab q (lx_cur x1) <> run_query d' tab' q (lx_cur x2) ->
  In (lx_watch u x1) (snd (lx_commit next x2)) /\
  lv_tab (fst (fst (lx_commit next x2))) = lx_cur x2.
Proof.
  intros Hq x1 x2 Hne. unfold lx_commit.
  destruct (lx_touched x2) eqn:T.
  - split; [|reflexivity]. cbn [snd]. unfold x2, lx_watch. rewrite lx_writes_base. unfold lv_chan.
    destruct u; cbn [In]; auto.
  - exfalso. apply Hne. unfold x2 in *. rewrite (lx_untouched_same ws2 x1 T).
    eapply lpm_query_result_local; eauto.
Qed.

(* ---- one transaction ------------------------------------------------------------------------------------------ *)
(* an aborted transaction closes nothing; the committed version, its channels and the allocator stay *)
Theorem lpm_abort_closes_nothing v next ws :
  lstep (v, next) (ws, false) = (v, next, []).
Proof. unfold lstep, lx_abort. cbn [fst snd]. now rewrite lx_writes_base. Qed.

(* a committed transaction: either it closes nothing and the version (table and channels) stays, or it touched the
   index: it closes exactly the two channels of the version it started from and the new version gets fresh ones *)
Lemma lstep_commit_cases v next ws :
  let x := lx_writes (lx_begin v) ws in
  (lx_touched x = false /\ lstep (v, next) (ws, true) = (v, next, [])) \/
  (lx_touched x = true /\
   lstep (v, next) (ws, true) = (mkLV (twrun (lv_tab v) ws) next (next + 1), next + 2, [lv_wu v; lv_wn v])).
Proof.
  intros x. unfold lstep, lx_commit. cbn [fst snd]. fold x.
  destruct (lx_touched x) eqn:T; [right|left]; split; auto.
  - unfold x. rewrite lx_writes_base, lx_writes_cur. reflexivity.
  - unfold x in *. rewrite lx_writes_base. rewrite (lx_untouched_same ws _ T). cbn [lx_begin lx_cur lx_base].
    now destruct v.
Qed.

(* ---- histories -------------------------------------------------------------------------------------------------- *)
(* NO MISSED CHANGE. v: a committed version; a reader ran the LPM query q on it and holds the channel of the queried
   index; v': the committed version any number of write transactions (committed or aborted) later. If q's answer on
   v' differs, the notify of one of the transactions in between closed the reader's channel. *)
Theorem lpm_watch_no_missed_change d d' tab tab' q u : lq_index q = Some u ->
  forall txs v next,
  run_query d tab q (lv_tab v) <> run_query d' tab' q (lv_tab (fst (lrun (v, next) txs))) ->
  exists cl, In cl (lclosed (v, next) txs) /\ In (lv_chan u v) cl.
Proof.
  intros Hq. induction txs as [|[ws c] txs IH]; intros v next Hne; cbn [lrun lclosed] in *.
  - exfalso. apply Hne. eapply lpm_query_result_local; eauto.
  - destruct c.
    + destruct (lstep_commit_cases v next ws) as [[T E]|[T E]]; rewrite E in *; cbn [fst snd] in *.
      * destruct (IH v next Hne) as [cl [H1 H2]]. exists cl. split; [right; exact H1|exact H2].
      * exists [lv_wu v; lv_wn v]. split; [now left|]. unfold lv_chan. destruct u; cbn [In]; auto.
    + rewrite lpm_abort_closes_nothing in *. cbn [fst snd] in *.
      destruct (IH v next Hne) as [cl [H1 H2]]. exists cl. split; [right; exact H1|exact H2].
Qed.

(* NO SPURIOUS WAKE-UP: a channel is closed only by the notify of a COMMITTED transaction that created the
   lpmIndexTxn (some write operation of it got past its guard); in particular never by an aborted one *)
Theorem lpm_closed_only_by_touching_commit : forall txs v next w,
  In w (concat (lclosed (v, next) txs)) ->
  exists pre ws post, txs = pre ++ (ws, true) :: post /\
    let vn := lrun (v, next) pre in
    lx_touched (lx_writes (lx_begin (fst vn)) ws) = true /\ (w = lv_wu (fst vn) \/ w = lv_wn (fst vn)).
Proof.
  induction txs as [|[ws c] txs IH]; intros v next w H; cbn [lclosed concat] in H; [destruct H|].
  apply in_app_or in H. destruct H as [H|H].
  - destruct c.
    + destruct (lstep_commit_cases v next ws) as [[T E]|[T E]]; rewrite E in H; cbn [snd] in H; [destruct H|].
      exists [], ws, txs. split; [reflexivity|]. cbn [lrun fst]. split; [exact T|].
      destruct H as [<-|[<-|[]]]; auto.
    + rewrite lpm_abort_closes_nothing in H. destruct H.
  - destruct (lstep (v, next) (ws, c)) as [[v1 n1] cl] eqn:E. cbn [fst] in H.
    destruct (IH v1 n1 w H) as (pre & ws' & post & -> & T & W).
    exists ((ws, c) :: pre), ws', post. split; [reflexivity|]. cbn [lrun]. rewrite E. cbn [fst]. auto.
Qed.

Corollary lpm_all_aborted_closes_nothing : forall txs v next, (forall tx, In tx txs -> snd tx = false) ->
  lrun (v, next) txs = (v, next) /\ concat (lclosed (v, next) txs) = [].
Proof.
  induction txs as [|[ws c] txs IH]; intros v next H; cbn [lrun lclosed concat]; auto.
  assert (c = false) by (apply (H (ws, c)); now left). subst c.
  rewrite lpm_abort_closes_nothing. cbn [fst snd app]. apply IH. intros tx Hin. apply H. now right.
Qed.

(* ---- channel accounting: published channels are open, no double close ------------------------------------------ *)
(* closed: the channels closed so far. The channels of the committed version are allocated, distinct and open;
   closed channels are allocated; no channel was closed twice *)
Definition LInv (vn : lver * N) (closed : list N) : Prop :=
  lv_wu (fst vn) < snd vn /\ lv_wn (fst vn) < snd vn /\ lv_wu (fst vn) <> lv_wn (fst vn) /\
  (forall w, In w closed -> w < snd vn /\ w <> lv_wu (fst vn) /\ w <> lv_wn (fst vn)) /\
  NoDup closed.

Lemma NoDup_snoc {A} (a : A) l : NoDup l -> ~ In a l -> NoDup (l ++ [a]).
Proof.
  induction l as [|b l IH]; intros N H; cbn [app].
  - constructor; [intros []|constructor].
  - inversion N as [|? ? Hb Hl]; subst. constructor.
    + intros Hin. apply in_app_or in Hin. destruct Hin as [Hin|[->|[]]]; [auto|]. apply H. now left.
    + apply IH; auto. intros Hin. apply H. now right.
Qed.

Lemma lstep_inv v next tx closed : LInv (v, next) closed ->
  LInv (fst (lstep (v, next) tx)) (closed ++ snd (lstep (v, next) tx)).
Proof.
  intros (W1 & W2 & W3 & C & ND). cbn [fst snd] in *. destruct tx as [ws c]. destruct c.
  - destruct (lstep_commit_cases v next ws) as [[T E]|[T E]]; rewrite E; cbn [fst snd].
    + rewrite app_nil_r. repeat split; auto; apply C; auto.
    + unfold LInv. cbn [fst snd lv_wu lv_wn]. split; [lia|]. split; [lia|]. split; [lia|]. split.
      * intros w Hin. apply in_app_or in Hin. destruct Hin as [Hin|[<-|[<-|[]]]]; try lia.
        destruct (C w Hin) as (H1 & H2 & H3). lia.
      * change [lv_wu v; lv_wn v] with ([lv_wu v] ++ [lv_wn v]). rewrite app_assoc.
        apply NoDup_snoc; [apply NoDup_snoc; auto|].
        -- intros Hin. destruct (C _ Hin) as (_ & H2 & _). now apply H2.
        -- intros Hin. apply in_app_or in Hin. destruct Hin as [Hin|[Hin|[]]]; [|now apply W3].
           destruct (C _ Hin) as (_ & _ & H3). now apply H3.
  - rewrite lpm_abort_closes_nothing. cbn [fst snd]. rewrite app_nil_r. repeat split; auto; apply C; auto.
Qed.

Lemma lrun_inv : forall txs v next closed, LInv (v, next) closed ->
  LInv (lrun (v, next) txs) (closed ++ concat (lclosed (v, next) txs)).
Proof.
  induction txs as [|tx txs IH]; intros v next closed I; cbn [lrun lclosed concat].
  - now rewrite app_nil_r.
  - pose proof (lstep_inv v next tx closed I) as I1.
    destruct (lstep (v, next) tx) as [[v1 n1] cl]. cbn [fst snd] in *.
    rewrite app_assoc. now apply IH.
Qed.

(* PUBLISHED CHANNELS ARE OPEN: after any history, no channel closed by a notify is a channel of the committed
   version (a new reader never gets a closed channel) *)
Theorem lpm_published_open txs v next u w :
  lv_wu v < next -> lv_wn v < next -> lv_wu v <> lv_wn v ->
  In w (concat (lclosed (v, next) txs)) -> w <> lv_chan u (fst (lrun (v, next) txs)).
Proof.
  intros W1 W2 W3 Hin.
  assert (I : LInv (v, next) []).
  { unfold LInv. cbn [fst snd]. split; [exact W1|]. split; [exact W2|]. split; [exact W3|]. split; [intros x []|constructor]. }
  destruct (lrun_inv txs v next [] I) as (_ & _ & _ & C & _). cbn [app] in C.
  destruct (C w Hin) as (_ & H2 & H3). unfold lv_chan. now destruct u.
Qed.

(* NO DOUBLE CLOSE: no channel is closed by two notifies (close of a closed channel panics) *)
Theorem lpm_closed_nodup txs v next :
  lv_wu v < next -> lv_wn v < next -> lv_wu v <> lv_wn v -> NoDup (concat (lclosed (v, next) txs)).
Proof.
  intros W1 W2 W3.
  assert (I : LInv (v, next) []).
  { unfold LInv. cbn [fst snd]. split; [exact W1|]. split; [exact W2|]. split; [exact W3|]. split; [intros x []|constructor]. }
  destruct (lrun_inv txs v next [] I) as (_ & _ & _ & _ & ND). exact ND.
Qed.

(* ---- non-vacuity -------------------------------------------------------------------------------------------------- *)
(* objects with LPM keys: a: 10.0/16 -> bits of [10;0]; b: [10;1] *)
Definition lx_a : payload := mkP [97] 1 [] [] [key_bits [10; 0] 16] [key_bits [10; 0] 16].
Definition lx_b : payload := mkP [98] 2 [] [] [key_bits [10; 1] 16] [key_bits [10; 0] 16].
Definition lx_v0 : lver := mkLV (twrun empty_table [TWInsert lx_a]) 1 2.
Definition lx_q : query := QLList false (key_bits [10; 0] 16).
(* history: an aborted insert of b; a committed failed CompareAndSwap (touches nothing); a committed insert of b;
   a committed delete of an absent object *)
Definition lx_hist : list (list twrite * bool) :=
  [([TWInsert lx_b], false); ([TWCas 7 lx_b], true); ([TWInsert lx_b], true); ([TWDelete [120]], true)].

Example lpm_watch_nonvacuous :
  lq_index lx_q = Some false /\
  run_query (init_db 1) 0 lx_q (lv_tab lx_v0) = OutObjs [mkO lx_a 1] /\
  run_query (init_db 1) 0 lx_q (lv_tab (fst (lrun (lx_v0, 3) lx_hist))) = OutObjs [mkO lx_a 1; mkO lx_b 2] /\
  lclosed (lx_v0, 3) lx_hist = [[]; []; [1; 2]; []] /\
  lv_chan false lx_v0 = 2 /\
  lv_chan false (fst (lrun (lx_v0, 3) lx_hist)) = 4 /\ snd (lrun (lx_v0, 3) lx_hist) = 5.
Proof. vm_compute. repeat split; reflexivity. Qed.

(* inside a write transaction: List after the first write, then a second write that changes the answer *)
Example lpm_watch_inside_nonvacuous :
  let x1 := lx_writes (lx_begin lx_v0) [TWDelete [120]] in
  let x2 := lx_writes x1 [TWInsert lx_b] in
  lx_touched x1 = false /\ lx_watch false x1 = 2 /\
  run_query (init_db 1) 0 lx_q (lx_cur x1) <> run_query (init_db 1) 0 lx_q (lx_cur x2) /\
  snd (lx_commit 3 x2) = [1; 2].
Proof. vm_compute. repeat split; try reflexivity. discriminate. Qed.

Print Assumptions lpm_watch_no_missed_change.
Print Assumptions lpm_watch_inside_txn.
Print Assumptions lpm_abort_closes_nothing.
Print Assumptions lpm_closed_only_by_touching_commit.
Print Assumptions lpm_all_aborted_closes_nothing.
Print Assumptions lpm_published_open.
Print Assumptions lpm_closed_nodup.
