(* Table/ClientsProofs.v — the clients of Table/Clients.v are programs over Table/Model.v's operations
   (part A: crun_is_run) and Derive's initialization safety (part B). *)
From Coq Require Import List NArith Bool Lia.
Import ListNotations.
From SV Require Import Base.Bytes Base.OrdMap Table.Model Table.Proofs Table.Clients.
Local Open Scope N_scope.

(* ==== A. every client leg returns exactly the operations it ran ========================================== *)

Lemma run_fst_eq d ops d' outs : run d ops = (d', outs) -> d' = fst (run d ops).
Proof. intros H. rewrite H. reflexivity. Qed.

Lemma apply_changes_run tr out l : forall d,
  fst (apply_changes tr out d l) = fst (run d (snd (apply_changes tr out d l))).
Proof.
  induction l as [|c r IH]; intros d; cbn [apply_changes].
  - reflexivity.
  - specialize (IH (fst (run d (change_ops tr out d c)))).
    destruct (apply_changes tr out (fst (run d (change_ops tr out d c))) r) as [d2 ops2].
    cbn [fst snd] in *. rewrite run_app. exact IH.
Qed.

Lemma apply_changes_run' tr out l d d2 o2 :
  apply_changes tr out d l = (d2, o2) -> d2 = fst (run d o2).
Proof. intros H. pose proof (apply_changes_run tr out l d) as P. rewrite H in P. exact P. Qed.

(* the shape of a successful iteration, for reuse in parts B and C *)
Lemma derive_iter_shape tr ds d d' ds' ops :
  derive_iter tr ds d = (d', ds', ops) ->
  (d' = d /\ ds' = ds /\ ops = [] /\
   forall x l w, snd (run d [OBegin [dv_out ds]; ONext (dv_iid ds) STxn None]) <> [x; OutChanges l w]) \/
  exists x l wclosed d2 o2 o3 marked initw,
    run d [OBegin [dv_out ds]; ONext (dv_iid ds) STxn None] =
      (fst (run d [OBegin [dv_out ds]; ONext (dv_iid ds) STxn None]), [x; OutChanges l wclosed]) /\
    apply_changes tr (dv_out ds) (fst (run d [OBegin [dv_out ds]; ONext (dv_iid ds) STxn None])) l = (d2, o2) /\
    init_ops ds d2 = (o3, marked, initw) /\
    d' = fst (run (fst (run d2 o3)) [OCommit (dv_sid ds)]) /\
    dv_marked ds' = marked /\
    ops = [OBegin [dv_out ds]; ONext (dv_iid ds) STxn None] ++ o2 ++ o3 ++ [OCommit (dv_sid ds)].
Proof.
  unfold derive_iter.
  destruct (run d [OBegin [dv_out ds]; ONext (dv_iid ds) STxn None]) as [d1 outs] eqn:E1.
  assert (Hdef : forall (P : Prop), (forall x l w, outs <> [x; OutChanges l w]) ->
            (d, ds, @nil op) = (d', ds', ops) ->
            (d' = d /\ ds' = ds /\ ops = [] /\ forall x l w, snd (d1, outs) <> [x; OutChanges l w]) \/ P).
  { intros P Hne H. injection H as <- <- <-. left. auto. }
  destruct outs as [|x [|y [|z outs]]]; try (apply Hdef; discriminate); try (destruct y; apply Hdef; discriminate).
  destruct y; try (apply Hdef; discriminate).
  destruct (apply_changes tr (dv_out ds) d1 l) as [d2 o2] eqn:E2.
  destruct (init_ops ds d2) as [[o3 marked] initw] eqn:E3.
  intros H. injection H as <- <- <-. right.
  exists x, l, watch_closed, d2, o2, o3, marked, initw. cbn [fst].
  repeat split; auto.
Qed.

Lemma derive_iter_run tr ds d d' ds' ops :
  derive_iter tr ds d = (d', ds', ops) -> d' = fst (run d ops).
Proof.
  intros H. destruct (derive_iter_shape _ _ _ _ _ _ H) as [[-> [_ [-> _]]]|
    [x [l [w [d2 [o2 [o3 [marked [initw [H1 [H2 [H3 [H4 [_ H6]]]]]]]]]]]]]].
  - reflexivity.
  - subst ops d'. rewrite !run_app. apply apply_changes_run' in H2. rewrite <- H2. reflexivity.
Qed.

Lemma derive_go_run tr ds d d' ds' ops ran :
  derive_go tr ds d = (d', ds', ops, ran) -> d' = fst (run d ops).
Proof.
  unfold derive_go. destruct (d_txn d); [intros H; injection H as <- <- <- <-; reflexivity|].
  destruct (negb (d_ready ds d)); [intros H; injection H as <- <- <- <-; reflexivity|].
  destruct (dv_phase ds).
  - intros H; injection H as <- <- <- <-; reflexivity.
  - destruct (derive_iter tr ds d) as [[a b] c] eqn:E. intros H; injection H as <- <- <- <-.
    eapply derive_iter_run; eauto.
  - destruct (derive_iter tr ds d) as [[a b] c] eqn:E. intros H; injection H as <- <- <- <-.
    eapply derive_iter_run; eauto.
Qed.

(* observe_run appends to its accumulator exactly what it runs *)
Lemma observe_run_run fuel : forall os d acc,
  exists ops, snd (observe_run fuel os d acc) = acc ++ ops /\
              fst (fst (observe_run fuel os d acc)) = fst (run d ops).
Proof.
  induction fuel as [|f IH]; intros os d acc; cbn [observe_run].
  - exists []. rewrite app_nil_r. auto.
  - set (o := if match assoc (ov_iid os) (d_iters d) with
                  | Some it => it_seq it && match it_pending it with Some _ => true | None => false end
                  | None => false end
              then OResume (ov_iid os) (Some 1%nat) else ONext (ov_iid os) SFresh (Some 1%nat)).
    destruct (step d o) as [d1 out] eqn:E.
    assert (Hone : fst (run d [o]) = d1) by (rewrite run_single, E; reflexivity).
    assert (Hdef : forall os' : ostate, exists ops, snd (d1, os', acc ++ [o]) = acc ++ ops /\
                                      fst (fst (d1, os', acc ++ [o])) = fst (run d ops)).
    { intros os'. exists [o]. cbn [fst snd]. auto. }
    destruct out; try apply Hdef.
    destruct l as [|c l]; [|apply Hdef].
    destruct watch_closed; [|apply Hdef].
    destruct (IH os d1 (acc ++ [o])) as [ops [H1 H2]].
    exists (o :: ops). rewrite H1, H2, <- app_assoc. split; [reflexivity|].
    change (o :: ops) with ([o] ++ ops). rewrite run_app, Hone. reflexivity.
Qed.

Lemma observe_run_run' fuel os d d0 acc d' os' ops :
  d = fst (run d0 acc) -> observe_run fuel os d acc = (d', os', ops) -> d' = fst (run d0 ops).
Proof.
  intros Hd H. destruct (observe_run_run fuel os d acc) as [ops1 [H1 H2]].
  rewrite H in H1, H2. cbn [fst snd] in *. subst ops d'. rewrite run_app, <- Hd. reflexivity.
Qed.

Lemma observe_go_run os d d' os' ops c ran :
  observe_go os d = (d', os', ops, c, ran) -> d' = fst (run d ops).
Proof.
  unfold observe_go. destruct (d_txn d); [intros H; injection H as <- <- <- <- <-; reflexivity|].
  destruct (ov_phase os).
  - destruct (observe_run 4 os (fst (run d (observe_reg_ops os))) (observe_reg_ops os)) as [[a b] e] eqn:E.
    intros H; injection H as <- <- <- <- <-. eapply observe_run_run'; [|exact E]. reflexivity.
  - destruct (observe_run 4 (oset os (OWait 0)) d []) as [[a b] e] eqn:E.
    intros H; injection H as <- <- <- <- <-. eapply observe_run_run'; [|exact E]. reflexivity.
  - intros H; injection H as <- <- <- <- <-; reflexivity.
  - intros H; injection H as <- <- <- <- <-; reflexivity.
Qed.

Lemma observe_wake_run os d d' os' ops :
  observe_wake os d = (d', os', ops) -> d' = fst (run d ops).
Proof.
  unfold observe_wake. destruct (o_woken os d).
  - intros H. eapply observe_run_run'; [|exact H]. reflexivity.
  - intros H; injection H as <- <- <-; reflexivity.
Qed.

Lemma observe_cancel_run os d d' os' ops ran :
  observe_cancel os d = (d', os', ops, ran) -> d' = fst (run d ops).
Proof.
  unfold observe_cancel. destruct (d_txn d); [intros H; injection H as <- <- <- <-; reflexivity|].
  destruct (ov_phase os); intros H; injection H as <- <- <- <-; reflexivity.
Qed.

Lemma cstep0_run s c s' x ops :
  cstep0 s c = (s', x, ops) -> cs_db s' = fst (run (cs_db s) ops).
Proof.
  destruct c; cbn [cstep0].
  - destruct (step (cs_db s) o) as [d' y] eqn:E. intros H; injection H as <- <- <-.
    cbn [cs_db]. rewrite run_single, E. reflexivity.
  - destruct (cs_d s); [intros H; injection H as <- <- <-; reflexivity|].
    destruct (d_txn (cs_db s)); intros H; injection H as <- <- <-; reflexivity.
  - destruct (cs_d s) as [ds|]; [|intros H; injection H as <- <- <-; reflexivity].
    destruct (derive_go (tr_std (cs_mode s)) ds (cs_db s)) as [[[a b] e] r] eqn:E.
    intros H; injection H as <- <- <-. cbn [cs_db]. eapply derive_go_run; eauto.
  - destruct (cs_d s); intros H; injection H as <- <- <-; reflexivity.
  - destruct (cs_o s); intros H; injection H as <- <- <-; reflexivity.
  - destruct (cs_o s) as [os|]; [|intros H; injection H as <- <- <-; reflexivity].
    destruct (observe_go os (cs_db s)) as [[[[a b] e] r] q] eqn:E.
    intros H; injection H as <- <- <-. cbn [cs_db]. eapply observe_go_run; eauto.
  - destruct (cs_o s) as [os|]; [|intros H; injection H as <- <- <-; reflexivity].
    destruct (observe_cancel os (cs_db s)) as [[[a b] e] r] eqn:E.
    intros H; injection H as <- <- <-. cbn [cs_db]. eapply observe_cancel_run; eauto.
  - destruct (cs_o s); intros H; injection H as <- <- <-; reflexivity.
Qed.

Lemma cstep_run s c s' x ops :
  cstep s c = (s', x, ops) -> cs_db s' = fst (run (cs_db s) ops).
Proof.
  unfold cstep. destruct (cstep0 s c) as [[s1 y] ops1] eqn:E0.
  pose proof (cstep0_run _ _ _ _ _ E0) as H0.
  destruct (cs_o s1) as [os|].
  - destruct (observe_wake os (cs_db s1)) as [[a b] e] eqn:E1.
    intros H; injection H as <- <- <-. cbn [cs_db]. rewrite run_app, <- H0.
    eapply observe_wake_run; eauto.
  - intros H; injection H as <- <- <-. exact H0.
Qed.

Theorem crun_is_run cs : forall s s' outs ops,
  crun s cs = (s', outs, ops) -> cs_db s' = fst (run (cs_db s) ops).
Proof.
  induction cs as [|c r IH]; intros s s' outs ops; cbn [crun].
  - intros H; injection H as <- <- <-. reflexivity.
  - destruct (cstep s c) as [[s1 x] ops1] eqn:E1.
    destruct (crun s1 r) as [[s2 xs] ops2] eqn:E2.
    intros H; injection H as <- <- <-. rewrite run_app, <- (cstep_run _ _ _ _ _ E1).
    eapply IH; eauto.
Qed.

(* the same, in the form of the task statement *)
Corollary crun_is_run' s cs :
  cs_db (fst (fst (crun s cs))) = fst (run (cs_db s) (snd (crun s cs))).
Proof. destruct (crun s cs) as [[s' outs] ops] eqn:E. eapply crun_is_run; eauto. Qed.

(* ==== B. initialization safety of Derive ================================================================== *)
From SV Require Import KeyEnc.Model Table.InvDefs Table.Inv Table.Inv2 Table.ChangesStream Table.ChangesIter.

(* the open transaction's entry for table i *)
Definition tentry (d : db) (i : nat) : option (table * bool) :=
  match d_txn d with Some (es, _) => nth_error es i | None => None end.

Lemma with_locked_tentry_other d tab f a b i : i <> tab ->
  tentry (fst (with_locked d tab f a b)) i = tentry d i.
Proof.
  intros Hi. unfold with_locked, tentry. destruct (d_txn d) as [[es old]|] eqn:E; cbn [fst]; [|now rewrite E].
  destruct (nth_error es tab) as [[t [|]]|]; cbn [fst]; try now rewrite E.
  destruct (f t) as [t' o]. cbn [fst set_txn d_txn]. apply nth_error_upd_nth_other. congruence.
Qed.

(* the writes Derive performs: Insert / Delete on the output table *)
Definition dwrite (out : nat) (o : op) : bool :=
  match o with OInsert t _ | ODelete t _ => Nat.eqb t out | _ => false end.

Lemma step_dwrite_frame out o d i : dwrite out o = true -> i <> out ->
  tentry (fst (step d o)) i = tentry d i /\ d_root (fst (step d o)) = d_root d.
Proof.
  intros Hw Hi. destruct o; cbn [dwrite] in Hw; try discriminate; apply Nat.eqb_eq in Hw; subst tab; cbn [step];
    (split; [now apply with_locked_tentry_other|apply with_locked_root]).
Qed.

Lemma run_dwrite_frame out ops : forall d i, forallb (dwrite out) ops = true -> i <> out ->
  tentry (fst (run d ops)) i = tentry d i /\ d_root (fst (run d ops)) = d_root d.
Proof.
  induction ops as [|o r IH]; intros d i Hw Hi; cbn [run]; [auto|].
  cbn [forallb] in Hw. apply andb_true_iff in Hw. destruct Hw as [Ho Hr].
  destruct (step_dwrite_frame out o d i Ho Hi) as [A B].
  destruct (step d o) as [d1 x]. cbn [fst] in A, B.
  destruct (IH d1 i Hr Hi) as [A1 B1]. destruct (run d1 r) as [d2 xs]. cbn [fst] in *. split; congruence.
Qed.

Lemma change_ops_dwrite tr out d c : forallb (dwrite out) (change_ops tr out d c) = true.
Proof.
  unfold change_ops. destruct (tr (fst c) (snd c)) as [p [| | |]]; cbn [forallb dwrite]; try reflexivity.
  - now rewrite Nat.eqb_refl.
  - destruct (src_root d STxn) as [root|]; [|reflexivity].
    destruct (nth_error root out) as [t|]; [|reflexivity].
    destruct (q_get IPrimary (p_id p) t); cbn [forallb dwrite]; [now rewrite Nat.eqb_refl|reflexivity].
  - now rewrite Nat.eqb_refl.
Qed.

Lemma apply_changes_dwrite tr out l : forall d, forallb (dwrite out) (snd (apply_changes tr out d l)) = true.
Proof.
  induction l as [|c r IH]; intros d; cbn [apply_changes]; [reflexivity|].
  specialize (IH (fst (run d (change_ops tr out d c)))).
  destruct (apply_changes tr out (fst (run d (change_ops tr out d c))) r) as [d2 ops2].
  cbn [snd] in *. rewrite forallb_app, IH, change_ops_dwrite. reflexivity.
Qed.

(* Next only touches the iterator, its watermark and the collector *)
Lemma step_next_frame d iid s take :
  d_root (fst (step d (ONext iid s take))) = d_root d /\ d_txn (fst (step d (ONext iid s take))) = d_txn d.
Proof.
  cbn [step]. destruct (assoc iid (d_iters d)) as [it|]; [|auto].
  destruct (src_committed d s) as [r|]; [|auto].
  destruct (nth_error r (it_tab it)) as [t|]; [|auto].
  destruct (nth_error (d_root d) (it_tab it)) as [cur|]; [|auto].
  match goal with |- context [if ?c then _ else _] => destruct c end; [auto|].
  match goal with |- context [consume ?a ?b ?c ?dd ?e] =>
    pose proof (consume_frame b a c dd e) as Hc; destruct (consume a b c dd e) as [[x y] z] end.
  cbn [fst snd set_iters d_root d_txn] in *. destruct Hc as [A [B _]]. auto.
Qed.

(* the state in which apply_changes starts: `out` locked, every other entry the root's, unlocked *)
Lemma derive_begin_next d out iid : d_txn d = None ->
  let d1 := fst (run d [OBegin [out]; ONext iid STxn None]) in
  d_root d1 = d_root d /\
  d_txn d1 = Some (upd_nth out (fun e => (fst e, true)) (map (fun t => (t, false)) (d_root d)), d_root d).
Proof.
  intros Hn. cbv zeta. change [OBegin [out]; ONext iid STxn None] with ([OBegin [out]] ++ [ONext iid STxn None]).
  rewrite run_app, !run_single.
  assert (Hb : step d (OBegin [out]) =
               (set_txn d (Some (upd_nth out (fun e => (fst e, true)) (map (fun t => (t, false)) (d_root d)), d_root d)), OutUnit)).
  { cbn [step]. rewrite Hn. reflexivity. }
  rewrite Hb. cbn [fst].
  destruct (step_next_frame (set_txn d (Some (upd_nth out (fun e => (fst e, true)) (map (fun t => (t, false)) (d_root d)), d_root d)))
              iid STxn None) as [A B].
  rewrite A, B. auto.
Qed.

Lemma derive_begin_next_tentry d out iid i : d_txn d = None -> i <> out ->
  tentry (fst (run d [OBegin [out]; ONext iid STxn None])) i = option_map (fun t => (t, false)) (nth_error (d_root d) i).
Proof.
  intros Hn Hi. destruct (derive_begin_next d out iid Hn) as [_ B]. unfold tentry. rewrite B.
  rewrite nth_error_upd_nth_other by congruence. apply nth_error_map.
Qed.

(* the three outcomes of the initializer check *)
Lemma init_ops_cases ds d2 o3 marked initw : init_ops ds d2 = (o3, marked, initw) ->
  (dv_marked ds = true /\ marked = true /\ o3 = []) \/
  (dv_marked ds = false /\ marked = false /\ o3 = []) \/
  (dv_marked ds = false /\ marked = true /\ o3 = [OInitDone (dv_out ds) (dv_name ds)] /\
   exists t b, tentry d2 (dv_in ds) = Some (t, b) /\ fst (fst (q_init t)) = true).
Proof.
  unfold init_ops. destruct (dv_marked ds); [intros H; injection H as <- <- <-; auto|].
  unfold src_root, tentry. destruct (d_txn d2) as [[es old]|]; [|intros H; injection H as <- <- <-; auto].
  rewrite nth_error_map. destruct (nth_error es (dv_in ds)) as [[t b]|]; cbn [option_map fst];
    [|intros H; injection H as <- <- <-; auto].
  destruct (q_init t) as [[i p] w] eqn:Eq. destruct i; intros H; injection H as <- <- <-; auto.
  right. right. repeat split; auto. exists t, b. rewrite Eq. auto.
Qed.

(* B1: the loop marks its initializer done only in an iteration whose transaction saw the INPUT table
   initialized in the committed root it started from *)
Theorem derive_marks_only_when_input_initialized tr ds d d' ds' ops :
  derive_iter tr ds d = (d', ds', ops) ->
  dv_marked ds = false -> dv_marked ds' = true -> d_txn d = None -> dv_in ds <> dv_out ds ->
  exists t, nth_error (d_root d) (dv_in ds) = Some t /\ fst (fst (q_init t)) = true.
Proof.
  intros H Hm Hm' Hn Hio. destruct (derive_iter_shape _ _ _ _ _ _ H) as [[_ [-> _]]|
    [x [l [w [d2 [o2 [o3 [marked [initw [H1 [H2 [H3 [H4 [H5 H6]]]]]]]]]]]]]]; [congruence|].
  subst marked. destruct (init_ops_cases _ _ _ _ _ H3) as [[C _]|[[_ [C _]]|[_ [_ [_ [t [b [Ht Hi]]]]]]]]; try congruence.
  pose proof (apply_changes_run' _ _ _ _ _ _ H2) as Hd2.
  pose proof (apply_changes_dwrite tr (dv_out ds) l (fst (run d [OBegin [dv_out ds]; ONext (dv_iid ds) STxn None]))) as Hw.
  rewrite H2 in Hw. cbn [snd] in Hw.
  destruct (run_dwrite_frame _ o2 (fst (run d [OBegin [dv_out ds]; ONext (dv_iid ds) STxn None])) (dv_in ds) Hw Hio) as [A _].
  rewrite <- Hd2, Ht, derive_begin_next_tentry in A by auto.
  destruct (nth_error (d_root d) (dv_in ds)) as [t0|]; [|discriminate].
  cbn [option_map] in A. injection A as -> _. exists t0. auto.
Qed.

(* B2: where the OInitDone sits: after all the writes, immediately before the Commit *)
Theorem derive_initdone_position tr ds d d' ds' ops :
  derive_iter tr ds d = (d', ds', ops) -> dv_marked ds = false -> dv_marked ds' = true ->
  exists o2, ops = [OBegin [dv_out ds]; ONext (dv_iid ds) STxn None] ++ o2 ++
                   [OInitDone (dv_out ds) (dv_name ds); OCommit (dv_sid ds)] /\
             forallb (dwrite (dv_out ds)) o2 = true.
Proof.
  intros H Hm Hm'. destruct (derive_iter_shape _ _ _ _ _ _ H) as [[_ [-> _]]|
    [x [l [w [d2 [o2 [o3 [marked [initw [H1 [H2 [H3 [H4 [H5 H6]]]]]]]]]]]]]]; [congruence|].
  subst marked. destruct (init_ops_cases _ _ _ _ _ H3) as [[C _]|[[_ [C _]]|[_ [_ [-> _]]]]]; try congruence.
  exists o2. split; [exact H6|].
  pose proof (apply_changes_dwrite tr (dv_out ds) l (fst (run d [OBegin [dv_out ds]; ONext (dv_iid ds) STxn None]))) as Hw.
  rewrite H2 in Hw. exact Hw.
Qed.

Corollary derive_initdone_in_ops tr ds d d' ds' ops :
  derive_iter tr ds d = (d', ds', ops) -> dv_marked ds = false -> dv_marked ds' = true ->
  In (OInitDone (dv_out ds) (dv_name ds)) ops.
Proof.
  intros H Hm Hm'. destruct (derive_initdone_position _ _ _ _ _ _ H Hm Hm') as [o2 [-> _]].
  apply in_or_app. right. apply in_or_app. right. left. reflexivity.
Qed.

Lemma dwrite_not_initdone out o2 a b : forallb (dwrite out) o2 = true -> ~ In (OInitDone a b) o2.
Proof.
  intros Hw Hin. rewrite forallb_forall in Hw. specialize (Hw _ Hin). discriminate.
Qed.

(* in every other iteration no OInitDone is issued: the initializer is marked at most once *)
Theorem derive_no_initdone tr ds d d' ds' ops :
  derive_iter tr ds d = (d', ds', ops) -> (dv_marked ds' = false \/ dv_marked ds = true) ->
  (dv_marked ds = true -> dv_marked ds' = true) /\ forall a b, ~ In (OInitDone a b) ops.
Proof.
  intros H Hm. destruct (derive_iter_shape _ _ _ _ _ _ H) as [[_ [-> [-> _]]]|
    [x [l [w [d2 [o2 [o3 [marked [initw [H1 [H2 [H3 [H4 [H5 H6]]]]]]]]]]]]]]; [split; auto|].
  subst marked.
  assert (Ho3 : o3 = [] /\ (dv_marked ds = true -> dv_marked ds' = true)).
  { destruct (init_ops_cases _ _ _ _ _ H3) as [[C [C' ->]]|[[C [C' ->]]|[C [C' _]]]]; auto.
    - split; auto. congruence.
    - destruct Hm; congruence. }
  destruct Ho3 as [-> Hk]. split; [exact Hk|]. intros a b Hin. subst ops.
  pose proof (apply_changes_dwrite tr (dv_out ds) l (fst (run d [OBegin [dv_out ds]; ONext (dv_iid ds) STxn None]))) as Hw.
  rewrite H2 in Hw. cbn [snd] in Hw.
  cbn [app] in Hin. destruct Hin as [Hin|[Hin|Hin]]; try discriminate.
  apply in_app_or in Hin. destruct Hin as [Hin|[Hin|[]]]; [|discriminate].
  exact (dwrite_not_initdone _ _ _ _ Hw Hin).
Qed.

(* ==== C. one iteration of a MIRROR Derive applies exactly the delivered changes ========================== *)
From SV Require Import Table.Inv4.

Definition contents (t : table) : list (bytes * N) :=
  map (fun kv => (fst kv, p_val (o_data (snd kv)))) (t_primary t).
Definition apply_c (m : list (bytes * N)) (c : object * bool) : list (bytes * N) :=
  if snd c then om_delete (pk (fst c)) m else om_insert (pk (fst c)) (p_val (o_data (fst c))) m.

Section MapValsUpd.
Context {V W : Type} (f : V -> W).
Let mv (m : @omap V) : @omap W := map (fun kv => (fst kv, f (snd kv))) m.
Lemma mapv_insert k v m : mv (om_insert k v m) = om_insert k (f v) (mv m).
Proof.
  induction m as [|[k' v'] r IH]; cbn [om_insert mv map fst snd]; [reflexivity|].
  destruct (bytes_eqb k k'); [reflexivity|]. destruct (bytes_ltb k k'); [reflexivity|].
  cbn [map fst snd]. f_equal. exact IH.
Qed.
Lemma mapv_delete k m : mv (om_delete k m) = om_delete k (mv m).
Proof.
  induction m as [|[k' v'] r IH]; cbn [om_delete mv map fst snd]; [reflexivity|].
  destruct (bytes_eqb k k'); [reflexivity|]. destruct (bytes_ltb k k'); [reflexivity|].
  cbn [map fst snd]. f_equal. exact IH.
Qed.
End MapValsUpd.

(* unguarded modify always proceeds *)
Lemma modify0_primary m p t :
  t_primary (fst (modify 0 m p t)) = om_insert (p_id p) (new_object m p t) (t_primary t).
Proof.
  destruct (modify 0 m p t) as [t' [old e]] eqn:H. cbn [fst].
  assert (He : e = EOk).
  { revert H. unfold modify, modify_with. change (0 <? 0) with false. cbv iota.
    destruct (om_get (p_id p) (t_primary t)); [|destruct (om_get (p_id p) (t_grave t))];
      intros H; injection H as _ _ <-; reflexivity. }
  destruct (modify_ok_spec _ _ _ _ _ _ _ H He) as [_ [E _]]. exact E.
Qed.

Lemma delete0_primary id t : om_sorted (t_primary t) ->
  t_primary (fst (delete 0 id t)) = om_delete id (t_primary t).
Proof.
  intros Hs. destruct (delete 0 id t) as [t' [old e]] eqn:H. cbn [fst].
  destruct (delete_spec _ _ _ _ _ _ H) as [_ Hd].
  destruct (om_get id (t_primary t)) as [o|] eqn:Eg.
  - change (0 <? 0) with false in Hd. cbn [andb] in Hd. destruct Hd as [_ [_ E]]. exact E.
  - destruct Hd as [_ ->]. symmetry. now apply om_delete_absent.
Qed.

(* the payload the mirror transform builds *)
Definition mirror_payload (o : object) : payload := mkP (p_id (o_data o)) (p_val (o_data o)) [] [] [] [].
Definition mirror_wop (c : object * bool) : wop :=
  if snd c then WDelete (p_id (o_data (fst c))) else WInsert (mirror_payload (fst c)).

Lemma change_ops_mirror out d c : change_ops (tr_std 0) out d c = [op_of_wop out (mirror_wop c)].
Proof.
  unfold change_ops, tr_std, mirror_wop, mirror_payload. change (0 =? 0) with true. cbv iota.
  destruct (snd c); reflexivity.
Qed.

Lemma apply_changes_mirror out l : forall d,
  apply_changes (tr_std 0) out d l =
  (fst (run d (map (op_of_wop out) (map mirror_wop l))), map (op_of_wop out) (map mirror_wop l)).
Proof.
  induction l as [|c r IH]; intros d; cbn [apply_changes map]; [reflexivity|].
  rewrite change_ops_mirror, IH.
  change (op_of_wop out (mirror_wop c) :: map (op_of_wop out) (map mirror_wop r))
    with ([op_of_wop out (mirror_wop c)] ++ map (op_of_wop out) (map mirror_wop r)).
  rewrite run_app. reflexivity.
Qed.

Lemma mirror_wop_contents c t : om_sorted (t_primary t) ->
  om_sorted (t_primary (fst (apply_wop (mirror_wop c) t))) /\
  contents (fst (apply_wop (mirror_wop c) t)) = apply_c (contents t) c.
Proof.
  intros Hs. unfold mirror_wop, apply_c, contents, pk. destruct (snd c); cbn [apply_wop].
  - rewrite delete0_primary by exact Hs. split; [now apply om_delete_sorted|].
    apply (mapv_delete (fun o => p_val (o_data o))).
  - rewrite modify0_primary. cbn [mirror_payload p_id]. split; [now apply om_insert_sorted|].
    rewrite (mapv_insert (fun o => p_val (o_data o))). unfold new_object. reflexivity.
Qed.

Lemma mirror_wops_contents l : forall t, om_sorted (t_primary t) ->
  om_sorted (t_primary (fst (run_wops t (map mirror_wop l)))) /\
  contents (fst (run_wops t (map mirror_wop l))) = fold_left apply_c l (contents t).
Proof.
  induction l as [|c r IH]; intros t Hs; cbn [map run_wops fold_left fst]; [auto|].
  destruct (mirror_wop_contents c t Hs) as [Hs1 Hc1].
  destruct (apply_wop (mirror_wop c) t) as [t1 x]. cbn [fst] in *.
  destruct (IH t1 Hs1) as [Hs2 Hc2]. destruct (run_wops t1 (map mirror_wop r)) as [t2 xs]. cbn [fst] in *.
  rewrite <- Hc1. auto.
Qed.

(* write_txn.go Commit, the part that builds the new root *)
Definition commit_fin (t : table) : table :=
  match t_init t with
  | Some (w, []) => mkT (t_rev t) (t_primary t) (t_revidx t) (t_grave t) (t_graverev t)
                        (t_u t) (t_n t) (t_lu t) (t_ln t) (t_trackers t) None
  | _ => t end.
Definition commit_entry (e : table * bool) (cur : table) : table :=
  match e with (t, true) => commit_fin t | (_, false) => cur end.

Lemma commit_fin_primary t : t_primary (commit_fin t) = t_primary t.
Proof. unfold commit_fin. destruct (t_init t) as [[w [|]]|]; reflexivity. Qed.

Lemma step_commit_root d es old sid : d_txn d = Some (es, old) ->
  d_root (fst (step d (OCommit sid))) = zip_with commit_entry es (d_root d) /\
  d_txn (fst (step d (OCommit sid))) = None.
Proof. intros H. cbn [step]. rewrite H. cbn [fst d_root d_txn]. split; reflexivity. Qed.

(* OInitDone on a locked entry only touches t_init *)
Lemma step_initdone_locked d es old tab name t : d_txn d = Some (es, old) -> nth_error es tab = Some (t, true) ->
  exists t', d_txn (fst (step d (OInitDone tab name))) = Some (upd_nth tab (fun _ => (t', true)) es, old) /\
             t_primary t' = t_primary t /\ d_root (fst (step d (OInitDone tab name))) = d_root d.
Proof.
  intros E1 E2. cbn [step]. unfold with_locked. rewrite E1, E2.
  destruct (t_init t) as [[w p]|]; cbn [fst set_txn d_txn d_root]; eexists; split; try reflexivity; split; reflexivity.
Qed.

Lemma run_two_outs d a b : snd (run d [a; b]) = [snd (step d a); snd (step (fst (step d a)) b)].
Proof. cbn [run]. destruct (step d a) as [d1 x]. cbn [fst snd]. destruct (step d1 b) as [d2 y]. reflexivity. Qed.

Theorem derive_mirror_iter ds d d' ds' ops tout l w :
  d_txn d = None ->
  nth_error (d_root d) (dv_out ds) = Some tout -> om_sorted (t_primary tout) ->
  derive_iter (tr_std 0) ds d = (d', ds', ops) ->
  snd (step (fst (step d (OBegin [dv_out ds]))) (ONext (dv_iid ds) STxn None)) = OutChanges l w ->
  (exists tout', nth_error (d_root d') (dv_out ds) = Some tout' /\ om_sorted (t_primary tout') /\
                 contents tout' = fold_left apply_c l (contents tout)) /\
  (forall i, i <> dv_out ds -> nth_error (d_root d') i = nth_error (d_root d) i) /\
  d_txn d' = None.
Proof.
  intros Hn Hout Hs H Hl.
  destruct (derive_iter_shape _ _ _ _ _ _ H) as [[_ [_ [_ C]]]|
    [x [l0 [w0 [d2 [o2 [o3 [marked [initw [H1 [H2 [H3 [H4 [H5 H6]]]]]]]]]]]]]].
  { exfalso. rewrite run_two_outs, Hl in C. eapply C. reflexivity. }
  assert (l0 = l).
  { pose proof (run_two_outs d (OBegin [dv_out ds]) (ONext (dv_iid ds) STxn None)) as R.
    rewrite H1, Hl in R. cbn [snd] in R. injection R as _ -> _. reflexivity. }
  subst l0. clear H1 Hl.
  destruct (derive_begin_next d (dv_out ds) (dv_iid ds) Hn) as [R1 T1].
  set (d1 := fst (run d [OBegin [dv_out ds]; ONext (dv_iid ds) STxn None])) in *.
  set (es0 := upd_nth (dv_out ds) (fun e => (fst e, true)) (map (fun t => (t, false)) (d_root d))) in *.
  assert (E0 : nth_error es0 (dv_out ds) = Some (tout, true)).
  { unfold es0. rewrite (nth_error_upd_nth_same (fun e => (fst e, true)) (dv_out ds) _ (tout, false)); [reflexivity|].
    rewrite nth_error_map, Hout. reflexivity. }
  assert (E0' : forall i, i <> dv_out ds -> nth_error es0 i = option_map (fun t => (t, false)) (nth_error (d_root d) i)).
  { intros i Hi. unfold es0. rewrite nth_error_upd_nth_other by congruence. apply nth_error_map. }
  rewrite apply_changes_mirror in H2. injection H2 as Hd2 Ho2.
  destruct (txn_wops (map mirror_wop l) d1 (dv_out ds) es0 (d_root d) tout T1 E0) as [es2 [T2 [E2 [F2 [R2 _]]]]].
  rewrite Hd2 in T2, R2.
  destruct (mirror_wops_contents l tout Hs) as [Hs2 Hc2].
  set (t2 := fst (run_wops tout (map mirror_wop l))) in *.
  (* the initializer check *)
  assert (H3' : exists es3 t3, d_txn (fst (run d2 o3)) = Some (es3, d_root d) /\
                  nth_error es3 (dv_out ds) = Some (t3, true) /\ t_primary t3 = t_primary t2 /\
                  (forall i, i <> dv_out ds -> nth_error es3 i = nth_error es2 i) /\
                  d_root (fst (run d2 o3)) = d_root d2).
  { destruct (init_ops_cases _ _ _ _ _ H3) as [[_ [_ ->]]|[[_ [_ ->]]|[_ [_ [-> _]]]]].
    - exists es2, t2. cbn [run fst]. auto.
    - exists es2, t2. cbn [run fst]. auto.
    - rewrite run_single.
      destruct (step_initdone_locked d2 es2 (d_root d) (dv_out ds) (dv_name ds) t2 T2 E2) as [t3 [A [B C]]].
      exists (upd_nth (dv_out ds) (fun _ => (t3, true)) es2), t3. split; [exact A|]. split.
      + erewrite nth_error_upd_nth_same; [reflexivity|exact E2].
      + split; [exact B|]. split; [|exact C]. intros i Hi. apply nth_error_upd_nth_other. congruence. }
  destruct H3' as [es3 [t3 [T3 [E3 [P3 [F3 R3]]]]]].
  rewrite run_single in H4.
  destruct (step_commit_root (fst (run d2 o3)) es3 (d_root d) (dv_sid ds) T3) as [R4 T4].
  rewrite <- H4 in R4, T4. rewrite R3, R2, R1 in R4.
  split; [|split; [|exact T4]].
  - exists (commit_fin t3). rewrite R4, nth_error_zip_with, E3, Hout. cbn [commit_entry].
    split; [reflexivity|]. unfold contents. rewrite commit_fin_primary, P3. split; [exact Hs2|exact Hc2].
  - intros i Hi. rewrite R4, nth_error_zip_with, (F3 i Hi), (F2 i Hi), (E0' i Hi).
    destruct (nth_error (d_root d) i); reflexivity.
Qed.

(* ==== the hypotheses are satisfiable ======================================================================= *)
(* table 0 has a pending initializer (5) when Derive(0 -> 1) starts; the loop registers, runs one iteration
   that sees the input uninitialized (does not mark), the user inserts b, deletes a, finishes the initializer;
   the next iteration mirrors both changes and marks Derive's own initializer *)
Definition cx_pa (v : N) := mkP [97] v [] [] [] [].
Definition cx_pb (v : N) := mkP [98] v [] [] [] [].
Definition cx_pre : list cop :=
  [CUser (OBegin [0%nat]); CUser (ORegInit 0 5); CUser (OInsert 0 (cx_pa 1)); CUser (OCommit 1);
   CDeriveStart 0 1; CDeriveGo; CDeriveGo;
   CUser (OBegin [0%nat]); CUser (OInsert 0 (cx_pb 2)); CUser (ODelete 0 [97]); CUser (OInitDone 0 5); CUser (OCommit 2)].
Definition cx_s : csys := fst (fst (crun (init_csys 2 0) cx_pre)).
Definition cx_ds : dstate := mkDS 0 1 derive_iid derive_name derive_sid false DReady.

Example crun_is_run_nonvacuous :
  length (snd (crun (init_csys 2 0) (cx_pre ++ [CDeriveGo; CDeriveGo]))) = 28%nat /\
  cs_db (fst (fst (crun (init_csys 2 0) (cx_pre ++ [CDeriveGo; CDeriveGo])))) =
  fst (run (init_db 2) (snd (crun (init_csys 2 0) (cx_pre ++ [CDeriveGo; CDeriveGo])))).
Proof. vm_compute. split; reflexivity. Qed.

Example derive_init_nonvacuous :
  cs_d cx_s = Some cx_ds /\ d_txn (cs_db cx_s) = None /\ dv_in cx_ds <> dv_out cx_ds /\ dv_marked cx_ds = false /\
  (* the iteration before: input not initialized, not marked, no OInitDone *)
  (let s0 := fst (fst (crun (init_csys 2 0) (firstn 6 cx_pre))) in
   match cs_d s0 with
   | Some ds0 => dv_marked (snd (fst (derive_iter (tr_std 0) ds0 (cs_db s0)))) = false /\
                 snd (derive_iter (tr_std 0) ds0 (cs_db s0)) =
                   [OBegin [1%nat]; ONext derive_iid STxn None; OInsert 1 (cx_pa 1); OCommit derive_sid]
   | None => False end) /\
  (* this iteration: marks, OInitDone after the writes and before the Commit *)
  dv_marked (snd (fst (derive_iter (tr_std 0) cx_ds (cs_db cx_s)))) = true /\
  snd (derive_iter (tr_std 0) cx_ds (cs_db cx_s)) =
    [OBegin [1%nat]; ONext derive_iid STxn None; OInsert 1 (cx_pb 2); ODelete 1 [97];
     OInitDone 1 derive_name; OCommit derive_sid] /\
  option_map (fun t => fst (fst (q_init t))) (nth_error (d_root (cs_db cx_s)) 0) = Some true.
Proof. vm_compute. repeat split; try reflexivity. discriminate. Qed.

Example derive_mirror_iter_nonvacuous :
  d_txn (cs_db cx_s) = None /\
  (exists tout, nth_error (d_root (cs_db cx_s)) (dv_out cx_ds) = Some tout /\ om_sorted (t_primary tout) /\
                contents tout = [([97], 1)]) /\
  map (fun c => (pk (fst c), p_val (o_data (fst c)), snd c))
      (match snd (step (fst (step (cs_db cx_s) (OBegin [dv_out cx_ds]))) (ONext (dv_iid cx_ds) STxn None)) with
       | OutChanges l _ => l | _ => [] end) = [([98], 2, false); ([97], 1, true)] /\
  map contents (d_root (fst (fst (derive_iter (tr_std 0) cx_ds (cs_db cx_s))))) = [[([98], 2)]; [([98], 2)]].
Proof.
  split; [vm_compute; reflexivity|]. split; [|split; vm_compute; reflexivity].
  eexists. split; [vm_compute; reflexivity|]. split; [|vm_compute; reflexivity].
  cbn. repeat constructor.
Qed.
