(* Table/Clients.v — the two in-tree clients of change iterators, as coded:
     derive.go      Derive / derive.loop   (a table derived from another through a transform function)
     observable.go  Observable / Observe   (a table's changes as a stream of callbacks)
   Both are written as PROGRAMS OVER Table/Model.v's operations: every client step is the execution of a
   list of `op`s chosen from the current state, and the function returns that list, so that a run of user
   operations interleaved with client steps is literally `run d ops` for the concatenated list
   (`crun_is_run`, Table/ClientsProofs.v) and every theorem about runs (C03, C07, C08, C19) applies to it.
   No proofs in this file. *)
From Coq Require Import List NArith Bool.
Import ListNotations.
From SV Require Import Base.Bytes Base.OrdMap Table.Model.
Local Open Scope N_scope.

(* ---- derive.go --------------------------------------------------------------------------------------------- *)
Inductive dres := DInsert | DUpdate | DDelete | DSkip.          (* DeriveResult *)
Definition transform := object -> bool -> payload * dres.        (* func(obj In, deleted bool) (Out, DeriveResult) *)

(* where the loop goroutine is *)
Inductive dphase :=
| DReg                                        (* before `txn := d.DB.WriteTxn(d.InTable); iter := Changes(txn); txn.Commit()` *)
| DReady                                      (* at the top of the for loop (before `wtxn := d.DB.WriteTxn(out)`) *)
| DWait (watchrev : N) (initw : option N).    (* in the select: watch = revision-index root watch of the in-table version
                                                 with revision watchrev; init = the in-table's initialization watch *)
Record dstate := mkDS {
  dv_in : nat; dv_out : nat; dv_iid : N; dv_name : N; dv_sid : N;
  dv_marked : bool;                            (* d.markInit == nil *)
  dv_phase : dphase
}.
Definition set_phase (ds : dstate) (marked : bool) (ph : dphase) : dstate :=
  mkDS (dv_in ds) (dv_out ds) (dv_iid ds) (dv_name ds) (dv_sid ds) marked ph.

(* Derive(): wtxn := DB.WriteTxn(OutTable); markInit := OutTable.RegisterInitializer(wtxn, jobName); wtxn.Commit() *)
Definition derive_start_ops (ds : dstate) : list op :=
  [OBegin [dv_out ds]; ORegInit (dv_out ds) (dv_name ds); OCommit (dv_sid ds)].

(* loop prologue *)
Definition derive_reg_ops (ds : dstate) : list op :=
  [OBegin [dv_in ds]; OChanges (dv_iid ds) (dv_in ds); OCommit (dv_sid ds)].

(* the body of `for change := range changes`: the write (if any) one delivered change turns into. DeriveUpdate
   reads the out table through the open transaction: out.Get(wtxn, PrimaryIndexer().QueryFromObject(outObj)) *)
Definition change_ops (tr : transform) (out : nat) (d : db) (c : object * bool) : list op :=
  let '(p, r) := tr (fst c) (snd c) in
  match r with
  | DInsert => [OInsert out p]
  | DUpdate => match src_root d STxn with
               | Some root => match nth_error root out with
                              | Some t => match q_get IPrimary (p_id p) t with
                                          | Some _ => [OInsert out p]
                                          | None => [] end
                              | None => [] end
               | None => [] end
  | DDelete => [ODelete out (p_id p)]
  | DSkip => []
  end.

Fixpoint apply_changes (tr : transform) (out : nat) (d : db) (l : list (object * bool)) : db * list op :=
  match l with
  | [] => (d, [])
  | c :: r => let ops := change_ops tr out d c in
              let d1 := fst (run d ops) in
              let '(d2, ops2) := apply_changes tr out d1 r in
              (d2, ops ++ ops2)
  end.

(* `if d.markInit != nil { if ok, ch := d.InTable.Initialized(wtxn); ok { d.markInit(wtxn); d.markInit = nil } else { init = ch } }`
   evaluated in the open transaction (the in-table is not locked: its entry is the root's at WriteTxn time) *)
Definition init_ops (ds : dstate) (d : db) : list op * bool * option N :=
  if dv_marked ds then ([], true, None)
  else match src_root d STxn with
       | Some root => match nth_error root (dv_in ds) with
                      | Some t => let '(i, _, w) := q_init t in
                                  if i then ([OInitDone (dv_out ds) (dv_name ds)], true, None)
                                  else ([], false, w)
                      | None => ([], false, None) end
       | None => ([], false, None) end.

(* one iteration of the for loop up to the select *)
Definition derive_iter (tr : transform) (ds : dstate) (d : db) : db * dstate * list op :=
  let o1 := [OBegin [dv_out ds]; ONext (dv_iid ds) STxn None] in
  let '(d1, outs) := run d o1 in
  match outs with
  | [_; OutChanges l wclosed] =>
    let '(d2, o2) := apply_changes tr (dv_out ds) d1 l in
    let '(o3, marked, initw) := init_ops ds d2 in
    let d3 := fst (run d2 o3) in
    let o4 := [OCommit (dv_sid ds)] in
    let d4 := fst (run d3 o4) in
    let wr := match assoc (dv_iid ds) (d_iters d4) with Some it => it_watchrev it | None => 0 end in
    (d4, set_phase ds marked (if wclosed then DReady else DWait wr initw), o1 ++ o2 ++ o3 ++ o4)
  | _ => (d, ds, [])          (* iterator not registered: not reachable from derive_start / DReg *)
  end.

(* is the loop goroutine runnable: not in the select, or one of the select's channels is closed *)
Definition d_ready (ds : dstate) (d : db) : bool :=
  match dv_phase ds with
  | DReg | DReady => true
  | DWait wr iw =>
    negb (match nth_error (d_root d) (dv_in ds) with Some t => t_rev t =? wr | None => true end)
    || match iw with Some w => existsb (N.eqb w) (d_closedw d) | None => false end
  end.

(* `dgo`: let the goroutine run from where it is to its next WriteTxn / select *)
Definition derive_go (tr : transform) (ds : dstate) (d : db) : db * dstate * list op * bool :=
  match d_txn d with
  | Some _ => (d, ds, [], false)         (* the harness never runs the loop while it holds a transaction itself *)
  | None =>
    if negb (d_ready ds d) then (d, ds, [], false)
    else match dv_phase ds with
         | DReg => let ops := derive_reg_ops ds in
                   (fst (run d ops), set_phase ds (dv_marked ds) DReady, ops, true)
         | _ => let '(d', ds', ops) := derive_iter tr ds d in (d', ds', ops, true)
         end
  end.

(* the transform of the harness: behaviour selected by the object's value
     live object   : val mod 4   = 0 insert | 1 update | 2 delete | 3 skip
     deleted object: val/4 mod 4 = 0 delete | 1 update | 2 skip   | 3 insert
   mode 0 (mirror): insert live objects, delete deleted ones. The out object copies id and value. *)
Definition tr_std (mode : N) (o : object) (deleted : bool) : payload * dres :=
  let p := mkP (p_id (o_data o)) (p_val (o_data o)) [] [] [] [] in
  if mode =? 0 then (p, if deleted then DDelete else DInsert)
  else
    let v := p_val (o_data o) in
    if deleted then
      (p, match (v / 4) mod 4 with 0 => DDelete | 1 => DUpdate | 2 => DSkip | _ => DInsert end)
    else
      (p, match v mod 4 with 0 => DInsert | 1 => DUpdate | 2 => DDelete | _ => DSkip end).

(* ---- observable.go ----------------------------------------------------------------------------------------- *)
(* The observer goroutine cannot be held back between waking up and taking its read transaction (ReadTxn has no
   hook point), so the model is eager: whenever the watch channel it waits on has been closed it runs at once, up
   to its first `next(change)` callback, where the harness holds it. *)
Inductive ophase :=
| OReg                           (* before WriteTxn / Changes / Commit (held at the hook point of WriteTxn) *)
| OHold (c : object * bool)      (* inside `next(c)`: the callback has been entered and has not returned yet *)
| OWait (watchrev : N)           (* in the select on ctx.Done() and the watch channel returned by Next *)
| ODone.                         (* returned: complete(nil) called, iterator closed *)
Record ostate := mkOS { ov_tab : nat; ov_iid : N; ov_sid : N; ov_phase : ophase }.
Definition oset (os : ostate) (ph : ophase) : ostate := mkOS (ov_tab os) (ov_iid os) (ov_sid os) ph.

Definition observe_reg_ops (os : ostate) : list op :=
  [OBegin [ov_tab os]; OChanges (ov_iid os) (ov_tab os); OCommit (ov_sid os)].

(* can the goroutine be released by the harness (it is held at a hook point / inside the callback) *)
Definition o_held (os : ostate) : bool :=
  match ov_phase os with OReg | OHold _ => true | _ => false end.

(* has the select's watch channel been closed *)
Definition o_woken (os : ostate) (d : db) : bool :=
  match ov_phase os with
  | OWait wr => negb (match nth_error (d_root d) (ov_tab os) with Some t => t_rev t =? wr | None => true end)
  | _ => false
  end.

(* run from "the callback has returned" / "about to call iter.Next(db.ReadTxn())" until the next callback is
   entered (OHold) or the goroutine blocks in the select (OWait). Each turn of the fuel is one of: continue the
   sequence in flight (OResume .. (Some 1)), or call Next and start consuming (ONext .. SFresh (Some 1)). *)
Fixpoint observe_run (fuel : nat) (os : ostate) (d : db) (acc : list op) : db * ostate * list op :=
  match fuel with
  | O => (d, os, acc)
  | S f =>
    let in_seq := match assoc (ov_iid os) (d_iters d) with
                  | Some it => it_seq it && match it_pending it with Some _ => true | None => false end
                  | None => false end in
    let o := if in_seq then OResume (ov_iid os) (Some 1%nat) else ONext (ov_iid os) SFresh (Some 1%nat) in
    let '(d1, out) := step d o in
    match out with
    | OutChanges (c :: _) _ => (d1, oset os (OHold c), acc ++ [o])
    | OutChanges [] true => observe_run f os d1 (acc ++ [o])     (* sequence ended / refreshed and empty: closed watch, loop *)
    | OutChanges [] false =>                                       (* open watch returned: select blocks *)
      let wr := match assoc (ov_iid os) (d_iters d1) with Some it => it_watchrev it | None => 0 end in
      (d1, oset os (OWait wr), acc ++ [o])
    | _ => (d1, os, acc ++ [o])
    end
  end.

(* `ogo`: release the held goroutine: the callback returns (its change is now reported) / registration runs;
   it then runs to its next callback or to the select *)
Definition observe_go (os : ostate) (d : db) : db * ostate * list op * option (object * bool) * bool :=
  match d_txn d, ov_phase os with
  | None, OReg => let ops := observe_reg_ops os in
                  let '(d', os', ops') := observe_run 4 os (fst (run d ops)) ops in
                  (d', os', ops', None, true)
  | None, OHold c =>
    (* c is reported now; should the run below not reach a callback or the select (out of fuel: never, three turns
       suffice), the goroutine counts as still running: a waiter on an already closed channel *)
    let '(d', os', ops) := observe_run 4 (oset os (OWait 0)) d [] in (d', os', ops, Some c, true)
  | _, _ => (d, os, [], None, false)
  end.

(* after every step of anybody: a waiting observer whose watch channel has been closed runs *)
Definition observe_wake (os : ostate) (d : db) : db * ostate * list op :=
  if o_woken os d then observe_run 4 os d [] else (d, os, []).

(* ctx cancelled: whatever the goroutine is doing it enters no further callback (ctx.Err() is checked before
   every `next`), leaves through `case <-ctx.Done()` and runs the deferred iter.Close() *)
Definition observe_cancel (os : ostate) (d : db) : db * ostate * list op * bool :=
  match d_txn d, ov_phase os with
  | Some _, _ => (d, os, [], false)
  | None, ODone => (d, os, [], false)
  | None, OReg => (d, os, [], false)          (* the harness cancels only after registration *)
  | None, _ => let ops := [OClose (ov_iid os)] in (fst (run d ops), oset os ODone, ops, true)
  end.

(* ---- a system of the database, one Derive job and one observer, driven by the harness ---------------------- *)
Inductive cop :=
| CUser (o : op)
| CDeriveStart (inn out : nat)      (* statedb.Derive(...)(params) + the job starts: goroutine parked before its first WriteTxn *)
| CDeriveGo
| CDeriveStat
| CObserveStart (tab : nat)
| CObserveGo
| CObserveCancel
| CObserveStat.

Inductive cout :=
| CoOut (o : out)
| CoRan (ran : bool) (ready_after : bool)
| CoDelivered (ran : bool) (c : option (object * bool)) (ready_after : bool)
| CoStat (ready : bool).

Record csys := mkCS { cs_db : db; cs_d : option dstate; cs_o : option ostate; cs_mode : N }.

(* ids reserved for the clients (the harness' own iterators / snapshots / initializers use small numbers) *)
Definition derive_iid : N := 9001.  Definition derive_name : N := 9002.  Definition derive_sid : N := 9003.
Definition observe_iid : N := 9011. Definition observe_sid : N := 9013.

(* one harness action, without the observer's eager wake-up *)
Definition cstep0 (s : csys) (c : cop) : csys * cout * list op :=
  match c with
  | CUser o => let '(d', x) := step (cs_db s) o in (mkCS d' (cs_d s) (cs_o s) (cs_mode s), CoOut x, [o])
  | CDeriveStart inn out =>
    match cs_d s, d_txn (cs_db s) with
    | None, None =>
      let ds := mkDS inn out derive_iid derive_name derive_sid false DReg in
      let ops := derive_start_ops ds in
      (mkCS (fst (run (cs_db s) ops)) (Some ds) (cs_o s) (cs_mode s), CoRan true true, ops)
    | _, _ => (s, CoRan false false, [])
    end
  | CDeriveGo =>
    match cs_d s with
    | Some ds => let '(d', ds', ops, ran) := derive_go (tr_std (cs_mode s)) ds (cs_db s) in
                 (mkCS d' (Some ds') (cs_o s) (cs_mode s), CoRan ran (d_ready ds' d'), ops)
    | None => (s, CoRan false false, [])
    end
  | CDeriveStat =>
    match cs_d s with
    | Some ds => (s, CoStat (d_ready ds (cs_db s)), [])
    | None => (s, CoStat false, [])
    end
  | CObserveStart tab =>
    match cs_o s with
    | None => (mkCS (cs_db s) (cs_d s) (Some (mkOS tab observe_iid observe_sid OReg)) (cs_mode s), CoRan true true, [])
    | Some _ => (s, CoRan false false, [])
    end
  | CObserveGo =>
    match cs_o s with
    | Some os => let '(d', os', ops, c, ran) := observe_go os (cs_db s) in
                 (mkCS d' (cs_d s) (Some os') (cs_mode s), CoDelivered ran c (o_held os'), ops)
    | None => (s, CoDelivered false None false, [])
    end
  | CObserveCancel =>
    match cs_o s with
    | Some os => let '(d', os', ops, ran) := observe_cancel os (cs_db s) in
                 (mkCS d' (cs_d s) (Some os') (cs_mode s), CoRan ran false, ops)
    | None => (s, CoRan false false, [])
    end
  | CObserveStat =>
    match cs_o s with
    | Some os => (s, CoStat (o_held os), [])
    | None => (s, CoStat false, [])
    end
  end.

Definition cstep (s : csys) (c : cop) : csys * cout * list op :=
  let '(s1, x, ops1) := cstep0 s c in
  match cs_o s1 with
  | Some os => let '(d', os', ops2) := observe_wake os (cs_db s1) in
               (mkCS d' (cs_d s1) (Some os') (cs_mode s1), x, ops1 ++ ops2)
  | None => (s1, x, ops1)
  end.

Definition init_csys (ntab : nat) (mode : N) : csys := mkCS (init_db ntab) None None mode.

(* a run of the system; third component: the Table/Model.v operations it executed, in order *)
Fixpoint crun (s : csys) (cs : list cop) : csys * list cout * list op :=
  match cs with
  | [] => (s, [], [])
  | c :: r => let '(s1, x, ops1) := cstep s c in
              let '(s2, xs, ops2) := crun s1 r in
              (s2, x :: xs, ops1 ++ ops2)
  end.
