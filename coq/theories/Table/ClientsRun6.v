(* Table/ClientsRun6.v — part H3, continued: the usage hypotheses of the C07 theorem (`created`, not registered
   before, `friendly_run`, tracker registered in the root) discharged for the OBSERVER in runs of the system in which
   the harness obeys cop_ok' (never uses the observer's iterator id; observes a table that exists); what remains is
   revision room on the flattened operations. Same method as Table/ClientsRun5.v (which does it for Derive). *)
From Coq Require Import List NArith Bool Lia.
Import ListNotations.
From SV Require Import Base.Bytes Base.OrdMap KeyEnc.Model Table.Model Table.Proofs Table.InvDefs Table.Inv Table.Inv2
                       Table.GcProofs Table.ChangesStream Table.ChangesIter Table.ChangesProofs Table.ChangesRet
                       Table.ChangesHist Table.ChangesFromInit Table.Clients Table.ClientsProofs Table.ClientsProofs2
                       Table.ClientsRun Table.ClientsRun2 Table.ClientsRun3 Table.ClientsRun4 Table.ClientsRun5.
Local Open Scope N_scope.

Definition NTo (l : list N) : Prop := ~ In observe_iid l.
Definition TRo (l : list N) : Prop := In observe_iid l.
Definition untouched_o (l : list op) : bool := forallb (fun o => negb (touches observe_iid o)) l.

Lemma run_NTo i l : forall d, untouched_o l = true -> tentryP i NTo d -> tentryP i NTo (fst (run d l)).
Proof.
  induction l as [|o r IH]; intros d H HP; cbn [run]; [exact HP|].
  unfold untouched_o in H. cbn [forallb] in H. apply andb_true_iff in H. destruct H as [Ho Hr].
  assert (H1 : tentryP i NTo (fst (step d o))).
  { apply step_tentryP; auto.
    - intros j tab l -> Hl Hin. apply in_app_or in Hin. destruct Hin as [Hin|[E|[]]]; [auto|].
      subst j. cbn [touches] in Ho. rewrite N.eqb_refl in Ho. discriminate.
    - intros j l _ Hl Hin. apply filter_In in Hin. destruct Hin; auto. }
  specialize (IH _ Hr H1). destruct (step d o) as [d1 x]. cbn [fst] in *. destruct (run d1 r) as [d2 xs]. exact IH.
Qed.

Lemma run_TRo i l : forall d, untouched_o l = true -> tentryP i TRo d -> tentryP i TRo (fst (run d l)).
Proof.
  induction l as [|o r IH]; intros d H HP; cbn [run]; [exact HP|].
  unfold untouched_o in H. cbn [forallb] in H. apply andb_true_iff in H. destruct H as [Ho Hr].
  assert (H1 : tentryP i TRo (fst (step d o))).
  { apply step_tentryP; auto.
    - intros j tab l _ Hl. apply in_or_app. auto.
    - intros j l -> Hl. apply filter_In. split; [exact Hl|]. cbn [touches] in Ho. rewrite N.eqb_sym. exact Ho. }
  specialize (IH _ Hr H1). destruct (step d o) as [d1 x]. cbn [fst] in *. destruct (run d1 r) as [d2 xs]. exact IH.
Qed.

(* operations that are friendly to the observer's iterator in every state *)
Definition afo (o : op) : bool :=
  match o with
  | OChanges i _ | ONext i _ _ => negb (i =? observe_iid)
  | OAbort => false
  | _ => true
  end.
Definition qopo (o : op) : bool := negb (touches observe_iid o) && afo o.

Lemma afo_friendly tab l : forall d, forallb afo l = true -> friendly_run observe_iid tab d l.
Proof.
  induction l as [|o r IH]; intros d H; cbn [friendly_run]; [exact I|].
  cbn [forallb] in H. apply andb_true_iff in H. destruct H as [Ho Hr]. split; [|auto].
  destruct o; cbn [friendly afo] in *; auto; try discriminate.
  - apply negb_true_iff, N.eqb_neq in Ho. exact Ho.
  - intros ->. rewrite N.eqb_refl in Ho. discriminate.
Qed.

Lemma qopo_split l : forallb qopo l = true -> untouched_o l = true /\ forallb afo l = true.
Proof.
  induction l as [|o r IH]; cbn [forallb untouched_o]; [auto|]. unfold qopo at 1. rewrite !andb_true_iff.
  intros [[A B] C]. destruct (IH C) as [D E]. unfold untouched_o in D. auto.
Qed.

Lemma user_friendly_o tab d o : negb (touches observe_iid o) = true -> tentryP tab TRo d ->
  (exists cur, nth_error (d_root d) tab = Some cur) -> friendly observe_iid tab d o.
Proof.
  intros Hu [P1 _] [cur Hc].
  destruct o; cbn [friendly touches] in *; auto.
  - intros _. exists cur. split; [exact Hc|]. exact (P1 _ Hc).
  - apply negb_true_iff, N.eqb_neq in Hu. exact Hu.
  - intros ->. rewrite N.eqb_refl in Hu. discriminate.
Qed.

(* the goroutine's own operations: Next on a fresh read transaction, Resume *)
Definition isobs (o : op) : bool :=
  match o with
  | ONext i SFresh _ => i =? observe_iid
  | OResume i _ => i =? observe_iid
  | _ => false
  end.

Lemma obs_ops_friendly n tab l : (tab < n)%nat -> forall d, LInv n d -> forallb isobs l = true -> tentryP tab TRo d ->
  friendly_run observe_iid tab d l /\ tentryP tab TRo (fst (run d l)).
Proof.
  intros Htab. induction l as [|o r IH]; intros d L H T; cbn [friendly_run run]; [auto|].
  cbn [forallb] in H. apply andb_true_iff in H. destruct H as [Ho Hr].
  assert (T1 : tentryP tab TRo (fst (step d o))).
  { apply step_tentryP; auto; intros; subst o; discriminate. }
  destruct (IH _ (LInv_step n d o L) Hr T1) as [A B].
  split; [split; [|exact A]|].
  - destruct o; cbn [isobs] in Ho; try discriminate; cbn [friendly]; auto.
    destruct s; try discriminate. intros _. split; [auto|].
    destruct (LInv_root n d tab L Htab) as [cur Hc]. exists cur. split; [exact Hc|]. destruct T as [T0 _]. exact (T0 _ Hc).
  - destruct (step d o) as [d1 x]. cbn [fst] in *. destruct (run d1 r) as [d2 xs]. exact B.
Qed.

(* ==== the run-level invariant ================================================================================== *)
Definition ocl (ph : ophase) : nat := match ph with OReg => 0 | OHold _ | OWait _ => 1 | ODone => 2 end.

Definition unreg_o (d : db) (ops : list op) : Prop := untouched_o ops = true /\ forall i, tentryP i NTo d.
Definition registered_o (n tab : nat) (d : db) (ops : list op) : Prop :=
  exists pre post t0, ops = pre ++ OChanges observe_iid tab :: post /\ untouched_o pre = true /\
    created (fst (run (init_db n) pre)) observe_iid tab t0 /\
    (forall cur, nth_error (d_root (fst (run (init_db n) pre))) tab = Some cur -> ~ reg observe_iid cur) /\
    friendly_run observe_iid tab (fst (step (fst (run (init_db n) pre)) (OChanges observe_iid tab))) post /\
    tentryP tab TRo d.

Definition ost (n : nat) (so : option ostate) (d : db) (ops : list op) : Prop :=
  match so with
  | None => unreg_o d ops
  | Some os => ov_iid os = observe_iid /\ (ov_tab os < n)%nat /\
               match ocl (ov_phase os) with
               | O => unreg_o d ops
               | S O => registered_o n (ov_tab os) d ops
               | _ => True
               end
  end.

Lemma run_split_o n pre tab post :
  fst (run (init_db n) (pre ++ OChanges observe_iid tab :: post)) =
  fst (run (fst (step (fst (run (init_db n) pre)) (OChanges observe_iid tab))) post).
Proof.
  rewrite run_app. change (OChanges observe_iid tab :: post) with ([OChanges observe_iid tab] ++ post).
  rewrite run_app, run_single. reflexivity.
Qed.

Lemma registered_o_leg n tab d ops l : (tab < n)%nat -> d = fst (run (init_db n) ops) ->
  registered_o n tab d ops -> untouched_o l = true ->
  (tentryP tab TRo d -> friendly_run observe_iid tab d l) ->
  registered_o n tab (fst (run d l)) (ops ++ l).
Proof.
  intros Htab Hd [pre [post [t0 [E [U [C [F [R T]]]]]]]] Hu Hf. exists pre, (post ++ l), t0.
  split; [rewrite E, <- app_assoc; reflexivity|]. split; [exact U|]. split; [exact C|]. split; [exact F|].
  split; [|now apply run_TRo].
  apply friendly_run_app. split; [exact R|]. rewrite <- run_split_o, <- E, <- Hd. auto.
Qed.

Lemma ost_leg n so d ops l : d = fst (run (init_db n) ops) -> ost n so d ops -> untouched_o l = true ->
  (forall tab, (tab < n)%nat -> tentryP tab TRo d -> friendly_run observe_iid tab d l) ->
  ost n so (fst (run d l)) (ops ++ l).
Proof.
  intros Hd H Hu Hf.
  assert (Hun : unreg_o d ops -> unreg_o (fst (run d l)) (ops ++ l)).
  { intros [U T]. split; [unfold untouched_o in *; rewrite forallb_app, U, Hu; reflexivity|].
    intros i. now apply run_NTo. }
  destruct so as [os|]; cbn [ost] in *; [|auto]. destruct H as [A [B C]]. split; [exact A|]. split; [exact B|].
  destruct (ocl (ov_phase os)) as [|[|k]]; auto. apply registered_o_leg; auto.
Qed.

Record OG (n : nat) (s : csys) (ops : list op) : Prop := mkOG {
  og_db : cs_db s = fst (run (init_db n) ops);
  og_d : forall ds, cs_d s = Some ds -> dv_iid ds = derive_iid;
  og_st : ost n (cs_o s) (cs_db s) ops
}.

Lemma OG_leg n s ops d' l sd :
  OG n s ops -> d' = fst (run (cs_db s) l) -> untouched_o l = true ->
  (forall tab, (tab < n)%nat -> tentryP tab TRo (cs_db s) -> friendly_run observe_iid tab (cs_db s) l) ->
  (forall ds, sd = Some ds -> dv_iid ds = derive_iid) ->
  OG n (mkCS d' sd (cs_o s) (cs_mode s)) (ops ++ l).
Proof.
  intros [I1 I2 I3] -> Hu Hf Hsd. constructor; cbn [cs_db cs_d cs_o cs_mode]; auto.
  - rewrite run_app, <- I1. reflexivity.
  - apply ost_leg; auto.
Qed.

Lemma OG_qleg n s ops d' l sd :
  OG n s ops -> d' = fst (run (cs_db s) l) -> forallb qopo l = true ->
  (forall ds, sd = Some ds -> dv_iid ds = derive_iid) ->
  OG n (mkCS d' sd (cs_o s) (cs_mode s)) (ops ++ l).
Proof.
  intros HI Hd Hq Hsd. destruct (qopo_split _ Hq) as [A B]. apply OG_leg; auto. intros tab _ _. now apply afo_friendly.
Qed.

Lemma OG_eta' n s ops : OG n s ops -> OG n (mkCS (cs_db s) (cs_d s) (cs_o s) (cs_mode s)) (ops ++ []).
Proof. intros HI. eapply OG_qleg; eauto. exact (og_d _ _ _ HI). Qed.
Lemma OG_eta n s ops : OG n s ops -> OG n s (ops ++ []).
Proof. intros HI. pose proof (OG_eta' n s ops HI) as H. destruct s; exact H. Qed.

(* the operations of an iteration of the loop never concern the observer's iterator *)
Lemma derive_iter_qo tr ds d d' ds' ops : derive_iter tr ds d = (d', ds', ops) -> dv_iid ds = derive_iid ->
  forallb qopo ops = true.
Proof.
  intros H Hi. destruct (derive_iter_shape _ _ _ _ _ _ H) as [[_ [_ [-> _]]]|
    [x [l [w [d2 [o2 [o3 [marked [initw [H1 [H2 [H3 [H4 [H5 ->]]]]]]]]]]]]]]; [reflexivity|].
  rewrite Hi, !forallb_app.
  pose proof (apply_changes_dwrite tr (dv_out ds) l (fst (run d [OBegin [dv_out ds]; ONext (dv_iid ds) STxn None]))) as Hw.
  rewrite H2 in Hw. cbn [snd] in Hw.
  assert (Hq : forallb qopo o2 = true).
  { rewrite forallb_forall in *. intros o Ho. specialize (Hw o Ho). destruct o; try discriminate; reflexivity. }
  rewrite Hq.
  destruct (init_ops_cases _ _ _ _ _ H3) as [[_ [_ ->]]|[[_ [_ ->]]|[_ [_ [-> _]]]]]; reflexivity.
Qed.

Lemma ost_class n os os' d ops :
  ov_iid os' = ov_iid os -> ov_tab os' = ov_tab os -> ocl (ov_phase os') = ocl (ov_phase os) ->
  ost n (Some os) d ops -> ost n (Some os') d ops.
Proof. intros A B C. cbn [ost]. rewrite A, B, C. auto. Qed.

(* the phase class after one run of the goroutine *)
Lemma observe_run_class fuel os d acc : ocl (ov_phase os) = 1%nat ->
  ocl (ov_phase (snd (fst (observe_run fuel os d acc)))) = 1%nat.
Proof.
  intros H. destruct (observe_run_delivered fuel os d acc) as [ops1 [_ K]]. cbv zeta in K.
  destruct K as [[c [-> _]]|[_ [->|[wr ->]]]]; auto.
Qed.

(* one run of the goroutine of a registered observer *)
Lemma OG_observe_run n s ops os ph d' os' ops' :
  OG n s ops -> cs_o s = Some os -> ocl (ov_phase os) = 1%nat -> ocl ph = 1%nat ->
  observe_run 4 (oset os ph) (cs_db s) [] = (d', os', ops') ->
  OG n (mkCS d' (cs_d s) (Some os') (cs_mode s)) (ops ++ ops').
Proof.
  intros HI Eo Hcl Hph H. pose proof HI as [I1 I2 I3]. rewrite Eo in I3. cbn [ost] in I3.
  destruct I3 as [Hid [Hlt Hst]]. rewrite Hcl in Hst.
  assert (L : LInv n (cs_db s)) by (rewrite I1; apply LInv_run, LInv_init).
  destruct (observe_run_ops isobs 4 (oset os ph) (cs_db s) []) as [ops1 [H1 [H2 [H3 H4]]]];
    [cbn [oset ov_iid]; rewrite Hid; reflexivity|cbn [oset ov_iid]; rewrite Hid; reflexivity|].
  pose proof (observe_run_class 4 (oset os ph) (cs_db s) [] Hph) as H5.
  rewrite H in H1, H3, H4, H5. cbn [fst snd app oset ov_iid ov_tab] in *. subst ops'.
  assert (Hd' : d' = fst (run (cs_db s) ops1)) by (eapply (observe_run_run' 4 _ (cs_db s) (cs_db s) []); eauto).
  destruct (obs_ops_friendly n (ov_tab os) ops1 Hlt (cs_db s) L H2) as [F T].
  { destruct Hst as [pre [post [t0 [_ [_ [_ [_ [_ T]]]]]]]]. exact T. }
  constructor; cbn [cs_db cs_d cs_o cs_mode]; auto.
  - rewrite Hd', run_app, <- I1. reflexivity.
  - cbn [ost]. rewrite H3, H4, H5. split; [exact Hid|]. split; [exact Hlt|]. subst d'.
    destruct Hst as [pre [post [t0 [E [U [C [Fr [R T0]]]]]]]]. exists pre, (post ++ ops1), t0.
    split; [rewrite E, <- app_assoc; reflexivity|]. split; [exact U|]. split; [exact C|]. split; [exact Fr|].
    split; [|exact T]. apply friendly_run_app. split; [exact R|]. rewrite <- run_split_o, <- E, <- I1. exact F.
Qed.

(* the registration release: registration leg, then one run of the goroutine *)
Lemma OG_register n s ops os d' os' opsg c :
  OG n s ops -> cs_o s = Some os -> ov_phase os = OReg -> d_txn (cs_db s) = None ->
  observe_go os (cs_db s) = (d', os', opsg, c, true) ->
  OG n (mkCS d' (cs_d s) (Some os') (cs_mode s)) (ops ++ opsg).
Proof.
  intros HI Eo Eph Etx Hgo. pose proof HI as [I1 I2 I3]. rewrite Eo in I3. cbn [ost] in I3.
  destruct I3 as [Hid [Hlt Hst]]. rewrite Eph in Hst. cbn [ocl] in Hst. destruct Hst as [U NT].
  assert (L : LInv n (cs_db s)) by (rewrite I1; apply LInv_run, LInv_init).
  (* where it ends *)
  assert (Hcl : ocl (ov_phase os') = 1%nat).
  { destruct (observe_go_ends n os (cs_db s) d' os' opsg c L Hlt) as [[c' ->]|[it' [cur [-> _]]]]; auto. congruence. }
  pose proof (observe_go_run _ _ _ _ _ _ _ Hgo) as Hd'.
  revert Hgo. unfold observe_go. rewrite Etx, Eph.
  destruct (observe_run 4 os (fst (run (cs_db s) (observe_reg_ops os))) (observe_reg_ops os)) as [[a b] e] eqn:E.
  intros K. injection K as <- <- <- _.
  destruct (observe_run_ops isobs 4 os (fst (run (cs_db s) (observe_reg_ops os))) (observe_reg_ops os))
    as [ops1 [H1 [H2 [H3 H4]]]]; [rewrite Hid; reflexivity|rewrite Hid; reflexivity|].
  rewrite E in H1, H3, H4. cbn [fst snd] in H1, H3, H4. subst e.
  unfold observe_reg_ops in *. rewrite Hid in *.
  set (tab := ov_tab os) in *. set (sid := ov_sid os) in *.
  destruct (reg_leg_tracker n (cs_db s) tab observe_iid sid L Etx Hlt) as [[t0 Hcr] [Hroot Htr]].
  set (d1 := fst (run (cs_db s) [OBegin [tab]; OChanges observe_iid tab; OCommit sid])) in *.
  assert (L1 : LInv n d1) by (apply LInv_run; exact L).
  destruct (obs_ops_friendly n tab ops1 Hlt d1 L1 H2 Htr) as [F T].
  constructor; cbn [cs_db cs_d cs_o cs_mode]; auto.
  - rewrite Hd', (run_app (init_db n) ops), <- I1. reflexivity.
  - cbn [ost]. rewrite H4, Hcl. split; [exact H3|]. split; [exact Hlt|].
    exists (ops ++ [OBegin [tab]]), ([OCommit sid] ++ ops1), t0.
    split; [rewrite <- !app_assoc; reflexivity|].
    split; [unfold untouched_o in *; rewrite forallb_app, U; reflexivity|].
    rewrite (run_app (init_db n) ops), <- I1, run_single.
    split; [exact Hcr|]. split; [intros cur Hcur; rewrite Hroot in Hcur; destruct (NT tab) as [T1 _]; exact (T1 _ Hcur)|].
    assert (Hd1 : fst (run (fst (step (fst (step (cs_db s) (OBegin [tab]))) (OChanges observe_iid tab))) [OCommit sid]) = d1).
    { unfold d1. change [OBegin [tab]; OChanges observe_iid tab; OCommit sid]
        with ([OBegin [tab]] ++ [OChanges observe_iid tab] ++ [OCommit sid]). rewrite !run_app, !run_single. reflexivity. }
    split.
    + apply friendly_run_app. split; [cbn; auto|]. rewrite Hd1. exact F.
    + rewrite Hd'. change [OBegin [tab]; OChanges observe_iid tab; OCommit sid]
        with ([OBegin [tab]; OChanges observe_iid tab; OCommit sid]). rewrite run_app. exact T.
Qed.

Lemma OG_cstep0 n s ops c s' x ops1 :
  OG n s ops -> cop_ok' n c = true -> cstep0 s c = (s', x, ops1) -> OG n s' (ops ++ ops1).
Proof.
  intros HI Hc. pose proof HI as [I1 I2 I3].
  assert (L : LInv n (cs_db s)) by (rewrite I1; apply LInv_run, LInv_init).
  destruct c; cbn [cstep0 cop_ok'] in *.
  - (* CUser *)
    destruct (step (cs_db s) o) as [d' y] eqn:E. intros H; injection H as <- <- <-.
    eapply OG_leg; eauto.
    + rewrite run_single, E. reflexivity.
    + unfold untouched_o. cbn [forallb]. now rewrite Hc.
    + intros tab Htab T. cbn [friendly_run]. split; [|exact I]. apply user_friendly_o; auto. now apply (LInv_root n).
  - (* CDeriveStart *)
    destruct (cs_d s) eqn:Ed; [intros H; injection H as <- <- <-; now apply OG_eta|].
    destruct (d_txn (cs_db s)); intros H; injection H as <- <- <-; [now apply OG_eta|].
    eapply OG_qleg; eauto. intros ds E. injection E as <-. reflexivity.
  - (* CDeriveGo *)
    destruct (cs_d s) as [ds|] eqn:Ed; [|intros H; injection H as <- <- <-; now apply OG_eta].
    pose proof (I2 _ eq_refl) as Di.
    destruct (derive_go (tr_std (cs_mode s)) ds (cs_db s)) as [[[d' ds'] opsg] ran] eqn:E.
    intros H; injection H as <- <- <-.
    assert (Hq : forallb qopo opsg = true /\ dv_iid ds' = derive_iid).
    { revert E. unfold derive_go. destruct (d_txn (cs_db s)); [intros E; injection E as <- <- <- <-; auto|].
      destruct (negb (d_ready ds (cs_db s))); [intros E; injection E as <- <- <- <-; auto|].
      assert (Hiter : forall d1 ds1 o1, derive_iter (tr_std (cs_mode s)) ds (cs_db s) = (d1, ds1, o1) ->
                forallb qopo o1 = true /\ dv_iid ds1 = derive_iid).
      { intros d1 ds1 o1 E. split; [eapply derive_iter_qo; eauto|].
        destruct (derive_iter_ids (tr_std (cs_mode s)) ds (cs_db s)) as [_ [B _]]. rewrite E in B. cbn [fst snd] in B.
        congruence. }
      destruct (dv_phase ds).
      - intros E; injection E as <- <- <- <-. unfold derive_reg_ops. rewrite Di. split; reflexivity || exact Di.
      - destruct (derive_iter (tr_std (cs_mode s)) ds (cs_db s)) as [[a b] e] eqn:E. intros H; injection H as <- <- <- <-. eauto.
      - destruct (derive_iter (tr_std (cs_mode s)) ds (cs_db s)) as [[a b] e] eqn:E. intros H; injection H as <- <- <- <-. eauto. }
    destruct Hq as [Hq Hi]. eapply OG_qleg; eauto.
    + eapply derive_go_run; eauto.
    + intros ds0 E0. injection E0 as <-. exact Hi.
  - (* CDeriveStat *)
    destruct (cs_d s); intros H; injection H as <- <- <-; now apply OG_eta.
  - (* CObserveStart *)
    destruct (cs_o s) eqn:Eo; intros H; injection H as <- <- <-; [now apply OG_eta|].
    apply Nat.ltb_lt in Hc. rewrite app_nil_r. constructor; cbn [cs_db cs_d cs_o cs_mode]; auto.
    cbn [ost ov_iid ov_tab ov_phase ocl]. auto.
  - (* CObserveGo *)
    destruct (cs_o s) as [os|] eqn:Eo; [|intros H; injection H as <- <- <-; now apply OG_eta].
    destruct (observe_go os (cs_db s)) as [[[[d' os'] opsg] c] ran] eqn:E.
    intros H; injection H as <- <- <-. pose proof E as Ego. revert E. unfold observe_go.
    destruct (d_txn (cs_db s)) eqn:Etx.
    { intros E; injection E as <- <- <- <- <-. rewrite <- Eo. now apply OG_eta'. }
    destruct (ov_phase os) eqn:Eph.
    + destruct (observe_run 4 os (fst (run (cs_db s) (observe_reg_ops os))) (observe_reg_ops os)) as [[a b] e] eqn:E.
      intros H; injection H as <- <- <- <- <-.
      eapply OG_register; eauto.
    + destruct (observe_run 4 (oset os (OWait 0)) (cs_db s) []) as [[a b] e] eqn:E.
      intros H; injection H as <- <- <- <- <-.
      eapply (OG_observe_run n s ops os (OWait 0)); eauto. now rewrite Eph.
    + intros E; injection E as <- <- <- <- <-. rewrite <- Eo. now apply OG_eta'.
    + intros E; injection E as <- <- <- <- <-. rewrite <- Eo. now apply OG_eta'.
  - (* CObserveCancel *)
    destruct (cs_o s) as [os|] eqn:Eo; [|intros H; injection H as <- <- <-; now apply OG_eta].
    destruct (observe_cancel os (cs_db s)) as [[[d' os'] opsg] ran] eqn:E.
    intros H; injection H as <- <- <-. revert E. unfold observe_cancel.
    destruct (d_txn (cs_db s)) eqn:Etx.
    { intros E; injection E as <- <- <- <-. rewrite <- Eo. now apply OG_eta'. }
    cbn [ost] in I3. destruct I3 as [Hid [Hlt _]].
    destruct (ov_phase os) eqn:Eph; intros E; injection E as <- <- <- <-;
      try (rewrite <- Eo; now apply OG_eta');
      (constructor; cbn [cs_db cs_d cs_o cs_mode]; auto;
       [rewrite run_app, <- I1; reflexivity|cbn [ost oset ov_iid ov_tab ov_phase ocl]; auto]).
  - (* CObserveStat *)
    destruct (cs_o s); intros H; injection H as <- <- <-; now apply OG_eta.
Qed.

Lemma OG_cstep n s ops c s' x ops1 :
  OG n s ops -> cop_ok' n c = true -> cstep s c = (s', x, ops1) -> OG n s' (ops ++ ops1).
Proof.
  intros HI Hc. unfold cstep. destruct (cstep0 s c) as [[s1 y] o1] eqn:E0.
  pose proof (OG_cstep0 n s ops c s1 y o1 HI Hc E0) as H1.
  destruct (cs_o s1) as [os|] eqn:Eo; [|intros H; injection H as <- <- <-; exact H1].
  destruct (observe_wake os (cs_db s1)) as [[d' os'] o2] eqn:Ew. intros H; injection H as <- <- <-.
  rewrite app_assoc. revert Ew. unfold observe_wake, o_woken.
  destruct (ov_phase os) eqn:Eph;
    try (intros Ew; injection Ew as <- <- <-; rewrite <- Eo; now apply OG_eta').
  match goal with |- context [if ?b then _ else _] => destruct b end;
    [|intros Ew; injection Ew as <- <- <-; rewrite <- Eo; now apply OG_eta'].
  intros Ew.
  assert (Hos : os = oset os (OWait watchrev)) by (unfold oset; rewrite <- Eph; destruct os; reflexivity).
  rewrite Hos in Ew. eapply (OG_observe_run n s1 (ops ++ o1) os (OWait watchrev)); eauto. now rewrite Eph.
Qed.

Lemma OG_crun n cs : forall s ops s' outs ops1,
  OG n s ops -> forallb (cop_ok' n) cs = true -> crun s cs = (s', outs, ops1) -> OG n s' (ops ++ ops1).
Proof.
  induction cs as [|c r IH]; intros s ops s' outs ops1 HI Hc; cbn [crun].
  - intros H; injection H as <- <- <-. now apply OG_eta.
  - cbn [forallb] in Hc. apply andb_true_iff in Hc. destruct Hc as [Hc Hr].
    destruct (cstep s c) as [[s1 x] o1] eqn:E1. destruct (crun s1 r) as [[s2 xs] o2] eqn:E2.
    intros H; injection H as <- <- <-. rewrite app_assoc.
    eapply IH; eauto. eapply OG_cstep; eauto.
Qed.

Lemma OG_init n : OG n (init_csys n 0) [].
Proof.
  constructor; cbn; auto; try discriminate. split; [reflexivity|]. intros i.
  split; cbn; [|discriminate]. intros t H. apply nth_error_In, repeat_spec in H. subst t. unfold NTo. cbn. tauto.
Qed.

(* the C07 usage hypotheses for the observer, in every run in which the harness obeys cop_ok' *)
Theorem observer_run_c07_hypotheses n cs s outs ops os :
  forallb (cop_ok' n) cs = true -> crun (init_csys n 0) cs = (s, outs, ops) ->
  cs_o s = Some os -> ocl (ov_phase os) = 1%nat ->
  exists pre post t0, ops = pre ++ OChanges observe_iid (ov_tab os) :: post /\
    forallb (fun o => negb (touches observe_iid o)) pre = true /\
    let dc := fst (run (init_db n) pre) in
    created dc observe_iid (ov_tab os) t0 /\
    (forall cur, nth_error (d_root dc) (ov_tab os) = Some cur -> ~ reg observe_iid cur) /\
    friendly_run observe_iid (ov_tab os) (fst (step dc (OChanges observe_iid (ov_tab os)))) post /\
    (forall cur, nth_error (d_root (cs_db s)) (ov_tab os) = Some cur -> reg observe_iid cur).
Proof.
  intros Hc H Eo Hcl. pose proof (OG_crun n cs _ [] _ _ _ (OG_init n) Hc H) as [_ _ I3]. cbn [app] in I3.
  rewrite Eo in I3. cbn [ost] in I3. destruct I3 as [_ [_ Hst]]. rewrite Hcl in Hst.
  destruct Hst as [pre [post [t0 [E [U [C [F [R [T _]]]]]]]]]. exists pre, post, t0. cbv zeta. auto 10.
Qed.

(* H3 with the usage hypotheses discharged: what remains is revision room on the flattened operations *)
Theorem observer_converges' n cs s outs ops os wr :
  forallb (cop_ok' n) cs = true -> crun (init_csys n 0) cs = (s, outs, ops) ->
  cs_o s = Some os -> ov_phase os = OWait wr ->
  room_run (init_db n) ops ->
  exists cur, nth_error (d_root (cs_db s)) (ov_tab os) = Some cur /\ t_rev cur = wr /\
              replay (reported outs) = abs_of cur.
Proof.
  intros Hc H Eo Eph Hroom.
  destruct (observer_run_c07_hypotheses n cs s outs ops os Hc H Eo) as [pre [post [t0 [E [U [C [F [R T]]]]]]]];
    [now rewrite Eph|]. subst ops.
  destruct (observer_converges n cs s outs pre (ov_tab os) post os wr t0 Hc H U Eo Eph Hroom C F R T) as [_ K]. exact K.
Qed.

Example observer_converges'_nonvacuous :
  let r := crun (init_csys 1 0) hx_run in
  forallb (cop_ok' 1) hx_run = true /\
  option_map ov_phase (cs_o (fst (fst r))) = Some (OWait 3) /\
  room_run (init_db 1) (snd r) /\
  replay (reported (snd (fst r))) = [([98], (2, 2))] /\
  map abs_of (d_root (cs_db (fst (fst r)))) = [[([98], (2, 2))]] /\
  map t_rev (d_root (cs_db (fst (fst r)))) = [3].
Proof.
  cbv zeta. split; [vm_compute; reflexivity|]. split; [vm_compute; reflexivity|].
  split; [apply room_runb_ok; vm_compute; reflexivity|]. repeat split; vm_compute; reflexivity.
Qed.
