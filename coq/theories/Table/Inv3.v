(* Table/Inv3.v — the open transaction versus the committed root (TxnInv), committed
   revisions never decrease, what DInv says about every reachable table, and the revision
   index as an ordered change log (LowerBound on the revision index). *)
From SV Require Import Base.Bytes Base.OrdMap KeyEnc.Model Table.Model Table.InvDefs
                       Table.Proofs Table.GcProofs Table.Inv Table.Inv2.
From Coq Require Import ZifyN ZifyNat ZifyBool.
Open Scope N_scope.

(* ---- Forall2 helpers ---------------------------------------------------------------------- *)
Lemma Forall2_upd_nth_l {A B} (R : A -> B -> Prop) (f : A -> A) : forall n l1 l2,
  Forall2 R l1 l2 ->
  (forall a b, nth_error l1 n = Some a -> nth_error l2 n = Some b -> R a b -> R (f a) b) ->
  Forall2 R (upd_nth n f l1) l2.
Proof.
  induction n as [|n IH]; intros l1 l2 H Hf; destruct H as [|a b r1 r2 Hab Hr]; simpl; constructor; auto.
  all: try (apply (Hf a b); auto; fail).
  all: try (apply IH; auto; intros a' b' Ha Hb; apply (Hf a' b'); auto).
Qed.

Lemma Forall2_nth_error {A B} (R : A -> B -> Prop) : forall l1 l2, Forall2 R l1 l2 ->
  forall i, match nth_error l1 i, nth_error l2 i with
            | Some a, Some b => R a b
            | None, None => True
            | _, _ => False
            end.
Proof.
  induction 1 as [|a b r1 r2 Hab Hr IH]; intros [|i]; simpl; auto.
  apply IH.
Qed.

Lemma Forall2_weaken {A B} (R R' : A -> B -> Prop) l1 l2 :
  (forall a b, R a b -> R' a b) -> Forall2 R l1 l2 -> Forall2 R' l1 l2.
Proof. intros H. induction 1; constructor; auto. Qed.

Lemma Forall2_map_fst_eq {A B} : forall (es : list (A * B)) (l : list A), map fst es = l ->
  Forall2 (fun e x => fst e = x) es l.
Proof. induction es as [|e r IH]; intros [|x l] H; simpl in *; try discriminate; constructor; injection H; auto. Qed.

(* ---- every table update of a transaction keeps or raises the revision ------------------------ *)
Lemma tupd_rev_mono t t' : tupd t t' -> t_rev t <= t_rev t'.
Proof.
  intros H; inversion H; subst; simpl; try lia.
  - apply modify_rev_mono.
  - apply delete_rev_mono.
  - apply delete_all_rev_mono.
Qed.

Lemma treg_rev nw t t' : treg nw t t' -> t_rev t' = t_rev t.
Proof. intros H; inversion H; subst; reflexivity. Qed.

Lemma fin_table_rev t : t_rev (fin_table t) = t_rev t.
Proof. unfold fin_table. destruct (t_init t) as [[w [|n p]]|]; reflexivity. Qed.

(* ---- the open transaction versus the committed root -------------------------------------------- *)
(* oldRoot is the current root (nothing commits while the write transaction is open); every entry
   is at least as new as the committed table; unlocked entries ARE the committed tables *)
Definition txn_rel (e : table * bool) (cur : table) : Prop :=
  t_rev cur <= t_rev (fst e) /\ (snd e = false -> fst e = cur).
Definition TxnInv (d : db) : Prop :=
  forall es old, d_txn d = Some (es, old) -> old = d_root d /\ Forall2 txn_rel es (d_root d).

Theorem TxnInv_init n : TxnInv (init_db n).
Proof. intros es old H. discriminate. Qed.

Theorem TxnInv_step d o : TxnInv d -> TxnInv (fst (step d o)).
Proof.
  intros HT. pose proof (step_shape d o) as Sh. set (d' := fst (step d o)) in *. unfold TxnInv.
  inversion Sh as [E|es E1 E2 E|es old tab t t' E1 E2 Hu _ _ E|tab name es old t t' _ E1 E2 Hu E|tab name _ E
                   |sid es old _ E1 E|E|sid E|iid tab E1 E|keys Eg E1 E];
    apply (core5_inv d') in E; destruct E as [Er [Et [Es _]]]; rewrite Er, Et; try discriminate; auto.
  - intros es' old' He. injection He as <- <-. split; auto.
    apply Forall2_map_fst_eq in E2. eapply Forall2_weaken; [|exact E2].
    intros e x Hx. unfold txn_rel. rewrite Hx. split; auto. lia.
  - intros es' old' He. injection He as <- <-. destruct (HT _ _ E1) as [H1 H2]. split; auto.
    apply Forall2_upd_nth_l; auto. intros a b Ha Hb [R1 R2]. rewrite E2 in Ha. injection Ha as <-.
    unfold txn_rel in *. simpl in *. split; [|discriminate]. apply tupd_rev_mono in Hu. lia.
  - intros es' old' He. injection He as <- <-. destruct (HT _ _ E1) as [H1 H2]. split; auto.
    apply Forall2_upd_nth_l; auto. intros a b Ha Hb [R1 R2]. rewrite E2 in Ha. injection Ha as <-.
    unfold txn_rel in *. simpl in *. split; [|discriminate]. apply treg_rev in Hu. lia.
Qed.

Theorem TxnInv_run ops : forall d, TxnInv d -> TxnInv (fst (run d ops)).
Proof.
  induction ops as [|o r IH]; intros d H; [exact H|]. rewrite run_cons_fst. apply IH. now apply TxnInv_step.
Qed.

(* ---- committed revisions never decrease; tables never vanish from the root except by a
        collection pass applied with too short a key list (excluded below by GcInv) ------------- *)
Theorem root_rev_mono_step d o i t t' : TxnInv d ->
  nth_error (d_root d) i = Some t -> nth_error (d_root (fst (step d o))) i = Some t' -> t_rev t <= t_rev t'.
Proof.
  intros HT. pose proof (step_shape d o) as Sh. set (d' := fst (step d o)) in *.
  inversion Sh as [E|es E1 E2 E|es old tab t0 t0' E1 E2 Hu _ _ E|tab name es old t0 t0' _ E1 E2 Hu E|tab name _ E
                   |sid es old _ E1 E|E|sid E|iid tab E1 E|keys Eg E1 E];
    apply (core5_inv d') in E; destruct E as [Er _]; rewrite Er; intros H1 H2;
    try (rewrite H1 in H2; injection H2 as <-; lia).
  - (* commit *)
    destruct (HT _ _ E1) as [_ HF]. pose proof (Forall2_nth_error _ _ _ HF i) as Hi.
    unfold commit_root in H2. rewrite nth_error_zip_with, H1 in H2. rewrite H1 in Hi.
    destruct (nth_error es i) as [[te [|]]|]; try discriminate; injection H2 as <-; destruct Hi as [R1 R2]; simpl in *.
    + rewrite fin_table_rev. exact R1.
    + lia.
  - (* close *)
    destruct (Nat.eq_dec tab i) as [->|Hne].
    + rewrite (nth_error_upd_nth_same _ _ _ _ H1) in H2. injection H2 as <-. simpl. lia.
    + rewrite nth_error_upd_nth_other in H2 by auto. rewrite H1 in H2; injection H2 as <-; lia.
  - (* gc *)
    rewrite nth_error_zip_with, H1 in H2. destruct (nth_error keys i); try discriminate. injection H2 as <-.
    rewrite gc_apply_rev. lia.
Qed.

Lemma root_length_step d o : TxnInv d -> (length (d_root (fst (step d o))) <= length (d_root d))%nat.
Proof.
  intros HT. pose proof (step_shape d o) as Sh. set (d' := fst (step d o)) in *.
  inversion Sh as [E|es E1 E2 E|es old tab t0 t0' E1 E2 Hu _ _ E|tab name es old t0 t0' _ E1 E2 Hu E|tab name _ E
                   |sid es old _ E1 E|E|sid E|iid tab E1 E|keys Eg E1 E];
    apply (core5_inv d') in E; destruct E as [Er _]; rewrite Er; auto.
  - unfold commit_root. generalize (d_root d). clear. induction es as [|e r IH]; intros [|c l]; simpl; auto with arith.
  - rewrite length_upd_nth. auto.
  - generalize (d_root d). clear. induction keys as [|e r IH]; intros [|c l]; simpl; auto with arith.
Qed.

Theorem root_rev_mono_run ops : forall d i t t', TxnInv d ->
  nth_error (d_root d) i = Some t -> nth_error (d_root (fst (run d ops))) i = Some t' -> t_rev t <= t_rev t'.
Proof.
  induction ops as [|o r IH]; intros d i t t' HT H1 H2.
  - simpl in H2. rewrite H1 in H2. injection H2 as <-. lia.
  - rewrite run_cons_fst in H2. pose proof (TxnInv_step d o HT) as HT1.
    destruct (nth_error (d_root (fst (step d o))) i) as [t1|] eqn:E1.
    + transitivity (t_rev t1); [apply (root_rev_mono_step d o i t t1); auto|apply (IH (fst (step d o)) i t1 t'); auto].
    + exfalso. apply nth_error_None in E1.
      assert (Hl : (length (d_root (fst (run (fst (step d o)) r))) <= length (d_root (fst (step d o))))%nat).
      { clear -HT1. revert HT1. generalize (fst (step d o)). induction r as [|o' r' IHr]; intros d0 H0; [simpl; lia|].
        rewrite run_cons_fst. etransitivity; [apply IHr; now apply TxnInv_step|]. now apply root_length_step. }
      assert (Hi : (i < length (d_root (fst (run (fst (step d o)) r))))%nat) by (apply nth_error_Some; congruence).
      lia.
Qed.

(* ---- every table value reachable anywhere in the database --------------------------------------- *)
Definition in_db (d : db) (t : table) : Prop :=
  In t (d_root d) \/
  (exists es old, d_txn d = Some (es, old) /\ (In t (map fst es) \/ In t old)) \/
  (exists sid r, In (sid, r) (d_snaps d) /\ In t r).

Lemma all_tables_in_db P d t : all_tables P d -> in_db d t -> P t.
Proof.
  intros [HR [HT HS]] [H|[[es [old [E [H|H]]]]|[sid [r [H1 H2]]]]].
  - rewrite Forall_forall in HR. auto.
  - destruct (HT _ _ E) as [H1 _]. rewrite Forall_forall in H1. apply in_map_iff in H.
    destruct H as [e [<- He]]. auto.
  - destruct (HT _ _ E) as [_ H1]. rewrite Forall_forall in H1. auto.
  - specialize (HS _ _ H1). rewrite Forall_forall in HS. auto.
Qed.

(* what the invariant says about the revisions held by a table *)
Definition rev_facts (t : table) : Prop :=
  (forall o1 o2, live t o1 -> live t o2 -> o_rev o1 = o_rev o2 -> o1 = o2) /\
  (forall o, live t o \/ dead t o -> 1 <= o_rev o <= t_rev t) /\
  (forall o1 o2, dead t o1 -> dead t o2 -> o_rev o1 = o_rev o2 -> o1 = o2) /\
  (forall o1 o2, live t o1 -> dead t o2 -> o_rev o1 <> o_rev o2).

Lemma TInv_rev_facts t : TInv t -> rev_facts t.
Proof.
  intros HI. repeat split; try apply HI.
  - destruct H as [H|H]; [apply (live_rev t HI o H)|apply (dead_rev t HI o H)].
  - destruct H as [H|H]; [apply (live_rev t HI o H)|apply (dead_rev t HI o H)].
Qed.

Theorem reachable_rev_facts n ops t : run_bounded (init_db n) ops ->
  in_db (fst (run (init_db n) ops)) t -> rev_facts t.
Proof.
  intros Hb Hin. apply TInv_rev_facts. eapply all_tables_in_db; [|exact Hin]. now apply DInv_reachable.
Qed.

(* ---- the revision index as an ordered log ---------------------------------------------------------- *)
Fixpoint rev_ascending (l : list object) : Prop :=
  match l with
  | [] => True
  | o :: r => Forall (fun o' => o_rev o < o_rev o') r /\ rev_ascending r
  end.

Lemma vals_rev_ascending (m : idx) : om_sorted m ->
  (forall k o, In (k, o) m -> k = rev_key (o_rev o) /\ o_rev o < B64) -> rev_ascending (vals m).
Proof.
  induction m as [|[k o] r IH]; simpl; auto. intros [Ha Hs] Hk. split.
  - unfold vals. rewrite Forall_map. unfold om_above in Ha. rewrite Forall_forall in *. intros [k' o'] Hin.
    specialize (Ha _ Hin). simpl in *.
    destruct (Hk k o (or_introl eq_refl)) as [-> B1]. destruct (Hk k' o' (or_intror Hin)) as [-> B2].
    now apply rev_key_mono.
  - apply IH; auto.
Qed.

Lemma in_vals (m : idx) o : In o (vals m) <-> exists k, In (k, o) m.
Proof.
  unfold vals. rewrite in_map_iff. split.
  - intros [[k o'] [<- H]]. exists k. exact H.
  - intros [k H]. exists (k, o). auto.
Qed.

(* LowerBound(ByRevision(r)): exactly the live objects with revision >= r, in ascending revision order *)
Theorem lower_bound_revision t r : TInv t -> rev_bound t -> r < B64 ->
  q_lower_bound IRevision (rev_key r) t = vals (om_lower_bound (rev_key r) (t_revidx t)) /\
  rev_ascending (q_lower_bound IRevision (rev_key r) t) /\
  (forall o, In o (q_lower_bound IRevision (rev_key r) t) <-> (live t o /\ r <= o_rev o)).
Proof.
  intros HI Hb Hr. unfold rev_bound in Hb. fold B64 in Hb. split; [reflexivity|].
  unfold q_lower_bound. cbn [is_unique index_of]. split.
  - apply vals_rev_ascending; [apply om_lower_bound_sorted, HI|].
    intros k o Hin. apply om_lower_bound_spec in Hin; [|apply HI]. destruct Hin as [Hin _].
    apply (ti_revidx t HI) in Hin. destruct Hin as [-> Hl]. split; auto. pose proof (live_rev t HI o Hl). lia.
  - intros o. rewrite in_vals. split.
    + intros [k Hin]. apply om_lower_bound_spec in Hin; [|apply HI]. destruct Hin as [Hin Hk]. simpl in Hk.
      apply (ti_revidx t HI) in Hin. destruct Hin as [-> Hl]. split; auto.
      destruct (N.lt_ge_cases (o_rev o) r) as [Hlt|]; auto.
      apply rev_key_mono in Hlt; auto; [|pose proof (live_rev t HI o Hl); lia].
      apply bytes_ltb_spec in Hlt. congruence.
    + intros [Hl Hge]. exists (rev_key (o_rev o)). apply om_lower_bound_spec; [apply HI|]. split.
      * apply (ti_revidx t HI). auto.
      * simpl. destruct (bytes_ltb (rev_key (o_rev o)) (rev_key r)) eqn:E; auto.
        apply bytes_ltb_spec in E. apply rev_key_mono in E; auto; [lia|]. pose proof (live_rev t HI o Hl); lia.
Qed.

(* ---- graveyard versus queries on the live indexes ------------------------------------------------- *)
Lemma delete_no_trackers g id t : t_trackers t = [] ->
  t_grave (fst (delete g id t)) = t_grave t /\ t_graverev (fst (delete g id t)) = t_graverev t.
Proof.
  intros Hn. unfold delete, delete_with. destruct (om_get id (t_primary t)) as [o|]; auto.
  destruct ((0 <? g) && negb (o_rev o =? g)); auto. rewrite Hn. simpl. auto.
Qed.

Lemma delete_all_no_trackers t : t_trackers t = [] ->
  t_grave (delete_all t) = t_grave t /\ t_graverev (delete_all t) = t_graverev t.
Proof.
  unfold delete_all. generalize (t_primary t) as l. intros l. revert t.
  induction l as [|kv r IH]; intros t Hn; simpl; auto.
  destruct (delete_no_trackers 0 (p_id (o_data (snd kv))) t Hn) as [E1 E2].
  assert (Hn1 : t_trackers (fst (delete 0 (p_id (o_data (snd kv))) t)) = []).
  { unfold delete, delete_with. destruct (om_get (p_id (o_data (snd kv))) (t_primary t)) as [o|]; auto. }
  destruct (IH _ Hn1) as [I1 I2]. rewrite I1, I2. auto.
Qed.

Lemma dead_not_live_value t o k : TInv t -> dead t o -> ~ In (k, o) (t_primary t).
Proof.
  intros HI Hd Hin. destruct (ti_primary t HI _ _ Hin) as [-> _].
  apply om_in_get in Hin; [|apply HI]. rewrite (dead_not_live_key t HI o Hd) in Hin. discriminate.
Qed.

Theorem dead_not_in_queries t o : TInv t -> dead t o ->
  (forall k, q_get IPrimary k t <> Some o) /\ (forall k, ~ In o (q_list IPrimary k t)) /\
  ~ In o (q_all t) /\
  (forall k, q_get IRevision k t <> Some o) /\ (forall k, ~ In o (q_list IRevision k t)) /\
  (forall k, ~ In o (q_prefix IPrimary k t)) /\ (forall k, ~ In o (q_lower_bound IPrimary k t)) /\
  (forall k, ~ In o (q_prefix IRevision k t)) /\ (forall k, ~ In o (q_lower_bound IRevision k t)).
Proof.
  intros HI Hd.
  assert (HP : forall k, ~ In (k, o) (t_primary t)) by (intros k; now apply dead_not_live_value).
  assert (HR : forall k, ~ In (k, o) (t_revidx t)).
  { intros k Hin. apply (ti_revidx t HI) in Hin. destruct Hin as [_ Hl]. exact (HP _ Hl). }
  assert (HgP : forall k, om_get k (t_primary t) <> Some o).
  { intros k H. apply om_in_get in H; [|apply HI]. exact (HP _ H). }
  assert (HgR : forall k, om_get k (t_revidx t) <> Some o).
  { intros k H. apply om_in_get in H; [|apply HI]. exact (HR _ H). }
  unfold q_get, q_list, q_all, q_prefix, q_lower_bound. cbn [is_unique index_of].
  repeat split; intros k; try apply HgP; try apply HgR.
  - intros H. destruct (om_get k (t_primary t)) eqn:E; simpl in H; [|tauto]. destruct H as [->|[]]. exact (HgP _ E).
  - revert k. change (~ In o (vals (t_primary t))). rewrite in_vals. intros [k H]. exact (HP _ H).
  - intros H. destruct (om_get k (t_revidx t)) eqn:E; simpl in H; [|tauto]. destruct H as [->|[]]. exact (HgR _ E).
  - rewrite in_vals. intros [k' H]. apply filter_In in H. exact (HP _ (proj1 H)).
  - rewrite in_vals. intros [k' H]. apply om_lower_bound_spec in H; [|apply HI]. exact (HP _ (proj1 H)).
  - rewrite in_vals. intros [k' H]. apply filter_In in H. exact (HR _ (proj1 H)).
  - rewrite in_vals. intros [k' H]. apply om_lower_bound_spec in H; [|apply HI]. exact (HR _ (proj1 H)).
Qed.

(* ... in every table reachable along a history *)
Theorem reachable_dead_not_in_queries n ops t o : run_bounded (init_db n) ops ->
  in_db (fst (run (init_db n) ops)) t -> dead t o ->
  (forall k, q_get IPrimary k t <> Some o) /\ (forall k, ~ In o (q_list IPrimary k t)) /\
  ~ In o (q_all t) /\
  (forall k, q_get IRevision k t <> Some o) /\ (forall k, ~ In o (q_list IRevision k t)) /\
  (forall k, ~ In o (q_prefix IPrimary k t)) /\ (forall k, ~ In o (q_lower_bound IPrimary k t)) /\
  (forall k, ~ In o (q_prefix IRevision k t)) /\ (forall k, ~ In o (q_lower_bound IRevision k t)).
Proof.
  intros Hb Hin. apply dead_not_in_queries. eapply all_tables_in_db; [|exact Hin]. now apply DInv_reachable.
Qed.
