(* Table/InvDefs.v — definitions of the table invariants (no proofs): shared vocabulary of
   Table/Inv.v (core indexes, revisions), Table/Agree.v (secondary and LPM indexes, query
   exactness) and Table/ChangesProofs.v (change iterators, graveyard). *)
From SV Require Import Base.Bytes Base.OrdMap KeyEnc.Model Table.Model.
Open Scope N_scope.

Definition live (t : table) (o : object) : Prop := In (p_id (o_data o), o) (t_primary t).
Definition dead (t : table) (o : object) : Prop := In (p_id (o_data o), o) (t_grave t).

(* revisions are uint64 in the code; rev_key (be64) is injective only below 2^64 *)
Definition rev_bound (t : table) : Prop := t_rev t < 18446744073709551616.

(* core invariant: primary / revision / graveyard indexes *)
Record TInv (t : table) : Prop := mkTInv {
  ti_sorted_primary : om_sorted (t_primary t);
  ti_sorted_revidx : om_sorted (t_revidx t);
  ti_sorted_grave : om_sorted (t_grave t);
  ti_sorted_graverev : om_sorted (t_graverev t);
  (* primary: keyed by the object's own primary key; revisions assigned so far *)
  ti_primary : forall k o, In (k, o) (t_primary t) -> k = p_id (o_data o) /\ 1 <= o_rev o <= t_rev t;
  (* the revision index holds exactly the live objects, keyed by their revision *)
  ti_revidx : forall k o, In (k, o) (t_revidx t) <-> (k = rev_key (o_rev o) /\ live t o);
  (* graveyard: keyed by primary key, deletion revision assigned so far, never a live key *)
  ti_grave : forall k o, In (k, o) (t_grave t) ->
      k = p_id (o_data o) /\ 1 <= o_rev o <= t_rev t /\ om_get k (t_primary t) = None;
  ti_graverev : forall k o, In (k, o) (t_graverev t) <-> (k = rev_key (o_rev o) /\ dead t o);
  (* every revision is assigned once: live and retained-deleted objects have pairwise distinct revisions *)
  ti_rev_distinct_live : forall o1 o2, live t o1 -> live t o2 -> o_rev o1 = o_rev o2 -> o1 = o2;
  ti_rev_distinct_dead : forall o1 o2, dead t o1 -> dead t o2 -> o_rev o1 = o_rev o2 -> o1 = o2;
  ti_rev_distinct_cross : forall o1 o2, live t o1 -> dead t o2 -> o_rev o1 <> o_rev o2
}.

(* ---- secondary part indexes ---------------------------------------------------------- *)
(* the unique index has one entry per (key, live object having that key) *)
Definition u_agree (t : table) : Prop :=
  om_sorted (t_u t) /\
  forall K o, In (K, o) (t_u t) <-> (In K (p_u (o_data o)) /\ live t o).
(* the non-unique index has one entry per (key, live object), under the composite key *)
Definition n_agree (t : table) : Prop :=
  om_sorted (t_n t) /\
  forall K o, In (K, o) (t_n t) <->
              (exists k, In k (p_n (o_data o)) /\ K = nuk (p_id (o_data o)) k /\ live t o).

(* what the user of the table owes (documented well-formedness):
   keys of a unique index are not shared by two different live objects *)
Definition u_wf (t : table) : Prop :=
  forall o1 o2 k, live t o1 -> live t o2 -> In k (p_u (o_data o1)) -> In k (p_u (o_data o2)) -> o1 = o2.
Definition lu_wf (t : table) : Prop :=
  forall o1 o2 k, live t o1 -> live t o2 -> In k (p_lu (o_data o1)) -> In k (p_lu (o_data o2)) -> o1 = o2.
(* the guard of the composite-key order theorem (known findings K1/K2) *)
Definition pk_short (t : table) : Prop := forall o, live t o -> len (enc (p_id (o_data o))) < 256.

(* ---- LPM indexes ------------------------------------------------------------------------ *)
Fixpoint lsorted (m : lidx) : Prop :=
  match m with
  | [] => True
  | (k, _) :: r => Forall (fun ke => bits_ltb k (fst ke) = true) r /\ lsorted r
  end.
Fixpoint esorted (e : lentry) : Prop :=
  match e with
  | [] => True
  | (pk, _) :: r => Forall (fun x => bytes_ltb pk (fst x) = true) r /\ esorted r
  end.
Definition l_agree (unique : bool) (keys : payload -> list lkey) (m : lidx) (t : table) : Prop :=
  lsorted m /\
  (forall k e, In (k, e) m -> e <> [] /\ esorted e) /\
  forall k pk o, (exists e, In (k, e) m /\ In (pk, o) e) <->
                 (In k (keys (o_data o)) /\ pk = p_id (o_data o) /\ live t o).

Definition Agree (t : table) : Prop :=
  u_agree t /\ n_agree t /\ l_agree true p_lu (t_lu t) t /\ l_agree false p_ln (t_ln t) t.

(* ---- database-level: every table value reachable anywhere satisfies P -------------------- *)
Definition all_tables (P : table -> Prop) (d : db) : Prop :=
  Forall P (d_root d) /\
  (forall es old, d_txn d = Some (es, old) -> Forall (fun e => P (fst e)) es /\ Forall P old) /\
  (forall sid r, In (sid, r) (d_snaps d) -> Forall P r).
