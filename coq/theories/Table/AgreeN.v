(* Table/AgreeN.v — the part-index `reindex` (part_index.go partIndexTxn.reindex) characterised
   extensionally, and preservation of the agreement of the unique / non-unique secondary
   indexes with the set of live objects by one write step. *)
From SV Require Import Base.Bytes Base.OrdMap KeyEnc.Model KeyEnc.Proofs Table.Model Table.InvDefs Table.AgreeDefs.
From Coq Require Import ZifyN ZifyNat ZifyBool.
Open Scope N_scope.

(* ---- sorted maps: membership = lookup ------------------------------------------------- *)
Lemma om_get_In {V} (m : omap V) k v : om_sorted m -> (In (k, v) m <-> om_get k m = Some v).
Proof.
  induction m as [|[k' v'] r IH]; simpl; intros Hs.
  - split; [tauto|discriminate].
  - destruct Hs as [Ha Hs]. unfold om_above in Ha. rewrite Forall_forall in Ha.
    destruct (bytes_cmp_cases k k') as [[E ->]|[[E [Lt Hl]]|[E [Lt Hl]]]]; rewrite E; try rewrite Lt.
    + split.
      * intros [H|H]; [congruence|]. apply Ha in H. simpl in H. now apply lex_lt_irrefl in H.
      * intros H; injection H as ->. now left.
    + split; [|discriminate]. intros [H|H].
      * injection H as -> _. now apply lex_lt_irrefl in Hl.
      * apply Ha in H. simpl in H. exfalso. eapply lex_lt_asym; eauto.
    + rewrite <- IH by assumption. split; [|tauto]. intros [H|H]; auto.
      injection H as -> _. now apply lex_lt_irrefl in Hl.
Qed.

Lemma om_sorted_functional {V} (m : omap V) k v1 v2 :
  om_sorted m -> In (k, v1) m -> In (k, v2) m -> v1 = v2.
Proof.
  intros Hs H1 H2. apply om_get_In in H1, H2; auto. congruence.
Qed.

Lemma om_In_insert {V} (m : omap V) k v k' v' : om_sorted m ->
  (In (k', v') (om_insert k v m) <-> (k' = k /\ v' = v) \/ (k' <> k /\ In (k', v') m)).
Proof.
  intros Hs. rewrite om_get_In by now apply om_insert_sorted.
  destruct (bytes_cmp_cases k' k) as [[_ ->]|[[_ [_ Hl]]|[_ [_ Hl]]]].
  - rewrite om_get_insert_same. split; [intros H; injection H as <-; auto|].
    intros [[_ ->]|[H _]]; congruence.
  - assert (Hne : k' <> k) by (intros ->; now apply lex_lt_irrefl in Hl).
    rewrite om_get_insert_other, <- om_get_In by assumption. split; [auto|]. intros [[H _]|[_ H]]; [congruence|auto].
  - assert (Hne : k' <> k) by (intros ->; now apply lex_lt_irrefl in Hl).
    rewrite om_get_insert_other, <- om_get_In by assumption. split; [auto|]. intros [[H _]|[_ H]]; [congruence|auto].
Qed.

Lemma om_In_delete {V} (m : omap V) k k' v' : om_sorted m ->
  (In (k', v') (om_delete k m) <-> k' <> k /\ In (k', v') m).
Proof.
  intros Hs. rewrite om_get_In by now apply om_delete_sorted.
  destruct (bytes_cmp_cases k' k) as [[_ ->]|[[_ [_ Hl]]|[_ [_ Hl]]]].
  - rewrite om_get_delete_same by assumption. split; [discriminate|]. intros [H _]; congruence.
  - assert (Hne : k' <> k) by (intros ->; now apply lex_lt_irrefl in Hl).
    rewrite om_get_delete_other, <- om_get_In by assumption. tauto.
  - assert (Hne : k' <> k) by (intros ->; now apply lex_lt_irrefl in Hl).
    rewrite om_get_delete_other, <- om_get_In by assumption. tauto.
Qed.

Lemma existsb_bytes_In (K : bytes) (f : bytes -> bytes) ks :
  existsb (fun k => bytes_eqb K (f k)) ks = true <-> exists k, In k ks /\ K = f k.
Proof.
  rewrite existsb_exists. split; intros [k [H1 H2]]; exists k; split; auto; now apply bytes_eqb_spec.
Qed.

Lemma ks_exists_In ks k : ks_exists ks k = true <-> In k ks.
Proof.
  unfold ks_exists. rewrite existsb_exists. split.
  - intros [x [H1 H2]]. apply bytes_eqb_spec in H2. now subst.
  - intros H. exists k. split; auto. apply bytes_eqb_refl.
Qed.

(* ---- the two folds of reindex ------------------------------------------------------------ *)
Section Folds.
Context {V : Type}.
Variable f : bytes -> bytes.

Lemma fold_insert_sorted (v : V) ks : forall m : omap V, om_sorted m ->
  om_sorted (fold_left (fun t k => om_insert (f k) v t) ks m).
Proof. induction ks as [|k r IH]; simpl; intros m Hs; auto. apply IH. now apply om_insert_sorted. Qed.

Lemma fold_insert_get (v : V) ks : forall (m : omap V) K, om_sorted m ->
  om_get K (fold_left (fun t k => om_insert (f k) v t) ks m) =
  if existsb (fun k => bytes_eqb K (f k)) ks then Some v else om_get K m.
Proof.
  induction ks as [|k r IH]; intros m K Hs; cbn [fold_left existsb]; auto.
  rewrite IH by now apply om_insert_sorted.
  destruct (existsb (fun k0 => bytes_eqb K (f k0)) r); [now rewrite orb_true_r|]. rewrite orb_false_r.
  destruct (bytes_eqb K (f k)) eqn:E.
  - apply bytes_eqb_spec in E. subst. apply om_get_insert_same.
  - apply om_get_insert_other; auto. intros ->. now rewrite bytes_eqb_refl in E.
Qed.

Lemma fold_delete_sorted (c : bytes -> bool) ks : forall m : omap V, om_sorted m ->
  om_sorted (fold_left (fun t k => if c k then t else om_delete (f k) t) ks m).
Proof.
  induction ks as [|k r IH]; simpl; intros m Hs; auto. apply IH. destruct (c k); auto. now apply om_delete_sorted.
Qed.

Lemma fold_delete_get (c : bytes -> bool) ks : forall (m : omap V) K, om_sorted m ->
  om_get K (fold_left (fun t k => if c k then t else om_delete (f k) t) ks m) =
  if existsb (fun k => negb (c k) && bytes_eqb K (f k)) ks then None else om_get K m.
Proof.
  induction ks as [|k r IH]; intros m K Hs; cbn [fold_left existsb]; auto.
  rewrite IH by (destruct (c k); auto; now apply om_delete_sorted).
  destruct (existsb (fun k0 => negb (c k0) && bytes_eqb K (f k0)) r); [now rewrite orb_true_r|]. rewrite orb_false_r.
  destruct (c k); cbn [negb andb]; auto.
  destruct (bytes_eqb K (f k)) eqn:E.
  - apply bytes_eqb_spec in E. subst. now apply om_get_delete_same.
  - apply om_get_delete_other; auto. intros ->. now rewrite bytes_eqb_refl in E.
Qed.
End Folds.

(* ---- reindex: sortedness, lookup, membership ---------------------------------------------- *)
Definition new_keys (keys : payload -> list bytes) (new : object) : list bytes :=
  if o_rev new =? 0 then [] else keys (o_data new).

Lemma reindex_sorted unique keys idKey old new t :
  om_sorted t -> om_sorted (reindex unique keys idKey old new t).
Proof.
  intros Hs. unfold reindex, reindex_with.
  destruct (o_rev old =? 0); [now apply fold_insert_sorted|].
  apply (fold_delete_sorted (ikey unique idKey)). now apply fold_insert_sorted.
Qed.

Lemma reindex_get unique keys idKey old new t K : om_sorted t ->
  om_get K (reindex unique keys idKey old new t) =
  if existsb (fun k => bytes_eqb K (ikey unique idKey k)) (new_keys keys new) then Some new
  else if negb (o_rev old =? 0) &&
          existsb (fun k => negb (ks_exists (new_keys keys new) k) && bytes_eqb K (ikey unique idKey k)) (keys (o_data old))
       then None
       else om_get K t.
Proof.
  intros Hs. unfold reindex, reindex_with. fold (new_keys keys new).
  destruct (o_rev old =? 0); cbn [negb andb].
  - now rewrite (fold_insert_get (ikey unique idKey)).
  - rewrite (fold_delete_get (ikey unique idKey)) by now apply fold_insert_sorted.
    rewrite (fold_insert_get (ikey unique idKey)) by assumption.
    destruct (existsb (fun k => negb (ks_exists (new_keys keys new) k) && bytes_eqb K (ikey unique idKey k)) (keys (o_data old))) eqn:E1;
      destruct (existsb (fun k => bytes_eqb K (ikey unique idKey k)) (new_keys keys new)) eqn:E2; auto.
    (* both: impossible, a key deleted is not a new key *)
    exfalso. apply existsb_exists in E1. destruct E1 as [k [Hk E1]]. apply andb_true_iff in E1. destruct E1 as [E1 E3].
    apply bytes_eqb_spec in E3. subst K. apply existsb_bytes_In in E2. destruct E2 as [k2 [Hk2 E2]].
    apply negb_true_iff in E1.
    assert (k = k2).
    { destruct unique; cbn [ikey] in E2; [exact E2|]. apply nuk_inj in E2. tauto. }
    subst k2. apply ks_exists_In in Hk2. congruence.
Qed.

Lemma new_keys_In keys new k : In k (new_keys keys new) <-> o_rev new <> 0 /\ In k (keys (o_data new)).
Proof.
  unfold new_keys. destruct (N.eqb_spec (o_rev new) 0) as [E|E]; simpl; [tauto|tauto].
Qed.

(* GOAL 1: the extensional characterisation. Entries of the new object are inserted under every
   one of its keys; entries under keys of the old object that are not keys of the new one are
   removed; everything else is untouched. Duplicate keys, empty key lists, a missing old object
   (revision 0) and a missing new object (revision 0, i.e. a delete) are all covered. *)
Theorem reindex_spec unique keys idKey old new t K o' : om_sorted t ->
  (In (K, o') (reindex unique keys idKey old new t) <->
    (o_rev new <> 0 /\ o' = new /\ exists k, In k (keys (o_data new)) /\ K = ikey unique idKey k) \/
    (In (K, o') t /\
     ~ (o_rev new <> 0 /\ exists k, In k (keys (o_data new)) /\ K = ikey unique idKey k) /\
     ~ (o_rev old <> 0 /\ exists k, In k (keys (o_data old)) /\ K = ikey unique idKey k))).
Proof.
  intros Hs. rewrite om_get_In by now apply reindex_sorted. rewrite reindex_get by assumption.
  assert (Hnew : existsb (fun k => bytes_eqb K (ikey unique idKey k)) (new_keys keys new) = true <->
                 (o_rev new <> 0 /\ exists k, In k (keys (o_data new)) /\ K = ikey unique idKey k)).
  { rewrite existsb_bytes_In. split.
    - intros [k [H1 H2]]. apply new_keys_In in H1. destruct H1. split; eauto.
    - intros [H0 [k [H1 H2]]]. exists k. split; auto. apply new_keys_In. auto. }
  destruct (existsb (fun k => bytes_eqb K (ikey unique idKey k)) (new_keys keys new)) eqn:E2.
  - destruct Hnew as [Hnew _]. specialize (Hnew eq_refl). destruct Hnew as [H0 Hex]. split.
    + intros H; injection H as <-. left; auto.
    + intros [[_ [-> _]]|[_ [Hc _]]]; [reflexivity|]. exfalso; apply Hc; auto.
  - assert (Hnn : ~ (o_rev new <> 0 /\ exists k, In k (keys (o_data new)) /\ K = ikey unique idKey k)).
    { intros Hc. apply Hnew in Hc. discriminate. }
    match goal with |- context [negb ?a && ?b] => destruct (negb a && b) eqn:E1 end.
    + apply andb_true_iff in E1. destruct E1 as [E0 E1]. apply negb_true_iff in E0. apply N.eqb_neq in E0.
      apply existsb_exists in E1. destruct E1 as [k [Hk E1]]. apply andb_true_iff in E1. destruct E1 as [_ E3].
      apply bytes_eqb_spec in E3. split; [discriminate|].
      intros [[H0 [_ Hex]]|[_ [_ Hc]]]; [exfalso; apply Hnn; auto|]. exfalso. apply Hc. split; eauto.
    + rewrite <- om_get_In by assumption. split.
      * intros Hin. right. split; auto. split; auto.
        intros [H0 [k [Hk HK]]]. apply andb_false_iff in E1. destruct E1 as [E1|E1].
        -- apply negb_false_iff in E1. apply N.eqb_eq in E1. contradiction.
        -- assert (Ht : existsb (fun k0 => negb (ks_exists (new_keys keys new) k0) && bytes_eqb K (ikey unique idKey k0)) (keys (o_data old)) = true); [|congruence].
           apply existsb_exists. exists k. split; auto. apply andb_true_iff. split; [|subst K; apply bytes_eqb_refl].
           apply negb_true_iff. destruct (ks_exists (new_keys keys new) k) eqn:E4; auto.
           apply ks_exists_In in E4. apply new_keys_In in E4. exfalso. apply Hnn. destruct E4. split; eauto.
      * intros [[H0 [_ Hex]]|[Hin _]]; [exfalso; apply Hnn; auto|auto].
Qed.

Theorem reindex_sorted_spec unique keys idKey old new t K o' : om_sorted t ->
  om_sorted (reindex unique keys idKey old new t) /\
  (In (K, o') (reindex unique keys idKey old new t) <->
    (o_rev new <> 0 /\ o' = new /\ exists k, In k (keys (o_data new)) /\ K = ikey unique idKey k) \/
    (In (K, o') t /\
     ~ (o_rev new <> 0 /\ exists k, In k (keys (o_data new)) /\ K = ikey unique idKey k) /\
     ~ (o_rev old <> 0 /\ exists k, In k (keys (o_data old)) /\ K = ikey unique idKey k))).
Proof. intros Hs; split; [now apply reindex_sorted|now apply reindex_spec]. Qed.

(* ---- GOAL 2 (part indexes): one write step preserves agreement -------------------------- *)
Theorem reindex_agree_n L L' keys idKey old new m :
  step_ok L L' idKey old new -> n_agree_on L keys m ->
  n_agree_on L' keys (reindex false keys idKey old new m).
Proof.
  intros S [Hs Ha]. split; [now apply reindex_sorted|]. intros K o'.
  rewrite reindex_spec by assumption. cbn [ikey]. split.
  - intros [[H0 [-> [k [Hk ->]]]]|[Hin [Hnn Hno]]].
    + exists k. rewrite (so_new _ _ _ _ _ S H0). repeat split; auto. apply (so_live _ _ _ _ _ S). left; auto.
    + apply Ha in Hin. destruct Hin as [k [Hk [HK HL]]]. exists k. repeat split; auto.
      apply (so_live _ _ _ _ _ S). right. split; auto. intros Hid.
      destruct (so_only _ _ _ _ _ S o' HL Hid) as [H0 ->]. apply Hno. split; auto.
      exists k. split; auto. now rewrite <- Hid.
  - intros [k [Hk [HK HL']]]. apply (so_live _ _ _ _ _ S) in HL'. destruct HL' as [[H0 ->]|[HL Hid]].
    + left. repeat split; auto. exists k. split; auto. now rewrite <- (so_new _ _ _ _ _ S H0).
    + right. split; [apply Ha; eauto|]. split.
      * intros [_ [k2 [_ E]]]. rewrite HK in E. apply nuk_inj in E. tauto.
      * intros [_ [k2 [_ E]]]. rewrite HK in E. apply nuk_inj in E. tauto.
Qed.

(* For the unique index only the new object owes something: none of its keys is a key of
   another object that stays live. *)
Theorem reindex_agree_u' L L' keys idKey old new m :
  step_ok L L' idKey old new ->
  (o_rev new <> 0 -> forall o k, L' o -> In k (keys (o_data new)) -> In k (keys (o_data o)) -> o = new) ->
  u_agree_on L keys m ->
  u_agree_on L' keys (reindex true keys idKey old new m).
Proof.
  intros S Hwf [Hs Ha]. split; [now apply reindex_sorted|]. intros K o'.
  rewrite reindex_spec by assumption. cbn [ikey]. split.
  - intros [[H0 [-> [k [Hk ->]]]]|[Hin [Hnn Hno]]].
    + split; auto. apply (so_live _ _ _ _ _ S). left; auto.
    + apply Ha in Hin. destruct Hin as [Hk HL]. split; auto.
      apply (so_live _ _ _ _ _ S). right. split; auto. intros Hid.
      destruct (so_only _ _ _ _ _ S o' HL Hid) as [H0 ->]. apply Hno. split; eauto.
  - intros [Hk HL']. pose proof HL' as HL'0. apply (so_live _ _ _ _ _ S) in HL'. destruct HL' as [[H0 ->]|[HL Hid]].
    + left. repeat split; eauto.
    + right. split; [apply Ha; auto|]. split.
      * intros [H0 [k2 [Hk2 ->]]]. apply Hid. rewrite (Hwf H0 o' k2 HL'0 Hk2 Hk). now apply (so_new _ _ _ _ _ S).
      * intros [H0 [k2 [Hk2 ->]]]. destruct (so_old _ _ _ _ _ S H0) as [HLo Hido].
        assert (o' = old); [|congruence].
        eapply om_sorted_functional; [exact Hs| |]; apply Ha; eauto.
Qed.

Theorem reindex_agree_u L L' keys idKey old new m :
  step_ok L L' idKey old new -> wf_on L' keys -> u_agree_on L keys m ->
  u_agree_on L' keys (reindex true keys idKey old new m).
Proof.
  intros S Hwf. apply reindex_agree_u'; auto. intros H0 o k HL Hk1 Hk2.
  apply (Hwf o new k); auto. apply (so_live _ _ _ _ _ S). left; auto.
Qed.

(* an agreeing unique index is itself the evidence that the live objects are well-formed *)
Lemma u_agree_on_wf L keys m : u_agree_on L keys m -> wf_on L keys.
Proof.
  intros [Hs Ha] o1 o2 k H1 H2 K1 K2. eapply om_sorted_functional; [exact Hs| |]; apply Ha; eauto.
Qed.

(* ---- the write operations of the table are such steps -------------------------------------- *)
Definition old_object (id : bytes) (t : table) : object :=
  match om_get id (t_primary t) with Some o => o | None => noobj end.

Lemma live_get t o : TInv t -> (live t o <-> om_get (p_id (o_data o)) (t_primary t) = Some o).
Proof. intros I. unfold live. apply om_get_In. apply (ti_sorted_primary _ I). Qed.

Lemma get_primary_live t id o : TInv t -> om_get id (t_primary t) = Some o ->
  live t o /\ p_id (o_data o) = id /\ o_rev o <> 0.
Proof.
  intros I H. apply om_get_In in H; [|apply (ti_sorted_primary _ I)].
  destruct (ti_primary _ I _ _ H) as [-> Hr]. repeat split; auto. lia.
Qed.

Lemma old_object_facts t id : TInv t ->
  (o_rev (old_object id t) <> 0 -> live t (old_object id t) /\ p_id (o_data (old_object id t)) = id) /\
  (forall o, live t o -> p_id (o_data o) = id -> o_rev (old_object id t) <> 0 /\ o = old_object id t).
Proof.
  intros I. unfold old_object. split.
  - destruct (om_get id (t_primary t)) as [o|] eqn:E; [|cbn; congruence].
    intros _. destruct (get_primary_live _ _ _ I E) as [H1 [H2 _]]. auto.
  - intros o HL <-. apply (live_get _ _ I) in HL. rewrite HL.
    destruct (get_primary_live _ _ _ I HL) as [_ [_ H3]]. auto.
Qed.

(* insert / Modify / CompareAndSwap that went through *)
Lemma insert_step_ok t t' id obj : TInv t ->
  t_primary t' = om_insert id obj (t_primary t) -> p_id (o_data obj) = id -> o_rev obj <> 0 ->
  step_ok (live t) (live t') id (old_object id t) obj.
Proof.
  intros I Hp Hid Hr. destruct (old_object_facts t id I) as [F1 F2].
  constructor; auto. intros o. unfold live at 1. rewrite Hp.
  rewrite om_In_insert by apply (ti_sorted_primary _ I). split.
  - intros [[_ ->]|[Hne Hin]]; [left; auto|right; auto].
  - intros [[_ ->]|[HL Hne]]; [left; auto|right; auto].
Qed.

(* Delete / CompareAndDelete that went through *)
Lemma delete_step_ok t t' id : TInv t ->
  t_primary t' = om_delete id (t_primary t) ->
  step_ok (live t) (live t') id (old_object id t) noobj.
Proof.
  intros I Hp. destruct (old_object_facts t id I) as [F1 F2].
  constructor; auto.
  - cbn. congruence.
  - intros o. unfold live at 1. rewrite Hp.
    rewrite om_In_delete by apply (ti_sorted_primary _ I). cbn [noobj o_rev]. split.
    + intros [Hne Hin]. right; auto.
    + intros [[Hc _]|[HL Hne]]; [congruence|auto].
Qed.
