(* Table/Inv2.v — the shape of one `step` of the database model (one case analysis, reused by
   every history-level invariant), and the lifting of table invariants to histories:
   DInv = all_tables TInv is established by init_db and preserved by step / run. *)
From SV Require Import Base.Bytes Base.OrdMap KeyEnc.Model Table.Model Table.InvDefs
                       Table.Proofs Table.GcProofs Table.Inv.
From Coq Require Import ZifyN ZifyNat ZifyBool.
Open Scope N_scope.

(* ---- list helpers --------------------------------------------------------------------------- *)
Lemma nth_error_upd_nth_same {A} (f : A -> A) : forall n l x,
  nth_error l n = Some x -> nth_error (upd_nth n f l) n = Some (f x).
Proof.
  induction n as [|n IH]; intros [|y r] x H; simpl in *; try discriminate.
  - now injection H as ->.
  - now apply IH.
Qed.

Lemma nth_error_upd_nth_other {A} (f : A -> A) : forall n m l, n <> m ->
  nth_error (upd_nth n f l) m = nth_error l m.
Proof.
  induction n as [|n IH]; intros [|m] [|y r] H; simpl; auto; try congruence.
Qed.

Lemma nth_error_upd_nth_none {A} (f : A -> A) : forall n l, nth_error l n = None -> upd_nth n f l = l.
Proof.
  induction n as [|n IH]; intros [|y r] H; simpl in *; auto; try discriminate. f_equal. now apply IH.
Qed.

Lemma length_upd_nth {A} (f : A -> A) : forall n l, length (upd_nth n f l) = length l.
Proof. induction n as [|n IH]; intros [|y r]; simpl; auto. Qed.

Lemma Forall_upd_nth {A} (P : A -> Prop) (f : A -> A) : forall n l,
  Forall P l -> (forall x, nth_error l n = Some x -> P (f x)) -> Forall P (upd_nth n f l).
Proof.
  induction n as [|n IH]; intros [|y r] H Hf; simpl; auto; inversion H; subst; constructor; auto.
  all: try (apply (Hf y); reflexivity).
  all: apply IH; auto.
Qed.

Lemma Forall_nth_error {A} (P : A -> Prop) l n x : Forall P l -> nth_error l n = Some x -> P x.
Proof. intros H Hn. rewrite Forall_forall in H. apply H. eapply nth_error_In; eauto. Qed.

Lemma Forall_zip_with {A B C} (f : A -> B -> C) (P : C -> Prop) : forall l1 l2,
  (forall i a b, nth_error l1 i = Some a -> nth_error l2 i = Some b -> P (f a b)) -> Forall P (zip_with f l1 l2).
Proof.
  induction l1 as [|a r1 IH]; intros [|b r2] H; simpl; constructor.
  - apply (H O); reflexivity.
  - apply IH. intros i. apply (H (S i)).
Qed.

Lemma nth_error_zip_with {A B C} (f : A -> B -> C) : forall l1 l2 i,
  nth_error (zip_with f l1 l2) i =
  match nth_error l1 i, nth_error l2 i with Some a, Some b => Some (f a b) | _, _ => None end.
Proof.
  induction l1 as [|a r1 IH]; intros [|b r2] [|i]; simpl; auto.
  - destruct (nth_error r1 i); reflexivity.
Qed.

Lemma in_assoc_set {A} k (v : A) k' v' l : In (k, v) (assoc_set k' v' l) -> (k = k' /\ v = v') \/ In (k, v) l.
Proof.
  unfold assoc_set. intros [H|H]; [injection H as <- <-; auto|]. apply filter_In in H. tauto.
Qed.

Lemma run_cons_fst d o r : fst (run d (o :: r)) = fst (run (fst (step d o)) r).
Proof. simpl. destruct (step d o) as [d1 x]. simpl. destruct (run d1 r). reflexivity. Qed.

(* ---- named pieces of `step` ------------------------------------------------------------------- *)
(* Commit: a locked table whose initializers are all done drops its tableInitialization *)
Definition fin_table (t : table) : table :=
  match t_init t with Some (w, []) => set_meta t (t_trackers t) None | _ => t end.
Definition commit_root (es : list (table * bool)) (root : list table) : list table :=
  zip_with (fun e cur => match e with (t, true) => fin_table t | (_, false) => cur end) es root.
Definition commit_closing (es : list (table * bool)) : list N :=
  flat_map (fun e => match e with
                     | (t, true) => match t_init t with Some (w, []) => [w] | _ => [] end
                     | _ => [] end) es.
(* deleteTracker.close *)
Definition untrack (iid : N) (t : table) : table :=
  set_meta t (filter (fun x => negb (x =? iid)) (t_trackers t)) (t_init t).

(* what a write transaction can do to one of its locked table entries *)
Inductive tupd : table -> table -> Prop :=
| tu_id t : tupd t t
| tu_modify g m p t : tupd t (fst (modify g m p t))
| tu_delete g id t : tupd t (fst (delete g id t))
| tu_delete_all t : tupd t (delete_all t)
| tu_track t iid : tupd t (set_meta t (t_trackers t ++ [iid]) (t_init t))
| tu_done t w p name : t_init t = Some (w, p) ->
    tupd t (set_meta t (t_trackers t) (Some (w, filter (fun n => negb (n =? name)) p))).
(* RegisterInitializer, nw = the next fresh watch id *)
Inductive treg (nw : N) : table -> table -> Prop :=
| tr_id t : treg nw t t
| tr_new t name : t_init t = None -> treg nw t (set_meta t (t_trackers t) (Some (nw, [name])))
| tr_more t w p name : t_init t = Some (w, p) -> treg nw t (set_meta t (t_trackers t) (Some (w, p ++ [name]))).

(* the part of the database state the invariants talk about *)
Definition core5 (d : db) := (d_root d, d_txn d, d_snaps d, d_closedw d, d_nextw d).

Inductive sshape (d : db) (o : op) (d' : db) : Prop :=
| ss_same : core5 d' = (d_root d, d_txn d, d_snaps d, d_closedw d, d_nextw d) -> sshape d o d'
| ss_begin es : d_txn d = None -> map fst es = d_root d ->
    core5 d' = (d_root d, Some (es, d_root d), d_snaps d, d_closedw d, d_nextw d) -> sshape d o d'
| ss_write es old tab t t' : d_txn d = Some (es, old) -> nth_error es tab = Some (t, true) -> tupd t t' ->
    (forall tb nm, o <> ORegInit tb nm) -> (forall sid, o <> OCommit sid) ->
    core5 d' = (d_root d, Some (upd_nth tab (fun _ => (t', true)) es, old), d_snaps d, d_closedw d, d_nextw d) ->
    sshape d o d'
| ss_reg tab name es old t t' : o = ORegInit tab name ->
    d_txn d = Some (es, old) -> nth_error es tab = Some (t, true) -> treg (d_nextw d) t t' ->
    core5 d' = (d_root d, Some (upd_nth tab (fun _ => (t', true)) es, old), d_snaps d, d_closedw d, d_nextw d + 1) ->
    sshape d o d'
| ss_reg_fail tab name : o = ORegInit tab name ->
    core5 d' = (d_root d, d_txn d, d_snaps d, d_closedw d, d_nextw d + 1) -> sshape d o d'
| ss_commit sid es old : o = OCommit sid -> d_txn d = Some (es, old) ->
    core5 d' = (commit_root es (d_root d), None, assoc_set sid (commit_root es (d_root d)) (d_snaps d),
                commit_closing es ++ d_closedw d, d_nextw d) -> sshape d o d'
| ss_abort : core5 d' = (d_root d, None, d_snaps d, d_closedw d, d_nextw d) -> sshape d o d'
| ss_snap sid : core5 d' = (d_root d, d_txn d, assoc_set sid (d_root d) (d_snaps d), d_closedw d, d_nextw d) ->
    sshape d o d'
| ss_close iid tab : d_txn d = None ->
    core5 d' = (upd_nth tab (untrack iid) (d_root d), None, d_snaps d, d_closedw d, d_nextw d) -> sshape d o d'
| ss_gc keys : d_gc d = GGate2 keys -> d_txn d = None ->
    core5 d' = (zip_with gc_apply_table keys (d_root d), None, d_snaps d, d_closedw d, d_nextw d) -> sshape d o d'.

Lemma core5_inv d r x s c n : core5 d = (r, x, s, c, n) ->
  d_root d = r /\ d_txn d = x /\ d_snaps d = s /\ d_closedw d = c /\ d_nextw d = n.
Proof. unfold core5. intros H. injection H. auto. Qed.

Lemma core5_gc_settle d : core5 (gc_settle d) = core5 d.
Proof. unfold gc_settle. destruct (d_gc d), (d_gcchan d); reflexivity. Qed.

Lemma core5_gc_trigger d : core5 (gc_trigger d) = core5 d.
Proof. unfold gc_trigger. now rewrite core5_gc_settle. Qed.

Lemma core5_consume take l : forall it d iid, core5 (snd (consume take l it d iid)) = core5 d.
Proof.
  revert take. induction l as [|[o del] r IH]; intros take it d iid; simpl; auto.
  assert (Hd : forall b : bool, core5 (if b then gc_trigger (set_wm d (assoc_set iid (o_rev o) (d_wm d))) else d) = core5 d).
  { intros [|]; [rewrite core5_gc_trigger|]; reflexivity. }
  destruct take as [[|[|n]]|]; simpl.
  - reflexivity.
  - apply Hd.
  - match goal with |- context [consume ?t r ?i ?dd iid] => specialize (IH t i dd iid);
      destruct (consume t r i dd iid) as [[x y] z] end. simpl in *. rewrite IH. apply Hd.
  - match goal with |- context [consume ?t r ?i ?dd iid] => specialize (IH t i dd iid);
      destruct (consume t r i dd iid) as [[x y] z] end. simpl in *. rewrite IH. apply Hd.
Qed.

Lemma with_locked_cases d tab f a b :
  fst (with_locked d tab f a b) = d \/
  exists es old t, d_txn d = Some (es, old) /\ nth_error es tab = Some (t, true) /\
    fst (with_locked d tab f a b) = set_txn d (Some (upd_nth tab (fun _ => (fst (f t), true)) es, old)).
Proof.
  unfold with_locked. destruct (d_txn d) as [[es old]|] eqn:E; auto.
  destruct (nth_error es tab) as [[t [|]]|] eqn:E2; auto.
  right. exists es, old, t. repeat split; auto. destruct (f t); reflexivity.
Qed.

Lemma fst_wr x : fst (wr x) = fst x.
Proof. destruct x as [t [old e]]. reflexivity. Qed.

Lemma map_fst_lock_fold tabs : forall es : list (table * bool),
  map fst (fold_left (fun es i => upd_nth i (fun e => (fst e, true)) es) tabs es) = map fst es.
Proof.
  induction tabs as [|i r IH]; intros es; simpl; auto. rewrite IH.
  clear. revert es. induction i as [|i IH]; intros [|e es]; simpl; auto. now rewrite IH.
Qed.

Lemma write_shape d o tab f a b : (forall t, tupd t (fst (f t))) ->
  (forall tb nm, o <> ORegInit tb nm) -> (forall sid, o <> OCommit sid) ->
  sshape d o (fst (with_locked d tab f a b)).
Proof.
  intros Hf H1 H2. destruct (with_locked_cases d tab f a b) as [->|[es [old [t [E1 [E2 ->]]]]]].
  - now apply ss_same.
  - eapply ss_write; eauto.
Qed.

Theorem step_shape d o : sshape d o (fst (step d o)).
Proof.
  destruct o; cbn [step].
  - (* OBegin *)
    destruct (d_txn d) eqn:E; [now apply ss_same|].
    eapply ss_begin; [exact E| |reflexivity]. rewrite map_fst_lock_fold, map_map. simpl. apply map_id.
  - apply write_shape; try discriminate. intros t. rewrite fst_wr. constructor.
  - apply write_shape; try discriminate. intros t. rewrite fst_wr. constructor.
  - apply write_shape; try discriminate. intros t. rewrite fst_wr. constructor.
  - apply write_shape; try discriminate. intros t. rewrite fst_wr. constructor.
  - apply write_shape; try discriminate. intros t. rewrite fst_wr. constructor.
  - (* ODeleteAll *)
    destruct (d_txn d) as [[es old]|] eqn:E; [|now apply ss_same].
    assert (Hw : sshape d (ODeleteAll tab) (fst (with_locked d tab (fun t => (delete_all t, OutErr EOk)) OutNone (OutErr ENotLocked)))).
    { apply write_shape; try discriminate. intros t. simpl. constructor. }
    destruct (nth_error es tab) as [[t [|]]|] eqn:E2; try exact Hw.
    destruct (t_primary t); now apply ss_same.
  - (* OCommit *)
    destruct (d_txn d) as [[es old]|] eqn:E; [|now apply ss_same].
    eapply ss_commit; [reflexivity|exact E|reflexivity].
  - (* OAbort *)
    destruct (d_txn d) eqn:E; [|now apply ss_same]. now apply ss_abort.
  - (* OSnap *) now eapply ss_snap.
  - (* OQuery *)
    destruct (src_root d s); [|now apply ss_same]. destruct (nth_error l tab); now apply ss_same.
  - (* OChanges *)
    destruct (d_txn d) as [[es old]|] eqn:E; [|now apply ss_same].
    destruct (nth_error es tab) as [[t [|]]|] eqn:E2; try now apply ss_same.
    destruct (nth_error old tab) eqn:E3; [|now apply ss_same].
    eapply ss_write; [exact E|exact E2|apply (tu_track t iid)|discriminate|discriminate|].
    reflexivity.
  - (* ONext *)
    destruct (assoc iid (d_iters d)) as [it|]; [|now apply ss_same].
    destruct (src_committed d s) as [rt|]; [|now apply ss_same].
    destruct (nth_error rt (it_tab it)) as [t|]; [|now apply ss_same].
    destruct (nth_error (d_root d) (it_tab it)) as [cur|]; [|now apply ss_same].
    match goal with |- context [if ?c then _ else _] => destruct c end; [now apply ss_same|].
    match goal with |- context [consume ?a ?b ?c ?dd ?e] =>
      pose proof (core5_consume a b c dd e) as Hc; destruct (consume a b c dd e) as [[x y] z] end.
    apply ss_same. apply (core5_inv z) in Hc. destruct Hc as [A [B [C [D F]]]].
    unfold core5. cbn. now rewrite A, B, C, D, F.
  - (* OResume *)
    destruct (assoc iid (d_iters d)) as [it|]; [|now apply ss_same].
    destruct (it_pending it) as [l|]; [|now apply ss_same]. destruct (it_seq it); [|now apply ss_same].
    match goal with |- context [consume ?a ?b ?c ?dd ?e] =>
      pose proof (core5_consume a b c dd e) as Hc; destruct (consume a b c dd e) as [[x y] z] end.
    apply ss_same. apply (core5_inv z) in Hc. destruct Hc as [A [B [C [D F]]]].
    unfold core5. cbn. now rewrite A, B, C, D, F.
  - (* OClose *)
    destruct (assoc iid (d_iters d)) as [it|]; [|now apply ss_same].
    destruct (d_txn d) eqn:E; [now apply ss_same|].
    apply (ss_close d _ _ iid (it_tab it)); [exact E|].
    cbn [fst]. rewrite core5_gc_trigger. unfold core5. simpl. rewrite E. reflexivity.
  - (* OGcScan *) destruct (d_gc d); now apply ss_same.
  - (* OGcApply *)
    destruct (d_gc d) eqn:Eg; try now apply ss_same. destruct (d_txn d) eqn:E; [now apply ss_same|].
    apply (ss_gc d _ _ keys); [exact Eg|exact E|].
    cbn [fst]. rewrite core5_gc_settle. unfold core5. simpl. rewrite E. reflexivity.
  - (* ORegInit *)
    match goal with |- context [with_locked d tab ?f ?a ?b] =>
      destruct (with_locked_cases d tab f a b) as [Hw|[es [old [t [E1 [E2 Hw]]]]]];
      destruct (with_locked d tab f a b) as [d' x] end; simpl in Hw; subst d'; cbn [fst].
    + eapply ss_reg_fail; reflexivity.
    + eapply ss_reg; [reflexivity|exact E1|exact E2| |reflexivity].
      destruct (t_init t) as [[w p]|] eqn:Ei.
      * destruct (existsb (N.eqb name) p); [apply tr_id|]. cbn [fst]. now apply (tr_more _ t w p name).
      * cbn [fst]. now apply (tr_new _ t name).
  - (* OInitDone *)
    apply write_shape; try discriminate. intros t.
    destruct (t_init t) as [[w p]|] eqn:Ei; cbn [fst]; [|constructor]. now apply (tu_done t w p name).
Qed.

(* ---- lifting a table invariant to histories ------------------------------------------------- *)
Section Lift.
Variables P Q : table -> Prop.
Hypothesis Hmod : forall g m p t, P t -> Q (fst (modify g m p t)) -> P (fst (modify g m p t)).
Hypothesis Hdel : forall g id t, P t -> Q (fst (delete g id t)) -> P (fst (delete g id t)).
Hypothesis Hdall : forall t, P t -> Q (delete_all t) -> P (delete_all t).
Hypothesis Hgc : forall keys t, P t -> Q (gc_apply_table keys t) -> P (gc_apply_table keys t).
Hypothesis Hmeta : forall t trk ini, P t -> P (set_meta t trk ini).

Lemma lift_tupd t t' : tupd t t' -> P t -> Q t' -> P t'.
Proof. intros H; inversion H; subst; auto. Qed.

Lemma lift_treg nw t t' : treg nw t t' -> P t -> P t'.
Proof. intros H; inversion H; subst; auto. Qed.

Lemma lift_fin t : P t -> P (fin_table t).
Proof. unfold fin_table. destruct (t_init t) as [[w [|n p]]|]; auto. Qed.

Lemma all_tables_step d o : all_tables P d -> all_tables Q (fst (step d o)) -> all_tables P (fst (step d o)).
Proof.
  intros [HR [HT HS]] [QR [QT QS]]. pose proof (step_shape d o) as Sh.
  set (d' := fst (step d o)) in *. unfold all_tables.
  inversion Sh as [E|es E1 E2 E|es old tab t t' E1 E2 Hu _ _ E|tab name es old t t' _ E1 E2 Hu E|tab name _ E
                   |sid es old _ E1 E|E|sid E|iid tab E1 E|keys Eg E1 E];
    apply (core5_inv d') in E; destruct E as [Er [Et [Es _]]]; rewrite Er, Es in *.
  - rewrite Et. auto.
  - (split; [|split]); auto. intros es' old' He. rewrite Et in He. injection He as <- <-. split; auto.
    rewrite <- E2 in HR. rewrite Forall_map in HR. exact HR.
  - (split; [|split]); auto. intros es' old' He. rewrite Et in He. injection He as <- <-.
    destruct (HT _ _ E1) as [H1 H2]. split; auto.
    apply Forall_upd_nth; auto. intros x Hx. cbn [fst]. eapply lift_tupd; eauto.
    + apply (Forall_nth_error _ _ _ _ H1 E2).
    + destruct (QT _ _ Et) as [Q1 _].
      apply (Forall_nth_error _ _ tab _ Q1 (nth_error_upd_nth_same _ _ _ _ E2)).
  - (split; [|split]); auto. intros es' old' He. rewrite Et in He. injection He as <- <-.
    destruct (HT _ _ E1) as [H1 H2]. split; auto.
    apply Forall_upd_nth; auto. intros x Hx. cbn [fst]. eapply lift_treg; eauto.
    apply (Forall_nth_error _ _ _ _ H1 E2).
  - rewrite Et. auto.
  - destruct (HT _ _ E1) as [H1 H2].
    assert (HC : Forall P (commit_root es (d_root d))).
    { apply Forall_zip_with. intros i [a [|]] b Ha Hb.
      - apply lift_fin. apply (Forall_nth_error _ _ _ _ H1 Ha).
      - apply (Forall_nth_error _ _ _ _ HR Hb). }
    (split; [|split]); auto.
    + intros es' old' He. rewrite Et in He. discriminate.
    + intros sid' r Hin. apply in_assoc_set in Hin. destruct Hin as [[_ ->]|Hin]; eauto.
  - (split; [|split]); auto. intros es' old' He. rewrite Et in He. discriminate.
  - rewrite Et. (split; [|split]); auto.
    intros sid' r Hin. apply in_assoc_set in Hin. destruct Hin as [[_ ->]|Hin]; eauto.
  - (split; [|split]); auto.
    + apply Forall_upd_nth; auto. intros x Hx. apply Hmeta. apply (Forall_nth_error _ _ _ _ HR Hx).
    + intros es' old' He. rewrite Et in He. discriminate.
  - (split; [|split]); auto.
    + apply Forall_zip_with. intros i a b Ha Hb. apply Hgc.
      * apply (Forall_nth_error _ _ _ _ HR Hb).
      * apply (Forall_nth_error _ _ i _ QR). rewrite nth_error_zip_with, Ha, Hb. reflexivity.
    + intros es' old' He. rewrite Et in He. discriminate.
Qed.
End Lift.

(* ---- DInv --------------------------------------------------------------------------------------- *)
Definition DInv (d : db) : Prop := all_tables TInv d.
Definition DBound (d : db) : Prop := all_tables rev_bound d.

(* revisions stay below 2^64 along the whole run *)
Fixpoint run_bounded (d : db) (ops : list op) : Prop :=
  match ops with
  | [] => True
  | o :: r => DBound (fst (step d o)) /\ run_bounded (fst (step d o)) r
  end.

Theorem DInv_init n : DInv (init_db n).
Proof.
  unfold DInv, all_tables, init_db. simpl. repeat split.
  - apply Forall_forall. intros t Ht. apply repeat_spec in Ht. subst. apply TInv_empty.
  - discriminate.
  - discriminate.
  - tauto.
Qed.

Lemma gc_apply_rev keys t : t_rev (gc_apply_table keys t) = t_rev t.
Proof. apply (gc_apply_frame keys t). Qed.

Theorem DInv_step d o : DInv d -> DBound (fst (step d o)) -> DInv (fst (step d o)).
Proof.
  apply all_tables_step.
  - apply TInv_modify.
  - apply TInv_delete.
  - apply TInv_delete_all.
  - intros keys t HI Hb. apply TInv_gc_apply; auto. unfold rev_bound in *. now rewrite gc_apply_rev in Hb.
  - intros. now apply TInv_set_meta.
Qed.

Theorem DInv_run ops : forall d, DInv d -> run_bounded d ops -> DInv (fst (run d ops)).
Proof.
  induction ops as [|o r IH]; intros d HI Hb; [exact HI|].
  rewrite run_cons_fst. destruct Hb as [Hb1 Hb2]. apply IH; auto. now apply DInv_step.
Qed.

Corollary DInv_reachable n ops : run_bounded (init_db n) ops -> DInv (fst (run (init_db n) ops)).
Proof. apply DInv_run, DInv_init. Qed.

(* ---- a computable sufficient check for run_bounded (used to show the hypothesis satisfiable) --------- *)
Definition all_tables_b (f : table -> bool) (d : db) : bool :=
  forallb f (d_root d) &&
  match d_txn d with
  | Some (es, old) => forallb (fun e => f (fst e)) es && forallb f old
  | None => true
  end &&
  forallb (fun sr => forallb f (snd sr)) (d_snaps d).

Lemma all_tables_b_ok (f : table -> bool) (P : table -> Prop) d :
  (forall t, f t = true -> P t) -> all_tables_b f d = true -> all_tables P d.
Proof.
  intros Hf H. unfold all_tables_b in H. apply andb_true_iff in H. destruct H as [H H3].
  apply andb_true_iff in H. destruct H as [H1 H2].
  assert (HF : forall l, forallb f l = true -> Forall P l).
  { intros l Hl. rewrite forallb_forall in Hl. apply Forall_forall. auto. }
  split; [auto|split].
  - intros es old E. rewrite E in H2. apply andb_true_iff in H2. destruct H2 as [A B]. split; auto.
    rewrite forallb_forall in A. apply Forall_forall. auto.
  - intros sid r Hin. rewrite forallb_forall in H3. apply HF. apply (H3 _ Hin).
Qed.

Definition rev_bound_b (t : table) : bool := t_rev t <? 18446744073709551616.

Fixpoint run_bounded_b (d : db) (ops : list op) : bool :=
  match ops with
  | [] => true
  | o :: r => all_tables_b rev_bound_b (fst (step d o)) && run_bounded_b (fst (step d o)) r
  end.

Lemma run_bounded_b_ok ops : forall d, run_bounded_b d ops = true -> run_bounded d ops.
Proof.
  induction ops as [|o r IH]; intros d H; simpl in *; auto.
  apply andb_true_iff in H. destruct H as [H1 H2]. split; auto.
  apply (all_tables_b_ok rev_bound_b); auto. intros t Ht. unfold rev_bound_b, rev_bound in *.
  now apply N.ltb_lt.
Qed.
