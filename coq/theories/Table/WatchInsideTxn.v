(* Table/WatchInsideTxn.v — C06 composed for watch queries made INSIDE a write transaction
   (Part/TxnHandles.v + Table/WatchFootprint.v + Table/WatchCompose.v).

   part_index.go, queries on a partIndexTxn: Get on a unique index calls tx.Get (no txnID bump); Get on a non-unique
   index calls tx.Prefix (bump); List / Prefix / LowerBound / All take `snapshot := tx.Clone()` (bump) first:
   [q_freezes]. t1: the table state the query ran on (the writes so far applied), t2: the table the transaction
   commits; x: the state of the index's part.Txn at query time. If the answer on t2 differs from the answer the query
   returned, the channel handed out is closed by the Notify that Commit issues for that part.Txn. *)
From SV Require Import Base.Bytes Base.OrdMap.
From SV Require Import Part.Model Part.Refine Part.Watch Part.Fresh Part.Footprint Part.TxnHandles.
From SV Require Import Table.Model Table.WatchFootprint Table.WatchCompose.
From Coq Require Import ZifyN ZifyNat ZifyBool.
Open Scope N_scope.

(* does the query freeze the transaction's tree (Clone / Txn.Prefix) before it takes the channel? *)
Definition q_freezes (q : query) : bool :=
  match q with QGet k _ => negb (is_unique k) | _ => true end.

(* the channel a watch query hands out when run on the part.Txn in state x, and the part.Txn afterwards *)
Definition txn_query (x : txn) (q : query) (h : handle) : txn * N :=
  if q_freezes q then txn_query_clone x h
  else match h with HGet k => txn_query_get x k | _ => txn_query_clone x h end.

Section Code.
Variable code : object -> N.

Theorem changed_result_closes_inside_txn_channel d d' tab tab' q ik h t1 t2 T next ops1 ops2 :
  q_handle q = Some (ik, h) -> om_sorted (index_of ik t1) -> om_sorted (index_of ik t2) ->
  tree_inv T next ->
  let x := fold_left wstep ops1 (tree_txn T next) in
  abs_txn x = cmap code (index_of ik t1) ->
  let a := snd (txn_query x q h) in
  let xe := fold_left wstep ops2 (fst (txn_query x q h)) in
  (q_freezes q = true \/ root_priv_ne x a) ->
  abs_tree (snd (txn_commit xe)) = cmap code (index_of ik t2) ->
  code_separates code (index_of ik t1) (index_of ik t2) ->
  run_query d tab q t1 <> run_query d' tab' q t2 ->
  a <> 0 /\ In a (snd (txn_notify (fst (txn_commit xe)))).    (* write_txn.go Commit: tx.Commit(), then tx.Notify() *)
Proof.
  intros Hq S1 S2 HI. cbv zeta. intros Ea Hf Ea' Hs Hd. rewrite notify_after_commit.
  destruct (query_result_change d d' tab tab' q ik h t1 t2 Hq S1 S2 Hd) as [K [Fp [C B]]].
  assert (Dk : om_get K (cmap code (index_of ik t2)) <> om_get K (cmap code (index_of ik t1)))
    by now apply binding_change_cmap.
  unfold txn_query in *. destruct (q_freezes q) eqn:Fz.
  - pose proof (handle_inside_txn T next ops1 ops2 h HI) as H. cbv zeta in H. destruct H as (A & Cc & _).
    split; [exact A|]. apply Cc. exists K. split; [exact C|]. rewrite Ea, Ea'. exact Dk.
  - destruct Hf as [Hf|Hp]; [discriminate|].
    destruct q; cbn [q_freezes] in Fz; try discriminate. cbn [q_handle] in Hq.
    apply negb_false_iff in Fz. rewrite Fz in Hq. injection Hq as <- <-. cbn [h_covers] in C.
    apply bytes_eqb_spec in C. subst K.
    pose proof (get_inside_txn T next ops1 ops2 key HI) as H. cbv zeta in H. destruct (H Hp) as (A & Cc & _).
    split; [exact A|]. apply Cc. rewrite Ea, Ea'. exact Dk.
Qed.
End Code.

(* non-vacuity: the table of Table/WatchCompose.v (objects a: key "x", b: key "y"; non-unique index); inside the
   write transaction: List("y") = [b] on the transaction, THEN the update of a that gains the key "y"; Commit *)
Example inside_txn_nonvacuous :
  let x := fold_left wstep [] (tree_txn ex_T 10) in
  q_handle ex_q = Some (INn, HPrefix (enc [121])) /\ q_freezes ex_q = true /\
  tree_inv ex_T 10 /\ abs_txn x = cmap o_rev (index_of INn ex_t) /\
  abs_tree (snd (txn_commit (fold_left wstep ex_ops (fst (txn_query x ex_q (HPrefix (enc [121]))))))) =
    cmap o_rev (index_of INn (twrun ex_t ex_ws)) /\
  run_query (init_db 1) 0 ex_q ex_t <> run_query (init_db 1) 0 ex_q (twrun ex_t ex_ws) /\
  snd (txn_query x ex_q (HPrefix (enc [121]))) = 4 /\
  In 4 (snd (txn_notify (fst (txn_commit (fold_left wstep ex_ops (fst (txn_query x ex_q (HPrefix (enc [121]))))))))).
Proof.
  destruct compose_nonvacuous as (Hq & S & HI & Ea & _).
  cbv zeta. split; [exact Hq|]. split; [reflexivity|]. split; [exact HI|]. split; [exact Ea|].
  vm_compute. repeat split; auto. discriminate.
Qed.

Print Assumptions changed_result_closes_inside_txn_channel.
