(* Table/ClientsRun7.v — C19 at run level: Derive hands over the initialization signal safely. The leg of the loop
   that completes the derived table's initializer (dv_marked flips) runs against a root whose input table is
   initialized, issues OInitDone out derive_name, and (refreshing case) commits it together with a derived table
   that has exactly the contents of the input table. Combines Table/ClientsProofs.v part B with ClientsRun5.v. *)
From Coq Require Import List NArith Bool Lia.
Import ListNotations.
From SV Require Import Base.Bytes Base.OrdMap KeyEnc.Model Table.Model Table.Proofs Table.InvDefs Table.Inv Table.Inv2
                       Table.GcProofs Table.ChangesStream Table.ChangesIter Table.ChangesProofs Table.ChangesRet
                       Table.ChangesHist Table.ChangesFromInit Table.Clients Table.ClientsProofs Table.ClientsProofs2
                       Table.ClientsRun Table.ClientsRun2 Table.ClientsRun3 Table.ClientsRun4 Table.ClientsRun5.
Local Open Scope N_scope.

(* ---- the loop's initializer name is the reserved one, in every run ------------------------------------------ *)
Definition dname_ok (s : csys) : Prop := forall ds, cs_d s = Some ds -> dv_name ds = derive_name.

Lemma derive_go_name tr ds d d' ds' ops ran : derive_go tr ds d = (d', ds', ops, ran) -> dv_name ds' = dv_name ds.
Proof.
  unfold derive_go. destruct (d_txn d); [intros H; injection H as _ <- _ _; reflexivity|].
  destruct (negb (d_ready ds d)); [intros H; injection H as _ <- _ _; reflexivity|].
  assert (Hi : forall a b e, derive_iter tr ds d = (a, b, e) -> dv_name b = dv_name ds).
  { intros a b e E. destruct (derive_iter_ids tr ds d) as [_ [_ [_ [A _]]]]. rewrite E in A. exact A. }
  destruct (dv_phase ds).
  - intros H; injection H as _ <- _ _; reflexivity.
  - destruct (derive_iter tr ds d) as [[a b] e] eqn:E. intros H; injection H as _ <- _ _. eauto.
  - destruct (derive_iter tr ds d) as [[a b] e] eqn:E. intros H; injection H as _ <- _ _. eauto.
Qed.

(* cstep: the wake-up of the observer leaves the loop's state alone *)
Lemma cstep_cs_d s c s' x ops : cstep s c = (s', x, ops) ->
  exists o2, cs_d s' = cs_d (fst (fst (cstep0 s c))) /\ ops = snd (cstep0 s c) ++ o2.
Proof.
  unfold cstep. destruct (cstep0 s c) as [[s1 y] o1]. cbn [fst snd]. destruct (cs_o s1) as [os|].
  - destruct (observe_wake os (cs_db s1)) as [[d' os'] o2]. intros H; injection H as <- _ <-. exists o2. auto.
  - intros H; injection H as <- _ <-. exists []. now rewrite app_nil_r.
Qed.

Lemma cstep0_dname s c s' x ops : dname_ok s -> cstep0 s c = (s', x, ops) -> dname_ok s'.
Proof.
  intros HI. unfold dname_ok in *. destruct c; cbn [cstep0].
  - destruct (step (cs_db s) o). intros H; injection H as <- _ _. exact HI.
  - destruct (cs_d s) eqn:Ed; [intros H; injection H as <- _ _; now rewrite Ed|].
    destruct (d_txn (cs_db s)); intros H; injection H as <- _ _; cbn [cs_d]; [now rewrite Ed|].
    intros ds E. injection E as <-. reflexivity.
  - destruct (cs_d s) as [ds|] eqn:Ed; [|intros H; injection H as <- _ _; now rewrite Ed].
    destruct (derive_go (tr_std (cs_mode s)) ds (cs_db s)) as [[[d' ds'] opsg] ran] eqn:E.
    intros H; injection H as <- _ _. cbn [cs_d]. intros ds0 E0. injection E0 as <-.
    rewrite (derive_go_name _ _ _ _ _ _ _ E). auto.
  - destruct (cs_d s) eqn:Ed; intros H; injection H as <- _ _; now rewrite Ed.
  - destruct (cs_o s); intros H; injection H as <- _ _; exact HI.
  - destruct (cs_o s) as [os|]; [|intros H; injection H as <- _ _; exact HI].
    destruct (observe_go os (cs_db s)) as [[[[d' os'] opsg] c] ran]. intros H; injection H as <- _ _. exact HI.
  - destruct (cs_o s) as [os|]; [|intros H; injection H as <- _ _; exact HI].
    destruct (observe_cancel os (cs_db s)) as [[[d' os'] opsg] ran]. intros H; injection H as <- _ _. exact HI.
  - destruct (cs_o s); intros H; injection H as <- _ _; exact HI.
Qed.

Lemma crun_dname cs : forall s s' outs ops, dname_ok s -> crun s cs = (s', outs, ops) -> dname_ok s'.
Proof.
  induction cs as [|c r IH]; intros s s' outs ops HI; cbn [crun]; [intros H; injection H as <- _ _; exact HI|].
  destruct (cstep s c) as [[s1 x] o1] eqn:E1. destruct (crun s1 r) as [[s2 xs] o2] eqn:E2.
  intros H; injection H as <- _ _. eapply IH; [|exact E2].
  destruct (cstep_cs_d _ _ _ _ _ E1) as [o3 [A _]]. destruct (cstep0 s c) as [[s0 y] o0] eqn:E0. cbn [fst] in A.
  pose proof (cstep0_dname _ _ _ _ _ HI E0) as K. unfold dname_ok in *. rewrite A. exact K.
Qed.

(* ---- the marking leg ------------------------------------------------------------------------------------------ *)
Lemma derive_go_marks tr ds d d1 ds1 og ran :
  derive_go tr ds d = (d1, ds1, og, ran) -> dv_marked ds = false -> dv_marked ds1 = true ->
  d_txn d = None /\ d_ready ds d = true /\ dv_phase ds <> DReg /\ derive_iter tr ds d = (d1, ds1, og).
Proof.
  unfold derive_go. intros H Hm Hm1. destruct (d_txn d); [injection H as _ <- _ _; congruence|].
  destruct (d_ready ds d); cbn [negb] in H; [|injection H as _ <- _ _; congruence].
  destruct (dv_phase ds).
  - injection H as _ <- _ _. cbn in Hm1. congruence.
  - destruct (derive_iter tr ds d) as [[a b] e]. injection H as <- <- <- _. repeat split; auto; discriminate.
  - destruct (derive_iter tr ds d) as [[a b] e]. injection H as <- <- <- _. repeat split; auto; discriminate.
Qed.

Theorem derive_init_handover n inn out cs s outs ops ds s' x ops1 ds' :
  (out < n)%nat -> (inn < n)%nat -> inn <> out -> forallb (cop_okG inn out) cs = true ->
  crun (init_csys n 0) cs = (s, outs, ops) ->
  cstep s CDeriveGo = (s', x, ops1) ->
  (* this is the leg that completes the derived table's initializer *)
  cs_d s = Some ds -> dv_marked ds = false -> cs_d s' = Some ds' -> dv_marked ds' = true ->
  (* (a) it ran against a root whose input table is initialized *)
  (exists tin, nth_error (d_root (cs_db s)) inn = Some tin /\ fst (fst (q_init tin)) = true) /\
  (* (b) it issued the OInitDone of the derived table's initializer, in its own transaction *)
  In (OInitDone out derive_name) ops1 /\
  d_txn (cs_db s) = None /\ dv_phase ds <> DReg /\ d_ready ds (cs_db s) = true /\
  (* (c) if its Next refreshed, the derived table it committed together with the mark has exactly the contents
         of the input table of the root it leaves behind *)
  (forall S, next_source (fst (step (cs_db s) (OBegin [out]))) derive_iid STxn = Some S ->
             room_run (init_db n) (ops ++ [OBegin [out]; ONext derive_iid STxn None]) ->
             exists tin' tout', nth_error (d_root (cs_db s')) inn = Some tin' /\
                                nth_error (d_root (cs_db s')) out = Some tout' /\
                                contents tout' = contents tin' /\ contents tin' = contents S).
Proof.
  intros Hout Hinn Hio Hc Hrun Hstep Ed Hm Ed' Hm'.
  pose proof (GInv_crun n inn out cs Hinn _ [] _ _ _ (GInv_init n inn out) Hc Hrun) as HI. cbn [app] in HI.
  destruct (g_ids _ _ _ _ _ HI _ Ed) as [Din [Do Di]].
  assert (Hname : dv_name ds = derive_name).
  { eapply (crun_dname cs (init_csys n 0)); eauto. intros ds0 E0. discriminate. }
  destruct (cstep_cs_d _ _ _ _ _ Hstep) as [o2 [A B]]. cbn [cstep0] in A, B. rewrite Ed in A, B.
  destruct (derive_go (tr_std (cs_mode s)) ds (cs_db s)) as [[[d1 ds1] og] ran] eqn:E. cbn [fst snd cs_d] in A, B.
  rewrite Ed' in A. injection A as <-.
  destruct (derive_go_marks _ _ _ _ _ _ _ E Hm Hm') as [Htx [Hrdy [Hph Hit]]].
  split; [|split; [|split; [exact Htx|split; [exact Hph|split; [exact Hrdy|]]]]].
  - destruct (derive_marks_only_when_input_initialized _ _ _ _ _ _ Hit Hm Hm' Htx) as [t [T1 T2]]; [congruence|].
    exists t. rewrite <- Din. auto.
  - subst ops1. apply in_or_app. left. pose proof (derive_initdone_in_ops _ _ _ _ _ _ Hit Hm Hm') as K.
    rewrite Do, Hname in K. exact K.
  - intros S HS Hroom.
    exact (derive_run_converges' n inn out cs s outs ops ds S s' x ops1 Hout Hinn Hio Hc Hrun Ed Hph Htx Hrdy HS Hroom Hstep).
Qed.

(* the hypotheses are satisfiable: cx_pre of Table/ClientsProofs.v ends right before the marking leg *)
Example derive_init_handover_nonvacuous :
  let r := crun (init_csys 2 0) cx_pre in
  let s := fst (fst r) in
  let r' := cstep s CDeriveGo in
  forallb (cop_okG 0 1) cx_pre = true /\
  option_map dv_marked (cs_d s) = Some false /\
  option_map dv_marked (cs_d (fst (fst r'))) = Some true /\
  snd r' = [OBegin [1%nat]; ONext derive_iid STxn None; OInsert 1 (cx_pb 2); ODelete 1 [97];
            OInitDone 1 derive_name; OCommit derive_sid] /\
  option_map (fun t => fst (fst (q_init t))) (nth_error (d_root (cs_db s)) 0) = Some true /\
  (exists S, next_source (fst (step (cs_db s) (OBegin [1%nat]))) derive_iid STxn = Some S) /\
  room_run (init_db 2) (snd r ++ [OBegin [1%nat]; ONext derive_iid STxn None]) /\
  map contents (d_root (cs_db (fst (fst r')))) = [[([98], 2)]; [([98], 2)]] /\
  (* before the leg the derived table is not initialized, after it it is *)
  option_map (fun t => fst (fst (q_init t))) (nth_error (d_root (cs_db s)) 1) = Some false /\
  option_map (fun t => fst (fst (q_init t))) (nth_error (d_root (cs_db (fst (fst r')))) 1) = Some true.
Proof.
  cbv zeta. split; [vm_compute; reflexivity|]. split; [vm_compute; reflexivity|]. split; [vm_compute; reflexivity|].
  split; [vm_compute; reflexivity|]. split; [vm_compute; reflexivity|]. split; [eexists; vm_compute; reflexivity|].
  split; [apply room_runb_ok; vm_compute; reflexivity|]. repeat split; vm_compute; reflexivity.
Qed.

(* ---- the idle sub-case: the marking leg's Next finds the watch channel open ---------------------------------- *)
Lemma next_idle d iid s take l w :
  next_source d iid s = None -> snd (step d (ONext iid s take)) = OutChanges l w ->
  l = [] /\ exists it cur, assoc iid (d_iters d) = Some it /\ nth_error (d_root d) (it_tab it) = Some cur /\
                           it_pending it = None /\ t_rev cur = it_watchrev it.
Proof.
  unfold next_source. cbn [step]. intros H1 H2. destruct (assoc iid (d_iters d)) as [it|]; [|discriminate H2].
  destruct (src_committed d s) as [r|]; [|discriminate H2].
  destruct (nth_error r (it_tab it)) as [t|]; [|discriminate H2].
  destruct (nth_error (d_root d) (it_tab it)) as [cur|] eqn:Ec; [|discriminate H2].
  destruct (it_pending it) as [p|] eqn:Ep; [discriminate H1|].
  destruct (t_rev cur =? it_watchrev it) eqn:Er; [|discriminate H1].
  cbn [snd] in H2. injection H2 as <- _. split; [reflexivity|]. exists it, cur.
  apply N.eqb_eq in Er. repeat split; auto.
Qed.

(* whenever the loop's iterator is exhausted and its watch channel is that of the input table's current revision,
   the derived table has exactly the contents of the input table (no step needed) *)
Theorem derive_exhausted_equals_input n inn out cs s outs ops ds it cur :
  (out < n)%nat -> (inn < n)%nat -> forallb (cop_okG inn out) cs = true ->
  crun (init_csys n 0) cs = (s, outs, ops) -> cs_d s = Some ds -> dv_phase ds <> DReg ->
  d_txn (cs_db s) = None -> room_run (init_db n) ops ->
  assoc derive_iid (d_iters (cs_db s)) = Some it -> nth_error (d_root (cs_db s)) (it_tab it) = Some cur ->
  it_pending it = None -> t_rev cur = it_watchrev it ->
  it_tab it = inn /\
  exists tout, nth_error (d_root (cs_db s)) out = Some tout /\ om_sorted (t_primary tout) /\
               contents tout = contents cur /\
               contents tout = cproj (replay (delivered derive_iid (init_db n) ops)).
Proof.
  intros Hout Hinn Hc Hrun Ed Hph Htx Hroom Hit Hcur Hp Hw.
  destruct (derive_run_c07_hypotheses n inn out cs s outs ops ds Hinn Hc Hrun Ed Hph)
    as [pre [post [t0 [E [U [C [F [R Rn]]]]]]]]. subst ops.
  destruct (derive_run_invariant n out cs s outs _ Hout (cop_okG_ok _ _ _ Hc) Hrun) as [Hdb0 [tout [T1 [T2 T3]]]].
  destruct (derive_run_invariant_split n out cs s outs pre inn post Hout (cop_okG_ok _ _ _ Hc) Hrun U) as [Hdb _].
  cbv zeta in Hdb. rewrite (delivered_split _ _ _ _ _ U) in T3.
  set (dc := fst (run (init_db n) pre)) in *. set (d0 := fst (step dc (OChanges derive_iid inn))) in *.
  destruct (from_init_facts n pre derive_iid inn post Hroom) as [A [B Cc]]. fold dc d0 in A, B, Cc.
  destruct (discharged_facts derive_iid inn dc t0 post C A F (conj B Cc) R) as [Hg [Rv [HI0 HR0]]]. fold d0 in Hg, Rv.
  pose proof (sinv_run true derive_iid post _ _ (sinv_created true dc derive_iid inn t0 C HI0 HR0) Hg) as [_ Hs].
  fold d0 in Hs. rewrite <- Hdb in Hs, Rv.
  destruct (Hs it Hit) as [HO _]. destruct (Rv it Hit) as [cur' [Hc' HR]].
  pose proof (ri_tab _ _ _ _ _ _ HR) as Ht. split; [exact Ht|]. rewrite Ht in Hcur.
  assert (cur' = cur) by congruence. subst cur'.
  (* the tracker is registered in the root *)
  assert (Hreg : reg derive_iid cur).
  { specialize (Rn Htx). apply friendly_run_app in Rn. destruct Rn as [_ Rn]. cbn [friendly_run friendly] in Rn.
    destruct Rn as [Rn _]. destruct (Rn eq_refl) as [_ [c [Hc1 Hc2]]].
    rewrite run_app, <- Hdb, run_single in Hc1. cbn [step] in Hc1. rewrite Htx in Hc1. cbn [fst set_txn d_root] in Hc1.
    congruence. }
  assert (HIc : TInv cur).
  { pose proof (ok_run_end _ _ Cc) as [Tk _]. rewrite <- Hdb in Tk. destruct Tk as [Tk _].
    rewrite Forall_forall in Tk. apply Tk. eapply nth_error_In; eauto. }
  pose proof (init_converge n pre derive_iid inn t0 post Hroom C F R it) as Hconv. fold dc d0 in Hconv.
  rewrite <- Hdb in Hconv. specialize (Hconv Hit Hp).
  pose proof (exhausted_same_table derive_iid inn _ cur it _ (cs_db s) HO HR HIc Hreg Hp Hw) as Hsame.
  exists tout. split; [exact T1|]. split; [exact T2|]. split.
  - rewrite T3. fold dc d0. rewrite Hconv, Hsame. apply cproj_abs_of.
  - rewrite T3, (delivered_split _ _ _ _ _ U). reflexivity.
Qed.

(* what the whole step CDeriveGo does to the database: the leg of the loop, then operations of the observer that
   write no table *)
Lemma cstep_derive_go_db s ds s' x ops1 : cs_d s = Some ds -> cstep s CDeriveGo = (s', x, ops1) ->
  exists o2, cs_db s' = fst (run (fst (fst (fst (derive_go (tr_std (cs_mode s)) ds (cs_db s))))) o2) /\
             forall i, forallb (nowrite i) o2 = true.
Proof.
  intros Ed. unfold cstep. cbn [cstep0]. rewrite Ed.
  destruct (derive_go (tr_std (cs_mode s)) ds (cs_db s)) as [[[d1 ds1] og] ran]. cbn [fst cs_o cs_db].
  destruct (cs_o s) as [os|].
  - destruct (observe_wake os d1) as [[d'' os'] o2] eqn:Ew. intros H; injection H as <- _ _. cbn [cs_db].
    exists o2. split; [exact (proj1 (observe_wake_nowrite 0%nat os d1 d'' os' o2 Ew))|].
    intros i. exact (proj2 (observe_wake_nowrite i os d1 d'' os' o2 Ew)).
  - intros H; injection H as <- _ _. cbn [cs_db]. exists []. split; reflexivity.
Qed.

Theorem derive_init_handover_idle n inn out cs s outs ops ds s' x ops1 ds' :
  (out < n)%nat -> (inn < n)%nat -> inn <> out -> forallb (cop_okG inn out) cs = true ->
  crun (init_csys n 0) cs = (s, outs, ops) ->
  cstep s CDeriveGo = (s', x, ops1) ->
  cs_d s = Some ds -> dv_marked ds = false -> cs_d s' = Some ds' -> dv_marked ds' = true ->
  (* the leg's Next does not refresh *)
  next_source (fst (step (cs_db s) (OBegin [out]))) derive_iid STxn = None ->
  room_run (init_db n) ops ->
  exists tin tout tin' tout',
    nth_error (d_root (cs_db s)) inn = Some tin /\ nth_error (d_root (cs_db s)) out = Some tout /\
    nth_error (d_root (cs_db s')) inn = Some tin' /\ nth_error (d_root (cs_db s')) out = Some tout' /\
    (* the derived table already equalled the input table, and the leg changes neither *)
    contents tout = contents tin /\ contents tin' = contents tin /\ contents tout' = contents tout.
Proof.
  intros Hout Hinn Hio Hc Hrun Hstep Ed Hm Ed' Hm' HS Hroom.
  pose proof (RInvF_crun n out cs Hout _ [] _ _ _ (RInvF_init n out Hout) (cop_okG_ok _ _ _ Hc) Hrun) as HF.
  cbn [app] in HF. pose proof (rf_mode _ _ _ _ HF) as Hmode. pose proof (rf_db _ _ _ _ HF) as Hdb.
  pose proof (GInv_crun n inn out cs Hinn _ [] _ _ _ (GInv_init n inn out) Hc Hrun) as HI. cbn [app] in HI.
  destruct (g_ids _ _ _ _ _ HI _ Ed) as [Din [Do Di]].
  destruct (cstep_cs_d _ _ _ _ _ Hstep) as [o2' [A _]]. cbn [cstep0] in A. rewrite Ed in A.
  destruct (cstep_derive_go_db s ds s' x ops1 Ed Hstep) as [o2 [Hs' Hnw]].
  destruct (derive_go (tr_std (cs_mode s)) ds (cs_db s)) as [[[d1 ds1] og] ran] eqn:E. cbn [fst snd cs_d] in A, Hs'.
  rewrite Ed' in A. injection A as <-.
  destruct (derive_go_marks _ _ _ _ _ _ _ E Hm Hm') as [Htx [Hrdy [Hph Hit]]]. rewrite Hmode in Hit.
  (* the leg's Next was idle *)
  destruct (derive_iter_delivered _ _ _ _ _ _ Hit) as [Hdel Hne].
  assert (Hog : og <> []).
  { intros ->. pose proof (derive_initdone_in_ops _ _ _ _ _ _ Hit Hm Hm') as K. destruct K. }
  destruct (Hne Hog) as [l [w [rest [Hl _]]]]. rewrite Do, Di in Hl.
  destruct (next_idle _ _ _ _ _ _ HS Hl) as [-> [it [cur [Hi [Hcur [Hp Hw]]]]]].
  assert (Hb : fst (step (cs_db s) (OBegin [out])) = set_txn (cs_db s) (Some (upd_nth out (fun e => (fst e, true)) (map (fun t => (t, false)) (d_root (cs_db s))), d_root (cs_db s)))).
  { cbn [step]. rewrite Htx. reflexivity. }
  rewrite Hb in Hi, Hcur. cbn [set_txn d_iters d_root] in Hi, Hcur.
  destruct (derive_exhausted_equals_input n inn out cs s outs ops ds it cur Hout Hinn Hc Hrun Ed Hph Htx Hroom Hi Hcur Hp Hw)
    as [Htab [tout [T1 [T2 [T3 T4]]]]].
  rewrite Htab in Hcur.
  (* the leg *)
  rewrite Hdb in Htx, T1, Hit.
  destruct (derive_mirror_step ds (init_db n) ops tout d1 ds' og Htx) as [Hd1 [Tn [[tout1 [C1 [C2 C3]]] Fr]]];
    rewrite ?Do, ?Di; auto.
  assert (Hdl : delivered derive_iid (init_db n) (ops ++ og) = delivered derive_iid (init_db n) ops).
  { rewrite delivered_app, <- Hdb. rewrite Di in Hdel. rewrite Hdel. destruct og; [congruence|].
    rewrite Do, Hl. cbn [out_changes]. now rewrite app_nil_r. }
  rewrite Di in C3. rewrite Do in C1. rewrite Do in Fr. rewrite Hdl, <- T4 in C3.
  assert (Hin1 : nth_error (d_root d1) inn = Some cur).
  { rewrite Fr by exact Hio. rewrite <- Hdb. exact Hcur. }
  (* the observer's wake-up *)
  assert (L : LInv n (cs_db s')).
  { rewrite Hs'. apply LInv_run. rewrite Hd1. apply LInv_run, LInv_init. }
  destruct (LInv_root n _ inn L Hinn) as [tin2 E1]. destruct (LInv_root n _ out L Hout) as [tout2 E2].
  assert (P1 : pentry inn (t_primary cur) d1) by (split; [intros t Ht; congruence|rewrite Tn; discriminate]).
  assert (P2 : pentry out (t_primary tout1) d1) by (split; [intros t Ht; congruence|rewrite Tn; discriminate]).
  destruct (run_pentry inn _ o2 d1 (Hnw inn) P1) as [Q1 _]. destruct (run_pentry out _ o2 d1 (Hnw out) P2) as [Q2 _].
  rewrite <- Hs' in Q1, Q2. rewrite <- Hdb in T1.
  exists cur, tout, tin2, tout2. repeat (split; [assumption|]). unfold contents in *.
  rewrite (Q1 _ E1), (Q2 _ E2). split; [reflexivity|exact C3].
Qed.

(* the idle sub-case is not vacuous: the input table's initializer finishes in a transaction that changes no object;
   the loop is woken through the initialization watch channel, its Next finds the table's watch channel open *)
Definition ix_run : list cop :=
  [CUser (OBegin [0%nat]); CUser (ORegInit 0 5); CUser (OInsert 0 (cx_pa 1)); CUser (OCommit 1);
   CDeriveStart 0 1; CDeriveGo; CDeriveGo; CDeriveGo;
   CUser (OBegin [0%nat]); CUser (OInitDone 0 5); CUser (OCommit 2)].

Example derive_init_handover_idle_nonvacuous :
  let r := crun (init_csys 2 0) ix_run in
  let s := fst (fst r) in
  let r' := cstep s CDeriveGo in
  forallb (cop_okG 0 1) ix_run = true /\
  option_map dv_marked (cs_d s) = Some false /\ option_map dv_phase (cs_d s) = Some (DWait 1 (Some 0)) /\
  option_map dv_marked (cs_d (fst (fst r'))) = Some true /\
  snd r' = [OBegin [1%nat]; ONext derive_iid STxn None; OInitDone 1 derive_name; OCommit derive_sid] /\
  next_source (fst (step (cs_db s) (OBegin [1%nat]))) derive_iid STxn = None /\
  room_run (init_db 2) (snd r) /\
  map contents (d_root (cs_db s)) = [[([97], 1)]; [([97], 1)]] /\
  map contents (d_root (cs_db (fst (fst r')))) = [[([97], 1)]; [([97], 1)]] /\
  option_map (fun t => fst (fst (q_init t))) (nth_error (d_root (cs_db s)) 0) = Some true /\
  option_map (fun t => fst (fst (q_init t))) (nth_error (d_root (cs_db s)) 1) = Some false /\
  option_map (fun t => fst (fst (q_init t))) (nth_error (d_root (cs_db (fst (fst r')))) 1) = Some true.
Proof.
  cbv zeta. split; [vm_compute; reflexivity|]. split; [vm_compute; reflexivity|]. split; [vm_compute; reflexivity|].
  split; [vm_compute; reflexivity|]. split; [vm_compute; reflexivity|]. split; [vm_compute; reflexivity|].
  split; [apply room_runb_ok; vm_compute; reflexivity|]. repeat split; vm_compute; reflexivity.
Qed.
