(* Table/AgreeRun.v — the Agree invariant along whole histories of the database model: after any
   sequence of operations (transactions, inserts, key-changing updates, deletes, DeleteAll,
   commits, aborts, snapshots, graveyard collection, ...) every table value reachable anywhere
   (committed root, open write transaction, retained snapshots) satisfies TInv and Agree, hence
   every query through every index is exact on it (Table/Queries.v).
   Uses the history-lifting of Table/Inv2.v (all_tables_step) and the core invariant of Table/Inv.v. *)
From SV Require Import Base.Bytes Base.OrdMap KeyEnc.Model Table.Model Table.InvDefs Table.Proofs Table.GcProofs
  Table.Inv Table.Inv2 Table.Inv3 Table.AgreeDefs Table.AgreeLpm Table.AgreeN Table.Agree Table.Queries.
From Coq Require Import Sorted ZifyN ZifyNat ZifyBool.
Open Scope N_scope.

(* Agree only reads the primary index and the four secondary indexes *)
Lemma Agree_ext t t' :
  t_primary t' = t_primary t -> t_u t' = t_u t -> t_n t' = t_n t -> t_lu t' = t_lu t -> t_ln t' = t_ln t ->
  Agree t -> Agree t'.
Proof.
  intros E1 E2 E3 E4 E5. unfold Agree, u_agree, n_agree, l_agree, live. now rewrite E1, E2, E3, E4, E5.
Qed.

Lemma wf_ext t t' : t_primary t' = t_primary t -> (u_wf t -> u_wf t') /\ (lu_wf t -> lu_wf t') /\ (pk_short t -> pk_short t').
Proof. intros E. unfold u_wf, lu_wf, pk_short, live. now rewrite E. Qed.

Lemma Agree_gc_apply keys t : Agree t -> Agree (gc_apply_table keys t).
Proof.
  destruct (gc_apply_frame keys t) as [_ [E1 [_ [E2 [E3 [E4 [E5 _]]]]]]]. now apply Agree_ext.
Qed.

Lemma Agree_set_meta t trk ini : Agree t -> Agree (set_meta t trk ini).
Proof. now apply Agree_ext. Qed.

(* DeleteAll *)
Lemma Agree_fold_delete (l : list (bytes * object)) : forall t, TInv t -> Agree t ->
  rev_bound (fold_left (fun t kv => fst (delete 0 (p_id (o_data (snd kv))) t)) l t) ->
  Agree (fold_left (fun t kv => fst (delete 0 (p_id (o_data (snd kv))) t)) l t).
Proof.
  induction l as [|kv r IH]; intros t HI HA Hb; cbn [fold_left] in *; auto.
  apply IH; auto.
  - apply TInv_delete; auto.
    pose proof (fold_delete_rev_mono r (fst (delete 0 (p_id (o_data (snd kv))) t))). unfold rev_bound in *. lia.
  - now apply delete_agree.
Qed.

Theorem delete_all_agree t : TInv t -> Agree t -> rev_bound (delete_all t) -> Agree (delete_all t).
Proof. unfold delete_all. apply Agree_fold_delete. Qed.

(* ---- histories --------------------------------------------------------------------------------- *)
(* what is maintained / what the user owes at every step: revisions below 2^64 and the documented
   well-formedness of the unique indexes (no key shared by two live objects) *)
Definition TA (t : table) : Prop := TInv t /\ Agree t.
Definition TW (t : table) : Prop := rev_bound t /\ u_wf t /\ lu_wf t.
Definition DAgree (d : db) : Prop := all_tables TA d.
Definition DWf (d : db) : Prop := all_tables TW d.
Fixpoint run_wf (d : db) (ops : list op) : Prop :=
  match ops with
  | [] => True
  | o :: r => DWf (fst (step d o)) /\ run_wf (fst (step d o)) r
  end.

Theorem DAgree_init n : DAgree (init_db n).
Proof.
  unfold DAgree, all_tables, init_db. simpl. repeat split; try discriminate; try tauto.
  apply Forall_forall. intros t Ht. apply repeat_spec in Ht. subst. split; [apply TInv_empty|apply Agree_empty].
Qed.

Theorem DAgree_step d o : DAgree d -> DWf (fst (step d o)) -> DAgree (fst (step d o)).
Proof.
  apply all_tables_step; unfold TA, TW.
  - intros g m p t [HI HA] [Hb [Hu Hl]]. split; [now apply TInv_modify|now apply modify_agree].
  - intros g id t [HI HA] [Hb _]. split; [now apply TInv_delete|now apply delete_agree].
  - intros t [HI HA] [Hb _]. split; [now apply TInv_delete_all|now apply delete_all_agree].
  - intros keys t [HI HA] [Hb _]. split; [|now apply Agree_gc_apply].
    apply TInv_gc_apply; auto. unfold rev_bound in *. now rewrite gc_apply_rev in Hb.
  - intros t trk ini [HI HA]. split; [now apply TInv_set_meta|now apply Agree_set_meta].
Qed.

Theorem DAgree_run ops : forall d, DAgree d -> run_wf d ops -> DAgree (fst (run d ops)).
Proof.
  induction ops as [|o r IH]; intros d HI Hb; [exact HI|].
  rewrite run_cons_fst. destruct Hb as [Hb1 Hb2]. apply IH; auto. now apply DAgree_step.
Qed.

(* every table value reachable after any well-formed history *)
Theorem reachable_agree n ops t :
  run_wf (init_db n) ops -> in_db (fst (run (init_db n) ops)) t -> TInv t /\ Agree t.
Proof.
  intros Hw Hin. apply (all_tables_in_db TA _ _ (DAgree_run ops _ (DAgree_init n) Hw) Hin).
Qed.

(* ... hence e.g. List through the non-unique index is exact on it (K1 guard: short primary keys) *)
Corollary reachable_q_list_n n ops t key :
  run_wf (init_db n) ops -> in_db (fst (run (init_db n) ops)) t -> pk_short t ->
  q_list INn key t = filter (has_key key) (vals (t_primary t)).
Proof.
  intros Hw Hin Hs. destruct (reachable_agree _ _ _ Hw Hin) as [HI [_ [HA _]]]. now apply q_list_n_exact.
Qed.

(* the hypotheses are satisfiable: a one-object table with keys in all four secondary indexes *)
Definition nv_payload : payload := mkP [97] 1 [[5]; []] [[1]; [0]; [1]] [[true]] [[false]; []].
Definition nv_table : table := fst (modify 0 false nv_payload empty_table).

Lemma nv_live o : live nv_table o -> o = mkO nv_payload 1.
Proof. unfold live. vm_compute. intros [H|[]]. now injection H. Qed.

Example agree_nonvacuous :
  TInv nv_table /\ Agree nv_table /\ pk_short nv_table /\ u_wf nv_table /\ lu_wf nv_table /\
  live nv_table (mkO nv_payload 1).
Proof.
  split; [|split; [|split; [|split; [|split]]]].
  - apply TInv_modify; [apply TInv_empty|]. unfold rev_bound. vm_compute. reflexivity.
  - apply modify_agree'; [apply TInv_empty|apply Agree_empty| |]; intros o k [].
  - intros o HL. apply nv_live in HL. subst o. vm_compute. reflexivity.
  - intros o1 o2 k H1 H2 _ _. apply nv_live in H1, H2. congruence.
  - intros o1 o2 k H1 H2 _ _. apply nv_live in H1, H2. congruence.
  - unfold live. vm_compute. auto.
Qed.

Print Assumptions reachable_agree.
