(* Properties/C12.v — part.Tree watch channels close exactly on notification of relevant changes.
   Model: Part/Model.v (channels = numbers, Txn.watches = list, Notify returns the closed set). *)
From SV Require Import Base.Bytes Base.OrdMap Part.Model Part.Sem Part.Refine Part.Cow Part.Watch Part.Stable Part.WatchHist Part.PStable Part.PrefixHist Part.InsertWatch Part.Fresh.
Open Scope N_scope.

(* Notify closes exactly the recorded channels plus the root channel iff the txn is dirty;
   CommitAndNotify closes the same set. txn_notify is the only model function producing closed
   channels: Commit without Notify, hand-out of channels and abandoned txns close nothing. *)
Theorem C12_notify_closes_recorded : forall x,
  snd (txn_notify x) = s_ws (t_st x) ++ (if t_dirty x && negb (t_rw x =? 0) then [t_rw x] else []) /\
  snd (txn_commit_notify x) = snd (txn_notify x).
Proof. exact (fun x => conj (notify_closes x) (commit_notify_closes x)). Qed.
Print Assumptions C12_notify_closes_recorded.

(* deleting an absent key is not a change: no channel recorded, txn not dirty (the txn is unchanged) *)
Theorem C12_delete_absent_unchanged : forall x key,
  txn_ok x -> om_get key (abs_txn x) = None -> txn_delete x key = (x, None).
Proof. exact delete_absent_unchanged. Qed.
Print Assumptions C12_delete_absent_unchanged.

(* reads, clones and iterators record nothing *)
Theorem C12_reads_record_nothing : forall x,
  t_st (bump x) = t_st x /\ t_dirty (bump x) = t_dirty x /\ t_rw (bump x) = t_rw x.
Proof. exact bump_watches. Qed.
Print Assumptions C12_reads_record_nothing.

(* for every history: dirty iff some operation inserted, replaced or deleted a key *)
Theorem C12_dirty_iff_changed : forall ops x, txn_ok x ->
  t_dirty (fold_left wstep ops x) = t_dirty x || any_change (abs_txn x) ops /\
  t_rw (fold_left wstep ops x) = t_rw x.
Proof. exact dirty_iff_changed. Qed.
Print Assumptions C12_dirty_iff_changed.

(* root watch of the previous tree: closed by Notify iff the txn inserted, replaced or deleted something
   (CKt: the channel-accounting invariant of Part/Fresh.v, established by part.New and kept by every commit) *)
Theorem C12_root_watch_closed_iff : forall t next ops,
  tree_ok t -> CKt t next -> tr_next t <> 0 -> tr_rw t <> 0 ->
  (In (tr_rw t) (snd (txn_notify (fold_left wstep ops (tree_txn t next)))) <-> any_change (abs_tree t) ops = true).
Proof. exact root_watch_closed_iff_exact. Qed.
Print Assumptions C12_root_watch_closed_iff.

(* Get(k) watch, first write of a txn begun from a committed tree (ids as guaranteed by C11_cow_published):
   Insert/Modify of k makes the channel that Get(k) returned on the committed tree (leaf channel, channel of the
   deepest matching inner node, or root channel; present or absent key; both watch modes) part of the
   set closed by Notify. The underlying path induction (modify_records) holds for every tree none of whose
   nodes is private to the txn. *)
Theorem C12_get_watch_closed_first_write : forall t next md key v,
  tree_ids_ok t -> snd (tree_get t key) <> 0 ->
  In (snd (tree_get t key)) (snd (txn_notify (fst (fst (fst (txn_modify (tree_txn t next) md key v)))))).
Proof. exact get_watch_closed_by_modify. Qed.
Print Assumptions C12_get_watch_closed_first_write.

(* recorded channels are never forgotten during modify, and every node on the search path of the key that is
   not private to the txn has its channel recorded *)
Theorem C12_modify_records_search_path : forall c md fullKey v, c_tid c <> 0 ->
  forall n s key w0, no_inplace c n ->
    (snd (search_node n key w0) = w0 \/
     In (snd (search_node n key w0)) (s_ws (m_st (modify_node c md fullKey v s n key)))) /\
    (forall a, In a (s_ws s) -> In a (s_ws (m_st (modify_node c md fullKey v s n key)))).
Proof. exact (fun c md fullKey v H => proj1 (modify_records c md fullKey v H)). Qed.
Print Assumptions C12_modify_records_search_path.

(* same for Delete of a present key: the leaf channel (and the channel of every node on the path that is not
   private to the txn) is recorded; Get(k)'s channel on the committed tree is closed by Notify *)
Theorem C12_get_watch_closed_first_delete : forall t next key,
  tree_ids_ok t -> snd (tree_get t key) <> 0 -> snd (txn_delete (tree_txn t next) key) <> None ->
  In (snd (tree_get t key)) (snd (txn_notify (fst (txn_delete (tree_txn t next) key)))).
Proof. exact get_watch_closed_by_delete. Qed.
Print Assumptions C12_get_watch_closed_first_delete.

(* Prefix(q) watch, first write of a txn begun from a committed tree: inserting/modifying, or deleting a present,
   key that starts with q closes the channel Prefix(q) returned on the committed tree (q may end inside a
   compressed path, at an inner node, or match nothing) *)
Theorem C12_prefix_watch_closed_first_write : forall t next md key v q,
  tree_ids_ok t -> has_prefix key q = true -> snd (tree_prefix t q) <> 0 ->
  In (snd (tree_prefix t q)) (snd (txn_notify (fst (fst (fst (txn_modify (tree_txn t next) md key v)))))).
Proof. exact prefix_watch_closed_by_modify. Qed.
Print Assumptions C12_prefix_watch_closed_first_write.

Theorem C12_prefix_watch_closed_first_delete : forall t next key q,
  tree_ids_ok t -> has_prefix key q = true -> snd (tree_prefix t q) <> 0 ->
  snd (txn_delete (tree_txn t next) key) <> None ->
  In (snd (tree_prefix t q)) (snd (txn_notify (fst (txn_delete (tree_txn t next) key)))).
Proof. exact prefix_watch_closed_by_delete. Qed.
Print Assumptions C12_prefix_watch_closed_first_delete.

(* the path inductions behind them, for any tree none of whose nodes is private to the txn: the channel of
   EVERY inner node visited on the way to the key is recorded by modify, and by delete when the key is found *)
Theorem C12_visited_channels_recorded : forall c md fullKey v, c_tid c <> 0 ->
  (forall n s key, no_inplace c n -> forall a, In a (visit n key) -> a <> 0 ->
     In a (s_ws (m_st (modify_node c md fullKey v s n key)))) /\
  (forall n s key, no_inplace c n ->
     match del_node c s n key with
     | DSome _ _ s' _ => forall a, In a (visit n key) -> a <> 0 -> In a (s_ws s')
     | DNone => True
     end).
Proof.
  exact (fun c md fullKey v H => conj (proj1 (modify_records_path c md fullKey v H)) (proj1 (delete_records_path c))).
Qed.
Print Assumptions C12_visited_channels_recorded.

(* InsertWatch / ModifyWatch (per-node watch mode): the channel handed out for k is exactly the channel Get(k)
   returns on the txn afterwards and on the tree it commits to; together with the two first-write theorems above
   it is closed by the Notify of a following txn whose first write inserts, replaces or deletes k *)
Theorem C12_insert_watch_is_get_watch : forall x md key v,
  t_ro x = false ->
  let '(x', _, _, w) := txn_modify x md key v in
  w <> 0 -> snd (txn_get x' key) = w /\ snd (tree_get (snd (txn_commit x')) key) = w.
Proof. exact insert_watch_is_get_watch. Qed.
Print Assumptions C12_insert_watch_is_get_watch.

(* Two-key stability (the induction needed for changes at an arbitrary position of a history), on ANY txn tree
   (published and private nodes mixed; F = "channel of a node private to the txn"): an Insert/Modify of k' leaves
   the channel Get(k) returns for any key k unchanged, or records it, or it is the inherited (root) channel, or it
   is private *)
Theorem C12_modify_two_key_stability : forall c md fullKey v (F : N -> Prop), c_tid c <> 0 ->
  forall n s k' k u u', privF c F n ->
    let r := modify_node c md fullKey v s n k' in
    getw n k u = u \/ getw (m_node r) k u' = getw n k u \/ In (getw n k u) (s_ws (m_st r)) \/ F (getw n k u).
Proof. exact (fun c md fullKey v F H => proj1 (modify_stable c md fullKey v H F)). Qed.
Print Assumptions C12_modify_two_key_stability.

(* the same for Delete (all branches of delete/removeChild: leaf dropped, single child shifted up with its channel
   retained, demotion, merge with the remaining child, in-place propagation below nodes owned by the txn) *)
Theorem C12_delete_two_key_stability : forall c (F : N -> Prop), c_tid c <> 0 ->
  forall n s k' k u, privF c F n -> tids_le (c_tid c) n -> tmono n ->
    match del_node c s n k' with
    | DNone => True
    | DSome _ (Some n') s' _ => forall u',
        getw n k u = u \/ getw n' k u' = getw n k u \/ In (getw n k u) (s_ws s') \/ F (getw n k u)
    | DSome _ None s' _ => getw n k u = u \/ In (getw n k u) (s_ws s') \/ F (getw n k u)
    end.
Proof. exact (fun c F H => proj1 (delete_stable c H F)). Qed.
Print Assumptions C12_delete_two_key_stability.

(* Get(k) watch over WHOLE HISTORIES (full clause, any position in any multi-operation transaction): the channel a
   that Get(k) returned on the committed tree t (allocated before the txn began: a < next, the txn's channel
   allocator) is closed by Notify if k is inserted, replaced, or deleted while present, at any position of any
   sequence of inserts / modifies / deletes / id bumps (Clone, Iterator, Prefix, LowerBound, All) of a txn begun
   from t. `touched` counts a Delete only if it reported an old value. Covers present and absent keys, the root
   channel, both watch modes, every promotion / demotion / merge / in-place path. *)
Theorem C12_get_watch_closed_history : forall t next ops k,
  tree_ids_ok t -> tr_next t <> 0 -> root_tmono (tr_root t) ->
  snd (tree_get t k) <> 0 -> snd (tree_get t k) < next ->
  touched k (tree_txn t next) ops ->
  In (snd (tree_get t k)) (snd (txn_notify (fold_left wstep ops (tree_txn t next)))).
Proof. exact get_watch_closed_history. Qed.
Print Assumptions C12_get_watch_closed_history.

(* its side conditions are inductive: ids by C11_cow_published, id monotonicity (parent id >= child id) here *)
Theorem C12_history_keeps_id_monotonicity : forall t next ops,
  tree_ids_ok t -> tr_next t <> 0 -> root_tmono (tr_root t) ->
  root_tmono (tr_root (snd (txn_commit (fold_left wstep ops (tree_txn t next))))).
Proof. exact history_keeps_tmono. Qed.
Print Assumptions C12_history_keeps_id_monotonicity.

(* Prefix(q) watch over WHOLE HISTORIES (per-node mode; in root-only mode Prefix returns the root channel, which is
   C12_root_watch_closed_iff): the channel Prefix(q) returned on the committed tree is closed by Notify if any key
   starting with q is inserted, replaced, or deleted while present, at any position of any operation sequence *)
Theorem C12_prefix_watch_closed_history : forall t next ops q,
  tree_ids_ok t -> tr_next t <> 0 -> root_tmono (tr_root t) ->
  snd (tree_prefix t q) <> 0 -> snd (tree_prefix t q) < next ->
  touched_p q (tree_txn t next) ops ->
  In (snd (tree_prefix t q)) (snd (txn_notify (fold_left wstep ops (tree_txn t next)))).
Proof. exact prefix_watch_closed_history. Qed.
Print Assumptions C12_prefix_watch_closed_history.

(* InsertWatch / ModifyWatch (per-node mode): the channel w handed out for key in txn state x (any point of any txn
   satisfying the invariants: TInv = ids bounded/monotone + txn-owned nodes carry txn-allocated channels, IL = inner
   channels below the allocator) is closed
   - by this txn's Notify if key is inserted, replaced or deleted again by a LATER OPERATION OF THE SAME TXN, and
   - otherwise it is still the channel Get(key) returns on the tree the txn commits to, and the Notify of the next
     txn that touches key (at any position) closes it. (A txn in between that does not touch key either closes it
     or keeps it as Get(key)'s channel: C12_get_watch_closed_or_kept.) *)
Theorem C12_insert_watch_closes_on_next_change : forall x md key v next0,
  TInv next0 (Fr next0) x -> IL x -> t_rw x < s_next (t_st x) -> t_ro x = false ->
  let x1 := fst (fst (fst (txn_modify x md key v))) in
  let w := snd (txn_modify x md key v) in
  w <> 0 ->
  forall ops1,
    let xe := fold_left wstep ops1 x1 in
    (touched key x1 ops1 -> In w (snd (txn_notify xe))) /\
    (In w (snd (txn_notify xe)) \/
     (snd (tree_get (snd (txn_commit xe)) key) = w /\
      forall next2 ops2, w < next2 -> touched key (tree_txn (snd (txn_commit xe)) next2) ops2 ->
        In w (snd (txn_notify (fold_left wstep ops2 (tree_txn (snd (txn_commit xe)) next2)))))).
Proof. exact insert_watch_closes_on_next_change. Qed.
Print Assumptions C12_insert_watch_closes_on_next_change.

Theorem C12_get_watch_closed_or_kept : forall t next ops k,
  tree_ids_ok t -> tr_next t <> 0 -> root_tmono (tr_root t) ->
  snd (tree_get t k) <> 0 -> snd (tree_get t k) < next -> tr_rw t <> snd (tree_get t k) ->
  let xe := fold_left wstep ops (tree_txn t next) in
  In (snd (tree_get t k)) (snd (txn_notify xe)) \/ snd (tree_get (snd (txn_commit xe)) k) = snd (tree_get t k).
Proof. exact get_watch_closed_or_kept. Qed.
Print Assumptions C12_get_watch_closed_or_kept.

(* Freshness: no channel handed out by the tree produced by Commit (Get, Prefix, RootWatch on the NEW tree; Commit or
   CommitAndNotify give the same tree) is in the set closed by that transaction's Notify; and the accounting
   invariant (every nonzero channel occurs at most once in the tree, all below the allocator, recorded channels
   occur no more, the root channel is not a node channel) holds again for the new tree *)
Theorem C12_new_tree_channels_open : forall t next ops,
  CKt t next -> tr_next t <> 0 ->
  let xe := fold_left wstep ops (tree_txn t next) in
  let cl := snd (txn_notify xe) in
  let t' := snd (txn_commit xe) in
  (forall k, snd (tree_get t' k) <> 0 -> ~ In (snd (tree_get t' k)) cl) /\
  (forall q, snd (tree_prefix t' q) <> 0 -> ~ In (snd (tree_prefix t' q)) cl) /\
  (tr_rw t' <> 0 -> ~ In (tr_rw t') cl) /\
  CKt t' (s_next (t_st (fst (txn_commit xe)))).
Proof. exact new_tree_channels_open. Qed.
Print Assumptions C12_new_tree_channels_open.

Theorem C12_accounting_invariant_initial : forall ro next x,
  (0 < next -> CKt (fst (tree_new ro next)) (next + 1)) /\
  snd (fst (txn_commit_notify x)) = snd (txn_commit x).
Proof. exact (fun ro next x => conj (tree_new_CKt ro next) (commit_notify_same_tree x)). Qed.
Print Assumptions C12_accounting_invariant_initial.

(* Remaining side conditions (not derived from part.New by a single chained theorem): the history theorems take the
   handle's channel to be older than the transaction's allocator (`< next`), which is the bound part of CKt for that
   channel; tree_ids_ok / root_tmono / CKt are each shown to be re-established by every commit
   (C11_cow_published, C12_history_keeps_id_monotonicity, C12_new_tree_channels_open). *)

Example C12_nonvacuous :
  let t := fst (tree_new false 1) in
  let x := fold_left wstep [WIns [1] 10; WDel [2]] (tree_txn t 2) in
  tree_ok t /\ t_dirty x = true /\ snd (txn_notify x) = [1] /\
  t_dirty (fold_left wstep [WDel [2]] (tree_txn t 2)) = false.
Proof. vm_compute. repeat split; auto. Qed.

(* the hypotheses of the history theorem are satisfiable: a three-transaction chain, the handle taken on the
   second tree, the key changed as the fourth operation of the third transaction *)
Example C12_history_nonvacuous :
  let t0 := fst (tree_new false 1) in
  let t1 := snd (txn_commit (fold_left wstep [WIns [1] 10; WIns [1;2] 11; WIns [2] 12] (tree_txn t0 2))) in
  tree_ids_ok t1 /\ tr_next t1 <> 0 /\ root_tmono (tr_root t1) /\
  snd (tree_get t1 [1;2]) <> 0 /\ snd (tree_get t1 [1;2]) < 20 /\
  touched [1;2] (tree_txn t1 20) [WDel [1]; WBump; WIns [3] 1; WMod [1;2] 5 mod_fun].
Proof. vm_compute. repeat split; auto; try discriminate; try lia; intuition discriminate. Qed.

Example C12_fresh_nonvacuous : CKt (fst (tree_new false 1)) 2 /\
  touched_p [1] (tree_txn (snd (txn_commit (fold_left wstep [WIns [1;2] 3] (tree_txn (fst (tree_new false 1)) 2)))) 9)
            [WBump; WDel [1;2]].
Proof. split; [apply tree_new_CKt; lia|vm_compute; intuition discriminate]. Qed.
