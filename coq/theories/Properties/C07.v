(* Properties/C07.v — Change iterators (first layer). Ordering/convergence theorems are in
   Table/ChangesProofs.v (in progress); this file will quote them. *)
From SV Require Import Base.Bytes Base.OrdMap Table.Model Table.Proofs.
Open Scope N_scope.

(* when Next finds nothing pending and the table unchanged since the last refresh it returns an
   open watch channel, delivers nothing and changes nothing *)
Theorem C07_idle_next_delivers_nothing_partial : forall d iid s take it r t cur,
  assoc iid (d_iters d) = Some it -> src_committed d s = Some r ->
  nth_error r (it_tab it) = Some t -> nth_error (d_root d) (it_tab it) = Some cur ->
  it_pending it = None -> t_rev cur = it_watchrev it ->
  step d (ONext iid s take) = (d, OutChanges [] false).
Proof.
  intros d iid s take it r t cur Hi Hs Ht Hc Hp Hw. cbn [step].
  rewrite Hi, Hs, Ht, Hc, Hp, Hw, N.eqb_refl. reflexivity.
Qed.
Print Assumptions C07_idle_next_delivers_nothing_partial.

Example C07_nonvacuous :
  let d := fst (run (init_db 1) [OBegin [0%nat]; OInsert 0 (mkP [97] 1 [] [] [] []); OChanges 1 0; OCommit 0]) in
  snd (step d (ONext 1 SFresh None)) = OutChanges [(mkO (mkP [97] 1 [] [] [] []) 1, false)] true.
Proof. vm_compute. reflexivity. Qed.
