(* Properties/C07.v — Change iterators (first layer). Ordering/convergence theorems are in
   Table/ChangesProofs.v (in progress); this file will quote them. *)
From SV Require Import Base.Bytes Base.OrdMap Table.Model Table.Proofs.
Open Scope N_scope.

(* when Next finds nothing pending and the table unchanged since the last refresh it returns an
   open watch channel, delivers nothing and changes nothing *)
Theorem C07_idle_next_delivers_nothing_partial : forall d iid s take it r t cur,
  assoc iid (d_iters d) = Some it -> src_committed d s = Some r ->
  nth_error r (it_tab it) = Some t -> nth_error (d_root d) (it_tab it) = Some cur ->
  it_pending it = None -> t_rev cur = it_watchrev it ->
  step d (ONext iid s take) = (d, OutChanges [] false).
Proof.
  intros d iid s take it r t cur Hi Hs Ht Hc Hp Hw. cbn [step].
  rewrite Hi, Hs, Ht, Hc, Hp, Hw, N.eqb_refl. reflexivity.
Qed.
Print Assumptions C07_idle_next_delivers_nothing_partial.

Example C07_nonvacuous :
  let d := fst (run (init_db 1) [OBegin [0%nat]; OInsert 0 (mkP [97] 1 [] [] [] []); OChanges 1 0; OCommit 0]) in
  snd (step d (ONext 1 SFresh None)) = OutChanges [(mkO (mkP [97] 1 [] [] [] []) 1, false)] true.
Proof. vm_compute. reflexivity. Qed.

(* ======================================================================================================
   Second layer (Table/ChangesStream.v, ChangesIter.v, ChangesProofs.v, ChangesHist.v).
   Vocabulary: `delivered iid d ops` = everything iterator iid is handed by the Next / Resume steps of a
   run; `replay` folds it (update sets pk -> (val, rev), delete removes pk); `abs_of t` = the objects and
   revisions of table t; `grun` threads the ghost "table last refreshed from"; `good_run c` = what the
   caller owes per Next: the snapshot is a later-or-equal state (tab_le) of the previous one, satisfies the
   table invariant and has revision room, and (c = true) its graveyard has retained what the iterator may
   still need (`retained`, property C08). `fresh_*` theorems discharge all of that for iterators advanced
   with fresh read transactions (or the current write transaction) after the creating transaction
   committed, from `ok_run` (TInv + revision room in every state of the run: Table/Inv.v).
   Known exclusion K4 (Changes after a delete in the same transaction, then Next(that transaction)):
   Table/ChangesProofs.v changes_after_delete_refuted; excluded here by tab_le / `friendly`.
   ====================================================================================================== *)
From SV Require Import KeyEnc.Model Table.InvDefs Table.Inv Table.ChangesStream Table.ChangesIter
                       Table.ChangesProofs Table.ChangesRet Table.ChangesHist.
From Coq Require Import Permutation.

(* LowerBound(ByRevision(r)) = exactly the live objects with revision >= r, strictly ascending *)
Theorem C07_update_stream_exact : forall t, TInv t -> rev_bound t -> forall r, r < B64 ->
  asc (map o_rev (upd_stream t r)) /\ forall o, In o (upd_stream t r) <-> live t o /\ r <= o_rev o.
Proof. exact upd_stream_spec. Qed.
Print Assumptions C07_update_stream_exact.

(* the graveyard-revision index from r = exactly the retained deletions with revision >= r, ascending *)
Theorem C07_delete_stream_exact : forall t, TInv t -> rev_bound t -> forall r, r < B64 ->
  asc (map o_rev (del_stream t r)) /\ forall o, In o (del_stream t r) <-> dead t o /\ r <= o_rev o.
Proof. exact del_stream_spec. Qed.
Print Assumptions C07_delete_stream_exact.

(* dualIterator: the merge of two ascending streams with disjoint revisions is strictly ascending ... *)
Theorem C07_merge_strictly_ascending : forall f dels upds, (length dels + length upds <= f)%nat ->
  asc (map o_rev dels) -> asc (map o_rev upds) ->
  (forall d u, In d dels -> In u upds -> o_rev d <> o_rev u) ->
  asc (map crev (merge_streams f dels upds)).
Proof. exact merge_asc. Qed.
Print Assumptions C07_merge_strictly_ascending.

(* ... and a permutation of the tagged union *)
Theorem C07_merge_is_union : forall f dels upds, (length dels + length upds <= f)%nat ->
  Permutation (merge_streams f dels upds) (tag true dels ++ tag false upds).
Proof. exact merge_perm. Qed.
Print Assumptions C07_merge_is_union.

(* refresh against committed table S: the pending stream is, strictly ascending, exactly the retained
   deletions above the delete cursor and the live objects above the update cursor *)
Theorem C07_refresh_exact : forall S it, TInv S -> rev_bound S ->
  it_rev it + 1 < B64 -> it_delrev it + 1 < B64 ->
  exists l, it_pending (refresh S it) = Some l /\ pend_spec l S (it_rev it) (it_delrev it) /\
    Permutation l (tag true (del_stream S (it_delrev it + 1)) ++ tag false (upd_stream S (it_rev it + 1))).
Proof. exact refresh_spec. Qed.
Print Assumptions C07_refresh_exact.

(* strictly increasing revisions across ALL Next / Resume calls of any run *)
Theorem C07_strictly_increasing : forall d iid tab t0 ops,
  created d iid tab t0 -> TInv t0 -> rev_room t0 ->
  let d0 := fst (step d (OChanges iid tab)) in
  good_run false iid (t0, []) d0 ops ->
  asc (map crev (delivered iid d0 ops)).
Proof. exact changes_strictly_increasing. Qed.
Print Assumptions C07_strictly_increasing.

(* convergence: whenever the iterator is exhausted, the replay of everything delivered since creation
   is exactly the table of the snapshot last handed to Next *)
Theorem C07_converges : forall d iid tab t0 ops,
  created d iid tab t0 -> TInv t0 -> rev_room t0 ->
  let d0 := fst (step d (OChanges iid tab)) in
  good_run true iid (t0, []) d0 ops ->
  forall it, assoc iid (d_iters (fst (run d0 ops))) = Some it -> it_pending it = None ->
  replay (delivered iid d0 ops) = abs_of (fst (grun iid (t0, []) d0 ops)).
Proof. exact changes_converge. Qed.
Print Assumptions C07_converges.

Theorem C07_converges_at_next : forall d iid tab t0 ops s S,
  created d iid tab t0 -> TInv t0 -> rev_room t0 ->
  let d0 := fst (step d (OChanges iid tab)) in
  good_run true iid (t0, []) d0 (ops ++ [ONext iid s None]) ->
  next_source (fst (run d0 ops)) iid s = Some S ->
  replay (delivered iid d0 (ops ++ [ONext iid s None])) = abs_of S.
Proof. exact changes_converge_next. Qed.
Print Assumptions C07_converges_at_next.

(* partially consumed sequences lose nothing *)
Theorem C07_partial_consumption : forall d iid tab t0 ops,
  created d iid tab t0 -> TInv t0 -> rev_room t0 ->
  let d0 := fst (step d (OChanges iid tab)) in
  good_run true iid (t0, []) d0 ops ->
  forall it, assoc iid (d_iters (fst (run d0 ops))) = Some it ->
  let G := fst (grun iid (t0, []) d0 ops) in
  (forall o, live G o -> o_rev o <= it_rev it ->
             om_get (pk o) (replay (delivered iid d0 ops)) = Some (p_val (o_data o), o_rev o)) /\
  (it_seq it = true -> forall l, it_pending it = Some l -> forall o b,
     In (o, b) l <-> (if b then dead G o /\ it_delrev it < o_rev o else live G o /\ it_rev it < o_rev o)).
Proof. exact changes_partial. Qed.
Print Assumptions C07_partial_consumption.

(* only committed changes: what Next hands out is in the committed root of its source ... *)
Theorem C07_delivers_only_committed : forall d iid s take it S d' l w,
  assoc iid (d_iters d) = Some it -> next_source d iid s = Some S ->
  TInv S -> rev_bound S -> it_rev it + 1 < B64 -> it_delrev it + 1 < B64 ->
  step d (ONext iid s take) = (d', OutChanges l w) ->
  forall o b, In (o, b) l ->
    if b then dead S o /\ it_delrev it < o_rev o else live S o /\ it_rev it < o_rev o.
Proof. exact next_delivers_committed. Qed.
Print Assumptions C07_delivers_only_committed.

(* ... and does not depend on the open write transaction's uncommitted entries at all *)
Theorem C07_ignores_uncommitted : forall d iid s take es es' old,
  d_txn d = Some (es, old) ->
  step (set_txn d (Some (es', old))) (ONext iid s take) =
  (set_txn (fst (step d (ONext iid s take))) (Some (es', old)), snd (step d (ONext iid s take))).
Proof. exact next_ignores_uncommitted. Qed.
Print Assumptions C07_ignores_uncommitted.

(* the watch channel of an exhausted iterator: closed exactly when the committed table revision differs
   from the one last refreshed from; open = nothing delivered, nothing changed *)
Theorem C07_watch_closed_iff_changed : forall d iid s take it r t cur,
  assoc iid (d_iters d) = Some it -> src_committed d s = Some r ->
  nth_error r (it_tab it) = Some t -> nth_error (d_root d) (it_tab it) = Some cur ->
  it_pending it = None ->
  (t_rev cur <> it_watchrev it <-> exists l, snd (step d (ONext iid s take)) = OutChanges l true) /\
  (t_rev cur = it_watchrev it <-> step d (ONext iid s take) = (d, OutChanges [] false)).
Proof. exact next_watch_closed_iff_changed. Qed.
Print Assumptions C07_watch_closed_iff_changed.

(* discharged: iterators advanced with fresh read transactions after the creating transaction committed *)
Theorem C07_fresh_strictly_increasing : forall iid tab d t0 ops,
  created d iid tab t0 -> wf d ->
  (forall cur, nth_error (d_root d) tab = Some cur -> ~ reg iid cur) ->
  tables_ok d /\ ok_run (fst (step d (OChanges iid tab))) ops ->
  friendly_run iid tab (fst (step d (OChanges iid tab))) ops ->
  asc (map crev (delivered iid (fst (step d (OChanges iid tab))) ops)).
Proof. exact fresh_strictly_increasing. Qed.
Print Assumptions C07_fresh_strictly_increasing.

Theorem C07_fresh_converges : forall iid tab d t0 ops s S,
  created d iid tab t0 -> wf d ->
  (forall cur, nth_error (d_root d) tab = Some cur -> ~ reg iid cur) ->
  let d0 := fst (step d (OChanges iid tab)) in
  tables_ok d /\ ok_run d0 (ops ++ [ONext iid s None]) ->
  friendly_run iid tab d0 (ops ++ [ONext iid s None]) ->
  next_source (fst (run d0 ops)) iid s = Some S ->
  replay (delivered iid d0 (ops ++ [ONext iid s None])) = abs_of S.
Proof. exact fresh_converge_next. Qed.
Print Assumptions C07_fresh_converges.

Theorem C07_fresh_converges_whenever_exhausted : forall iid tab d t0 ops,
  created d iid tab t0 -> wf d ->
  (forall cur, nth_error (d_root d) tab = Some cur -> ~ reg iid cur) ->
  tables_ok d /\ ok_run (fst (step d (OChanges iid tab))) ops ->
  friendly_run iid tab (fst (step d (OChanges iid tab))) ops ->
  forall it, assoc iid (d_iters (fst (run (fst (step d (OChanges iid tab))) ops))) = Some it ->
  it_pending it = None ->
  replay (delivered iid (fst (step d (OChanges iid tab))) ops) =
  abs_of (fst (grun iid (t0, []) (fst (step d (OChanges iid tab))) ops)).
Proof. exact fresh_converge. Qed.
Print Assumptions C07_fresh_converges_whenever_exhausted.

(* from the initial database: the table invariant and the structural invariant are discharged
   (Table/Inv2.v DInv_step, Table/ChangesHist.v wf_run); the remaining hypotheses are revision room in
   every state of the run (no uint64 overflow) and the usage conditions `friendly` *)
From SV Require Import Table.ChangesFromInit.

Theorem C07_from_init_strictly_increasing : forall n pre iid tab t0 ops,
  room_run (init_db n) (pre ++ OChanges iid tab :: ops) ->
  created (fst (run (init_db n) pre)) iid tab t0 ->
  (forall cur, nth_error (d_root (fst (run (init_db n) pre))) tab = Some cur -> ~ reg iid cur) ->
  friendly_run iid tab (fst (step (fst (run (init_db n) pre)) (OChanges iid tab))) ops ->
  asc (map crev (delivered iid (fst (step (fst (run (init_db n) pre)) (OChanges iid tab))) ops)).
Proof. exact init_strictly_increasing. Qed.
Print Assumptions C07_from_init_strictly_increasing.

Theorem C07_from_init_converges : forall n pre iid tab t0 ops s S,
  let d := fst (run (init_db n) pre) in
  let d0 := fst (step d (OChanges iid tab)) in
  room_run (init_db n) (pre ++ OChanges iid tab :: ops ++ [ONext iid s None]) ->
  created d iid tab t0 ->
  (forall cur, nth_error (d_root d) tab = Some cur -> ~ reg iid cur) ->
  friendly_run iid tab d0 (ops ++ [ONext iid s None]) ->
  next_source (fst (run d0 ops)) iid s = Some S ->
  replay (delivered iid d0 (ops ++ [ONext iid s None])) = abs_of S.
Proof. exact init_converge_next. Qed.
Print Assumptions C07_from_init_converges.

(* the hypotheses are satisfiable on a run with partial consumption, resume, a collection scan,
   re-insert + re-delete, and the apply of the stale scan *)
Example C07_from_init_nonvacuous :
  let d := fst (run (init_db 1) ex_pre) in
  let d0 := fst (step d (OChanges 7 0)) in
  let all := ex_ops ++ [ONext 7 SFresh None] in
  room_run (init_db 1) (ex_pre ++ OChanges 7 0 :: all) /\
  (exists t0, created d 7 0 t0) /\
  (forall cur, nth_error (d_root d) 0 = Some cur -> ~ reg 7 cur) /\
  friendly_run 7 0 d0 all /\
  (exists S, next_source (fst (run d0 ex_ops)) 7 SFresh = Some S) /\
  length (delivered 7 d0 all) = 5%nat /\
  replay (delivered 7 d0 all) = [([98], (5, 4))].
Proof. exact fresh_hypotheses_satisfiable. Qed.

(* ======================================================================================================
   Any monotone choice of snapshots (Table/ChangesSnap.v): Next may be called with retained snapshots
   (OSnap, or the ReadTxn returned by OCommit). Positions: `mstep` stamps every snapshot taken while the
   iterator's tracker is registered in the committed root (= at or after the creating transaction
   committed) with the position in the run of the operation that took it; a fresh read transaction /
   the current write transaction has the position of the Next itself. `mfriendly`: the snapshot handed
   to Next is stamped and its position is not below that of the snapshot handed to the previous
   refreshing Next of this iterator (plus, as before: the id is not re-used, the creating transaction
   is not aborted). The retention hypotheses are discharged by the pairwise snapshot invariant SInv.
   ====================================================================================================== *)
From SV Require Import Table.ChangesSnap.

Theorem C07_strictly_increasing_any_monotone_snapshots : forall iid tab n pre t0 ops,
  room_run (init_db n) (pre ++ OChanges iid tab :: ops) ->
  created (fst (run (init_db n) pre)) iid tab t0 ->
  (forall cur, nth_error (d_root (fst (run (init_db n) pre))) tab = Some cur -> ~ reg iid cur) ->
  mfriendly_run iid tab mg0 (fst (step (fst (run (init_db n) pre)) (OChanges iid tab))) ops ->
  asc (map crev (delivered iid (fst (step (fst (run (init_db n) pre)) (OChanges iid tab))) ops)).
Proof. exact init_strictly_increasing_mono. Qed.
Print Assumptions C07_strictly_increasing_any_monotone_snapshots.

Theorem C07_converges_any_monotone_snapshots : forall iid tab n pre t0 ops s S,
  let d := fst (run (init_db n) pre) in
  let d0 := fst (step d (OChanges iid tab)) in
  room_run (init_db n) (pre ++ OChanges iid tab :: ops ++ [ONext iid s None]) ->
  created d iid tab t0 ->
  (forall cur, nth_error (d_root d) tab = Some cur -> ~ reg iid cur) ->
  mfriendly_run iid tab mg0 d0 (ops ++ [ONext iid s None]) ->
  next_source (fst (run d0 ops)) iid s = Some S ->
  replay (delivered iid d0 (ops ++ [ONext iid s None])) = abs_of S.
Proof. exact init_converge_next_mono. Qed.
Print Assumptions C07_converges_any_monotone_snapshots.

Theorem C07_converges_whenever_exhausted_any_monotone_snapshots : forall iid tab n pre t0 ops,
  room_run (init_db n) (pre ++ OChanges iid tab :: ops) ->
  created (fst (run (init_db n) pre)) iid tab t0 ->
  (forall cur, nth_error (d_root (fst (run (init_db n) pre))) tab = Some cur -> ~ reg iid cur) ->
  mfriendly_run iid tab mg0 (fst (step (fst (run (init_db n) pre)) (OChanges iid tab))) ops ->
  forall it,
  assoc iid (d_iters (fst (run (fst (step (fst (run (init_db n) pre)) (OChanges iid tab))) ops))) = Some it ->
  it_pending it = None ->
  replay (delivered iid (fst (step (fst (run (init_db n) pre)) (OChanges iid tab))) ops) =
  abs_of (fst (grun iid (t0, []) (fst (step (fst (run (init_db n) pre)) (OChanges iid tab))) ops)).
Proof. exact init_converge_mono. Qed.
Print Assumptions C07_converges_whenever_exhausted_any_monotone_snapshots.

(* satisfiable: Next on the creating Commit's ReadTxn (partial), on old retained snapshots across a
   delete / re-insert / re-delete of one key with collection scans and applies in between, then fresh *)
Example C07_any_monotone_snapshots_nonvacuous :
  let d := fst (run (init_db 1) ex_pre) in
  let d0 := fst (step d (OChanges 7 0)) in
  let all := sx_ops ++ [ONext 7 SFresh None] in
  room_run (init_db 1) (ex_pre ++ OChanges 7 0 :: all) /\
  (exists t0, created d 7 0 t0) /\
  (forall cur, nth_error (d_root d) 0 = Some cur -> ~ reg 7 cur) /\
  mfriendly_run 7 0 mg0 d0 all /\
  (exists S, next_source (fst (run d0 sx_ops)) 7 SFresh = Some S) /\
  map (fun c => (p_id (o_data (fst c)), o_rev (fst c), snd c)) (delivered 7 d0 all) =
    [([97], 1, false); ([97], 3, true); ([98], 4, false); ([97], 5, false); ([97], 6, true)] /\
  replay (delivered 7 d0 all) = [([98], (5, 4))].
Proof. exact mono_hypotheses_satisfiable. Qed.

(* ======================================================================================================
   The in-tree consumers of change iterators: Derive (derive.go) and Observable (observable.go), modelled in
   Table/Clients.v as programs over this model's operations and run for real by engine `clients`.
   Because a run of the system is a run of operations (C07_client_runs_are_model_runs), the theorems above
   apply to what the consumers are handed; Table/ClientsProofs*.v draw the consequences.                *)
From SV Require Import Table.Clients Table.ClientsProofs Table.ClientsProofs2.

Theorem C07_client_runs_are_model_runs : forall cs s s' outs ops,
  crun s cs = (s', outs, ops) -> cs_db s' = fst (run (cs_db s) ops).
Proof. exact crun_is_run. Qed.
Print Assumptions C07_client_runs_are_model_runs.

(* one iteration of a mirroring Derive applies exactly the changes its Next delivered to the derived
   table, changes no other table and leaves no transaction open *)
Theorem C07_derive_iteration_applies_the_delivered_changes : forall ds d d' ds' ops tout l w,
  d_txn d = None -> nth_error (d_root d) (dv_out ds) = Some tout -> om_sorted (t_primary tout) ->
  derive_iter (tr_std 0) ds d = (d', ds', ops) ->
  snd (step (fst (step d (OBegin [dv_out ds]))) (ONext (dv_iid ds) STxn None)) = OutChanges l w ->
  (exists tout', nth_error (d_root d') (dv_out ds) = Some tout' /\ om_sorted (t_primary tout') /\
                 contents tout' = fold_left apply_c l (contents tout)) /\
  (forall i, i <> dv_out ds -> nth_error (d_root d') i = nth_error (d_root d) i) /\
  d_txn d' = None.
Proof. exact derive_mirror_iter. Qed.
Print Assumptions C07_derive_iteration_applies_the_delivered_changes.

(* loop invariant: "the derived table is the replay of everything the iterator delivered" is preserved by
   every iteration, whatever ran before it *)
Theorem C07_derive_loop_invariant : forall ds d0 ops tout d' ds' ops_i,
  let d := fst (run d0 ops) in
  d_txn d = None ->
  nth_error (d_root d) (dv_out ds) = Some tout -> om_sorted (t_primary tout) ->
  contents tout = cproj (replay (delivered (dv_iid ds) d0 ops)) ->
  derive_iter (tr_std 0) ds d = (d', ds', ops_i) ->
  d' = fst (run d0 (ops ++ ops_i)) /\ d_txn d' = None /\
  (exists tout', nth_error (d_root d') (dv_out ds) = Some tout' /\ om_sorted (t_primary tout') /\
                 contents tout' = cproj (replay (delivered (dv_iid ds) d0 (ops ++ ops_i)))) /\
  (forall i, i <> dv_out ds -> nth_error (d_root d') i = nth_error (d_root d) i).
Proof. exact derive_mirror_step. Qed.
Print Assumptions C07_derive_loop_invariant.

(* composed with C07_from_init_converges: an iteration whose Next refreshes leaves the derived table with
   exactly the contents of the input table in the root it ran against *)
Theorem C07_derive_converges_to_its_input : forall n pre t0 ops ds tout d' ds' ops_i S it,
  let iid := dv_iid ds in let out := dv_out ds in
  let dc := fst (run (init_db n) pre) in
  let d0 := fst (step dc (OChanges iid (dv_in ds))) in
  let d := fst (run d0 ops) in
  d_txn d = None ->
  nth_error (d_root d) out = Some tout -> om_sorted (t_primary tout) ->
  contents tout = cproj (replay (delivered iid d0 ops)) ->
  derive_iter (tr_std 0) ds d = (d', ds', ops_i) ->
  next_source (fst (step d (OBegin [out]))) iid STxn = Some S ->
  assoc iid (d_iters d) = Some it -> it_tab it = dv_in ds -> dv_in ds <> dv_out ds ->
  room_run (init_db n) (pre ++ OChanges iid (dv_in ds) :: (ops ++ [OBegin [out]]) ++ [ONext iid STxn None]) ->
  created dc iid (dv_in ds) t0 ->
  (forall cur, nth_error (d_root dc) (dv_in ds) = Some cur -> ~ reg iid cur) ->
  friendly_run iid (dv_in ds) d0 ((ops ++ [OBegin [out]]) ++ [ONext iid STxn None]) ->
  exists tin' tout', nth_error (d_root d') (dv_in ds) = Some tin' /\ nth_error (d_root d') out = Some tout' /\
                     contents tout' = contents tin'.
Proof. exact derive_mirror_equals_input. Qed.
Print Assumptions C07_derive_converges_to_its_input.

Example C07_derive_nonvacuous :
  let flat := snd (crun (init_csys 2 0) cx_pre) in
  let pre := firstn 8 flat in let ops := skipn 9 flat in
  let dc := fst (run (init_db 2) pre) in
  let d0 := fst (step dc (OChanges derive_iid 0)) in
  let d := fst (run d0 ops) in
  flat = pre ++ OChanges derive_iid 0 :: ops /\ d = cs_db cx_s /\ d_txn d = None /\
  (exists tout, nth_error (d_root d) 1 = Some tout /\ om_sorted (t_primary tout) /\
                contents tout = cproj (replay (delivered derive_iid d0 ops)) /\ contents tout = [([97], 1)]) /\
  (exists S, next_source (fst (step d (OBegin [1%nat]))) derive_iid STxn = Some S /\ contents S = [([98], 2)]) /\
  (exists it, assoc derive_iid (d_iters d) = Some it /\ it_tab it = 0%nat) /\
  room_run (init_db 2) (pre ++ OChanges derive_iid 0 :: (ops ++ [OBegin [1%nat]]) ++ [ONext derive_iid STxn None]) /\
  (exists t0, created dc derive_iid 0 t0) /\
  (forall cur, nth_error (d_root dc) 0 = Some cur -> ~ reg derive_iid cur) /\
  friendly_run derive_iid 0 d0 ((ops ++ [OBegin [1%nat]]) ++ [ONext derive_iid STxn None]).
Proof. exact derive_mirror_converges_nonvacuous. Qed.

(* Observable: one run of the observer goroutine (from a returned callback, or from its wake-up, to the next
   callback or the select) hands the callback at most one change, and that change is exactly what the
   iterator delivered in the operations the run executed; nothing is dropped between two callbacks *)
Theorem C07_observer_run_hands_over_what_the_iterator_delivered : forall fuel os d acc,
  exists ops1, snd (observe_run fuel os d acc) = acc ++ ops1 /\
    let os' := snd (fst (observe_run fuel os d acc)) in
    (exists c, os' = oset os (OHold c) /\ delivered (ov_iid os) d ops1 = [c]) \/
    (delivered (ov_iid os) d ops1 = [] /\ (os' = os \/ exists wr, os' = oset os (OWait wr))).
Proof. exact observe_run_delivered. Qed.
Print Assumptions C07_observer_run_hands_over_what_the_iterator_delivered.

(* ======================================================================================================
   Run level (Table/ClientsRun*.v): whole runs of the system from the initial database, in which the harness
   does what it likes (write any table but the derived one, lock it, register initializers on it, abort, take
   snapshots, run the collector, start an observer on it) except use the consumers' iterator ids.          *)
From SV Require Import Table.ClientsRun Table.ClientsRun2 Table.ClientsRun3 Table.ClientsRun4 Table.ClientsRun5.

(* at EVERY point of every such run - whatever the loop's phase, transaction open or not, Derive started or not -
   the derived table is the (key, value) projection of the replay of everything the loop's iterator delivered *)
Theorem C07_derive_run_invariant : forall n out cs s outs ops,
  (out < n)%nat -> forallb (cop_ok out) cs = true ->
  crun (init_csys n 0) cs = (s, outs, ops) ->
  cs_db s = fst (run (init_db n) ops) /\
  exists tout, nth_error (d_root (cs_db s)) out = Some tout /\ om_sorted (t_primary tout) /\
               contents tout = cproj (replay (delivered derive_iid (init_db n) ops)).
Proof. exact derive_run_invariant. Qed.
Print Assumptions C07_derive_run_invariant.

(* ... and right after any leg of the loop that ran an iteration whose Next refreshed from committed input
   table S, the derived table has exactly the contents of the input table of the current root, which are those
   of S. The usage hypotheses of C07_from_init_converges are discharged from the shape of the run; what remains
   is revision room (no uint64 overflow) on the operations executed *)
Theorem C07_derive_run_converges : forall n inn out cs s outs ops ds S s' x ops1,
  (out < n)%nat -> (inn < n)%nat -> inn <> out -> forallb (cop_okG inn out) cs = true ->
  crun (init_csys n 0) cs = (s, outs, ops) ->
  cs_d s = Some ds -> dv_phase ds <> DReg -> d_txn (cs_db s) = None -> d_ready ds (cs_db s) = true ->
  next_source (fst (step (cs_db s) (OBegin [out]))) derive_iid STxn = Some S ->
  room_run (init_db n) (ops ++ [OBegin [out]; ONext derive_iid STxn None]) ->
  cstep s CDeriveGo = (s', x, ops1) ->
  exists tin' tout', nth_error (d_root (cs_db s')) inn = Some tin' /\ nth_error (d_root (cs_db s')) out = Some tout' /\
                     contents tout' = contents tin' /\ contents tin' = contents S.
Proof. exact derive_run_converges'. Qed.
Print Assumptions C07_derive_run_converges.

Example C07_derive_run_nonvacuous :
  forallb (cop_ok 1) fx_run = true /\
  (let '(s, outs, ops) := crun (init_csys 2 0) fx_run in
   length ops = 49%nat /\
   map contents (d_root (cs_db s)) = [[([97], 5); ([98], 2)]; [([97], 5); ([98], 2)]] /\
   cproj (replay (delivered derive_iid (init_db 2) ops)) = [([97], 5); ([98], 2)] /\
   length (delivered derive_iid (init_db 2) ops) = 4%nat).
Proof. exact derive_run_invariant_nonvacuous. Qed.

(* Observable, every run: everything the observer's iterator has been handed has been reported by a returned
   callback, in order, except the change of the callback in progress (after cancellation at most that one is
   missing); once released the goroutine is always inside a callback or in the select on the watch channel of
   the observed table's CURRENT revision with its iterator exhausted *)
Theorem C07_observer_run_invariant : forall n cs s outs ops os,
  forallb (cop_ok' n) cs = true -> crun (init_csys n 0) cs = (s, outs, ops) -> cs_o s = Some os ->
  cs_db s = fst (run (init_db n) ops) /\
  let dlv := delivered observe_iid (init_db n) ops in
  match ov_phase os with
  | OReg => dlv = [] /\ reported outs = []
  | OHold c => dlv = reported outs ++ [c] /\
               exists it, assoc observe_iid (d_iters (cs_db s)) = Some it /\ it_tab it = ov_tab os
  | OWait wr => dlv = reported outs /\
                exists it cur, assoc observe_iid (d_iters (cs_db s)) = Some it /\ it_tab it = ov_tab os /\
                               it_pending it = None /\ it_watchrev it = wr /\
                               nth_error (d_root (cs_db s)) (ov_tab os) = Some cur /\ t_rev cur = wr
  | ODone => exists tl, dlv = reported outs ++ tl /\ (length tl <= 1)%nat
  end.
Proof. exact observer_run_invariant. Qed.
Print Assumptions C07_observer_run_invariant.

(* ... and whenever the observer waits, replaying everything its callback was given yields exactly the observed
   table of the current root (objects and revisions). Residual hypotheses: those of C07_from_init_converges on the
   operations executed, and that the observer's delete tracker is registered in the root *)
Theorem C07_observer_converges : forall n cs s outs pre tab post os wr t0,
  forallb (cop_ok' n) cs = true ->
  crun (init_csys n 0) cs = (s, outs, pre ++ OChanges observe_iid tab :: post) ->
  forallb (fun o => negb (touches observe_iid o)) pre = true ->
  cs_o s = Some os -> ov_phase os = OWait wr ->
  let dc := fst (run (init_db n) pre) in
  let d0 := fst (step dc (OChanges observe_iid tab)) in
  room_run (init_db n) (pre ++ OChanges observe_iid tab :: post) ->
  created dc observe_iid tab t0 ->
  (forall cur, nth_error (d_root dc) tab = Some cur -> ~ reg observe_iid cur) ->
  friendly_run observe_iid tab d0 post ->
  (forall cur, nth_error (d_root (cs_db s)) tab = Some cur -> reg observe_iid cur) ->
  tab = ov_tab os /\
  exists cur, nth_error (d_root (cs_db s)) tab = Some cur /\ t_rev cur = wr /\
              replay (reported outs) = abs_of cur.
Proof. exact observer_converges. Qed.
Print Assumptions C07_observer_converges.

Example C07_observer_nonvacuous :
  let r := crun (init_csys 1 0) hx_run in
  let flat := snd r in let s := fst (fst r) in
  let pre := firstn 4 flat in let post := skipn 5 flat in
  let dc := fst (run (init_db 1) pre) in
  let d0 := fst (step dc (OChanges observe_iid 0)) in
  forallb (cop_ok' 1) hx_run = true /\
  flat = pre ++ OChanges observe_iid 0 :: post /\
  forallb (fun o => negb (touches observe_iid o)) pre = true /\
  option_map ov_phase (cs_o s) = Some (OWait 3) /\
  room_run (init_db 1) (pre ++ OChanges observe_iid 0 :: post) /\
  (exists t0, created dc observe_iid 0 t0) /\
  (forall cur, nth_error (d_root dc) 0 = Some cur -> ~ reg observe_iid cur) /\
  friendly_run observe_iid 0 d0 post /\
  (forall cur, nth_error (d_root (cs_db s)) 0 = Some cur -> reg observe_iid cur) /\
  replay (reported (snd (fst r))) = [([98], (2, 2))] /\
  map abs_of (d_root (cs_db s)) = [[([98], (2, 2))]].
Proof. exact observer_converges_nonvacuous. Qed.

(* with the usage hypotheses discharged from the shape of the run (Table/ClientsRun6.v): only revision room remains *)
From SV Require Import Table.ClientsRun6.
Theorem C07_observer_run_converges : forall n cs s outs ops os wr,
  forallb (cop_ok' n) cs = true -> crun (init_csys n 0) cs = (s, outs, ops) ->
  cs_o s = Some os -> ov_phase os = OWait wr ->
  room_run (init_db n) ops ->
  exists cur, nth_error (d_root (cs_db s)) (ov_tab os) = Some cur /\ t_rev cur = wr /\
              replay (reported outs) = abs_of cur.
Proof. exact observer_converges'. Qed.
Print Assumptions C07_observer_run_converges.
