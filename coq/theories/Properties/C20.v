(* Properties/C20.v — WatchSet.Wait returns exactly the closed members and keeps the rest.
   The model (WatchSet/Model.v) computes, for a member set, a timeline of close/cancel events on a
   virtual clock, the instant t0 of the call and the settle time, the list of ALL outcomes Wait may
   produce (reflect.Select chooses freely among ready cases; simultaneous events are unordered).
   Every theorem quantifies over every member set, timeline, call instant, settle time and outcome.
   Only statements closed by `exact`, with their assumptions printed. *)
From SV Require Import WatchSet.Model WatchSet.Proofs WatchSet.Loop.
From Coq Require Import List PeanoNat.
Import ListNotations.

(* returned channels are members of the set and are closed when Wait returns *)
Theorem C20_returned_are_closed_members : forall evs t0 settle ms o,
  NoDup ms -> In o (wait_outcomes evs t0 settle ms) ->
  forall c, In c (o_ret o) -> In c ms /\ exists t, close_time evs c = Some t /\ t <= o_time o.
Proof. exact ret_members_closed. Qed.
Print Assumptions C20_returned_are_closed_members.

(* no channel is reported twice *)
Theorem C20_returned_no_duplicates : forall evs t0 settle ms o,
  NoDup ms -> In o (wait_outcomes evs t0 settle ms) -> NoDup (o_ret o).
Proof. exact ret_NoDup. Qed.
Print Assumptions C20_returned_no_duplicates.

(* exactly the returned channels are removed: every other member stays, nothing else appears *)
Theorem C20_remaining_is_members_minus_returned : forall evs t0 settle ms o,
  NoDup ms -> In o (wait_outcomes evs t0 settle ms) ->
  (forall x, In x (o_rem o) <-> In x ms /\ ~ In x (o_ret o)) /\ NoDup (o_rem o).
Proof. exact rem_spec. Qed.
Print Assumptions C20_remaining_is_members_minus_returned.

(* no result while no member is closed unless the context ended; a non-nil error is the context's
   error and the context has ended by then; a nil error comes with at least one channel *)
Theorem C20_error_iff_context : forall evs t0 settle ms o,
  In o (wait_outcomes evs t0 settle ms) ->
  (o_ret o = [] -> o_err o <> None) /\
  (o_err o = None -> o_ret o <> []) /\
  (forall k, o_err o = Some k -> exists tc, cancel_of evs = Some (tc, k) /\ tc <= o_time o).
Proof. exact err_spec. Qed.
Print Assumptions C20_error_iff_context.

(* Wait returns no later than (first close of a member, or the call if later) + settle, and no later
   than the end of the context; never before the call *)
Theorem C20_return_time_bounded : forall evs t0 settle ms o,
  NoDup ms -> In o (wait_outcomes evs t0 settle ms) ->
  t0 <= o_time o /\
  (forall m tm, In m ms -> close_time evs m = Some tm -> o_time o <= Nat.max t0 tm + settle) /\
  (forall tc k, cancel_of evs = Some (tc, k) -> o_time o <= Nat.max t0 tc).
Proof. exact time_spec. Qed.
Print Assumptions C20_return_time_bounded.

(* with a settle time, every member closed before Wait returns is reported (none is lost) *)
Theorem C20_settle_gathers_all_closed : forall evs t0 settle ms o,
  NoDup ms -> In o (wait_outcomes evs t0 settle ms) -> settle <> 0 -> o_ret o <> [] ->
  forall m tm, In m ms -> close_time evs m = Some tm -> Nat.max t0 tm < o_time o -> In m (o_ret o).
Proof. exact gather_spec. Qed.
Print Assumptions C20_settle_gathers_all_closed.

(* the settle loop select by select (WatchSet/Loop.v: settle_run = "some ready case is chosen; when
   none is ready time passes; choosing case 0 ends the loop"), started as the code starts it after
   the first select chose member c at t1, only produces outcomes of the allowed list: same return
   instant, same error, same returned channels and same remaining set (as sets) *)
Theorem C20_settle_loop_refines : forall evs t0 settle ms t1 c e r rt,
  NoDup ms -> first_time evs t0 ms = Some t1 -> In c ms -> eclose evs t0 c = Some t1 -> settle <> 0 ->
  In e (settle_errs evs t0 t1 settle) ->
  settle_run (eclose evs t0) (settle_end evs t0 t1 settle) (ws_remove ms [c]) [c] t1 r rt ->
  exists o, In o (wait_outcomes evs t0 settle ms) /\ o_time o = rt /\ o_err o = e /\
            (forall x, In x (o_ret o) <-> In x r) /\
            (forall x, In x (o_rem o) <-> In x ms /\ ~ In x r).
Proof. exact settle_loop_refines. Qed.
Print Assumptions C20_settle_loop_refines.

(* the model does not block where the code would not: as soon as some member is closed at some time
   or the context ends, an outcome is allowed *)
Theorem C20_allowed_nonempty : forall evs t0 settle ms,
  (exists m, In m ms /\ close_time evs m <> None) \/ cancel_of evs <> None ->
  wait_outcomes evs t0 settle ms <> [].
Proof. exact wait_nonempty. Qed.
Print Assumptions C20_allowed_nonempty.

(* ... and Wait does not return when no member is ever closed and the context never ends *)
Theorem C20_blocks_when_nothing_ready : forall evs t0 settle ms,
  (forall m, In m ms -> close_time evs m = None) -> cancel_of evs = None ->
  wait_outcomes evs t0 settle ms = [].
Proof. exact wait_blocks. Qed.
Print Assumptions C20_blocks_when_nothing_ready.

(* Add/Merge/Clear/Has/HasAny are the set operations, and keep the representation duplicate-free
   (so the NoDup hypothesis above holds for every set built through the API) *)
Theorem C20_set_operations :
  (forall s c, ws_has s c = true <-> In c s) /\
  (forall s cs x, In x (ws_add s cs) <-> In x s \/ In x cs) /\
  (forall s o x, In x (ws_merge s o) <-> In x s \/ In x o) /\
  (forall s x, ~ In x (ws_clear s)) /\
  (forall s cs, ws_hasany s cs = true <-> exists c, In c cs /\ In c s) /\
  (forall s cs, NoDup s -> NoDup (ws_add s cs)) /\
  (forall s o, NoDup s -> NoDup (ws_merge s o)) /\
  (forall s, NoDup (ws_clear s)).
Proof. exact ws_ops_spec. Qed.
Print Assumptions C20_set_operations.

(* non-vacuity: a scenario with several allowed outcomes, each with returned channels, an error
   and a remaining set: members {1,2,3,4} (built with duplicates), 1 closed before the call at 2,
   2 closed at 5, 3 closed at 9 = the instant at which the context is cancelled, settle 10 *)
Example C20_nonvacuous :
  let ms := ws_add [] [1; 2; 1; 3; 4] in
  let evs := [Close 1 0; Close 2 5; Close 3 9; Cancel Canceled 9] in
  NoDup ms /\
  wait_outcomes evs 2 10 ms =
    [mkOutcome [1; 2] (Some Canceled) [3; 4] 9; mkOutcome [1; 2; 3] (Some Canceled) [4] 9] /\
  wait_outcomes evs 2 0 ms = [mkOutcome [1] None [2; 3; 4] 2] /\
  wait_outcomes [Close 1 0; Close 2 0; Cancel Deadline 1] 2 0 ms <> [] /\
  wait_outcomes [] 2 10 ms = [].
Proof.
  vm_compute. repeat split; try discriminate.
  repeat constructor; simpl; intuition discriminate.
Qed.

(* non-vacuity of the loop theorem: members {1,2}, 1 closed before the call, 2 closed at 3, settle 5:
   the loop blocks until 3, picks 2, blocks until 5, ends *)
Example C20_loop_nonvacuous :
  let evs := [Close 1 0; Close 2 3] in
  first_time evs 0 [1; 2] = Some 0 /\ eclose evs 0 1 = Some 0 /\ In None (settle_errs evs 0 0 5) /\
  settle_run (eclose evs 0) (settle_end evs 0 0 5) (ws_remove [1; 2] [1]) [1] 0 [1; 2] 5.
Proof.
  cbv zeta. split; [reflexivity|]. split; [reflexivity|]. split; [left; reflexivity|].
  change (settle_end [Close 1 0; Close 2 3] 0 0 5) with 5. change (ws_remove [1; 2] [1]) with [2].
  assert (Hnone : forall now, now < 3 -> forall c tc, In c [2] -> eclose [Close 1 0; Close 2 3] 0 c = Some tc -> now < tc).
  { intros now Hlt c tc [E | []] H. subst c. vm_compute in H. inversion H. subst. exact Hlt. }
  do 3 (apply sr_block; [repeat constructor | apply Hnone; repeat constructor |]).
  apply (sr_pick _ _ [2] [1] 3 2 3); [left; reflexivity | reflexivity | constructor |].
  change (ws_remove [2] [2]) with (@nil chan). change ([1] ++ [2]) with [1; 2].
  do 2 (apply sr_block; [repeat constructor | intros c tc [] |]).
  apply sr_done. constructor.
Qed.
