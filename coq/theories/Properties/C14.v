(* Properties/C14.v — Reconciler converges: nothing is forgotten.
   Only statements closed by `exact`, with their assumptions printed. *)
From Coq Require Import List NArith Bool.
From SV Require Import Reconciler.Retries Reconciler.Model Reconciler.RetriesProofs Reconciler.CommitProofs
  Reconciler.RoundProofs Reconciler.CoverProofs Reconciler.StepProofs Reconciler.Refuted
  Reconciler.TableWf Reconciler.StreamProofs Reconciler.PhaseProofs Reconciler.BatchProofs Reconciler.RoundInv Reconciler.Runs Reconciler.Progress
  Reconciler.Converge Reconciler.ItemsInv Reconciler.Target.
Import ListNotations.
Open Scope N_scope.

(* `covered D t c res q pk` (RoundProofs.v): key pk is not forgotten — if live and Pending/Refreshing it is
   ahead of the change cursor c or an operation result for exactly that version awaits its status commit;
   if live and Error an update retry is queued for the key or a retry result awaits commit (whatever the
   revision: fix 8844901 applies a retry result to an object still carrying the Error status); if deleted
   the deletion is ahead of the cursor, has a queued delete retry, or was Delete()d (D). *)

(* the status commit keeps every key covered and leaves no pending results behind *)
Theorem C14_commit_keeps_cover : forall D c now res t q t' q',
  keyed t -> uniq q -> NoDup (map (fun r => o_pk (r_obj r)) res) ->
  (forall r, In r res -> r_orig r <= t_rev t) ->
  (forall pk, covered D t c res q pk) -> commit_status now t q res = (t', q') ->
  forall pk, covered D t' c [] q' pk.
Proof. exact commit_status_covers. Qed.
Print Assumptions C14_commit_keeps_cover.

(* user writes of EVERY kind at any moment (before the snapshot, during an in-flight operation, between
   round and commit) keep every key covered — including a foreign status-only write over an object whose
   own status is Error (kind 4, `statx`), which lost the object before fix 8844901 *)
Theorem C14_user_write_keeps_cover : forall D e kind k c res q,
  keyed (e_tab e) -> c <= t_rev (e_tab e) ->
  (forall pk, covered D (e_tab e) c res q pk) ->
  keyed (e_tab (do_write e kind k)) /\ c <= t_rev (e_tab (do_write e kind k)) /\
  forall pk, covered D (e_tab (do_write e kind k)) c res q pk.
Proof. exact do_write_covers. Qed.
Print Assumptions C14_user_write_keeps_cover.

(* the retry queue operations of a round keep unrelated keys covered; a queued item is attempted:
   when the head is due the idle loop is woken (timer lemma) *)
Theorem C14_due_retry_wakes_loop : forall q now t, timer_ok q -> r_top q = Some t -> ri_at t <= now -> r_fired q now = true.
Proof. exact due_head_fires. Qed.
Print Assumptions C14_due_retry_wakes_loop.

(* a scripted operation (Update/Delete/batch entry) changes the table only through the user writes its
   hooks perform: whatever is written from inside an in-flight operation, every key stays covered *)
Theorem C14_inflight_writes_keep_cover : forall D e snap fresh op o rev c res q,
  wstate D (e_tab e) c res q ->
  wstate D (e_tab (fst (do_call e snap fresh op o rev))) c res q.
Proof. exact do_call_wstate. Qed.
Print Assumptions C14_inflight_writes_keep_cover.

(* one iteration of processRetries on a due update item (Pop, Update with arbitrary outcome and arbitrary
   writes from inside it, result recorded, Clear on success) keeps every key covered *)
Theorem C14_retry_step_keeps_cover : forall D c e snap q res it e' q' res',
  uniq q -> r_top q = Some it -> ri_del it = false ->
  wstate D (e_tab e) c res q ->
  process_single e snap false (r_pop q) res (ri_obj it) (ri_rev it) (ri_orig it) false = (e', q', res') ->
  wstate D (e_tab e') c res' q' /\ uniq q'.
Proof. exact retry_update_step_covers. Qed.
Print Assumptions C14_retry_step_keeps_cover.

(* fix 8844901, positive: a retry result meeting an object that still carries our Error status is always
   written (Done, or Error + re-queued with its origRev), whatever revision a foreign writer gave it; the
   foreign writer's data (o_aux) is kept, and (fix 1583841) the retry is queued with the object just written,
   not with the stale reconciled one *)
Theorem C14_retry_commits_over_foreign_write : forall fixed now t q r t' q' cur rv, keyed t ->
  t_live t (o_pk (r_obj r)) = Some (cur, rv) -> o_kind cur = Error -> r_rev r <> r_orig r ->
  commit_one fixed true now (t, q) r = (t', q') ->
  t_rev t' = t_rev t + 1 /\
  (exists o', slot_of t' (o_pk (r_obj r)) = Some (Live o' (t_rev t + 1)) /\
              o_kind o' = (if r_ok r then Done else Error) /\
              o_ver o' = (if rv =? r_rev r then o_ver (r_obj r) else o_ver cur) /\
              o_aux o' = (if rv =? r_rev r then o_aux (r_obj r) else o_aux cur)) /\
  q' = (if r_ok r then q
        else r_add q (if rv =? r_rev r then r_obj r else with_status cur Error (t_nextid t)) (t_rev t + 1)
                   (if fixed then r_orig r else r_rev r) false now).
Proof. exact retry_commits_over_foreign_write. Qed.
Print Assumptions C14_retry_commits_over_foreign_write.

(* (historic partial form, kept: the two status commits of a round compose; the full statement is now
   C14_round_keeps_cover / C14_nothing_forgotten below) *)
Theorem C14_nothing_forgotten_partial : forall D c now res1 res2 t q t1 q1 t2 q2,
  keyed t -> uniq q -> NoDup (map (fun r => o_pk (r_obj r)) res1) ->
  (forall r, In r res1 -> r_orig r <= t_rev t) ->
  (forall pk, covered D t c res1 q pk) -> commit_status now t q res1 = (t1, q1) ->
  (* whatever the retry phase does in between, if its results cover what it popped ... *)
  forall t1' q1', keyed t1' -> uniq q1' -> NoDup (map (fun r => o_pk (r_obj r)) res2) ->
  (forall r, In r res2 -> r_orig r <= t_rev t1') ->
  (forall pk, covered D t1' c res2 q1' pk) -> commit_status now t1' q1' res2 = (t2, q2) ->
  (forall pk, covered D t1 c [] q1 pk) /\ (forall pk, covered D t2 c [] q2 pk).
Proof. exact two_commits_cover. Qed.
Print Assumptions C14_nothing_forgotten_partial.

(* the code BEFORE fix 8844901 (no Error-status fallback) forgot the object after a foreign status-only
   write over an Error status: 2 calls ever, Error forever, target empty, watermark stuck at 1 ... *)
Theorem C14_foreign_status_write_refuted : run_stuck false = ([(1, 1, kind_code Error)], [], 1, 2).
Proof. exact convergence_refuted_by_foreign_status_write. Qed.
Print Assumptions C14_foreign_status_write_refuted.

(* ... and the code as it is converges on the same history: third attempt succeeds, Done, target = table *)
Theorem C14_foreign_status_write_converges : run_stuck true = ([(1, 1, kind_code Done)], [(1, 1)], 0, 3).
Proof. exact converges_after_foreign_status_write_fixed. Qed.
Print Assumptions C14_foreign_status_write_converges.

(* ------------------------------------------------------------------ whole rounds and runs (single AND batch mode) *)
(* round_inv e s (RoundInv.v): the table is well-formed (unique keys, positive distinct revisions bounded
   by the table revision), the retry queue has one item per key with revisions from the past, the cursor
   is not beyond the table revision, and EVERY key is covered w.r.t. Dlog e (successful Deletes in the
   call log). One whole round of the reconciler, single or batch mode — change stream over the snapshot with any round
   size, any outcome of every operation (fault oracle), any user writes performed from inside any
   operation (hooks: between snapshot and commit), both status commits, the retry phase on update AND
   delete items, prune — preserves it. *)
Theorem C14_round_keeps_cover : forall cf e s e' s',
  round_inv e s -> round cf e s = (e', s') -> round_inv e' s' /\ k_cursor s <= k_cursor s'.
Proof. exact round_keeps_inv. Qed.
Print Assumptions C14_round_keeps_cover.

(* nothing_forgotten, lifted to runs: every state reachable from the initial state by rounds, user writes
   of every kind, fault/hook registrations, time steps, prune requests and initializer completion satisfies
   the invariant (full_inv = round_inv + progress revision <= cursor + every queued delete retry was called) *)
Theorem C14_nothing_forgotten : forall cf st, reach cf st -> full_inv (fst st) (snd st).
Proof. exact nothing_forgotten. Qed.
Print Assumptions C14_nothing_forgotten.

(* convergence, partial: a quiescent reconciler (empty retry queue, empty change stream) has reconciled
   everything: every live object is Done and every deletion was Delete()d successfully ... *)
Theorem C14_quiescent_is_reconciled : forall e s, full_inv e s -> quiescent e s -> reconciled e.
Proof. exact quiescent_is_reconciled. Qed.
Print Assumptions C14_quiescent_is_reconciled.

(* ... in every reachable state, whatever history of writes, faults and timings led there.
   The full bounded-convergence statement is proved below (C14_converges_bounded, C14_converges_and_stays,
   C14_converges_from_reach, C14_converges_after_faults_stop): the progress argument — once the oracle only
   answers ok and no user write is pending, each round decreases (#pending or deleted changes ahead of the
   cursor) + (#retry items) by min(roundSize, that number), one more round skips the Done objects the commits
   wrote — gives quiescence after ceil((pending + items) / roundSize) + 1 rounds.
   Target = table (the last successful operation per key) is proved too: C14_target_equals_table,
   C14_last_operation_matches_table, C14_converges_to_target below (Target.v). *)
Theorem C14_converges_partial : forall cf st, reach cf st ->
  quiescent (fst st) (snd st) -> reconciled (fst st).
Proof. exact converges_partial. Qed.
Print Assumptions C14_converges_partial.

(* progress, first half: once the fault oracle only answers ok, a round (either mode, hooks may still
   write) never queues a retry — every key with a retry item after the round had one before — so the retry
   queue only drains. (Second half: C14_round_progress below.) *)
Theorem C14_faults_off_no_new_retries : forall cf e s e' s', e_foff e = true -> round cf e s = (e', s') ->
  e_foff e' = true /\ qsub (k_ret s') (k_ret s).
Proof. exact faults_off_no_new_retries. Qed.
Print Assumptions C14_faults_off_no_new_retries.

Example C14_nonvacuous :
  forall pk, covered (fun _ _ => False) (t_insert (t_empty false) (mkObj 1 1 Pending 1 0)) 0 [] (r_new 10 40) pk.
Proof.
  intro pk. destruct (N.eq_dec pk 1) as [E|E].
  - subst pk. vm_compute. left. reflexivity.
  - apply (covered_ext _ (t_empty false)); [apply slot_insert_other; exact E|exact I].
Qed.


(* ------------------------------------------------------------------ bounded convergence (Converge.v, ItemsInv.v) *)
(* calm e (Converge.v): the fault oracle only answers ok (e_foff) and no user write is pending inside a future
   operation (hooks_inert: every registered hook is keyed by an attempt number already in the past; in
   particular e_hooks e = []). The refresh loop is not part of `round`: a refresh is the user write `ref`,
   so "no refresh due" is part of "the table stops changing". Rounds do not move the clock, so "every queued
   item is due" stays true.
   items_ready e s: every retry item is queued and due, or its key has a deletion / a Pending or Refreshing
   object ahead of the cursor (then the change phase Clears it).
   measure e s = (#changes ahead of the cursor that are deletions or Pending/Refreshing objects) + (#retry items).
   One round, either mode, any round size >= 1: the measure drops by at least min(roundSize, measure). *)
Theorem C14_round_progress : forall cf e s e' s', twf (e_tab e) -> 0 < cf_rs cf -> calm e -> items_ready e s ->
  round cf e s = (e', s') ->
  calm e' /\ e_now e' = e_now e /\ items_ready e' s' /\
  (measure e' s' + Nat.min (N.to_nat (cf_rs cf)) (measure e s) <= measure e s)%nat.
Proof. exact round_progress. Qed.
Print Assumptions C14_round_progress.

(* a round that finds no retry item and nothing to act on ahead of the cursor calls no operation, writes
   nothing, and leaves the reconciler quiescent (no hypothesis on faults, hooks or time) *)
Theorem C14_idle_round : forall cf e s e' s', twf (e_tab e) -> q_items (k_ret s) = [] ->
  pending_ahead (e_tab e) (k_cursor s) = 0%nat -> round cf e s = (e', s') ->
  e_tab e' = e_tab e /\ e_now e' = e_now e /\ e_foff e' = e_foff e /\ e_hooks e' = e_hooks e /\
  e_attempts e' = e_attempts e /\ k_ret s' = k_ret s /\ k_cursor s <= k_cursor s' /\ quiescent e' s'.
Proof. exact idle_round. Qed.
Print Assumptions C14_idle_round.

(* converges_bounded: quiescent and reconciled after at most
   bound cf e s = ceil(measure e s / roundSize) + 1 rounds *)
Theorem C14_converges_bounded : forall cf e s, full_inv e s -> 0 < cf_rs cf -> calm e -> items_ready e s ->
  exists n, (n <= bound cf e s)%nat /\
    quiescent (fst (iter_round cf n (e, s))) (snd (iter_round cf n (e, s))) /\
    reconciled (fst (iter_round cf n (e, s))).
Proof. exact converges_bounded. Qed.
Print Assumptions C14_converges_bounded.

Theorem C14_bound_is : forall cf e s,
  bound cf e s = (N.to_nat ((N.of_nat (measure e s) + cf_rs cf - 1) / cf_rs cf) + 1)%nat /\
  measure e s = (length (filter ch_act (changes_of (e_tab e) (k_cursor s))) + length (q_items (k_ret s)))%nat.
Proof. intros cf e s. split; reflexivity. Qed.
Print Assumptions C14_bound_is.

(* idempotence: a quiescent reconciler stays quiescent under further rounds — table, queue and cursor do not
   move (a due prune tick only adds a Prune call to the log) *)
Theorem C14_quiescent_stable : forall cf e s e' s', full_inv e s -> quiescent e s -> round cf e s = (e', s') ->
  quiescent e' s' /\ e_tab e' = e_tab e /\ k_ret s' = k_ret s /\ k_cursor s' = k_cursor s.
Proof. exact quiescent_stable. Qed.
Print Assumptions C14_quiescent_stable.

(* ... hence from some round n <= bound on EVERY later state is quiescent and reconciled, with the same table *)
Theorem C14_converges_and_stays : forall cf e s, full_inv e s -> 0 < cf_rs cf -> calm e -> items_ready e s ->
  exists n, (n <= bound cf e s)%nat /\
    forall m, (n <= m)%nat ->
      quiescent (fst (iter_round cf m (e, s))) (snd (iter_round cf m (e, s))) /\
      reconciled (fst (iter_round cf m (e, s))) /\
      e_tab (fst (iter_round cf m (e, s))) = e_tab (fst (iter_round cf n (e, s))).
Proof. exact converges_and_stays. Qed.
Print Assumptions C14_converges_and_stays.

(* in every reachable state every retry item is accounted for (ItemsInv.item_ok): its key has work ahead of
   the cursor, or it is queued (a delete retry; an update retry with the object still in Error) ... *)
Theorem C14_reach_items_inv : forall cf st, reach cf st ->
  items_inv (e_tab (fst st)) (k_cursor (snd st)) [] (k_ret (snd st)).
Proof. exact reach_items_inv. Qed.
Print Assumptions C14_reach_items_inv.

(* ... so in a reachable state "every QUEUED item is due" is all that items_ready asks for *)
Theorem C14_reach_items_ready : forall cf e s, reach cf (e, s) ->
  (forall it, In it (q_items (k_ret s)) -> ri_inq it = true -> ri_at it <= e_now e) -> items_ready e s.
Proof. exact reach_items_ready. Qed.
Print Assumptions C14_reach_items_ready.

(* the property for runs: from ANY reachable state — whatever history of inserts, updates, deletes, failing
   operations, user writes from inside operations, round sizes, batch or single mode and timings led there —
   once operations stop failing, the table stops changing and the queued retries are due, the reconciler is
   quiescent and reconciled after at most ceil((pending + items) / roundSize) + 1 rounds, and stays so *)
Theorem C14_converges_from_reach : forall cf e s, reach cf (e, s) -> 0 < cf_rs cf -> calm e ->
  (forall it, In it (q_items (k_ret s)) -> ri_inq it = true -> ri_at it <= e_now e) ->
  exists n, (n <= bound cf e s)%nat /\
    forall m, (n <= m)%nat ->
      quiescent (fst (iter_round cf m (e, s))) (snd (iter_round cf m (e, s))) /\
      reconciled (fst (iter_round cf m (e, s))) /\
      e_tab (fst (iter_round cf m (e, s))) = e_tab (fst (iter_round cf n (e, s))).
Proof. exact converges_from_reach. Qed.
Print Assumptions C14_converges_from_reach.

(* the same, operationally: take any reachable state, switch the fault oracle off and let the clock pass the
   largest retryAt of the queue *)
Theorem C14_converges_after_faults_stop : forall cf e s T, reach cf (e, s) -> 0 < cf_rs cf -> hooks_inert e ->
  max_at (k_ret s) <= T ->
  let e1 := faults_off (set_now e T) in
  reach cf (e1, s) /\
  exists n, (n <= bound cf e1 s)%nat /\
    forall m, (n <= m)%nat ->
      quiescent (fst (iter_round cf m (e1, s))) (snd (iter_round cf m (e1, s))) /\
      reconciled (fst (iter_round cf m (e1, s))).
Proof. exact converges_after_faults_stop. Qed.
Print Assumptions C14_converges_after_faults_stop.

(* non-vacuity: a reachable state (single mode, round size 2) with 3 changes ahead of the cursor (a Pending
   object, a deletion, another Pending object) and 1 retry item: measure 4, bound 3 — not quiescent after 2
   rounds, quiescent after 3, all live objects Done (kind code 2), target = table *)
Example C14_converges_bounded_nonvacuous :
  reach ex_cf (ex_e, ex_s) /\ full_inv ex_e ex_s /\ 0 < cf_rs ex_cf /\ calm ex_e /\ items_ready ex_e ex_s /\
  measure ex_e ex_s = 4%nat /\ length (q_items (k_ret ex_s)) = 1%nat /\ bound ex_cf ex_e ex_s = 3%nat /\
  ~ quiescent (fst (iter_round ex_cf 2 (ex_e, ex_s))) (snd (iter_round ex_cf 2 (ex_e, ex_s))) /\
  quiescent (fst (iter_round ex_cf 3 (ex_e, ex_s))) (snd (iter_round ex_cf 3 (ex_e, ex_s))) /\
  live_objs (e_tab (fst (iter_round ex_cf 3 (ex_e, ex_s)))) = [(1, 1, 2); (3, 3, 2); (4, 4, 2)] /\
  e_target (fst (iter_round ex_cf 3 (ex_e, ex_s))) = [(3, 3); (4, 4); (1, 1)].
Proof. exact converges_bounded_nonvacuous. Qed.
Print Assumptions C14_converges_bounded_nonvacuous.

(* what the hypotheses are for. (a) full_inv alone does not imply convergence: it does not constrain an item
   that was popped and not re-queued (ri_inq = false); in the state below every round is the identity and
   the queue never drains. The state is NOT reachable (C14_reach_items_inv excludes it) — this refutes only
   the statement with the weaker hypothesis, not the implementation. *)
Theorem C14_converges_needs_items_ready_refuted :
  full_inv stale_e stale_s /\ 0 < cf_rs stale_cf /\ calm stale_e /\
  (forall it, In it (q_items (k_ret stale_s)) -> ri_at it <= e_now stale_e) /\
  forall n, ~ quiescent (fst (iter_round stale_cf n (stale_e, stale_s))) (snd (iter_round stale_cf n (stale_e, stale_s))).
Proof. exact converges_needs_items_ready_refuted. Qed.
Print Assumptions C14_converges_needs_items_ready_refuted.

(* (b) the round size must be positive (reconciler/config.go rejects IncrementalRoundSize <= 0): with round
   size 0 the retry phase never runs and a retry item of a REACHABLE state stays for ever *)
Theorem C14_converges_needs_positive_round_size_refuted :
  reach rs0_cf (rs0_e, rs0_s) /\ cf_rs rs0_cf = 0 /\ calm rs0_e /\ items_ready rs0_e rs0_s /\
  forall n, ~ quiescent (fst (iter_round rs0_cf n (rs0_e, rs0_s))) (snd (iter_round rs0_cf n (rs0_e, rs0_s))).
Proof. exact converges_needs_positive_round_size_refuted. Qed.
Print Assumptions C14_converges_needs_positive_round_size_refuted.

(* ------------------------------------------------------------------ target = table (Target.v) *)
(* e_target is the simulated target of the harness: a successful Update / UpdateBatch entry of (pk, version)
   sets target[pk] := version, a successful Delete / DeleteBatch entry removes pk. In every reachable state it
   is the call log replayed (no ghost): *)
Theorem C14_target_is_call_log : forall cf st, reach cf st -> e_target (fst st) = replay (e_calls (fst st)).
Proof. exact reach_logged. Qed.
Print Assumptions C14_target_is_call_log.

(* the invariant behind it (tinv, every reachable state): a key with no work left — nothing of it ahead of the
   cursor that is a deletion or Pending/Refreshing, no retry item — has target[pk] = payload of its live
   object, and no entry if it is deleted; delete retries belong to the current deletion of their key *)
Theorem C14_reach_target_inv : forall cf st, reach cf st ->
  tinv (e_tab (fst st)) (k_cursor (snd st)) [] (k_ret (snd st)) (e_target (fst st)) /\
  del_items (e_tab (fst st)) (k_cursor (snd st)) (k_ret (snd st)).
Proof. exact reach_target. Qed.
Print Assumptions C14_reach_target_inv.

(* in every reachable quiescent state, for every key of the table: target = payload version of the live
   object (pay (Live o _) = Some (o_ver o)), no target entry for a deleted key (pay (Dead _ _) = None) *)
Theorem C14_target_equals_table : forall cf st, reach cf st -> quiescent (fst st) (snd st) ->
  forall k sl, slot_of (e_tab (fst st)) k = Some sl -> aget k (e_target (fst st)) = pay sl.
Proof. exact target_equals_table. Qed.
Print Assumptions C14_target_equals_table.

(* the same on the call log: the LAST successful Update/Delete (or batch entry) of the key of a live object
   is an Update carrying its current payload version; of a deleted key, a Delete *)
Theorem C14_last_operation_matches_table : forall cf st, reach cf st -> quiescent (fst st) (snd st) ->
  forall k sl, slot_of (e_tab (fst st)) k = Some sl ->
    exists c, last_op k (e_calls (fst st)) = Some c /\ cl_ok c = true /\ cl_pk c = k /\
      match sl with
      | Live o _ => is_upd_op (cl_op c) = true /\ cl_ver c = o_ver o
      | Dead _ _ => is_del_op (cl_op c) = true
      end.
Proof. exact last_operation_matches_table. Qed.
Print Assumptions C14_last_operation_matches_table.

(* property C14 for runs, complete: from any reachable state, once operations stop failing, no user write is
   pending and the queued retries are due, within ceil((pending + items)/roundSize) + 1 rounds — and for ever
   after — the reconciler is quiescent, every live object is Done, every deletion was Delete()d successfully,
   and the target equals the table *)
Theorem C14_converges_to_target : forall cf e s, reach cf (e, s) -> 0 < cf_rs cf -> calm e ->
  (forall it, In it (q_items (k_ret s)) -> ri_inq it = true -> ri_at it <= e_now e) ->
  exists n, (n <= bound cf e s)%nat /\
    forall m, (n <= m)%nat ->
      quiescent (fst (iter_round cf m (e, s))) (snd (iter_round cf m (e, s))) /\
      reconciled (fst (iter_round cf m (e, s))) /\
      (forall k sl, slot_of (e_tab (fst (iter_round cf m (e, s)))) k = Some sl ->
         aget k (e_target (fst (iter_round cf m (e, s)))) = pay sl).
Proof. exact converges_to_target. Qed.
Print Assumptions C14_converges_to_target.

(* non-vacuity: a reachable quiescent state with three live keys and a deleted one; the theorem gives the
   target entries *)
Example C14_target_equals_table_nonvacuous :
  reach Converge.ex_cf ex_final /\ quiescent (fst ex_final) (snd ex_final) /\
  live_objs (e_tab (fst ex_final)) = [(1, 1, 2); (3, 3, 2); (4, 4, 2)] /\
  slot_of (e_tab (fst ex_final)) 2 = Some (Dead (mkObj 2 2 Done 5 0) 6) /\
  aget 1 (e_target (fst ex_final)) = Some 1 /\ aget 2 (e_target (fst ex_final)) = None /\
  aget 3 (e_target (fst ex_final)) = Some 3 /\ aget 4 (e_target (fst ex_final)) = Some 4.
Proof. exact target_equals_table_nonvacuous. Qed.
Print Assumptions C14_target_equals_table_nonvacuous.
