(* Properties/C14.v — Reconciler converges: nothing is forgotten.
   Only statements closed by `exact`, with their assumptions printed. *)
From Coq Require Import List NArith Bool.
From SV Require Import Reconciler.Retries Reconciler.Model Reconciler.RetriesProofs Reconciler.CommitProofs
  Reconciler.RoundProofs Reconciler.CoverProofs Reconciler.StepProofs Reconciler.Refuted
  Reconciler.TableWf Reconciler.StreamProofs Reconciler.PhaseProofs Reconciler.BatchProofs Reconciler.RoundInv Reconciler.Runs Reconciler.Progress.
Import ListNotations.
Open Scope N_scope.

(* `covered D t c res q pk` (RoundProofs.v): key pk is not forgotten — if live and Pending/Refreshing it is
   ahead of the change cursor c or an operation result for exactly that version awaits its status commit;
   if live and Error an update retry is queued for the key or a retry result awaits commit (whatever the
   revision: fix 8844901 applies a retry result to an object still carrying the Error status); if deleted
   the deletion is ahead of the cursor, has a queued delete retry, or was Delete()d (D). *)

(* the status commit keeps every key covered and leaves no pending results behind *)
Theorem C14_commit_keeps_cover : forall D c now res t q t' q',
  keyed t -> uniq q -> NoDup (map (fun r => o_pk (r_obj r)) res) ->
  (forall r, In r res -> r_orig r <= t_rev t) ->
  (forall pk, covered D t c res q pk) -> commit_status now t q res = (t', q') ->
  forall pk, covered D t' c [] q' pk.
Proof. exact commit_status_covers. Qed.
Print Assumptions C14_commit_keeps_cover.

(* user writes of EVERY kind at any moment (before the snapshot, during an in-flight operation, between
   round and commit) keep every key covered — including a foreign status-only write over an object whose
   own status is Error (kind 4, `statx`), which lost the object before fix 8844901 *)
Theorem C14_user_write_keeps_cover : forall D e kind k c res q,
  keyed (e_tab e) -> c <= t_rev (e_tab e) ->
  (forall pk, covered D (e_tab e) c res q pk) ->
  keyed (e_tab (do_write e kind k)) /\ c <= t_rev (e_tab (do_write e kind k)) /\
  forall pk, covered D (e_tab (do_write e kind k)) c res q pk.
Proof. exact do_write_covers. Qed.
Print Assumptions C14_user_write_keeps_cover.

(* the retry queue operations of a round keep unrelated keys covered; a queued item is attempted:
   when the head is due the idle loop is woken (timer lemma) *)
Theorem C14_due_retry_wakes_loop : forall q now t, timer_ok q -> r_top q = Some t -> ri_at t <= now -> r_fired q now = true.
Proof. exact due_head_fires. Qed.
Print Assumptions C14_due_retry_wakes_loop.

(* a scripted operation (Update/Delete/batch entry) changes the table only through the user writes its
   hooks perform: whatever is written from inside an in-flight operation, every key stays covered *)
Theorem C14_inflight_writes_keep_cover : forall D e snap fresh op o rev c res q,
  wstate D (e_tab e) c res q ->
  wstate D (e_tab (fst (do_call e snap fresh op o rev))) c res q.
Proof. exact do_call_wstate. Qed.
Print Assumptions C14_inflight_writes_keep_cover.

(* one iteration of processRetries on a due update item (Pop, Update with arbitrary outcome and arbitrary
   writes from inside it, result recorded, Clear on success) keeps every key covered *)
Theorem C14_retry_step_keeps_cover : forall D c e snap q res it e' q' res',
  uniq q -> r_top q = Some it -> ri_del it = false ->
  wstate D (e_tab e) c res q ->
  process_single e snap false (r_pop q) res (ri_obj it) (ri_rev it) (ri_orig it) false = (e', q', res') ->
  wstate D (e_tab e') c res' q' /\ uniq q'.
Proof. exact retry_update_step_covers. Qed.
Print Assumptions C14_retry_step_keeps_cover.

(* fix 8844901, positive: a retry result meeting an object that still carries our Error status is always
   written (Done, or Error + re-queued with its origRev), whatever revision a foreign writer gave it *)
Theorem C14_retry_commits_over_foreign_write : forall fixed now t q r t' q' cur rv, keyed t ->
  t_live t (o_pk (r_obj r)) = Some (cur, rv) -> o_kind cur = Error -> r_rev r <> r_orig r ->
  commit_one fixed true now (t, q) r = (t', q') ->
  t_rev t' = t_rev t + 1 /\
  (exists o', slot_of t' (o_pk (r_obj r)) = Some (Live o' (t_rev t + 1)) /\
              o_kind o' = (if r_ok r then Done else Error) /\
              o_ver o' = (if rv =? r_rev r then o_ver (r_obj r) else o_ver cur)) /\
  q' = (if r_ok r then q else r_add q (r_obj r) (t_rev t + 1) (if fixed then r_orig r else r_rev r) false now).
Proof. exact retry_commits_over_foreign_write. Qed.
Print Assumptions C14_retry_commits_over_foreign_write.

(* (historic partial form, kept: the two status commits of a round compose; the full statement is now
   C14_round_keeps_cover / C14_nothing_forgotten below) *)
Theorem C14_nothing_forgotten_partial : forall D c now res1 res2 t q t1 q1 t2 q2,
  keyed t -> uniq q -> NoDup (map (fun r => o_pk (r_obj r)) res1) ->
  (forall r, In r res1 -> r_orig r <= t_rev t) ->
  (forall pk, covered D t c res1 q pk) -> commit_status now t q res1 = (t1, q1) ->
  (* whatever the retry phase does in between, if its results cover what it popped ... *)
  forall t1' q1', keyed t1' -> uniq q1' -> NoDup (map (fun r => o_pk (r_obj r)) res2) ->
  (forall r, In r res2 -> r_orig r <= t_rev t1') ->
  (forall pk, covered D t1' c res2 q1' pk) -> commit_status now t1' q1' res2 = (t2, q2) ->
  (forall pk, covered D t1 c [] q1 pk) /\ (forall pk, covered D t2 c [] q2 pk).
Proof. exact two_commits_cover. Qed.
Print Assumptions C14_nothing_forgotten_partial.

(* the code BEFORE fix 8844901 (no Error-status fallback) forgot the object after a foreign status-only
   write over an Error status: 2 calls ever, Error forever, target empty, watermark stuck at 1 ... *)
Theorem C14_foreign_status_write_refuted : run_stuck false = ([(1, 1, kind_code Error)], [], 1, 2).
Proof. exact convergence_refuted_by_foreign_status_write. Qed.
Print Assumptions C14_foreign_status_write_refuted.

(* ... and the code as it is converges on the same history: third attempt succeeds, Done, target = table *)
Theorem C14_foreign_status_write_converges : run_stuck true = ([(1, 1, kind_code Done)], [(1, 1)], 0, 3).
Proof. exact converges_after_foreign_status_write_fixed. Qed.
Print Assumptions C14_foreign_status_write_converges.

(* ------------------------------------------------------------------ whole rounds and runs (single AND batch mode) *)
(* round_inv e s (RoundInv.v): the table is well-formed (unique keys, positive distinct revisions bounded
   by the table revision), the retry queue has one item per key with revisions from the past, the cursor
   is not beyond the table revision, and EVERY key is covered w.r.t. Dlog e (successful Deletes in the
   call log). One whole round of the reconciler, single or batch mode — change stream over the snapshot with any round
   size, any outcome of every operation (fault oracle), any user writes performed from inside any
   operation (hooks: between snapshot and commit), both status commits, the retry phase on update AND
   delete items, prune — preserves it. *)
Theorem C14_round_keeps_cover : forall cf e s e' s',
  round_inv e s -> round cf e s = (e', s') -> round_inv e' s' /\ k_cursor s <= k_cursor s'.
Proof. exact round_keeps_inv. Qed.
Print Assumptions C14_round_keeps_cover.

(* nothing_forgotten, lifted to runs: every state reachable from the initial state by rounds, user writes
   of every kind, fault/hook registrations, time steps, prune requests and initializer completion satisfies
   the invariant (full_inv = round_inv + progress revision <= cursor + every queued delete retry was called) *)
Theorem C14_nothing_forgotten : forall cf st, reach cf st -> full_inv (fst st) (snd st).
Proof. exact nothing_forgotten. Qed.
Print Assumptions C14_nothing_forgotten.

(* convergence, partial: a quiescent reconciler (empty retry queue, empty change stream) has reconciled
   everything: every live object is Done and every deletion was Delete()d successfully ... *)
Theorem C14_quiescent_is_reconciled : forall e s, full_inv e s -> quiescent e s -> reconciled e.
Proof. exact quiescent_is_reconciled. Qed.
Print Assumptions C14_quiescent_is_reconciled.

(* ... in every reachable state, whatever history of writes, faults and timings led there.
   MISSING for the full bounded-convergence statement (`converges`): (1) the progress argument — once the
   oracle only answers ok and no write occurs, each round executed past the largest retryAt decreases
   (#pending or deleted changes ahead of the cursor) + (#retry items) by min(roundSize, that number), and
   one more round skips the Done objects the commits wrote, so quiescence is reached after
   ceil(pending / roundSize) + |items| + 2 rounds; (2) target = table (the last successful operation per
   key), which needs a ghost linking Done statuses to e_target. Both are covered on every check by the
   exact correspondence of the `final` line (P:C14) and the !BAD:C14 oracles. *)
Theorem C14_converges_partial : forall cf st, reach cf st ->
  quiescent (fst st) (snd st) -> reconciled (fst st).
Proof. exact converges_partial. Qed.
Print Assumptions C14_converges_partial.

(* progress, first half: once the fault oracle only answers ok, a round (either mode, hooks may still
   write) never queues a retry — every key with a retry item after the round had one before — so the retry
   queue only drains. (Second half, not proved: the count of changes processed per round.) *)
Theorem C14_faults_off_no_new_retries : forall cf e s e' s', e_foff e = true -> round cf e s = (e', s') ->
  e_foff e' = true /\ qsub (k_ret s') (k_ret s).
Proof. exact faults_off_no_new_retries. Qed.
Print Assumptions C14_faults_off_no_new_retries.

Example C14_nonvacuous :
  forall pk, covered (fun _ _ => False) (t_insert (t_empty false) (mkObj 1 1 Pending 1)) 0 [] (r_new 10 40) pk.
Proof.
  intro pk. destruct (N.eq_dec pk 1) as [E|E].
  - subst pk. vm_compute. left. reflexivity.
  - apply (covered_ext _ (t_empty false)); [apply slot_insert_other; exact E|exact I].
Qed.
