(* Properties/C14.v — Reconciler converges: nothing is forgotten.
   Only statements closed by `exact`, with their assumptions printed. *)
From Coq Require Import List NArith Bool.
From SV Require Import Reconciler.Retries Reconciler.Model Reconciler.RetriesProofs Reconciler.CommitProofs
  Reconciler.RoundProofs Reconciler.CoverProofs Reconciler.StepProofs Reconciler.Refuted.
Import ListNotations.
Open Scope N_scope.

(* `covered D t c res q pk` (RoundProofs.v): key pk is not forgotten — if live and Pending/Refreshing it is
   ahead of the change cursor c or an operation result for exactly that version awaits its status commit;
   if live and Error a retry item for exactly that revision is queued (or its result awaits commit); if
   deleted the deletion is ahead of the cursor, has a queued delete retry, or was Delete()d (D). *)

(* the status commit keeps every key covered and leaves no pending results behind *)
Theorem C14_commit_keeps_cover : forall D c now res t q t' q',
  keyed t -> uniq q -> NoDup (map (fun r => o_pk (r_obj r)) res) ->
  (forall pk, covered D t c res q pk) -> commit_status now t q res = (t', q') ->
  forall pk, covered D t' c [] q' pk.
Proof. exact commit_status_covers. Qed.
Print Assumptions C14_commit_keeps_cover.

(* user writes at any moment (before the snapshot, during an in-flight operation, between round and
   commit) keep every key covered: the written object is ahead of the cursor *)
Theorem C14_user_write_keeps_cover : forall D e kind k c res q,
  keyed (e_tab e) -> c <= t_rev (e_tab e) -> write_safe e kind k ->
  (forall pk, covered D (e_tab e) c res q pk) ->
  keyed (e_tab (do_write e kind k)) /\ c <= t_rev (e_tab (do_write e kind k)) /\
  forall pk, covered D (e_tab (do_write e kind k)) c res q pk.
Proof. exact do_write_covers. Qed.
Print Assumptions C14_user_write_keeps_cover.

(* the retry queue operations of a round keep unrelated keys covered; a queued item is attempted:
   when the head is due the idle loop is woken (timer lemma) *)
Theorem C14_due_retry_wakes_loop : forall q now t, timer_ok q -> r_top q = Some t -> ri_at t <= now -> r_fired q now = true.
Proof. exact due_head_fires. Qed.
Print Assumptions C14_due_retry_wakes_loop.

(* a scripted operation (Update/Delete/batch entry) changes the table only through the user writes its
   hooks perform: whatever is written from inside an in-flight operation, every key stays covered *)
Theorem C14_inflight_writes_keep_cover : forall D e snap fresh op o rev c res q, hooks_safe (e_hooks e) ->
  wstate D (e_tab e) c res q ->
  wstate D (e_tab (fst (do_call e snap fresh op o rev))) c res q /\
  e_hooks (fst (do_call e snap fresh op o rev)) = e_hooks e.
Proof. exact do_call_wstate. Qed.
Print Assumptions C14_inflight_writes_keep_cover.

(* one iteration of processRetries on a due update item (Pop, Update with arbitrary outcome and arbitrary
   safe writes from inside it, result recorded, Clear on success) keeps every key covered *)
Theorem C14_retry_step_keeps_cover : forall D c e snap q res it e' q' res',
  uniq q -> r_top q = Some it -> ri_del it = false -> hooks_safe (e_hooks e) ->
  wstate D (e_tab e) c res q ->
  process_single e snap false (r_pop q) res (ri_obj it) (ri_rev it) (ri_orig it) false = (e', q', res') ->
  wstate D (e_tab e') c res' q' /\ uniq q' /\ hooks_safe (e_hooks e').
Proof. exact retry_update_step_covers. Qed.
Print Assumptions C14_retry_step_keeps_cover.

(* nothing_forgotten — FULL STATEMENT (not proved as one theorem):
     forall cf e s (any env: any faults, hooks, time), keyed (e_tab e) -> k_cursor s <= t_rev (e_tab e) ->
       uniq (k_ret s) -> (forall pk, covered Dlog (e_tab e) (k_cursor s) [] (k_ret s) pk) ->
       let (e', s') := round cf e s in
       forall pk, covered Dlog' (e_tab e') (k_cursor s') [] (k_ret s') pk
   where Dlog pk rev := the call log contains a successful Delete of pk at revision rev.
   Proved pieces: C14_commit_keeps_cover (both commitStatus calls of a round),
   C14_user_write_keeps_cover + C14_inflight_writes_keep_cover (writes placed anywhere, incl. from inside
   operations), C14_retry_step_keeps_cover (processRetries step on an update item).
   Missing: the phase lemma "single/batch advances the cursor only over keys it puts into results /
   deletes / queues", which needs the snapshot-vs-current-table relation (objects with revision <= snapshot
   revision are unchanged) threaded through do_call's hooks; the processRetries step on a DELETE item
   (needs the ghost D extended by the successful Delete); and bounded convergence (`converges`): once faults and writes stop,
   after ceil(pending/roundSize) + |items| + 2 rounds past the largest retryAt every live object is Done
   with target = table. Both are exercised by the correspondence run (P:C14 `final` lines, exact equality
   with the model) and by the independent oracle !BAD:C14:*. *)
Theorem C14_nothing_forgotten_partial : forall D c now res1 res2 t q t1 q1 t2 q2,
  keyed t -> uniq q -> NoDup (map (fun r => o_pk (r_obj r)) res1) ->
  (forall pk, covered D t c res1 q pk) -> commit_status now t q res1 = (t1, q1) ->
  (* whatever the retry phase does in between, if its results cover what it popped ... *)
  forall t1' q1', keyed t1' -> uniq q1' -> NoDup (map (fun r => o_pk (r_obj r)) res2) ->
  (forall pk, covered D t1' c res2 q1' pk) -> commit_status now t1' q1' res2 = (t2, q2) ->
  (forall pk, covered D t1 c [] q1 pk) /\ (forall pk, covered D t2 c [] q2 pk).
Proof. exact two_commits_cover. Qed.
Print Assumptions C14_nothing_forgotten_partial.

(* the guard write_safe above is necessary — reported defect: a foreign status-only write over an Error
   status makes the reconciler forget the object (2 calls ever, Error forever, target empty, lwm stuck) *)
Theorem C14_foreign_status_write_refuted : run_stuck = ([(1, 1, kind_code Error)], [], 1, 2).
Proof. exact convergence_refuted_by_foreign_status_write. Qed.
Print Assumptions C14_foreign_status_write_refuted.

Example C14_nonvacuous :
  forall pk, covered (fun _ _ => False) (t_insert (t_empty false) (mkObj 1 1 Pending 1)) 0 [] (r_new 10 40) pk.
Proof.
  intro pk. destruct (N.eq_dec pk 1) as [E|E].
  - subst pk. vm_compute. left. reflexivity.
  - apply (covered_ext _ (t_empty false)); [apply slot_insert_other; exact E|exact I].
Qed.
