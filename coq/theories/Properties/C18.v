(* Properties/C18.v — Index key encodings are injective and order-preserving.
   Only statements closed by `exact`, with their assumptions printed. *)
From SV Require Import Base.Bytes KeyEnc.Model KeyEnc.Proofs KeyEnc.Refuted.
From Coq Require Import ZArith.
Open Scope N_scope.

(* the composite non-unique key is injective in (primary, secondary), unconditionally *)
Theorem C18_nuk_injective : forall p1 s1 p2 s2, nuk p1 s1 = nuk p2 s2 -> p1 = p2 /\ s1 = s2.
Proof. exact nuk_inj. Qed.
Print Assumptions C18_nuk_injective.

(* ordered by secondary first, then primary, bytewise — for escaped primary keys < 256 bytes
   (the guard is necessary: C18_K1_order_refuted) *)
Theorem C18_nuk_order_preserving : forall p1 s1 p2 s2,
  len (enc p1) < 256 -> len (enc p2) < 256 ->
  (lex_lt (nuk p1 s1) (nuk p2 s2) <-> lex_lt s1 s2 \/ (s1 = s2 /\ lex_lt p1 p2)).
Proof. exact nuk_order. Qed.
Print Assumptions C18_nuk_order_preserving.

(* the two parts can be separated again (escaped primary < 65536; necessary: C18_K2) *)
Theorem C18_nuk_separable : forall p s, len (enc p) < 65536 ->
  encodedSecondary (nuk p s) = Some (enc s) /\ encodedPrimary (nuk p s) = Some (enc p) /\
  secondaryLen (nuk p s) = Z.of_nat (length (enc s)).
Proof. exact nuk_split. Qed.
Print Assumptions C18_nuk_separable.

Theorem C18_escape_invertible : forall s, dec (enc s) = s.
Proof. exact dec_enc. Qed.
Print Assumptions C18_escape_invertible.

Theorem C18_escape_order_iff : forall a b, lex_lt a b <-> lex_lt (enc a) (enc b).
Proof. exact enc_mono_iff. Qed.
Print Assumptions C18_escape_order_iff.

(* unsigned integers: injective and numerically ordered under bytewise comparison *)
Theorem C18_uint_keys :
  (forall a b, a < 65536 -> b < 65536 -> (uint16_key a = uint16_key b -> a = b) /\ (a < b <-> lex_lt (uint16_key a) (uint16_key b))) /\
  (forall a b, a < 4294967296 -> b < 4294967296 -> (uint32_key a = uint32_key b -> a = b) /\ (a < b <-> lex_lt (uint32_key a) (uint32_key b))) /\
  (forall a b, a < 18446744073709551616 -> b < 18446744073709551616 -> (uint64_key a = uint64_key b -> a = b) /\ (a < b <-> lex_lt (uint64_key a) (uint64_key b))).
Proof. exact uint_keys_inj_mono. Qed.
Print Assumptions C18_uint_keys.

Theorem C18_int_keys_injective :
  (forall a b, -32768 <= a < 32768 -> -32768 <= b < 32768 -> int16_key a = int16_key b -> a = b)%Z /\
  (forall a b, -2147483648 <= a < 2147483648 -> -2147483648 <= b < 2147483648 -> int32_key a = int32_key b -> a = b)%Z /\
  (forall a b, -9223372036854775808 <= a < 9223372036854775808 -> -9223372036854775808 <= b < 9223372036854775808 -> int64_key a = int64_key b -> a = b)%Z.
Proof. exact int_keys_inj. Qed.
Print Assumptions C18_int_keys_injective.

Theorem C18_bool_string_keys :
  (forall a b, bool_key a = bool_key b -> a = b) /\
  (forall a b, string_key a = string_key b -> a = b) /\
  (forall a b, lex_lt a b <-> lex_lt (string_key a) (string_key b)).
Proof. exact bool_string_keys. Qed.
Print Assumptions C18_bool_string_keys.

(* LPM keys round-trip with the data masked to the prefix length *)
Theorem C18_lpm_roundtrip : forall data plen, plen + 7 < 65536 -> (plen + 7) / 8 <= len data ->
  exists k, lpmEncode data plen = Some k /\ lpmDecode k = Some (lpm_masked data plen, plen).
Proof. exact lpm_roundtrip. Qed.
Print Assumptions C18_lpm_roundtrip.

(* Known findings: the guards above are necessary *)
Theorem C18_K1_order_refuted : exists p1 p2 s, lex_lt p1 p2 /\ lex_lt (nuk p2 s) (nuk p1 s).
Proof. exact nuk_order_refuted. Qed.
Print Assumptions C18_K1_order_refuted.

Theorem C18_K2_split_refuted : forall p s, len (enc p) = 65536 ->
  primaryLen (nuk p s) = 0%Z /\ secondaryLen (nuk p s) <> Z.of_nat (length (enc s)).
Proof. exact nuk_split_refuted. Qed.
Print Assumptions C18_K2_split_refuted.

(* non-vacuity: the hypotheses are satisfiable on non-trivial keys *)
Example C18_nonvacuous :
  len (enc [0; 1; 255]) < 256 /\ lex_lt (nuk [0] [1; 0]) (nuk [] [1; 0; 0]) /\ (7 + 7) / 8 <= len [255; 255].
Proof. split; [vm_compute; reflexivity|split; [apply bytes_ltb_spec; vm_compute; reflexivity|vm_compute; discriminate]]. Qed.

(* ---- IP-prefix keys (index/netip.go NetIPPrefix, lpm/key.go NetIPPrefixToIndexKey; KeyEnc/NetIP.v) ---- *)
From SV Require KeyEnc.NetIP.
Module C18_NetIP.
Import SV.Base.Bytes SV.KeyEnc.Model SV.KeyEnc.NetIP.
Open Scope N_scope.

(* equal keys exactly for equal masked prefixes of a family: different values give different keys, and the key
   of a prefix is the key of its masked form (equal values give equal keys) *)
Theorem C18_netip_prefix_key_injective : forall (is4 : bool) (a1 : bytes) (b1 : N) (a2 : bytes) (b2 : N),
  netip_prefix_key is4 a1 b1 = netip_prefix_key is4 a2 b2 <-> (mask_bytes a1 b1 = mask_bytes a2 b2 /\ b1 = b2).
Proof. exact netip_prefix_key_inj. Qed.
Print Assumptions C18_netip_prefix_key_injective.

Theorem C18_netip_prefix_key_canonical : forall (is4 : bool) (addr : bytes) (bits : N),
  netip_prefix_key is4 (mask_bytes addr bits) bits = netip_prefix_key is4 addr bits.
Proof. exact netip_prefix_key_canonical. Qed.
Print Assumptions C18_netip_prefix_key_canonical.

(* an IPv4 prefix and an IPv6 prefix never share a key; every key has 17 bytes *)
Theorem C18_netip_prefix_key_families_disjoint : forall (a4 : bytes) (b4 : N) (a6 : bytes) (b6 : N),
  length a4 = 4%nat -> length a6 = 16%nat -> b4 <= 32 -> b6 <= 128 ->
  netip_prefix_key true a4 b4 <> netip_prefix_key false a6 b6.
Proof. exact netip_prefix_key_families_disjoint. Qed.
Print Assumptions C18_netip_prefix_key_families_disjoint.

Theorem C18_netip_prefix_key_length : forall (is4 : bool) (addr : bytes) (bits : N),
  length addr = (if is4 then 4 else 16)%nat -> length (netip_prefix_key is4 addr bits) = 17%nat.
Proof. exact netip_prefix_key_length. Qed.
Print Assumptions C18_netip_prefix_key_length.
End C18_NetIP.

(* ---- the query-string variants of the integer encoders (index/int.go XString: strconv base 10), index.NetIP and
   lpm.NetIPPrefix4ToIndexKey (KeyEnc/Strings.v; compared with the code by the ops u16s..i64s, nip, nipp4) *)
From SV Require Import KeyEnc.NetIP KeyEnc.Strings.

(* a decimal string with leading zeros denotes the number without them (not an octal one) *)
Theorem C18_string_leading_zeros_ignored : forall r bits, r <> [] -> parse_uint (48 :: r) bits = parse_uint r bits.
Proof. exact parse_uint_leading_zero. Qed.
Print Assumptions C18_string_leading_zeros_ignored.

(* equal values give equal keys, different values different keys, the key of the string variant is the key of
   the value variant, unsigned keys order numerically - for any two accepted strings *)
Theorem C18_uint_string_keys : forall s1 s2 v1 v2,
  (parse_uint s1 16 = Some v1 -> parse_uint s2 16 = Some v2 ->
     uint16_string_key s1 = Some (uint16_key v1) /\ (uint16_string_key s1 = uint16_string_key s2 <-> v1 = v2) /\
     (v1 < v2 <-> lex_lt (uint16_key v1) (uint16_key v2))) /\
  (parse_uint s1 32 = Some v1 -> parse_uint s2 32 = Some v2 ->
     uint32_string_key s1 = Some (uint32_key v1) /\ (uint32_string_key s1 = uint32_string_key s2 <-> v1 = v2) /\
     (v1 < v2 <-> lex_lt (uint32_key v1) (uint32_key v2))) /\
  (parse_uint s1 64 = Some v1 -> parse_uint s2 64 = Some v2 ->
     uint64_string_key s1 = Some (uint64_key v1) /\ (uint64_string_key s1 = uint64_string_key s2 <-> v1 = v2) /\
     (v1 < v2 <-> lex_lt (uint64_key v1) (uint64_key v2))).
Proof. exact uint_string_keys. Qed.
Print Assumptions C18_uint_string_keys.

Theorem C18_int_string_keys : forall s1 s2 v1 v2,
  (parse_int s1 16 = Some v1 -> parse_int s2 16 = Some v2 -> (int16_string_key s1 = int16_string_key s2 <-> v1 = v2)) /\
  (parse_int s1 32 = Some v1 -> parse_int s2 32 = Some v2 -> (int32_string_key s1 = int32_string_key s2 <-> v1 = v2)) /\
  (parse_int s1 64 = Some v1 -> parse_int s2 64 = Some v2 -> (int64_string_key s1 = int64_string_key s2 <-> v1 = v2)).
Proof. exact int_string_keys. Qed.
Print Assumptions C18_int_string_keys.

(* index.NetIP: the 4-byte and the IPv4-mapped 16-byte form of an address give the same 16-byte key *)
Theorem C18_netip_key_forms : forall a4, length a4 = 4%nat ->
  netip_key a4 = netip_key (as16 true a4) /\ length (netip_key a4) = 16%nat /\
  (forall b4, length b4 = 4%nat -> netip_key a4 = netip_key b4 -> a4 = b4) /\
  (forall a16, length a16 = 16%nat -> netip_key a16 = a16).
Proof. exact netip_key_forms. Qed.
Print Assumptions C18_netip_key_forms.

(* lpm.NetIPPrefix4ToIndexKey is EncodeLPMKey of the four address bytes: C18_lpm_roundtrip applies to it *)
Theorem C18_netip_prefix4_is_encode : forall addr bits, netip_prefix4_lpm_key addr bits = lpmEncode addr bits.
Proof. exact netip_prefix4_is_encode. Qed.
Print Assumptions C18_netip_prefix4_is_encode.

Example C18_strings_nonvacuous :
  parse_uint [48; 49; 48] 16 = Some 10 /\ uint16_string_key [48; 49; 48] = Some [0; 10] /\
  parse_int [45; 53] 16 = Some (-5)%Z /\ parse_uint [48; 120; 49] 16 = None /\
  netip_prefix4_lpm_key [10; 255; 0; 0] 9 = Some [10; 128; 0; 9].
Proof. vm_compute. repeat split. Qed.
