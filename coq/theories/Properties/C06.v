(* Properties/C06.v — Watch channels: no missed change, no early or spurious-abort wake-up.
   Three layers, composed at the end of this file:
   (i)   DB/Model.v (all schedules): channels close only in the notify / init-close steps of a COMMITTING
         writer, after the root store (C06_close_after_store, C06_published_open, C06_wake_sees_newer,
         C06_abort_closes_nothing ...).
   (ii)  Table/WatchFootprint.v (the table model): every watch query through a part index has a FOOTPRINT, a
         set of index keys inside the coverage of the handle returned with the answer (tree.Get(key) /
         tree.Prefix(search key) / root channel). The answer is a function of the bindings of the footprint keys
         (C06_query_result_local_to_footprint); hence a write transaction that changes the answer inserts,
         removes or re-binds a footprint key in the queried index
         (C06_result_change_implies_footprint_key_change). LPM indexes: one index-wide channel, trivial version.
   (iii) Part/Footprint.v + Table/WatchCompose.v (the radix-tree model, on top of the C12 history theorems): if the
         maps denoted by the index's tree before and after a transaction differ at a key the handle covers, the
         handle's channel is in the set closed by the transaction's Notify (C06_changed_key_closes_handle); composed
         with (ii): a Commit that changes a query's result closes the channel returned with the earlier answer
         (C06_changed_result_closes_query_channel), also over any chain of committed transactions
         (C06_changed_result_closes_query_channel_history).
   (iv)  Table/LpmWatch.v (the LPM index's channel mechanism, lpm_index.go): one channel per committed index version; a
         write transaction one of whose writes gets past its guard turns the index entry into an lpmIndexTxn, whose commit
         allocates a fresh channel and whose notify closes the previous version's; no missed change over histories of
         committed and aborted transactions (C06_lpm_watch_no_missed_change), also for a query made inside the write
         transaction (C06_lpm_watch_inside_txn); an aborted transaction closes nothing (C06_lpm_abort_closes_nothing);
         only committed touching transactions close channels; published channels open, no double close.
   (v)   Part/TxnHandles.v + Table/WatchInsideTxn.v: handles taken INSIDE a write transaction on its own uncommitted tree.
         For every query that freezes the tree first (Clone / Txn.Prefix: list, prefix, lowerBound, all, get on a non-unique
         index) the channel handed out is closed by the transaction's own Notify if a later operation of the same
         transaction changes a covered key, otherwise it is closed or still the channel the committed tree returns, and
         the history theorem applies from there (C06_handle_inside_txn, C06_handle_inside_txn_history, composed with the
         table level: C06_changed_result_closes_inside_txn_channel). For Txn.Get without a bump (get on a unique index)
         the same holds iff the channel is not that of an inner node private to the transaction at hand-out
         (C06_get_handle_inside_txn); otherwise it is false: C06_get_handle_inside_txn_own_later_write_refuted (an
         observation outside the property's quantifier: handles on snapshots / committed trees, changes by LATER
         transactions; later transactions do close that channel: C06_get_handle_inside_txn_witness_later_closes).
   (vi)  DB/NotifyLink.v: the link between (i) and (iii) as a refinement: tv_watch = the root channel of the table's primary
         index; the Part-level Commit + Notify of the primary index's transaction maps, through the abstraction, to the
         DB-level write of the table (C06_table_commit_refines_db_write); in every reachable DB state the notify queue
         contains the old version's channel iff the table is in `writes` (C06_db_apply_writes_notify), is carried unchanged
         to the notify step and closed there (C06_db_notify_queue_carried_and_closed); together, under "t in writes <-> the
         primary index's part.Txn is dirty": C06_table_channel_is_primary_root_channel.
   Not covered: the general form of "a channel handed out by Txn.Get for an absent key below a txn-private node is closed by
   the next LATER transaction that changes the key" (shown for the witness only); the correspondence "t in writes <-> the
   primary index's part.Txn is dirty" is a hypothesis of (vi) (in Go a failed CompareAndSwap / CompareAndDelete inserts and
   reverts on the primary tree: dirty without a net change, a permitted extra wake-up). *)
From Coq Require Import Arith PeanoNat.
From SV Require Import DB.Model DB.Proofs.
Open Scope N_scope.

(* the only steps that close channels are the notify step (after the root store and root unlock) and
   the init-close step (after the tables are unlocked) of a COMMITTING writer *)
Theorem C06_close_only_after_store_partial : forall s i,
  s_closed (step s i) <> s_closed s ->
  exists a, nth_error (s_actors s) i = Some a /\ (a_pc a = PRootUnlocked \/ a_pc a = PTabsUnlocked).
Proof.
  intros s i H. unfold step in H. destruct (enabled s i); simpl in H; [|now elim H].
  destruct (nth_error (s_actors s) i) as [a|] eqn:Ha; [|now elim H].
  exists a. split; [reflexivity|].
  destruct (a_kind a) as [tabs writes commit reg dn|]; destruct (a_pc a) eqn:Hpc; auto;
    try (exfalso; apply H; reflexivity).
  - exfalso; apply H. destruct (nth_error (a_locks a) i0); reflexivity.
  - exfalso; apply H. destruct commit; destruct (apply_writes _ _ _ _ _ _) as [[es nt] nw]; reflexivity.
  - exfalso; apply H. destruct (merge_root _ _ _ _); reflexivity.
Qed.
Print Assumptions C06_close_only_after_store_partial.

Example C06_nonvacuous :
  let s := run (init_st 1 [(1, KWriter [0%nat] [0%nat] true [] [])]) (repeat 0%nat 10) in
  s_closed s = [] /\ map tv_ids (s_root s) = [[1]] /\ s_closed (step s 0%nat) = [0].
Proof. repeat split; reflexivity. Qed.

(* ==== all schedules (DB/Channels.v, DB/Watch.v, DB/Reach.v) ========================================
   `reach ntab actors sched = run (init_st ntab actors) sched` for ANY schedule of ANY well-formed system. *)
From SV Require Import DB.Invariants DB.Visibility DB.Channels DB.Watch DB.Reach.
Open Scope nat_scope.

(* PUBLISHED CHANNELS ARE OPEN: no closed channel is the watch channel, or the pending-initialization
   channel, of an entry of the current committed root (a fresh reader never gets a closed channel) *)
Theorem C06_published_open : forall ntab actors sched t v w, wf_system ntab actors ->
  let s := reach ntab actors sched in
  nth_error (s_root s) t = Some v -> In w (s_closed s) ->
  tv_watch v <> w /\ forall p, tv_init v <> Some (w, p).
Proof. exact published_open_reachable. Qed.
Print Assumptions C06_published_open.

(* the channels handed out by the committed root are pairwise distinct (chans v = watch + init watch) *)
Theorem C06_published_distinct : forall ntab actors sched t1 t2 v1 v2 w, wf_system ntab actors ->
  let s := reach ntab actors sched in
  nth_error (s_root s) t1 = Some v1 -> nth_error (s_root s) t2 = Some v2 ->
  In w (chans v1) -> In w (chans v2) -> t1 = t2.
Proof. exact published_distinct_reachable. Qed.
Print Assumptions C06_published_distinct.

(* CLOSE AFTER STORE: a step closes channels only if its actor is a committing writer that has already
   executed its root store (notify step: a_notify; init-close step: a_initclose); the step does not
   change the root, and none of the closed channels is handed out by the committed root any more *)
Theorem C06_close_after_store : forall ntab actors sched i, wf_system ntab actors ->
  let s := reach ntab actors sched in
  s_closed (step s i) = s_closed s \/
  exists a cl, nth_error (s_actors s) i = Some a /\ committed a = true /\
    s_closed (step s i) = cl ++ s_closed s /\ s_root (step s i) = s_root s /\
    ((a_pc a = PRootUnlocked /\ cl = a_notify a) \/ (a_pc a = PTabsUnlocked /\ cl = a_initclose a)) /\
    forall w, In w cl -> ~ rch (s_root s) w.
Proof. exact close_after_store_reachable. Qed.
Print Assumptions C06_close_after_store.

(* WAKE-UP SEES A NEWER VERSION: if the watch channel that the committed root handed out for table t after
   schedule s1 is closed after s1 ++ s2, then the committed entry of t after s1 ++ s2 contains every id the
   earlier one did and the id of at least one further committed transaction *)
Theorem C06_wake_sees_newer : forall ntab actors s1 s2 t v, wf_system ntab actors ->
  nth_error (s_root (reach ntab actors s1)) t = Some v ->
  In (tv_watch v) (s_closed (reach ntab actors (s1 ++ s2))) ->
  exists v', nth_error (s_root (reach ntab actors (s1 ++ s2))) t = Some v' /\ incl (tv_ids v) (tv_ids v') /\
             exists x, In x (tv_ids v') /\ ~ In x (tv_ids v).
Proof. exact wake_sees_newer_reachable. Qed.
Print Assumptions C06_wake_sees_newer.

(* NO SPURIOUS-ABORT WAKE-UP: no step of an aborting writer (or of a registrar) closes a channel or, for a
   writer, changes the root; its id is never visible *)
Theorem C06_abort_closes_nothing : forall ntab actors sched i a, wf_system ntab actors ->
  let s := reach ntab actors sched in
  nth_error (s_actors s) i = Some a -> commits a = false ->
  s_closed (step s i) = s_closed s /\
  (a_kind a <> KRegistrar -> s_root (step s i) = s_root s) /\
  (forall t v, nth_error (s_root s) t = Some v -> ~ In (a_id a) (tv_ids v)).
Proof. exact abort_no_trace_reachable. Qed.
Print Assumptions C06_abort_closes_nothing.

Example C06_nonvacuous_wake :
  let acts := [(1%N, KWriter [0] [0] true [] []); (2%N, KWriter [0; 1] [1] true [] [])] in
  wf_system 2 acts /\
  map tv_watch (s_root (reach 2 acts [])) = [0%N; 1%N] /\
  In 0%N (s_closed (reach 2 acts (repeat 0 11))) /\
  map tv_ids (s_root (reach 2 acts (repeat 0 11))) = [[1%N]; []].
Proof.
  split; [split|].
  - intros ik [<-|[<-|[]]]; cbn; repeat split; try (intros x Hx; cbn in Hx; intuition (subst; cbn; auto)).
  - cbn. repeat constructor; cbn; intuition discriminate.
  - vm_compute. repeat split; auto.
Qed.

(* ==== table level and radix-tree level (Table/WatchFootprint.v, Part/Footprint.v, Table/WatchCompose.v) =========
   From here on: Table/Model.v (tables, queries, write operations) and Part/Model.v (radix trees, channels). *)
From SV Require Import Base.Bytes Base.OrdMap KeyEnc.Model.
From SV Require Import Part.Model Part.Refine Part.Watch Part.Fresh Part.Footprint.
From SV Require Import Table.Model Table.Queries Table.WatchFootprint Table.WatchCompose.
Open Scope N_scope.

(* (3) LOCALITY. q: a watch query through a part index (Get / List / Prefix / LowerBound through the primary,
   revision, unique or non-unique index, or All); q_handle q = (the index it reads, the handle returned: the channel
   of tree.Get(key), of tree.Prefix(search key), or the root channel). Two tables whose queried index binds every
   key of the footprint fp q alike (same presence, same object including its revision) give the same answer; and the
   footprint lies inside the set of keys the handle covers. *)
Theorem C06_query_result_local_to_footprint : forall d d' tab tab' q ik h t t',
  q_handle q = Some (ik, h) ->
  om_sorted (index_of ik t) -> om_sorted (index_of ik t') ->
  (forall K, fp q K = true -> om_get K (index_of ik t) = om_get K (index_of ik t')) ->
  run_query d tab q t = run_query d' tab' q t'.
Proof. exact query_result_local. Qed.
Print Assumptions C06_query_result_local_to_footprint.

Theorem C06_footprint_inside_handle_coverage : forall q ik h K,
  q_handle q = Some (ik, h) -> fp q K = true -> h_covers h K = true.
Proof. exact fp_covered. Qed.
Print Assumptions C06_footprint_inside_handle_coverage.

(* the footprints by query kind: unique Get/List = the key; non-unique Get/List = the composite keys
   "escaped key, separator, ..." ; Prefix = the keys with prefix (escaped) q *)
Theorem C06_footprints : forall k key K idKey pk s,
  (is_unique k = true -> (fp (QGet k key) K = true <-> fp_get_unique idKey key K) /\
                         (fp (QList k key) K = true <-> fp_get_unique idKey key K)) /\
  (is_unique k = false -> len (enc pk) < 65536 ->
     (fp (QGet k key) (nuk pk s) = true <-> fp_nonunique key (nuk pk s)) /\
     (fp (QList k key) (nuk pk s) = true <-> fp_nonunique key (nuk pk s))) /\
  (fp (QPrefix k key) K = true -> fp_prefix (is_unique k) key K).
Proof.
  intros k key K idKey pk s. split; [|split].
  - intros U. exact (fp_get_unique_spec k key K idKey U).
  - intros U L. cbn [fp]. rewrite U. split; exact (fp_nonunique_spec key pk s L).
  - exact (fp_prefix_spec k key K).
Qed.
Print Assumptions C06_footprints.

(* LPM indexes return one index-wide channel: the footprint is the whole index *)
Theorem C06_lpm_query_result_local : forall d d' tab tab' q u t t', lq_index q = Some u ->
  lpm_idx u t = lpm_idx u t' -> run_query d tab q t = run_query d' tab' q t'.
Proof. exact lpm_query_result_local. Qed.
Print Assumptions C06_lpm_query_result_local.

(* (4) RESULT CHANGE => FOOTPRINT KEY CHANGE. t' = twrun t ws: the table after ANY sequence ws of write operations
   (Insert / Modify / CompareAndSwap / Delete / CompareAndDelete / DeleteAll; twrun is what Table/Model.v step does to
   the locked table of the open WriteTxn: C06_twrun_is_model_step). If the answer of q differs, a key K of q's
   footprint, covered by the returned handle, was inserted, removed or re-bound in the index q reads. *)
Theorem C06_result_change_implies_footprint_key_change : forall d d' tab tab' q ik h t ws,
  q_handle q = Some (ik, h) -> idx_sorted t ->
  run_query d tab q t <> run_query d' tab' q (twrun t ws) ->
  exists K, fp q K = true /\ h_covers h K = true /\
            binding_change (om_get K (index_of ik t)) (om_get K (index_of ik (twrun t ws))).
Proof. exact write_txn_result_change. Qed.
Print Assumptions C06_result_change_implies_footprint_key_change.

Theorem C06_twrun_is_model_step : forall ws d es old tab t,
  d_txn d = Some (es, old) -> nth_error es tab = Some (t, true) ->
  exists es', d_txn (fst (Table.Model.run d (map (twop tab) ws))) = Some (es', old) /\
              nth_error es' tab = Some (twrun t ws, true).
Proof. exact run_twrites. Qed.
Print Assumptions C06_twrun_is_model_step.

Theorem C06_lpm_result_change_implies_index_change : forall d d' tab tab' q u t ws, lq_index q = Some u ->
  run_query d tab q t <> run_query d' tab' q (twrun t ws) -> lpm_idx u t <> lpm_idx u (twrun t ws).
Proof. exact write_txn_lpm_result_change. Qed.
Print Assumptions C06_lpm_result_change_implies_index_change.

(* (5a) the radix tree. T: a committed tree (tree_inv: well-formed, ids and channel accounting as every Commit
   re-establishes them: C06_tree_invariant_kept); h: a handle taken on T; ops: all operations of the next transaction.
   If the map denoted by the committed tree differs from the map denoted by T at a key h covers, h's channel is in the
   set closed by the transaction's Notify. *)
Theorem C06_changed_key_closes_handle : forall t next ops h,
  tree_inv t next ->
  let xe := fold_left wstep ops (tree_txn t next) in
  (exists K, h_covers h K = true /\ om_get K (abs_tree (snd (txn_commit xe))) <> om_get K (abs_tree t)) ->
  In (h_chan t h) (snd (txn_notify xe)).
Proof. exact changed_key_closes_handle. Qed.
Print Assumptions C06_changed_key_closes_handle.

Theorem C06_tree_invariant_kept : forall ro next0 t next ops,
  (0 < next0 -> tree_inv (fst (tree_new ro next0)) (next0 + 1)) /\
  (tree_inv t next ->
   let xe := fold_left wstep ops (tree_txn t next) in
   tree_inv (snd (txn_commit xe)) (s_next (t_st (fst (txn_commit xe)))) /\
   abs_tree (snd (txn_commit xe)) = fold_left mstep ops (abs_tree t) /\
   next <= s_next (t_st (fst (txn_commit xe)))).
Proof. exact (fun ro next0 t next ops => conj (tree_inv_new ro next0) (commit_tree_inv t next ops)). Qed.
Print Assumptions C06_tree_invariant_kept.

(* (5) COMPOSED, one write transaction. A reader ran q on table t and holds the channel of handle h on the tree T of
   the index q reads (T represents that index: abs_tree T = cmap code index; code: the identity of the stored object,
   separating the objects bound to one key before and after, e.g. the injective obj_code, or o_rev). The next write
   transaction performs the writes ws; on that index its part.Txn performs ops and commits a tree representing the
   index of t' = twrun t ws (such ops exist: C06_write_txn_tree_ops). If q's answer on t' differs from the answer the
   reader got, the channel the reader holds is in the set closed by the Notify that write_txn.go Commit issues for
   that part.Txn (after tx.Commit()): closed no later than the return of the Commit that changes the result. *)
Theorem C06_changed_result_closes_query_channel : forall code d d' tab tab' q ik h t ws T next ops,
  q_handle q = Some (ik, h) -> idx_sorted t ->
  tree_inv T next -> abs_tree T = cmap code (index_of ik t) ->
  let xe := fold_left wstep ops (tree_txn T next) in
  abs_tree (snd (txn_commit xe)) = cmap code (index_of ik (twrun t ws)) ->
  code_separates code (index_of ik t) (index_of ik (twrun t ws)) ->
  run_query d tab q t <> run_query d' tab' q (twrun t ws) ->
  In (h_chan T h) (snd (txn_notify (fst (txn_commit xe)))).
Proof. exact changed_result_closes_query_channel. Qed.
Print Assumptions C06_changed_result_closes_query_channel.

Theorem C06_injective_code : (forall a b, obj_code a = obj_code b -> a = b) /\
  (forall m m', code_separates obj_code m m').
Proof. exact (conj obj_code_inj obj_code_separates). Qed.
Print Assumptions C06_injective_code.

Theorem C06_write_txn_tree_ops : forall code t ws ik, exists ops, forall T next,
  tree_ok T -> abs_tree T = cmap code (index_of ik t) ->
  abs_tree (snd (txn_commit (fold_left wstep ops (tree_txn T next)))) = cmap code (index_of ik (twrun t ws)).
Proof. exact write_txn_tree_ops. Qed.
Print Assumptions C06_write_txn_tree_ops.

(* (5) over HISTORIES: t, t' any two tables with sorted indexes (the table the reader queried, the table any number of
   committed write transactions later); txns: the chain of part.Txns committed on the index's tree in between (each
   begun on the tree committed by the previous one, after `gap` channel allocations elsewhere). If q's answer differs
   between t and t', the Notify of one of these transactions closed the channel the reader holds: NO MISSED CHANGE. *)
Theorem C06_changed_result_closes_query_channel_history : forall code d d' tab tab' q ik h t t' T next txns,
  q_handle q = Some (ik, h) -> om_sorted (index_of ik t) -> om_sorted (index_of ik t') ->
  tree_inv T next -> abs_tree T = cmap code (index_of ik t) ->
  abs_tree (fst (chain_end T next txns)) = cmap code (index_of ik t') ->
  code_separates code (index_of ik t) (index_of ik t') ->
  run_query d tab q t <> run_query d' tab' q t' ->
  exists cl, In cl (chain_closed T next txns) /\ In (h_chan T h) cl.
Proof. exact changed_result_closes_query_channel_chain. Qed.
Print Assumptions C06_changed_result_closes_query_channel_history.

(* a handle that a transaction does not close is still the handle the tree it commits returns for the same query *)
Theorem C06_handle_closed_or_kept : forall t next ops h,
  tree_inv t next ->
  let xe := fold_left wstep ops (tree_txn t next) in
  In (h_chan t h) (snd (txn_notify xe)) \/ h_chan (snd (txn_commit xe)) h = h_chan t h.
Proof. exact handle_closed_or_kept. Qed.
Print Assumptions C06_handle_closed_or_kept.

(* NON-VACUITY: a table with a non-unique index, objects a (key "x") and b (key "y"). A reader lists "y": [b], and
   holds the channel of Prefix(escaped "y") on the index's tree (channel 4). The next write transaction updates a so
   that it gains the key "y": a NEWLY QUALIFIES for the List query. The footprint key nuk "a" "y" is new in the index
   (absent before, bound after), the answer changes to [a; b], all hypotheses of
   C06_changed_result_closes_query_channel hold, and channel 4 is in the set closed by the commit. *)
Example C06_nonvacuous_newly_qualifies :
  q_handle ex_q = Some (INn, HPrefix (enc [121])) /\
  idx_sorted ex_t /\ tree_inv ex_T 10 /\
  abs_tree ex_T = cmap o_rev (index_of INn ex_t) /\
  abs_tree (snd (txn_commit (fold_left wstep ex_ops (tree_txn ex_T 10)))) = cmap o_rev (index_of INn (twrun ex_t ex_ws)) /\
  code_separates o_rev (index_of INn ex_t) (index_of INn (twrun ex_t ex_ws)) /\
  q_list INn [121] ex_t = [mkO ex_b 2] /\
  q_list INn [121] (twrun ex_t ex_ws) = [mkO ex_a2 3; mkO ex_b 2] /\
  fp ex_q (nuk [97] [121]) = true /\
  om_get (nuk [97] [121]) (index_of INn ex_t) = None /\
  om_get (nuk [97] [121]) (index_of INn (twrun ex_t ex_ws)) = Some (mkO ex_a2 3) /\
  h_chan ex_T (HPrefix (enc [121])) = 4 /\
  In 4 (snd (txn_notify (fst (txn_commit (fold_left wstep ex_ops (tree_txn ex_T 10)))))).
Proof. exact compose_nonvacuous. Qed.

(* and the conclusion obtained FROM the theorem for this instance *)
Example C06_nonvacuous_by_theorem :
  In (h_chan ex_T (HPrefix (enc [121])))
     (snd (txn_notify (fst (txn_commit (fold_left wstep ex_ops (tree_txn ex_T 10)))))).
Proof.
  destruct compose_nonvacuous as (Hq & S & HI & Ea & Ea' & Hs & L1 & L2 & _).
  apply (C06_changed_result_closes_query_channel o_rev (init_db 1) (init_db 1) 0%nat 0%nat ex_q INn _ ex_t ex_ws ex_T 10 ex_ops
           Hq S HI Ea Ea' Hs).
  cbn [run_query ex_q]. rewrite L1, L2. discriminate.
Qed.

(* ==== LPM indexes: the index-wide channel (Table/LpmWatch.v; lpm_index.go) =====================================
   lver: a committed table entry with the `watch` channels of its two LPM indexes; a history txs of write
   transactions (writes, then Commit = true / Abort = false); lrun: the committed version after the history;
   lclosed: per transaction, the channels closed by the notify() calls of its Commit. An index entry becomes an
   lpmIndexTxn (whose commit allocates a fresh channel for the new version and whose notify closes the previous
   version's channel) as soon as one write operation of the transaction gets past its guard (tw_touches). *)
From SV Require Import Table.LpmWatch.

(* (2) NO MISSED CHANGE: if the answer of an LPM query differs between two committed versions, the channel handed
   out with the older version was closed by the notify of one of the transactions in between *)
Theorem C06_lpm_watch_no_missed_change : forall d d' tab tab' q u, lq_index q = Some u ->
  forall txs v next,
  run_query d tab q (lv_tab v) <> run_query d' tab' q (lv_tab (fst (lrun (v, next) txs))) ->
  exists cl, In cl (lclosed (v, next) txs) /\ In (lv_chan u v) cl.
Proof. exact lpm_watch_no_missed_change. Qed.
Print Assumptions C06_lpm_watch_no_missed_change.

(* the same for a query made INSIDE a write transaction (after the writes ws1): it returns the channel of the
   committed version; if later writes ws2 of the same transaction change the answer, its Commit closes the channel *)
Theorem C06_lpm_watch_inside_txn : forall d d' tab tab' q u v next ws1 ws2, lq_index q = Some u ->
  let x1 := lx_writes (lx_begin v) ws1 in
  let x2 := lx_writes x1 ws2 in
  run_query d tab q (lx_cur x1) <> run_query d' tab' q (lx_cur x2) ->
  In (lx_watch u x1) (snd (lx_commit next x2)) /\
  lv_tab (fst (fst (lx_commit next x2))) = lx_cur x2.
Proof. exact lpm_watch_inside_txn. Qed.
Print Assumptions C06_lpm_watch_inside_txn.

(* NO SPURIOUS-ABORT WAKE-UP: an aborted transaction closes nothing; version, channels and allocator stay *)
Theorem C06_lpm_abort_closes_nothing : forall v next ws,
  lstep (v, next) (ws, false) = (v, next, []).
Proof. exact lpm_abort_closes_nothing. Qed.
Print Assumptions C06_lpm_abort_closes_nothing.

(* a channel is closed only by a COMMITTED transaction one of whose writes got past its guard, and it is a channel
   of the version that transaction started from *)
Theorem C06_lpm_closed_only_by_touching_commit : forall txs v next w,
  In w (concat (lclosed (v, next) txs)) ->
  exists pre ws post, txs = pre ++ (ws, true) :: post /\
    let vn := lrun (v, next) pre in
    lx_touched (lx_writes (lx_begin (fst vn)) ws) = true /\ (w = lv_wu (fst vn) \/ w = lv_wn (fst vn)).
Proof. exact lpm_closed_only_by_touching_commit. Qed.
Print Assumptions C06_lpm_closed_only_by_touching_commit.

(* the channels of the current committed version are open; no channel is closed twice *)
Theorem C06_lpm_published_open_nodup : forall txs v next,
  lv_wu v < next -> lv_wn v < next -> lv_wu v <> lv_wn v ->
  (forall u w, In w (concat (lclosed (v, next) txs)) -> w <> lv_chan u (fst (lrun (v, next) txs))) /\
  NoDup (concat (lclosed (v, next) txs)).
Proof.
  intros txs v next W1 W2 W3. split.
  - intros u w. now apply lpm_published_open.
  - now apply lpm_closed_nodup.
Qed.
Print Assumptions C06_lpm_published_open_nodup.

(* NON-VACUITY: version lx_v0 (object a under LPM key 10.0/16, channels 1 and 2), query List(10.0/16) on the
   non-unique LPM index; history: aborted insert of b; committed failed CompareAndSwap; committed insert of b (same
   LPM key); committed delete of an absent object. The answer changes from [a] to [a; b]; only the third transaction
   closes channels: 1 and 2, the reader's channel is 2; the new version hands out channel 4. *)
Example C06_lpm_nonvacuous :
  lq_index lx_q = Some false /\
  run_query (init_db 1) 0 lx_q (lv_tab lx_v0) = OutObjs [mkO lx_a 1] /\
  run_query (init_db 1) 0 lx_q (lv_tab (fst (lrun (lx_v0, 3) lx_hist))) = OutObjs [mkO lx_a 1; mkO lx_b 2] /\
  lclosed (lx_v0, 3) lx_hist = [[]; []; [1; 2]; []] /\
  lv_chan false lx_v0 = 2 /\
  lv_chan false (fst (lrun (lx_v0, 3) lx_hist)) = 4 /\ snd (lrun (lx_v0, 3) lx_hist) = 5.
Proof. exact lpm_watch_nonvacuous. Qed.

Example C06_lpm_nonvacuous_by_theorem :
  exists cl, In cl (lclosed (lx_v0, 3) lx_hist) /\ In (lv_chan false lx_v0) cl.
Proof.
  destruct lpm_watch_nonvacuous as (Hq & L1 & L2 & _).
  apply (C06_lpm_watch_no_missed_change (init_db 1) (init_db 1) 0%nat 0%nat lx_q false Hq).
  rewrite L1, L2. discriminate.
Qed.

Example C06_lpm_abort_nonvacuous :
  lx_touched (lx_writes (lx_begin lx_v0) [TWInsert lx_b]) = true /\
  lstep (lx_v0, 3) ([TWInsert lx_b], false) = (lx_v0, 3, []) /\
  snd (lstep (lx_v0, 3) ([TWInsert lx_b], true)) = [1; 2].
Proof. vm_compute. repeat split; reflexivity. Qed.

Example C06_lpm_inside_nonvacuous :
  let x1 := lx_writes (lx_begin lx_v0) [TWDelete [120]] in
  let x2 := lx_writes x1 [TWInsert lx_b] in
  lx_touched x1 = false /\ lx_watch false x1 = 2 /\
  run_query (init_db 1) 0 lx_q (lx_cur x1) <> run_query (init_db 1) 0 lx_q (lx_cur x2) /\
  snd (lx_commit 3 x2) = [1; 2].
Proof. exact lpm_watch_inside_nonvacuous. Qed.

(* ==== handles taken INSIDE a write transaction (Part/TxnHandles.v, Table/WatchInsideTxn.v) =======================
   part_index.go on a partIndexTxn: list / prefix / lowerBound / all take `snapshot := tx.Clone()` (txnID++) and run the
   Tree operation on the snapshot; get on a non-unique index calls tx.Prefix (txnID++): txn_query_clone. get on a unique
   index calls tx.Get (NO txnID bump): txn_query_get. t: the committed tree the part.Txn began on; ops1: its operations
   before the query; ops2: its operations after the query; then Commit, Notify. *)
From SV Require Import Part.TxnHandles Table.WatchInsideTxn.

(* (1) a channel handed out inside the transaction by a query that freezes the tree is closed by the transaction's own
   Notify if a LATER operation of the same transaction changes a covered key (the committed tree differs from the tree
   at query time at that key); otherwise it is closed or it is still the channel the committed tree returns for the
   handle, and the committed tree satisfies tree_inv: C06_changed_result_closes_query_channel_history applies from there *)
Theorem C06_handle_inside_txn : forall t next ops1 ops2 h,
  tree_inv t next ->
  let x := fold_left wstep ops1 (tree_txn t next) in
  let a := snd (txn_query_clone x h) in
  let xe := fold_left wstep ops2 (fst (txn_query_clone x h)) in
  a <> 0 /\
  ((exists K, h_covers h K = true /\ om_get K (abs_tree (snd (txn_commit xe))) <> om_get K (abs_txn x)) ->
   In a (snd (txn_notify xe))) /\
  (In a (snd (txn_notify xe)) \/ h_chan (snd (txn_commit xe)) h = a) /\
  tree_inv (snd (txn_commit xe)) (s_next (t_st (fst (txn_commit xe)))).
Proof. exact handle_inside_txn. Qed.
Print Assumptions C06_handle_inside_txn.

(* ... over the transaction's own rest and any chain of later transactions *)
Theorem C06_handle_inside_txn_history : forall t next ops1 ops2 h txns,
  tree_inv t next ->
  let x := fold_left wstep ops1 (tree_txn t next) in
  let a := snd (txn_query_clone x h) in
  let xe := fold_left wstep ops2 (fst (txn_query_clone x h)) in
  let T' := snd (txn_commit xe) in
  let next' := s_next (t_st (fst (txn_commit xe))) in
  (exists K, h_covers h K = true /\ om_get K (abs_tree (fst (chain_end T' next' txns))) <> om_get K (abs_txn x)) ->
  In a (snd (txn_notify xe)) \/ exists cl, In cl (chain_closed T' next' txns) /\ In a cl.
Proof. exact handle_inside_txn_history. Qed.
Print Assumptions C06_handle_inside_txn_history.

(* Txn.Get without a bump: the same, PROVIDED the channel handed out is not the channel of an inner node private to
   the transaction at hand-out (root_priv_ne); this holds e.g. when the channel is older than the transaction *)
Theorem C06_get_handle_inside_txn : forall t next ops1 ops2 k,
  tree_inv t next ->
  let x := fold_left wstep ops1 (tree_txn t next) in
  let a := snd (txn_query_get x k) in
  let xe := fold_left wstep ops2 (fst (txn_query_get x k)) in
  (a < next -> root_priv_ne x a) /\
  (root_priv_ne x a ->
   a <> 0 /\
   ((om_get k (abs_tree (snd (txn_commit xe))) <> om_get k (abs_txn x)) -> In a (snd (txn_notify xe))) /\
   (In a (snd (txn_notify xe)) \/ snd (tree_get (snd (txn_commit xe)) k) = a) /\
   tree_inv (snd (txn_commit xe)) (s_next (t_st (fst (txn_commit xe))))).
Proof.
  intros t next ops1 ops2 k HI. cbv zeta. split.
  - exact (get_inside_txn_old_channel t next ops1 k HI).
  - exact (get_inside_txn t next ops1 ops2 k HI).
Qed.
Print Assumptions C06_get_handle_inside_txn.

(* WITHOUT the proviso the statement is false. Witness: New; Txn; Insert [1;2]; Insert [1;3] (creates the node4 with prefix
   [1]: private to the txn, fresh channel 4); Get [1;4]: not found, channel 4; Insert [1;4] mutates the node in place
   (cloneNode returns n when n.txnID == txn.txnID; its channel is not recorded); Commit; Notify closes only the old
   root channel; Get [1;4] on the committed tree returns another channel. Reproduced on the Go code (part.Txn and
   Table.GetWatch on a WriteTxn with a unique index). OUTSIDE the quantifier of C06/C12, which speak of handles taken on
   snapshots / committed trees and of changes by LATER transactions: see the next theorem. *)
Theorem C06_get_handle_inside_txn_own_later_write_refuted :
  exists t next ops1 ops2 k, tree_inv t next /\
    let x := fold_left wstep ops1 (tree_txn t next) in
    let a := snd (txn_query_get x k) in
    let xe := fold_left wstep ops2 (fst (txn_query_get x k)) in
    a <> 0 /\ fst (txn_get x k) = None /\
    om_get k (abs_tree (snd (txn_commit xe))) <> om_get k (abs_txn x) /\
    ~ In a (snd (txn_notify xe)) /\ snd (tree_get (snd (txn_commit xe)) k) <> a /\
    ~ root_priv_ne x a.
Proof. exact get_inside_txn_refuted. Qed.
Print Assumptions C06_get_handle_inside_txn_own_later_write_refuted.

(* LATER transactions do close the witness's channel: the private node stays in the committed tree on the search path of
   the key, its channel is the channel Prefix([1]) returns there ([1] a prefix of the key), so every later transaction,
   and every chain of later transactions, that changes the binding of the key closes it *)
Theorem C06_get_handle_inside_txn_witness_later_closes :
  let a := snd (txn_query_get rf_x rf_k) in
  let next' := s_next (t_st (fst (txn_commit rf_xe))) in
  a = 4 /\ tree_inv rf_T' next' /\ h_chan rf_T' (HPrefix [1]) = a /\ h_covers (HPrefix [1]) rf_k = true /\
  (forall gap ops, let xe2 := fold_left wstep ops (tree_txn rf_T' (next' + gap)) in
     om_get rf_k (abs_tree (snd (txn_commit xe2))) <> om_get rf_k (abs_tree rf_T') -> In a (snd (txn_notify xe2))) /\
  (forall txns, om_get rf_k (abs_tree (fst (chain_end rf_T' next' txns))) <> om_get rf_k (abs_tree rf_T') ->
     exists cl, In cl (chain_closed rf_T' next' txns) /\ In a cl).
Proof. exact get_inside_txn_witness_later_closes. Qed.
Print Assumptions C06_get_handle_inside_txn_witness_later_closes.

(* COMPOSED with the table level: q a watch query made inside the write transaction on the table state t1; t2 the table
   the transaction commits; x the state of the queried index's part.Txn at query time (representing the index of t1).
   q_freezes: every query except Get through a unique index. If q's answer on t2 differs from the answer returned, the
   channel handed out is closed by the Notify of the transaction's Commit. *)
Theorem C06_changed_result_closes_inside_txn_channel : forall code d d' tab tab' q ik h t1 t2 T next ops1 ops2,
  q_handle q = Some (ik, h) -> om_sorted (index_of ik t1) -> om_sorted (index_of ik t2) ->
  tree_inv T next ->
  let x := fold_left wstep ops1 (tree_txn T next) in
  abs_txn x = cmap code (index_of ik t1) ->
  let a := snd (txn_query x q h) in
  let xe := fold_left wstep ops2 (fst (txn_query x q h)) in
  (q_freezes q = true \/ root_priv_ne x a) ->
  abs_tree (snd (txn_commit xe)) = cmap code (index_of ik t2) ->
  code_separates code (index_of ik t1) (index_of ik t2) ->
  run_query d tab q t1 <> run_query d' tab' q t2 ->
  a <> 0 /\ In a (snd (txn_notify (fst (txn_commit xe)))).
Proof. exact changed_result_closes_inside_txn_channel. Qed.
Print Assumptions C06_changed_result_closes_inside_txn_channel.

(* NON-VACUITY: the witness's transaction with the Get made through a freezing query: channel 4 is closed *)
Example C06_handle_inside_txn_nonvacuous :
  let x := fold_left wstep rf_ops1 (tree_txn rf_t 2) in
  let a := snd (txn_query_clone x (HGet rf_k)) in
  let xe := fold_left wstep rf_ops2 (fst (txn_query_clone x (HGet rf_k))) in
  tree_inv rf_t 2 /\ a = 4 /\ h_covers (HGet rf_k) rf_k = true /\
  om_get rf_k (abs_tree (snd (txn_commit xe))) <> om_get rf_k (abs_txn x) /\
  snd (txn_notify xe) = [4; 1].
Proof. exact handle_inside_txn_nonvacuous. Qed.

(* a Get inside the transaction returning a channel older than the transaction (4 < 10), then Insert of the key *)
Example C06_get_handle_inside_txn_nonvacuous :
  let ops0 := [WIns [1;2] 10; WIns [1;3] 11; WIns [2;1] 5] in
  let t1 := snd (txn_commit (fold_left wstep ops0 (tree_txn rf_t 2))) in
  let x := fold_left wstep [WIns [2;2] 7] (tree_txn t1 10) in
  tree_inv t1 10 /\ snd (txn_get x [1;4]) = 4 /\ 4 < 10 /\ root_priv_ne x 4 /\
  In 4 (snd (txn_notify (fold_left wstep [WIns [1;4] 12] x))).
Proof. exact get_inside_txn_nonvacuous. Qed.

(* a later transaction deleting the witness's key closes the witness's channel *)
Example C06_witness_later_nonvacuous :
  let next' := s_next (t_st (fst (txn_commit rf_xe))) in
  let xe2 := fold_left wstep [WDel [1;4]] (tree_txn rf_T' (next' + 0)) in
  om_get rf_k (abs_tree (snd (txn_commit xe2))) <> om_get rf_k (abs_tree rf_T') /\ In 4 (snd (txn_notify xe2)).
Proof. exact get_inside_txn_witness_later_nonvacuous. Qed.

(* table level: List("y") inside the write transaction, then the update that makes object a qualify, then Commit *)
Example C06_inside_txn_table_nonvacuous :
  let x := fold_left wstep [] (tree_txn ex_T 10) in
  q_handle ex_q = Some (INn, HPrefix (enc [121])) /\ q_freezes ex_q = true /\
  tree_inv ex_T 10 /\ abs_txn x = cmap o_rev (index_of INn ex_t) /\
  abs_tree (snd (txn_commit (fold_left wstep ex_ops (fst (txn_query x ex_q (HPrefix (enc [121]))))))) =
    cmap o_rev (index_of INn (twrun ex_t ex_ws)) /\
  run_query (init_db 1) 0 ex_q ex_t <> run_query (init_db 1) 0 ex_q (twrun ex_t ex_ws) /\
  snd (txn_query x ex_q (HPrefix (enc [121]))) = 4 /\
  In 4 (snd (txn_notify (fst (txn_commit (fold_left wstep ex_ops (fst (txn_query x ex_q (HPrefix (enc [121]))))))))).
Proof. exact inside_txn_nonvacuous. Qed.

(* ==== the link between DB/Model.v's notify step and Part/Model.v's Txn.Notify (DB/NotifyLink.v) ====================
   tv_watch of DB/Model.v is the table-wide channel: Table.AllWatch -> the primary index's all() -> tree.RootWatch()
   (the channel the sched engine's `watch <tab>` keeps). ABSTRACTION: table_chan T = tr_rw T for the tree T of the table's
   primary index; Rtab v T: tv_watch v = table_chan T; abs_notify T cls: the DB-level image of the per-index closed sets
   cls of a committing table transaction (the table-wide channel if some set contains it, else nothing);
   db_table_step id wrote nw v: what apply_writes (F1) does to the entry of ONE table (`wrote` = the table is in
   `writes`: new version with channel nw, old channel queued on a_notify). *)
From SV Require Import DB.NotifyLink.

(* PART SIDE, a refinement: the Commit + Notify of the primary index's part.Txn (ops; others = the closed sets of the other
   index transactions, which contain no channel of T) is, through the abstraction, the DB-level write with
   wrote := "the part.Txn is dirty" (some operation inserted, replaced or deleted-while-present a key) and the committed
   tree's root channel as the new version's channel: same closed set, Rtab again, fresh channel iff wrote *)
Theorem C06_table_commit_refines_db_write : forall v T next ops others id,
  tree_inv T next -> Rtab v T ->
  (forall cl, In cl others -> ~ In (table_chan T) cl) ->
  let xe := fold_left wstep ops (tree_txn T next) in
  let T' := snd (txn_commit xe) in
  let cls := snd (txn_notify (fst (txn_commit xe))) :: others in
  let wrote := any_change (abs_tree T) ops in
  let r := db_table_step id wrote (table_chan T') v in
  t_dirty xe = wrote /\
  (In (table_chan T) (snd (txn_notify (fst (txn_commit xe)))) <-> wrote = true) /\
  abs_notify T cls = snd (fst r) /\
  Rtab (fst (fst r)) T' /\
  (wrote = true -> next <= table_chan T' /\ table_chan T' <> table_chan T /\
                   ~ In (table_chan T') (snd (txn_notify (fst (txn_commit xe))))) /\
  (wrote = false -> table_chan T' = table_chan T) /\
  tree_inv T' (s_next (t_st (fst (txn_commit xe)))).
Proof. exact table_commit_refines_db_write. Qed.
Print Assumptions C06_table_commit_refines_db_write.

(* DB SIDE, every reachable state (Good: the invariants of DB/Watch.v, C06_db_good_reachable): the apply_writes step of a
   committing writer queues the channel of the CURRENT root version of a locked table t iff t is in `writes`; t's new
   version gets a channel allocated by this step iff t is in `writes`, and keeps the old one otherwise *)
Theorem C06_db_apply_writes_notify : forall ntab s i a tabs wr rg dn,
  Good ntab s -> nth_error (s_actors s) i = Some a ->
  a_kind a = KWriter tabs wr true rg dn -> a_pc a = PRootLoaded ->
  exists a', nth_error (s_actors (DB.Model.step s i)) i = Some a' /\ a_pc a' = PCommitIdx /\
    a_kind a' = a_kind a /\ a_locks a' = a_locks a /\
    s_root (DB.Model.step s i) = s_root s /\ s_closed (DB.Model.step s i) = s_closed s /\
    forall t v, In t (a_locks a) -> nth_error (s_root s) t = Some v ->
      (In (tv_watch v) (a_notify a') <-> In t wr) /\
      exists e, nth_error (a_entries a') t = Some e /\
        (In t wr -> (s_nextw s <= tv_watch e)%N /\ (tv_watch e < s_nextw (DB.Model.step s i))%N) /\
        (~ In t wr -> tv_watch e = tv_watch v).
Proof. exact db_apply_writes_notify. Qed.
Print Assumptions C06_db_apply_writes_notify.

Theorem C06_db_good_reachable : forall ntab actors sched, wf_system ntab actors -> Good ntab (reach ntab actors sched).
Proof. exact Good_reachable. Qed.
Print Assumptions C06_db_good_reachable.

(* the queue is carried unchanged to the notify micro-step (own steps root lock / root load / root store / root unlock; steps of other
   actors do not touch the actor), which closes exactly it *)
Theorem C06_db_notify_queue_carried_and_closed : forall s i a tabs wr c rg dn,
  nth_error (s_actors s) i = Some a -> a_kind a = KWriter tabs wr c rg dn ->
  (a_pc a = PCommitIdx \/ a_pc a = PRootLocked \/ a_pc a = PCommitLoaded \/ a_pc a = PRootStored ->
   exists a', nth_error (s_actors (DB.Model.step s i)) i = Some a' /\ a_notify a' = a_notify a /\ a_kind a' = a_kind a /\
              s_closed (DB.Model.step s i) = s_closed s) /\
  (forall j, i <> j -> nth_error (s_actors (DB.Model.step s j)) i = nth_error (s_actors s) i) /\
  (a_pc a = PRootUnlocked ->
   s_closed (DB.Model.step s i) = a_notify a ++ s_closed s /\ s_root (DB.Model.step s i) = s_root s).
Proof.
  intros s i a tabs wr c rg dn Ha Hk. split; [|split].
  - exact (a_notify_carried s i a tabs wr c rg dn Ha Hk).
  - intros j Hne. exact (other_step_keeps_actor s i j Hne).
  - exact (notify_step_closes s i a tabs wr c rg dn Ha Hk).
Qed.
Print Assumptions C06_db_notify_queue_carried_and_closed.

(* (3) BOTH SIDES. A reachable DB state; a: a committing writer about to apply its writes; t: a table it has locked; v: t's
   version in the current root, represented by the committed tree T of t's primary index (Rtab v T); ops: the operations of
   the transaction's part.Txn on T. Under the correspondence "t in writes <-> the part.Txn is dirty": the DB-level notify
   queue contains tv_watch v IFF the Part-level Notify closes T's root channel IFF t is in `writes`; t's new DB-level
   version has a fresh channel iff the committed tree has a fresh root channel, and both keep the old channel otherwise. *)
Theorem C06_table_channel_is_primary_root_channel : forall ntab s i a tabs wr rg dn t v T next ops,
  Good ntab s -> nth_error (s_actors s) i = Some a ->
  a_kind a = KWriter tabs wr true rg dn -> a_pc a = PRootLoaded ->
  In t (a_locks a) -> nth_error (s_root s) t = Some v ->
  tree_inv T next -> Rtab v T ->
  (In t wr <-> any_change (abs_tree T) ops = true) ->
  let xe := fold_left wstep ops (tree_txn T next) in
  let T' := snd (txn_commit xe) in
  exists a' e, nth_error (s_actors (DB.Model.step s i)) i = Some a' /\ a_pc a' = PCommitIdx /\
    nth_error (a_entries a') t = Some e /\
    (In (tv_watch v) (a_notify a') <-> In (table_chan T) (snd (txn_notify (fst (txn_commit xe))))) /\
    (In (tv_watch v) (a_notify a') <-> In t wr) /\
    (In t wr -> (s_nextw s <= tv_watch e)%N /\ tv_watch e <> tv_watch v /\
                next <= table_chan T' /\ table_chan T' <> table_chan T) /\
    (~ In t wr -> tv_watch e = tv_watch v /\ table_chan T' = table_chan T /\ Rtab e T').
Proof. exact table_channel_is_primary_root_channel. Qed.
Print Assumptions C06_table_channel_is_primary_root_channel.

(* NON-VACUITY: two tables (channels 0, 1); a writer locking both and writing table 1 only, at PRootLoaded after 7 steps;
   table 1's primary index: the empty tree with root channel 1; its part.Txn inserts one key. The DB-level queue is [1],
   the new versions' channels are [0; 2] (table 0 keeps its channel); the Part-level Notify closes [1]; the committed tree's
   root channel is the fresh channel 3. *)
Example C06_notify_link_nonvacuous :
  exists a, Good 2 nl_s /\ nth_error (s_actors nl_s) 0 = Some a /\
    a_kind a = KWriter [0%nat; 1%nat] [1%nat] true [] [] /\ a_pc a = PRootLoaded /\
    In 1%nat (a_locks a) /\ nth_error (s_root nl_s) 1 = Some (mkV [] 1 None) /\
    tree_inv nl_T 2 /\ Rtab (mkV [] 1 None) nl_T /\
    (In 1%nat [1%nat] <-> any_change (abs_tree nl_T) [WIns [1] 10] = true) /\
    (exists a', nth_error (s_actors (DB.Model.step nl_s 0)) 0 = Some a' /\ a_notify a' = [1] /\
                map tv_watch (a_entries a') = [0; 2]) /\
    snd (txn_notify (fst (txn_commit (fold_left wstep [WIns [1] 10] (tree_txn nl_T 2))))) = [1] /\
    table_chan (snd (txn_commit (fold_left wstep [WIns [1] 10] (tree_txn nl_T 2)))) = 3.
Proof. exact notify_link_nonvacuous. Qed.

(* and the conclusion obtained FROM the theorem for this instance *)
Example C06_notify_link_by_theorem :
  exists a' e, nth_error (s_actors (DB.Model.step nl_s 0)) 0 = Some a' /\
    nth_error (a_entries a') 1 = Some e /\ In 1 (a_notify a') /\ tv_watch e <> 1.
Proof.
  destruct notify_link_nonvacuous as (a & HG & Ha & Hk & Hpc & Hl & Hv & HI & HR & Hc & _).
  destruct (C06_table_channel_is_primary_root_channel 2 nl_s 0%nat a _ _ _ _ 1%nat _ nl_T 2 [WIns [1] 10]
              HG Ha Hk Hpc Hl Hv HI HR Hc) as (a' & e & Ha' & _ & He & _ & Hq & Hw & _).
  exists a', e. split; [exact Ha'|]. split; [exact He|]. split.
  - apply Hq. now left.
  - destruct (Hw (or_introl eq_refl)) as (_ & Hne & _). exact Hne.
Qed.
