(* Properties/C06.v — Watch channels: no missed change, no early or spurious-abort wake-up.
   First layer (DB/Model.v): channels close only in the notify / init-close steps of a committing
   actor. The invariants (closed => a newer version is published; published channels are open) are
   in DB/Invariants.v (in progress). *)
From Coq Require Import Arith PeanoNat.
From SV Require Import DB.Model DB.Proofs.
Open Scope N_scope.

(* the only steps that close channels are the notify step (after the root store and root unlock) and
   the init-close step (after the tables are unlocked) of a COMMITTING writer *)
Theorem C06_close_only_after_store_partial : forall s i,
  s_closed (step s i) <> s_closed s ->
  exists a, nth_error (s_actors s) i = Some a /\ (a_pc a = PRootUnlocked \/ a_pc a = PTabsUnlocked).
Proof.
  intros s i H. unfold step in H. destruct (enabled s i); simpl in H; [|now elim H].
  destruct (nth_error (s_actors s) i) as [a|] eqn:Ha; [|now elim H].
  exists a. split; [reflexivity|].
  destruct (a_kind a) as [tabs writes commit reg dn|]; destruct (a_pc a) eqn:Hpc; auto;
    try (exfalso; apply H; reflexivity).
  - exfalso; apply H. destruct (nth_error (a_locks a) i0); reflexivity.
  - exfalso; apply H. destruct commit; destruct (apply_writes _ _ _ _ _ _) as [[es nt] nw]; reflexivity.
  - exfalso; apply H. destruct (merge_root _ _ _ _); reflexivity.
Qed.
Print Assumptions C06_close_only_after_store_partial.

Example C06_nonvacuous :
  let s := run (init_st 1 [(1, KWriter [0%nat] [0%nat] true [] [])]) (repeat 0%nat 9) in
  s_closed s = [] /\ map tv_ids (s_root s) = [[1]] /\ s_closed (step s 0%nat) = [0].
Proof. repeat split; reflexivity. Qed.
