(* Properties/C06.v — Watch channels: no missed change, no early or spurious-abort wake-up.
   First layer (DB/Model.v): channels close only in the notify / init-close steps of a committing
   actor. The invariants (closed => a newer version is published; published channels are open) are
   in DB/Invariants.v (in progress). *)
From Coq Require Import Arith PeanoNat.
From SV Require Import DB.Model DB.Proofs.
Open Scope N_scope.

(* the only steps that close channels are the notify step (after the root store and root unlock) and
   the init-close step (after the tables are unlocked) of a COMMITTING writer *)
Theorem C06_close_only_after_store_partial : forall s i,
  s_closed (step s i) <> s_closed s ->
  exists a, nth_error (s_actors s) i = Some a /\ (a_pc a = PRootUnlocked \/ a_pc a = PTabsUnlocked).
Proof.
  intros s i H. unfold step in H. destruct (enabled s i); simpl in H; [|now elim H].
  destruct (nth_error (s_actors s) i) as [a|] eqn:Ha; [|now elim H].
  exists a. split; [reflexivity|].
  destruct (a_kind a) as [tabs writes commit reg dn|]; destruct (a_pc a) eqn:Hpc; auto;
    try (exfalso; apply H; reflexivity).
  - exfalso; apply H. destruct (nth_error (a_locks a) i0); reflexivity.
  - exfalso; apply H. destruct commit; destruct (apply_writes _ _ _ _ _ _) as [[es nt] nw]; reflexivity.
  - exfalso; apply H. destruct (merge_root _ _ _ _); reflexivity.
Qed.
Print Assumptions C06_close_only_after_store_partial.

Example C06_nonvacuous :
  let s := run (init_st 1 [(1, KWriter [0%nat] [0%nat] true [] [])]) (repeat 0%nat 9) in
  s_closed s = [] /\ map tv_ids (s_root s) = [[1]] /\ s_closed (step s 0%nat) = [0].
Proof. repeat split; reflexivity. Qed.

(* ==== all schedules (DB/Channels.v, DB/Watch.v, DB/Reach.v) ========================================
   `reach ntab actors sched = run (init_st ntab actors) sched` for ANY schedule of ANY well-formed system. *)
From SV Require Import DB.Invariants DB.Visibility DB.Channels DB.Watch DB.Reach.
Open Scope nat_scope.

(* PUBLISHED CHANNELS ARE OPEN: no closed channel is the watch channel, or the pending-initialization
   channel, of an entry of the current committed root (a fresh reader never gets a closed channel) *)
Theorem C06_published_open : forall ntab actors sched t v w, wf_system ntab actors ->
  let s := reach ntab actors sched in
  nth_error (s_root s) t = Some v -> In w (s_closed s) ->
  tv_watch v <> w /\ forall p, tv_init v <> Some (w, p).
Proof. exact published_open_reachable. Qed.
Print Assumptions C06_published_open.

(* the channels handed out by the committed root are pairwise distinct (chans v = watch + init watch) *)
Theorem C06_published_distinct : forall ntab actors sched t1 t2 v1 v2 w, wf_system ntab actors ->
  let s := reach ntab actors sched in
  nth_error (s_root s) t1 = Some v1 -> nth_error (s_root s) t2 = Some v2 ->
  In w (chans v1) -> In w (chans v2) -> t1 = t2.
Proof. exact published_distinct_reachable. Qed.
Print Assumptions C06_published_distinct.

(* CLOSE AFTER STORE: a step closes channels only if its actor is a committing writer that has already
   executed its root store (notify step: a_notify; init-close step: a_initclose); the step does not
   change the root, and none of the closed channels is handed out by the committed root any more *)
Theorem C06_close_after_store : forall ntab actors sched i, wf_system ntab actors ->
  let s := reach ntab actors sched in
  s_closed (step s i) = s_closed s \/
  exists a cl, nth_error (s_actors s) i = Some a /\ committed a = true /\
    s_closed (step s i) = cl ++ s_closed s /\ s_root (step s i) = s_root s /\
    ((a_pc a = PRootUnlocked /\ cl = a_notify a) \/ (a_pc a = PTabsUnlocked /\ cl = a_initclose a)) /\
    forall w, In w cl -> ~ rch (s_root s) w.
Proof. exact close_after_store_reachable. Qed.
Print Assumptions C06_close_after_store.

(* WAKE-UP SEES A NEWER VERSION: if the watch channel that the committed root handed out for table t after
   schedule s1 is closed after s1 ++ s2, then the committed entry of t after s1 ++ s2 contains every id the
   earlier one did and the id of at least one further committed transaction *)
Theorem C06_wake_sees_newer : forall ntab actors s1 s2 t v, wf_system ntab actors ->
  nth_error (s_root (reach ntab actors s1)) t = Some v ->
  In (tv_watch v) (s_closed (reach ntab actors (s1 ++ s2))) ->
  exists v', nth_error (s_root (reach ntab actors (s1 ++ s2))) t = Some v' /\ incl (tv_ids v) (tv_ids v') /\
             exists x, In x (tv_ids v') /\ ~ In x (tv_ids v).
Proof. exact wake_sees_newer_reachable. Qed.
Print Assumptions C06_wake_sees_newer.

(* NO SPURIOUS-ABORT WAKE-UP: no step of an aborting writer (or of a registrar) closes a channel or, for a
   writer, changes the root; its id is never visible *)
Theorem C06_abort_closes_nothing : forall ntab actors sched i a, wf_system ntab actors ->
  let s := reach ntab actors sched in
  nth_error (s_actors s) i = Some a -> commits a = false ->
  s_closed (step s i) = s_closed s /\
  (a_kind a <> KRegistrar -> s_root (step s i) = s_root s) /\
  (forall t v, nth_error (s_root s) t = Some v -> ~ In (a_id a) (tv_ids v)).
Proof. exact abort_no_trace_reachable. Qed.
Print Assumptions C06_abort_closes_nothing.

Example C06_nonvacuous_wake :
  let acts := [(1%N, KWriter [0] [0] true [] []); (2%N, KWriter [0; 1] [1] true [] [])] in
  wf_system 2 acts /\
  map tv_watch (s_root (reach 2 acts [])) = [0%N; 1%N] /\
  In 0%N (s_closed (reach 2 acts (repeat 0 10))) /\
  map tv_ids (s_root (reach 2 acts (repeat 0 10))) = [[1%N]; []].
Proof.
  split; [split|].
  - intros ik [<-|[<-|[]]]; cbn; repeat split; try (intros x Hx; cbn in Hx; intuition (subst; cbn; auto)).
  - cbn. repeat constructor; cbn; intuition discriminate.
  - vm_compute. repeat split; auto.
Qed.
