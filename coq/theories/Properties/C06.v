(* Properties/C06.v — Watch channels: no missed change, no early or spurious-abort wake-up.
   Three layers, composed at the end of this file:
   (i)   DB/Model.v (all schedules): channels close only in the notify / init-close steps of a COMMITTING
         writer, after the root store (C06_close_after_store, C06_published_open, C06_wake_sees_newer,
         C06_abort_closes_nothing ...).
   (ii)  Table/WatchFootprint.v (the table model): every watch query through a part index has a FOOTPRINT, a
         set of index keys inside the coverage of the handle returned with the answer (tree.Get(key) /
         tree.Prefix(search key) / root channel). The answer is a function of the bindings of the footprint keys
         (C06_query_result_local_to_footprint); hence a write transaction that changes the answer inserts,
         removes or re-binds a footprint key in the queried index
         (C06_result_change_implies_footprint_key_change). LPM indexes: one index-wide channel, trivial version.
   (iii) Part/Footprint.v + Table/WatchCompose.v (the radix-tree model, on top of the C12 history theorems): if the
         maps denoted by the index's tree before and after a transaction differ at a key the handle covers, the
         handle's channel is in the set closed by the transaction's Notify (C06_changed_key_closes_handle); composed
         with (ii): a Commit that changes a query's result closes the channel returned with the earlier answer
         (C06_changed_result_closes_query_channel), also over any chain of committed transactions
         (C06_changed_result_closes_query_channel_history).
   Not covered: handles taken from a write transaction's own uncommitted tree (Txn.Clone inside the WriteTxn);
   the link "the set closed by the tree's Notify is closed in the notify step of the committing actor" is the
   modelling correspondence between DB/Model.v a_notify and Part/Model.v txn_notify (write_txn.go Commit). *)
From Coq Require Import Arith PeanoNat.
From SV Require Import DB.Model DB.Proofs.
Open Scope N_scope.

(* the only steps that close channels are the notify step (after the root store and root unlock) and
   the init-close step (after the tables are unlocked) of a COMMITTING writer *)
Theorem C06_close_only_after_store_partial : forall s i,
  s_closed (step s i) <> s_closed s ->
  exists a, nth_error (s_actors s) i = Some a /\ (a_pc a = PRootUnlocked \/ a_pc a = PTabsUnlocked).
Proof.
  intros s i H. unfold step in H. destruct (enabled s i); simpl in H; [|now elim H].
  destruct (nth_error (s_actors s) i) as [a|] eqn:Ha; [|now elim H].
  exists a. split; [reflexivity|].
  destruct (a_kind a) as [tabs writes commit reg dn|]; destruct (a_pc a) eqn:Hpc; auto;
    try (exfalso; apply H; reflexivity).
  - exfalso; apply H. destruct (nth_error (a_locks a) i0); reflexivity.
  - exfalso; apply H. destruct commit; destruct (apply_writes _ _ _ _ _ _) as [[es nt] nw]; reflexivity.
  - exfalso; apply H. destruct (merge_root _ _ _ _); reflexivity.
Qed.
Print Assumptions C06_close_only_after_store_partial.

Example C06_nonvacuous :
  let s := run (init_st 1 [(1, KWriter [0%nat] [0%nat] true [] [])]) (repeat 0%nat 9) in
  s_closed s = [] /\ map tv_ids (s_root s) = [[1]] /\ s_closed (step s 0%nat) = [0].
Proof. repeat split; reflexivity. Qed.

(* ==== all schedules (DB/Channels.v, DB/Watch.v, DB/Reach.v) ========================================
   `reach ntab actors sched = run (init_st ntab actors) sched` for ANY schedule of ANY well-formed system. *)
From SV Require Import DB.Invariants DB.Visibility DB.Channels DB.Watch DB.Reach.
Open Scope nat_scope.

(* PUBLISHED CHANNELS ARE OPEN: no closed channel is the watch channel, or the pending-initialization
   channel, of an entry of the current committed root (a fresh reader never gets a closed channel) *)
Theorem C06_published_open : forall ntab actors sched t v w, wf_system ntab actors ->
  let s := reach ntab actors sched in
  nth_error (s_root s) t = Some v -> In w (s_closed s) ->
  tv_watch v <> w /\ forall p, tv_init v <> Some (w, p).
Proof. exact published_open_reachable. Qed.
Print Assumptions C06_published_open.

(* the channels handed out by the committed root are pairwise distinct (chans v = watch + init watch) *)
Theorem C06_published_distinct : forall ntab actors sched t1 t2 v1 v2 w, wf_system ntab actors ->
  let s := reach ntab actors sched in
  nth_error (s_root s) t1 = Some v1 -> nth_error (s_root s) t2 = Some v2 ->
  In w (chans v1) -> In w (chans v2) -> t1 = t2.
Proof. exact published_distinct_reachable. Qed.
Print Assumptions C06_published_distinct.

(* CLOSE AFTER STORE: a step closes channels only if its actor is a committing writer that has already
   executed its root store (notify step: a_notify; init-close step: a_initclose); the step does not
   change the root, and none of the closed channels is handed out by the committed root any more *)
Theorem C06_close_after_store : forall ntab actors sched i, wf_system ntab actors ->
  let s := reach ntab actors sched in
  s_closed (step s i) = s_closed s \/
  exists a cl, nth_error (s_actors s) i = Some a /\ committed a = true /\
    s_closed (step s i) = cl ++ s_closed s /\ s_root (step s i) = s_root s /\
    ((a_pc a = PRootUnlocked /\ cl = a_notify a) \/ (a_pc a = PTabsUnlocked /\ cl = a_initclose a)) /\
    forall w, In w cl -> ~ rch (s_root s) w.
Proof. exact close_after_store_reachable. Qed.
Print Assumptions C06_close_after_store.

(* WAKE-UP SEES A NEWER VERSION: if the watch channel that the committed root handed out for table t after
   schedule s1 is closed after s1 ++ s2, then the committed entry of t after s1 ++ s2 contains every id the
   earlier one did and the id of at least one further committed transaction *)
Theorem C06_wake_sees_newer : forall ntab actors s1 s2 t v, wf_system ntab actors ->
  nth_error (s_root (reach ntab actors s1)) t = Some v ->
  In (tv_watch v) (s_closed (reach ntab actors (s1 ++ s2))) ->
  exists v', nth_error (s_root (reach ntab actors (s1 ++ s2))) t = Some v' /\ incl (tv_ids v) (tv_ids v') /\
             exists x, In x (tv_ids v') /\ ~ In x (tv_ids v).
Proof. exact wake_sees_newer_reachable. Qed.
Print Assumptions C06_wake_sees_newer.

(* NO SPURIOUS-ABORT WAKE-UP: no step of an aborting writer (or of a registrar) closes a channel or, for a
   writer, changes the root; its id is never visible *)
Theorem C06_abort_closes_nothing : forall ntab actors sched i a, wf_system ntab actors ->
  let s := reach ntab actors sched in
  nth_error (s_actors s) i = Some a -> commits a = false ->
  s_closed (step s i) = s_closed s /\
  (a_kind a <> KRegistrar -> s_root (step s i) = s_root s) /\
  (forall t v, nth_error (s_root s) t = Some v -> ~ In (a_id a) (tv_ids v)).
Proof. exact abort_no_trace_reachable. Qed.
Print Assumptions C06_abort_closes_nothing.

Example C06_nonvacuous_wake :
  let acts := [(1%N, KWriter [0] [0] true [] []); (2%N, KWriter [0; 1] [1] true [] [])] in
  wf_system 2 acts /\
  map tv_watch (s_root (reach 2 acts [])) = [0%N; 1%N] /\
  In 0%N (s_closed (reach 2 acts (repeat 0 10))) /\
  map tv_ids (s_root (reach 2 acts (repeat 0 10))) = [[1%N]; []].
Proof.
  split; [split|].
  - intros ik [<-|[<-|[]]]; cbn; repeat split; try (intros x Hx; cbn in Hx; intuition (subst; cbn; auto)).
  - cbn. repeat constructor; cbn; intuition discriminate.
  - vm_compute. repeat split; auto.
Qed.

(* ==== table level and radix-tree level (Table/WatchFootprint.v, Part/Footprint.v, Table/WatchCompose.v) =========
   From here on: Table/Model.v (tables, queries, write operations) and Part/Model.v (radix trees, channels). *)
From SV Require Import Base.Bytes Base.OrdMap KeyEnc.Model.
From SV Require Import Part.Model Part.Refine Part.Watch Part.Fresh Part.Footprint.
From SV Require Import Table.Model Table.Queries Table.WatchFootprint Table.WatchCompose.
Open Scope N_scope.

(* (3) LOCALITY. q: a watch query through a part index (Get / List / Prefix / LowerBound through the primary,
   revision, unique or non-unique index, or All); q_handle q = (the index it reads, the handle returned: the channel
   of tree.Get(key), of tree.Prefix(search key), or the root channel). Two tables whose queried index binds every
   key of the footprint fp q alike (same presence, same object including its revision) give the same answer; and the
   footprint lies inside the set of keys the handle covers. *)
Theorem C06_query_result_local_to_footprint : forall d d' tab tab' q ik h t t',
  q_handle q = Some (ik, h) ->
  om_sorted (index_of ik t) -> om_sorted (index_of ik t') ->
  (forall K, fp q K = true -> om_get K (index_of ik t) = om_get K (index_of ik t')) ->
  run_query d tab q t = run_query d' tab' q t'.
Proof. exact query_result_local. Qed.
Print Assumptions C06_query_result_local_to_footprint.

Theorem C06_footprint_inside_handle_coverage : forall q ik h K,
  q_handle q = Some (ik, h) -> fp q K = true -> h_covers h K = true.
Proof. exact fp_covered. Qed.
Print Assumptions C06_footprint_inside_handle_coverage.

(* the footprints by query kind: unique Get/List = the key; non-unique Get/List = the composite keys
   "escaped key, separator, ..." ; Prefix = the keys with prefix (escaped) q *)
Theorem C06_footprints : forall k key K idKey pk s,
  (is_unique k = true -> (fp (QGet k key) K = true <-> fp_get_unique idKey key K) /\
                         (fp (QList k key) K = true <-> fp_get_unique idKey key K)) /\
  (is_unique k = false -> len (enc pk) < 65536 ->
     (fp (QGet k key) (nuk pk s) = true <-> fp_nonunique key (nuk pk s)) /\
     (fp (QList k key) (nuk pk s) = true <-> fp_nonunique key (nuk pk s))) /\
  (fp (QPrefix k key) K = true -> fp_prefix (is_unique k) key K).
Proof.
  intros k key K idKey pk s. split; [|split].
  - intros U. exact (fp_get_unique_spec k key K idKey U).
  - intros U L. cbn [fp]. rewrite U. split; exact (fp_nonunique_spec key pk s L).
  - exact (fp_prefix_spec k key K).
Qed.
Print Assumptions C06_footprints.

(* LPM indexes return one index-wide channel: the footprint is the whole index *)
Theorem C06_lpm_query_result_local : forall d d' tab tab' q u t t', lq_index q = Some u ->
  lpm_idx u t = lpm_idx u t' -> run_query d tab q t = run_query d' tab' q t'.
Proof. exact lpm_query_result_local. Qed.
Print Assumptions C06_lpm_query_result_local.

(* (4) RESULT CHANGE => FOOTPRINT KEY CHANGE. t' = twrun t ws: the table after ANY sequence ws of write operations
   (Insert / Modify / CompareAndSwap / Delete / CompareAndDelete / DeleteAll; twrun is what Table/Model.v step does to
   the locked table of the open WriteTxn: C06_twrun_is_model_step). If the answer of q differs, a key K of q's
   footprint, covered by the returned handle, was inserted, removed or re-bound in the index q reads. *)
Theorem C06_result_change_implies_footprint_key_change : forall d d' tab tab' q ik h t ws,
  q_handle q = Some (ik, h) -> idx_sorted t ->
  run_query d tab q t <> run_query d' tab' q (twrun t ws) ->
  exists K, fp q K = true /\ h_covers h K = true /\
            binding_change (om_get K (index_of ik t)) (om_get K (index_of ik (twrun t ws))).
Proof. exact write_txn_result_change. Qed.
Print Assumptions C06_result_change_implies_footprint_key_change.

Theorem C06_twrun_is_model_step : forall ws d es old tab t,
  d_txn d = Some (es, old) -> nth_error es tab = Some (t, true) ->
  exists es', d_txn (fst (Table.Model.run d (map (twop tab) ws))) = Some (es', old) /\
              nth_error es' tab = Some (twrun t ws, true).
Proof. exact run_twrites. Qed.
Print Assumptions C06_twrun_is_model_step.

Theorem C06_lpm_result_change_implies_index_change : forall d d' tab tab' q u t ws, lq_index q = Some u ->
  run_query d tab q t <> run_query d' tab' q (twrun t ws) -> lpm_idx u t <> lpm_idx u (twrun t ws).
Proof. exact write_txn_lpm_result_change. Qed.
Print Assumptions C06_lpm_result_change_implies_index_change.

(* (5a) the radix tree. T: a committed tree (tree_inv: well-formed, ids and channel accounting as every Commit
   re-establishes them: C06_tree_invariant_kept); h: a handle taken on T; ops: all operations of the next transaction.
   If the map denoted by the committed tree differs from the map denoted by T at a key h covers, h's channel is in the
   set closed by the transaction's Notify. *)
Theorem C06_changed_key_closes_handle : forall t next ops h,
  tree_inv t next ->
  let xe := fold_left wstep ops (tree_txn t next) in
  (exists K, h_covers h K = true /\ om_get K (abs_tree (snd (txn_commit xe))) <> om_get K (abs_tree t)) ->
  In (h_chan t h) (snd (txn_notify xe)).
Proof. exact changed_key_closes_handle. Qed.
Print Assumptions C06_changed_key_closes_handle.

Theorem C06_tree_invariant_kept : forall ro next0 t next ops,
  (0 < next0 -> tree_inv (fst (tree_new ro next0)) (next0 + 1)) /\
  (tree_inv t next ->
   let xe := fold_left wstep ops (tree_txn t next) in
   tree_inv (snd (txn_commit xe)) (s_next (t_st (fst (txn_commit xe)))) /\
   abs_tree (snd (txn_commit xe)) = fold_left mstep ops (abs_tree t) /\
   next <= s_next (t_st (fst (txn_commit xe)))).
Proof. exact (fun ro next0 t next ops => conj (tree_inv_new ro next0) (commit_tree_inv t next ops)). Qed.
Print Assumptions C06_tree_invariant_kept.

(* (5) COMPOSED, one write transaction. A reader ran q on table t and holds the channel of handle h on the tree T of
   the index q reads (T represents that index: abs_tree T = cmap code index; code: the identity of the stored object,
   separating the objects bound to one key before and after, e.g. the injective obj_code, or o_rev). The next write
   transaction performs the writes ws; on that index its part.Txn performs ops and commits a tree representing the
   index of t' = twrun t ws (such ops exist: C06_write_txn_tree_ops). If q's answer on t' differs from the answer the
   reader got, the channel the reader holds is in the set closed by the Notify that write_txn.go Commit issues for
   that part.Txn (after tx.Commit()): closed no later than the return of the Commit that changes the result. *)
Theorem C06_changed_result_closes_query_channel : forall code d d' tab tab' q ik h t ws T next ops,
  q_handle q = Some (ik, h) -> idx_sorted t ->
  tree_inv T next -> abs_tree T = cmap code (index_of ik t) ->
  let xe := fold_left wstep ops (tree_txn T next) in
  abs_tree (snd (txn_commit xe)) = cmap code (index_of ik (twrun t ws)) ->
  code_separates code (index_of ik t) (index_of ik (twrun t ws)) ->
  run_query d tab q t <> run_query d' tab' q (twrun t ws) ->
  In (h_chan T h) (snd (txn_notify (fst (txn_commit xe)))).
Proof. exact changed_result_closes_query_channel. Qed.
Print Assumptions C06_changed_result_closes_query_channel.

Theorem C06_injective_code : (forall a b, obj_code a = obj_code b -> a = b) /\
  (forall m m', code_separates obj_code m m').
Proof. exact (conj obj_code_inj obj_code_separates). Qed.
Print Assumptions C06_injective_code.

Theorem C06_write_txn_tree_ops : forall code t ws ik, exists ops, forall T next,
  tree_ok T -> abs_tree T = cmap code (index_of ik t) ->
  abs_tree (snd (txn_commit (fold_left wstep ops (tree_txn T next)))) = cmap code (index_of ik (twrun t ws)).
Proof. exact write_txn_tree_ops. Qed.
Print Assumptions C06_write_txn_tree_ops.

(* (5) over HISTORIES: t, t' any two tables with sorted indexes (the table the reader queried, the table any number of
   committed write transactions later); txns: the chain of part.Txns committed on the index's tree in between (each
   begun on the tree committed by the previous one, after `gap` channel allocations elsewhere). If q's answer differs
   between t and t', the Notify of one of these transactions closed the channel the reader holds: NO MISSED CHANGE. *)
Theorem C06_changed_result_closes_query_channel_history : forall code d d' tab tab' q ik h t t' T next txns,
  q_handle q = Some (ik, h) -> om_sorted (index_of ik t) -> om_sorted (index_of ik t') ->
  tree_inv T next -> abs_tree T = cmap code (index_of ik t) ->
  abs_tree (fst (chain_end T next txns)) = cmap code (index_of ik t') ->
  code_separates code (index_of ik t) (index_of ik t') ->
  run_query d tab q t <> run_query d' tab' q t' ->
  exists cl, In cl (chain_closed T next txns) /\ In (h_chan T h) cl.
Proof. exact changed_result_closes_query_channel_chain. Qed.
Print Assumptions C06_changed_result_closes_query_channel_history.

(* a handle that a transaction does not close is still the handle the tree it commits returns for the same query *)
Theorem C06_handle_closed_or_kept : forall t next ops h,
  tree_inv t next ->
  let xe := fold_left wstep ops (tree_txn t next) in
  In (h_chan t h) (snd (txn_notify xe)) \/ h_chan (snd (txn_commit xe)) h = h_chan t h.
Proof. exact handle_closed_or_kept. Qed.
Print Assumptions C06_handle_closed_or_kept.

(* NON-VACUITY: a table with a non-unique index, objects a (key "x") and b (key "y"). A reader lists "y": [b], and
   holds the channel of Prefix(escaped "y") on the index's tree (channel 4). The next write transaction updates a so
   that it gains the key "y": a NEWLY QUALIFIES for the List query. The footprint key nuk "a" "y" is new in the index
   (absent before, bound after), the answer changes to [a; b], all hypotheses of
   C06_changed_result_closes_query_channel hold, and channel 4 is in the set closed by the commit. *)
Example C06_nonvacuous_newly_qualifies :
  q_handle ex_q = Some (INn, HPrefix (enc [121])) /\
  idx_sorted ex_t /\ tree_inv ex_T 10 /\
  abs_tree ex_T = cmap o_rev (index_of INn ex_t) /\
  abs_tree (snd (txn_commit (fold_left wstep ex_ops (tree_txn ex_T 10)))) = cmap o_rev (index_of INn (twrun ex_t ex_ws)) /\
  code_separates o_rev (index_of INn ex_t) (index_of INn (twrun ex_t ex_ws)) /\
  q_list INn [121] ex_t = [mkO ex_b 2] /\
  q_list INn [121] (twrun ex_t ex_ws) = [mkO ex_a2 3; mkO ex_b 2] /\
  fp ex_q (nuk [97] [121]) = true /\
  om_get (nuk [97] [121]) (index_of INn ex_t) = None /\
  om_get (nuk [97] [121]) (index_of INn (twrun ex_t ex_ws)) = Some (mkO ex_a2 3) /\
  h_chan ex_T (HPrefix (enc [121])) = 4 /\
  In 4 (snd (txn_notify (fst (txn_commit (fold_left wstep ex_ops (tree_txn ex_T 10)))))).
Proof. exact compose_nonvacuous. Qed.

(* and the conclusion obtained FROM the theorem for this instance *)
Example C06_nonvacuous_by_theorem :
  In (h_chan ex_T (HPrefix (enc [121])))
     (snd (txn_notify (fst (txn_commit (fold_left wstep ex_ops (tree_txn ex_T 10)))))).
Proof.
  destruct compose_nonvacuous as (Hq & S & HI & Ea & Ea' & Hs & L1 & L2 & _).
  apply (C06_changed_result_closes_query_channel o_rev (init_db 1) (init_db 1) 0%nat 0%nat ex_q INn _ ex_t ex_ws ex_T 10 ex_ops
           Hq S HI Ea Ea' Hs).
  cbn [run_query ex_q]. rewrite L1, L2. discriminate.
Qed.
