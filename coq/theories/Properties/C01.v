(* Properties/C01.v — Read transactions are frozen snapshots (model level).
   In the model a snapshot is a value; the theorem says no later step of any kind re-binds or
   alters it, so every query on it (a pure function of that value) keeps its answer. The places
   where the Go code shares memory between snapshots are tied to this model by the correspondence
   check, which re-queries every retained snapshot after every later step. *)
From SV Require Import Base.Bytes Base.OrdMap Table.Model Table.Proofs.
Open Scope N_scope.

Theorem C01_snapshot_frozen : forall ops d sid r,
  assoc sid (d_snaps d) = Some r -> forallb (fun o => negb (reassigns o sid)) ops = true ->
  assoc sid (d_snaps (fst (run d ops))) = Some r.
Proof. exact run_keeps_snapshot. Qed.
Print Assumptions C01_snapshot_frozen.

(* hence every content query on the snapshot returns what it returned when it was taken *)
Theorem C01_queries_frozen : forall ops d sid r tab t q,
  assoc sid (d_snaps d) = Some r -> forallb (fun o => negb (reassigns o sid)) ops = true ->
  nth_error r tab = Some t -> q <> QInit ->
  snd (step (fst (run d ops)) (OQuery (SSnap sid) tab q)) = snd (step d (OQuery (SSnap sid) tab q)).
Proof.
  intros ops d sid r tab t q Hs Hr Ht Hq.
  pose proof (run_keeps_snapshot ops d sid r Hs Hr) as H.
  cbn [step src_root]. rewrite H, Hs, Ht. destruct q; try reflexivity. congruence.
Qed.
Print Assumptions C01_queries_frozen.

Example C01_nonvacuous :
  let d := fst (run (init_db 2) [OBegin [0%nat]; OInsert 0 (mkP [97] 1 [] [] [] []); OCommit 7]) in
  exists r, assoc 7 (d_snaps d) = Some r /\
  snd (step (fst (run d [OBegin [0%nat]; ODelete 0 [97]; OCommit 8])) (OQuery (SSnap 7) 0 QAll))
  = OutObjs [mkO (mkP [97] 1 [] [] [] []) 1].
Proof. eexists; split; vm_compute; reflexivity. Qed.
