(* Properties/C01.v — Read transactions are frozen snapshots (model level).
   In the model a snapshot is a value; the theorem says no later step of any kind re-binds or
   alters it, so every query on it (a pure function of that value) keeps its answer. The places
   where the Go code shares memory between snapshots are tied to this model by the correspondence
   check, which re-queries every retained snapshot after every later step. *)
From SV Require Import Base.Bytes Base.OrdMap Table.Model Table.Proofs.
Open Scope N_scope.

Theorem C01_snapshot_frozen : forall ops d sid r,
  assoc sid (d_snaps d) = Some r -> forallb (fun o => negb (reassigns o sid)) ops = true ->
  assoc sid (d_snaps (fst (run d ops))) = Some r.
Proof. exact run_keeps_snapshot. Qed.
Print Assumptions C01_snapshot_frozen.

(* hence every content query on the snapshot returns what it returned when it was taken *)
Theorem C01_queries_frozen : forall ops d sid r tab t q,
  assoc sid (d_snaps d) = Some r -> forallb (fun o => negb (reassigns o sid)) ops = true ->
  nth_error r tab = Some t -> q <> QInit ->
  snd (step (fst (run d ops)) (OQuery (SSnap sid) tab q)) = snd (step d (OQuery (SSnap sid) tab q)).
Proof.
  intros ops d sid r tab t q Hs Hr Ht Hq.
  pose proof (run_keeps_snapshot ops d sid r Hs Hr) as H.
  cbn [step src_root]. rewrite H, Hs, Ht. destruct q; try reflexivity. congruence.
Qed.
Print Assumptions C01_queries_frozen.

Example C01_nonvacuous :
  let d := fst (run (init_db 2) [OBegin [0%nat]; OInsert 0 (mkP [97] 1 [] [] [] []); OCommit 7]) in
  exists r, assoc 7 (d_snaps d) = Some r /\
  snd (step (fst (run d [OBegin [0%nat]; ODelete 0 [97]; OCommit 8])) (OQuery (SSnap 7) 0 QAll))
  = OutObjs [mkO (mkP [97] 1 [] [] [] []) 1].
Proof. eexists; split; vm_compute; reflexivity. Qed.

(* ---- memory level: the slices whose backing arrays the Go code shares between snapshots ----
   (Base/Slice.v: heap of backing arrays, Go slice headers; Table/SliceProofs.v: lpmEntry.tail,
   tableInitialization.pending, the root slice in Commit — current code, pre-fix code 9ab81d8^,
   and the seeded variants S-C13-3, S-C19-1, S-C05-1) *)
From SV Require Base.Slice Table.InvDefs Table.SliceProofs.
Module C01_Slices.
Import SV.Base.Slice SV.Table.InvDefs SV.Table.SliceProofs.
Local Open Scope nat_scope.

(* lpmEntry.upsert (after fix 9ab81d8) writes only into a fresh array: every entry value that
   existed before the call (= what earlier snapshots hold) reads the same afterwards *)
Theorem C01_lpm_entry_upsert_frame : forall (h : eheap) (e : mentry) (pk : bytes) (o : object) (e' : mentry),
  me_wf h e' -> me_den (fst (upsert_new h e pk o)) e' = me_den h e'.
Proof. exact upsert_new_frame. Qed.
Print Assumptions C01_lpm_entry_upsert_frame.

Theorem C01_lpm_entry_delete_frame : forall (h : eheap) (e : mentry) (pk : bytes) (e' : mentry),
  me_wf h e' -> me_den (fst (delete_new h e pk)) e' = me_den h e'.
Proof. exact delete_new_frame. Qed.
Print Assumptions C01_lpm_entry_delete_frame.

(* and the writer's own view is the pure e_upsert / e_delete of Table/Model.v *)
Theorem C01_lpm_entry_ops_refine_model : forall (h : eheap) (e : mentry) (pk : bytes) (o : object),
  me_wf h e -> esorted (me_den h e) ->
  me_den (fst (upsert_new h e pk o)) (snd (upsert_new h e pk o)) = e_upsert pk o (me_den h e) /\
  me_den (fst (delete_new h e pk)) (snd (delete_new h e pk)) = e_delete pk (me_den h e).
Proof. exact lpm_entry_ops_refine. Qed.
Print Assumptions C01_lpm_entry_ops_refine_model.

(* defect D1 (fixed by 9ab81d8): the in-place upsert changes what another holder of the entry reads *)
Theorem C01_upsert_inplace_refuted :
  exists (h : eheap) (e : mentry) (k : bytes) (o : object) (e_other : mentry),
    me_wf h e /\ me_wf h e_other /\ esorted (me_den h e) /\
    forall extra, me_den h e_other <> me_den (fst (upsert_old extra h e k o)) e_other.
Proof. exact upsert_old_alias_refuted. Qed.
Print Assumptions C01_upsert_inplace_refuted.

(* seeded S-C13-3: slices.Delete in lpmEntry.delete *)
Theorem C01_delete_inplace_refuted :
  exists (h : eheap) (e : mentry) (k : bytes) (e_other : mentry),
    me_wf h e /\ me_wf h e_other /\ esorted (me_den h e) /\
    me_den h e_other <> me_den (fst (delete_inplace h e k)) e_other /\
    me_den (fst (delete_inplace h e k)) e_other = [wobj 10 1; wobj 30 1; wobj 40 1; ezero].
Proof. exact delete_inplace_alias_refuted. Qed.
Print Assumptions C01_delete_inplace_refuted.

(* RegisterInitializer (Clone + append) and the mark-done closure (Clone + DeleteFunc): any
   sequence of them leaves every pre-existing pending slice unchanged (commit or abort) *)
Theorem C01_init_pending_frame : forall (ops : list iop) (h : sheap) (init : option Slice.slice) (s : Slice.slice),
  init_wf h init -> sl_wf h s -> sl_den (fst (fold_left istep_new ops (h, init))) s = sl_den h s.
Proof. exact init_pending_frame. Qed.
Print Assumptions C01_init_pending_frame.

(* seeded S-C19-1: committed [a b]; done_b (re-slice), Register(c) (append in place), abort: [a c] *)
Theorem C01_init_pending_alias_refuted :
  exists (h : sheap) (p : Slice.slice) (a b c : bytes),
    sl_wf h p /\ sl_den h p = [a; b] /\
    forall e1 e2 e3,
      sl_den (fst (fold_left istep_seeded [IDone b e1; IReg c e2 e3] (h, Some p))) p = [a; c] /\ [a; c] <> [a; b].
Proof. exact init_pending_alias_refuted. Qed.
Print Assumptions C01_init_pending_alias_refuted.

(* Commit: loop writing root[pos] = currentRoot[pos], THEN append: publishes the current entry of
   every unlocked table, its own entry for every locked one, then the tables registered meanwhile,
   and writes nothing outside the transaction's private clone *)
Theorem C01_commit_root_append_frame : forall extra locked (h : rheap) (entries cur : Slice.slice),
  sl_wf h entries -> sl_wf h cur -> s_arr cur <> s_arr entries -> s_len entries <= s_len cur ->
  let r := commit_root_good extra locked h entries cur in
  (forall pos, pos < s_len entries -> locked (nth pos (sl_den h entries) 0) = false ->
     nth pos (sl_den (fst r) (snd r)) 0 = nth pos (sl_den h cur) 0) /\
  (forall pos, pos < s_len entries -> locked (nth pos (sl_den h entries) 0) = true ->
     nth pos (sl_den (fst r) (snd r)) 0 = nth pos (sl_den h entries) 0) /\
  skipn (s_len entries) (sl_den (fst r) (snd r)) = skipn (s_len entries) (sl_den h cur) /\
  (forall s, sl_wf h s -> s_arr s <> s_arr entries -> sl_den (fst r) s = sl_den h s).
Proof. exact commit_root_append_ok. Qed.
Print Assumptions C01_commit_root_append_frame.

(* seeded S-C05-1: append before the loop + loop writing through txn.tableEntries: when the
   append reallocates the stale entry of an unlocked table is published *)
Theorem C01_commit_root_append_refuted :
  exists locked (h : rheap) (entries cur : Slice.slice) pos,
    sl_wf h entries /\ sl_wf h cur /\ s_arr cur <> s_arr entries /\ s_len entries <= s_len cur /\
    pos < s_len entries /\ locked (nth pos (sl_den h entries) 0) = false /\
    forall extra,
      let r := commit_root_bad extra locked h entries cur in
      nth pos (sl_den (fst r) (snd r)) 0 <> nth pos (sl_den h cur) 0 /\
      sl_den (fst r) (snd r) = [10; 2; 4] /\
      sl_den (fst (commit_root_good extra locked h entries cur)) (snd (commit_root_good extra locked h entries cur)) = [10; 3; 4].
Proof. exact commit_root_bad_refuted. Qed.
Print Assumptions C01_commit_root_append_refuted.

End C01_Slices.
