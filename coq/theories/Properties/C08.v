(* Properties/C08.v — Graveyard: deletions kept until observed, then collected (safety part). *)
From SV Require Import Base.Bytes Base.OrdMap Table.Model Table.GcProofs.
Open Scope N_scope.

(* A collection scan selects a deleted object only if its deletion revision is at or below the
   watermark of EVERY tracker registered in the scanned snapshot (and the table revision): an
   object not yet handed to some open iterator (watermark below its deletion revision) is never selected. *)
Theorem C08_scan_selects_only_observed : forall wm t k, In k (gc_scan_table wm t) ->
  exists o, In (k, o) (t_graverev t) /\ o_rev o <= t_rev t /\
            forall id r, In id (t_trackers t) -> assoc id wm = Some r -> o_rev o <= r.
Proof. exact gc_scan_only_observed. Qed.
Print Assumptions C08_scan_selects_only_observed.

(* applying a collection never touches live contents, live indexes, revision, trackers *)
Theorem C08_apply_touches_only_graveyard : forall keys t,
  let t' := gc_apply_table keys t in
  t_rev t' = t_rev t /\ t_primary t' = t_primary t /\ t_revidx t' = t_revidx t /\
  t_u t' = t_u t /\ t_n t' = t_n t /\ t_lu t' = t_lu t /\ t_ln t' = t_ln t /\
  t_trackers t' = t_trackers t /\ t_init t' = t_init t.
Proof. exact gc_apply_frame. Qed.
Print Assumptions C08_apply_touches_only_graveyard.

(* ==== from the table invariant (Table/Inv.v, Inv3.v) ============================================== *)
From SV Require Import KeyEnc.Model Table.InvDefs Table.Inv Table.Inv2 Table.Inv3.

(* without a registered delete tracker DeleteAll retains nothing (single Delete: C08_no_tracker_nothing_retained below) *)
Theorem C08_no_tracker_delete_all_retains_nothing : forall t, t_trackers t = [] ->
  t_grave (delete_all t) = t_grave t /\ t_graverev (delete_all t) = t_graverev t.
Proof. exact delete_all_no_trackers. Qed.
Print Assumptions C08_no_tracker_delete_all_retains_nothing.

(* retained-deleted objects are invisible: no query on the live primary / revision indexes of a table
   satisfying the invariant returns a graveyard object *)
Theorem C08_graveyard_invisible_to_queries : forall t o, TInv t -> dead t o ->
  (forall k, q_get IPrimary k t <> Some o) /\ (forall k, ~ In o (q_list IPrimary k t)) /\
  ~ In o (q_all t) /\
  (forall k, q_get IRevision k t <> Some o) /\ (forall k, ~ In o (q_list IRevision k t)) /\
  (forall k, ~ In o (q_prefix IPrimary k t)) /\ (forall k, ~ In o (q_lower_bound IPrimary k t)) /\
  (forall k, ~ In o (q_prefix IRevision k t)) /\ (forall k, ~ In o (q_lower_bound IRevision k t)).
Proof. exact dead_not_in_queries. Qed.
Print Assumptions C08_graveyard_invisible_to_queries.

(* ... in particular in every table value reachable along a history (root, transaction, snapshots) *)
Theorem C08_graveyard_invisible_reachable : forall n ops t o, run_bounded (init_db n) ops ->
  in_db (fst (run (init_db n) ops)) t -> dead t o ->
  (forall k, q_get IPrimary k t <> Some o) /\ (forall k, ~ In o (q_list IPrimary k t)) /\
  ~ In o (q_all t) /\
  (forall k, q_get IRevision k t <> Some o) /\ (forall k, ~ In o (q_list IRevision k t)) /\
  (forall k, ~ In o (q_prefix IPrimary k t)) /\ (forall k, ~ In o (q_lower_bound IPrimary k t)) /\
  (forall k, ~ In o (q_prefix IRevision k t)) /\ (forall k, ~ In o (q_lower_bound IRevision k t)).
Proof. exact reachable_dead_not_in_queries. Qed.
Print Assumptions C08_graveyard_invisible_reachable.

(* applying a collection pass preserves the invariant (the two graveyard indexes stay in step) *)
Theorem C08_apply_preserves_invariant : forall keys t, TInv t -> rev_bound t -> TInv (gc_apply_table keys t).
Proof. exact TInv_gc_apply. Qed.
Print Assumptions C08_apply_preserves_invariant.

Example C08_nonvacuous :
  let d := fst (run (init_db 1) [OBegin [0%nat]; OInsert 0 (mkP [97] 1 [] [] [] []); OChanges 1 0; OCommit 0;
                                  OBegin [0%nat]; ODelete 0 [97]; OCommit 1]) in
  match d_root d with t :: _ => length (t_graverev t) = 1%nat /\ gc_scan_table (d_wm d) t = [] | _ => False end.
Proof. vm_compute. split; reflexivity. Qed.

(* ======================================================================================================
   Second layer (Table/ChangesRet.v, Table/ChangesHist.v).
   `retained A B D`: every key an iterator with delete cursor D may hold after reading table A (live in
   A, or deleted in A above D) that is not live in B has a deleted object above D in B's graveyard.
   `RInv` (Table/ChangesHist.v) is the history invariant: it holds from the creation of a change
   iterator on, across every operation of the model, including collection scans and applies with
   arbitrary steps in between (RInv_step); C08_retained_until_delivered is its reading at the end of a run.
   Re-insert + re-delete between scan and apply: gc_apply only drops the primary-keyed twin of the
   object found under the scanned revision key; under TInv that twin IS that object (one graveyard
   entry per primary key, keyed by its own revision), so a newer deletion of the same key (new
   revision key) is never touched: C08_apply_keeps_undelivered holds for ANY table state at apply time.
   ====================================================================================================== *)
From SV Require Import KeyEnc.Model Table.InvDefs Table.Inv Table.ChangesStream Table.ChangesIter
                       Table.ChangesProofs Table.ChangesRet Table.ChangesHist.

(* applying a scanned key list whose revisions are all at or below watermark D never discards a deleted
   object above D, whatever happened to the table since the scan *)
Theorem C08_apply_keeps_undelivered : forall D ks t o, TInv t -> rev_bound t ->
  (forall k, In k ks -> exists r, r < B64 /\ k = rev_key r /\ r <= D) ->
  dead t o -> D < o_rev o -> dead (gc_apply_table ks t) o.
Proof. exact gc_apply_keeps. Qed.
Print Assumptions C08_apply_keeps_undelivered.

Theorem C08_apply_preserves_retention : forall ks A t D, TInv t -> rev_bound t ->
  (forall k, In k ks -> exists r, r < B64 /\ k = rev_key r /\ r <= D) ->
  retained A t D -> retained A (gc_apply_table ks t) D.
Proof. exact retained_gc_apply. Qed.
Print Assumptions C08_apply_preserves_retention.

(* writes of a transaction keep what is retained (and retain new deletions) while a tracker is registered *)
Theorem C08_delete_retains_while_tracked : forall g id t, TInv t ->
  t_trackers (fst (delete g id t)) = t_trackers t /\ tab_le t (fst (delete g id t)) /\
  forall A D, t_trackers t <> [] -> D <= t_rev t -> retained A t D -> retained A (fst (delete g id t)) D.
Proof. exact tstep_delete. Qed.
Print Assumptions C08_delete_retains_while_tracked.

Theorem C08_modify_keeps_retained : forall g m p t, TInv t ->
  t_trackers (fst (modify g m p t)) = t_trackers t /\ tab_le t (fst (modify g m p t)) /\
  forall A D, t_trackers t <> [] -> D <= t_rev t -> retained A t D -> retained A (fst (modify g m p t)) D.
Proof. exact tstep_modify. Qed.
Print Assumptions C08_modify_keeps_retained.

(* history level: at every point of every run after the creation of iterator iid (advanced with fresh
   read transactions; other iterators, closes, commits, aborts of other transactions, collection scans
   and applies interleaved at will), every key the iterator may hold that is no longer live in the
   committed root still has its deletion, above the iterator's delete cursor = the tracker's watermark,
   in the committed graveyard *)
Theorem C08_retained_until_delivered : forall iid tab d t0 ops,
  created d iid tab t0 -> wf d ->
  (forall cur, nth_error (d_root d) tab = Some cur -> ~ reg iid cur) ->
  tables_ok d /\ ok_run (fst (step d (OChanges iid tab))) ops ->
  friendly_run iid tab (fst (step d (OChanges iid tab))) ops ->
  forall it cur,
  assoc iid (d_iters (fst (run (fst (step d (OChanges iid tab))) ops))) = Some it ->
  nth_error (d_root (fst (run (fst (step d (OChanges iid tab))) ops))) tab = Some cur ->
  reg iid cur ->
  retained (fst (grun iid (t0, []) (fst (step d (OChanges iid tab))) ops)) cur (it_delrev it) /\
  assoc iid (d_wm (fst (run (fst (step d (OChanges iid tab))) ops))) = Some (it_delrev it).
Proof. exact fresh_retention. Qed.
Print Assumptions C08_retained_until_delivered.

(* the invariant behind it, one step *)
Theorem C08_retention_invariant_step : forall iid tab g d o,
  wf d -> tables_ok d -> tables_ok (fst (step d o)) ->
  sinv true iid g d -> RInv iid tab (fst g) d -> friendly iid tab d o ->
  RInv iid tab (fst (gstep iid g d o)) (fst (step d o)) /\ good_step true iid (fst g) d o.
Proof. exact RInv_step. Qed.
Print Assumptions C08_retention_invariant_step.

(* collectable: once every registered tracker has been handed every retained deletion, one scan + apply
   discards the whole graveyard *)
Theorem C08_collects_when_caught_up : forall wm t, TInv t -> rev_bound t ->
  (forall o id r, dead t o -> In id (t_trackers t) -> assoc id wm = Some r -> o_rev o <= r) ->
  let t' := gc_apply_table (gc_scan_table wm t) t in
  t_grave t' = [] /\ t_graverev t' = [].
Proof. exact gc_collects_caught_up. Qed.
Print Assumptions C08_collects_when_caught_up.

Theorem C08_collection_round_empties_graveyard : forall d tab cur,
  d_gc d = GGate1 -> d_txn d = None -> nth_error (d_root d) tab = Some cur ->
  TInv cur -> rev_bound cur ->
  (forall o id r, dead cur o -> In id (t_trackers cur) -> assoc id (d_wm d) = Some r -> o_rev o <= r) ->
  exists cur', nth_error (d_root (fst (run d [OGcScan; OGcApply]))) tab = Some cur' /\
               t_grave cur' = [] /\ t_graverev cur' = [] /\
               t_primary cur' = t_primary cur /\ t_rev cur' = t_rev cur.
Proof. exact gc_round_collects. Qed.
Print Assumptions C08_collection_round_empties_graveyard.

(* no open iterator: nothing is retained by a delete, and anything left over is collectable *)
Theorem C08_no_tracker_nothing_retained : forall g id t, t_trackers t = [] ->
  t_grave (fst (delete g id t)) = t_grave t /\ t_graverev (fst (delete g id t)) = t_graverev t.
Proof. exact delete_without_trackers_retains_nothing. Qed.
Print Assumptions C08_no_tracker_nothing_retained.

Theorem C08_no_tracker_all_collectable : forall wm t, TInv t -> rev_bound t -> t_trackers t = [] ->
  let t' := gc_apply_table (gc_scan_table wm t) t in t_grave t' = [] /\ t_graverev t' = [].
Proof. exact gc_collects_without_trackers. Qed.
Print Assumptions C08_no_tracker_all_collectable.

(* retained objects never appear in queries or object counts *)
Theorem C08_retained_not_visible : forall t o, TInv t -> dead t o ->
  om_get (pk o) (t_primary t) = None /\ (forall o', In o' (q_all t) -> pk o' <> pk o) /\
  ~ In o (q_all t).
Proof. exact retained_not_visible. Qed.
Print Assumptions C08_retained_not_visible.

Theorem C08_count_is_live_objects : forall t, TInv t ->
  q_num t = N.of_nat (length (t_primary t)) /\ forall o, In o (q_all t) <-> live t o.
Proof. exact q_num_counts_live. Qed.
Print Assumptions C08_count_is_live_objects.

(* from the initial database (table invariant discharged by Table/Inv2.v): see Properties/C07.v *)
From SV Require Import Table.ChangesFromInit.

Theorem C08_from_init_retained_until_delivered : forall n pre iid tab t0 ops,
  room_run (init_db n) (pre ++ OChanges iid tab :: ops) ->
  created (fst (run (init_db n) pre)) iid tab t0 ->
  (forall cur, nth_error (d_root (fst (run (init_db n) pre))) tab = Some cur -> ~ reg iid cur) ->
  friendly_run iid tab (fst (step (fst (run (init_db n) pre)) (OChanges iid tab))) ops ->
  forall it cur,
  assoc iid (d_iters (fst (run (fst (step (fst (run (init_db n) pre)) (OChanges iid tab))) ops))) = Some it ->
  nth_error (d_root (fst (run (fst (step (fst (run (init_db n) pre)) (OChanges iid tab))) ops))) tab = Some cur ->
  reg iid cur ->
  retained (fst (grun iid (t0, []) (fst (step (fst (run (init_db n) pre)) (OChanges iid tab))) ops)) cur (it_delrev it) /\
  assoc iid (d_wm (fst (run (fst (step (fst (run (init_db n) pre)) (OChanges iid tab))) ops))) = Some (it_delrev it).
Proof. exact init_retention. Qed.
Print Assumptions C08_from_init_retained_until_delivered.

(* the same with Next called on retained snapshots, any monotone choice (Table/ChangesSnap.v, see C07.v) *)
From SV Require Import Table.ChangesSnap.

Theorem C08_retained_until_delivered_any_monotone_snapshots : forall iid tab n pre t0 ops,
  room_run (init_db n) (pre ++ OChanges iid tab :: ops) ->
  created (fst (run (init_db n) pre)) iid tab t0 ->
  (forall cur, nth_error (d_root (fst (run (init_db n) pre))) tab = Some cur -> ~ reg iid cur) ->
  mfriendly_run iid tab mg0 (fst (step (fst (run (init_db n) pre)) (OChanges iid tab))) ops ->
  forall it cur,
  assoc iid (d_iters (fst (run (fst (step (fst (run (init_db n) pre)) (OChanges iid tab))) ops))) = Some it ->
  nth_error (d_root (fst (run (fst (step (fst (run (init_db n) pre)) (OChanges iid tab))) ops))) tab = Some cur ->
  reg iid cur ->
  retained (fst (grun iid (t0, []) (fst (step (fst (run (init_db n) pre)) (OChanges iid tab))) ops)) cur (it_delrev it) /\
  assoc iid (d_wm (fst (run (fst (step (fst (run (init_db n) pre)) (OChanges iid tab))) ops))) = Some (it_delrev it).
Proof. exact init_retention_mono. Qed.
Print Assumptions C08_retained_until_delivered_any_monotone_snapshots.
