(* Properties/C08.v — Graveyard: deletions kept until observed, then collected (safety part). *)
From SV Require Import Base.Bytes Base.OrdMap Table.Model Table.GcProofs.
Open Scope N_scope.

(* A collection scan selects a deleted object only if its deletion revision is at or below the
   watermark of EVERY tracker registered in the scanned snapshot (and the table revision): an
   object not yet handed to some open iterator (watermark below its deletion revision) is never selected. *)
Theorem C08_scan_selects_only_observed : forall wm t k, In k (gc_scan_table wm t) ->
  exists o, In (k, o) (t_graverev t) /\ o_rev o <= t_rev t /\
            forall id r, In id (t_trackers t) -> assoc id wm = Some r -> o_rev o <= r.
Proof. exact gc_scan_only_observed. Qed.
Print Assumptions C08_scan_selects_only_observed.

(* applying a collection never touches live contents, live indexes, revision, trackers *)
Theorem C08_apply_touches_only_graveyard : forall keys t,
  let t' := gc_apply_table keys t in
  t_rev t' = t_rev t /\ t_primary t' = t_primary t /\ t_revidx t' = t_revidx t /\
  t_u t' = t_u t /\ t_n t' = t_n t /\ t_lu t' = t_lu t /\ t_ln t' = t_ln t /\
  t_trackers t' = t_trackers t /\ t_init t' = t_init t.
Proof. exact gc_apply_frame. Qed.
Print Assumptions C08_apply_touches_only_graveyard.

Example C08_nonvacuous :
  let d := fst (run (init_db 1) [OBegin [0%nat]; OInsert 0 (mkP [97] 1 [] [] [] []); OChanges 1 0; OCommit 0;
                                  OBegin [0%nat]; ODelete 0 [97]; OCommit 1]) in
  match d_root d with t :: _ => length (t_graverev t) = 1%nat /\ gc_scan_table (d_wm d) t = [] | _ => False end.
Proof. vm_compute. split; reflexivity. Qed.
