(* Properties/C05.v — Writers of a table are serialised; no committed write is lost.
   First layer (DB/Model.v). Invariants over all schedules are in DB/Invariants.v (in progress). *)
From Coq Require Import Arith PeanoNat.
From SV Require Import DB.Model DB.Proofs.
Open Scope N_scope.

(* a table lock can only be taken when it is free: the acquiring step is disabled otherwise *)
Theorem C05_lock_requires_free_partial : forall s i a k t,
  nth_error (s_actors s) i = Some a -> a_pc a = PLocking k -> nth_error (a_locks a) k = Some t ->
  enabled s i = true -> nth_error (s_tlock s) t = Some None.
Proof.
  intros s i a k t Ha Hpc Hk. unfold enabled. rewrite Ha, Hpc, Hk.
  destruct (nth_error (s_tlock s) t) as [[h|]|]; congruence.
Qed.
Print Assumptions C05_lock_requires_free_partial.

Example C05_nonvacuous :
  let s := run (init_st 2 [(1, KWriter [0%nat] [0%nat] true [] []); (2, KWriter [0%nat] [0%nat] true [] [])])
               [0; 0; 0; 1; 1]%nat in
  enabled s 1 = false /\ enabled s 0 = true.
Proof. split; reflexivity. Qed.
