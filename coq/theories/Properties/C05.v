(* Properties/C05.v — Writers of a table are serialised; no committed write is lost.
   First layer (DB/Model.v). Invariants over all schedules are in DB/Invariants.v (in progress). *)
From Coq Require Import Arith PeanoNat.
From SV Require Import DB.Model DB.Proofs.
Open Scope N_scope.

(* a table lock can only be taken when it is free: the acquiring step is disabled otherwise *)
Theorem C05_lock_requires_free_partial : forall s i a k t,
  nth_error (s_actors s) i = Some a -> a_pc a = PLocking k -> nth_error (a_locks a) k = Some t ->
  enabled s i = true -> nth_error (s_tlock s) t = Some None.
Proof.
  intros s i a k t Ha Hpc Hk. unfold enabled. rewrite Ha, Hpc, Hk.
  destruct (nth_error (s_tlock s) t) as [[h|]|]; congruence.
Qed.
Print Assumptions C05_lock_requires_free_partial.

Example C05_nonvacuous :
  let s := run (init_st 2 [(1, KWriter [0%nat] [0%nat] true [] []); (2, KWriter [0%nat] [0%nat] true [] [])])
               [0; 0; 0; 1; 1]%nat in
  enabled s 1 = false /\ enabled s 0 = true.
Proof. split; reflexivity. Qed.

(* ==== all schedules (DB/Invariants.v, DB/Visibility.v, DB/Reach.v) ================================
   `reach ntab actors sched = run (init_st ntab actors) sched` for ANY schedule of ANY well-formed system
   (wf_system: wf_actors + pairwise distinct transaction ids). Table contents are abstracted to the set of
   ids of the transactions whose writes they contain (tv_ids). *)
From SV Require Import DB.Invariants DB.Locks DB.Visibility DB.Reach.
Open Scope nat_scope.

(* MUTUAL EXCLUSION: two different actors never hold the same table (between WriteTxn returning and the
   unlock step of Commit / Abort an actor holds its whole lock set) *)
Theorem C05_mutual_exclusion : forall ntab actors sched i j a b t, wf_actors ntab actors ->
  let s := reach ntab actors sched in
  nth_error (s_actors s) i = Some a -> nth_error (s_actors s) j = Some b ->
  In t (held a) -> In t (held b) -> i = j.
Proof. exact mutual_exclusion_reachable. Qed.
Print Assumptions C05_mutual_exclusion.

(* while an actor holds table t, no step of any other actor changes the committed entry of t *)
Theorem C05_held_entry_stable : forall ntab actors sched i j b t, wf_actors ntab actors ->
  let s := reach ntab actors sched in
  j <> i -> nth_error (s_actors s) j = Some b -> In t (held b) ->
  nth_error (s_root (step s i)) t = nth_error (s_root s) t.
Proof. exact held_entry_stable_reachable. Qed.
Print Assumptions C05_held_entry_stable.

(* CLONE IS LATEST: from its root load to its root store (or abort) the private entry of every table a
   writer holds is the CURRENT committed entry (before its writes), resp. has the current committed id set
   plus its own id on the tables it writes (after them) *)
Theorem C05_clone_is_latest : forall ntab actors sched i a t, wf_system ntab actors ->
  let s := reach ntab actors sched in
  nth_error (s_actors s) i = Some a -> In t (a_locks a) ->
  (a_pc a = PRootLoaded -> nth_error (a_entries a) t = nth_error (s_root s) t) /\
  (a_pc a = PCommitIdx \/ a_pc a = PRootLocked \/ a_pc a = PAbortBefore ->
   exists v e, nth_error (s_root s) t = Some v /\ nth_error (a_entries a) t = Some e /\
               forall x, In x (tv_ids e) <-> (x = a_id a /\ In t (writes_of a)) \/ In x (tv_ids v)).
Proof. exact clone_is_latest_reachable. Qed.
Print Assumptions C05_clone_is_latest.

(* ... hence a writer sees every write committed to a table it holds *)
Theorem C05_sees_all_committed : forall ntab actors sched i a j b t, wf_system ntab actors ->
  let s := reach ntab actors sched in
  nth_error (s_actors s) i = Some a -> In t (a_locks a) ->
  a_pc a = PRootLoaded \/ a_pc a = PCommitIdx \/ a_pc a = PRootLocked \/ a_pc a = PAbortBefore ->
  nth_error (s_actors s) j = Some b -> committed b = true -> In t (writes_of b) ->
  exists e, nth_error (a_entries a) t = Some e /\ In (a_id b) (tv_ids e).
Proof. exact sees_all_committed_reachable. Qed.
Print Assumptions C05_sees_all_committed.

(* NO LOST WRITE: an id visible in the committed entry of t after schedule s1 is visible after s1 ++ s2 *)
Theorem C05_no_lost_write : forall ntab actors s1 s2 t v x, wf_system ntab actors ->
  nth_error (s_root (reach ntab actors s1)) t = Some v -> In x (tv_ids v) ->
  exists v', nth_error (s_root (reach ntab actors (s1 ++ s2))) t = Some v' /\ In x (tv_ids v').
Proof. exact no_lost_write_reachable. Qed.
Print Assumptions C05_no_lost_write.

(* REGISTRATION KEEPS ENTRIES / what a step can do to the root: nothing; or (registrar) append one fresh
   entry; or (root store of a committing writer) keep the CURRENT length, keep the current entry of every
   table outside its lock set - in particular of tables registered after it loaded the root - and add
   exactly its own id to the tables of its lock set that it writes *)
Theorem C05_root_step_cases : forall ntab actors sched i, wf_system ntab actors ->
  let s := reach ntab actors sched in
  s_root (step s i) = s_root s \/
  (exists a, nth_error (s_actors s) i = Some a /\ a_kind a = KRegistrar /\ a_pc a = PRegLocked /\
             s_root (step s i) = s_root s ++ [mkV [] (s_nextw s) None]) \/
  (exists a, nth_error (s_actors s) i = Some a /\ a_pc a = PRootLocked /\ commits a = true /\
     length (s_root (step s i)) = length (s_root s) /\
     (forall t, ~ In t (a_locks a) -> nth_error (s_root (step s i)) t = nth_error (s_root s) t) /\
     (forall t v, In t (a_locks a) -> nth_error (s_root s) t = Some v ->
        exists v', nth_error (s_root (step s i)) t = Some v' /\
                   forall x, In x (tv_ids v') <-> (x = a_id a /\ In t (writes_of a)) \/ In x (tv_ids v))).
Proof. exact root_step_cases_reachable. Qed.
Print Assumptions C05_root_step_cases.

Example C05_nonvacuous_wf :
  wf_system 2 [(1%N, KWriter [0; 1] [0] true [] []); (2%N, KWriter [1] [1] true [] []); (3%N, KRegistrar)].
Proof.
  split.
  - intros ik [<-|[<-|[<-|[]]]]; cbn; repeat split; try (intros x Hx; cbn in Hx; intuition (subst; cbn; auto)).
  - cbn. repeat constructor; cbn; intuition discriminate.
Qed.
