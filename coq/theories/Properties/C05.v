(* Properties/C05.v — Writers of a table are serialised; no committed write is lost.
   First layer (DB/Model.v). Invariants over all schedules are in DB/Invariants.v (in progress). *)
From Coq Require Import Arith PeanoNat.
From SV Require Import DB.Model DB.Proofs.
Open Scope N_scope.

(* a table lock can only be taken when it is free: the acquiring step is disabled otherwise *)
Theorem C05_lock_requires_free_partial : forall s i a k t,
  nth_error (s_actors s) i = Some a -> a_pc a = PLocking k -> nth_error (a_locks a) k = Some t ->
  enabled s i = true -> nth_error (s_tlock s) t = Some None.
Proof.
  intros s i a k t Ha Hpc Hk. unfold enabled. rewrite Ha, Hpc, Hk.
  destruct (nth_error (s_tlock s) t) as [[h|]|]; congruence.
Qed.
Print Assumptions C05_lock_requires_free_partial.

Example C05_nonvacuous :
  let s := run (init_st 2 [(1, KWriter [0%nat] [0%nat] true [] []); (2, KWriter [0%nat] [0%nat] true [] [])])
               [0; 0; 0; 1; 1]%nat in
  enabled s 1 = false /\ enabled s 0 = true.
Proof. split; reflexivity. Qed.

(* ==== all schedules (DB/Invariants.v, DB/Visibility.v, DB/Reach.v) ================================
   `reach ntab actors sched = run (init_st ntab actors) sched` for ANY schedule of ANY well-formed system
   (wf_system: wf_actors + pairwise distinct transaction ids). Table contents are abstracted to the set of
   ids of the transactions whose writes they contain (tv_ids). *)
From SV Require Import DB.Invariants DB.Locks DB.Visibility DB.Reach.
Open Scope nat_scope.

(* MUTUAL EXCLUSION: two different actors never hold the same table (between WriteTxn returning and the
   unlock step of Commit / Abort an actor holds its whole lock set) *)
Theorem C05_mutual_exclusion : forall ntab actors sched i j a b t, wf_actors ntab actors ->
  let s := reach ntab actors sched in
  nth_error (s_actors s) i = Some a -> nth_error (s_actors s) j = Some b ->
  In t (held a) -> In t (held b) -> i = j.
Proof. exact mutual_exclusion_reachable. Qed.
Print Assumptions C05_mutual_exclusion.

(* while an actor holds table t, no step of any other actor changes the committed entry of t *)
Theorem C05_held_entry_stable : forall ntab actors sched i j b t, wf_actors ntab actors ->
  let s := reach ntab actors sched in
  j <> i -> nth_error (s_actors s) j = Some b -> In t (held b) ->
  nth_error (s_root (step s i)) t = nth_error (s_root s) t.
Proof. exact held_entry_stable_reachable. Qed.
Print Assumptions C05_held_entry_stable.

(* CLONE IS LATEST: from its root load to its root store (or abort) the private entry of every table a
   writer holds is the CURRENT committed entry (before its writes), resp. has the current committed id set
   plus its own id on the tables it writes (after them) *)
Theorem C05_clone_is_latest : forall ntab actors sched i a t, wf_system ntab actors ->
  let s := reach ntab actors sched in
  nth_error (s_actors s) i = Some a -> In t (a_locks a) ->
  (a_pc a = PRootLoaded -> nth_error (a_entries a) t = nth_error (s_root s) t) /\
  (a_pc a = PCommitIdx \/ a_pc a = PRootLocked \/ a_pc a = PCommitLoaded \/ a_pc a = PAbortBefore ->
   exists v e, nth_error (s_root s) t = Some v /\ nth_error (a_entries a) t = Some e /\
               forall x, In x (tv_ids e) <-> (x = a_id a /\ In t (writes_of a)) \/ In x (tv_ids v)).
Proof. exact clone_is_latest_reachable. Qed.
Print Assumptions C05_clone_is_latest.

(* ... hence a writer sees every write committed to a table it holds *)
Theorem C05_sees_all_committed : forall ntab actors sched i a j b t, wf_system ntab actors ->
  let s := reach ntab actors sched in
  nth_error (s_actors s) i = Some a -> In t (a_locks a) ->
  a_pc a = PRootLoaded \/ a_pc a = PCommitIdx \/ a_pc a = PRootLocked \/ a_pc a = PCommitLoaded \/ a_pc a = PAbortBefore ->
  nth_error (s_actors s) j = Some b -> committed b = true -> In t (writes_of b) ->
  exists e, nth_error (a_entries a) t = Some e /\ In (a_id b) (tv_ids e).
Proof. exact sees_all_committed_reachable. Qed.
Print Assumptions C05_sees_all_committed.

(* NO LOST WRITE: an id visible in the committed entry of t after schedule s1 is visible after s1 ++ s2 *)
Theorem C05_no_lost_write : forall ntab actors s1 s2 t v x, wf_system ntab actors ->
  nth_error (s_root (reach ntab actors s1)) t = Some v -> In x (tv_ids v) ->
  exists v', nth_error (s_root (reach ntab actors (s1 ++ s2))) t = Some v' /\ In x (tv_ids v').
Proof. exact no_lost_write_reachable. Qed.
Print Assumptions C05_no_lost_write.

(* REGISTRATION KEEPS ENTRIES / what a step can do to the root: nothing; or (registrar's store step, pc PRegLoaded)
   append one fresh entry to the CURRENT root; or (root store of a committing writer, pc PCommitLoaded) keep the
   CURRENT length, keep the current entry of every
   table outside its lock set - in particular of tables registered after it loaded the root - and add
   exactly its own id to the tables of its lock set that it writes *)
Theorem C05_root_step_cases : forall ntab actors sched i, wf_system ntab actors ->
  let s := reach ntab actors sched in
  s_root (step s i) = s_root s \/
  (exists a, nth_error (s_actors s) i = Some a /\ a_kind a = KRegistrar /\ a_pc a = PRegLoaded /\
             s_root (step s i) = s_root s ++ [mkV [] (s_nextw s) None]) \/
  (exists a, nth_error (s_actors s) i = Some a /\ a_pc a = PCommitLoaded /\ commits a = true /\
     length (s_root (step s i)) = length (s_root s) /\
     (forall t, ~ In t (a_locks a) -> nth_error (s_root (step s i)) t = nth_error (s_root s) t) /\
     (forall t v, In t (a_locks a) -> nth_error (s_root s) t = Some v ->
        exists v', nth_error (s_root (step s i)) t = Some v' /\
                   forall x, In x (tv_ids v') <-> (x = a_id a /\ In t (writes_of a)) \/ In x (tv_ids v))).
Proof. exact root_step_cases_reachable. Qed.
Print Assumptions C05_root_step_cases.

Example C05_nonvacuous_wf :
  wf_system 2 [(1%N, KWriter [0; 1] [0] true [] []); (2%N, KWriter [1] [1] true [] []); (3%N, KRegistrar)].
Proof.
  split.
  - intros ik [<-|[<-|[<-|[]]]]; cbn; repeat split; try (intros x Hx; cbn in Hx; intuition (subst; cbn; auto)).
  - cbn. repeat constructor; cbn; intuition discriminate.
Qed.

(* ==== the root read-modify-write inside db.mu (DB/Invariants.v inv_cur, DB/NoRootLock.v) ===========
   Commit loads the root inside db.mu (`currentRoot := *db.root.Load()`, step at pc PRootLocked, hook point
   "commit-root-loaded": a_cur := s_root) and stores the merge into THAT root at the next step (pc PCommitLoaded);
   registerTable likewise (`slices.Clone( *db.root.Load())`, pc PRegLocked, hook point "register-root-loaded"; store of
   a_cur ++ [new entry] at pc PRegLoaded). *)
From SV Require Import DB.NoRootLock.

(* THE LOADED ROOT IS THE CURRENT ROOT: in every reachable state an actor between its root load inside db.mu and
   its root store has loaded exactly the current committed root (nobody stored in between) *)
Theorem C05_loaded_root_is_current : forall ntab actors sched i a, wf_system ntab actors ->
  let s := reach ntab actors sched in
  nth_error (s_actors s) i = Some a ->
  (a_pc a = PCommitLoaded \/ a_pc a = PRegLoaded) -> a_cur a = s_root s.
Proof.
  intros ntab actors sched i a [Hwf _] s Ha Hp.
  exact (proj1 (loaded_root_is_current_reachable ntab actors sched i a Hwf Ha Hp)).
Qed.
Print Assumptions C05_loaded_root_is_current.

(* ... because it holds db.mu all the while (and db.mu is exclusive: C10_lock_invariant) *)
Theorem C05_loaded_holds_root_lock : forall ntab actors sched i a, wf_actors ntab actors ->
  let s := reach ntab actors sched in
  nth_error (s_actors s) i = Some a ->
  (a_pc a = PCommitLoaded \/ a_pc a = PRegLoaded) -> a_cur a = s_root s /\ s_rlock s = Some i /\ rholds a = true.
Proof.
  intros ntab actors sched i a Hwf s Ha Hp.
  destruct (loaded_root_is_current_reachable ntab actors sched i a Hwf Ha Hp) as [H1 H2].
  split; [exact H1|]. split; [exact H2|]. unfold rholds. destruct Hp as [-> | ->]; reflexivity.
Qed.
Print Assumptions C05_loaded_holds_root_lock.

(* non-vacuity: a registrar registered a second table after the writer cloned the root and before its Commit took
   db.mu: at PCommitLoaded the loaded root has 2 entries (the clone 1) and is the current root; a registrar at PRegLoaded *)
Example C05_loaded_root_nonvacuous :
  let acts := [(1%N, KWriter [0] [0] true [] []); (2%N, KRegistrar)] in
  wf_system 1 acts /\
  (let s := reach 1 acts (repeat 0 6 ++ repeat 1 5 ++ [0; 0]) in
   exists a, nth_error (s_actors s) 0 = Some a /\ a_pc a = PCommitLoaded /\
     length (a_entries a) = 1 /\ length (a_cur a) = 2 /\ a_cur a = s_root s /\ s_rlock s = Some 0) /\
  (let s := reach 1 acts (repeat 1 3) in
   exists a, nth_error (s_actors s) 1 = Some a /\ a_pc a = PRegLoaded /\ a_cur a = s_root s /\ s_rlock s = Some 1).
Proof.
  split; [split|split].
  - intros ik [<-|[<-|[]]]; cbn; repeat split; try (intros x Hx; cbn in Hx; intuition (subst; cbn; auto)).
  - cbn. repeat constructor; cbn; intuition discriminate.
  - exact loaded_root_nonvacuous.
  - exact loaded_root_nonvacuous_reg.
Qed.

(* REFUTATION (seeded change S2-C05-3: db.mu moved into the DB handle, i.e. a per-handle mutex that excludes nobody).
   `step_norlock s i = step (free_rlock s) i` is the model's step with the root lock's exclusion removed (it agrees with
   `step` whenever db.mu is free: C05_step_norlock_agrees; actors about to take db.mu are always enabled). Then two
   writers on DISJOINT tables (writer 1: table 0, writer 2: table 1) lose a committed write: both load the root, writer 1
   stores, writer 2 merges into its stale root and stores. At the end both have committed and finished, and the id of
   writer 1 is missing from the committed entry of table 0 (contrast C05_no_lost_write / C02_visible_iff). *)
Theorem C05_step_norlock_agrees : forall s i, s_rlock s = None -> step_norlock s i = step s i.
Proof. exact step_norlock_agrees. Qed.
Print Assumptions C05_step_norlock_agrees.

Theorem C05_lost_write_without_root_lock_refuted :
  exists sched, let s := run_norlock (init_st 2 lw_acts) sched in
    (forall i a, nth_error (s_actors s) i = Some a -> a_pc a = PDone /\ committed a = true) /\
    (exists a v, nth_error (s_actors s) 0 = Some a /\ In 0 (writes_of a) /\
                 nth_error (s_root s) 0 = Some v /\ ~ In (a_id a) (tv_ids v)) /\
    map tv_ids (s_root s) = [[]; [2%N]].
Proof. exact lost_write_without_root_lock. Qed.
Print Assumptions C05_lost_write_without_root_lock_refuted.

(* ... and the invariant above is what breaks: a writer at PCommitLoaded whose loaded root is no longer current *)
Theorem C05_loaded_root_stale_without_root_lock_refuted :
  exists sched i a, let s := run_norlock (init_st 2 lw_acts) sched in
    nth_error (s_actors s) i = Some a /\ a_pc a = PCommitLoaded /\ a_cur a <> s_root s.
Proof. exact loaded_root_stale_without_root_lock. Qed.
Print Assumptions C05_loaded_root_stale_without_root_lock_refuted.

(* ... a table registration is lost the same way (the writer's stale root is shorter than the stored one) *)
Theorem C05_lost_registration_without_root_lock_refuted :
  exists sched, let s := run_norlock (init_st 1 lr_acts) sched in
    map a_pc (s_actors s) = [PRootStored; PRegStored] /\ length (s_root s) = 1 /\ length (s_tlock s) = 2.
Proof. exact lost_registration_without_root_lock. Qed.
Print Assumptions C05_lost_registration_without_root_lock_refuted.

(* the witness system is well-formed, its writers' table sets are disjoint, and WITH db.mu the same schedule (writer 2's
   root-lock step is disabled while writer 1 holds db.mu) loses nothing *)
Example C05_lost_write_witness_wf :
  wf_system 2 lw_acts /\ (forall t, In t [0] -> ~ In t [1]) /\
  (let s := run (init_st 2 lw_acts) (lw_sched ++ [1; 1; 1]) in
   map a_pc (s_actors s) = [PDone; PDone] /\ map tv_ids (s_root s) = [[1%N]; [2%N]]).
Proof.
  split; [exact lw_wf|]. split; [exact lw_disjoint|]. vm_compute. split; reflexivity.
Qed.
