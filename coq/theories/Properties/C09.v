(* Properties/C09.v — Revisions are unique, monotonic and attributed to the right write. *)
From SV Require Import Base.Bytes Base.OrdMap Table.Model Table.Proofs.
Open Scope N_scope.

(* a successful insert/modify/CAS is assigned exactly the next table revision, which becomes
   the table revision; the stored object carries it *)
Theorem C09_write_gets_next_revision : forall g m p t t' old e,
  modify g m p t = (t', (old, e)) -> e = EOk ->
  t_rev t' = t_rev t + 1 /\ o_rev (new_object m p t) = t_rev t' /\
  om_get (p_id p) (t_primary t') = Some (new_object m p t).
Proof.
  intros g m p t t' old e H He. destruct (modify_ok_spec _ _ _ _ _ _ _ H He) as [H1 [H2 [H3 _]]].
  repeat split; auto. rewrite H2. apply om_get_insert_same.
Qed.
Print Assumptions C09_write_gets_next_revision.

(* rejected CAS leaves the revision (and everything else) unchanged *)
Theorem C09_rejected_keeps_revision : forall g m p t t' old e,
  modify g m p t = (t', (old, e)) -> e <> EOk -> t_rev t' = t_rev t.
Proof. intros. now rewrite (modify_rejected_identity _ _ _ _ _ _ _ H H0). Qed.
Print Assumptions C09_rejected_keeps_revision.

(* no-op delete and rejected CompareAndDelete leave it unchanged; a successful delete gets the next one *)
Theorem C09_delete_revision : forall g id t t' old e, delete g id t = (t', (old, e)) ->
  match om_get id (t_primary t) with
  | None => t_rev t' = t_rev t
  | Some o => if (0 <? g) && negb (o_rev o =? g) then t_rev t' = t_rev t else t_rev t' = t_rev t + 1
  end.
Proof.
  intros g id t t' old e H. destruct (delete_spec _ _ _ _ _ _ H) as [_ Hs].
  destruct (om_get id (t_primary t)); [|destruct Hs as [_ ->]; auto].
  destruct ((0 <? g) && negb (o_rev o =? g)); [destruct Hs as [_ ->]; auto|tauto].
Qed.
Print Assumptions C09_delete_revision.

Theorem C09_revision_never_decreases : forall g m p id t,
  t_rev t <= t_rev (fst (modify g m p t)) /\ t_rev t <= t_rev (fst (delete g id t)).
Proof. intros; split; [apply modify_rev_mono|apply delete_rev_mono]. Qed.
Print Assumptions C09_revision_never_decreases.

(* an aborted transaction leaves the committed revision (the whole committed root) unchanged *)
Theorem C09_abort_keeps_revision : forall d tabs ops,
  d_txn d = None -> forallb txn_local ops = true ->
  d_root (fst (run d (OBegin tabs :: ops ++ [OAbort]))) = d_root d.
Proof. intros. now apply abort_restores_root. Qed.
Print Assumptions C09_abort_keeps_revision.

Example C09_nonvacuous : t_rev (fst (modify 0 false (mkP [97] 1 [] [] [] []) empty_table)) = 1.
Proof. reflexivity. Qed.
