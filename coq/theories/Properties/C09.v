(* Properties/C09.v — Revisions are unique, monotonic and attributed to the right write. *)
From SV Require Import Base.Bytes Base.OrdMap Table.Model Table.Proofs.
Open Scope N_scope.

(* a successful insert/modify/CAS is assigned exactly the next table revision, which becomes
   the table revision; the stored object carries it *)
Theorem C09_write_gets_next_revision : forall g m p t t' old e,
  modify g m p t = (t', (old, e)) -> e = EOk ->
  t_rev t' = t_rev t + 1 /\ o_rev (new_object m p t) = t_rev t' /\
  om_get (p_id p) (t_primary t') = Some (new_object m p t).
Proof.
  intros g m p t t' old e H He. destruct (modify_ok_spec _ _ _ _ _ _ _ H He) as [H1 [H2 [H3 _]]].
  repeat split; auto. rewrite H2. apply om_get_insert_same.
Qed.
Print Assumptions C09_write_gets_next_revision.

(* rejected CAS leaves the revision (and everything else) unchanged *)
Theorem C09_rejected_keeps_revision : forall g m p t t' old e,
  modify g m p t = (t', (old, e)) -> e <> EOk -> t_rev t' = t_rev t.
Proof. intros. now rewrite (modify_rejected_identity _ _ _ _ _ _ _ H H0). Qed.
Print Assumptions C09_rejected_keeps_revision.

(* no-op delete and rejected CompareAndDelete leave it unchanged; a successful delete gets the next one *)
Theorem C09_delete_revision : forall g id t t' old e, delete g id t = (t', (old, e)) ->
  match om_get id (t_primary t) with
  | None => t_rev t' = t_rev t
  | Some o => if (0 <? g) && negb (o_rev o =? g) then t_rev t' = t_rev t else t_rev t' = t_rev t + 1
  end.
Proof.
  intros g id t t' old e H. destruct (delete_spec _ _ _ _ _ _ H) as [_ Hs].
  destruct (om_get id (t_primary t)); [|destruct Hs as [_ ->]; auto].
  destruct ((0 <? g) && negb (o_rev o =? g)); [destruct Hs as [_ ->]; auto|tauto].
Qed.
Print Assumptions C09_delete_revision.

Theorem C09_revision_never_decreases : forall g m p id t,
  t_rev t <= t_rev (fst (modify g m p t)) /\ t_rev t <= t_rev (fst (delete g id t)).
Proof. intros; split; [apply modify_rev_mono|apply delete_rev_mono]. Qed.
Print Assumptions C09_revision_never_decreases.

(* an aborted transaction leaves the committed revision (the whole committed root) unchanged *)
Theorem C09_abort_keeps_revision : forall d tabs ops,
  d_txn d = None -> forallb txn_local ops = true ->
  d_root (fst (run d (OBegin tabs :: ops ++ [OAbort]))) = d_root d.
Proof. intros. now apply abort_restores_root. Qed.
Print Assumptions C09_abort_keeps_revision.

(* ==== history level (Table/Inv.v .. Inv6.v) ======================================================= *)
From SV Require Import KeyEnc.Model Table.InvDefs Table.Inv Table.Inv2 Table.Inv3 Table.Inv4 Table.Inv6.

(* the core invariant TInv (Table/InvDefs.v: sorted indexes; revision index = live objects keyed by
   revision; graveyard indexes likewise; all revisions in 1..t_rev and pairwise distinct) holds for the
   empty table and is preserved by every table transformer while revisions stay below 2^64 *)
Theorem C09_invariant_of_table_ops :
  TInv empty_table /\
  (forall g m p t, TInv t -> rev_bound (fst (modify g m p t)) -> TInv (fst (modify g m p t))) /\
  (forall g id t, TInv t -> rev_bound (fst (delete g id t)) -> TInv (fst (delete g id t))) /\
  (forall t, TInv t -> rev_bound (delete_all t) -> TInv (delete_all t)) /\
  (forall keys t, TInv t -> rev_bound t -> TInv (gc_apply_table keys t)) /\
  (forall t trk ini, TInv t -> TInv (set_meta t trk ini)).
Proof. exact TInv_table_ops. Qed.
Print Assumptions C09_invariant_of_table_ops.

(* ... hence by every step of the database model, for every table value held anywhere (root, open
   transaction, its oldRoot, snapshots), and along every run from the initial state *)
Theorem C09_invariant_of_histories :
  (forall n, all_tables TInv (init_db n)) /\
  (forall d o, all_tables TInv d -> all_tables rev_bound (fst (step d o)) -> all_tables TInv (fst (step d o))) /\
  (forall ops d, all_tables TInv d -> run_bounded d ops -> all_tables TInv (fst (run d ops))).
Proof. exact DInv_histories. Qed.
Print Assumptions C09_invariant_of_histories.

(* in every table reachable along a history: live objects have pairwise distinct revisions, so have
   retained-deleted ones, no live and deleted object share one, and every revision is in 1..t_rev
   (the table revision is an upper bound of all revisions assigned) *)
Theorem C09_reachable_revisions_unique_and_bounded : forall n ops t,
  run_bounded (init_db n) ops -> in_db (fst (run (init_db n) ops)) t ->
  (forall o1 o2, live t o1 -> live t o2 -> o_rev o1 = o_rev o2 -> o1 = o2) /\
  (forall o, live t o \/ dead t o -> 1 <= o_rev o <= t_rev t) /\
  (forall o1 o2, dead t o1 -> dead t o2 -> o_rev o1 = o_rev o2 -> o1 = o2) /\
  (forall o1 o2, live t o1 -> dead t o2 -> o_rev o1 <> o_rev o2).
Proof. exact reachable_rev_facts. Qed.
Print Assumptions C09_reachable_revisions_unique_and_bounded.

(* a successful Insert / Modify / CompareAndSwap in a write transaction: the object read back in the
   same transaction carries exactly the new table revision = old table revision + 1 *)
Theorem C09_txn_write_gets_table_revision : forall d o tab g m p es old t prev,
  write_op o = Some (tab, g, m, p) ->
  d_txn d = Some (es, old) -> nth_error es tab = Some (t, true) ->
  snd (step d o) = OutWrite prev EOk ->
  let d' := fst (step d o) in
  let obj := new_object m p t in
  prev = om_get (p_id p) (t_primary t) /\
  o_rev obj = t_rev t + 1 /\
  snd (step d' (OQuery STxn tab (QGet IPrimary (p_id p)))) = OutGet (Some obj) /\
  snd (step d' (OQuery STxn tab QRev)) = OutNum (o_rev obj) /\
  d_root d' = d_root d.
Proof. exact read_own_write. Qed.
Print Assumptions C09_txn_write_gets_table_revision.

(* the committed revision of a table never decreases in one step (TxnInv: Table/Inv3.v, an invariant
   of all histories) ... *)
Theorem C09_committed_revision_step : forall d o i t t', TxnInv d ->
  nth_error (d_root d) i = Some t -> nth_error (d_root (fst (step d o))) i = Some t' -> t_rev t <= t_rev t'.
Proof. exact root_rev_mono_step. Qed.
Print Assumptions C09_committed_revision_step.

(* ... and along any history from the initial state, split anywhere: every committed table persists
   and its revision is monotone (aborts, snapshots, change iterators, collection included) *)
Theorem C09_committed_revision_never_decreases : forall n ops1 ops2 i t,
  let d1 := fst (run (init_db n) ops1) in
  nth_error (d_root d1) i = Some t ->
  exists t', nth_error (d_root (fst (run d1 ops2))) i = Some t' /\ t_rev t <= t_rev t'.
Proof. exact committed_revision_monotone. Qed.
Print Assumptions C09_committed_revision_never_decreases.

(* LowerBound(ByRevision(r)) = the live objects with revision >= r, each once, in strictly ascending
   revision order (rev_ascending: Table/Inv3.v) *)
Theorem C09_lower_bound_by_revision : forall t r, TInv t -> rev_bound t -> r < 18446744073709551616 ->
  q_lower_bound IRevision (rev_key r) t = vals (om_lower_bound (rev_key r) (t_revidx t)) /\
  rev_ascending (q_lower_bound IRevision (rev_key r) t) /\
  (forall o, In o (q_lower_bound IRevision (rev_key r) t) <-> (live t o /\ r <= o_rev o)).
Proof. exact lower_bound_revision. Qed.
Print Assumptions C09_lower_bound_by_revision.

(* a successful Delete / CompareAndDelete on a table with a delete tracker is assigned the next table
   revision too: the retained object carries exactly the new table revision in both graveyard indexes *)
Theorem C09_delete_retains_at_table_revision : forall g id t o, om_get id (t_primary t) = Some o ->
  (0 <? g) && negb (o_rev o =? g) = false -> t_trackers t <> [] ->
  let t' := fst (delete g id t) in
  t_rev t' = t_rev t + 1 /\ om_get id (t_grave t') = Some (mkO (o_data o) (t_rev t')) /\
  om_get (rev_key (t_rev t')) (t_graverev t') = Some (mkO (o_data o) (t_rev t')).
Proof. exact delete_retains_at_table_revision. Qed.
Print Assumptions C09_delete_retains_at_table_revision.

Example C09_nonvacuous : t_rev (fst (modify 0 false (mkP [97] 1 [] [] [] []) empty_table)) = 1.
Proof. reflexivity. Qed.

Example C09_history_nonvacuous :
  let ops := [OBegin [0%nat]; OInsert 0 (mkP [97] 1 [] [] [] []); OInsert 0 (mkP [98] 2 [] [] [] []);
              ODelete 0 [97]; OCommit 0] in
  run_bounded (init_db 1) ops /\
  match d_root (fst (run (init_db 1) ops)) with
  | [t] => t_rev t = 3 /\ map o_rev (q_lower_bound IRevision (rev_key 1) t) = [2]
  | _ => False
  end.
Proof. split; [apply run_bounded_b_ok; vm_compute; reflexivity|vm_compute; auto]. Qed.
