(* Properties/C10.v — No deadlock; open writers block only transactions sharing a table.
   First layer: the lock order. The no-deadlock / independence theorems over all schedules are
   in DB/Locks.v (in progress) and will be quoted here. *)
From Coq Require Import Arith PeanoNat.
From SV Require Import DB.Model DB.Proofs.

(* WriteTxn on any multiset of tables, in any order, acquires a duplicate-free, strictly increasing
   sequence of table locks containing exactly the requested tables *)
Theorem C10_lock_order_partial : forall tabs,
  strictly_inc (lock_order tabs) /\ forall t, In t (lock_order tabs) <-> In t tabs.
Proof. intros; split; [apply lock_order_strictly_increasing|apply lock_order_same_set]. Qed.
Print Assumptions C10_lock_order_partial.

(* a step that is not enabled changes nothing: a blocked actor has no effect, readers take no locks *)
Theorem C10_blocked_step_is_identity : forall s i, enabled s i = false -> step s i = s.
Proof. exact step_disabled. Qed.
Print Assumptions C10_blocked_step_is_identity.

Example C10_nonvacuous : lock_order [2; 0; 2; 1; 0]%nat = [0; 1; 2]%nat.
Proof. reflexivity. Qed.

(* ==== all schedules (DB/Invariants.v, DB/Locks.v, DB/Reach.v) ====================================
   `reach ntab actors sched = run (init_st ntab actors) sched`: the state after ANY schedule of ANY
   well-formed actor list (wf_actors: every table a writer names exists from the start, writes and
   initializer tables are among its lock set; any number of registrars). *)
From SV Require Import DB.Invariants DB.Locks DB.Reach.
Open Scope nat_scope.

(* the lock invariant: table mutex t is held by i exactly when actor i's program counter is in the range
   in which it holds t (`held`: the first k locks of its sorted lock list while locking, all of them from the
   last acquisition to the unlock step of Commit / Abort); db.mu is held by i exactly at the three pcs (locked, root loaded, root stored)
   between its Lock and Unlock; and the db.mu holder is never at a lock-acquiring pc and is always enabled *)
Theorem C10_lock_invariant : forall ntab actors sched, wf_actors ntab actors ->
  let s := reach ntab actors sched in
  (forall t i, nth_error (s_tlock s) t = Some (Some i) <->
               exists a, nth_error (s_actors s) i = Some a /\ In t (held a)) /\
  (forall i, s_rlock s = Some i <-> exists a, nth_error (s_actors s) i = Some a /\ rholds a = true) /\
  (forall i a, nth_error (s_actors s) i = Some a -> rholds a = true -> acquiring a = false /\ enabled s i = true).
Proof. exact lock_invariant_reachable. Qed.
Print Assumptions C10_lock_invariant.

(* every actor's lock list is strictly increasing, within its declared table set, and its lock index is in range *)
Theorem C10_lock_order_reachable : forall ntab actors sched i a, wf_actors ntab actors ->
  nth_error (s_actors (reach ntab actors sched)) i = Some a ->
  pc_ok (a_kind a) (a_pc a) = true /\ strictly_inc (a_locks a) /\
  (forall t, In t (a_locks a) -> In t (tabs_of a) /\ t < ntab) /\
  (forall k, a_pc a = PLocking k \/ a_pc a = PLocked k -> k < length (a_locks a)).
Proof. exact actor_wf_reachable. Qed.
Print Assumptions C10_lock_order_reachable.

(* NO DEADLOCK: in every reachable state in which some actor has not finished, some actor has an enabled step *)
Theorem C10_no_deadlock : forall ntab actors sched, wf_actors ntab actors ->
  let s := run (init_st ntab actors) sched in
  (exists i a, nth_error (s_actors s) i = Some a /\ a_pc a <> PDone) -> exists i, enabled s i = true.
Proof. exact no_deadlock. Qed.
Print Assumptions C10_no_deadlock.

(* INDEPENDENCE (1): an actor is enabled exactly when the lock it is about to take is free; every other pc
   is always enabled *)
Theorem C10_enabled_iff_free : forall ntab actors sched, wf_actors ntab actors ->
  let s := reach ntab actors sched in
  (forall i a k t, nth_error (s_actors s) i = Some a -> a_pc a = PLocking k -> nth_error (a_locks a) k = Some t ->
     (enabled s i = true <-> forall j, ~ holds (s_actors s) j t)) /\
  (forall i a, nth_error (s_actors s) i = Some a -> a_pc a = PCommitIdx \/ a_pc a = PRegBefore ->
     (enabled s i = true <-> forall j, ~ rholder (s_actors s) j)) /\
  (forall i a, nth_error (s_actors s) i = Some a -> a_pc a <> PDone -> acquiring a = false -> enabled s i = true).
Proof. exact enabled_iff_free_reachable. Qed.
Print Assumptions C10_enabled_iff_free.

(* INDEPENDENCE (2): a blocked unfinished actor waits either for a table that is in its own AND in the
   (different) holder's declared table set, or for db.mu, whose (different) holder is enabled *)
Theorem C10_blocked_only_by_sharing : forall ntab actors sched i a, wf_actors ntab actors ->
  let s := reach ntab actors sched in
  nth_error (s_actors s) i = Some a -> a_pc a <> PDone -> enabled s i = false ->
  (exists k t j b, a_pc a = PLocking k /\ nth_error (a_locks a) k = Some t /\ j <> i /\
      nth_error (s_actors s) j = Some b /\ In t (held b) /\ In t (tabs_of a) /\ In t (tabs_of b)) \/
  (exists j b, (a_pc a = PCommitIdx \/ a_pc a = PRegBefore) /\ j <> i /\
      nth_error (s_actors s) j = Some b /\ rholds b = true /\ enabled s j = true).
Proof. exact blocked_only_by_sharing_reachable. Qed.
Print Assumptions C10_blocked_only_by_sharing.

(* INDEPENDENCE (3): a writer whose table set is disjoint from everybody else's never waits for a table *)
Theorem C10_disjoint_never_waits : forall ntab actors sched i a k, wf_actors ntab actors ->
  let s := reach ntab actors sched in
  nth_error (s_actors s) i = Some a -> a_pc a = PLocking k ->
  (forall j b t, j <> i -> nth_error (s_actors s) j = Some b -> In t (tabs_of a) -> ~ In t (tabs_of b)) ->
  enabled s i = true.
Proof. exact disjoint_never_waits_reachable. Qed.
Print Assumptions C10_disjoint_never_waits.

(* INDEPENDENCE (4): a step of actor j makes h the holder of table t only if h = j, t was free and t is in
   j's own lock set *)
Theorem C10_step_takes_only_own_tables : forall ntab actors sched j t h, wf_actors ntab actors ->
  let s := reach ntab actors sched in
  nth_error (s_tlock (step s j)) t = Some (Some h) -> nth_error (s_tlock s) t <> Some (Some h) ->
  h = j /\ nth_error (s_tlock s) t = Some None /\
  exists b, nth_error (s_actors s) j = Some b /\ In t (a_locks b) /\ In t (tabs_of b).
Proof. exact step_takes_only_own_tables_reachable. Qed.
Print Assumptions C10_step_takes_only_own_tables.

(* TERMINATION: `total` is the exact number of remaining micro-steps; every enabled step decreases it by one *)
Theorem C10_step_decreases : forall ntab actors sched i, wf_actors ntab actors ->
  let s := reach ntab actors sched in
  enabled s i = true -> S (total (step s i)) = total s.
Proof. exact step_decreases_reachable. Qed.
Print Assumptions C10_step_decreases.

(* ... so a schedule that only picks enabled actors has at most step_bound (<= 12 + 2*|tabs| per writer, 6 per
   registrar) steps, has finished everybody exactly when it has `total` many steps, and can be extended as long
   as somebody is unfinished *)
Theorem C10_terminates : forall ntab actors sched, wf_actors ntab actors ->
  let s0 := init_st ntab actors in
  all_enabled s0 sched ->
  length sched + total (run s0 sched) = total s0 /\
  length sched <= step_bound actors /\
  (all_done (run s0 sched) <-> length sched = total s0) /\
  (~ all_done (run s0 sched) -> exists i, enabled (run s0 sched) i = true).
Proof. exact terminates. Qed.
Print Assumptions C10_terminates.

(* ... and from every reachable state there is a schedule of enabled steps that finishes everybody *)
Theorem C10_completion_exists : forall ntab actors sched, wf_actors ntab actors ->
  let s := reach ntab actors sched in
  exists more, all_enabled s more /\ length more = total s /\ all_done (run s more).
Proof. exact completion_exists_reachable. Qed.
Print Assumptions C10_completion_exists.

Example C10_nonvacuous_wf :
  wf_actors 2 [(1%N, KWriter [1; 0; 1] [0] true [] []); (2%N, KWriter [0] [0] false [] []); (3%N, KRegistrar)].
Proof.
  intros ik [<-|[<-|[<-|[]]]]; cbn; repeat split; try (intros x Hx; cbn in Hx; intuition (subst; cbn; auto)).
Qed.
