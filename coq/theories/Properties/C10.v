(* Properties/C10.v — No deadlock; open writers block only transactions sharing a table.
   First layer: the lock order. The no-deadlock / independence theorems over all schedules are
   in DB/Locks.v (in progress) and will be quoted here. *)
From Coq Require Import Arith PeanoNat.
From SV Require Import DB.Model DB.Proofs.

(* WriteTxn on any multiset of tables, in any order, acquires a duplicate-free, strictly increasing
   sequence of table locks containing exactly the requested tables *)
Theorem C10_lock_order_partial : forall tabs,
  strictly_inc (lock_order tabs) /\ forall t, In t (lock_order tabs) <-> In t tabs.
Proof. intros; split; [apply lock_order_strictly_increasing|apply lock_order_same_set]. Qed.
Print Assumptions C10_lock_order_partial.

(* a step that is not enabled changes nothing: a blocked actor has no effect, readers take no locks *)
Theorem C10_blocked_step_is_identity : forall s i, enabled s i = false -> step s i = s.
Proof. exact step_disabled. Qed.
Print Assumptions C10_blocked_step_is_identity.

Example C10_nonvacuous : lock_order [2; 0; 2; 1; 0]%nat = [0; 1; 2]%nat.
Proof. reflexivity. Qed.
