(* Properties/C16.v — Reconciler retry pacing and WaitUntilReconciled contract.
   Only statements closed by `exact`, with their assumptions printed. *)
From Coq Require Import List NArith Bool.
From SV Require Import Reconciler.Retries Reconciler.Model Reconciler.RetriesProofs Reconciler.CommitProofs Reconciler.Refuted
  Reconciler.RoundInv Reconciler.Runs Reconciler.TableWf Reconciler.Refresh.
Import ListNotations.
Open Scope N_scope.

(* backoff arithmetic: Duration n = min (min*2^n) max *)
Theorem C16_backoff_ge_min : forall bmin bmax n, bmin <= bmax -> bmin <= duration bmin bmax n.
Proof. exact duration_ge_min. Qed.
Print Assumptions C16_backoff_ge_min.

Theorem C16_backoff_le_max : forall bmin bmax n, duration bmin bmax n <= bmax.
Proof. exact duration_le_max. Qed.
Print Assumptions C16_backoff_le_max.

Theorem C16_backoff_monotone : forall bmin bmax n m, n <= m -> duration bmin bmax n <= duration bmin bmax m.
Proof. exact duration_mono. Qed.
Print Assumptions C16_backoff_monotone.

Theorem C16_backoff_doubles_below_cap : forall bmin bmax n,
  bmin * 2 ^ (n + 1) <= bmax -> duration bmin bmax (n + 1) = 2 * duration bmin bmax n.
Proof. exact duration_doubles. Qed.
Print Assumptions C16_backoff_doubles_below_cap.

(* an item that failed at time `now` (Add) is queued for now + Duration(numRetries): never sooner than
   now + min, never later than now + max; processRetries pops only items with retryAt <= now *)
Theorem C16_retry_not_before_backoff : forall q o rev orig del now it,
  q_min q <= q_max q ->
  find_item (o_pk o) (q_items (r_add q o rev orig del now)) = Some it ->
  now + q_min q <= ri_at it /\ ri_at it <= now + q_max q /\ ri_at it = now + duration (q_min q) (q_max q) (ri_n it).
Proof. exact add_not_due_before. Qed.
Print Assumptions C16_retry_not_before_backoff.

(* consecutive failures: Add increments numRetries (so the wait does not shrink: C16_backoff_monotone) *)
Theorem C16_add_increments_numretries : forall q o rev orig del now,
  n_of (r_add q o rev orig del now) (o_pk o) = Some (match n_of q (o_pk o) with Some n => n + 1 | None => 1 end).
Proof. exact n_of_add_same. Qed.
Print Assumptions C16_add_increments_numretries.

(* numRetries only grows between Clears ... *)
Theorem C16_numretries_only_grows : forall q op pk n, uniq q -> op <> QClear pk -> n_of q pk = Some n ->
  exists n', n_of (apply_qop q op) pk = Some n' /\ n <= n'.
Proof. exact numretries_only_grows. Qed.
Print Assumptions C16_numretries_only_grows.

(* ... and Clear (on success or on a processed change of that key) starts the backoff over *)
Theorem C16_clear_resets_backoff : forall q pk o rev orig del now, o_pk o = pk ->
  n_of (r_clear q pk) pk = None /\ n_of (r_add (r_clear q pk) o rev orig del now) pk = Some 1.
Proof.
  intros q pk o rev orig del now H. split; [exact (n_of_clear_same q pk)|].
  subst pk. rewrite n_of_add_same, n_of_clear_same. reflexivity.
Qed.
Print Assumptions C16_clear_resets_backoff.

(* timer re-arm: after every queue operation, if an item is queued a timer is armed (or has fired)
   with a deadline not after the head's retryAt, so an idle reconciler wakes up when the head is due *)
Theorem C16_timer_rearmed : forall q op, timer_ok q -> timer_ok (apply_qop q op).
Proof. exact timer_ok_apply. Qed.
Print Assumptions C16_timer_rearmed.

Theorem C16_due_head_wakes_loop : forall q now t, timer_ok q -> r_top q = Some t -> ri_at t <= now -> r_fired q now = true.
Proof. exact due_head_fires. Qed.
Print Assumptions C16_due_head_wakes_loop.

(* low watermark: zero exactly when no failed object awaits retry, else the minimum origRev *)
Theorem C16_low_watermark_zero_iff : forall q, (forall i, In i (q_items q) -> 0 < ri_orig i) ->
  (r_low_watermark q = 0 <-> q_items q = []).
Proof. exact low_watermark_zero_iff. Qed.
Print Assumptions C16_low_watermark_zero_iff.

Theorem C16_low_watermark_is_min : forall q, q_items q <> nil -> lwm_is_min q.
Proof. exact low_watermark_is_min. Qed.
Print Assumptions C16_low_watermark_is_min.

(* with fix cd98c3d the origRev of a failing change survives retry + status commit unchanged, so the
   minimum above is the revision of the oldest failing CHANGE (not of the reconciler's Error writes) *)
Theorem C16_origrev_stable : forall e snap q res it e1 q1 res1 now t q2 t' q',
  ri_del it = false -> keyed t ->
  process_single e snap false q res (ri_obj it) (ri_rev it) (ri_orig it) (ri_del it) = (e1, q1, res1) ->
  exists r, res1 = res ++ [r] /\ r_orig r = ri_orig it /\ o_pk (r_obj r) = ri_pk it /\
    (commit_one true true now (t, q2) r = (t', q') ->
     orig_of q' (ri_pk it) = orig_of q2 (ri_pk it) \/ orig_of q' (ri_pk it) = Some (ri_orig it)).
Proof. exact origrev_stable. Qed.
Print Assumptions C16_origrev_stable.

(* the pre-fix code violates that clause: one change at revision 1 keeps failing, watermark 1,2,3 *)
Theorem C16_low_watermark_drift_refuted :
  exists cf e0, cf = drift_cf /\ e0 = drift_e0 /\
    run_drift false = ([1; 2; 3], [(1, 1, kind_code Error)]) /\
    run_drift true = ([1; 1; 1], [(1, 1, kind_code Error)]).
Proof. exact low_watermark_drift_refuted. Qed.
Print Assumptions C16_low_watermark_drift_refuted.

(* WaitUntilReconciled(req) returns without error iff the progress revision has reached req; the
   progress revision only grows and is the revision of the last change delivered in a completed round *)
Theorem C16_wait_until_reconciled : forall s req,
  (snd (wur s req) = true <-> req <= k_prev s) /\
  forall rev lwm, k_prev s <= k_prev (progress_update s rev lwm) /\ rev <= k_prev (progress_update s rev lwm) /\
                  k_plwm (progress_update s rev lwm) = lwm.
Proof. exact wur_spec. Qed.
Print Assumptions C16_wait_until_reconciled.

(* WaitUntilReconciled(req) returns nil only after every change <= req has been attempted: in every
   reachable state of the reconciler (single or batch mode, any history of writes, faults, timings) the reported
   revision k_prev is at most the change cursor (the revision of the last change delivered in a completed
   round), and every object with revision <= k_prev is no longer Pending/Refreshing (its status was written
   by a status commit, i.e. after an Update of that version: C15_commit_effect) and every deletion with
   revision <= k_prev has been handed to Delete/DeleteBatch at least once (Acall: a call in the log).
   (The Go oracles wur-ok-before-change-attempted and progress-revision-ahead-of-attempts check the same
   on the implementation on every run.) *)
Theorem C16_wur_only_after_attempted : forall cf st, reach cf st ->
  k_prev (snd st) <= k_cursor (snd st) /\ attempted_upto (fst st) (snd st) /\
  forall req, snd (wur (snd st) req) = true -> forall pk sl, slot_of (e_tab (fst st)) pk = Some sl -> slot_rev sl <= req ->
    match sl with Live o _ => is_pending o = false | Dead _ r => Acall (fst st) pk r end.
Proof. exact wur_only_after_attempted. Qed.
Print Assumptions C16_wur_only_after_attempted.

(* the refresher (reconciler.go refreshLoop) is the only other writer inside the library. "The backoff starts over
   after the object changes or succeeds" - and not because the refresher came by: in every reachable state an
   object with a queued update retry is left exactly as it is by the refresher's write transaction, whatever
   (stale) snapshot the refresher took its (object, revision) pair from: the table is unchanged, so the next round
   sees no change of that key, Clear is not called and the item keeps its retryAt and numRetries
   (C16_numretries_only_grows, C16_retry_not_before_backoff). Timing of the sweep (UpdatedAt, RefreshInterval,
   RefreshRateLimiter) is not modelled: (o, rev) is ANY Done object of ANY earlier snapshot. Checked on the
   implementation by the directed probe `probe refreshbackoff` (!BAD:C16:re-attempt-...-after-failure). *)
Theorem C16_refresher_never_restarts_a_backoff : forall cf e s snap o rev it, reach cf (e, s) ->
  twf snap -> tstep snap (e_tab e) -> refresher_saw snap o rev ->
  In it (q_items (k_ret s)) -> ri_del it = false -> ri_pk it = o_pk o ->
  refresh_write (e_tab e) o rev = e_tab e.
Proof. exact refresher_leaves_queued_retries_alone. Qed.
Print Assumptions C16_refresher_never_restarts_a_backoff.

(* the revision comparison is what this rests on: with `if ok` alone (seeded change S3-C16-2) the Error object
   of a failing update (retry queued for time 60, numRetries 2) is overwritten with Refreshing at time 20, Update
   is called again at once and the item is re-queued for time 40 with numRetries 1 *)
Theorem C16_refresher_no_revision_check_refuted :
  refresher_saw rf_snap rf_o rf_rev /\
  t_live rf_err 1 = Some (mkObj 1 2 Error 5 0, 5) /\
  e_now (fst rf_st1) = 20 /\ items_of (snd rf_st1) = [(1, 60, 2)] /\
  t_live (refresh_write_nocheck rf_err rf_o) 1 = Some (mkObj 1 2 Refreshing 6 0, 6) /\
  refresh_write rf_err rf_o rf_rev = rf_err /\
  calls_of (fst (rf_next rf_err)) = [] /\ items_of (snd (rf_next rf_err)) = [(1, 60, 2)] /\
  calls_of (fst (rf_next (refresh_write_nocheck rf_err rf_o))) = [(20, 0, 1, false)] /\
  items_of (snd (rf_next (refresh_write_nocheck rf_err rf_o))) = [(1, 40, 1)].
Proof. exact refresh_no_revision_check_refuted. Qed.
Print Assumptions C16_refresher_no_revision_check_refuted.

Example C16_nonvacuous :
  duration 10 80 1 = 20 /\ duration 10 80 5 = 80 /\
  timer_ok (r_add (r_new 10 80) (mkObj 1 1 Pending 1 0) 2 1 false 100) /\
  r_low_watermark (r_add (r_add (r_new 10 80) (mkObj 1 1 Pending 1 0) 2 7 false 100) (mkObj 2 1 Pending 2 0) 3 5 false 100) = 5.
Proof.
  split; [vm_compute; reflexivity|]. split; [vm_compute; reflexivity|].
  split; [apply add_timer_ok; apply timer_ok_new|vm_compute; reflexivity].
Qed.

(* ==================================================================================================
   reconciler/retries.go at heap level: the two container/heap priority queues with their index bookkeeping
   (Reconciler/Heap.v, modelled from retries.go and container/heap; engine retryq compares it with the real
   queue, ties included) and its refinement to the list model Retries.v used above. *)
From Coq Require Import ZArith.
From SV Require Import Reconciler.Heap Reconciler.HeapProofs Reconciler.HeapInv Reconciler.HeapRefine Reconciler.HeapRefuted.

(* ---- the two container/heap queues of retries.go: invariant (HInv = one item per key; item.index / revIndex =
   position in queue.items / revQueue.items or -1; heap order of both arrays; every item of the map is in revQueue) *)
Theorem C16_heap_inv_initial : forall a b, HInv (hq_new a b).
Proof. exact HInv_new. Qed.
Print Assumptions C16_heap_inv_initial.

Theorem C16_heap_inv_preserved : forall hs op, HInv hs -> HInv (apply_hop hs op).
Proof. exact HInv_apply. Qed.
Print Assumptions C16_heap_inv_preserved.

Theorem C16_heap_inv_reachable : forall hs, hreach hs -> HInv hs.
Proof. exact HInv_reach. Qed.
Print Assumptions C16_heap_inv_reachable.

(* (a) both arrays are duplicate-free; queue.items is a subset of revQueue.items = the keys of the map *)
Theorem C16_heap_arrays : forall hs, HInv hs ->
  NoDup (hs_q hs) /\ NoDup (hs_r hs) /\
  (forall pk, In pk (hs_q hs) -> In pk (hs_r hs)) /\
  (forall pk, In pk (hs_r hs) <-> In pk (map hi_pk (hs_store hs))).
Proof. exact HInv_arrays. Qed.
Print Assumptions C16_heap_arrays.

(* (b) index bookkeeping *)
Theorem C16_heap_index_bookkeeping : forall hs pk it, HInv hs -> st_get pk (hs_store hs) = Some it ->
  (forall i, (i < length (hs_q hs))%nat -> (nth i (hs_q hs) 0 = pk <-> hi_index it = Z.of_nat i)) /\
  (~ In pk (hs_q hs) <-> hi_index it = (-1)%Z) /\
  (forall i, (i < length (hs_r hs))%nat -> (nth i (hs_r hs) 0 = pk <-> hi_revIndex it = Z.of_nat i)) /\
  In pk (hs_r hs) /\ hi_revIndex it <> (-1)%Z.
Proof. exact HInv_index. Qed.
Print Assumptions C16_heap_index_bookkeeping.

(* (c) heap order: a parent is not greater than its children, in both arrays *)
Theorem C16_heap_order : forall hs, HInv hs ->
  (forall j, (0 < j < length (hs_q hs))%nat ->
     hi_at (st_getd (nth (Nat.div (j - 1) 2) (hs_q hs) 0) (hs_store hs)) <= hi_at (st_getd (nth j (hs_q hs) 0) (hs_store hs))) /\
  (forall j, (0 < j < length (hs_r hs))%nat ->
     hi_orig (st_getd (nth (Nat.div (j - 1) 2) (hs_r hs) 0) (hs_store hs)) <= hi_orig (st_getd (nth j (hs_r hs) 0) (hs_store hs))).
Proof. exact HInv_order. Qed.
Print Assumptions C16_heap_order.

(* ---- Top / Pop / Clear / LowWatermark on the heaps *)
Theorem C16_heap_top_minimal : forall hs t, HInv hs -> hq_top hs = Some t ->
  st_get (hi_pk t) (hs_store hs) = Some t /\ hi_index t = 0%Z /\ nth 0 (hs_q hs) 0 = hi_pk t /\
  forall pk it, st_get pk (hs_store hs) = Some it -> hi_index it <> (-1)%Z -> hi_at t <= hi_at it.
Proof. exact hq_top_min. Qed.
Print Assumptions C16_heap_top_minimal.

Theorem C16_heap_top_none_iff : forall hs, HInv hs -> (hq_top hs = None <-> forall pk, ~ queued QT (hs_store hs) pk).
Proof. exact hq_top_none. Qed.
Print Assumptions C16_heap_top_none_iff.

Theorem C16_heap_pop_removes_top : forall hs t, HInv hs -> hq_top hs = Some t ->
  exists hs', hq_pop hs = Some hs' /\ HInv hs' /\
    (forall pk, In pk (hs_q hs') <-> pk <> hi_pk t /\ In pk (hs_q hs)) /\
    S (length (hs_q hs')) = length (hs_q hs) /\
    hs_r hs' = hs_r hs /\ map (erase QT) (hs_store hs') = map (erase QT) (hs_store hs).
Proof. exact hq_pop_removes_top. Qed.
Print Assumptions C16_heap_pop_removes_top.

(* Clear: both guards (range + key comparison) are true whenever the item is in the respective heap, and
   exactly the item of pk leaves the map and both arrays *)
Theorem C16_heap_clear_exact : forall hs pk it, HInv hs -> st_get pk (hs_store hs) = Some it ->
  (In pk (hs_q hs) -> clear_guard (hi_index it) (hs_q hs) pk = true) /\
  clear_guard (hi_revIndex it) (hs_r hs) pk = true /\
  HInv (hq_clear hs pk) /\
  st_get pk (hs_store (hq_clear hs pk)) = None /\
  (forall pk', In pk' (hs_q (hq_clear hs pk)) <-> pk' <> pk /\ In pk' (hs_q hs)) /\
  (forall pk', In pk' (hs_r (hq_clear hs pk)) <-> pk' <> pk /\ In pk' (hs_r hs)) /\
  map erase2 (hs_store (hq_clear hs pk)) = map erase2 (st_del pk (hs_store hs)).
Proof. exact hq_clear_exact. Qed.
Print Assumptions C16_heap_clear_exact.

(* LowWatermark peeks revQueue: 0 when the map is empty, else the minimum origRev over the map; the state
   is unchanged and the lazy-deletion loop performs no PopItem *)
Theorem C16_heap_low_watermark : forall hs, HInv hs ->
  exists v, hq_low_watermark hs = (v, hs, 0%nat) /\
    (hs_store hs = [] -> v = 0) /\
    (hs_store hs <> [] -> (exists it, In it (hs_store hs) /\ hi_orig it = v) /\
                          forall it, In it (hs_store hs) -> v <= hi_orig it).
Proof. exact hq_lwm_spec. Qed.
Print Assumptions C16_heap_low_watermark.

Theorem C16_heap_low_watermark_zero_iff : forall hs, HInv hs -> (forall it, In it (hs_store hs) -> 0 < hi_orig it) ->
  (fst (fst (hq_low_watermark hs)) = 0 <-> hs_store hs = []).
Proof. exact hq_lwm_zero_iff. Qed.
Print Assumptions C16_heap_low_watermark_zero_iff.

Theorem C16_heap_lwm_never_pops : forall hs, hreach hs ->
  snd (hq_low_watermark hs) = 0%nat /\ snd (fst (hq_low_watermark hs)) = hs.
Proof. exact lwm_never_pops. Qed.
Print Assumptions C16_heap_lwm_never_pops.

(* ---- timer re-arm invariant at heap level (ties included) *)
Theorem C16_heap_timer_rearmed : forall hs op, HInv hs -> htimer_ok hs -> htimer_ok (apply_hop hs op).
Proof. exact htimer_ok_apply. Qed.
Print Assumptions C16_heap_timer_rearmed.

Theorem C16_heap_due_head_wakes_loop : forall hs now t, HInv hs -> htimer_ok hs -> hq_top hs = Some t -> hi_at t <= now ->
  hq_fired hs now = true.
Proof. exact htimer_due_head_fires. Qed.
Print Assumptions C16_heap_due_head_wakes_loop.

(* ---- refinement to the list model Retries.v (abs forgets the arrays and the index fields) *)
Theorem C16_heap_refines_add_items : forall hs o rev orig del now, HInv hs ->
  q_items (abs (hq_add hs o rev orig del now)) = q_items (r_add (abs hs) o rev orig del now).
Proof. exact abs_add_items. Qed.
Print Assumptions C16_heap_refines_add_items.

Theorem C16_heap_refines_clear_items : forall hs pk, HInv hs ->
  q_items (abs (hq_clear hs pk)) = q_items (r_clear (abs hs) pk).
Proof. exact abs_clear_items. Qed.
Print Assumptions C16_heap_refines_clear_items.

Theorem C16_heap_refines_low_watermark : forall hs, HInv hs -> fst (fst (hq_low_watermark hs)) = r_low_watermark (abs hs).
Proof. exact abs_low_watermark. Qed.
Print Assumptions C16_heap_refines_low_watermark.

Theorem C16_heap_refines_top_retryat : forall hs, HInv hs -> option_map hi_at (hq_top hs) = option_map ri_at (r_top (abs hs)).
Proof. exact abs_top_at. Qed.
Print Assumptions C16_heap_refines_top_retryat.

Theorem C16_heap_refines_top_item_when_unique : forall hs t, HInv hs -> hq_top hs = Some t ->
  (forall pk it, st_get pk (hs_store hs) = Some it -> hi_index it <> (-1)%Z -> pk <> hi_pk t -> hi_at it <> hi_at t) ->
  r_top (abs hs) = Some (abs_item t).
Proof. exact abs_top_item. Qed.
Print Assumptions C16_heap_refines_top_item_when_unique.

(* up to ties: the heap performs Retries.v's operation with one of the allowed tie-dependent choices ... *)
Theorem C16_heap_add_up_to_ties : forall hs o rev orig del now, HInv hs ->
  exists b, abs (hq_add hs o rev orig del now) = r_add_b b (abs hs) o rev orig del now /\
            add_ok b (abs hs) o rev orig del now.
Proof. exact abs_add. Qed.
Print Assumptions C16_heap_add_up_to_ties.

Theorem C16_heap_clear_up_to_ties : forall hs pk, HInv hs ->
  exists b, abs (hq_clear hs pk) = r_clear_b b (abs hs) pk /\ clear_ok b (abs hs) pk.
Proof. exact abs_clear. Qed.
Print Assumptions C16_heap_clear_up_to_ties.

Theorem C16_heap_pop_up_to_ties : forall hs, HInv hs -> hs_q hs <> [] ->
  exists hs' t, hq_pop hs = Some hs' /\ hq_top hs = Some t /\
    abs hs' = r_pop_t (abs_item t) (abs hs) /\ is_head (q_items (abs hs)) (abs_item t).
Proof. exact abs_pop. Qed.
Print Assumptions C16_heap_pop_up_to_ties.

(* ... Retries.v's own choice is one of them, every allowed choice keeps timer_ok ... *)
Theorem C16_heap_list_add_is_allowed : forall q o rev orig del now, uniq q ->
  add_ok (match others_min_at (o_pk o) (q_items q) with None => true | Some m => ri_at (new_item q o rev orig del now) <? m end)
         q o rev orig del now.
Proof. exact r_add_ok. Qed.
Print Assumptions C16_heap_list_add_is_allowed.

Theorem C16_heap_any_add_choice_keeps_timer : forall b q o rev orig del now, timer_ok q -> add_ok b q o rev orig del now ->
  timer_ok (r_add_b b q o rev orig del now).
Proof. exact add_b_timer_ok. Qed.
Print Assumptions C16_heap_any_add_choice_keeps_timer.

(* ... and without ties it is exactly Retries.v: simulation of whole runs *)
Theorem C16_heap_simulation_initial : forall a b, R (hq_new a b) (r_new a b).
Proof. exact R_new. Qed.
Print Assumptions C16_heap_simulation_initial.

Theorem C16_heap_simulation_step : forall hs q op, R hs q -> op_no_tie q op -> R (apply_hop hs op) (apply_rop q op).
Proof. exact R_step. Qed.
Print Assumptions C16_heap_simulation_step.

Theorem C16_heap_simulation_observables : forall hs q, R hs q ->
  q_items q = map abs_item (hs_store hs) /\
  fst (fst (hq_low_watermark hs)) = r_low_watermark q /\
  hs_timer hs = q_timer q /\ (forall now, hq_fired hs now = r_fired q now) /\
  option_map hi_at (hq_top hs) = option_map ri_at (r_top q) /\
  (forall t, hq_top hs = Some t ->
     (forall pk it, st_get pk (hs_store hs) = Some it -> hi_index it <> (-1)%Z -> pk <> hi_pk t -> hi_at it <> hi_at t) ->
     r_top q = Some (abs_item t)).
Proof. exact R_observables. Qed.
Print Assumptions C16_heap_simulation_observables.

(* numRetries evolves as in Retries.v (C16_add_increments_numretries, C16_clear_resets_backoff) *)
Theorem C16_heap_add_increments_numretries : forall hs o rev orig del now, HInv hs ->
  n_of (abs (hq_add hs o rev orig del now)) (o_pk o) = Some (match n_of (abs hs) (o_pk o) with Some n => n + 1 | None => 1 end).
Proof. exact abs_add_numretries. Qed.
Print Assumptions C16_heap_add_increments_numretries.

Theorem C16_heap_clear_resets_numretries : forall hs pk pk', HInv hs ->
  n_of (abs (hq_clear hs pk)) pk' = if pk' =? pk then None else n_of (abs hs) pk'.
Proof. exact abs_clear_numretries. Qed.
Print Assumptions C16_heap_clear_resets_numretries.

Theorem C16_heap_pop_keeps_numretries : forall hs hs' pk, HInv hs -> hq_pop hs = Some hs' -> n_of (abs hs') pk = n_of (abs hs) pk.
Proof. exact abs_pop_numretries. Qed.
Print Assumptions C16_heap_pop_keeps_numretries.

(* ---- bookkeeping bugs the heap-level model tells apart (witnesses by computation) *)
Theorem C16_heap_clear_wrong_index_guarded_refuted :
  hs_q st3 = [1; 2; 3] /\ hs_r st3 = [3; 2; 1] /\
  In 3 (hs_q (hq_clear_wrongidx true st3 3)) /\ ~ In 3 (pks (hq_clear_wrongidx true st3 3)).
Proof. exact clear_wrong_index_guarded_refuted. Qed.
Print Assumptions C16_heap_clear_wrong_index_guarded_refuted.

Theorem C16_heap_clear_wrong_index_unguarded_refuted :
  hs_q (hq_clear_wrongidx false st3 3) = [2; 3] /\ In 1 (pks (hq_clear_wrongidx false st3 3)) /\
  hs_q (hq_clear st3 3) = [1; 2].
Proof. exact clear_wrong_index_unguarded_refuted. Qed.
Print Assumptions C16_heap_clear_wrong_index_unguarded_refuted.

Theorem C16_heap_add_without_revqueue_fix_refuted :
  fst (fst (hq_low_watermark (hq_add_norevfix st2 (ob 1) 9 9 false 0))) = 9 /\
  fst (fst (hq_low_watermark (hq_add st2 (ob 1) 9 9 false 0))) = 6.
Proof. exact add_without_revqueue_fix_refuted. Qed.
Print Assumptions C16_heap_add_without_revqueue_fix_refuted.

(* the list model of Retries.v is NOT exact under ties: same operations, different timer *)
Theorem C16_heap_list_model_exact_under_ties_refuted :
  hs_timer tie_hs = q_timer tie_q /\
  hs_timer (hq_add tie_hs (ob 1) 3 1 false 0) = Some 40 /\ q_timer (r_add tie_q (ob 1) 3 1 false 0) = Some 20 /\
  hq_fired (hq_add tie_hs (ob 1) 3 1 false 0) 30 = false /\ r_fired (r_add tie_q (ob 1) 3 1 false 0) 30 = true.
Proof. exact list_model_exact_under_ties_refuted. Qed.
Print Assumptions C16_heap_list_model_exact_under_ties_refuted.

(* hypotheses are satisfiable: a reachable state with three queued items of equal retryAt, a popped item that is
   still in revQueue, a non-trivial low watermark and an armed timer *)
Example C16_heap_nonvacuous :
  exists hs t, hreach hs /\ HInv hs /\ htimer_ok hs /\ hq_top hs = Some t /\
    length (hs_q hs) = 3%nat /\ length (hs_r hs) = 4%nat /\
    (exists it, st_get 2 (hs_store hs) = Some it /\ hi_pk it <> hi_pk t /\ hi_index it <> (-1)%Z /\ hi_at it = hi_at t) /\
    fst (fst (hq_low_watermark hs)) = 3.
Proof.
  set (ops := [HAdd (ob 1) 7 7 false 0; HAdd (ob 2) 5 5 false 0; HAdd (ob 3) 3 3 true 0; HAdd (ob 4) 9 9 false 0; HPop]).
  assert (Hr : hreach (fold_left apply_hop ops (hq_new 10 10))) by (exists 10, 10, ops; reflexivity).
  eexists. eexists. split; [exact Hr|]. split; [apply HInv_reach; exact Hr|].
  split; [|vm_compute; split; [reflexivity|]; split; [reflexivity|]; split; [reflexivity|]; split; [|reflexivity];
           eexists; split; [reflexivity|]; split; [discriminate|]; split; [discriminate|reflexivity]].
  intros t Ht. vm_compute in Ht. injection Ht as <-. vm_compute. eexists. split; [reflexivity|]. discriminate.
Qed.
