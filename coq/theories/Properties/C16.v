(* Properties/C16.v — Reconciler retry pacing and WaitUntilReconciled contract.
   Only statements closed by `exact`, with their assumptions printed. *)
From Coq Require Import List NArith Bool.
From SV Require Import Reconciler.Retries Reconciler.Model Reconciler.RetriesProofs Reconciler.CommitProofs Reconciler.Refuted
  Reconciler.RoundInv Reconciler.Runs Reconciler.TableWf Reconciler.Refresh.
Import ListNotations.
Open Scope N_scope.

(* backoff arithmetic: Duration n = min (min*2^n) max *)
Theorem C16_backoff_ge_min : forall bmin bmax n, bmin <= bmax -> bmin <= duration bmin bmax n.
Proof. exact duration_ge_min. Qed.
Print Assumptions C16_backoff_ge_min.

Theorem C16_backoff_le_max : forall bmin bmax n, duration bmin bmax n <= bmax.
Proof. exact duration_le_max. Qed.
Print Assumptions C16_backoff_le_max.

Theorem C16_backoff_monotone : forall bmin bmax n m, n <= m -> duration bmin bmax n <= duration bmin bmax m.
Proof. exact duration_mono. Qed.
Print Assumptions C16_backoff_monotone.

Theorem C16_backoff_doubles_below_cap : forall bmin bmax n,
  bmin * 2 ^ (n + 1) <= bmax -> duration bmin bmax (n + 1) = 2 * duration bmin bmax n.
Proof. exact duration_doubles. Qed.
Print Assumptions C16_backoff_doubles_below_cap.

(* an item that failed at time `now` (Add) is queued for now + Duration(numRetries): never sooner than
   now + min, never later than now + max; processRetries pops only items with retryAt <= now *)
Theorem C16_retry_not_before_backoff : forall q o rev orig del now it,
  q_min q <= q_max q ->
  find_item (o_pk o) (q_items (r_add q o rev orig del now)) = Some it ->
  now + q_min q <= ri_at it /\ ri_at it <= now + q_max q /\ ri_at it = now + duration (q_min q) (q_max q) (ri_n it).
Proof. exact add_not_due_before. Qed.
Print Assumptions C16_retry_not_before_backoff.

(* consecutive failures: Add increments numRetries (so the wait does not shrink: C16_backoff_monotone) *)
Theorem C16_add_increments_numretries : forall q o rev orig del now,
  n_of (r_add q o rev orig del now) (o_pk o) = Some (match n_of q (o_pk o) with Some n => n + 1 | None => 1 end).
Proof. exact n_of_add_same. Qed.
Print Assumptions C16_add_increments_numretries.

(* numRetries only grows between Clears ... *)
Theorem C16_numretries_only_grows : forall q op pk n, uniq q -> op <> QClear pk -> n_of q pk = Some n ->
  exists n', n_of (apply_qop q op) pk = Some n' /\ n <= n'.
Proof. exact numretries_only_grows. Qed.
Print Assumptions C16_numretries_only_grows.

(* ... and Clear (on success or on a processed change of that key) starts the backoff over *)
Theorem C16_clear_resets_backoff : forall q pk o rev orig del now, o_pk o = pk ->
  n_of (r_clear q pk) pk = None /\ n_of (r_add (r_clear q pk) o rev orig del now) pk = Some 1.
Proof.
  intros q pk o rev orig del now H. split; [exact (n_of_clear_same q pk)|].
  subst pk. rewrite n_of_add_same, n_of_clear_same. reflexivity.
Qed.
Print Assumptions C16_clear_resets_backoff.

(* timer re-arm: after every queue operation, if an item is queued a timer is armed (or has fired)
   with a deadline not after the head's retryAt, so an idle reconciler wakes up when the head is due *)
Theorem C16_timer_rearmed : forall q op, timer_ok q -> timer_ok (apply_qop q op).
Proof. exact timer_ok_apply. Qed.
Print Assumptions C16_timer_rearmed.

Theorem C16_due_head_wakes_loop : forall q now t, timer_ok q -> r_top q = Some t -> ri_at t <= now -> r_fired q now = true.
Proof. exact due_head_fires. Qed.
Print Assumptions C16_due_head_wakes_loop.

(* low watermark: zero exactly when no failed object awaits retry, else the minimum origRev *)
Theorem C16_low_watermark_zero_iff : forall q, (forall i, In i (q_items q) -> 0 < ri_orig i) ->
  (r_low_watermark q = 0 <-> q_items q = []).
Proof. exact low_watermark_zero_iff. Qed.
Print Assumptions C16_low_watermark_zero_iff.

Theorem C16_low_watermark_is_min : forall q, q_items q <> nil -> lwm_is_min q.
Proof. exact low_watermark_is_min. Qed.
Print Assumptions C16_low_watermark_is_min.

(* with fix cd98c3d the origRev of a failing change survives retry + status commit unchanged, so the
   minimum above is the revision of the oldest failing CHANGE (not of the reconciler's Error writes) *)
Theorem C16_origrev_stable : forall e snap q res it e1 q1 res1 now t q2 t' q',
  ri_del it = false -> keyed t ->
  process_single e snap false q res (ri_obj it) (ri_rev it) (ri_orig it) (ri_del it) = (e1, q1, res1) ->
  exists r, res1 = res ++ [r] /\ r_orig r = ri_orig it /\ o_pk (r_obj r) = ri_pk it /\
    (commit_one true true now (t, q2) r = (t', q') ->
     orig_of q' (ri_pk it) = orig_of q2 (ri_pk it) \/ orig_of q' (ri_pk it) = Some (ri_orig it)).
Proof. exact origrev_stable. Qed.
Print Assumptions C16_origrev_stable.

(* the pre-fix code violates that clause: one change at revision 1 keeps failing, watermark 1,2,3 *)
Theorem C16_low_watermark_drift_refuted :
  exists cf e0, cf = drift_cf /\ e0 = drift_e0 /\
    run_drift false = ([1; 2; 3], [(1, 1, kind_code Error)]) /\
    run_drift true = ([1; 1; 1], [(1, 1, kind_code Error)]).
Proof. exact low_watermark_drift_refuted. Qed.
Print Assumptions C16_low_watermark_drift_refuted.

(* WaitUntilReconciled(req) returns without error iff the progress revision has reached req; the
   progress revision only grows and is the revision of the last change delivered in a completed round *)
Theorem C16_wait_until_reconciled : forall s req,
  (snd (wur s req) = true <-> req <= k_prev s) /\
  forall rev lwm, k_prev s <= k_prev (progress_update s rev lwm) /\ rev <= k_prev (progress_update s rev lwm) /\
                  k_plwm (progress_update s rev lwm) = lwm.
Proof. exact wur_spec. Qed.
Print Assumptions C16_wait_until_reconciled.

(* WaitUntilReconciled(req) returns nil only after every change <= req has been attempted: in every
   reachable state of the reconciler (single or batch mode, any history of writes, faults, timings) the reported
   revision k_prev is at most the change cursor (the revision of the last change delivered in a completed
   round), and every object with revision <= k_prev is no longer Pending/Refreshing (its status was written
   by a status commit, i.e. after an Update of that version: C15_commit_effect) and every deletion with
   revision <= k_prev has been handed to Delete/DeleteBatch at least once (Acall: a call in the log).
   (The Go oracles wur-ok-before-change-attempted and progress-revision-ahead-of-attempts check the same
   on the implementation on every run.) *)
Theorem C16_wur_only_after_attempted : forall cf st, reach cf st ->
  k_prev (snd st) <= k_cursor (snd st) /\ attempted_upto (fst st) (snd st) /\
  forall req, snd (wur (snd st) req) = true -> forall pk sl, slot_of (e_tab (fst st)) pk = Some sl -> slot_rev sl <= req ->
    match sl with Live o _ => is_pending o = false | Dead _ r => Acall (fst st) pk r end.
Proof. exact wur_only_after_attempted. Qed.
Print Assumptions C16_wur_only_after_attempted.

(* the refresher (reconciler.go refreshLoop) is the only other writer inside the library. "The backoff starts over
   after the object changes or succeeds" - and not because the refresher came by: in every reachable state an
   object with a queued update retry is left exactly as it is by the refresher's write transaction, whatever
   (stale) snapshot the refresher took its (object, revision) pair from: the table is unchanged, so the next round
   sees no change of that key, Clear is not called and the item keeps its retryAt and numRetries
   (C16_numretries_only_grows, C16_retry_not_before_backoff). Timing of the sweep (UpdatedAt, RefreshInterval,
   RefreshRateLimiter) is not modelled: (o, rev) is ANY Done object of ANY earlier snapshot. Checked on the
   implementation by the directed probe `probe refreshbackoff` (!BAD:C16:re-attempt-...-after-failure). *)
Theorem C16_refresher_never_restarts_a_backoff : forall cf e s snap o rev it, reach cf (e, s) ->
  twf snap -> tstep snap (e_tab e) -> refresher_saw snap o rev ->
  In it (q_items (k_ret s)) -> ri_del it = false -> ri_pk it = o_pk o ->
  refresh_write (e_tab e) o rev = e_tab e.
Proof. exact refresher_leaves_queued_retries_alone. Qed.
Print Assumptions C16_refresher_never_restarts_a_backoff.

(* the revision comparison is what this rests on: with `if ok` alone (seeded change S3-C16-2) the Error object
   of a failing update (retry queued for time 60, numRetries 2) is overwritten with Refreshing at time 20, Update
   is called again at once and the item is re-queued for time 40 with numRetries 1 *)
Theorem C16_refresher_no_revision_check_refuted :
  refresher_saw rf_snap rf_o rf_rev /\
  t_live rf_err 1 = Some (mkObj 1 2 Error 5 0, 5) /\
  e_now (fst rf_st1) = 20 /\ items_of (snd rf_st1) = [(1, 60, 2)] /\
  t_live (refresh_write_nocheck rf_err rf_o) 1 = Some (mkObj 1 2 Refreshing 6 0, 6) /\
  refresh_write rf_err rf_o rf_rev = rf_err /\
  calls_of (fst (rf_next rf_err)) = [] /\ items_of (snd (rf_next rf_err)) = [(1, 60, 2)] /\
  calls_of (fst (rf_next (refresh_write_nocheck rf_err rf_o))) = [(20, 0, 1, false)] /\
  items_of (snd (rf_next (refresh_write_nocheck rf_err rf_o))) = [(1, 40, 1)].
Proof. exact refresh_no_revision_check_refuted. Qed.
Print Assumptions C16_refresher_no_revision_check_refuted.

Example C16_nonvacuous :
  duration 10 80 1 = 20 /\ duration 10 80 5 = 80 /\
  timer_ok (r_add (r_new 10 80) (mkObj 1 1 Pending 1 0) 2 1 false 100) /\
  r_low_watermark (r_add (r_add (r_new 10 80) (mkObj 1 1 Pending 1 0) 2 7 false 100) (mkObj 2 1 Pending 2 0) 3 5 false 100) = 5.
Proof.
  split; [vm_compute; reflexivity|]. split; [vm_compute; reflexivity|].
  split; [apply add_timer_ok; apply timer_ok_new|vm_compute; reflexivity].
Qed.
