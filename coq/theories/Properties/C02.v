(* Properties/C02.v — Commit is atomic across tables; Abort leaves no trace.
   Sequential part on Table/Model.v; the interleaving part is in DB/Sched (see C02 notes). *)
From SV Require Import Base.Bytes Base.OrdMap Table.Model Table.Proofs.
Open Scope N_scope.

(* before Commit nothing a write transaction does is visible in the committed root *)
Theorem C02_uncommitted_invisible : forall d ops,
  forallb txn_local ops = true -> d_root (fst (run d ops)) = d_root d.
Proof. exact txn_writes_invisible. Qed.
Print Assumptions C02_uncommitted_invisible.

(* Abort: the committed root (contents, every index, revisions, graveyard, trackers,
   initializers of every table) is exactly what it was *)
Theorem C02_abort_leaves_no_trace : forall d tabs ops,
  d_txn d = None -> forallb txn_local ops = true ->
  let d' := fst (run d (OBegin tabs :: ops ++ [OAbort])) in
  d_root d' = d_root d /\ d_txn d' = None.
Proof. exact abort_restores_root. Qed.
Print Assumptions C02_abort_leaves_no_trace.

Example C02_nonvacuous :
  d_root (fst (run (init_db 2) [OBegin [0%nat]; OInsert 0 (mkP [97] 1 [] [] [] []); OAbort])) = d_root (init_db 2).
Proof. reflexivity. Qed.

(* ==== interleaved part: all schedules of the commit protocol (DB/Model.v; DB/Visibility.v, DB/Reach.v) =====
   `reach ntab actors sched = DB.Model.run (init_st ntab actors) sched` for ANY schedule of ANY well-formed
   system of concurrent write transactions / table registrations; table contents are abstracted to the set of
   ids of the transactions whose writes they contain (tv_ids). The DB names are kept inside a module because
   DB/Model.v and Table/Model.v both define `run` and `step`. *)
From SV Require DB.Model DB.Invariants DB.Visibility DB.Reach.
Module C02_DB.
Import SV.DB.Model SV.DB.Invariants SV.DB.Visibility SV.DB.Reach.
Local Open Scope nat_scope.

(* exact visibility: the id of transaction i is in the committed entry of table t iff i writes t and has
   executed its root store (`committed`: pc at or past PRootStored, committing) *)
Theorem C02_visible_iff : forall ntab actors sched i a t v, wf_system ntab actors ->
  let s := reach ntab actors sched in
  nth_error (s_actors s) i = Some a -> nth_error (s_root s) t = Some v ->
  (In (a_id a) (tv_ids v) <-> committed a = true /\ In t (writes_of a)).
Proof. exact visible_iff_reachable. Qed.
Print Assumptions C02_visible_iff.

(* ATOMIC VISIBILITY under every interleaving: in every reachable state either all tables written by a
   transaction show its id in the committed root, or no table at all does *)
Theorem C02_atomic_visibility_interleaved : forall ntab actors sched i a, wf_system ntab actors ->
  let s := reach ntab actors sched in
  nth_error (s_actors s) i = Some a ->
  (forall t, In t (writes_of a) -> exists v, nth_error (s_root s) t = Some v /\ In (a_id a) (tv_ids v)) \/
  (forall t v, nth_error (s_root s) t = Some v -> ~ In (a_id a) (tv_ids v)).
Proof. exact atomic_visibility_reachable. Qed.
Print Assumptions C02_atomic_visibility_interleaved.

(* ABORT LEAVES NO TRACE under every interleaving: no step of an aborting writer changes the committed root
   or closes a channel, and its id is in no entry of any reachable root *)
Theorem C02_abort_leaves_no_trace_interleaved : forall ntab actors sched i a, wf_system ntab actors ->
  let s := reach ntab actors sched in
  nth_error (s_actors s) i = Some a -> commits a = false ->
  s_closed (step s i) = s_closed s /\
  (a_kind a <> KRegistrar -> s_root (step s i) = s_root s) /\
  (forall t v, nth_error (s_root s) t = Some v -> ~ In (a_id a) (tv_ids v)).
Proof. exact abort_no_trace_reachable. Qed.
Print Assumptions C02_abort_leaves_no_trace_interleaved.

Example C02_nonvacuous_interleaved :
  let acts := [(1%N, KWriter [0; 1] [0; 1] true [] []); (2%N, KWriter [0] [0] false [] [])] in
  wf_system 2 acts /\
  map tv_ids (s_root (reach 2 acts (repeat 0 10))) = [[]; []] /\
  map tv_ids (s_root (reach 2 acts (repeat 0 11))) = [[1%N]; [1%N]].
Proof.
  split; [split|].
  - intros ik [<-|[<-|[]]]; cbn; repeat split; try (intros x Hx; cbn in Hx; intuition (subst; cbn; auto)).
  - cbn. repeat constructor; cbn; intuition discriminate.
  - vm_compute. split; reflexivity.
Qed.
End C02_DB.
