(* Properties/C02.v — Commit is atomic across tables; Abort leaves no trace.
   Sequential part on Table/Model.v; the interleaving part is in DB/Sched (see C02 notes). *)
From SV Require Import Base.Bytes Base.OrdMap Table.Model Table.Proofs.
Open Scope N_scope.

(* before Commit nothing a write transaction does is visible in the committed root *)
Theorem C02_uncommitted_invisible : forall d ops,
  forallb txn_local ops = true -> d_root (fst (run d ops)) = d_root d.
Proof. exact txn_writes_invisible. Qed.
Print Assumptions C02_uncommitted_invisible.

(* Abort: the committed root (contents, every index, revisions, graveyard, trackers,
   initializers of every table) is exactly what it was *)
Theorem C02_abort_leaves_no_trace : forall d tabs ops,
  d_txn d = None -> forallb txn_local ops = true ->
  let d' := fst (run d (OBegin tabs :: ops ++ [OAbort])) in
  d_root d' = d_root d /\ d_txn d' = None.
Proof. exact abort_restores_root. Qed.
Print Assumptions C02_abort_leaves_no_trace.

Example C02_nonvacuous :
  d_root (fst (run (init_db 2) [OBegin [0%nat]; OInsert 0 (mkP [97] 1 [] [] [] []); OAbort])) = d_root (init_db 2).
Proof. reflexivity. Qed.
