(* Properties/C11.v — part.Tree is a correct, persistent ordered map.
   Only statements closed by `exact`, with their assumptions printed.
   Model: Part/Model.v (mechanism level). abs = entry list of the tree (Part/Sem.v ents),
   specification = Base/OrdMap.v. *)
From SV Require Import Base.Bytes Base.OrdMap Part.Model Part.Sem Part.Insert Part.Delete Part.Query Part.Refine Part.Cow Part.Traverse Part.Shape.
Open Scope N_scope.

(* the abstraction of a well-formed tree is a strictly sorted association list *)
Theorem C11_abs_sorted : forall r, wf_root r -> om_sorted (abs_root r).
Proof. exact abs_sorted. Qed.
Print Assumptions C11_abs_sorted.

(* Insert / Modify / InsertWatch / ModifyWatch: invariant (key consistency, sorted children,
   size = number of entries) preserved; new contents = om_insert; returned old value = om_get;
   stored value = mod(old, new) resp. new. For all keys (empty, prefixes of each other) and trees. *)
Theorem C11_modify_refines : forall x md key v,
  txn_ok x ->
  let '(x', old, nv, _) := txn_modify x md key v in
  txn_ok x' /\
  abs_txn x' = om_insert key nv (abs_txn x) /\
  old = om_get key (abs_txn x) /\
  nv = match old with Some o => new_val md v o | None => v end.
Proof. exact txn_modify_refines. Qed.
Print Assumptions C11_modify_refines.

(* Delete (incl. removeChild promotion/demotion/merge): invariant preserved, contents = om_delete,
   returned old value = om_get *)
Theorem C11_delete_refines : forall x key,
  txn_ok x ->
  let '(x', old) := txn_delete x key in
  txn_ok x' /\ abs_txn x' = om_delete key (abs_txn x) /\ old = om_get key (abs_txn x).
Proof. exact txn_delete_refines. Qed.
Print Assumptions C11_delete_refines.

(* Get on a Tree or Txn *)
Theorem C11_get_refines : forall r rw key, wf_root r -> fst (root_get r rw key) = om_get key (abs_root r).
Proof. exact root_get_refines. Qed.
Print Assumptions C11_get_refines.

(* full iteration (Iterator.All of Tree.Iterator / Txn.Iterator / Txn.All) is exactly the sorted list *)
Theorem C11_iteration_refines : forall r, wf_root r -> iter_all (new_iterator r) = abs_root r.
Proof. exact iter_all_refines. Qed.
Print Assumptions C11_iteration_refines.

(* Len: part of txn_ok / tree_ok (size = length of the abstraction); Tree.Txn, Clone, Commit keep it *)
Theorem C11_commit_clone_txn_ok : forall x t next,
  (txn_ok x -> tree_ok (snd (txn_commit x)) /\ abs_tree (snd (txn_commit x)) = abs_txn x /\
               txn_ok (fst (txn_commit x)) /\ abs_txn (fst (txn_commit x)) = abs_txn x) /\
  (txn_ok x -> tree_ok (snd (txn_clone x)) /\ abs_tree (snd (txn_clone x)) = abs_txn x /\
               txn_ok (fst (txn_clone x)) /\ abs_txn (fst (txn_clone x)) = abs_txn x) /\
  (tree_ok t -> txn_ok (tree_txn t next) /\ abs_txn (tree_txn t next) = abs_tree t).
Proof. exact (fun x t next => conj (txn_commit_ok x) (conj (txn_clone_ok x) (tree_txn_ok t next))). Qed.
Print Assumptions C11_commit_clone_txn_ok.

(* all histories inside a transaction: any sequence of inserts, modifies, deletes and id bumps
   (Clone / Iterator / Prefix / LowerBound / All) — induction, no bounds *)
Theorem C11_history_refines : forall ops x, txn_ok x ->
  txn_ok (fold_left wstep ops x) /\ abs_txn (fold_left wstep ops x) = fold_left mstep ops (abs_txn x).
Proof. exact history_refines. Qed.
Print Assumptions C11_history_refines.

(* all chains of committed transactions *)
Theorem C11_chain_refines : forall txns t next, tree_ok t ->
  Forall tree_ok (run_txns t next txns) /\ map abs_tree (run_txns t next txns) = run_abs (abs_tree t) txns.
Proof. exact chain_refines. Qed.
Print Assumptions C11_chain_refines.

(* persistence over histories (model level): the versions produced so far are a prefix of
   what any continuation produces *)
Theorem C11_chain_persistent : forall txns0 txns1 t next,
  exists later, run_txns t next (txns0 ++ txns1) = run_txns t next txns0 ++ later.
Proof. exact chain_persistent. Qed.
Print Assumptions C11_chain_persistent.

(* ---- copy-on-write discipline (what makes the persistence of the pure model valid for the Go heap):
   a txn mutates in place (cloneNode = identity) only nodes whose id equals its own id ... *)
Theorem C11_cow_inplace_only_own : forall c s t w, t <> c_tid c ->
  fst (fst (clone_hdr c s t w)) = c_tid c /\ s_ws (snd (clone_hdr c s t w)) = s_ws (record w s).
Proof. exact clone_hdr_inplace_only. Qed.
Print Assumptions C11_cow_inplace_only_own.

(* ... every node in a txn's tree has id <= the txn id, preserved by Insert/Modify/Delete ... *)
Theorem C11_cow_ids_bounded : forall x md key v,
  (txn_ids_ok x -> txn_ids_ok (fst (fst (fst (txn_modify x md key v)))) /\
                   t_tid (fst (fst (fst (txn_modify x md key v)))) = t_tid x) /\
  (txn_ids_ok x -> txn_ids_ok (fst (txn_delete x key)) /\ t_tid (fst (txn_delete x key)) = t_tid x).
Proof. exact (fun x md key v => conj (txn_modify_ids x md key v) (txn_delete_ids x key)). Qed.
Print Assumptions C11_cow_ids_bounded.

(* ... every root handed out (Clone, Iterator/Prefix/LowerBound/All = bump, Commit) reaches only ids
   strictly below the txn id from then on, and a txn begun from a committed tree starts above all its ids ... *)
Theorem C11_cow_published : forall x t next,
  (txn_ids_ok x -> published (bump x) (t_root x) /\ txn_ids_ok (bump x)) /\
  (txn_ids_ok x -> tree_ids_ok (snd (txn_clone x)) /\ txn_ids_ok (fst (txn_clone x))) /\
  (txn_ids_ok x -> tree_ids_ok (snd (txn_commit x)) /\ txn_ids_ok (fst (txn_commit x))) /\
  (tree_ids_ok t -> txn_ids_ok (tree_txn t next) /\ published (tree_txn t next) (tr_root t)) /\
  (forall x' r, t_tid x <= t_tid x' -> published x r -> published x' r).
Proof.
  exact (fun x t next => conj (bump_publishes x) (conj (clone_publishes x) (conj (commit_publishes x)
          (conj (tree_txn_ids t next) (fun x' r => published_mono x x' r))))).
Qed.
Print Assumptions C11_cow_published.

(* ... hence no node (inner node or leaf) of a published root is ever mutated in place *)
Theorem C11_cow_published_never_mutated : forall x r, published x r ->
  match r with None => True | Some n => no_inplace (txn_ctx x) n end.
Proof. exact published_never_mutated. Qed.
Print Assumptions C11_cow_published_never_mutated.

(* Prefix (Tree.Prefix / Txn.Prefix): the iterator yields exactly the entries whose key starts with q, in order
   (q empty, ending inside a compressed path, at an inner node, at a leaf, or matching nothing) *)
Theorem C11_prefix_refines : forall r rw q, wf_root r ->
  iter_all (fst (root_prefix r rw q)) = om_prefix q (abs_root r).
Proof. exact root_prefix_refines. Qed.
Print Assumptions C11_prefix_refines.

(* LowerBound (incl. the node256 variant and traverseToMin): exactly the entries with key >= k, in order *)
Theorem C11_lowerbound_refines : forall r k, wf_root r ->
  iter_all (root_lowerbound r k) = om_lower_bound k (abs_root r).
Proof. exact root_lowerbound_refines. Qed.
Print Assumptions C11_lowerbound_refines.

(* Iterator.Next (the edge-stack loop, explicit fuel) pops exactly the head of what Iterator.All yields *)
Theorem C11_next_agrees_all : forall it,
  match iter_next it with
  | (Some kv, it') => iter_all it = kv :: iter_all it'
  | (None, it') => iter_all it = [] /\ iter_all it' = []
  end.
Proof. exact iter_next_agrees_all. Qed.
Print Assumptions C11_next_agrees_all.

(* shape part of the invariant (what validateTree asserts): kind tag = capacity class of the child count
   (4: <=4, 16: 5..16, 48: 17..48, 256: >=49) and no leafless inner node with fewer than two children; preserved by
   Insert/Modify (promotion) and Delete (removeChild demotion / merge) *)
Theorem C11_shape_preserved : forall x md key v,
  match t_root x with None => True | Some n => wfk [] n end -> shape_root (t_root x) ->
  shape_root (t_root (fst (fst (fst (txn_modify x md key v))))) /\ shape_root (t_root (fst (txn_delete x key))).
Proof. exact txn_shape_preserved. Qed.
Print Assumptions C11_shape_preserved.

(* non-vacuity: the fresh tree satisfies the invariant, and a concrete history with keys that are
   prefixes of each other, the empty key, and a delete that merges nodes runs as specified *)
Example C11_nonvacuous :
  tree_ok (fst (tree_new false 1)) /\
  abs_txn (fold_left wstep [WIns [1;2] 10; WIns [] 11; WIns [1] 12; WIns [1;2;3] 13; WBump; WDel [1]; WMod [1;2] 5 mod_fun]
                     (tree_txn (fst (tree_new false 1)) 2))
  = [([], 11); ([1;2], 75); ([1;2;3], 13)].
Proof. split; [exact (proj1 (tree_new_ok false 1))|vm_compute; reflexivity]. Qed.
